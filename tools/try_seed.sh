#!/bin/bash
# usage: tools/try_seed.sh <patch.diff> <property ids...>   -- applies a seeded change to /repo, runs the quick checks, reverts
patch="$1"; shift
cd /repo && git status --short | grep -v '^??' | head -3
git -C /repo apply "$patch" || { echo "patch does not apply"; exit 2; }
for p in "$@"; do
  out=$(cd /verif && timeout 1500 ./check $p --tier quick 2>&1 | grep -E "^(VIOLATION|OK|KNOWN)" | cut -c1-160)
  echo "== $p"; echo "$out" | grep -v KNOWN | head -4
done
git -C /repo checkout -- . ; git -C /repo status --short | grep -v '^??' | head -3
(cd /verif/harness && cargo build --offline 2>&1 | grep -E "^error" | head -2)
