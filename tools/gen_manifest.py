#!/usr/bin/env python3
"""Regenerates /verif/MANIFEST.json from vlib/registry.py + tools/manifest_texts.json and validates it."""
import json, os, subprocess, sys
ROOT = os.path.dirname(os.path.dirname(os.path.abspath(__file__)))
sys.path.insert(0, ROOT)
from vlib import registry
texts = json.load(open(os.path.join(ROOT, "tools", "manifest_texts.json")))
hooks_commits = subprocess.run(["git", "-C", "/repo", "log", "--format=%H %s"], capture_output=True, text=True).stdout
hook_ids = [l.split()[0] for l in hooks_commits.splitlines() if l.split(" ", 1)[1].startswith("verif hooks")]
checks = []
for pid in sorted(registry.PROPS):
    if not registry.PROPS[pid].get('ready'):
        continue
    t = texts["checks"][pid]
    checks.append({
        "property_id": pid,
        "quick_cmd": f"./check {pid} --tier quick",
        "thorough_cmd": f"./check {pid} --tier thorough",
        "evidence_file": f"/verif/evidence/{pid}.json",
        "replay_cmd_template": f"./check {pid} --replay {{path}}",
        "engine": "lean-model+rust-harness",
        "level_claimed": {"category": "proof", "text": t["text"], "design_ref": t["design_ref"]},
        "level_note": t["note"],
        "technique": t["technique"],
    })
claimed = {c["property_id"] for c in checks}
na = [{"property_id": p, "reason": r} for p, r in sorted(texts["not_applicable"].items()) if p not in claimed]
man = {
    "version": 1,
    "setup_cmd": "./setup.sh",
    "hooks": {
        "guard": "anysystem_verif",
        "enable": "RUSTFLAGS=\"--cfg anysystem_verif\" (set in /verif/harness/.cargo/config.toml; the harness has a path dependency on /repo)",
        "baseline_off_cmd": "cd /repo && PYTHONPATH=/repo/python cargo test --workspace --no-fail-fast --offline",
        "source_commits": hook_ids,
        "add_only": True,
    },
    "engines": [
        {"name": "lean-model", "path": "/verif/lean", "serves_properties": sorted(claimed),
         "kind_free_text": "Lean 4 executable model of the Rust algorithms + specifications + theorems; compiled driver asdriver"},
        {"name": "rust-harness", "path": "/verif/harness", "serves_properties": sorted(claimed),
         "kind_free_text": "vh: drives the real anysystem crate (path dependency on /repo, hooks on) with the same scenario lines as the driver"},
        {"name": "check", "path": "/verif/check", "serves_properties": sorted(claimed),
         "kind_free_text": "python orchestration: lake build + axiom audit, cargo build, generators, diff, monitors, shrinking, evidence"},
    ],
    "checks": checks,
    "notes": texts["notes"],
    "not_applicable": na,
}
json.dump(man, open(os.path.join(ROOT, "MANIFEST.json"), "w"), indent=1)
print("wrote MANIFEST.json with", len(checks), "checks;", len(na), "not_applicable")
r = subprocess.run(["python3-vt", "-c", "import json,jsonschema,sys; jsonschema.validate(json.load(open('/verif/MANIFEST.json')), json.load(open('/root/.vp/MANIFEST.schema.json'))); print('manifest valid')"], capture_output=True, text=True)
print(r.stdout, r.stderr[-500:])
