#!/usr/bin/env python3
"""C01, static part: every place where /repo/src iterates over a HashMap/HashSet-typed value.
Prints JSON {"file:field:method": count}.  The reviewed table is vlib/hash_sites.json (each entry with the
reason it cannot reach a log, trace, queue or predicate-evaluation order)."""
import json, os, re, sys

SRC = sys.argv[1] if len(sys.argv) > 1 else "/repo/src"
FIELD = re.compile(r"(?:pub(?:\(crate\))?\s+)?(\w+)\s*:\s*(?:Rc<RefCell<)?(HashMap|HashSet)<")
LOCAL = re.compile(r"let\s+(?:mut\s+)?(\w+)\s*(?::\s*(HashMap|HashSet)<[^=]*)?=\s*(?:.*(HashMap|HashSet)(?:::<[^>]*>)?::(?:new|default|from_iter|with_capacity))")
PARAM = re.compile(r"(\w+)\s*:\s*&?(?:mut\s+)?(HashMap|HashSet)<")
ITER = r"\s*\.\s*(keys|values|values_mut|iter|iter_mut|into_iter|drain|into_keys|into_values)\("


def all_names():
    names = set()
    for base, _, files in os.walk(SRC):
        for fn in files:
            if fn.endswith(".rs"):
                text = open(os.path.join(base, fn)).read()
                names |= set(m.group(1) for m in FIELD.finditer(text))
    return names


def scan():
    res = {}
    global_names = all_names()
    for base, _, files in os.walk(SRC):
        for fn in sorted(files):
            if not fn.endswith(".rs"):
                continue
            path = os.path.join(base, fn)
            rel = os.path.relpath(path, SRC)
            text = open(path).read()
            # drop test modules
            text = re.split(r"#\[cfg\(test\)\]\s*mod tests", text)[0]
            names = global_names | set(m.group(1) for m in LOCAL.finditer(text)) | set(m.group(1) for m in PARAM.finditer(text))
            for name in sorted(names):
                for m in re.finditer(r"\b" + re.escape(name) + ITER, text):
                    key = f"{rel}:{name}:{m.group(1)}"
                    res[key] = res.get(key, 0) + 1
                for m in re.finditer(r"for\s+[^\n]*\s+in\s+&?(?:mut\s+)?(?:\w+\.)*" + re.escape(name) + r"\b\s*\{", text):
                    key = f"{rel}:{name}:for"
                    res[key] = res.get(key, 0) + 1
                for m in re.finditer(r"(?:from_iter|extend)\(\s*(?:self\.)?(?:\w+\.)?" + re.escape(name) + r"\b", text):
                    key = f"{rel}:{name}:from_iter/extend"
                    res[key] = res.get(key, 0) + 1
    return res


if __name__ == "__main__":
    print(json.dumps(scan(), indent=1, sort_keys=True))
