#!/bin/bash
# usage: tools/keep_seed.sh <id> <name> "<caught-by text>"  -- archives a confirmed seeded change from /tmp/wt/<id> under /verif/seeded/<name> and removes the worktree
id="$1"; name="$2"; caught="$3"; wt=/tmp/wt/$id; dst=/verif/seeded/$name
mkdir -p "$dst"
cp "$wt/patch.diff" "$dst/patch.diff"; cp "$wt/tests/seeded_demo.rs" "$dst/seeded_demo.rs" 2>/dev/null
python3 - "$wt" "$dst" "$id" "$caught" <<'PY'
import json,sys
wt,dst,pid,caught=sys.argv[1:5]
try: m=json.load(open(wt+"/meta.json"))
except Exception: m={}
conf=open(f"/tmp/wt/{pid}.confirm.txt").read() if __import__("os").path.exists(f"/tmp/wt/{pid}.confirm.txt") else ""
out={"property":pid,"summary":m.get("summary"),"needs":m.get("needs"),"demo":"seeded_demo.rs (copy to tests/ of a checkout with patch.diff applied; fails with the change, passes without)",
     "confirmed_by_me":conf.strip().splitlines()[:8],"checks":caught,"agent_ran":m.get("ran")}
json.dump(out,open(dst+"/meta.json","w"),indent=1)
PY
git -C /repo worktree remove --force "$wt" && rm -f /tmp/wt/$id.confirm.txt
ls "$dst"
