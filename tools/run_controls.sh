#!/bin/bash
# apply each harmless refactoring, run all 20 quick checks
cd /verif
for rf in RF1 RF2 RF3; do for k in 1 2 3 4; do
  p=/verif/controls/${rf}_$k.diff
  [ -f $p ] || continue
  git -C /repo apply $p || { echo "$rf/$k does not apply"; continue; }
  echo "=== $rf/$k"
  for id in C01 C02 C03 C04 C05 C06 C07 C08 C09 C10 C11 C12 C13 C14 C15 C16 C17 C18 C19 C20; do
    out=$(timeout 1500 ./check $id --tier quick 2>&1 | grep -E "^(VIOLATION|OK)" | cut -c1-200)
    echo "$id: $(echo "$out" | grep -c VIOLATION) viol; $(echo "$out" | grep VIOLATION | head -2)"
  done
  git -C /repo checkout -- .
done; done
(cd /verif/harness && cargo build --offline 2>&1 | grep -E "^error" | head -2)
echo DONE
