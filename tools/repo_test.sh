#!/bin/bash
# runs the repository's own suite with the verification guard OFF and prints a one-line summary
cd /repo || exit 2
out=$(CARGO_NET_OFFLINE=true PYTHONPATH=/repo/python cargo test --workspace --no-fail-fast --offline 2>&1)
echo "$out" | grep -E "^test result|^error|FAILED|failed" | head -40
p=$(echo "$out" | grep -E "^test result" | sed -E 's/.* ([0-9]+) passed.*/\1/' | paste -sd+ | bc)
f=$(echo "$out" | grep -E "^test result" | sed -E 's/.* ([0-9]+) failed.*/\1/' | paste -sd+ | bc)
echo "TOTAL passed=$p failed=$f"
[ "$f" = "0" ] && [ "$p" = "166" ]
