#!/bin/bash
# usage: tools/confirm_seed.sh <worktree> [extra RUSTFLAGS]  -- confirms: with the change the 166 tests pass and the demo fails; without it the demo passes
wt="$1"; cd "$wt" || exit 2
export CARGO_NET_OFFLINE=true PYTHONPATH="$wt/python"
[ -n "$2" ] && export RUSTFLAGS="$2"
out=$(cargo test --workspace --no-fail-fast --offline 2>&1)
p=$(echo "$out" | grep -E "^test result" | sed -E 's/.* ([0-9]+) passed.*/\1/' | paste -sd+ | bc)
f=$(echo "$out" | grep -E "^test result" | sed -E 's/.* ([0-9]+) failed.*/\1/' | paste -sd+ | bc)
echo "with change: passed=$p failed=$f (expected: 166 passed + demo failing)"
echo "$out" | grep -E "^test .*FAILED|^test .* failed" | head -5
git stash -q
out2=$(cargo test --offline --test seeded_demo 2>&1 | grep -E "^test result")
echo "without change, demo: $out2"
git stash pop -q
git status --short | head -5
