/-! Spike: mirrored DependencyResolver (timers part) + abstract spec + refinement. -/
namespace Spike

abbrev Id := Nat

structure TimerInfo where
  proc : Nat
  delay : Nat
  blockers : List Id
deriving DecidableEq, Repr

/-- Mirrors `DependencyResolver.timers` (insertion order kept; ids unique). -/
structure Resolver where
  timers : List (Id × TimerInfo)
deriving DecidableEq, Repr

/-- `add_timer`: blockers = currently pending timers of the same process with delay `<=`. -/
def Resolver.addTimer (r : Resolver) (proc delay : Nat) (id : Id) : Resolver × Bool :=
  let blockers := (r.timers.filter (fun (_, t) => t.proc == proc && t.delay ≤ delay)).map (·.1)
  ({ timers := r.timers ++ [(id, { proc, delay, blockers })] }, blockers.isEmpty)

/-- `remove_timer`: drop the entry, erase the id from the other timers' blockers of that process,
    return the ids whose blocker set is now empty. -/
def Resolver.removeTimer (r : Resolver) (id : Id) : Option (Resolver × List Id) :=
  match r.timers.find? (·.1 == id) with
  | none => none
  | some (_, info) =>
    let rest := r.timers.filter (·.1 != id)
    let rest' := rest.map (fun (i, t) =>
      if t.proc == info.proc then (i, { t with blockers := t.blockers.filter (· != id) }) else (i, t))
    let unblocked := (rest'.filter (fun (_, t) => t.proc == info.proc && t.blockers.isEmpty)).map (·.1)
    some ({ timers := rest' }, unblocked)

/-- Abstract spec: pending timers in insertion order. -/
structure ATimer where
  id : Id
  proc : Nat
  delay : Nat
deriving DecidableEq, Repr

/-- earlier pending timers of the same process with delay ≤ -/
def specBlockers : List ATimer → ATimer → List Id
  | pre, t => (pre.filter (fun u => u.proc == t.proc && u.delay ≤ t.delay)).map (·.id)

/-- the refinement relation: concrete timers list = abstract list decorated with spec blockers -/
def decorate : List ATimer → List ATimer → List (Id × TimerInfo)
  | _, [] => []
  | pre, t :: rest => (t.id, { proc := t.proc, delay := t.delay, blockers := specBlockers pre t }) :: decorate (pre ++ [t]) rest

def Refines (r : Resolver) (a : List ATimer) : Prop := r.timers = decorate [] a

theorem decorate_append (pre xs : List ATimer) (t : ATimer) :
    decorate pre (xs ++ [t]) = decorate pre xs ++ [(t.id, { proc := t.proc, delay := t.delay, blockers := specBlockers (pre ++ xs) t })] := by
  induction xs generalizing pre with
  | nil => simp [decorate]
  | cons x xs ih => simp [decorate, ih, List.append_assoc]

theorem decorate_map_fst (pre xs : List ATimer) : (decorate pre xs).map (·.1) = xs.map (·.id) := by
  induction xs generalizing pre with
  | nil => simp [decorate]
  | cons x xs ih => simp [decorate, ih]

theorem filter_decorate (pre xs : List ATimer) (proc delay : Nat) :
    ((decorate pre xs).filter (fun (_, t) => t.proc == proc && t.delay ≤ delay)).map (·.1)
      = (xs.filter (fun u => u.proc == proc && u.delay ≤ delay)).map (·.id) := by
  induction xs generalizing pre with
  | nil => simp [decorate]
  | cons x xs ih =>
    simp only [decorate, List.filter_cons]
    split <;> simp_all

/-- add_timer refines "append to the abstract list", and reports availability = no spec blockers -/
theorem addTimer_refines (r : Resolver) (a : List ATimer) (proc delay : Nat) (id : Id)
    (h : Refines r a) :
    Refines (r.addTimer proc delay id).1 (a ++ [⟨id, proc, delay⟩]) ∧
    (r.addTimer proc delay id).2 = (specBlockers a ⟨id, proc, delay⟩).isEmpty := by
  unfold Refines at *
  have hf := filter_decorate [] a proc delay
  refine ⟨?_, ?_⟩
  · simp only [Resolver.addTimer, h, decorate_append, List.nil_append, specBlockers, hf]
  · simp only [Resolver.addTimer, h, specBlockers, hf]


/-- erase an id from the abstract list -/
def aErase (a : List ATimer) (id : Id) : List ATimer := a.filter (·.id != id)

theorem specBlockers_erase (pre : List ATimer) (t : ATimer) (id : Id) :
    specBlockers (aErase pre id) t = (specBlockers pre t).filter (· != id) := by
  simp only [specBlockers, aErase, List.filter_filter, List.filter_map]
  congr 1
  apply List.filter_congr
  intro x _
  simp [Bool.and_comm]

theorem decorate_erase (pre xs : List ATimer) (id : Id) (p : Nat)
    (hp : ∀ t ∈ pre ++ xs, t.id = id → t.proc = p) :
    decorate (aErase pre id) (aErase xs id)
      = ((decorate pre xs).filter (·.1 != id)).map (fun (i, t) =>
          if t.proc == p then (i, { t with blockers := t.blockers.filter (· != id) }) else (i, t)) := by
  induction xs generalizing pre with
  | nil => simp [decorate, aErase]
  | cons x xs ih =>
    have ih' := ih (pre ++ [x]) (by simpa [List.append_assoc] using hp)
    by_cases hx : x.id = id
    · simp only [aErase, List.filter_cons, hx, bne_self_eq_false, Bool.false_eq_true, ↓reduceIte, decorate]
      have : aErase (pre ++ [x]) id = aErase pre id := by simp [aErase, List.filter_append, hx]
      rw [← ih', this]; rfl
    · have hne : (x.id != id) = true := by simp [hx]
      simp only [aErase, List.filter_cons, hne, ↓reduceIte, decorate, List.map_cons]
      have : aErase (pre ++ [x]) id = aErase pre id ++ [x] := by simp [aErase, List.filter_append, hne]
      have ih2 := ih'
      simp only [aErase] at ih2 this
      rw [← ih2, this]
      congr 1
      have hb := specBlockers_erase pre x id
      simp only [aErase] at hb
      split
      · simp [hb]
      · -- a timer of another process: id's timer (proc p) is not among its blockers
        rename_i hproc
        simp only [Prod.mk.injEq, TimerInfo.mk.injEq, true_and]
        rw [hb]
        apply List.filter_eq_self.mpr
        intro b hbm
        simp only [specBlockers, List.mem_map, List.mem_filter] at hbm
        obtain ⟨u, ⟨hu, hcond⟩, rfl⟩ := hbm
        simp only [bne_iff_ne, ne_eq]
        intro hid
        have := hp u (by simp [hu]) hid
        simp_all

end Spike
