/-! Spike for R3: generic DFS with a visited cache, mirroring `Dfs::dfs` + `Strategy::search_step`. -/
namespace Spike.Search

inductive Verdict | cont | stop | fail
deriving DecidableEq, Repr

structure Sys (σ κ : Type) where
  succ : σ → List σ
  key : σ → κ
  verdict : σ → Verdict

inductive Res (σ : Type) | ok | err (s : σ)

variable {σ κ : Type} [DecidableEq κ]

/-- result: verdict of the run, visited keys, evaluated states (ghost) -/
abbrev Out (σ κ : Type) := Res σ × List κ × List σ

/-- the `for event in available { process_event }` loop: children in order; `rec` is `dfs` with less fuel -/
def dfsList (S : Sys σ κ) (rec : σ → List κ → Option (Out σ κ)) :
    List σ → List κ → List σ → Option (Out σ κ)
  | [], V, E => some (.ok, V, E)
  | c :: cs, V, E =>
    if S.key c ∈ V then dfsList S rec cs V E
    else match rec c (S.key c :: V) with
      | none => none
      | some (.err e, V', E') => some (.err e, V', E ++ E')
      | some (.ok, V', E') => dfsList S rec cs V' (E ++ E')

def dfs (S : Sys σ κ) : Nat → σ → List κ → Option (Out σ κ)
  | 0, _, _ => none
  | n + 1, s, V =>
    match S.verdict s with
    | .fail => some (.err s, V, [s])
    | .stop => some (.ok, V, [s])
    | .cont => dfsList S (dfs S n) (S.succ s) V [s]

/-- what a successful (sub)run guarantees -/
structure Good (S : Sys σ κ) (V V' : List κ) (E : List σ) : Prop where
  mono : V ⊆ V'
  noFail : ∀ e ∈ E, S.verdict e ≠ .fail
  evalVisited : ∀ e ∈ E, S.key e ∈ V'
  closed : ∀ e ∈ E, S.verdict e = .cont → ∀ c ∈ S.succ e, S.key c ∈ V'
  origin : ∀ k ∈ V', k ∈ V ∨ ∃ e ∈ E, S.key e = k

theorem Good.weaken {S : Sys σ κ} {V V' V'' : List κ} {E : List σ}
    (h : Good S V V' E) (hm : V' ⊆ V'') :
    (∀ e ∈ E, S.verdict e ≠ .fail) ∧ (∀ e ∈ E, S.key e ∈ V'') ∧
    (∀ e ∈ E, S.verdict e = .cont → ∀ c ∈ S.succ e, S.key c ∈ V'') :=
  ⟨h.noFail, fun e he => hm (h.evalVisited e he), fun e he hc c hcm => hm (h.closed e he hc c hcm)⟩

/-- loop lemma: given the recursive call is good, the loop over children is good for the
    accumulated evaluated list, and every child key ends up visited. -/
theorem dfsList_good (S : Sys σ κ) (rec : σ → List κ → Option (Out σ κ))
    (hrec : ∀ c V V' E, S.key c ∈ V → rec c V = some (.ok, V', E) → Good S V V' E ∧ c ∈ E)
    (cs : List σ) (V : List κ) (E₀ : List σ) (V' : List κ) (E : List σ)
    (h : dfsList S rec cs V E₀ = some (.ok, V', E)) :
    V ⊆ V' ∧ (∀ c ∈ cs, S.key c ∈ V') ∧
    ∃ E₁, E = E₀ ++ E₁ ∧ Good S V V' E₁ := by
  induction cs generalizing V E₀ with
  | nil =>
    simp only [dfsList, Option.some.injEq, Prod.mk.injEq, true_and] at h
    obtain ⟨rfl, rfl⟩ := h
    exact ⟨fun _ h => h, by simp, [], by simp,
      ⟨fun _ h => h, by simp, by simp, by simp, fun k hk => Or.inl hk⟩⟩
  | cons c cs ih =>
    simp only [dfsList] at h
    split at h
    · rename_i hv
      obtain ⟨hm, hall, E₁, hE, hg⟩ := ih V E₀ h
      refine ⟨hm, ?_, E₁, hE, hg⟩
      intro x hx
      rcases List.mem_cons.mp hx with rfl | hx
      · exact hm hv
      · exact hall x hx
    · rename_i hv
      split at h
      · simp at h
      · simp at h
      · rename_i Vm Em hr
        obtain ⟨hgm, _hcE⟩ := hrec c _ _ _ (List.mem_cons_self ..) hr
        obtain ⟨hm2, hall, E₂, hE, hg2⟩ := ih Vm (E₀ ++ Em) h
        have hVVm : V ⊆ Vm := fun k hk => hgm.mono (List.mem_cons_of_mem _ hk)
        refine ⟨fun k hk => hm2 (hVVm hk), ?_, Em ++ E₂, by simp [hE, List.append_assoc], ?_⟩
        · intro x hx
          rcases List.mem_cons.mp hx with rfl | hx
          · exact hm2 (hgm.mono (List.mem_cons_self ..))
          · exact hall x hx
        · obtain ⟨w1, w2, w3⟩ := hgm.weaken hm2
          refine ⟨fun k hk => hm2 (hVVm hk), ?_, ?_, ?_, ?_⟩
          · intro e he
            rcases List.mem_append.mp he with he | he
            · exact w1 e he
            · exact hg2.noFail e he
          · intro e he
            rcases List.mem_append.mp he with he | he
            · exact w2 e he
            · exact hg2.evalVisited e he
          · intro e he hc x hx
            rcases List.mem_append.mp he with he | he
            · exact w3 e he hc x hx
            · exact hg2.closed e he hc x hx
          · intro k hk
            rcases hg2.origin k hk with hk | ⟨e, he, rfl⟩
            · rcases hgm.origin k hk with hk | ⟨e, he, rfl⟩
              · rcases List.mem_cons.mp hk with rfl | hk
                · exact Or.inr ⟨c, List.mem_append_left _ _hcE, rfl⟩
                · exact Or.inl hk
              · exact Or.inr ⟨e, List.mem_append_left _ he, rfl⟩
            · exact Or.inr ⟨e, List.mem_append_right _ he, rfl⟩

/-- DFS local correctness: an Ok run from `s` with cache `V` (where `key s ∈ V` already, as in
    `run_impl`/`search_step`, which mark before descending) is `Good` and evaluates `s`. -/
theorem dfs_good (S : Sys σ κ) (n : Nat) (s : σ) (V V' : List κ) (E : List σ)
    (hs : S.key s ∈ V) (h : dfs S n s V = some (.ok, V', E)) : Good S V V' E ∧ s ∈ E := by
  induction n generalizing s V V' E with
  | zero => simp [dfs] at h
  | succ n ih =>
    simp only [dfs] at h
    split at h
    · simp at h
    · rename_i hv
      simp only [Option.some.injEq, Prod.mk.injEq, true_and] at h
      obtain ⟨rfl, rfl⟩ := h
      refine ⟨⟨fun _ h => h, ?_, ?_, ?_, fun k hk => Or.inl hk⟩, by simp⟩
      · intro e he; simp at he; subst he; simp [hv]
      · intro e he; simp at he; subst he; exact hs
      · intro e he hc; simp at he; subst he; simp [hv] at hc
    · rename_i hv
      have hrec : ∀ c W W' F, S.key c ∈ W → dfs S n c W = some (.ok, W', F) → Good S W W' F ∧ c ∈ F :=
        fun c W W' F hc hh => ih c W W' F hc hh
      obtain ⟨hm, hall, E₁, hE, hg⟩ := dfsList_good S (dfs S n) hrec (S.succ s) V [s] V' E h
      subst hE
      refine ⟨⟨hm, ?_, ?_, ?_, ?_⟩, by simp⟩
      · intro e he
        rcases List.mem_append.mp he with he | he
        · simp at he; subst he; simp [hv]
        · exact hg.noFail e he
      · intro e he
        rcases List.mem_append.mp he with he | he
        · simp at he; subst he; exact hm hs
        · exact hg.evalVisited e he
      · intro e he hc x hx
        rcases List.mem_append.mp he with he | he
        · simp at he; subst he; exact hall x hx
        · exact hg.closed e he hc x hx
      · intro k hk
        rcases hg.origin k hk with hk | ⟨e, he, rfl⟩
        · exact Or.inl hk
        · exact Or.inr ⟨e, List.mem_append_right _ he, rfl⟩

/-- reachability through `cont` states -/
inductive ReachC (S : Sys σ κ) (s₀ : σ) : σ → Prop
  | refl : ReachC S s₀ s₀
  | step {y x} : ReachC S s₀ y → S.verdict y = .cont → x ∈ S.succ y → ReachC S s₀ x

/-- key congruence (C11): equal keys ⇒ equal verdicts and key-equal successor lists -/
def Congruent (S : Sys σ κ) : Prop :=
  ∀ a b, S.key a = S.key b → S.verdict a = S.verdict b ∧ (S.succ a).map S.key = (S.succ b).map S.key

/-- C03 for DFS with a full cache: an Ok run (as started by `run_impl`: start key marked) has evaluated a
    representative of every state reachable through `cont` states, and none of them fails. -/
theorem dfs_exhaustive (S : Sys σ κ) (hc : Congruent S) (n : Nat) (s₀ : σ) (V' : List κ) (E : List σ)
    (h : dfs S n s₀ [S.key s₀] = some (.ok, V', E)) :
    ∀ x, ReachC S s₀ x → ∃ e ∈ E, S.key e = S.key x ∧ S.verdict x ≠ .fail := by
  obtain ⟨hg, hs⟩ := dfs_good S n s₀ _ V' E (by simp) h
  intro x hx
  induction hx with
  | refl => exact ⟨s₀, hs, rfl, hg.noFail _ hs⟩
  | @step y x _ hcont hmem ih =>
    obtain ⟨e, he, hk, _⟩ := ih
    obtain ⟨hv, hsucc⟩ := hc e y hk
    have hke : S.key x ∈ (S.succ e).map S.key := by
      rw [hsucc]; exact List.mem_map_of_mem hmem
    obtain ⟨c, hcm, hck⟩ := List.mem_map.mp hke
    have hvis : S.key c ∈ V' := hg.closed e he (hv.trans hcont) c hcm
    rcases hg.origin _ hvis with h0 | ⟨e', he', hk'⟩
    · simp at h0
      refine ⟨s₀, hs, by rw [← hck, h0], ?_⟩
      have := (hc s₀ x (by rw [← hck, h0])).1
      rw [← this]; exact hg.noFail _ hs
    · refine ⟨e', he', by rw [hk', hck], ?_⟩
      have := (hc e' x (by rw [hk', hck])).1
      rw [← this]; exact hg.noFail _ he'

end Spike.Search
