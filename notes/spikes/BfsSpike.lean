import Spike.Dfs
/-! Spike for R3, BFS half: mirrors `Bfs::bfs` (check on dequeue, mark + enqueue on discovery). -/
namespace Spike.Search

variable {σ κ : Type} [DecidableEq κ]

/-- `for event in available { process_event }` for BFS: unseen children are marked and pushed back -/
def enqueueAll (S : Sys σ κ) : List σ → List σ → List κ → List σ × List κ
  | [], q, V => (q, V)
  | c :: cs, q, V =>
    if S.key c ∈ V then enqueueAll S cs q V else enqueueAll S cs (q ++ [c]) (S.key c :: V)

def bfsLoop (S : Sys σ κ) : Nat → List σ → List κ → List σ → Option (Out σ κ)
  | 0, _, _, _ => none
  | _ + 1, [], V, E => some (.ok, V, E)
  | n + 1, s :: q, V, E =>
    match S.verdict s with
    | .fail => some (.err s, V, E ++ [s])
    | .stop => bfsLoop S n q V (E ++ [s])
    | .cont =>
      let (q', V') := enqueueAll S (S.succ s) q V
      bfsLoop S n q' V' (E ++ [s])

/-- `run_impl` marks the start state, `bfs` enqueues it -/
def bfs (S : Sys σ κ) (n : Nat) (s₀ : σ) : Option (Out σ κ) := bfsLoop S n [s₀] [S.key s₀] []

theorem enqueueAll_spec (S : Sys σ κ) (cs q : List σ) (V : List κ) :
    let r := enqueueAll S cs q V
    V ⊆ r.2 ∧ (∀ c ∈ cs, S.key c ∈ r.2) ∧ (∃ q₁, r.1 = q ++ q₁ ∧ (∀ x ∈ q₁, x ∈ cs) ∧
      ∀ k ∈ r.2, k ∈ V ∨ ∃ x ∈ q₁, S.key x = k) := by
  induction cs generalizing q V with
  | nil => simp [enqueueAll]
  | cons c cs ih =>
    simp only [enqueueAll]
    split
    · rename_i hv
      obtain ⟨h1, h2, q₁, h3, h4, h5⟩ := ih q V
      refine ⟨h1, ?_, q₁, h3, fun x hx => List.mem_cons_of_mem _ (h4 x hx), h5⟩
      intro x hx
      rcases List.mem_cons.mp hx with rfl | hx
      · exact h1 hv
      · exact h2 x hx
    · obtain ⟨h1, h2, q₁, h3, h4, h5⟩ := ih (q ++ [c]) (S.key c :: V)
      refine ⟨fun k hk => h1 (List.mem_cons_of_mem _ hk), ?_, c :: q₁, by simp [h3], ?_, ?_⟩
      · intro x hx
        rcases List.mem_cons.mp hx with rfl | hx
        · exact h1 (List.mem_cons_self ..)
        · exact h2 x hx
      · intro x hx
        rcases List.mem_cons.mp hx with rfl | hx
        · exact List.mem_cons_self ..
        · exact List.mem_cons_of_mem _ (h4 x hx)
      · intro k hk
        rcases h5 k hk with hk | ⟨x, hx, rfl⟩
        · rcases List.mem_cons.mp hk with rfl | hk
          · exact Or.inr ⟨c, List.mem_cons_self .., rfl⟩
          · exact Or.inl hk
        · exact Or.inr ⟨x, List.mem_cons_of_mem _ hx, rfl⟩

/-- loop invariant: every visited key belongs to an evaluated or a queued state; evaluated states do not
    fail and the children of evaluated `cont` states are visited -/
structure BInv (S : Sys σ κ) (q : List σ) (V : List κ) (E : List σ) : Prop where
  origin : ∀ k ∈ V, (∃ e ∈ E, S.key e = k) ∨ ∃ x ∈ q, S.key x = k
  noFail : ∀ e ∈ E, S.verdict e ≠ .fail
  closed : ∀ e ∈ E, S.verdict e = .cont → ∀ c ∈ S.succ e, S.key c ∈ V

theorem bfsLoop_ok (S : Sys σ κ) (n : Nat) (q : List σ) (V : List κ) (E : List σ) (V' : List κ) (E' : List σ)
    (hinv : BInv S q V E) (h : bfsLoop S n q V E = some (.ok, V', E')) :
    BInv S [] V' E' ∧ V ⊆ V' ∧ (∀ e ∈ E, e ∈ E') ∧ (∀ x ∈ q, x ∈ E') := by
  induction n generalizing q V E with
  | zero => simp [bfsLoop] at h
  | succ n ih =>
    cases q with
    | nil =>
      simp only [bfsLoop, Option.some.injEq, Prod.mk.injEq, true_and] at h
      obtain ⟨rfl, rfl⟩ := h
      exact ⟨hinv, fun _ h => h, fun _ h => h, by simp⟩
    | cons s q =>
      simp only [bfsLoop] at h
      split at h
      · simp at h
      · rename_i hv
        have hinv' : BInv S q V (E ++ [s]) := by
          refine ⟨?_, ?_, ?_⟩
          · intro k hk
            rcases hinv.origin k hk with ⟨e, he, rfl⟩ | ⟨x, hx, rfl⟩
            · exact Or.inl ⟨e, List.mem_append_left _ he, rfl⟩
            · rcases List.mem_cons.mp hx with rfl | hx
              · exact Or.inl ⟨x, by simp, rfl⟩
              · exact Or.inr ⟨x, hx, rfl⟩
          · intro e he
            rcases List.mem_append.mp he with he | he
            · exact hinv.noFail e he
            · simp at he; subst he; simp [hv]
          · intro e he hc
            rcases List.mem_append.mp he with he | he
            · exact hinv.closed e he hc
            · simp at he; subst he; simp [hv] at hc
        obtain ⟨a, b, c, d⟩ := ih q V (E ++ [s]) hinv' h
        refine ⟨a, b, fun e he => c e (List.mem_append_left _ he), ?_⟩
        intro x hx
        rcases List.mem_cons.mp hx with rfl | hx
        · exact c x (by simp)
        · exact d x hx
      · rename_i hv
        obtain ⟨e1, e2, q₁, e3, e4, e5⟩ := enqueueAll_spec S (S.succ s) q V
        generalize hr : enqueueAll S (S.succ s) q V = r at h e1 e2 e3 e5
        obtain ⟨q', Vn⟩ := r
        simp only at h e1 e2 e3 e5
        have hinv' : BInv S q' Vn (E ++ [s]) := by
          refine ⟨?_, ?_, ?_⟩
          · intro k hk
            rcases e5 k hk with hk | ⟨x, hx, rfl⟩
            · rcases hinv.origin k hk with ⟨e, he, rfl⟩ | ⟨x, hx, rfl⟩
              · exact Or.inl ⟨e, List.mem_append_left _ he, rfl⟩
              · rcases List.mem_cons.mp hx with rfl | hx
                · exact Or.inl ⟨x, by simp, rfl⟩
                · exact Or.inr ⟨x, by rw [e3]; exact List.mem_append_left _ hx, rfl⟩
            · exact Or.inr ⟨x, by rw [e3]; exact List.mem_append_right _ hx, rfl⟩
          · intro e he
            rcases List.mem_append.mp he with he | he
            · exact hinv.noFail e he
            · simp at he; subst he; simp [hv]
          · intro e he hc x hx
            rcases List.mem_append.mp he with he | he
            · exact e1 (hinv.closed e he hc x hx)
            · simp at he; subst he; exact e2 x hx
        obtain ⟨a, b, c, d⟩ := ih q' Vn (E ++ [s]) hinv' h
        refine ⟨a, fun k hk => b (e1 hk), fun e he => c e (List.mem_append_left _ he), ?_⟩
        intro x hx
        rcases List.mem_cons.mp hx with rfl | hx
        · exact c x (by simp)
        · exact d x (by rw [e3]; exact List.mem_append_left _ hx)

/-- C03 for BFS with a full cache: same conclusion as `dfs_exhaustive` -/
theorem bfs_exhaustive (S : Sys σ κ) (hc : Congruent S) (n : Nat) (s₀ : σ) (V' : List κ) (E : List σ)
    (h : bfs S n s₀ = some (.ok, V', E)) :
    ∀ x, ReachC S s₀ x → ∃ e ∈ E, S.key e = S.key x ∧ S.verdict x ≠ .fail := by
  have hinv0 : BInv S [s₀] [S.key s₀] [] :=
    ⟨fun k hk => Or.inr ⟨s₀, by simp, by simp at hk; exact hk.symm⟩, by simp, by simp⟩
  obtain ⟨hinv, _, _, hq⟩ := bfsLoop_ok S n _ _ _ V' E hinv0 h
  have hs : s₀ ∈ E := hq s₀ (by simp)
  intro x hx
  induction hx with
  | refl => exact ⟨s₀, hs, rfl, hinv.noFail _ hs⟩
  | @step y x _ hcont hmem ih =>
    obtain ⟨e, he, hk, _⟩ := ih
    obtain ⟨hv, hsucc⟩ := hc e y hk
    have hke : S.key x ∈ (S.succ e).map S.key := by rw [hsucc]; exact List.mem_map_of_mem hmem
    obtain ⟨c, hcm, hck⟩ := List.mem_map.mp hke
    have hvis : S.key c ∈ V' := hinv.closed e he (hv.trans hcont) c hcm
    rcases hinv.origin _ hvis with ⟨e', he', hk'⟩ | ⟨_, hx', _⟩
    · refine ⟨e', he', by rw [hk', hck], ?_⟩
      have := (hc e' x (by rw [hk', hck])).1
      rw [← this]; exact hinv.noFail _ he'
    · simp at hx'

end Spike.Search
