use std::cell::RefCell;
use std::collections::HashSet;
use std::rc::Rc;
use anysystem::logger::LogEntry;
use anysystem::mc::strategies::{Bfs, Dfs};
use anysystem::mc::{McState, ModelChecker, StrategyConfig, VisitedStates, ExecutionMode};
use anysystem::{Context, Message, Process, ProcessState, System};

// Scripted process: on local message with tip=cmd sequence "op;op;..." executes ops.
// ops: S<dst>:<data>  send ; L<data> local ; T<name>:<delay> set_timer ; O<name>:<delay> set_once ; C<name> cancel
#[derive(Clone, Debug, Hash, PartialEq, Eq)]
struct Script { fired: Vec<String>, on_timer: String, on_msg: String }
fn run(ops: &str, ctx: &mut Context) {
    for op in ops.split(';').filter(|s| !s.is_empty()) {
        let (k, rest) = op.split_at(1);
        match k {
            "S" => { let (d, data) = rest.split_once(':').unwrap(); ctx.send(Message::new("M", data), d.to_string()); }
            "L" => ctx.send_local(Message::new("L", rest)),
            "T" => { let (n, d) = rest.split_once(':').unwrap(); ctx.set_timer(n, d.parse().unwrap()); }
            "O" => { let (n, d) = rest.split_once(':').unwrap(); ctx.set_timer_once(n, d.parse().unwrap()); }
            "C" => ctx.cancel_timer(rest),
            _ => panic!(),
        }
    }
}
impl Process for Script {
    fn on_message(&mut self, msg: Message, _from: String, ctx: &mut Context) -> Result<(), String> {
        self.fired.push(format!("m:{}", msg.data)); let s = self.on_msg.clone(); run(&s, ctx); Ok(()) }
    fn on_local_message(&mut self, msg: Message, ctx: &mut Context) -> Result<(), String> { run(&msg.data, ctx); Ok(()) }
    fn on_timer(&mut self, t: String, ctx: &mut Context) -> Result<(), String> {
        self.fired.push(format!("t:{}", t)); let s = self.on_timer.clone(); run(&s, ctx); Ok(()) }
    fn state(&self) -> Result<Rc<dyn ProcessState>, String> { Ok(Rc::new(self.clone())) }
    fn set_state(&mut self, st: Rc<dyn ProcessState>) -> Result<(), String> { *self = st.downcast_ref::<Self>().unwrap().clone(); Ok(()) }
}
fn sp() -> Box<Script> { Box::new(Script{fired: vec![], on_timer: String::new(), on_msg: String::new()}) }
fn fired(st: &McState, node: &str, p: &str) -> Vec<String> {
    let ps = &st.node_states[node].proc_states[p].proc_state; format!("{:?}", ps).split("fired: ").nth(1).unwrap().split(']').next().unwrap().trim_start_matches('[').split(", ").filter(|s| !s.is_empty()).map(|s| s.trim_matches('"').to_string()).collect()
}

fn d1() {
    println!("== D1: MC set_timer override");
    let mut sys = System::new(1); sys.add_node("n"); sys.add_process("p", sp(), "n");
    let maxf = Rc::new(RefCell::new(0usize)); let m2 = maxf.clone();
    let inv = Box::new(move |s: &McState| { let f = fired(s, "n", "p"); let c = f.iter().filter(|x| *x=="t:a").count(); if c > *m2.borrow() { *m2.borrow_mut() = c; } Ok(()) });
    let goal = Box::new(|s: &McState| if s.events.is_empty() {Some("g".to_string())} else {None});
    let cfg = StrategyConfig::default().invariant(inv).goal(goal);
    let r = ModelChecker::new(&sys).run_with_change::<Bfs>(cfg, |m| m.send_local_message("n", "p", Message::new("X", "Ta:1;Ta:2")));
    println!("mc ok={} max firings of 'a' on a path = {}", r.is_ok(), maxf.borrow());
    sys.send_local_message("p", Message::new("X", "Ta:1;Ta:2")); sys.step_until_no_events();
    let n = sys.logger().trace().iter().filter(|e| matches!(e, LogEntry::TimerFired{..})).count();
    println!("sim firings = {}", n);
}
fn d2() {
    println!("== D2: snapshot of crashed node");
    let mut sys = System::new(1); sys.add_node("a"); sys.add_node("b"); sys.add_process("pa", sp(), "a"); sys.add_process("pb", sp(), "b");
    sys.crash_node("b");
    let seen = Rc::new(RefCell::new(false)); let s2 = seen.clone();
    let inv = Box::new(move |s: &McState| { if !fired(s, "b", "pb").is_empty() { *s2.borrow_mut() = true; } Ok(()) });
    let goal = Box::new(|s: &McState| if s.events.is_empty() {Some("g".to_string())} else {None});
    let r = ModelChecker::new(&sys).run_with_change::<Bfs>(StrategyConfig::default().invariant(inv).goal(goal), |m| m.send_local_message("a", "pa", Message::new("X", "Spb:hello")));
    println!("mc ok={} crashed node's process handled a message in MC: {}", r.is_ok(), seen.borrow());
    sys.send_local_message("pa", Message::new("X", "Spb:hello")); sys.step_until_no_events();
    println!("sim: pb received count = {}", sys.received_message_count("pb"));
}
fn d3() {
    println!("== D3: snapshot timer delay 0.0 over-blocks");
    let mut sys = System::new(1); sys.add_node("n"); sys.add_process("p", sp(), "n");
    sys.send_local_message("p", Message::new("X", "Tslow:100"));
    // MC: then set a fast timer; is order fast-before-slow explored?
    let orders = Rc::new(RefCell::new(HashSet::new())); let o2 = orders.clone();
    let goal = Box::new(move |s: &McState| if s.events.is_empty() { o2.borrow_mut().insert(fired(s, "n", "p")); Some("g".to_string())} else {None});
    let r = ModelChecker::new(&sys).run_with_change::<Bfs>(StrategyConfig::default().goal(goal), |m| m.send_local_message("n", "p", Message::new("X", "Tfast:1")));
    println!("mc ok={} orders explored = {:?}", r.is_ok(), orders.borrow());
    sys.send_local_message("p", Message::new("X", "Tfast:1")); sys.step_until_no_events();
    let tr: Vec<String> = sys.logger().trace().iter().filter_map(|e| if let LogEntry::TimerFired{timer_name,..} = e {Some(timer_name.clone())} else {None}).collect();
    println!("sim order = {:?}", tr);
}
fn d4() {
    println!("== D4: crash logs drops for already-cancelled messages");
    let mut sys = System::new(1); sys.add_node("a"); sys.add_node("b"); sys.add_process("pa", sp(), "a"); sys.add_process("pb", sp(), "b");
    sys.network().set_delay(10.0);
    sys.send_local_message("pa", Message::new("X", "Spb:hello"));
    sys.crash_node("a"); sys.recover_node("a"); sys.crash_node("a");
    let n = sys.logger().trace().iter().filter(|e| matches!(e, LogEntry::MessageDropped{..})).count();
    println!("one message sent; MessageDropped entries = {}", n);
}
fn d5() {
    println!("== D5/D6: run_from_states stats + rollback");
    for strat in ["bfs", "dfs"] {
    let mut sys = System::new(1); sys.add_node("a"); sys.add_node("b"); sys.add_process("pa", sp(), "a"); sys.add_process("pb", sp(), "b");
    let mut mc = ModelChecker::new(&sys);
    let cfg = || StrategyConfig::default().execution_mode(ExecutionMode::Debug).goal(Box::new(|s: &McState| if s.events.is_empty() {Some("goal".to_string())} else {None}));
    let c1 = cfg().collect(Box::new(|s: &McState| s.events.is_empty()));
    let cb1 = |m: &mut anysystem::mc::McSystem| { m.send_local_message("a", "pa", Message::new("X", "Spb:1;Spb:2")); };
    let st = if strat=="bfs" { mc.run_with_change::<Bfs>(c1, cb1) } else { mc.run_with_change::<Dfs>(c1, cb1) }.unwrap();
    println!("[{}] stage1 statuses={:?} collected={}", strat, st.statuses, st.collected_states.len());
    // make several start states: collect all states
    let c1b = cfg().collect(Box::new(|_s: &McState| true)).visited_states(VisitedStates::Disabled);
    let st = if strat=="bfs" { mc.run_with_change::<Bfs>(c1b, cb1) } else { mc.run_with_change::<Dfs>(c1b, cb1) }.unwrap();
    println!("[{}] stage1b collected={}", strat, st.collected_states.len());
    let n_goal_starts = st.collected_states.iter().filter(|s| s.events.is_empty()).count();
    let c2 = cfg().visited_states(VisitedStates::Disabled);
    let r2 = if strat=="bfs" { mc.run_from_states::<Bfs>(c2, st.collected_states.clone()) } else { mc.run_from_states::<Dfs>(c2, st.collected_states.clone()) }.unwrap();
    println!("[{}] stage2 statuses={:?} (start states that are goals: {})", strat, r2.statuses, n_goal_starts);
    // rollback check: same run-with-callback on this checker vs on a fresh one
    let fp = |mc: &mut ModelChecker| { let acc = Rc::new(RefCell::new(Vec::<String>::new())); let a = acc.clone();
        let c3 = cfg().invariant(Box::new(move |s: &McState| { a.borrow_mut().push(format!("{:?}", fired(s, "b", "pb"))); Ok(()) }));
        let _ = if strat=="bfs" { mc.run_with_change::<Bfs>(c3, cb1) } else { mc.run_with_change::<Dfs>(c3, cb1) }; let mut v = acc.borrow().clone(); v.sort(); v };
    let here = fp(&mut mc); let fresh = fp(&mut ModelChecker::new(&sys));
    println!("[{}] after run_from_states: same as fresh checker = {} ({} vs {} states)", strat, here == fresh, here.len(), fresh.len());
    }
}
fn d7() {
    println!("== D7: MC crash_node trace order with several procs per node");
    let mut outs = HashSet::new();
    for _ in 0..20 {
        let mut sys = System::new(1); sys.add_node("a"); sys.add_node("b");
        for p in ["p1","p2","p3","p4"] { sys.add_process(p, sp(), "a"); }
        sys.add_process("q", sp(), "b");
        let tr = Rc::new(RefCell::new(String::new())); let t2 = tr.clone();
        let inv = Box::new(move |s: &McState| { if t2.borrow().is_empty() { *t2.borrow_mut() = format!("{:?}", s.trace.iter().filter(|e| matches!(e, LogEntry::McMessageDropped{..})).collect::<Vec<_>>()); } Ok(()) });
        let goal = Box::new(|_s: &McState| Some("g".to_string()));
        let _ = ModelChecker::new(&sys).run_with_change::<Bfs>(StrategyConfig::default().invariant(inv).goal(goal), |m| {
            m.send_local_message("b", "q", Message::new("X", "Sp1:1;Sp2:2;Sp3:3;Sp4:4")); m.crash_node("a"); });
        outs.insert(tr.borrow().clone());
    }
    println!("distinct drop-trace orders over 20 identical runs: {}", outs.len());
}
fn d8() {
    println!("== D8: crash after duplication in staged run");
    let mut sys = System::new(1); sys.add_node("a"); sys.add_node("b"); sys.add_process("pa", sp(), "a"); sys.add_process("pb", sp(), "b");
    let mut mc = ModelChecker::new(&sys);
    let c1 = StrategyConfig::default().goal(Box::new(|s: &McState| if s.depth >= 1 {Some("g".to_string())} else {None})).collect(Box::new(|s: &McState| s.depth == 1));
    let st = mc.run_with_change::<Bfs>(c1, |m| { m.network().set_dupl_rate(0.5); m.send_local_message("a", "pa", Message::new("X", "Spb:1;Spb:1")); }).unwrap();
    println!("collected {}", st.collected_states.len());
    let r = std::panic::catch_unwind(std::panic::AssertUnwindSafe(|| {
        let c2 = StrategyConfig::default().goal(Box::new(|s: &McState| if s.events.is_empty() {Some("g".to_string())} else {None}));
        mc.run_from_states_with_change::<Bfs>(c2, st.collected_states.clone(), |m| m.crash_node("b")).is_ok()
    }));
    println!("stage 2 with crash: {:?}", r.map_err(|_| "PANIC"));
}
fn d9() {
    println!("== D9: event_ordering_mode leak between runs");
    let mut sys = System::new(1); sys.add_node("n"); sys.add_process("p", sp(), "n"); sys.add_node("m"); sys.add_process("q", sp(), "m");
    let count = |mc: &mut ModelChecker, setmode: bool| { let cnt = Rc::new(RefCell::new(0)); let c = cnt.clone();
        let cfg = StrategyConfig::default().visited_states(VisitedStates::Disabled).invariant(Box::new(move |_s| { *c.borrow_mut() += 1; Ok(()) })).goal(Box::new(|s: &McState| if s.events.is_empty() {Some("g".to_string())} else {None}));
        let _ = mc.run_with_change::<Dfs>(cfg, |m| { if setmode { m.set_event_ordering_mode(anysystem::mc::EventOrderingMode::MessagesFirst); } m.send_local_message("n", "p", Message::new("X", "Ta:1;Sq:1")); }); let v = *cnt.borrow(); v };
    let mut mc = ModelChecker::new(&sys);
    let a = count(&mut mc, false); let b = count(&mut mc, true); let c = count(&mut mc, false);
    println!("states: normal={} messages_first={} normal-again={}", a, b, c);
}
fn hist(sys: &System, p: &str) -> Vec<String> {
    sys.event_log(p).iter().filter_map(|e| match &e.event {
        anysystem::ProcessEvent::MessageReceived{msg,..} => Some(format!("m:{}@{}", msg.data, e.time)),
        anysystem::ProcessEvent::TimerFired{name} => Some(format!("t:{}@{}", name, e.time)),
        _ => None }).collect()
}
fn s1() {
    println!("== S1: crash/recover isolation in the simulator");
    let mk = || { let mut sys = System::new(7); sys.add_node("a"); sys.add_node("b"); sys.add_process("pa", sp(), "a"); sys.add_process("pb", sp(), "b"); sys.network().set_delay(10.0); sys };
    // a. own timer pending, crash, recover, re-add, run
    let mut sys = mk(); sys.send_local_message("pb", Message::new("X", "Tt:5")); sys.crash_node("b"); sys.recover_node("b"); sys.add_process("pb", sp(), "b"); sys.step_until_no_events();
    let fired = sys.logger().trace().iter().filter(|e| matches!(e, LogEntry::TimerFired{..})).count();
    println!("a. old timer fired on new incarnation: {} (trace TimerFired entries), time={}", fired, sys.time());
    // b. message in flight to b, crash b, recover, re-add
    let mut sys = mk(); sys.send_local_message("pa", Message::new("X", "Spb:1")); sys.crash_node("b"); sys.recover_node("b"); sys.add_process("pb", sp(), "b"); sys.step_until_no_events();
    println!("b. in-flight message delivered after recovery: recv={} dropped-log={}", sys.received_message_count("pb"), sys.logger().trace().iter().filter(|e| matches!(e, LogEntry::MessageDropped{..})).count());
    // c. message in flight from a, crash a
    let mut sys = mk(); sys.send_local_message("pa", Message::new("X", "Spb:1")); sys.crash_node("a"); sys.step_until_no_events();
    println!("c. message from crashed sender delivered: recv={} dropped-log={}", sys.received_message_count("pb"), sys.logger().trace().iter().filter(|e| matches!(e, LogEntry::MessageDropped{..})).count());
    // d. duplicates in flight
    let mut sys = mk(); sys.network().set_dupl_rate(1.0); sys.send_local_message("pa", Message::new("X", "Spb:1"));
    let copies = sys.sim().dump_events().len(); sys.crash_node("b"); sys.step_until_no_events();
    println!("d. copies in flight={} delivered to crashed={}", copies, sys.received_message_count("pb"));
    // e. send to crashed node while crashed, arriving after recovery
    let mut sys = mk(); sys.crash_node("b"); sys.send_local_message("pa", Message::new("X", "Spb:late")); sys.recover_node("b"); sys.add_process("pb", sp(), "b"); sys.step_until_no_events();
    println!("e. message sent during crash, arriving after recovery: recv by new incarnation={}", sys.received_message_count("pb"));
    // e2. send to crashed node arriving while crashed
    let mut sys = mk(); sys.crash_node("b"); sys.send_local_message("pa", Message::new("X", "Spb:x")); let r = sys.step(); 
    println!("e2. step() with only an undeliverable event returns {} time={} net_count={}", r, sys.time(), sys.network().network_message_count());
    // f. counters fresh after recovery
    let mut sys = mk(); sys.send_local_message("pb", Message::new("X", "Spa:1;Ll")); sys.crash_node("b"); sys.recover_node("b"); sys.add_process("pb", sp(), "b");
    println!("f. fresh: sent={} recv={} outbox={} log={}", sys.sent_message_count("pb"), sys.received_message_count("pb"), sys.local_outbox("pb").len(), sys.event_log("pb").len());
    // g. double crash
    let mut sys = mk(); sys.crash_node("b"); let r = std::panic::catch_unwind(std::panic::AssertUnwindSafe(|| { sys.crash_node("b"); })); println!("g. double crash ok={}", r.is_ok());
}
fn s2() {
    println!("== S2: stepping and time");
    let mut sys = System::new(7); sys.add_node("a"); sys.add_node("b"); sys.add_process("pa", sp(), "a"); sys.add_process("pb", sp(), "b");
    sys.network().set_delays(1.0, 3.0); sys.set_node_clock_skew("b", 0.5);
    sys.send_local_message("pa", Message::new("X", "Spb:1;Spb:2;Spb:3;Tt:2"));
    let r = sys.step_for_duration(2.0); println!("step_for_duration(2.0) -> {} time={} pb hist={:?} pa hist={:?}", r, sys.time(), hist(&sys,"pb"), hist(&sys,"pa"));
    let r = sys.steps(10); println!("steps(10) -> {} time={} pb hist={:?}", r, sys.time(), hist(&sys,"pb"));
    // same-node
    let mut sys = System::new(7); sys.add_node("a"); sys.add_process("p1", sp(), "a"); sys.add_process("p2", sp(), "a");
    sys.network().set_drop_rate(1.0); sys.network().drop_outgoing("a"); sys.send_local_message("p1", Message::new("X", "Sp2:1")); sys.step_until_no_events();
    println!("same-node with drop_rate 1 + drop_outgoing: recv={} time={} netcount={} traffic={}", sys.received_message_count("p2"), sys.time(), { let n = sys.network().network_message_count(); n }, { let t = sys.network().traffic(); t });
    // until local
    let mut sys = System::new(7); sys.add_node("a"); sys.add_process("p1", sp(), "a");
    sys.send_local_message("p1", Message::new("X", "Tt:1;Tu:2")); 
    let r = sys.step_until_local_message_max_steps("p1", 1).map(|v| v.len()).map_err(|e| e.to_string()); println!("until_local max 1 (no local msgs): {:?} time={}", r, sys.time());
}
fn r1() {
    use rand::{Rng, SeedableRng};
    println!("== R1: twin Pcg64 predicts the simulator's draws");
    let seed = 4242u64;
    let mut twin = rand_pcg::Pcg64::seed_from_u64(seed);
    let draws: Vec<f64> = (0..8).map(|_| twin.gen_range(0.0..1.0)).collect();
    let mut sys = System::new(seed); sys.add_node("a"); sys.add_node("b"); sys.add_process("pa", sp(), "a"); sys.add_process("pb", sp(), "b");
    sys.network().set_delays(1.0, 3.0);
    sys.send_local_message("pa", Message::new("X", "Spb:1;Spb:2"));
    // per send: draw0 drop, draw1 corrupt, draw2 count (>= dupl_rate=0 -> 1 copy), draw3 delay
    let times: Vec<f64> = sys.sim().dump_events().iter().map(|e| e.time).collect();
    let pred = vec![1.0 + draws[3] * 2.0, 1.0 + draws[7] * 2.0];
    let mut p2 = pred.clone(); p2.sort_by(|a,b| a.partial_cmp(b).unwrap());
    println!("observed arrival times {:?}", times);
    println!("predicted (sorted)     {:?}  bit-exact: {}", p2, times.iter().zip(p2.iter()).all(|(a,b)| a.to_bits()==b.to_bits()));
}
fn main() {
    let which: Vec<String> = std::env::args().skip(1).collect();
    let all = which.is_empty();
    let fs: Vec<(&str, fn())> = vec![("d1", d1), ("d2", d2), ("d3", d3), ("d4", d4), ("d5", d5), ("d7", d7), ("d8", d8), ("d9", d9), ("s1", s1), ("s2", s2), ("r1", r1)];
    for (n, f) in fs { if all || which.iter().any(|w| w == n) { f(); } }
}
