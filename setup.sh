#!/bin/bash
# Run once after a fresh restore, offline: builds the Lean development (+ driver) and the Rust harness.
set -e
cd "$(dirname "$0")"
export CARGO_NET_OFFLINE=true
(cd lean && lake build 2>&1 | tail -3)
(cd harness && cp -n /repo/Cargo.lock Cargo.lock 2>/dev/null || true; cargo build --offline 2>&1 | tail -2)
echo setup-done
