import Anysystem.Props.C01
#print axioms Anysystem.dumpEvents_sorted
#print axioms Anysystem.dumpEvents_perm_live
#print axioms Anysystem.dumpEvents_perm
#print axioms Anysystem.snapshotEvents_perm
#print axioms Anysystem.crashNode_eq_ord
#print axioms Anysystem.crashNodeOrd_perm
