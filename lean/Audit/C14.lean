import Anysystem.Props.C14
#print axioms Anysystem.Sim.crashNode'
#print axioms Anysystem.crashNode_no_pending
#print axioms Anysystem.crashNode_others_untouched
#print axioms Anysystem.crashed_never_handles
#print axioms Anysystem.send_touching_crashed_dropped
#print axioms Anysystem.applyAlt_refines'
