import Anysystem.Props.C03
import Anysystem.Props.C13
import Anysystem.Props.C02
import Anysystem.Props.C11
#print axioms Anysystem.C03_evaluated_reachable
#print axioms Anysystem.C03_ok_exhaustive
#print axioms Anysystem.C03_ok_exhaustive_disabled
#print axioms Anysystem.C03_err_genuine
#print axioms Anysystem.C03_not_ok_if_reachable_failure
#print axioms Anysystem.C03_checkState_order
#print axioms Anysystem.C13_every_reduced_step_explored_partial
#print axioms Anysystem.C02_successors_are_alternatives
#print axioms Anysystem.C11_ok_exhaustive_partial
#print axioms Anysystem.C11_modes_same_verdict_partial
