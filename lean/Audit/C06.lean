import Anysystem.Props.C06
import Anysystem.Proofs.SimStepThms
import Anysystem.Proofs.SimStepFns
#print axioms Anysystem.Sim.nextEvent_some
#print axioms Anysystem.Sim.nextEvent_none
#print axioms Anysystem.Sim.addEvent_time
#print axioms Anysystem.Sim.addEvent_keeps
#print axioms Anysystem.Sim.nextEvent_keeps
#print axioms Anysystem.Sim.steps_zero
#print axioms Anysystem.Sim.steps_succ
#print axioms Anysystem.Sim.step_false_iff
#print axioms Anysystem.Sim.stepUntilTime_clock
#print axioms Anysystem.Sim.send_copies
#print axioms Anysystem.Sim.send_same_node
#print axioms Anysystem.Sim.stepUntilNoEvents_spec
#print axioms Anysystem.Sim.step_false_events
#print axioms Anysystem.Sim.stepUntilLocalMax_immediate
#print axioms Anysystem.Sim.stepUntilLocal_some
#print axioms Anysystem.Sim.stepUntilLocal_none
#print axioms Anysystem.Sim.stepUntilLocalMax_some
#print axioms Anysystem.Sim.stepUntilLocalMax_none
#print axioms Anysystem.Sim.stepUntilTime_spec
#print axioms Anysystem.Sim.stepForDuration_steps
#print axioms Anysystem.Sim.stepForDuration_spec
