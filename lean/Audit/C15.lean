import Anysystem.Props.C15
import Anysystem.Proofs.R5Snap
#print axioms Anysystem.snapshotEvents_spec
#print axioms Anysystem.snapshotSource_live
#print axioms Anysystem.snapshotSource_complete
#print axioms Anysystem.snapshotNodes_spec
#print axioms Anysystem.snapshotNet_spec
#print axioms Anysystem.snapshot_first_offered
#print axioms Anysystem.snapshot_timers_in_firing_order
#print axioms Anysystem.snapshot_sim'
#print axioms Anysystem.snapshot_ok
#print axioms Anysystem.snapshot_sendsKnown
#print axioms Anysystem.snapWF_quiet
