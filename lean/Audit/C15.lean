import Anysystem.Props.C15
#print axioms Anysystem.snapshotEvents_spec
#print axioms Anysystem.snapshotSource_live
#print axioms Anysystem.snapshotSource_complete
#print axioms Anysystem.snapshotNodes_spec
#print axioms Anysystem.snapshotNet_spec
#print axioms Anysystem.snapshot_first_offered
#print axioms Anysystem.snapshot_timers_in_firing_order
