import Anysystem.Props.C20
#print axioms Anysystem.C20_store_refines
#print axioms Anysystem.C20_offered_exact
#print axioms Anysystem.C20_available_events
#print axioms Anysystem.C20_no_wedge
#print axioms Anysystem.C20_progress
#print axioms Anysystem.C20_ids_unique
#print axioms Anysystem.C20_no_resurrection
#print axioms Anysystem.D8_prefix_violates
#print axioms Anysystem.D13_prefix_violates
