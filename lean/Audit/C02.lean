import Anysystem.Props.C02
import Anysystem.Proofs.TimerWitness
#print axioms Anysystem.C02_initial_related
#print axioms Anysystem.C02_callback_local
#print axioms Anysystem.C02_callback_crash
#print axioms Anysystem.C02_step_genuine_partial
#print axioms Anysystem.C02_path_genuine_partial
#print axioms Anysystem.C02_evaluated_on_paths
#print axioms Anysystem.C02_successors_are_alternatives
#print axioms Anysystem.TimerWitness.C07_D1_witness_path
