import Anysystem.Props.C05
import Anysystem.Proofs.SimRunThms
import Anysystem.Proofs.SimDelivery
#print axioms Anysystem.instLawfulTimeTicks
#print axioms Anysystem.Sim.send_same_node
#print axioms Anysystem.Sim.send_cut_dropped
#print axioms Anysystem.Sim.send_copies
#print axioms Anysystem.Sim.send_no_dupl
#print axioms Anysystem.Sim.send_drop_zero_delivers
#print axioms Anysystem.Sim.send_drop_one
#print axioms Anysystem.Sim.send_logged_once
#print axioms Anysystem.Sim.disableLink_directional
#print axioms Anysystem.Sim.enableLink_directional
#print axioms Anysystem.Sim.partition_cuts_both
#print axioms Anysystem.Sim.reset_heals_keeps_rates
#print axioms Anysystem.Sim.dropIncoming_directional
#print axioms Anysystem.Sim.dropOutgoing_directional
#print axioms Anysystem.Sim.TraceOrigin.init
#print axioms Anysystem.Sim.TraceOrigin.sendMessage
#print axioms Anysystem.Sim.TraceOrigin.step
#print axioms Anysystem.Sim.TraceOrigin.steps
#print axioms Anysystem.Sim.TraceOrigin.sendLocal
#print axioms Anysystem.Sim.TraceOrigin.crashNode
#print axioms Anysystem.Sim.TraceOrigin.recoverNode
#print axioms Anysystem.Sim.received_intact_no_corruption
#print axioms Anysystem.Sim.ExactFate.init
#print axioms Anysystem.Sim.ExactFate.sendMessage
#print axioms Anysystem.Sim.ExactFate.step
#print axioms Anysystem.Sim.ExactFate.steps
#print axioms Anysystem.Sim.ExactFate.sendLocal
#print axioms Anysystem.Sim.every_send_has_one_fate
#print axioms Anysystem.Sim.delivered_once_if_not_dropped
