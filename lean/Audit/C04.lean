import Anysystem.Props.C04
import Anysystem.Proofs.R4
import Anysystem.Proofs.R5Snap
import Anysystem.Proofs.R5Rel
import Anysystem.Proofs.R5Main
import Anysystem.Proofs.R6Demo
#print axioms Anysystem.snapshot_first_offered
#print axioms Anysystem.snapshot_timers_in_firing_order
#print axioms Anysystem.snapshotSource_complete
#print axioms Anysystem.C13_blocked_cannot_overtake
#print axioms Anysystem.C13_every_reduced_step_explored_partial
#print axioms Anysystem.C03_ok_exhaustive_disabled
#print axioms Anysystem.C03_evaluated_reachable
#print axioms Anysystem.sim_step_refines_partial
#print axioms Anysystem.timedRel_of_quiet
#print axioms Anysystem.TimedRel.visible
#print axioms Anysystem.popped_timer_unblocked
#print axioms Anysystem.R4Demo.demo_step
#print axioms Anysystem.snapshot_sim'
#print axioms Anysystem.timedRel_snapshot
#print axioms Anysystem.ticks_snapTimeLaws
#print axioms Anysystem.sim_run_covered_partial
#print axioms Anysystem.sim_step_matched
#print axioms Anysystem.R5MainDemo.demo_covered
#print axioms Anysystem.sim_step_refines_run
#print axioms Anysystem.R6Demo.drop_covered
#print axioms Anysystem.TimedRel.toF
#print axioms Anysystem.fate_covered_mid
#print axioms Anysystem.fates_covered
#print axioms Anysystem.sim_step_refines_fates
#print axioms Anysystem.timedRelF_snapshot
#print axioms Anysystem.sim_step_matched_fates
#print axioms Anysystem.sim_run_covered_fates
#print axioms Anysystem.freshSend_of_tip
#print axioms Anysystem.R7Demo.fateH_fresh
#print axioms Anysystem.R7Demo.fate_step
#print axioms Anysystem.R7Demo.fates_covered_demo
#print axioms Anysystem.D17.D17_witness
#print axioms Anysystem.D17.D17_uncovered
#print axioms Anysystem.D17.D17_uncovered3
#print axioms Anysystem.D17.D17_not_fresh
#print axioms Anysystem.D17.D17_blocked
#print axioms Anysystem.D17.D17_only_freshness_missing
