import Anysystem.Props.C12
#print axioms Anysystem.sendMessage_classification
#print axioms Anysystem.alternatives_iff_options
#print axioms Anysystem.alternatives_timer
#print axioms Anysystem.fault_step_potential
#print axioms Anysystem.deliver_uses_potential
#print axioms Anysystem.dup_inherits
#print axioms Anysystem.corrupt_once
#print axioms Anysystem.corrupt_fns_equal
#print axioms Anysystem.corruptData_no_quote
#print axioms Anysystem.corruptData_not_idem
#print axioms Anysystem.C12_copies_equal
