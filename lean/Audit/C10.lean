import Anysystem.Props.C10
import Anysystem.Props.C11
#print axioms Anysystem.C10_bfs_dfs_same_states
#print axioms Anysystem.C10_bfs_dfs_same_collected
#print axioms Anysystem.C10_verdicts_agree
#print axioms Anysystem.C10_bfs_error_min_depth
#print axioms Anysystem.C10_bfs_error_min_depth_disabled
#print axioms Anysystem.C11_bfs_dfs_same_states_partial
#print axioms Anysystem.C11_bfs_error_min_depth_partial
