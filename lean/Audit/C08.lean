import Anysystem.Props.C08
import Anysystem.Proofs.SimRunThms
import Anysystem.Proofs.SimWholeRun
#print axioms Anysystem.Sim.crashNode_cancels
#print axioms Anysystem.Sim.crashNode_frame
#print axioms Anysystem.Sim.cancelled_never_returned
#print axioms Anysystem.Sim.deliver_no_handler
#print axioms Anysystem.Sim.recoverNode_fresh
#print axioms Anysystem.Sim.addProcess_fresh
#print axioms Anysystem.Sim.nextEvent_some
#print axioms Anysystem.Sim.crashNode_no_handler
#print axioms Anysystem.Sim.step_crashed_silent
#print axioms Anysystem.Sim.steps_crashed_silent
#print axioms Anysystem.Sim.sendLocal_crashed_refused
#print axioms Anysystem.Sim.crashNode_dead
#print axioms Anysystem.Sim.DeadIds.never_popped
#print axioms Anysystem.Sim.DeadIds.step
#print axioms Anysystem.Sim.DeadIds.steps
#print axioms Anysystem.Sim.DeadIds.sendLocal
#print axioms Anysystem.Sim.DeadIds.recoverNode
#print axioms Anysystem.Sim.DeadIds.addProcess
#print axioms Anysystem.Sim.DeadIds.crashNode
