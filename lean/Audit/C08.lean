import Anysystem.Props.C08
import Anysystem.Proofs.SimRunThms
#print axioms Anysystem.Sim.crashNode_cancels
#print axioms Anysystem.Sim.crashNode_frame
#print axioms Anysystem.Sim.cancelled_never_returned
#print axioms Anysystem.Sim.deliver_no_handler
#print axioms Anysystem.Sim.recoverNode_fresh
#print axioms Anysystem.Sim.addProcess_fresh
#print axioms Anysystem.Sim.nextEvent_some
#print axioms Anysystem.Sim.crashNode_no_handler
#print axioms Anysystem.Sim.step_crashed_silent
#print axioms Anysystem.Sim.steps_crashed_silent
#print axioms Anysystem.Sim.sendLocal_crashed_refused
