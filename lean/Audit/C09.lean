import Anysystem.Props.C09
import Anysystem.Proofs.StagedThms
#print axioms Anysystem.applyAlt_sameShape
#print axioms Anysystem.sendLocal_sameShape
#print axioms Anysystem.crashNode_sameShape
#print axioms Anysystem.setState_getState
#print axioms Anysystem.searchStep_restores
#print axioms Anysystem.runImpl_restores
#print axioms Anysystem.runFromStates_restores
