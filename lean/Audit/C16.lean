import Anysystem.Props.C16
import Anysystem.Proofs.StagedThms
#print axioms Anysystem.C16_collected_exact
#print axioms Anysystem.C16_status_counts_exact
#print axioms Anysystem.runFromStates_restores
#print axioms Anysystem.runImpl_is_search
#print axioms Anysystem.search_trace_prefix
#print axioms Anysystem.runFromStates_disabled_concat
