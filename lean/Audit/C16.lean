import Anysystem.Props.C16
#print axioms Anysystem.C16_collected_exact
#print axioms Anysystem.C16_status_counts_exact
