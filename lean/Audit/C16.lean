import Anysystem.Props.C16
import Anysystem.Proofs.StagedThms
import Anysystem.Proofs.SearchShared
#print axioms Anysystem.C16_collected_exact
#print axioms Anysystem.C16_status_counts_exact
#print axioms Anysystem.runFromStates_restores
#print axioms Anysystem.runImpl_is_search
#print axioms Anysystem.search_trace_prefix
#print axioms Anysystem.runFromStates_disabled_concat
#print axioms Anysystem.searchMany_evald_reachable
#print axioms Anysystem.searchMany_ok_union
#print axioms Anysystem.searchMany_same_keys
#print axioms Anysystem.searchMany_same_keys_disabled
#print axioms Anysystem.searchMany_within_single_run
#print axioms Anysystem.runFromStates_is_searchMany
#print axioms Anysystem.runFromStates_ok_union
