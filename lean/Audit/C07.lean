import Anysystem.Props.C07
import Anysystem.Proofs.SimStepThms
import Anysystem.Proofs.SimWholeRun
#print axioms Anysystem.step_timerContract
#print axioms Anysystem.refRun_timerContract
#print axioms Anysystem.sendLocal_timerContract
#print axioms Anysystem.RState.step_timersUnique
#print axioms Anysystem.mc_timer_contract_partial
#print axioms Anysystem.TimerWitness.C07_D1_witness
#print axioms Anysystem.TimerWitness.C07_D1_witness_path
#print axioms Anysystem.TimerWitness.C07_reference_variant_ok
#print axioms Anysystem.Sim.handleActions_set_timer
#print axioms Anysystem.Sim.handleActions_override_timer
#print axioms Anysystem.Sim.handleActions_once_ignored
#print axioms Anysystem.Sim.handleActions_cancel_timer
#print axioms Anysystem.Sim.TimerInv.init
#print axioms Anysystem.Sim.TimerInv.step
#print axioms Anysystem.Sim.TimerInv.steps
#print axioms Anysystem.Sim.TimerInv.sendLocal
#print axioms Anysystem.Sim.TimerInv.crashNode
#print axioms Anysystem.Sim.TimerInv.recoverNode
#print axioms Anysystem.Sim.TimerInv.addProcess
#print axioms Anysystem.Sim.sim_timer_contract
