import Anysystem.Props.C07
#print axioms Anysystem.step_timerContract
#print axioms Anysystem.refRun_timerContract
#print axioms Anysystem.sendLocal_timerContract
#print axioms Anysystem.RState.step_timersUnique
#print axioms Anysystem.mc_timer_contract_partial
#print axioms Anysystem.TimerWitness.C07_D1_witness
#print axioms Anysystem.TimerWitness.C07_D1_witness_path
#print axioms Anysystem.TimerWitness.C07_reference_variant_ok
