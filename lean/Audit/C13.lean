import Anysystem.Props.C13
import Anysystem.Proofs.R4
#print axioms Anysystem.C13_offered_timer_iff
#print axioms Anysystem.C13_messages_first
#print axioms Anysystem.C13_every_reduced_step_explored_partial
#print axioms Anysystem.C13_blocked_cannot_overtake
#print axioms Anysystem.C13_unblocked_feasible
#print axioms Anysystem.C13_no_constraint_on_older
#print axioms Anysystem.sim_step_refines_partial
#print axioms Anysystem.popped_timer_unblocked
