import Anysystem.Props.C17
#print axioms Anysystem.Sim.send_logged_once
#print axioms Anysystem.Sim.send_same_node
#print axioms Anysystem.Sim.send_cut_dropped
#print axioms Anysystem.Sim.addProcess_fresh
#print axioms Anysystem.Sim.crashNode_cancels
#print axioms Anysystem.Sim.readNode_drains
#print axioms Anysystem.Sim.handleActions_loc_outbox
#print axioms Anysystem.Sim.handleActions_send_counts
#print axioms Anysystem.Sim.onMessage_counts
#print axioms Anysystem.Sim.handleActions_counts
