import Anysystem.Props.C17
import Anysystem.Proofs.SimLogInv
import Anysystem.Proofs.SimTraceInv
#print axioms Anysystem.Sim.send_logged_once
#print axioms Anysystem.Sim.send_same_node
#print axioms Anysystem.Sim.send_cut_dropped
#print axioms Anysystem.Sim.addProcess_fresh
#print axioms Anysystem.Sim.crashNode_cancels
#print axioms Anysystem.Sim.readNode_drains
#print axioms Anysystem.Sim.handleActions_loc_outbox
#print axioms Anysystem.Sim.handleActions_send_counts
#print axioms Anysystem.Sim.onMessage_counts
#print axioms Anysystem.Sim.handleActions_counts
#print axioms Anysystem.Sim.LogInv.addProcess
#print axioms Anysystem.Sim.LogInv.sendLocal
#print axioms Anysystem.Sim.LogInv.step
#print axioms Anysystem.Sim.LogInv.steps
#print axioms Anysystem.Sim.LogInv.readLocal
#print axioms Anysystem.Sim.LogInv.crashNode
#print axioms Anysystem.Sim.LogInv.recoverNode
#print axioms Anysystem.Sim.readLocal_returns_outbox
#print axioms Anysystem.Sim.TraceInv.init
#print axioms Anysystem.Sim.TraceInv.sent_ids_nodup
#print axioms Anysystem.Sim.TraceInv.sendMessage
#print axioms Anysystem.Sim.TraceInv.step
#print axioms Anysystem.Sim.TraceInv.steps
#print axioms Anysystem.Sim.TraceInv.sendLocal
#print axioms Anysystem.Sim.TraceInv.readLocal
#print axioms Anysystem.Sim.TraceInv.crashNode
#print axioms Anysystem.Sim.TraceInv.recoverNode
#print axioms Anysystem.Sim.TraceInv.addProcess
#print axioms Anysystem.Sim.TraceInv.frame
#print axioms Anysystem.Sim.single_fate_no_dupl
