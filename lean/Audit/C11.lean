import Anysystem.Props.C11
#print axioms Anysystem.key_covers
#print axioms Anysystem.mcTSys_congruentOn
#print axioms Anysystem.goodState_closed
#print axioms Anysystem.C11W.C11_D1_witness
#print axioms Anysystem.C11W.C11_D1_not_congruent
#print axioms Anysystem.C11_modes_same_states_partial
#print axioms Anysystem.C11_cache_removes_repeats
#print axioms Anysystem.C11_modes_same_verdict_partial
