import Anysystem.Props.C18
#print axioms Anysystem.C18_relay_canonical
#print axioms Anysystem.C18_decode_exact
#print axioms Anysystem.C18_negative_delay_raises
#print axioms Anysystem.C18_failing_call_fails_handler
#print axioms Anysystem.C18_handler_fails_iff
#print axioms Anysystem.C18_accepted_handler_relays
#print axioms Anysystem.C18_canon_idempotent
#print axioms Anysystem.run_lists
