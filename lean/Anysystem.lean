import Anysystem.Model.Basic
import Anysystem.Model.Store
import Anysystem.Spec.StoreSpec
