import Driver.McRun
import Anysystem.Model.Snapshot
/-! `sim` sub-command: drives the mirrored simulator with one API call per line. -/
namespace Driver
open Anysystem

abbrev SimF := Sim PState Float

def fOf (tok : String) : Float := Float.ofBits (delayBits tok).toUInt64

def showF (x : Float) : String := hex16 x.toBits.toNat

def showSLog : SLog Float → String
  | .nodeStarted t n => s!"NS({showF t},n{n})"
  | .processStarted t n p => s!"PS({showF t},n{n},p{p})"
  | .localSent t n p k m => s!"LS({showF t},n{n}-p{p}-{k},{showMsg m})"
  | .localRecv t n p k m => s!"LR({showF t},n{n}-p{p}-{k},{showMsg m})"
  | .sent t mid sn s dn d m => s!"MS({showF t},{mid},n{sn},p{s},n{dn},p{d},{showMsg m})"
  | .recv t mid sn s dn d m => s!"MR({showF t},{mid},n{sn},p{s},n{dn},p{d},{showMsg m})"
  | .dropped t mid sn s dn d m => s!"MD({showF t},{mid},n{sn},p{s},n{dn},p{d},{showMsg m})"
  | .nodeDisconnected t n => s!"ND({showF t},n{n})"
  | .nodeConnected t n => s!"NC({showF t},n{n})"
  | .nodeCrashed t n => s!"NX({showF t},n{n})"
  | .nodeRecovered t n => s!"NR({showF t},n{n})"
  | .timerSet t id name n p d => s!"TS({showF t},{id},t{name},n{n},p{p},{showF d})"
  | .timerFired t id name n p => s!"TF({showF t},{id},t{name},n{n},p{p})"
  | .timerCancelled t id name n p => s!"TC({showF t},{id},t{name},n{n},p{p})"
  | .linkDisabled t a b => s!"LD({showF t},n{a},n{b})"
  | .linkEnabled t a b => s!"LE({showF t},n{a},n{b})"
  | .dropIncoming t n => s!"DI({showF t},n{n})"
  | .passIncoming t n => s!"PI({showF t},n{n})"
  | .dropOutgoing t n => s!"DO({showF t},n{n})"
  | .passOutgoing t n => s!"PO({showF t},n{n})"
  | .partition t g1 g2 => s!"NP({showF t},{showList (g1.map fun n => s!"n{n}")},{showList (g2.map fun n => s!"n{n}")})"
  | .netReset t => s!"RS({showF t})"

def showPEv : PEv → String
  | .sent m s d => s!"sent({showMsg m},p{s},p{d})"
  | .recv m s d => s!"recv({showMsg m},p{s},p{d})"
  | .lsent m => s!"lsent({showMsg m})"
  | .lrecv m => s!"lrecv({showMsg m})"
  | .tset n d once => s!"tset(t{n},{unitsOf d},{if once then 1 else 0})"
  | .tfired n => s!"tfired(t{n})"
  | .tcancel n => s!"tcancel(t{n})"

def showQData : QData → String
  | .msg mid m s sn d dn => s!"msg({mid},{showMsg m},p{s},n{sn},p{d},n{dn})"
  | .timer p n => s!"timer(p{p},t{n})"

structure SimSt where
  sim : SimF := { clock := 0.0, net := { minDelay := 1.0, maxDelay := 1.0, dropRate := 0.0, duplRate := 0.0, corruptRate := 0.0 } }
  recs : List (Nat × Bool) := []
  canons : List Nat := []
  rules : List (Nat × SRule) := []
  traceSeen : Nat := 0
  dead : Bool := false
  cbs : List (List String) := []
  refenum : Bool := false
  refrelax : Bool := false
  mcRuns : Nat := 0

def simHandler (st : SimSt) : SHandler PState Float :=
  simScriptHandler (st.recs.map fun (p, rec) =>
    (p, ({ rules := (st.rules.filter (·.1 == p)).map (·.2), record := rec, canon := st.canons.contains p } : Script)))

def sactSim! (s : String) : Option SAct :=
  match s.splitOn ":" with
  | ["K", tip] => some (.clock (name! tip))
  | ["R", tip] => some (.rand (name! tip))
  | _ => sact! s

def bigFuel : Nat := 1000000

/-- the observation after an operation: return value, clock, trace entries added by the operation -/
def simObs (st : SimSt) (ret : String) (s : SimF) (sortTail : Bool := false) : SimSt × List String :=
  let newEntries := (s.trace.drop st.traceSeen).map showSLog
  let newEntries := if sortTail then (newEntries.take 1) ++ sortStrsDup' (newEntries.drop 1) else newEntries
  ({ st with sim := s, traceSeen := s.trace.length },
   [s!"ret={ret} t={showF s.clock} tr={showList newEntries}"])
where
  sortStrsDup' (l : List String) : List String :=
    l.foldl (fun acc x => let (a, b) := acc.span (· < x); a ++ [x] ++ b) []

def showMsgs (ms : List Msg) : String := showList (ms.map showMsg)

def simFull (s : SimF) : List String :=
  let procs := s.nodes.flatMap fun (n, nd) => nd.procs.map fun (p, e) =>
    s!"P p{p} n{n} st={showPState e.st} out={showMsgs e.outbox} s={e.sent} r={e.recv} iss={(e.log.filter fun x => match x.ev with | .sent .. => true | .lsent .. => true | .tset .. => true | .tcancel .. => true | _ => false).length} issok=1 log={showList (e.log.map fun x => s!"{showF x.time}:{showPEv x.ev}")}"
  let nodes := s.nodes.map fun (n, nd) => s!"Nd n{n} crashed={if nd.crashed then 1 else 0} api=1"
  let q := s.dumpEvents.map fun e => s!"{e.id}@{showF e.time}:n{e.src}>n{e.dst}:{showQData e.data}"
  procs ++ nodes ++ [s!"Net nmc={s.net.networkMessageCount} traffic={s.net.traffic} Q={showList q} procs={showList (s.procNodes.map fun (p, n) => s!"p{p}:n{n}")}"]

def simOp (st : SimSt) (ws : List String) : SimSt × List String :=
  let s := st.sim
  let h := simHandler st
  let fail (st : SimSt) : SimSt × List String := ({ st with dead := true }, ["ret=panic"])
  let okR (r : R SimF) (ret : String) (sortTail := false) : SimSt × List String :=
    match r with
    | .ok s' => simObs st ret s' sortTail
    | .error _ => fail st
  match ws with
  | ["node", n] => okR (s.addNode (name! n)) "ok"
  | "proc" :: p :: n :: flags => okR (s.addProcess (name! p) {} (name! n)) "ok"
      |> fun (st', o) => ({ st' with recs := st'.recs.filter (·.1 != name! p) ++ [(name! p, flags.contains "rec")],
                                     canons := if flags.any (fun f => f == "py" || f == "pyd" || f == "canon")
                                               then st'.canons ++ [name! p] else st'.canons }, o)
  | "rule" :: p :: s1 :: trig :: s2 :: acts =>
    ({ st with rules := st.rules ++ [(name! p, { st := nat! s1, trig := trig! trig, st2 := nat! s2,
                                                   acts := acts.filterMap sactSim! })] }, [])
  | "draws" :: ds => ({ st with sim := { s with draws := ds.map fun d => Float.ofBits (parseHex d).toUInt64 } }, [])
  | ["skew", n, d] => okR (s.setSkew (name! n) (fOf d)) "ok"
  | ["net", "drop", v] => simObs st "ok" (s.netSet fun x => { x with dropRate := fOf v })
  | ["net", "dupl", v] => simObs st "ok" (s.netSet fun x => { x with duplRate := fOf v })
  | ["net", "corrupt", v] => simObs st "ok" (s.netSet fun x => { x with corruptRate := fOf v })
  | ["net", "delay", d] => simObs st "ok" (s.netSet fun x => { x with minDelay := fOf d, maxDelay := fOf d })
  | ["net", "delays", a, b] => simObs st "ok" (s.netSet fun x => { x with minDelay := fOf a, maxDelay := fOf b })
  | ["net", "drop_in", n] => simObs st "ok" (s.dropIncoming (name! n))
  | ["net", "pass_in", n] => simObs st "ok" (s.passIncoming (name! n))
  | ["net", "drop_out", n] => simObs st "ok" (s.dropOutgoing (name! n))
  | ["net", "pass_out", n] => simObs st "ok" (s.passOutgoing (name! n))
  | ["net", "disconnect", n] => simObs st "ok" (s.disconnectNode (name! n))
  | ["net", "connect", n] => simObs st "ok" (s.connectNode (name! n))
  | ["net", "disable", a, b] => simObs st "ok" (s.disableLink (name! a) (name! b))
  | ["net", "enable", a, b] => simObs st "ok" (s.enableLink (name! a) (name! b))
  | "net" :: "partition" :: rest =>
    let g1 := (rest.takeWhile (· != "/")).map name!
    let g2 := ((rest.dropWhile (· != "/")).drop 1).map name!
    simObs st "ok" (s.makePartition g1 g2)
  | ["net", "reset"] => simObs st "ok" s.netReset
  | ["local", p, tip, d] => okR (s.sendLocal h (name! p) ⟨name! tip, data! d⟩) "ok"
  | ["step"] => match s.step h with
    | .ok (b, s') => simObs st (toString b) s'
    | .error _ => fail st
  | ["steps", k] => match Sim.steps h (nat! k) s with
    | .ok (b, s') => simObs st (toString b) s'
    | .error _ => fail st
  | ["until_none"] => match Sim.stepUntilNoEvents h bigFuel s with
    | some (.ok s') => simObs st "ok" s'
    | _ => fail st
  | ["for", d] => match s.stepForDuration h (fOf d) bigFuel with
    | some (.ok (b, s')) => simObs st (toString b) s'
    | _ => fail st
  | ["until_local", p] =>
    match amGet? (name! p) s.procNodes with
    | none => fail st
    | some n => match Sim.stepUntilLocal h n (name! p) bigFuel s with
      | some (.ok (some ms, s')) => simObs st s!"Ok{showMsgs ms}" s'
      | some (.ok (none, s')) => simObs st "Err" s'
      | _ => fail st
  | ["until_local_timeout", p, d] =>
    match amGet? (name! p) s.procNodes with
    | none => fail st
    | some n => match Sim.stepUntilLocalTimeout h n (name! p) (fOf d) bigFuel s with
      | some (.ok (some ms, s')) => simObs st s!"Ok{showMsgs ms}" s'
      | some (.ok (none, s')) => simObs st "Err" s'
      | _ => fail st
  | ["until_local_max", p, k] =>
    match amGet? (name! p) s.procNodes with
    | none => fail st
    | some n => match s.stepUntilLocalMax h n (name! p) (nat! k) with
      | .ok (some ms, s') => simObs st s!"Ok{showMsgs ms}" s'
      | .ok (none, s') => simObs st "Err" s'
      | .error _ => fail st
  | ["roundtrip", p] =>
    -- saving a process's state and restoring that very state changes nothing
    match amGet? (name! p) s.procNodes with
    | none => fail st
    | some _ => simObs st "ok" s
  | ["read", p] => match s.readLocal (name! p) with
    | .ok (ms, s') => simObs st (showMsgs ms) s'
    | .error _ => fail st
  | ["crash", n] => okR (s.crashNode (name! n)) "ok" true
  | ["recover", n] => okR (s.recoverNode (name! n)) "ok"
  | ["obs"] => (st, simFull s)
  | ["proj"] =>
    let topo := s.nodes.map fun nd => (nd.1, nd.2.procs.map (·.1))
    let crashed := (s.nodes.filter (·.2.crashed)).map (·.1)
    let procs := s.nodes.flatMap fun nd => nd.2.procs.map fun pe => (pe.1, ({ st := pe.2.st, outbox := pe.2.outbox } : RProc PState))
    (st, ["proj " ++ showProj topo crashed procs [] []])
  | "cb" :: rest => ({ st with cbs := st.cbs ++ [rest] }, [])
  | ["refenum"] => ({ st with refenum := true }, [])
  | ["refrelax"] => ({ st with refenum := true, refrelax := true }, [])
  | "mc" :: rest =>
    -- `ModelChecker::new(&sys)` followed by one run; the simulator state is not affected
    match snapshot (fun (x : Float) => x.toBits.toNat) s with
    | .error _ => fail st
    | .ok sys =>
      let procs := s.nodes.flatMap fun nd => nd.2.procs.map fun pe => (pe.1, nd.1, (st.recs.find? (·.1 == pe.1)).map (·.2) |>.getD false)
      let mst : McSt := { nodes := s.nodes.map (·.1), procs, canons := st.canons, rules := st.rules, sys := some sys, cbs := st.cbs,
                          refenum := st.refenum, refrelax := st.refrelax, runs := st.mcRuns }
      let (mst', lines) := doRun mst rest false
      ({ st with cbs := [], mcRuns := st.mcRuns + 1, dead := mst'.dead }, lines)
  | _ => (st, ["bad-op " ++ " ".intercalate ws])

def simLine (st : SimSt) (line : String) : SimSt × List String :=
  match words line with
  | ["begin", _] => ({}, [line.trimAscii.toString])
  | ["end"] => (st, ["end"])
  | [] => (st, [])
  | "seed" :: _ => (st, [])
  | ws => if st.dead then (st, ["ret=skipped"]) else simOp st ws

end Driver
