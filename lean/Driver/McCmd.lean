import Driver.StoreCmd
import Anysystem.Model.Strategy
/-! `mc` sub-command: builds a model-checking system of script processes, applies callback
operations and runs the mirrored strategies, printing the canonical observation stream. -/
namespace Driver
open Anysystem

abbrev Sys := McSys PState

/-! ## parsing scripts -/

def trig! (s : String) : Nat :=
  match s.toList with
  | 'L' :: ':' :: rest => name! (String.ofList rest)
  | 'M' :: ':' :: rest => 1000 + name! (String.ofList rest)
  | 'T' :: ':' :: rest => 2000 + name! (String.ofList rest)
  | _ => 0

def sdata! (s : String) : SData := if s == "$" then .echo else .lit (data! s)

def sact! (s : String) : Option SAct :=
  match s.splitOn ":" with
  | ["S", tip, d, dst] => some (.send (name! tip) (sdata! d) (name! dst))
  | ["L", tip, d] => some (.loc (name! tip) (sdata! d))
  | ["T", n, d] => some (.set (name! n) (nat! d))
  | ["O", n, d] => some (.once (name! n) (nat! d))
  | ["C", n] => some (.cancel (name! n))
  | _ => none

/-! ## predicates -/

inductive Atom where
  | never
  | dgt (n : Nat)
  | out (p n : Nat)
  | st (p n : Nat)
  | noev
  | always
deriving Repr, Inhabited

def atom! (s : String) : Atom :=
  match s.splitOn ":" with
  | ["none"] => .never
  | ["dgt", n] => .dgt (nat! n)
  | ["out", p, n] => .out (name! p) (nat! n)
  | ["st", p, n] => .st (name! p) (nat! n)
  | ["noev"] => .noev
  | ["always"] => .always
  | _ => .never

def findProc (s : Sys) (p : Nat) : Option (ProcEntry PState) :=
  s.nodes.findSome? (fun (_, nd) => amGet? p nd.procs)

def Atom.holds (a : Atom) (s : Sys) : Bool :=
  match a with
  | .never => false
  | .dgt n => s.depth > n
  | .out p n => match findProc s p with
    | some e => e.outbox.length ≥ n
    | Option.none => false
  | .st p n => match findProc s p with
    | some e => e.st.st == n
    | Option.none => false
  | .noev => s.events.available.isEmpty
  | .always => true

/-- `a|b|c` -/
def cond! (s : String) : Sys → Bool :=
  let atoms := (s.splitOn "|").map atom!
  fun st => atoms.any (·.holds st)

/-! ## canonical rendering -/

def showPState (p : PState) : String := s!"{p.st}|{".".intercalate (p.hist.map toString)}"

def showKey (s : Sys) : String :=
  let nodes := s.nodes.map fun (n, nd) =>
    let procs := nd.procs.map fun (p, e) =>
      s!"p{p}:{showPState e.st};o={showList (e.outbox.map showMsg)}"
    s!"n{n}:c{if nd.crashed then 1 else 0}" ++ "{" ++ " ".intercalate procs ++ "}"
  let evs := s.events.events.map fun (i, e) => s!"{i}:{showEv e}"
  s!"N{showList nodes} E{showList evs} A{showNats s.events.available} TM{showTm s.events.timerMapping} nx={s.events.idCounter}"

def showExtras (s : Sys) : String :=
  let procs := s.nodes.flatMap fun (_, nd) => nd.procs.map fun (p, e) =>
    s!"p{p}:pend={showList (e.pending.map fun t => s!"t{t}")};s={e.sent};r={e.recv};log={e.log.length}"
  s!"X{showList procs} d={s.depth} tr={s.trace.length}"

def showLog : LogE → String
  | .started => "started"
  | .lsent m p => s!"lsent({showMsg m},p{p})"
  | .lrecv m p => s!"lrecv({showMsg m},p{p})"
  | .sent m s d => s!"sent({showMsg m},p{s},p{d})"
  | .recv m s d => s!"recv({showMsg m},p{s},p{d})"
  | .dropped m s d => s!"drop({showMsg m},p{s},p{d})"
  | .corrupted m cm s d => s!"corr({showMsg m},{showMsg cm},p{s},p{d})"
  | .duplicated m s d => s!"dupl({showMsg m},p{s},p{d})"
  | .tset p t => s!"tset(p{p},t{t})"
  | .tfired p t => s!"tfired(p{p},t{t})"
  | .tcancel p t => s!"tcancel(p{p},t{t})"
  | .crashed n => s!"crashed(n{n})"
  | .sim _ => "sim"

def showTrace (t : List LogE) : String := showList (t.map showLog)

def showState (s : Sys) : String := s!"{showKey s} {showExtras s}"

/-! ## scenario state -/

structure McSt where
  nodes : List Nat := []
  procs : List (Nat × Nat × Bool) := []     -- proc, node, record
  rules : List (Nat × SRule) := []
  net : McNet := {}
  cbs : List (List String) := []
  sys : Option Sys := none                  -- built lazily at the first run
  collected : List Sys := []
  cfg : Cfg := {}
  runs : Nat := 0
  dead : Bool := false

def buildSys (st : McSt) : Sys :=
  let nodes := st.nodes.foldl (fun acc n =>
    let procs := (st.procs.filter (fun (_, nd, _) => nd == n)).foldl
      (fun ps (p, _, _) => amInsert natLt p ({ st := {} } : ProcEntry PState) ps) []
    amInsert natLt n ({ procs } : McNode PState) acc) []
  let loc := st.procs.foldl (fun acc (p, n, _) => amInsert natLt p n acc) []
  { nodes, net := { st.net with procLoc := loc } }

def handlerOf (st : McSt) : Handler PState :=
  let scripts := st.procs.map fun (p, _, rec) =>
    (p, ({ rules := (st.rules.filter (·.1 == p)).map (·.2), record := rec } : Script))
  scriptHandler scripts

def flag! (s : String) : Bool := s != "0"

def netOp (n : McNet) : List String → McNet
  | ["drop", v] => { n with dropPos := flag! v }
  | ["dupl", v] => { n with duplNonzero := flag! v }
  | ["corrupt", v] => { n with corruptPos := flag! v }
  | ["drop_in", nd] => n.dropIncomingOn (name! nd)
  | ["drop_out", nd] => n.dropOutgoingOn (name! nd)
  | ["disconnect", nd] => n.disconnectNode (name! nd)
  | ["disable", a, b] => n.disableLink (name! a) (name! b)
  | "partition" :: rest =>
    let g1 := (rest.takeWhile (· != "/")).map name!
    let g2 := ((rest.dropWhile (· != "/")).drop 1).map name!
    n.partition g1 g2
  | ["reset"] => n.reset
  | _ => n

def applyCb (cfg : Cfg) (h : Handler PState) (s : Sys) : List String → R Sys
  | ["local", p, tip, d] =>
    match s.net.procNode (name! p) with
    | .ok nd => s.sendLocal cfg h nd (name! p) ⟨name! tip, data! d⟩
    | .error e => .error e
  | ["crash", n] => s.crashNode cfg (name! n)
  | ["mode", m] => .ok { s with mode := if m == "mf" then .messagesFirst else .normal }
  | "net" :: rest => .ok { s with net := netOp s.net rest }
  | _ => .error "bad callback op"

def applyCbs (cfg : Cfg) (h : Handler PState) (cbs : List (List String)) (s : Sys) : R Sys :=
  cbs.foldl (fun r cb => match r with
    | .error e => .error e
    | .ok s => applyCb cfg h s cb) (.ok s)

def kv (ws : List String) (k : String) : String :=
  match ws.find? (fun w => w.startsWith (k ++ "=")) with
  | some w => (w.drop (k.length + 1)).toString
  | none => "none"

def fuelDefault : Nat := 100000000

/-- one `run`/`runfrom` line -/
def doRun (st : McSt) (ws : List String) (fromStates : Bool) : McSt × List String :=
  if st.dead then ({ st with runs := st.runs + 1 }, [s!"run {st.runs} skipped"]) else
  let sys := st.sys.getD (buildSys st)
  let h := handlerOf st
  let strat := if ws.getD 1 "dfs" == "bfs" then Strat.bfs else Strat.dfs
  let mode := match ws.getD 2 "full" with
    | "full" => CacheMode.full
    | "partial" => CacheMode.hashed
    | _ => CacheMode.disabled
  let inv := cond! (kv ws "inv"); let goal := cond! (kv ws "goal")
  let prune := cond! (kv ws "prune"); let coll := cond! (kv ws "collect")
  let preds : Preds PState :=
    { invariant := fun s => if inv s then some "inv" else none,
      goal := fun s => if goal s then some "goal" else none,
      prune := fun s => if prune s then some "prune" else none,
      collect := coll }
  -- the model's Partial cache uses an injective hash (collision freedom is the stated assumption):
  -- it is represented by running the Full cache
  let mode' := if mode == .hashed then CacheMode.full else mode
  let acc0 : Acc Sys (McSys.Key PState) := { cache := { mode := mode' } }
  let cb := applyCbs st.cfg h st.cbs
  let hdr := s!"run {st.runs}"
  let starts : List Sys :=
    if fromStates then
      -- `states.sort_by_key(depth)`; ties are ordered by the state hash in the code: the harness
      -- reports evaluated *sets* for multi-start runs, so any tie order is fine here
      let sorted := st.collected.foldl (fun acc s =>
        let (a, b) := acc.span (fun x => x.depth ≤ s.depth); a ++ [s] ++ b) []
      sorted.map fun c => (sys.setState c.getState)
    else [sys]
  -- run over the start states with one strategy (shared cache); statistics are summed
  let rec go : List Sys → Acc Sys (McSys.Key PState) → List Sys → List Sys → List (String × Nat) →
      (String × List Sys × List Sys × List (String × Nat) × Option Sys)
    | [], _, ev, col, stt => ("ok", ev, col, stt, none)
    | s :: rest, acc, ev, col, stt =>
      match runImpl st.cfg h preds (fun _ => 0) strat fuelDefault s cb { acc with evald := [], collected := [], statuses := [] } with
      | none => ("fuel", ev, col, stt, none)
      | some (r, acc', _) =>
        let ev' := ev ++ acc'.evald
        let col' := acc'.collected.foldl (fun c x => if c.any (fun y => y.key = x.key) then c else c ++ [x]) col
        let stt' := acc'.statuses.foldl (fun m (k, n) =>
          if m.any (·.1 == k) then m.map (fun (a, c) => if a == k then (a, c + n) else (a, c)) else m ++ [(k, n)]) stt
        match r with
        | .ok => go rest acc' ev' col' stt'
        | .err msg e => (s!"err:{if msg.startsWith "nothing left" then "deadend" else msg}", ev', col', stt', some e)
        | .panic _ => ("panic", ev', col', stt', none)
  let (res, ev, col, stt, errSt) := go starts acc0 [] [] []
  let isOk := res == "ok"
  let col := if isOk then col else []
  let lines := [s!"{hdr} result={res} evaluated={ev.length} collected={col.length}"]
    ++ ev.map (fun s => "E " ++ showState s)
    ++ (col.map (fun s => "C " ++ showState s ++ " T" ++ showTrace s.trace))
    ++ (match errSt with
        | some e => ["T " ++ showState e ++ " T" ++ showTrace e.trace]
        | none => [])
    ++ (if isOk then [s!"stat {showList (stt.map fun (k, n) => s!"{k}:{n}")}"] else [])
  ({ st with sys := some sys, cbs := [], collected := col, runs := st.runs + 1, dead := res == "panic" || res == "fuel" }, lines)

def mcLine (st : McSt) (line : String) : McSt × List String :=
  match words line with
  | ["begin", _] => ({}, [line.trimAscii.toString])
  | ["end"] => (st, ["end"])
  | ["cfg", "reference"] => ({ st with cfg := { st.cfg with overrideLeavesOld := false } }, [])
  | ["node", n] => ({ st with nodes := st.nodes ++ [name! n] }, [])
  | ["proc", p, n] => ({ st with procs := st.procs ++ [(name! p, name! n, false)] }, [])
  | ["proc", p, n, "rec"] => ({ st with procs := st.procs ++ [(name! p, name! n, true)] }, [])
  | "rule" :: p :: s1 :: trig :: s2 :: acts =>
    ({ st with rules := st.rules ++ [(name! p, { st := nat! s1, trig := trig! trig, st2 := nat! s2,
                                                   acts := acts.filterMap sact! })] }, [])
  | "net" :: rest => ({ st with net := netOp st.net rest }, [])
  | "cb" :: rest => ({ st with cbs := st.cbs ++ [rest] }, [])
  | "run" :: _ => doRun st (words line) false
  | "runfrom" :: _ => doRun st (words line) true
  | [] => (st, [])
  | _ => (st, ["bad-op " ++ line.trimAscii.toString])

end Driver
