import Driver.StoreCmd
import Anysystem.Model.Strategy
/-! `mc` sub-command: builds a model-checking system of script processes, applies callback
operations and runs the mirrored strategies, printing the canonical observation stream. -/
namespace Driver
open Anysystem

abbrev Sys := McSys PState

/-! ## parsing scripts -/

def trig! (s : String) : Nat :=
  match s.toList with
  | 'L' :: ':' :: rest => name! (String.ofList rest)
  | 'M' :: ':' :: rest => 1000 + name! (String.ofList rest)
  | 'T' :: ':' :: rest => 2000 + name! (String.ofList rest)
  | _ => 0

def sdata! (s : String) : SData := if s == "$" then .echo else .lit (data! s)

def sact! (s : String) : Option SAct :=
  match s.splitOn ":" with
  | ["S", tip, d, dst] => some (.send (name! tip) (sdata! d) (name! dst))
  | ["L", tip, d] => some (.loc (name! tip) (sdata! d))
  | ["T", n, d] => some (.set (name! n) (delayBits d))
  | ["O", n, d] => some (.once (name! n) (delayBits d))
  | ["C", n] => some (.cancel (name! n))
  | _ => none

/-! ## predicates -/

inductive Atom where
  | never
  | dgt (n : Nat)
  | out (p n : Nat)
  | st (p n : Nat)
  | noev
  | always
deriving Repr, Inhabited

def atom! (s : String) : Atom :=
  match s.splitOn ":" with
  | ["none"] => .never
  | ["dgt", n] => .dgt (nat! n)
  | ["out", p, n] => .out (name! p) (nat! n)
  | ["st", p, n] => .st (name! p) (nat! n)
  | ["noev"] => .noev
  | ["always"] => .always
  | _ => .never

def findProc (s : Sys) (p : Nat) : Option (ProcEntry PState) :=
  s.nodes.findSome? (fun (_, nd) => amGet? p nd.procs)

def Atom.holds (a : Atom) (s : Sys) : Bool :=
  match a with
  | .never => false
  | .dgt n => s.depth > n
  | .out p n => match findProc s p with
    | some e => e.outbox.length ≥ n
    | Option.none => false
  | .st p n => match findProc s p with
    | some e => e.st.st == n
    | Option.none => false
  | .noev => s.events.available.isEmpty
  | .always => true

/-- `a|b|c` -/
def cond! (s : String) : Sys → Bool :=
  let atoms := (s.splitOn "|").map atom!
  fun st => atoms.any (·.holds st)

/-! ## canonical rendering -/

def showPState (p : PState) : String := s!"{p.st}|{".".intercalate (p.hist.map toString)}"

def showKey (s : Sys) : String :=
  let nodes := s.nodes.map fun (n, nd) =>
    let procs := nd.procs.map fun (p, e) =>
      s!"p{p}:{showPState e.st};o={showList (e.outbox.map showMsg)}"
    s!"n{n}:c{if nd.crashed then 1 else 0}" ++ "{" ++ "/".intercalate procs ++ "}"
  let evs := s.events.events.map fun (i, e) => s!"{i}:{showEv e}"
  s!"N{showList nodes} E{showList evs} A{showNats s.events.available} TM{showTm s.events.timerMapping} nx={s.events.idCounter}"

def showExtras (s : Sys) : String :=
  let procs := s.nodes.flatMap fun (_, nd) => nd.procs.map fun (p, e) =>
    s!"p{p}:pend={showList (e.pending.map fun t => s!"t{t}")};s={e.sent};r={e.recv};log={e.log.length}"
  s!"X{showList procs} d={s.depth} tr={(s.trace.filter (fun e => match e with | .sim _ => false | _ => true)).length}"

def showLog : LogE → String
  | .started => "started"
  | .lsent m p => s!"lsent({showMsg m},p{p})"
  | .lrecv m p => s!"lrecv({showMsg m},p{p})"
  | .sent m s d => s!"sent({showMsg m},p{s},p{d})"
  | .recv m s d => s!"recv({showMsg m},p{s},p{d})"
  | .dropped m s d => s!"drop({showMsg m},p{s},p{d})"
  | .corrupted m cm s d => s!"corr({showMsg m},{showMsg cm},p{s},p{d})"
  | .duplicated m s d => s!"dupl({showMsg m},p{s},p{d})"
  | .tset p t => s!"tset(p{p},t{t})"
  | .tfired p t => s!"tfired(p{p},t{t})"
  | .tcancel p t => s!"tcancel(p{p},t{t})"
  | .crashed n => s!"crashed(n{n})"
  | .sim _ => "sim"

def showTrace (t : List LogE) : String :=
  showList ((t.filter (fun e => match e with | .sim _ => false | _ => true)).map showLog)

def showState (s : Sys) : String := s!"{showKey s} {showExtras s}"

/-! ## scenario state -/

structure McSt where
  nodes : List Nat := []
  procs : List (Nat × Nat × Bool) := []     -- proc, node, record
  canons : List Nat := []                   -- processes whose actions are relayed in Python-bridge order
  rules : List (Nat × SRule) := []
  net : McNet := { maxDelay := delayBits "2" }
  cbs : List (List String) := []
  sys : Option Sys := none                  -- built lazily at the first run
  collected : List Sys := []
  collectedRef : List Sys := []             -- collected states of the reference variant's run (refenum only)
  cfg : Cfg := {}
  runs : Nat := 0
  dead : Bool := false
  refenum : Bool := false
  refrelax : Bool := false                  -- additionally enumerate with the identical-message reduction restricted to equal options (W lines)
  preds : Bool := false

def buildSys (st : McSt) : Sys :=
  let nodes := st.nodes.foldl (fun acc n =>
    let procs := (st.procs.filter (fun (_, nd, _) => nd == n)).foldl
      (fun ps (p, _, _) => amInsert natLt p ({ st := {} } : ProcEntry PState) ps) []
    amInsert natLt n ({ procs } : McNode PState) acc) []
  let loc := st.procs.foldl (fun acc (p, n, _) => amInsert natLt p n acc) []
  { nodes, net := { st.net with procLoc := loc } }

def handlerOf (st : McSt) : Handler PState :=
  let scripts := st.procs.map fun (p, _, rec) =>
    (p, ({ rules := (st.rules.filter (·.1 == p)).map (·.2), record := rec, canon := st.canons.contains p } : Script))
  scriptHandler scripts

def flag! (s : String) : Bool := s != "0"

def netOp (n : McNet) : List String → McNet
  | ["drop", v] => { n with dropPos := flag! v }
  | ["dupl", v] => { n with duplNonzero := flag! v }
  | ["corrupt", v] => { n with corruptPos := flag! v }
  | ["drop_in", nd] => n.dropIncomingOn (name! nd)
  | ["drop_out", nd] => n.dropOutgoingOn (name! nd)
  | ["disconnect", nd] => n.disconnectNode (name! nd)
  | ["disable", a, b] => n.disableLink (name! a) (name! b)
  | "partition" :: rest =>
    let g1 := (rest.takeWhile (· != "/")).map name!
    let g2 := ((rest.dropWhile (· != "/")).drop 1).map name!
    n.partition g1 g2
  | ["reset"] => n.reset
  | ["delay", d] => { n with maxDelay := delayBits d }
  | ["delays", _, d] => { n with maxDelay := delayBits d }
  | _ => n

def applyCb (cfg : Cfg) (h : Handler PState) (s : Sys) : List String → R Sys
  | ["local", p, tip, d] =>
    match s.net.procNode (name! p) with
    | .ok nd => s.sendLocal cfg h nd (name! p) ⟨name! tip, data! d⟩
    | .error e => .error e
  | ["crash", n] => s.crashNode cfg (name! n)
  | ["mode", m] => .ok { s with mode := if m == "mf" then .messagesFirst else .normal }
  | "net" :: rest => .ok { s with net := netOp s.net rest }
  | _ => .error "bad callback op"

def applyCbs (cfg : Cfg) (h : Handler PState) (cbs : List (List String)) (s : Sys) : R Sys :=
  cbs.foldl (fun r cb => match r with
    | .error e => .error e
    | .ok s => applyCb cfg h s cb) (.ok s)

def kv (ws : List String) (k : String) : String :=
  match ws.find? (fun w => w.startsWith (k ++ "=")) with
  | some w => (w.drop (k.length + 1)).toString
  | none => "none"

end Driver
