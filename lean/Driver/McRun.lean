import Driver.RefEnum
import Driver.PredCmd
/-! `run` / `runfrom` lines of the `mc` sub-command. -/
namespace Driver
open Anysystem

def fuelDefault : Nat := 100000000

/-- the checker's network settings, as the harness renders them from `McState::network` -/
def showNet (n : McNet) : String :=
  let b (x : Bool) : String := if x then "1" else "0"
  let nodes (l : List Nat) : String := showList (sortStrs (l.map fun x => s!"n{x}"))
  let links := showList (sortStrs (n.disabledLinks.map fun (a, b) => s!"n{a}>n{b}"))
  s!"drop={b n.dropPos} dupl={b n.duplNonzero} corrupt={b n.corruptPos} din={nodes n.dropIncoming} dout={nodes n.dropOutgoing} links={links} maxd={unitsOf n.maxDelay}"


/-- one `run`/`runfrom` line -/
def doRun (st : McSt) (ws : List String) (fromStates : Bool) : McSt × List String :=
  if st.dead then ({ st with runs := st.runs + 1 }, [s!"run {st.runs} skipped"]) else
  let sys := st.sys.getD (buildSys st)
  let h := handlerOf st
  let strat := if ws.getD 1 "dfs" == "bfs" then Strat.bfs else Strat.dfs
  let mode := match ws.getD 2 "full" with
    | "full" => CacheMode.full
    | "partial" => CacheMode.hashed
    | _ => CacheMode.disabled
  let inv := cond! (kv ws "inv"); let goal := cond! (kv ws "goal")
  let prune := cond! (kv ws "prune"); let coll := cond! (kv ws "collect")
  let preds : Preds PState :=
    { invariant := fun s => if inv s then some "inv" else none,
      goal := fun s => if goal s then some "goal" else none,
      prune := fun s => if prune s then some "prune" else none,
      collect := coll }
  -- the model's Partial cache uses an injective hash (collision freedom is the stated assumption):
  -- it is represented by running the Full cache
  let mode' := if mode == .hashed then CacheMode.full else mode
  let acc0 : Acc Sys (McSys.Key PState) := { cache := { mode := mode' } }
  let cb := applyCbs st.cfg h st.cbs
  let hdr := s!"run {st.runs}"
  let sortedStarts : List Sys :=
    -- `states.sort_by_key(depth)`; ties are ordered by the state hash in the code: the comparison
    -- is on evaluated *sets* for multi-start runs, so any tie order is fine here
    st.collected.foldl (fun acc s =>
      let (a, b) := acc.span (fun x => x.depth ≤ s.depth); a ++ [s] ++ b) []
  let sortedStartsRef : List Sys :=
    st.collectedRef.foldl (fun acc s =>
      let (a, b) := acc.span (fun x => x.depth ≤ s.depth); a ++ [s] ++ b) []
  let outcome : Option (Res Sys × Totals PState) :=
    if fromStates then
      (runFromStates st.cfg h preds (fun _ => 0) strat fuelDefault sys cb mode' (sortedStarts.map (·.getState))).map
        fun (r, tot, _) => (r, tot)
    else
      (runImpl st.cfg h preds (fun _ => 0) strat fuelDefault sys cb acc0).map
        fun (r, acc, _) => (r, ({ evald := acc.evald, collected := acc.collected, statuses := acc.statuses } : Totals PState))
  let (res, ev, col, stt, errSt) : String × List Sys × List Sys × List (String × Nat) × Option Sys :=
    match outcome with
    | none => ("fuel", [], [], [], none)
    | some (.ok, tot) => ("ok", tot.evald, tot.collected, tot.statuses, none)
    | some (.err msg e, tot) =>
      (s!"err:{if msg.startsWith "nothing left" then "deadend" else msg}", tot.evald, tot.collected, tot.statuses, some e)
    | some (.panic _, tot) => ("panic", tot.evald, tot.collected, tot.statuses, none)
  -- `ExecutionMode::Default` (token `xmode=default`): no status counters are kept; nothing else depends on the mode
  let stt := if kv ws "xmode" == "default" then [] else stt
  let refOut : List String × List Sys :=
    if !st.refenum then ([], []) else
      -- (a) the contract-conforming reference variant of the model checker (no D1); a staged run starts from the states the
      --     reference variant itself collected in the previous run
      let cfgRef : Cfg := { st.cfg with overrideLeavesOld := false }
      let cbRef := applyCbs cfgRef h st.cbs
      let showRes (r : Res Sys) : String := match r with
        | .ok => "ok" | .err msg _ => s!"err:{if msg.startsWith "nothing left" then "deadend" else msg}" | .panic _ => "panic"
      -- (b) the independent enumeration of the reference semantics (for a staged run: from every start state, union)
      let topo := sys.nodes.map fun nd => (nd.1, nd.2.procs.map (·.1))
      let invR := condR! (kv ws "inv"); let goalR := condR! (kv ws "goal"); let pruneR := condR! (kv ws "prune")
      let starts : List Sys := if fromStates then sortedStartsRef else [sys]
      let (rres, rset) := starts.foldl (fun (acc : String × EnumOut) c =>
        if acc.1 != "ok" then acc else
        let r0 : Option (RS × Mode) := st.cbs.foldl (fun rm cb => rm.bind (fun x => rApplyCb h x cb))
          (some ({ (rInit c) with trace := (rInit c).trace ++ [LogE.started] }, sys.mode))
        match r0 with
        | none => ("cb-impossible", acc.2)
        | some (r, mode) =>
          let noDepth := !(((kv ws "inv") ++ (kv ws "goal") ++ (kv ws "prune")).splitOn "dgt").length > 1
          let out := refEnum h mode topo invR goalR pruneR 6000 r c.depth { acc.2 with count := 0, visited := {} } noDepth
          (if out.capped then "capped" else if out.failed then "fail" else "ok", out)) ("ok", ({} : EnumOut))
        |> fun (x : String × EnumOut) => (x.1, x.2.seen)
      -- the reference variant is run only when the enumeration stayed below its cap (its exploration has the same size and no cap)
      let (vres, vset, vcol) : String × List String × List Sys :=
        if rres == "capped" then ("capped", [], []) else
        if fromStates then
          match runFromStates cfgRef h preds (fun _ => 0) strat fuelDefault sys cbRef mode' (sortedStartsRef.map (·.getState)) with
          | none => ("fuel", [], [])
          | some (r, tot, _) => (showRes r, sortStrs (tot.evald.map projSys), tot.collected)
        else
          match runImpl cfgRef h preds (fun _ => 0) strat fuelDefault sys cbRef acc0 with
          | none => ("fuel", [], [])
          | some (r, acc', _) => (showRes r, sortStrs (acc'.evald.map projSys), acc'.collected)
      -- (c) on request: the same enumeration with the identical-message reduction restricted to flights with equal options
      let wlines : List String :=
        if !st.refrelax || fromStates then [] else
          let r0 : Option (RS × Mode) := st.cbs.foldl (fun rm cb => rm.bind (fun x => rApplyCb h x cb))
            (some ({ (rInit sys) with trace := (rInit sys).trace ++ [LogE.started] }, sys.mode))
          match r0 with
          | Option.none => ["wres=cb-impossible"]
          | some (r, mode) =>
            let out := refEnum h mode topo invR goalR pruneR 6000 r sys.depth ({} : EnumOut) true true
            [s!"wres={if out.capped then "capped" else if out.failed then "fail" else "ok"}"] ++ out.seen.map ("W " ++ ·)
      ([s!"vres={vres} rres={rres}"] ++ vset.map ("V " ++ ·) ++ (if rres == "ok" then rset.map ("R " ++ ·) else []) ++ wlines,
       if vres == "ok" then vcol else [])
  let refLines := refOut.1
  let isOk := res == "ok"
  let col := if isOk then col else []
  let lines := [s!"{hdr} result={res} evaluated={ev.length} collected={col.length}"]
    ++ (match ev.head? with | some s0 => [s!"NETS {showNet s0.net}"] | none => [])
    ++ ev.map (fun s => "E " ++ showState s ++ (if st.preds then " " ++ predBattery s else ""))
    ++ (col.map (fun s => "C " ++ showState s ++ " T" ++ showTrace s.trace))
    ++ (match errSt with
        | some e => ["T " ++ showState e ++ (if st.preds then " " ++ predBattery e else "") ++ " T" ++ showTrace e.trace]
        | none => [])
    ++ (if isOk then [s!"stat {showList (stt.map fun (k, n) => s!"{k}:{n}")}"] else [])
    ++ refLines
  ({ st with sys := some sys, cbs := [], collected := col, collectedRef := refOut.2, runs := st.runs + 1, dead := res == "panic" || res == "fuel" }, lines)

def mcLine (st : McSt) (line : String) : McSt × List String :=
  match words line with
  | ["begin", _] => ({}, [line.trimAscii.toString])
  | ["end"] => (st, ["end"])
  | ["cfg", "reference"] => ({ st with cfg := { st.cfg with overrideLeavesOld := false } }, [])
  | ["refenum"] => ({ st with refenum := true }, [])
  | ["refrelax"] => ({ st with refenum := true, refrelax := true }, [])
  | ["preds"] => ({ st with preds := true }, [])
  | ["node", n] => ({ st with nodes := st.nodes ++ [name! n] }, [])
  | "proc" :: p :: n :: flags =>
    ({ st with procs := st.procs ++ [(name! p, name! n, flags.contains "rec")],
               canons := if flags.any (fun f => f == "py" || f == "pyd" || f == "canon") then st.canons ++ [name! p] else st.canons }, [])
  | "rule" :: p :: s1 :: trig :: s2 :: acts =>
    ({ st with rules := st.rules ++ [(name! p, { st := nat! s1, trig := trig! trig, st2 := nat! s2,
                                                   acts := acts.filterMap sact! })] }, [])
  | "net" :: rest => ({ st with net := netOp st.net rest }, [])
  | "cb" :: rest => ({ st with cbs := st.cbs ++ [rest] }, [])
  | "run" :: _ => doRun st (words line) false
  | "runfrom" :: _ => doRun st (words line) true
  | [] => (st, [])
  | _ => (st, ["bad-op " ++ line.trimAscii.toString])


end Driver
