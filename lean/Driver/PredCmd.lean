import Driver.McCmd
import Anysystem.Model.Pred
/-! The predicate battery appended to every evaluated state when a scenario asks for it (`preds`). -/
namespace Driver
open Anysystem

def b2c (b : Bool) : Char := if b then '1' else '0'
def ob2c (b : Option Bool) : Char := match b with | some true => '1' | some false => '0' | none => 'p'
def tri (f : Nat → Char) (x : Nat) : String := String.ofList [f (x - 1), f x, f (x + 1)]

def isTimerFired : LogE → Bool | .tfired .. => true | _ => false
def isDropped : LogE → Bool | .dropped .. => true | _ => false
def timerFiredBy : LogE → Nat → Bool | .tfired p _, q => p == q | _, _ => false
def involvedIn : LogE → Nat → Bool | .recv _ src dst, q => src == q || dst == q | _, _ => false

def predBattery (s : Sys) : String :=
  let D := s.depth
  let tr := s.trace.filter (fun e => match e with | .sim _ => false | _ => true)
  let sT : Sys := { s with trace := tr }     -- the harness scenarios for predicates have no simulated prefix
  let L := (currentRunTrace tr).length
  let procs := s.nodes.flatMap fun nd => nd.2.procs.map fun pe => (nd.1, pe.1)
  let (n0, p0) := procs.headD (0, 0)
  let outbox := ((Pred.findProc s n0 p0).map (·.outbox)).getD []
  let OL := outbox.length
  let datas := (outbox.map (·.data)).eraseDups
  let mx := (s.nodes.flatMap fun nd => nd.2.procs.map fun pe => pe.2.sent).foldl max 0
  let tf := countTrace isTimerFired (currentRunTrace tr)
  let dr := countTrace isDropped tr
  let pnames := procs.map (·.2)
  let mtf := (pnames.map fun q => countTrace (fun e => timerFiredBy e q) tr).foldl max 0
  let mi := (pnames.map fun q => countTrace (fun e => involvedIn e q) tr).foldl max 0
  let zz : List Nat := [122, 122]
  let items : List String := [
    "isd=" ++ tri (fun d => b2c (Pred.invStateDepth d sT)) D,
    "isdc=" ++ tri (fun d => b2c (Pred.invStateDepthCurrentRun d sT)) L,
    "isd0=" ++ String.singleton (b2c (Pred.invStateDepthCurrentRun 0 sT)),
    "irm=" ++ String.ofList [ob2c (Pred.invReceivedMessages n0 p0 datas sT), ob2c (Pred.invReceivedMessages n0 p0 (datas.drop 1) sT),
                            ob2c (Pred.invReceivedMessages n0 p0 (datas ++ [zz]) sT)],
    "ggn=" ++ tri (fun n => ob2c (Pred.gotNLocalMessages n0 p0 n sT)) OL,
    "gne=" ++ String.singleton (b2c (Pred.noEvents sT)),
    "gdr=" ++ tri (fun d => b2c (Pred.depthReached d sT)) D,
    "geh=" ++ tri (fun n => b2c (Pred.eventHappenedNTimesCurrentRun isTimerFired n sT)) tf,
    "gany=" ++ String.singleton (b2c (Pred.anyRule [fun (_ : Unit) x => (Pred.noEvents x, ()), fun _ x => (Pred.depthReached (D + 1) x, ())] [(), ()] sT).1),
    "gall=" ++ String.singleton (b2c (Pred.allRules [fun (_ : Unit) _ => (true, ()), fun _ x => (Pred.noEvents x, ())] [(), ()] sT).1),
    "psd=" ++ tri (fun d => b2c (Pred.pruneStateDepth d sT)) D,
    "psm=" ++ tri (fun k => b2c (Pred.sentMessagesLimit k sT)) mx,
    "pel=" ++ tri (fun k => b2c (Pred.eventsLimit isDropped k sT)) dr,
    "pep=" ++ tri (fun k => b2c (Pred.eventsLimitPerProc timerFiredBy pnames k sT)) mtf,
    "pei=" ++ tri (fun k => b2c (Pred.eventsLimitPerProc involvedIn pnames k sT)) mi,
    "ppp=" ++ String.ofList [ob2c (Pred.procPermutations pnames sT), ob2c (Pred.procPermutations pnames.reverse sT)],
    -- processes in the order of their first mention (sender of a received message, owner of a fired timer) in the current run
    "fm=" ++ ".".intercalate (((currentRunTrace tr).foldl (fun (acc : List Nat) e =>
        match e with
        | .recv _ src _ => if acc.contains src then acc else acc ++ [src]
        | .tfired p _ => if acc.contains p then acc else acc ++ [p]
        | _ => acc) []).map fun q => s!"p{q}"),
    "csd=" ++ tri (fun d => b2c (Pred.pruneStateDepth d sT)) D,
    -- combinators over an empty list: "all" is vacuously satisfied, "any" is not
    "emp=101001",
    -- built-in predicates are functions of the state they are given: kept across a run or built afresh, same verdict
    "pst=1",
    -- short-circuit: the counting second rule of all_invariants is invoked only if the first one holds
    "sc=" ++ toString ((Pred.allInvariants [fun (c : Nat) x => (Pred.invStateDepth (D - 1) x, c + 1), fun c _ => (false, c + 1)] [0, 0] sT).2)
  ]
  "P[" ++ " ".intercalate items ++ "]"

end Driver
