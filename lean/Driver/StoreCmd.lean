import Driver.Common
/-! `store` sub-command: drives the mirrored store and the abstract store with one operation per line. -/
namespace Driver
open Anysystem

def parseStoreOp (ws : List String) : Option Op :=
  match ws with
  | ["pm", tip, data, src, dst, o] => some (.push (.msg ⟨name! tip, data! data⟩ (name! src) (name! dst) (opts! o)))
  | ["pt", p, n, d] => some (.push (.timer (name! p) (name! n) (delayBits d)))
  | ["rm", id, tip, data, src, dst, o] =>
    some (.reinsert (.msg ⟨name! tip, data! data⟩ (name! src) (name! dst) (opts! o)) (nat! id))
  | ["rt", id, p, n, d] => some (.reinsert (.timer (name! p) (name! n) (delayBits d)) (nat! id))
  | ["pop", id] => some (.pop (nat! id))
  | ["ct", p, n] => some (.cancelTimer (name! p) (name! n))
  | ["cp", p] => some (.cancelProc (name! p))
  | _ => none

def showTm (tm : List ((Nat × Nat) × Nat)) : String :=
  showList (tm.map fun ((p, n), id) => s!"p{p}.t{n}:{id}")

/-- canonical observation of the concrete store after an operation -/
def obsStore (s : Store) : String :=
  let off := match s.availableEvents .normal with
    | .ok l => showNats l
    | .error _ => "panic"
  let offm := match s.availableEvents .messagesFirst with
    | .ok l => showNats l
    | .error _ => "panic"
  s!"live={showList (s.events.map fun (i, e) => s!"{i}:{showEv e}")} raw={showNats s.available} off={off} offm={offm} tm={showTm s.timerMapping} next={s.idCounter}"

def sortNats (l : List Nat) : List Nat := l.foldl (fun acc x => setInsert x acc) []

/-- the same observation computed from the abstract store (the monitor's view) -/
def obsSpec (a : AStore) : String :=
  let live := a.pending.foldl (fun acc x => amInsert natLt x.1 x.2 acc) []
  let off := sortNats (specOffered a.pending)
  let offm := sortNats (specOfferedMode a.pending .messagesFirst)
  s!"live={showList (live.map fun (i, e) => s!"{i}:{showEv e}")} raw={showNats off} off={showNats off} offm={showNats offm} tm={showTm a.tm} next={a.next}"

structure StoreSt where
  s : Option Store := some {}      -- none after a panic
  a : Option AStore := some {}     -- none after an illegal operation
  variant : Store.Variant := {}

def storeLine (st : StoreSt) (line : String) : StoreSt × List String :=
  match words line with
  | ["begin", _] => ({ st with s := some {}, a := some {} }, [line.trimAscii.toString])
  | ["end"] => (st, ["end"])
  | ["variant", "frontpop"] => ({ st with variant := { st.variant with frontPop := true } }, [])
  | ["variant", "stalecancel"] => ({ st with variant := { st.variant with staleCancelPanics := true } }, [])
  | ws =>
    match parseStoreOp ws with
    | none => (st, ["bad-op"])
    | some op =>
      let (s', ml) := match st.s with
        | none => (none, "M skipped")
        | some s => match s.stepOp st.variant op with
          | .error _ => (none, "M panic")
          | .ok (s', o) => (some s', s!"M {showOut o} {obsStore s'}")
      let (a', sl) := match st.a with
        | none => (none, "S illegal")
        | some a => match a.step op with
          | none => (none, "S illegal")
          | some (a', o) => (some a', s!"S {showOut o} {obsSpec a'}")
      ({ st with s := s', a := a' }, [ml, sl])

end Driver
