import Driver.McCmd
import Std.Data.HashSet
import Anysystem.Spec.RefSpec
/-! Independent oracle: naive enumeration of the reference semantics (all reduced-enabled runs, no
cache), used by the `mc` sub-command when a scenario asks for it (`refenum`). -/
namespace Driver
open Anysystem

abbrev RS := RState PState

/-- The reference state of a checker state.  Flights are listed in id order, except that within a group of identical messages
    (same message, sender, receiver) they follow the dependency resolver's queue: a duplicated message is re-queued under its OLD
    id at the back of its group (`push_with_fixed_id`), so id order is not insertion order inside a group — and the reduced
    semantics (`oldestIdentical`) depends on the order inside a group only. -/
def rInit (s : Sys) : RS :=
  let evs := s.events.events
  let step := fun (acc : List Flight × List ((Msg × Nat × Nat) × List Nat)) (x : Nat × Ev) =>
    match x.2 with
    | .msg m sr d o =>
      let k : Msg × Nat × Nat := (m, sr, d)
      match acc.2.find? (fun q => decide (q.1 = k)) with
      | some (_, qid :: rest) =>
        let f : Flight := match evs.find? (fun y => y.1 == qid) with
          | some (_, .msg m' s' d' o') => ⟨m', s', d', o'⟩
          | _ => ⟨m, sr, d, o⟩
        (acc.1 ++ [f], acc.2.map (fun q => if decide (q.1 = k) then (q.1, rest) else q))
      | _ => (acc.1 ++ [⟨m, sr, d, o⟩], acc.2)
    | _ => acc
  { procs := s.nodes.flatMap fun nd => nd.2.procs.map fun pe => (pe.1, ({ st := pe.2.st, outbox := pe.2.outbox } : RProc PState)),
    crashedNodes := (s.nodes.filter (·.2.crashed)).map (·.1),
    flights := (evs.foldl step ([], s.events.resolver.messages)).1,
    timers := evs.filterMap (fun x => match x.2 with
      | .timer p n d => some (⟨p, n, d⟩ : PTimer)
      | _ => Option.none),
    net := s.net, trace := s.trace }

def rApplyCb (h : Handler PState) (rm : RS × Mode) : List String → Option (RS × Mode)
  | ["local", p, tip, d] => (rm.1.sendLocal h (name! p) ⟨name! tip, data! d⟩).map (·, rm.2)
  | ["crash", n] => some (rm.1.crashNode (name! n) (rm.1.lostOnCrash (name! n)), rm.2)
  | ["mode", m] => some (rm.1, if m == "mf" then .messagesFirst else .normal)
  | "net" :: rest => some ({ rm.1 with net := netOp rm.1.net rest }, rm.2)
  | _ => none

def Atom.holdsR (a : Atom) (r : RS) (depth : Nat) : Bool :=
  match a with
  | .never => false
  | .dgt n => depth > n
  | .out p n => match amGet? p r.procs with
    | some e => e.outbox.length ≥ n
    | Option.none => false
  | .st p n => match amGet? p r.procs with
    | some e => e.st.st == n
    | Option.none => false
  | .noev => r.flights.isEmpty && r.timers.isEmpty
  | .always => true

def condR! (s : String) : RS → Nat → Bool :=
  let atoms := (s.splitOn "|").map atom!
  fun r d => atoms.any (·.holdsR r d)

def insertSortedStr (x : String) : List String → List String
  | [] => [x]
  | y :: ys => if x < y then x :: y :: ys else if x == y then y :: ys else y :: insertSortedStr x ys

def sortStrs (l : List String) : List String := l.foldl (fun acc x => insertSortedStr x acc) []

def sortStrsDup (l : List String) : List String :=
  l.foldl (fun acc x => let (a, b) := acc.span (· < x); a ++ [x] ++ b) []

/-- the process-visible projection shared with the Python comparer: processes per node + sorted
    in-flight messages + sorted pending timers -/
def showProj (nodesOfProcs : List (Nat × List Nat)) (crashed : List Nat) (procs : List (Nat × RProc PState))
    (flights : List Flight) (timers : List PTimer) : String :=
  let nodes := nodesOfProcs.map fun (n, ps) =>
    let pr := ps.filterMap fun p => (amGet? p procs).map fun e =>
      s!"p{p}:{showPState e.st};o={showList (e.outbox.map showMsg)}"
    s!"n{n}:c{if crashed.contains n then 1 else 0}" ++ "{" ++ "/".intercalate pr ++ "}"
  let fl := sortStrsDup (flights.map fun f => showEv (.msg f.m f.src f.dst f.o))
  let tm := sortStrsDup (timers.map fun t => showEv (.timer t.proc t.name t.delay))
  s!"N{showList nodes} F{showList fl} T{showList tm}"

def projSys (s : Sys) : String :=
  let topo := s.nodes.map fun nd => (nd.1, nd.2.procs.map (·.1))
  let crashed := (s.nodes.filter (·.2.crashed)).map (·.1)
  let procs := s.nodes.flatMap fun nd => nd.2.procs.map fun pe => (pe.1, ({ st := pe.2.st, outbox := pe.2.outbox } : RProc PState))
  let fl := s.events.events.filterMap fun x => match x.2 with
    | .msg m sr d o => some (⟨m, sr, d, o⟩ : Flight)
    | _ => Option.none
  let tm := s.events.events.filterMap fun x => match x.2 with
    | .timer p n d => some (⟨p, n, d⟩ : PTimer)
    | _ => Option.none
  showProj topo crashed procs fl tm

def allLabels (r : RS) : List Label :=
  let is := List.range r.flights.length
  is.map Label.deliver ++ is.map Label.drop ++ is.map Label.corrupt ++ is.map Label.dup
    ++ (List.range r.timers.length).map Label.fire

structure EnumOut where
  seen : List String := []
  count : Nat := 0
  failed : Bool := false
  capped : Bool := false
  /-- full identities (in-flight messages in order with their options, timers in order) of the reference states already
      expanded; used only when the predicates do not look at the depth -/
  visited : Std.HashSet String := {}

/-- what determines the future of a reference state (the network settings do not change during an enumeration) -/
def fullKey (topo : List (Nat × List Nat)) (r : RS) : String :=
  showProj topo r.crashedNodes r.procs [] [] ++ "|" ++
    ",".intercalate (r.flights.map fun f => showEv (.msg f.m f.src f.dst f.o)) ++ "|" ++
    ",".intercalate (r.timers.map fun t => showEv (.timer t.proc t.name t.delay))

/-- the flight at `i` is the oldest among the flights with the same (message, sender, receiver) AND the same remaining delivery
    options: what the identical-message reduction may assume interchangeable (finding D17: the checker's reduction looks at the
    triple only) -/
def oldestIdenticalOpts (r : RS) (i : Nat) : Bool :=
  match r.flights[i]? with
  | Option.none => false
  | some f => (r.flights.take i).all (fun g => !(decide (g.m = f.m) && g.src == f.src && g.dst == f.dst && decide (g.o = f.o)))

def enabledRelaxed (r : RS) (mode : Mode) : Label → Bool
  | .fire j => r.enabledRed mode (.fire j)
  | .deliver i => oldestIdenticalOpts r i
  | .drop i => oldestIdenticalOpts r i
  | .dup i => oldestIdenticalOpts r i
  | .corrupt i => oldestIdenticalOpts r i

/-- depth-first enumeration of every reduced-enabled run; predicates in `check_state` order.  With `dedupe` (predicates that
    do not depend on the depth) a reference state reached again is not expanded again. -/
partial def refEnum (h : Handler PState) (mode : Mode) (topo : List (Nat × List Nat))
    (inv goal prune : RS → Nat → Bool) (cap : Nat) (r : RS) (depth : Nat) (acc : EnumOut) (dedupe : Bool := false)
    (relax : Bool := false) : EnumOut :=
  if acc.capped || acc.failed then acc else
  if acc.count ≥ cap then { acc with capped := true } else
  let key := if dedupe then fullKey topo r else ""
  if dedupe && acc.visited.contains key then acc else
  let acc := { acc with count := acc.count + 1,
                        visited := if dedupe then acc.visited.insert key else acc.visited,
                        seen := insertSortedStr (showProj topo r.crashedNodes r.procs r.flights r.timers) acc.seen }
  if inv r depth then { acc with failed := true }
  else if goal r depth || prune r depth then acc
  else if r.flights.isEmpty && r.timers.isEmpty then { acc with failed := true }
  else
    (allLabels r).foldl (fun acc l =>
      if (if relax then enabledRelaxed r mode l else r.enabledRed mode l) then
        match r.step h l with
        | some r' => refEnum h mode topo inv goal prune cap r' (depth + 1) acc dedupe relax
        | Option.none => acc
      else acc) acc

end Driver
