import Anysystem.Model.Store
import Anysystem.Spec.StoreSpec
/-! Shared parsing / printing helpers of the line-protocol driver. -/
namespace Driver
open Anysystem

def words (line : String) : List String :=
  (line.trimAscii.toString.splitOn " ").filter (· != "")

def nat! (s : String) : Nat := s.toNat?.getD 0

/-- a name token like `p3`, `n1`, `t2`, `m0`: drop the letter -/
def name! (s : String) : Nat := nat! (String.ofList (s.toList.drop 1))

/-- payload token: `=` followed by the raw text -/
def data! (s : String) : List Nat := (s.toList.drop 1).map Char.toNat

def showData (d : List Nat) : String := "=" ++ String.ofList (d.map Char.ofNat)

/-- delays travel as integers in half units (or `x<16 hex digits>` = raw f64 bits); the model stores
    the bit pattern of the f64 value, whose unsigned order is the numeric order for non-negative values -/
def hexDigit (n : Nat) : Char := if n < 10 then Char.ofNat (48 + n) else Char.ofNat (87 + n)

def hex16 (n : Nat) : String :=
  String.ofList ((List.range 16).reverse.map fun i => hexDigit ((n >>> (4 * i)) % 16))

def parseHex (s : String) : Nat :=
  s.toList.foldl (fun acc c =>
    let v := if c.isDigit then c.toNat - 48 else if c.toNat ≥ 97 then c.toNat - 87 else c.toNat - 55
    acc * 16 + v) 0

def delayBits (tok : String) : Nat :=
  match tok.toList with
  | 'x' :: rest => parseHex (String.ofList rest)
  | _ => (Float.ofNat (nat! tok) * 0.5).toBits.toNat

def unitsOf (bits : Nat) : String :=
  let f := Float.ofBits bits.toUInt64
  let u := f * 2.0
  if u >= 0.0 && u == u.floor && u < 1e15 then toString u.toUInt64 else "x" ++ hex16 bits

def showList (l : List String) : String := "[" ++ ",".intercalate l ++ "]"

def showNats (l : List Nat) : String := showList (l.map toString)

/-- options token: `N<maxdelay>` or `F<drop><dupl><corrupt>` (single digits) -/
def opts! (s : String) : Opts :=
  match s.toList with
  | 'N' :: rest => .noFail (delayBits (String.ofList rest))
  | ['F', a, b, c] => .faults (a == '1') (b.toNat - '0'.toNat) (c == '1')
  | _ => .noFail 0

def showOpts : Opts → String
  | .noFail d => s!"N{unitsOf d}"
  | .faults a b c => s!"F{if a then 1 else 0}{b}{if c then 1 else 0}"

def showMsg (m : Msg) : String := s!"m{m.tip},{showData m.data}"

def showEv : Ev → String
  | .msg m s d o => s!"M({showMsg m},p{s},p{d},{showOpts o})"
  | .timer p n d => s!"T(p{p},t{n},{unitsOf d})"
  | .timerCancelled p n => s!"TC(p{p},t{n})"
  | .dropped m s d rid => s!"D({showMsg m},p{s},p{d},{match rid with | some i => toString i | none => "-"})"
  | .duplicated m s d rid => s!"DU({showMsg m},p{s},p{d},{rid})"
  | .corrupted m cm s d rid => s!"CO({showMsg m},{showMsg cm},p{s},p{d},{rid})"

def showOut : Out → String
  | .id n => s!"id={n}"
  | .ev e => s!"ev={showEv e}"
  | .evs l => s!"evs={showList (l.map showEv)}"
  | .unit => "ok"

end Driver
