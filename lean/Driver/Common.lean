import Anysystem.Model.Store
import Anysystem.Spec.StoreSpec
/-! Shared parsing / printing helpers of the line-protocol driver. -/
namespace Driver
open Anysystem

def words (line : String) : List String :=
  (line.trimAscii.toString.splitOn " ").filter (· != "")

def nat! (s : String) : Nat := s.toNat?.getD 0

/-- a name token like `p3`, `n1`, `t2`, `m0`: drop the letter -/
def name! (s : String) : Nat := nat! (String.ofList (s.toList.drop 1))

/-- payload token: `=` followed by the raw text -/
def data! (s : String) : List Nat := (s.toList.drop 1).map Char.toNat

def showData (d : List Nat) : String := "=" ++ String.ofList (d.map Char.ofNat)

def showList (l : List String) : String := "[" ++ ",".intercalate l ++ "]"

def showNats (l : List Nat) : String := showList (l.map toString)

/-- options token: `N<maxdelay>` or `F<drop><dupl><corrupt>` (single digits) -/
def opts! (s : String) : Opts :=
  match s.toList with
  | 'N' :: rest => .noFail (nat! (String.ofList rest))
  | ['F', a, b, c] => .faults (a == '1') (b.toNat - '0'.toNat) (c == '1')
  | _ => .noFail 0

def showOpts : Opts → String
  | .noFail d => s!"N{d}"
  | .faults a b c => s!"F{if a then 1 else 0}{b}{if c then 1 else 0}"

def showMsg (m : Msg) : String := s!"m{m.tip},{showData m.data}"

def showEv : Ev → String
  | .msg m s d o => s!"M({showMsg m},p{s},p{d},{showOpts o})"
  | .timer p n d => s!"T(p{p},t{n},{d})"
  | .timerCancelled p n => s!"TC(p{p},t{n})"
  | .dropped m s d rid => s!"D({showMsg m},p{s},p{d},{match rid with | some i => toString i | none => "-"})"
  | .duplicated m s d rid => s!"DU({showMsg m},p{s},p{d},{rid})"
  | .corrupted m cm s d rid => s!"CO({showMsg m},{showMsg cm},p{s},p{d},{rid})"

def showOut : Out → String
  | .id n => s!"id={n}"
  | .ev e => s!"ev={showEv e}"
  | .evs l => s!"evs={showList (l.map showEv)}"
  | .unit => "ok"

end Driver
