import Driver.StoreCmd
import Driver.McRun
import Driver.SimCmd
open Driver

partial def storeLoop (h : IO.FS.Stream) (out : IO.FS.Stream) (st : StoreSt) : IO Unit := do
  let line ← h.getLine
  if line.isEmpty then return ()
  let (st', outs) := storeLine st line
  for o in outs do out.putStrLn o
  out.flush
  storeLoop h out st'

partial def mcLoop (h : IO.FS.Stream) (out : IO.FS.Stream) (st : McSt) : IO Unit := do
  let line ← h.getLine
  if line.isEmpty then return ()
  let (st', outs) := mcLine st line
  for o in outs do out.putStrLn o
  out.flush
  mcLoop h out st'

partial def simLoop (h : IO.FS.Stream) (out : IO.FS.Stream) (st : SimSt) : IO Unit := do
  let line ← h.getLine
  if line.isEmpty then return ()
  let (st', outs) := simLine st line
  for o in outs do out.putStrLn o
  out.flush
  simLoop h out st'

def main (args : List String) : IO UInt32 := do
  let stdin ← IO.getStdin
  let stdout ← IO.getStdout
  match args with
  | ["store"] => storeLoop stdin stdout {}; return 0
  | ["mc"] => mcLoop stdin stdout {}; return 0
  | ["sim"] => simLoop stdin stdout {}; return 0
  | _ => IO.eprintln "usage: asdriver store|mc|sim|pred|..."; return 2
