import Anysystem.Model.Sim
import Anysystem.Spec.TimeLaws
import Anysystem.Proofs.AssocLemmas
/-!
# Helper lemmas for `SimNetThms`: the draw stream, the `emit` loop, a closed form of a cross-node
`Sim.sendMessage`, and `contains` facts for the link-control sets
-/
namespace Anysystem

variable {σ T : Type} [TimeOps T]

/-! ## the draw stream -/

/-- `i`-th draw of a stream, zero when the stream is exhausted -/
def dr (l : List T) (i : Nat) : T := l[i]?.getD TimeOps.zero

theorem dr_drop (l : List T) (k i : Nat) : dr (l.drop k) i = dr l (k + i) := by
  simp [dr, List.getElem?_drop]

theorem dr_mem (l : List T) (i : Nat) (h : i < l.length) : dr l i ∈ l := by
  simp [dr, List.getElem?_eq_getElem h]

theorem dr_mem_or_zero (l : List T) (i : Nat) : dr l i ∈ l ∨ dr l i = TimeOps.zero := by
  by_cases h : i < l.length
  · exact .inl (dr_mem l i h)
  · right; simp [dr, List.getElem?_eq_none (Nat.le_of_not_lt h)]

namespace Sim

theorem draw_eq (s : Sim σ T) : s.draw = (dr s.draws 0, { s with draws := s.draws.drop 1 }) := by
  cases s with
  | mk clock events canceled eventCount draws net nodes procNodes handlers trace =>
    cases draws <;> rfl

/-- the `i`-th copy queued by the `emit` loop started in state `s`, when the delay draws start at
    offset `off` of the stream -/
def copyEv (s : Sim σ T) (data : QData) (sn dn off i : Nat) : QEv T :=
  ⟨s.eventCount + i,
   TimeOps.add s.clock (TimeOps.add s.net.minDelay
     (TimeOps.mul (dr s.draws (off + i)) (TimeOps.sub s.net.maxDelay s.net.minDelay))),
   sn, dn, data⟩

theorem emit_succ (src dst sn dn mid : Nat) (m' : Msg) (k : Nat) (s : Sim σ T) :
    sendMessage.emit src dst sn dn mid m' (k + 1) s =
      sendMessage.emit src dst sn dn mid m' k
        (s.draw.2.addEvent (.msg mid m' src sn dst dn) sn dn
          (TimeOps.add s.draw.2.net.minDelay
            (TimeOps.mul s.draw.1 (TimeOps.sub s.draw.2.net.maxDelay s.draw.2.net.minDelay)))).1 := rfl

/-- closed form of the `emit` loop: `k` draws consumed, `k` events appended, nothing else touched -/
theorem emit_eq (src dst sn dn mid : Nat) (m' : Msg) (k : Nat) (s : Sim σ T) :
    sendMessage.emit src dst sn dn mid m' k s =
      { s with draws := s.draws.drop k, eventCount := s.eventCount + k,
               events := s.events ++ (List.range k).map (copyEv s (.msg mid m' src sn dst dn) sn dn 0) } := by
  induction k generalizing s with
  | zero =>
    cases s
    simp [sendMessage.emit]
  | succ k ih =>
    rw [emit_succ, ih, draw_eq]
    cases s with
    | mk clock events canceled eventCount draws net nodes procNodes handlers trace =>
      simp only [addEvent, Sim.mk.injEq, true_and, and_true, List.drop_drop, List.append_assoc]
      refine ⟨?_, by omega, by rw [Nat.add_comm]⟩
      rw [List.range_succ_eq_map, List.map_cons, List.map_map]
      simp only [List.singleton_append, List.append_cancel_left_eq, List.cons.injEq]
      refine ⟨by simp [copyEv], ?_⟩
      apply List.map_congr_left
      intro i _
      simp only [copyEv, Function.comp, dr_drop, QEv.mk.injEq, and_true, Nat.zero_add]
      refine ⟨by omega, ?_⟩
      rw [Nat.add_comm 1 i]

/-! ### closed form of `sendMessage` -/

/-- `message_is_dropped` of a cross-node send from node `sn` to node `dn` -/
def sendDropped (s : Sim σ T) (sn dn : Nat) : Bool :=
  TimeOps.lt (dr s.draws 0) s.net.dropRate || s.net.dropOutgoing.contains sn ||
    s.net.dropIncoming.contains dn || s.net.disabledLinks.contains (sn, dn)

/-- the payload queued by a cross-node send that is not dropped -/
def sendPayload (s : Sim σ T) (m : Msg) : Msg :=
  if TimeOps.lt (dr s.draws 1) s.net.corruptRate = true then corruptSim m else m

/-- does the duplication branch fire -/
def sendDup (s : Sim σ T) : Bool := TimeOps.lt (dr s.draws 2) s.net.duplRate

/-- number of copies queued by a cross-node send that is not dropped -/
def sendCount (s : Sim σ T) : Nat := if s.sendDup = true then TimeOps.copies (dr s.draws 3) else 1

/-- index of the first delay draw -/
def sendBase (s : Sim σ T) : Nat := if s.sendDup = true then 4 else 3

/-- the network counters after a cross-node send -/
def crossNet (s : Sim σ T) (m : Msg) (tipLen : Nat) : SimNet T :=
  { s.net with networkMessageCount := s.net.networkMessageCount + 1,
               traffic := s.net.traffic + msgSize m tipLen,
               messageCount := s.net.messageCount + 1 }

/-- outcome of a cross-node send, in closed form -/
def crossResult (s : Sim σ T) (m : Msg) (src dst sn dn tipLen : Nat) : Sim σ T :=
  if s.sendDropped sn dn = true then
    { s with draws := s.draws.drop 1, net := s.crossNet m tipLen,
             trace := s.trace ++ [.sent s.clock s.net.messageCount sn src dn dst m,
                                  .dropped s.clock s.net.messageCount sn src dn dst m] }
  else
    { s with draws := s.draws.drop (s.sendBase + s.sendCount), eventCount := s.eventCount + s.sendCount,
             net := s.crossNet m tipLen,
             trace := s.trace ++ [.sent s.clock s.net.messageCount sn src dn dst m],
             events := s.events ++ (List.range s.sendCount).map
               (copyEv s (.msg s.net.messageCount (s.sendPayload m) src sn dst dn) sn dn s.sendBase) }

theorem sendMessage_cross (s : Sim σ T) (m : Msg) (src dst sn dn tipLen : Nat)
    (hs : amGet? src s.net.procLoc = some sn) (hd : amGet? dst s.net.procLoc = some dn) (hne : sn ≠ dn) :
    s.sendMessage m src dst tipLen = .ok (crossResult s m src dst sn dn tipLen) := by
  unfold sendMessage crossResult sendDropped sendCount sendBase sendPayload sendDup crossNet
  rw [hs, hd]
  simp only [if_neg hne, draw_eq, log, List.drop_drop, dr_drop]
  generalize (TimeOps.lt (dr s.draws 0) s.net.dropRate || s.net.dropOutgoing.contains sn ||
      s.net.dropIncoming.contains dn || s.net.disabledLinks.contains (sn, dn)) = dropped
  generalize TimeOps.lt (dr s.draws 2) s.net.duplRate = dup
  cases dropped <;> cases dup <;> simp [emit_eq, copyEv, dr_drop]

theorem sendMessage_same (s : Sim σ T) (m : Msg) (src dst n tipLen : Nat)
    (hs : amGet? src s.net.procLoc = some n) (hd : amGet? dst s.net.procLoc = some n) :
    s.sendMessage m src dst tipLen = .ok
      { s with events := s.events ++ [⟨s.eventCount, TimeOps.add s.clock TimeOps.zero, n, n,
                                       .msg s.net.messageCount m src n dst n⟩],
               eventCount := s.eventCount + 1,
               trace := s.trace ++ [.sent s.clock s.net.messageCount n src n dst m],
               net := { s.net with messageCount := s.net.messageCount + 1 } } := by
  unfold sendMessage
  rw [hs, hd]
  simp [log, addEvent]

theorem sendMessage_ok_loc {s s' : Sim σ T} {m : Msg} {src dst tipLen : Nat}
    (h : s.sendMessage m src dst tipLen = .ok s') :
    ∃ sn dn, amGet? src s.net.procLoc = some sn ∧ amGet? dst s.net.procLoc = some dn := by
  unfold sendMessage at h
  split at h
  · rename_i sn dn hs hd
    exact ⟨sn, dn, hs, hd⟩
  · cases h

theorem sendBase_le (s : Sim σ T) : s.sendBase ≤ 4 := by
  unfold sendBase; split <;> omega

/-! ### consequences of the time laws for the draws of a send -/

section lawful
variable [LawfulTime T]

theorem lt_zero_false (r : T) (h : TimeOps.le TimeOps.zero r = true) : TimeOps.lt r TimeOps.zero = false := by
  cases hlt : TimeOps.lt r TimeOps.zero with
  | false => rfl
  | true => rw [(LawfulTime.lt_iff r TimeOps.zero).1 hlt] at h; cases h

theorem dr_nonneg (l : List T) (hl : ∀ r ∈ l, LawfulTime.isDraw r) (i : Nat) :
    TimeOps.le TimeOps.zero (dr l i) = true := by
  rcases dr_mem_or_zero l i with h | h
  · exact LawfulTime.draw_nonneg _ (hl _ h)
  · rw [h]; exact LawfulTime.le_refl _

theorem dr_lt_zero (l : List T) (hl : ∀ r ∈ l, LawfulTime.isDraw r) (i : Nat) :
    TimeOps.lt (dr l i) TimeOps.zero = false := lt_zero_false _ (dr_nonneg l hl i)

theorem sendCount_bounds (s : Sim σ T) (hdraws : ∀ r ∈ s.draws, LawfulTime.isDraw r)
    (hlen : 4 ≤ s.draws.length) : 1 ≤ s.sendCount ∧ s.sendCount ≤ 3 := by
  unfold sendCount
  split
  · exact LawfulTime.copies_bounds _ (hdraws _ (dr_mem _ _ (by omega)))
  · omega

theorem sendCount_dupl_zero (s : Sim σ T) (hdraws : ∀ r ∈ s.draws, LawfulTime.isDraw r)
    (hz : s.net.duplRate = TimeOps.zero) : s.sendCount = 1 := by
  simp [sendCount, sendDup, hz, dr_lt_zero _ hdraws]

end lawful

end Sim

/-! ## link-control sets -/

theorem contains_setInsert (x y : Nat) (l : List Nat) :
    (setInsert x l).contains y = (l.contains y || y == x) := by
  rw [Bool.eq_iff_iff]
  simp [mem_setInsert, or_comm]

theorem contains_linkInsert (l : List (Nat × Nat)) (a b : Nat) (p : Nat × Nat) :
    (Sim.linkInsert l a b).contains p = (l.contains p || p == (a, b)) := by
  rw [Bool.eq_iff_iff]
  unfold Sim.linkInsert
  split
  · rename_i h
    simp only [List.contains_eq_mem, decide_eq_true_eq] at h
    simp only [List.contains_eq_mem, decide_eq_true_eq, Bool.or_eq_true, beq_iff_eq]
    constructor
    · exact .inl
    · rintro (h' | rfl)
      · exact h'
      · exact h
  · simp

theorem contains_filter_ne (l : List (Nat × Nat)) (q p : Nat × Nat) :
    (l.filter (· != q)).contains p = (l.contains p && !(p == q)) := by
  rw [Bool.eq_iff_iff]
  simp [List.mem_filter]

theorem mem_linkInsert (l : List (Nat × Nat)) (a b : Nat) (p : Nat × Nat) :
    p ∈ Sim.linkInsert l a b ↔ p ∈ l ∨ p = (a, b) := by
  have h := contains_linkInsert l a b p
  rw [Bool.eq_iff_iff] at h
  simpa using h

/-- the inner fold of `makePartition`: only adds links, and adds both directions of `a`–`b`, `b ∈ g2` -/
theorem mem_partition_inner (g2 : List Nat) (a : Nat) (l : List (Nat × Nat)) (p : Nat × Nat) :
    p ∈ g2.foldl (fun l b => Sim.linkInsert (Sim.linkInsert l a b) b a) l ↔
      p ∈ l ∨ ∃ b ∈ g2, p = (a, b) ∨ p = (b, a) := by
  induction g2 generalizing l with
  | nil => simp
  | cons c g2 ih =>
    simp only [List.foldl_cons, ih, mem_linkInsert, List.mem_cons, exists_eq_or_imp, or_assoc]

/-- the links disabled by `makePartition g1 g2`, exactly -/
theorem mem_partition_links_iff (g1 g2 : List Nat) (l : List (Nat × Nat)) (p : Nat × Nat) :
    p ∈ g1.foldl (fun l a => g2.foldl (fun l b => Sim.linkInsert (Sim.linkInsert l a b) b a) l) l ↔
      p ∈ l ∨ ∃ a ∈ g1, ∃ b ∈ g2, p = (a, b) ∨ p = (b, a) := by
  induction g1 generalizing l with
  | nil => simp
  | cons c g1 ih =>
    simp only [List.foldl_cons, ih, mem_partition_inner, List.mem_cons, exists_eq_or_imp, or_assoc]

theorem mem_partition_links (g1 g2 : List Nat) (l : List (Nat × Nat)) (a b : Nat) (ha : a ∈ g1) (hb : b ∈ g2) :
    (a, b) ∈ g1.foldl (fun l a => g2.foldl (fun l b => Sim.linkInsert (Sim.linkInsert l a b) b a) l) l ∧
    (b, a) ∈ g1.foldl (fun l a => g2.foldl (fun l b => Sim.linkInsert (Sim.linkInsert l a b) b a) l) l := by
  simp only [mem_partition_links_iff]
  exact ⟨.inr ⟨a, ha, b, hb, .inl rfl⟩, .inr ⟨a, ha, b, hb, .inr rfl⟩⟩

end Anysystem
