import Anysystem.Proofs.R2
import Anysystem.Proofs.McShape
/-!
# Smaller facts about the mirrored model checker (C09, C12, C14)
-/
set_option linter.unusedSimpArgs false
namespace Anysystem

variable {σ : Type}

/-! ## C09: restoring a snapshot is exact -/

/-- two systems have the same shape: same node names and, per node, the same process names -/
def SameShape (a b : McSys σ) : Prop :=
  a.nodes.map (fun nd => (nd.1, nd.2.procs.map (·.1))) = b.nodes.map (fun nd => (nd.1, nd.2.procs.map (·.1)))


theorem sameShape_iff {a b : McSys σ} : SameShape a b ↔ shapeOf a.nodes = shapeOf b.nodes := Iff.rfl

/-- a successful reaction of a process of node `nd`, written back, keeps shape and sortedness -/
theorem react_insert_sameShape {h : Handler σ} {s s2 : McSys σ} (hs : SortedTopo s) {nd p : Nat} {i : Input}
    {n n' : McNode σ} {evs : List Ev} {tr : List LogE} (hn : amGet? nd s.nodes = some n)
    (hr : n.react {} h p i = .ok (n', evs, tr)) (h2 : s2.nodes = amInsert natLt nd n' s.nodes) :
    SameShape s s2 ∧ SortedTopo s2 := by
  obtain ⟨hc, e, he⟩ := McNode.react_ok hr
  rw [McNode.react_eq h n p i e hc he] at hr
  simp only [Except.ok.injEq, Prod.mk.injEq] at hr
  obtain ⟨hn', _, _⟩ := hr
  subst hn'
  have hps := hs.procs_sorted _ (amGet?_eq_some_mem hn)
  constructor
  · rw [sameShape_iff, h2]
    exact (shapeOf_amInsert hs.nodes_sorted hn (keys_amInsert_present hps he)).symm
  · exact hs.update hn h2

theorem deliverTo_sameShape {h : Handler σ} {s1 s' : McSys σ} {p : Nat} {i : Input} (hs : SortedTopo s1)
    (hok : McSys.deliverTo {} h s1 p i = .ok s') : SameShape s1 s' ∧ SortedTopo s' := by
  obtain ⟨nd, n, e, hloc, hn, hc, he⟩ := deliverTo_ok_inv hok
  have hr := McNode.react_eq h n p i e hc he
  rw [deliverTo_eq hloc hn hr] at hok
  obtain ⟨_, _, hnodes⟩ := addEvents_frame _ hok
  exact react_insert_sameShape hs hn hr hnodes

theorem SameShape.refl (s : McSys σ) : SameShape s s := rfl

theorem SameShape.of_nodes_eq {a b : McSys σ} (h : b.nodes = a.nodes) : SameShape a b := by
  rw [sameShape_iff, h]

theorem applyEvent_sameShape {h : Handler σ} {s s' : McSys σ} {ev : Ev} (hs : SortedTopo s)
    (hok : s.applyEvent {} h ev = .ok s') : SameShape s s' ∧ SortedTopo s' := by
  cases ev with
  | msg m src dst o =>
    rw [applyEvent_msg] at hok
    have h1 := deliverTo_sameShape (by exact SortedTopo.congr hs rfl) hok
    exact h1
  | timer p t d =>
    rw [applyEvent_timer] at hok
    have h1 := deliverTo_sameShape (by exact SortedTopo.congr hs rfl) hok
    exact h1
  | timerCancelled _ _ =>
    simp only [McSys.applyEvent, Except.ok.injEq] at hok; subst hok
    exact ⟨rfl, SortedTopo.congr hs rfl⟩
  | dropped _ _ _ _ =>
    simp only [McSys.applyEvent, Except.ok.injEq] at hok; subst hok
    exact ⟨rfl, SortedTopo.congr hs rfl⟩
  | duplicated _ _ _ _ =>
    simp only [McSys.applyEvent, Except.ok.injEq] at hok; subst hok
    exact ⟨rfl, SortedTopo.congr hs rfl⟩
  | corrupted _ _ _ _ _ =>
    simp only [McSys.applyEvent, Except.ok.injEq] at hok; subst hok
    exact ⟨rfl, SortedTopo.congr hs rfl⟩

/-- the same with a changed store -/
theorem applyEvent_sameShape' {h : Handler σ} {s s' : McSys σ} {ev : Ev} {st : Store} (hs : SortedTopo s)
    (hok : McSys.applyEvent {} h { s with events := st } ev = .ok s') : SameShape s s' ∧ SortedTopo s' :=
  applyEvent_sameShape (s := { s with events := st }) (SortedTopo.congr hs rfl) hok

theorem applyAlt_sameShape (h : Handler σ) {s s' : McSys σ} {alt : Alt} (hs : SortedTopo s)
    (hok : s.applyAlt {} h alt = .ok s') : SameShape s s' ∧ SortedTopo s' := by
  cases alt with
  | deliver id =>
    simp only [McSys.applyAlt] at hok
    split at hok
    · simp at hok
    · exact applyEvent_sameShape' hs hok
  | drop id =>
    simp only [McSys.applyAlt] at hok
    split at hok
    · simp at hok
    · exact applyEvent_sameShape' hs hok
    · simp at hok
  | corrupt id =>
    simp only [McSys.applyAlt] at hok
    split at hok
    · simp at hok
    · split at hok
      · simp at hok
      · exact applyEvent_sameShape' hs hok
    · simp at hok
  | dup id =>
    simp only [McSys.applyAlt] at hok
    split at hok
    · simp at hok
    · split at hok
      · simp at hok
      · split at hok
        · simp at hok
        · split at hok
          · simp at hok
          · split at hok
            · exact applyEvent_sameShape' hs hok
            · simp at hok

theorem sendLocal_sameShape (h : Handler σ) {s s' : McSys σ} (hs : SortedTopo s) (node p : Nat) (m : Msg)
    (hok : s.sendLocal {} h node p m = .ok s') : SameShape s s' ∧ SortedTopo s' := by
  simp only [McSys.sendLocal, McSys.nodeOf] at hok
  cases hn : amGet? node s.nodes with
  | none => simp [hn] at hok
  | some n =>
    simp only [hn] at hok
    cases hr : n.react {} h p (.loc m) with
    | error err => simp [hr] at hok
    | ok v =>
      obtain ⟨n', evs, tr⟩ := v
      simp only [hr] at hok
      obtain ⟨_, _, hnodes⟩ := addEvents_frame _ hok
      exact react_insert_sameShape hs hn hr hnodes

theorem crashNode_sameShape {s s' : McSys σ} (hs : SortedTopo s) (node : Nat)
    (hok : s.crashNode {} node = .ok s') : SameShape s s' ∧ SortedTopo s' := by
  obtain ⟨n, hn⟩ := crashNode_ok_node hok
  cases hgo : McSys.crashNode.go {} (n.procs.map (·.1)) s.events [] with
  | error e => simp [McSys.crashNode, McSys.nodeOf, hn, hgo] at hok
  | ok v =>
    obtain ⟨st, tr⟩ := v
    rw [crashNode_eq hn hgo] at hok
    simp only [Except.ok.injEq] at hok
    subst hok
    constructor
    · rw [sameShape_iff]
      exact (shapeOf_amInsert (v' := { n with crashed := true }) hs.nodes_sorted hn rfl).symm
    · exact hs.replace_node (n2 := { n with crashed := true }) hn rfl rfl

theorem setState_nodes (s' : McSys σ) (snap : McSys.Snapshot σ) :
    (s'.setState snap).nodes = snap.nodeStates.foldl restoreStep s'.nodes := by
  simp only [McSys.setState]
  congr 1

/-- `set_state(get_state())` restores everything but the ordering mode -/
theorem setState_getState_core (s s' : McSys σ) (hs : SortedTopo s) (hsh : SameShape s s') :
    s'.setState s.getState = { s with mode := s'.mode } := by
  have hn : (s'.setState s.getState).nodes = s.nodes := by
    rw [setState_nodes]
    exact foldl_restoreStep_shape s.nodes s'.nodes hs.nodes_sorted hs.procs_sorted hsh
  have h2 : s'.setState s.getState =
      { (s'.setState s.getState) with nodes := (s'.setState s.getState).nodes } := rfl
  rw [h2, hn]
  rfl

/-- `set_state(get_state())` is exact on every field, whatever happened in between, as long as the
    shape is the same (it always is, see above) and the ordering mode was not touched -/
theorem setState_getState (s s' : McSys σ) (hs : SortedTopo s) (hsh : SameShape s s') (hm : s'.mode = s.mode) :
    s'.setState s.getState = s := by
  rw [setState_getState_core s s' hs hsh, hm]

/-- after exploring any alternative the restored system is the one before (`search_step`) -/
theorem searchStep_restores (h : Handler σ) {s s' : McSys σ} {alt : Alt} (hs : SortedTopo s)
    (hok : s.applyAlt {} h alt = .ok s') : s'.setState s.getState = s :=
  setState_getState s s' hs (applyAlt_sameShape h hs hok).1 (applyAlt_mode h hok)

/-- `run_impl` leaves the checker exactly in its initial state, for every result (Ok, Err, panic in a
    successor computation), every callback that keeps the shape, including callbacks that change
    the ordering mode (D9) -/
theorem runImpl_restores [DecidableEq σ] (h : Handler σ) (p : Preds σ) (hash : McSys.Key σ → Nat) (strat : Strat)
    (fuel : Nat) (sys sys' : McSys σ) (cb : McSys σ → R (McSys σ)) (acc acc' : Acc (McSys σ) (McSys.Key σ))
    (r : Res (McSys σ)) (hs : SortedTopo sys)
    (hcb : ∀ a b, SortedTopo a → cb a = .ok b → SameShape a b ∧ SortedTopo b)
    (hrun : runImpl {} h p hash strat fuel sys cb acc = some (r, acc', sys')) : sys' = sys := by
  simp only [runImpl] at hrun
  split at hrun
  · simp only [Option.some.injEq, Prod.mk.injEq] at hrun
    exact hrun.2.2.symm
  · rename_i s₀ hcb0
    split at hrun
    · simp at hrun
    · simp only [Option.some.injEq, Prod.mk.injEq] at hrun
      obtain ⟨_, _, hsys⟩ := hrun
      have hst : SortedTopo ({ sys with trace := sys.trace ++ [LogE.started] } : McSys σ) :=
        SortedTopo.congr hs rfl
      have hsh : SameShape sys s₀ := (hcb _ _ hst hcb0).1
      rw [← hsys, setState_getState_core sys s₀ hs hsh]

/-! ## C12: network fates -/

/-- classification of a send at the moment it is issued -/
theorem sendMessage_classification (n : McNet) (m : Msg) (src dst sn dn : Nat)
    (hs : amGet? src n.procLoc = some sn) (hd : amGet? dst n.procLoc = some dn) :
    n.sendMessage m src dst =
      .ok (if sn = dn then Ev.msg m src dst (.noFail n.maxDelay)
           else if n.dropOutgoing.contains sn || n.dropIncoming.contains dn || n.disabledLinks.contains (sn, dn)
             then Ev.dropped m src dst none
             else Ev.msg m src dst (.faults n.dropPos (if n.duplNonzero then 2 else 0) n.corruptPos)) := by
  simp only [McNet.sendMessage, McNet.procNode, hs, hd, McNet.pathEnabled, DUPL_COUNT]
  by_cases hsd : sn = dn
  · simp [hsd]
  · simp only [hsd, ↓reduceIte]
    by_cases h1 : sn ∈ n.dropOutgoing <;> by_cases h2 : dn ∈ n.dropIncoming <;>
      by_cases h3 : (sn, dn) ∈ n.disabledLinks <;> simp [h1, h2, h3]

/-- `process_event` offers: delivery always; loss iff `can_be_dropped`; corruption iff
    `can_be_corrupted`; duplication iff the budget is positive; nothing else -/
theorem alternatives_iff_options (s : McSys σ) (id : Nat) (m : Msg) (src dst : Nat) (o : Opts)
    (hget : s.events.get id = some (.msg m src dst o)) :
    ∃ alts, s.alternatives id = .ok alts ∧ ∀ alt, alt ∈ alts ↔
      (alt = .deliver id ∨
       (alt = .drop id ∧ ∃ n c, o = .faults true n c) ∨
       (alt = .corrupt id ∧ ∃ a n, o = .faults a n true) ∨
       (alt = .dup id ∧ ∃ a n c, o = .faults a (n + 1) c)) := by
  cases o with
  | noFail d =>
    refine ⟨[.deliver id], by simp [McSys.alternatives, hget], ?_⟩
    intro alt
    simp
  | faults a n c =>
    refine ⟨_, by simp only [McSys.alternatives, hget]; exact rfl, ?_⟩
    intro alt
    cases a <;> cases c <;> cases n <;> simp

theorem alternatives_timer (s : McSys σ) (id p name d : Nat) (hget : s.events.get id = some (.timer p name d)) :
    s.alternatives id = .ok [.deliver id] := by
  simp [McSys.alternatives, hget]

/-- copies a flight can still produce: `max_dupl_count + 1`, one for a reliable flight -/
def Flight.potential (f : Flight) : Nat :=
  match f.o with
  | .noFail _ => 1
  | .faults _ n _ => n + 1

def potentialOf (fs : List Flight) : Nat := (fs.map Flight.potential).sum

theorem potentialOf_append (a b : List Flight) : potentialOf (a ++ b) = potentialOf a + potentialOf b := by
  simp [potentialOf]

theorem potentialOf_eraseIdx (fs : List Flight) : ∀ (i : Nat) (f : Flight), fs[i]? = some f →
    potentialOf (fs.eraseIdx i) + f.potential = potentialOf fs := by
  induction fs with
  | nil => intro i f hf; simp at hf
  | cons g gs ih =>
    intro i f hf
    cases i with
    | zero =>
      simp only [List.getElem?_cons_zero, Option.some.injEq] at hf
      subst hf
      simp [potentialOf, Nat.add_comm]
    | succ i =>
      simp only [List.getElem?_cons_succ] at hf
      have := ih i f hf
      simp only [potentialOf, List.eraseIdx_cons_succ, List.map_cons, List.sum_cons] at this ⊢
      omega

/-- network faults never increase the number of copies that can still be delivered, a delivery uses
    one up (before counting what the handler sends): so one send with budget `DUPL_COUNT = 2` is
    delivered at most 3 times -/
theorem fault_step_potential (r r' : RState σ) (h : Handler σ) (i : Nat)
    (hstep : r.step h (.drop i) = some r' ∨ r.step h (.dup i) = some r' ∨ r.step h (.corrupt i) = some r') :
    potentialOf r'.flights ≤ potentialOf r.flights := by
  rcases hstep with hstep | hstep | hstep
  · simp only [RState.step] at hstep
    split at hstep
    · rename_i m s d n c hf
      simp only [Option.some.injEq] at hstep
      subst hstep
      have := potentialOf_eraseIdx r.flights i _ hf
      simp only
      omega
    · simp at hstep
  · simp only [RState.step] at hstep
    split at hstep
    · rename_i m s d a n c hf
      simp only [Option.some.injEq] at hstep
      subst hstep
      have := potentialOf_eraseIdx r.flights i _ hf
      simp only [potentialOf_append, Flight.potential] at this ⊢
      simp only [potentialOf, Flight.potential, List.map_cons, List.map_nil, List.sum_cons, List.sum_nil] at this ⊢
      omega
    · simp at hstep
  · simp only [RState.step] at hstep
    split at hstep
    · rename_i m s d a n hf
      simp only [Option.some.injEq] at hstep
      subst hstep
      have := potentialOf_eraseIdx r.flights i _ hf
      simp only [potentialOf_append, Flight.potential] at this ⊢
      simp only [potentialOf, Flight.potential, List.map_cons, List.map_nil, List.sum_cons, List.sum_nil] at this ⊢
      omega
    · simp at hstep

theorem deliver_uses_potential (r : RState σ) (i : Nat) (f : Flight) (hf : r.flights[i]? = some f) :
    potentialOf (r.flights.eraseIdx i) + f.potential = potentialOf r.flights :=
  potentialOf_eraseIdx r.flights i f hf

/-- a corrupted copy cannot be corrupted again, and duplicates inherit the drop/corrupt flags -/
theorem corrupt_once (r r' : RState σ) (h : Handler σ) (i : Nat) (hstep : r.step h (.corrupt i) = some r') :
    ∃ f a n, r'.flights.getLast? = some f ∧ f.o = .faults a n false := by
  simp only [RState.step] at hstep
  split at hstep
  · rename_i m s d a n hf
    simp only [Option.some.injEq] at hstep
    subst hstep
    exact ⟨⟨corruptMc m, s, d, .faults a n false⟩, a, n, by simp, rfl⟩
  · simp at hstep

theorem dup_inherits (r r' : RState σ) (h : Handler σ) (i : Nat) (m : Msg) (s d : Nat) (a c : Bool) (n : Nat)
    (hf : r.flights[i]? = some ⟨m, s, d, .faults a (n + 1) c⟩) (hstep : r.step h (.dup i) = some r') :
    r'.flights = r.flights.eraseIdx i ++ [⟨m, s, d, .faults a n c⟩, ⟨m, s, d, .faults a 0 c⟩] := by
  simp only [RState.step, hf, Option.some.injEq] at hstep
  subst hstep
  rfl

/-- the two corruption sites compute the same function -/
theorem corrupt_fns_equal (m : Msg) : corruptMc m = corruptSim m := rfl

theorem foldl_corruptStep_no_quote (d : List Nat) : ∀ (out : List Nat), quote ∉ d →
    d.foldl corruptStep (.outside, out) = (.outside, out ++ d) := by
  induction d with
  | nil => intro out _; simp
  | cons c cs ih =>
    intro out hq
    simp only [List.mem_cons, not_or] at hq
    have hc : ¬ c = quote := fun e => hq.1 e.symm
    simp only [List.foldl_cons, corruptStep, hc, ↓reduceIte]
    rw [ih _ hq.2]
    simp

/-- a payload without quotes is not changed by corruption -/
theorem corruptData_no_quote (d : List Nat) (hq : quote ∉ d) : corruptData d = d := by
  simp only [corruptData, foldl_corruptStep_no_quote d [] hq, corruptFinish, List.nil_append]

/-- corruption is *not* idempotent (`"a"b"` ↦ `""b"` ↦ `"""`): this is why the model checker clears
    `can_be_corrupted` on a corrupted copy instead of relying on a fixed point -/
theorem corruptData_not_idem : ∃ d, corruptData (corruptData d) ≠ corruptData d :=
  ⟨[34, 97, 34, 98, 34], by decide⟩

/-! ## C14: a crashed node is silent (reference-semantics side; the model checker side is `Sim.crashNode'`) -/

theorem crashNode_no_pending (r : RState σ) (node : Nat) (order : List Flight) (p : Nat)
    (hp : amGet? p r.net.procLoc = some node) :
    (∀ f ∈ (r.crashNode node order).flights, f.src ≠ p ∧ f.dst ≠ p) ∧
    (∀ t ∈ (r.crashNode node order).timers, t.proc ≠ p) := by
  constructor
  · intro f hf
    simp only [RState.crashNode, List.mem_filter, Bool.not_eq_true', Bool.or_eq_false_iff,
      beq_eq_false_iff_ne, ne_eq] at hf
    constructor
    · intro e; apply hf.2.1; rw [e, hp]
    · intro e; apply hf.2.2; rw [e, hp]
  · intro t ht
    simp only [RState.crashNode, List.mem_filter, Bool.not_eq_true', beq_eq_false_iff_ne, ne_eq] at ht
    intro e; apply ht.2; rw [e, hp]

theorem crashNode_others_untouched (r : RState σ) (node : Nat) (order : List Flight) :
    (r.crashNode node order).flights =
      r.flights.filter (fun f => !(amGet? f.src r.net.procLoc == some node || amGet? f.dst r.net.procLoc == some node)) ∧
    (r.crashNode node order).timers = r.timers.filter (fun t => !(amGet? t.proc r.net.procLoc == some node)) ∧
    (r.crashNode node order).procs = r.procs := ⟨rfl, rfl, rfl⟩

/-- no step ever delivers a message or a timer to a process of a crashed node -/
theorem crashed_never_handles (h : Handler σ) (r r' : RState σ) (p : Nat) (i : Input) (hc : r.procCrashed p = true) :
    r.react h p i ≠ some r' := by
  simp only [RState.react]
  cases amGet? p r.procs with
  | none => simp
  | some e => simp [hc]

/-- a message sent from or to a process of a crashed node is lost: nothing is put in flight and the
    loss is recorded -/
theorem send_touching_crashed_dropped (r : RState σ) (p dst : Nat) (m : Msg)
    (hc : r.procCrashed p = true ∨ r.procCrashed dst = true)
    (hk : (amGet? p r.net.procLoc).isSome = true ∧ (amGet? dst r.net.procLoc).isSome = true) :
    ((r.act p (.send m dst)).1.flights = r.flights) ∧ (r.act p (.send m dst)).2 = [LogE.dropped m p dst] := by
  obtain ⟨sn, hsn⟩ := Option.isSome_iff_exists.mp hk.1
  obtain ⟨dn, hdn⟩ := Option.isSome_iff_exists.mp hk.2
  have hcc : (r.procCrashed p || r.procCrashed dst) = true := by
    rcases hc with hc | hc <;> simp [hc]
  simp only [RState.act, sendMessage_classification r.net m p dst sn dn hsn hdn]
  by_cases hsd : sn = dn
  · simp [hsd, hcc]
  · by_cases hb : (r.net.dropOutgoing.contains sn || r.net.dropIncoming.contains dn ||
        r.net.disabledLinks.contains (sn, dn)) = true
    · simp only [hsd, hb, ↓reduceIte]
      simp
    · simp only [hsd, hb, ↓reduceIte]
      simp [hcc, hc]

end Anysystem
