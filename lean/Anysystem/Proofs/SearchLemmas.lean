import Anysystem.Spec.SearchSpec
/-!
# Basic lemmas about the generic search: `Acc.check`, the abstract view of the cache (`Marked`),
  and big-step induction rules for `dfs`/`dfsChildren` and `bfsLoop`.
-/
set_option linter.unusedSectionVars false

namespace Anysystem

variable {σ κ : Type} [DecidableEq κ]

/-! ## `Acc.check` -/

theorem check_snd (S : TSys σ κ) (a : Acc σ κ) (s : σ) : (a.check S s).2 = S.verdict s := by
  simp only [Acc.check]
  cases S.verdict s <;> rfl

theorem check_evald (S : TSys σ κ) (a : Acc σ κ) (s : σ) : (a.check S s).1.evald = a.evald ++ [s] := by
  simp only [Acc.check]
  cases S.verdict s <;> rfl

theorem check_cache (S : TSys σ κ) (a : Acc σ κ) (s : σ) : (a.check S s).1.cache = a.cache := by
  simp only [Acc.check]
  cases S.verdict s <;> rfl

theorem check_collected (S : TSys σ κ) (a : Acc σ κ) (s : σ) :
    (a.check S s).1.collected =
      if S.collect s && !(a.collected.any (fun c => S.key c = S.key s)) then a.collected ++ [s]
      else a.collected := by
  simp only [Acc.check]
  cases S.verdict s <;> rfl

theorem check_statuses (S : TSys σ κ) (a : Acc σ κ) (s : σ) :
    (a.check S s).1.statuses =
      match S.verdict s with
      | .stop st => bump a.statuses st
      | _ => a.statuses := by
  simp only [Acc.check]
  cases S.verdict s <;> rfl

/-! ## The cache, abstractly -/

/-- the key `k` is recorded in the cache -/
def Marked (S : TSys σ κ) (c : Cache κ) (k : κ) : Prop :=
  match c.mode with
  | .full => k ∈ c.keys
  | .hashed => S.hash k ∈ c.hashes
  | .disabled => False

theorem mark_mode (S : TSys σ κ) (c : Cache κ) (s : σ) : (c.mark S s).mode = c.mode := by
  unfold Cache.mark
  split <;> (try split) <;> simp_all

theorem has_iff (S : TSys σ κ) (c : Cache κ) (s : σ) : c.has S s = true ↔ Marked S c (S.key s) := by
  unfold Cache.has Marked
  split <;> simp_all

theorem has_false_iff (S : TSys σ κ) (c : Cache κ) (s : σ) :
    c.has S s = false ↔ ¬ Marked S c (S.key s) := by
  rw [← has_iff]; simp

theorem marked_full (S : TSys σ κ) (c : Cache κ) (hm : c.mode = .full) (k : κ) :
    Marked S c k ↔ k ∈ c.keys := by
  unfold Marked; simp [hm]

theorem marked_hashed (S : TSys σ κ) (c : Cache κ) (hm : c.mode = .hashed) (k : κ) :
    Marked S c k ↔ S.hash k ∈ c.hashes := by
  unfold Marked; simp [hm]

theorem mark_full (S : TSys σ κ) (c : Cache κ) (hm : c.mode = .full) (s : σ) :
    c.mark S s = if S.key s ∈ c.keys then c else { c with keys := S.key s :: c.keys } := by
  unfold Cache.mark; simp [hm]

theorem mark_hashed (S : TSys σ κ) (c : Cache κ) (hm : c.mode = .hashed) (s : σ) :
    c.mark S s = if S.hash (S.key s) ∈ c.hashes then c
      else { c with hashes := S.hash (S.key s) :: c.hashes } := by
  unfold Cache.mark; simp [hm]

theorem marked_mark_of_marked (S : TSys σ κ) (c : Cache κ) (s : σ) (k : κ) (h : Marked S c k) :
    Marked S (c.mark S s) k := by
  have hmm := mark_mode S c s
  cases hm : c.mode with
  | full =>
    rw [marked_full S _ (hmm.trans hm), mark_full S c hm]
    rw [marked_full S c hm] at h
    split
    · exact h
    · exact List.mem_cons_of_mem _ h
  | hashed =>
    rw [marked_hashed S _ (hmm.trans hm), mark_hashed S c hm]
    rw [marked_hashed S c hm] at h
    split
    · exact h
    · exact List.mem_cons_of_mem _ h
  | disabled =>
    unfold Marked at h; simp [hm] at h

theorem marked_mark_iff (S : TSys σ κ) (c : Cache κ) (hm : ExactCache S c.mode) (s : σ) (k : κ) :
    Marked S (c.mark S s) k ↔ Marked S c k ∨ k = S.key s := by
  have hmm := mark_mode S c s
  rcases hm with hm | ⟨hm, hinj⟩
  · rw [marked_full S _ (hmm.trans hm), mark_full S c hm, marked_full S c hm]
    split
    · rename_i hc
      constructor
      · intro h; exact Or.inl h
      · rintro (h | rfl)
        · exact h
        · exact hc
    · simp only [List.mem_cons]
      constructor
      · rintro (h | h)
        · exact Or.inr h
        · exact Or.inl h
      · rintro (h | h)
        · exact Or.inr h
        · exact Or.inl h
  · rw [marked_hashed S _ (hmm.trans hm), mark_hashed S c hm, marked_hashed S c hm]
    split
    · rename_i hc
      constructor
      · intro h; exact Or.inl h
      · rintro (h | rfl)
        · exact h
        · exact hc
    · simp only [List.mem_cons]
      constructor
      · rintro (h | h)
        · exact Or.inr (hinj _ _ h)
        · exact Or.inl h
      · rintro (h | h)
        · exact Or.inr h
        · exact Or.inl (by rw [h])

theorem marked_mark_self (S : TSys σ κ) (c : Cache κ) (hm : ExactCache S c.mode) (s : σ) :
    Marked S (c.mark S s) (S.key s) := (marked_mark_iff S c hm s _).2 (Or.inr rfl)

theorem not_marked_of_disabled (S : TSys σ κ) (c : Cache κ) (hm : c.mode = .disabled) (k : κ) :
    ¬ Marked S c k := by
  unfold Marked; simp [hm]

theorem has_of_disabled (S : TSys σ κ) (c : Cache κ) (hm : c.mode = .disabled) (s : σ) :
    c.has S s = false := by
  unfold Cache.has; simp [hm]

theorem mark_of_disabled (S : TSys σ κ) (c : Cache κ) (hm : c.mode = .disabled) (s : σ) :
    c.mark S s = c := by
  unfold Cache.mark; simp [hm]

theorem marked_fresh_iff (S : TSys σ κ) (mode : CacheMode) (hm : ExactCache S mode) (s : σ) (k : κ) :
    Marked S (({ mode := mode } : Cache κ).mark S s) k ↔ k = S.key s := by
  rw [marked_mark_iff S _ hm]
  constructor
  · rintro (h | h)
    · exfalso
      unfold Marked at h
      rcases hm with hm | ⟨hm, _⟩ <;> simp [hm] at h
    · exact h
  · exact Or.inr

/-! ## `bfsEnqueue` -/

theorem bfsEnqueue_sub (S : TSys σ κ) (cs q : List σ) (c : Cache κ) :
    ∃ added, (bfsEnqueue S cs q c).1 = q ++ added ∧ (∀ x ∈ added, x ∈ cs) ∧
      (bfsEnqueue S cs q c).2.mode = c.mode := by
  induction cs generalizing q c with
  | nil => exact ⟨[], by simp [bfsEnqueue]⟩
  | cons x xs ih =>
    simp only [bfsEnqueue]
    split
    · obtain ⟨added, h1, h2, h3⟩ := ih q c
      exact ⟨added, h1, fun y hy => List.mem_cons_of_mem _ (h2 y hy), h3⟩
    · obtain ⟨added, h1, h2, h3⟩ := ih (q ++ [x]) (c.mark S x)
      refine ⟨x :: added, by simp [h1], ?_, by rw [h3, mark_mode]⟩
      intro y hy
      rcases List.mem_cons.mp hy with rfl | hy
      · exact List.mem_cons_self ..
      · exact List.mem_cons_of_mem _ (h2 y hy)

theorem bfsEnqueue_disabled (S : TSys σ κ) (cs q : List σ) (c : Cache κ) (hm : c.mode = .disabled) :
    bfsEnqueue S cs q c = (q ++ cs, c) := by
  induction cs generalizing q with
  | nil => simp [bfsEnqueue]
  | cons x xs ih =>
    simp only [bfsEnqueue, has_of_disabled S c hm, mark_of_disabled S c hm, Bool.false_eq_true, if_false]
    rw [ih]; simp

theorem bfsEnqueue_exact (S : TSys σ κ) (cs q : List σ) (c : Cache κ) (hm : ExactCache S c.mode) :
    ∃ added, (bfsEnqueue S cs q c).1 = q ++ added ∧ (bfsEnqueue S cs q c).2.mode = c.mode ∧
      (∀ x ∈ added, x ∈ cs) ∧
      (∀ k, Marked S (bfsEnqueue S cs q c).2 k ↔ Marked S c k ∨ ∃ x ∈ added, S.key x = k) ∧
      (∀ x ∈ cs, Marked S (bfsEnqueue S cs q c).2 (S.key x)) ∧
      (added.map S.key).Nodup ∧ (∀ x ∈ added, ¬ Marked S c (S.key x)) := by
  induction cs generalizing q c with
  | nil => exact ⟨[], by simp [bfsEnqueue]⟩
  | cons x xs ih =>
    simp only [bfsEnqueue]
    split
    · rename_i hh
      obtain ⟨added, h1, h2, h3, h4, h5, h6, h7⟩ := ih q c hm
      refine ⟨added, h1, h2, fun y hy => List.mem_cons_of_mem _ (h3 y hy), h4, ?_, h6, h7⟩
      intro y hy
      rcases List.mem_cons.mp hy with rfl | hy
      · exact (h4 _).2 (Or.inl ((has_iff S c y).1 hh))
      · exact h5 y hy
    · rename_i hh
      have hnm : ¬ Marked S c (S.key x) := by rw [← has_iff]; exact hh
      have hm' : ExactCache S (c.mark S x).mode := by rw [mark_mode]; exact hm
      obtain ⟨added, h1, h2, h3, h4, h5, h6, h7⟩ := ih (q ++ [x]) (c.mark S x) hm'
      refine ⟨x :: added, by simp [h1], by rw [h2, mark_mode], ?_, ?_, ?_, ?_, ?_⟩
      · intro y hy
        rcases List.mem_cons.mp hy with rfl | hy
        · exact List.mem_cons_self ..
        · exact List.mem_cons_of_mem _ (h3 y hy)
      · intro k
        rw [h4, marked_mark_iff S c hm]
        constructor
        · rintro ((h | h) | ⟨y, hy, rfl⟩)
          · exact Or.inl h
          · exact Or.inr ⟨x, List.mem_cons_self .., h.symm⟩
          · exact Or.inr ⟨y, List.mem_cons_of_mem _ hy, rfl⟩
        · rintro (h | ⟨y, hy, rfl⟩)
          · exact Or.inl (Or.inl h)
          · rcases List.mem_cons.mp hy with rfl | hy
            · exact Or.inl (Or.inr rfl)
            · exact Or.inr ⟨y, hy, rfl⟩
      · intro y hy
        rcases List.mem_cons.mp hy with rfl | hy
        · exact (h4 _).2 (Or.inl (marked_mark_self S c hm y))
        · exact h5 y hy
      · rw [List.map_cons, List.nodup_cons]
        refine ⟨?_, h6⟩
        intro hmem
        obtain ⟨y, hy, hk⟩ := List.mem_map.mp hmem
        exact h7 y hy (by rw [hk]; exact marked_mark_self S c hm x)
      · intro y hy
        rcases List.mem_cons.mp hy with rfl | hy
        · exact hnm
        · exact fun h => h7 y hy (marked_mark_of_marked S c x _ h)

/-! ## Big-step induction rule for the mutual DFS -/

theorem dfs_rule (S : TSys σ κ)
    {Pd : σ → Acc σ κ → Res σ → Acc σ κ → Prop}
    {Pc : List σ → Acc σ κ → Res σ → Acc σ κ → Prop}
    (panic : ∀ s a e, S.succ s = .error e → Pd s a (.panic e) a)
    (fail : ∀ s a cs msg, S.succ s = .ok cs → S.verdict s = .fail msg →
      Pd s a (.err msg s) (a.check S s).1)
    (stop : ∀ s a cs st, S.succ s = .ok cs → S.verdict s = .stop st → Pd s a .ok (a.check S s).1)
    (cont : ∀ s a cs r a', S.succ s = .ok cs → S.verdict s = .cont → Pc cs (a.check S s).1 r a' →
      Pd s a r a')
    (nil : ∀ a, Pc [] a .ok a)
    (skip : ∀ c cs a r a', a.cache.has S c = true → Pc cs a r a' → Pc (c :: cs) a r a')
    (visitOk : ∀ c cs a a1 r a', a.cache.has S c = false →
      Pd c { a with cache := a.cache.mark S c } .ok a1 → Pc cs a1 r a' → Pc (c :: cs) a r a')
    (visitBad : ∀ c cs a r a1, a.cache.has S c = false → r ≠ .ok →
      Pd c { a with cache := a.cache.mark S c } r a1 → Pc (c :: cs) a r a1) :
    ∀ n, (∀ s a r a', dfs S n s a = some (r, a') → Pd s a r a') ∧
         (∀ cs a r a', dfsChildren S n cs a = some (r, a') → Pc cs a r a') := by
  intro n
  induction n with
  | zero =>
    constructor
    · intro s a r a' h
      simp [dfs] at h
    · intro cs a r a' h
      cases cs with
      | nil =>
        simp only [dfsChildren, Option.some.injEq, Prod.mk.injEq] at h
        obtain ⟨rfl, rfl⟩ := h
        exact nil a
      | cons c cs => simp [dfsChildren] at h
  | succ n ih =>
    obtain ⟨ihd, ihc⟩ := ih
    constructor
    · intro s a r a' h
      simp only [dfs] at h
      cases hs : S.succ s with
      | error e =>
        simp only [hs, Option.some.injEq, Prod.mk.injEq] at h
        obtain ⟨rfl, rfl⟩ := h
        exact panic s a e hs
      | ok cs =>
        simp only [hs] at h
        have hv := check_snd S a s
        cases hv' : S.verdict s with
        | cont =>
          rw [hv'] at hv
          simp only [hv] at h
          exact cont s a cs r a' hs hv' (ihc _ _ _ _ h)
        | stop st =>
          rw [hv'] at hv
          simp only [hv, Option.some.injEq, Prod.mk.injEq] at h
          obtain ⟨rfl, rfl⟩ := h
          exact stop s a cs st hs hv'
        | fail msg =>
          rw [hv'] at hv
          simp only [hv, Option.some.injEq, Prod.mk.injEq] at h
          obtain ⟨rfl, rfl⟩ := h
          exact fail s a cs msg hs hv'
    · intro cs a r a' h
      cases cs with
      | nil =>
        simp only [dfsChildren, Option.some.injEq, Prod.mk.injEq] at h
        obtain ⟨rfl, rfl⟩ := h
        exact nil a
      | cons c cs =>
        simp only [dfsChildren] at h
        cases hh : a.cache.has S c with
        | true =>
          simp only [hh, if_true] at h
          exact skip c cs a r a' hh (ihc _ _ _ _ h)
        | false =>
          simp only [hh] at h
          cases hd : dfs S n c { a with cache := a.cache.mark S c } with
          | none => simp [hd] at h
          | some p =>
            obtain ⟨r1, a1⟩ := p
            simp only [hd] at h
            cases r1 with
            | ok =>
              simp only [Bool.false_eq_true, if_false] at h
              exact visitOk c cs a a1 r a' hh (ihd _ _ _ _ hd) (ihc _ _ _ _ h)
            | err msg e =>
              simp only [Bool.false_eq_true, if_false, Option.some.injEq, Prod.mk.injEq] at h
              obtain ⟨rfl, rfl⟩ := h
              exact visitBad c cs a _ _ hh (by simp) (ihd _ _ _ _ hd)
            | panic msg =>
              simp only [Bool.false_eq_true, if_false, Option.some.injEq, Prod.mk.injEq] at h
              obtain ⟨rfl, rfl⟩ := h
              exact visitBad c cs a _ _ hh (by simp) (ihd _ _ _ _ hd)

/-! ## Invariant rule for the BFS loop -/

theorem bfs_rule (S : TSys σ κ)
    {I : List σ → Acc σ κ → Prop} {F : Res σ → Acc σ κ → Prop}
    (done : ∀ a, I [] a → F .ok a)
    (fail : ∀ s q a msg, I (s :: q) a → S.verdict s = .fail msg → F (.err msg s) (a.check S s).1)
    (stop : ∀ s q a st, I (s :: q) a → S.verdict s = .stop st → I q (a.check S s).1)
    (panic : ∀ s q a e, I (s :: q) a → S.verdict s = .cont → S.succ s = .error e →
      F (.panic e) (a.check S s).1)
    (cont : ∀ s q a cs, I (s :: q) a → S.verdict s = .cont → S.succ s = .ok cs →
      I (bfsEnqueue S cs q a.cache).1
        { (a.check S s).1 with cache := (bfsEnqueue S cs q a.cache).2 }) :
    ∀ n q a r a', I q a → bfsLoop S n q a = some (r, a') → F r a' := by
  intro n
  induction n with
  | zero => intro q a r a' _ h; simp [bfsLoop] at h
  | succ n ih =>
    intro q a r a' hI h
    cases q with
    | nil =>
      simp only [bfsLoop, Option.some.injEq, Prod.mk.injEq] at h
      obtain ⟨rfl, rfl⟩ := h
      exact done a hI
    | cons s q =>
      simp only [bfsLoop] at h
      have hv := check_snd S a s
      cases hv' : S.verdict s with
      | fail msg =>
        rw [hv'] at hv
        simp only [hv, Option.some.injEq, Prod.mk.injEq] at h
        obtain ⟨rfl, rfl⟩ := h
        exact fail s q a msg hI hv'
      | stop st =>
        rw [hv'] at hv
        simp only [hv] at h
        exact ih _ _ _ _ (stop s q a st hI hv') h
      | cont =>
        rw [hv'] at hv
        simp only [hv] at h
        cases hs : S.succ s with
        | error e =>
          simp only [hs, Option.some.injEq, Prod.mk.injEq] at h
          obtain ⟨rfl, rfl⟩ := h
          exact panic s q a e hI hv' hs
        | ok cs =>
          simp only [hs, check_cache] at h
          exact ih _ _ _ _ (cont s q a cs hI hv' hs) h

/-! ## Invariants of the explored states -/

theorem inv_of_reachC {S : TSys σ κ} {Inv : σ → Prop} (hcl : InvClosed S Inv) {s₀ : σ} (h0 : Inv s₀)
    {x : σ} (hx : ReachC S s₀ x) : Inv x := by
  induction hx with
  | refl => exact h0
  | step _ _ hs hm ih => exact hcl _ _ ih hs _ hm

theorem inv_of_reachN {S : TSys σ κ} {Inv : σ → Prop} (hcl : InvClosed S Inv) {s₀ : σ} (h0 : Inv s₀)
    {n : Nat} {x : σ} (hx : ReachN S s₀ n x) : Inv x := by
  induction hx with
  | refl => exact h0
  | step _ _ hs hm ih => exact hcl _ _ ih hs _ hm

theorem Congruent.on {S : TSys σ κ} (hc : Congruent S) : CongruentOn S (fun _ => True) :=
  fun a b _ _ hk => hc a b hk

theorem invClosed_true (S : TSys σ κ) : InvClosed S (fun _ => True) :=
  fun _ _ _ _ _ _ => trivial

end Anysystem
