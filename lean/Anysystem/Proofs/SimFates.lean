import Anysystem.Proofs.SimFatesLemmas
/-!
# C12 — every fate the simulator gives one cross-node send is a reduced-enabled fault path of the reference semantics

Arbitrary drop, duplication and corruption rates.

* `SendFate`, `sendMessage_fate` (A) — what `Sim.sendMessage` does to the event queue for a cross-node send: `k ≤ 3`
  new events with consecutive fresh ids, all carrying the same payload (`m` or `corruptSim m`); `k = 0` iff dropped
  (random drop or link control), then `dropped` is logged; corruption / duplication / random drop only with a positive
  rate.  Needs 4 lawful draws (drop, corrupt, duplicate?, number of copies); the delay draws need no law for the queue
  effect.
* `fatePath`, `fate_covered` (B) — for the flight `⟨m, src, dst, .faults a b c⟩` appended behind flights `F`, every fate
  `(k, corrupted)` with `k ≤ 1 + b`, `k ≤ 3`, `corrupted → c`, `k = 0 → a` is reached by the explicit path `fatePath`
  (`drop`, or `corrupt`? then `k - 1` times `dup`, all at position `|F|`), each label reduced-enabled.
* `send_fate_refines` (C) — the combination for related network settings; `send_fate_keeps_flights` — the same as
  preservation of the multiset equation "flights = deliverable queued copies (+ `zs`)" of the R4 relation.
* `fate_needs_fresh` — the freshness hypothesis of (B) cannot be dropped (counterexample).
* `SimFatesDemo` (D) — a `Ticks` state where the simulator queues 3 corrupted copies, matched by `corrupt, dup, dup`.
-/
namespace Anysystem

variable {σ : Type}

/-! ## (B) the fault paths of the reference semantics -/

/-- `r'` differs from `r` at most in the flights and the trace -/
def RState.SameButFlights (r r' : RState σ) : Prop :=
  r'.procs = r.procs ∧ r'.timers = r.timers ∧ r'.net = r.net ∧ r'.crashedNodes = r.crashedNodes

theorem RState.SameButFlights.trans {a b c : RState σ} (h1 : a.SameButFlights b) (h2 : b.SameButFlights c) :
    a.SameButFlights c :=
  ⟨h2.1.trans h1.1, h2.2.1.trans h1.2.1, h2.2.2.1.trans h1.2.2.1, h2.2.2.2.trans h1.2.2.2⟩

/-- the fault path that gives the flight at position `n` the fate "`k` copies, corrupted or not": `k = 0` is a drop;
    otherwise an optional corruption followed by `k - 1` duplications, always at position `n` -/
def fatePath (n k : Nat) (corrupted : Bool) : List Label :=
  if k = 0 then [.drop n]
  else (if corrupted then [.corrupt n] else []) ++ List.replicate (k - 1) (.dup n)

/-- the payload of the copies -/
def fatePayload (m : Msg) (corrupted : Bool) : Msg := if corrupted then corruptMc m else m

/-- what the path `fatePath` writes to the trace of the reference semantics -/
def fateLog (m : Msg) (src dst k : Nat) (corrupted : Bool) : List LogE :=
  if k = 0 then [.dropped m src dst]
  else (if corrupted then [.corrupted m (corruptMc m) src dst] else []) ++
    List.replicate (k - 1) (.duplicated (fatePayload m corrupted) src dst)

theorem fatePath_isFault (n k : Nat) (corrupted : Bool) : ∀ l ∈ fatePath n k corrupted, l.isFault = true := by
  intro l hl
  unfold fatePath at hl
  split at hl
  · simp only [List.mem_singleton] at hl; subst hl; rfl
  · rcases List.mem_append.1 hl with h | h
    · split at h
      · simp only [List.mem_singleton] at h; subst h; rfl
      · cases h
    · rw [List.eq_of_mem_replicate h]; rfl

theorem fatePath_length (n k : Nat) (corrupted : Bool) (hk : k ≤ 3) : (fatePath n k corrupted).length ≤ 3 := by
  unfold fatePath
  split
  · simp
  · split <;> simp <;> omega

/-- up to two duplications of the last flight, which sits right behind a prefix `F` without an identical flight -/
theorem fate_run_dups (r : RState σ) (F : List Flight) (m : Msg) (s d b : Nat) (a c : Bool) (j : Nat)
    (hfl : r.flights = F ++ [⟨m, s, d, .faults a b c⟩]) (hj : j ≤ 2) (hjb : j ≤ b)
    (hfresh : j ≠ 0 → ∀ x ∈ F, x.key ≠ (m, s, d)) :
    ∃ r' fs, (∀ (h : Handler σ) (mode : Mode) (ls : List Label),
        refRun h mode r (List.replicate j (.dup F.length) ++ ls) = refRun h mode r' ls) ∧
      r'.flights = F ++ fs ∧ fs.map Flight.key = List.replicate (j + 1) (m, s, d) ∧ r.SameButFlights r' ∧
      r'.trace = r.trace ++ List.replicate j (LogE.duplicated m s d) := by
  match j, hj with
  | 0, _ =>
    exact ⟨r, [⟨m, s, d, .faults a b c⟩], fun _ _ _ => rfl, hfl, rfl, ⟨rfl, rfl, rfl, rfl⟩, by simp⟩
  | 1, _ =>
    obtain ⟨b', rfl⟩ : ∃ b', b = b' + 1 := ⟨b - 1, by omega⟩
    have hfr := hfresh (by omega)
    refine ⟨{ r with flights := F ++ [] ++ [⟨m, s, d, .faults a b' c⟩, ⟨m, s, d, .faults a 0 c⟩],
                     trace := r.trace ++ [LogE.duplicated m s d] }, _, ?_, by simp only [List.append_nil]; rfl, rfl,
      ⟨rfl, rfl, rfl, rfl⟩, rfl⟩
    intro h mode ls
    exact fate_refRun_cons h mode r _ _ _ (RState.fate_oldest r F [] _ hfl hfr)
      (RState.fate_step_dup h r F [] m s d b' a c hfl)
  | 2, _ =>
    obtain ⟨b', rfl⟩ : ∃ b', b = b' + 2 := ⟨b - 2, by omega⟩
    have hfr := hfresh (by omega)
    let r1 : RState σ := { r with flights := F ++ [] ++ [⟨m, s, d, .faults a (b' + 1) c⟩, ⟨m, s, d, .faults a 0 c⟩],
                                  trace := r.trace ++ [LogE.duplicated m s d] }
    have hfl1 : r1.flights = F ++ ⟨m, s, d, .faults a (b' + 1) c⟩ :: [⟨m, s, d, .faults a 0 c⟩] := by
      simp [r1]
    refine ⟨{ r1 with flights := F ++ [⟨m, s, d, .faults a 0 c⟩] ++ [⟨m, s, d, .faults a b' c⟩, ⟨m, s, d, .faults a 0 c⟩],
                      trace := r1.trace ++ [LogE.duplicated m s d] },
      [⟨m, s, d, .faults a 0 c⟩, ⟨m, s, d, .faults a b' c⟩, ⟨m, s, d, .faults a 0 c⟩], ?_, by simp, rfl,
      ⟨rfl, rfl, rfl, rfl⟩, by simp [r1]⟩
    intro h mode ls
    show refRun h mode r (.dup F.length :: .dup F.length :: ls) = _
    rw [fate_refRun_cons h mode r r1 (.dup F.length) _ (RState.fate_oldest r F [] _ hfl hfr)
      (RState.fate_step_dup h r F [] m s d (b' + 1) a c hfl)]
    exact fate_refRun_cons h mode r1 _ _ _ (RState.fate_oldest r1 F _ _ hfl1 hfr)
      (RState.fate_step_dup h r1 F _ m s d b' a c hfl1)

/-- **(B)** every permitted fate of the flight `⟨m, src, dst, .faults a b c⟩`, put in flight behind the flights of `r`,
    is reached by the fault path `fatePath` at its position, each label reduced-enabled when taken (`refRun`), whatever
    the program and the mode.  The new flights `fs` are at the back, the flights of `r` are untouched.

    Freshness is needed only when the path is not empty (`hfresh`: no flight of `r` is identical to the new one) and,
    for a duplication after a corruption, `hfresh'`: no flight of `r` is identical to the corrupted copy. -/
theorem fate_covered (r : RState σ) (m : Msg) (src dst b : Nat) (a c : Bool) (k : Nat) (corrupted : Bool)
    (hkb : k ≤ 1 + b) (hk3 : k ≤ 3) (hc : corrupted = true → c = true) (ha : k = 0 → a = true)
    (hfresh : (k ≠ 1 ∨ corrupted = true) → ∀ g ∈ r.flights, g.key ≠ (m, src, dst))
    (hfresh' : (2 ≤ k ∧ corrupted = true) → ∀ g ∈ r.flights, g.key ≠ (corruptMc m, src, dst)) :
    ∃ r' fs,
      (∀ (h : Handler σ) (mode : Mode),
        refRun h mode { r with flights := r.flights ++ [⟨m, src, dst, .faults a b c⟩] }
          (fatePath r.flights.length k corrupted) = some r') ∧
      r'.flights = r.flights ++ fs ∧
      fs.map Flight.key = List.replicate k (fatePayload m corrupted, src, dst) ∧
      r.SameButFlights r' ∧
      r'.trace = r.trace ++ fateLog m src dst k corrupted := by
  let r0 : RState σ := { r with flights := r.flights ++ [⟨m, src, dst, .faults a b c⟩] }
  have hfl0 : r0.flights = r.flights ++ [⟨m, src, dst, .faults a b c⟩] := rfl
  by_cases hk0 : k = 0
  · -- dropped
    subst hk0
    have ha' := ha rfl
    subst ha'
    refine ⟨{ r0 with flights := r.flights ++ [], trace := r0.trace ++ [LogE.dropped m src dst] }, [], ?_,
      rfl, rfl, ⟨rfl, rfl, rfl, rfl⟩, rfl⟩
    intro h mode
    show refRun h mode r0 [.drop r.flights.length] = _
    rw [fate_refRun_cons h mode r0 _ (.drop r.flights.length) _
      (RState.fate_oldest r0 r.flights [] _ hfl0 (hfresh (Or.inl (by omega))))
      (RState.fate_step_drop h r0 r.flights [] m src dst b c hfl0)]
    rfl
  · cases corrupted with
    | false =>
      obtain ⟨r', fs, hrun, hfl', hkeys, hsame, htr⟩ :=
        fate_run_dups r0 r.flights m src dst b a c (k - 1) hfl0 (by omega) (by omega)
          (fun hne => hfresh (Or.inl (by omega)))
      refine ⟨r', fs, ?_, hfl', ?_, hsame, ?_⟩
      · intro h mode
        have := hrun h mode []
        simp only [List.append_nil] at this
        simp only [fatePath, hk0, ↓reduceIte, Bool.false_eq_true, List.nil_append]
        rw [this]; rfl
      · rw [hkeys]
        have : k - 1 + 1 = k := by omega
        rw [this]; rfl
      · rw [htr]
        simp only [fateLog, hk0, ↓reduceIte, Bool.false_eq_true, List.nil_append, fatePayload]
        rfl
    | true =>
      have hc' := hc rfl
      subst hc'
      have hfr := hfresh (Or.inr rfl)
      let r1 : RState σ := { r0 with flights := r.flights ++ [] ++ [⟨corruptMc m, src, dst, .faults a b false⟩],
                                     trace := r0.trace ++ [LogE.corrupted m (corruptMc m) src dst] }
      have hfl1 : r1.flights = r.flights ++ [⟨corruptMc m, src, dst, .faults a b false⟩] := by simp [r1]
      obtain ⟨r', fs, hrun, hfl', hkeys, hsame, htr⟩ :=
        fate_run_dups r1 r.flights (corruptMc m) src dst b a false (k - 1) hfl1 (by omega) (by omega)
          (fun hne => hfresh' ⟨by omega, rfl⟩)
      refine ⟨r', fs, ?_, hfl', ?_, RState.SameButFlights.trans ⟨rfl, rfl, rfl, rfl⟩ hsame, ?_⟩
      · intro h mode
        have := hrun h mode []
        simp only [List.append_nil] at this
        simp only [fatePath, hk0, ↓reduceIte, List.singleton_append]
        rw [fate_refRun_cons h mode r0 r1 (.corrupt r.flights.length) _ (RState.fate_oldest r0 r.flights [] _ hfl0 hfr)
          (RState.fate_step_corrupt h r0 r.flights [] m src dst b a hfl0)]
        rw [this]; rfl
      · rw [hkeys]
        have : k - 1 + 1 = k := by omega
        rw [this]; rfl
      · rw [htr]
        simp only [fateLog, hk0, ↓reduceIte, fatePayload, List.singleton_append, r1, r0, List.append_assoc]

/-- (B) in the shape of the brief: the keys of the flights after the path are a permutation of the old keys plus `k`
    times the key of the (possibly corrupted) message; at most three fault labels -/
theorem fate_covered_perm (r : RState σ) (m : Msg) (src dst b : Nat) (a c : Bool) (k : Nat) (corrupted : Bool)
    (hkb : k ≤ 1 + b) (hk3 : k ≤ 3) (hc : corrupted = true → c = true) (ha : k = 0 → a = true)
    (hfresh : ∀ g ∈ r.flights, g.key ≠ (m, src, dst))
    (hfresh' : ∀ g ∈ r.flights, g.key ≠ (corruptMc m, src, dst)) :
    ∃ ls r', (∀ l ∈ ls, l.isFault = true) ∧ ls.length ≤ 3 ∧
      (∀ (h : Handler σ) (mode : Mode),
        refRun h mode { r with flights := r.flights ++ [⟨m, src, dst, .faults a b c⟩] } ls = some r') ∧
      r.SameButFlights r' ∧
      (r'.flights.map Flight.key).Perm
        (r.flights.map Flight.key ++ List.replicate k (if corrupted then corruptMc m else m, src, dst)) := by
  obtain ⟨r', fs, hrun, hfl, hkeys, hsame, _⟩ :=
    fate_covered r m src dst b a c k corrupted hkb hk3 hc ha (fun _ => hfresh) (fun _ => hfresh')
  refine ⟨_, r', fatePath_isFault _ _ _, fatePath_length _ _ _ hk3, hrun, hsame, ?_⟩
  rw [hfl, List.map_append, hkeys]
  exact List.Perm.refl _


/-! ## (A) the fates the simulator gives one cross-node send -/

section SimSide
variable {σ T : Type} [TimeOps T]

open Sim

/-- The complete effect of one cross-node `Sim.sendMessage` on the event queue: **`k` copies, corrupted or not**.
    `k` new events with the consecutive fresh ids `eventCount, …, eventCount + k - 1` are appended, every one is the
    message event `.msg mid m' src sn dst dn` from node `sn` to node `dn` with the same payload `m'` (`m`, or
    `corruptSim m` when `corrupted`); nothing else of the queue changes. -/
structure SendFate (s s' : Sim σ T) (m : Msg) (src dst sn dn tipLen k : Nat) (corrupted : Bool) : Prop where
  le3 : k ≤ 3
  events : ∃ times : Nat → T, s'.events = s.events ++ (List.range k).map fun i =>
    (⟨s.eventCount + i, times i, sn, dn,
      .msg s.net.messageCount (if corrupted then corruptSim m else m) src sn dst dn⟩ : QEv T)
  eventCount : s'.eventCount = s.eventCount + k
  /-- nothing else changes, except the counters of the network, the draw stream and the trace -/
  frame : s'.canceled = s.canceled ∧ s'.clock = s.clock ∧ s'.nodes = s.nodes ∧ s'.handlers = s.handlers ∧
    s'.procNodes = s.procNodes ∧ s'.net = s.crossNet m tipLen
  /-- one draw when dropped; otherwise drop, corrupt, duplicate?, [number of copies], one delay per copy -/
  draws : ∃ j, j ≤ 4 + k ∧ s'.draws = s.draws.drop j
  /-- no copy iff dropped: at random, or by a link control -/
  dropped_iff : k = 0 ↔ (TimeOps.lt (dr s.draws 0) s.net.dropRate = true ∨ s.pathCut sn dn = true)
  /-- the send is logged; the loss too -/
  trace : s'.trace = s.trace ++ SLog.sent s.clock s.net.messageCount sn src dn dst m ::
    (if k = 0 then [SLog.dropped s.clock s.net.messageCount sn src dn dst m] else [])
  /-- a random drop only with a positive drop rate -/
  randomDrop : k = 0 → s.pathCut sn dn = false → TimeOps.lt TimeOps.zero s.net.dropRate = true
  /-- corruption only with a positive corruption rate (and only of a message that is queued) -/
  corrupt : corrupted = true → 1 ≤ k ∧ TimeOps.lt TimeOps.zero s.net.corruptRate = true
  /-- more than one copy only with a positive duplication rate -/
  dupl : 2 ≤ k → TimeOps.lt TimeOps.zero s.net.duplRate = true

/-- **(A)** every cross-node send has a fate `(k, corrupted)`.  Four lawful draws are needed (the fourth is the one
    `copies` is applied to); the delay draws are not restricted. -/
theorem sendMessage_fate [LawfulTime T] (s s' : Sim σ T) (m : Msg) (src dst sn dn tipLen : Nat)
    (hs : amGet? src s.net.procLoc = some sn) (hd : amGet? dst s.net.procLoc = some dn) (hne : sn ≠ dn)
    (hdraws : ∀ d ∈ s.draws, LawfulTime.isDraw d) (hlen : 4 ≤ s.draws.length)
    (hok : s.sendMessage m src dst tipLen = .ok s') :
    ∃ k corrupted, SendFate s s' m src dst sn dn tipLen k corrupted := by
  rw [sendMessage_cross s m src dst sn dn tipLen hs hd hne] at hok
  have hok' := Except.ok.inj hok
  subst hok'
  cases hdr : s.sendDropped sn dn with
  | true =>
    rw [cross_dropped _ _ _ _ _ _ _ hdr]
    have hdr' := hdr
    rw [sendDropped_eq, Bool.or_eq_true] at hdr'
    refine ⟨0, false, ⟨by omega, ⟨fun _ => TimeOps.zero, by simp⟩, rfl, ⟨rfl, rfl, rfl, rfl, rfl, rfl⟩,
      ⟨1, by omega, rfl⟩, ⟨fun _ => hdr', fun _ => rfl⟩, by simp, ?_, (by intro h; cases h), by omega⟩⟩
    intro _ hcut
    rcases hdr' with h | h
    · exact lt_zero_of_le_of_lt _ _ (dr_nonneg _ hdraws 0) h
    · rw [hcut] at h; cases h
  | false =>
    rw [cross_passed _ _ _ _ _ _ _ hdr]
    have hcnt := sendCount_bounds s hdraws hlen
    have hdr' := hdr
    rw [sendDropped_eq, Bool.or_eq_false_iff] at hdr'
    have hk0 : s.sendCount ≠ 0 := by omega
    refine ⟨s.sendCount, TimeOps.lt (dr s.draws 1) s.net.corruptRate,
      ⟨hcnt.2, ⟨fun i => (copyEv s (.msg s.net.messageCount (s.sendPayload m) src sn dst dn) sn dn s.sendBase i).time, rfl⟩,
        rfl, ⟨rfl, rfl, rfl, rfl, rfl, rfl⟩, ⟨s.sendBase + s.sendCount, by have := sendBase_le s; omega, rfl⟩,
        ⟨fun h => absurd h hk0, ?_⟩, by simp [hk0], fun h => absurd h hk0, ?_, ?_⟩⟩
    · rintro (h | h)
      · rw [hdr'.1] at h; cases h
      · rw [hdr'.2] at h; cases h
    · intro hc
      exact ⟨hcnt.1, lt_zero_of_le_of_lt _ _ (dr_nonneg _ hdraws 1) hc⟩
    · intro h2
      cases hdup : s.sendDup with
      | false => simp [sendCount, hdup] at h2
      | true => exact lt_zero_of_le_of_lt _ _ (dr_nonneg _ hdraws 2) hdup

/-- the (message, source, destination) triples of the queued copies -/
theorem fate_filterMap_const {α β : Type} (f : Nat → α) (g : α → Option β) (c : β) (k : Nat)
    (h : ∀ i, g (f i) = some c) : ((List.range k).map f).filterMap g = List.replicate k c := by
  induction k with
  | zero => rfl
  | succ k ih =>
    rw [List.range_succ, List.map_append, List.filterMap_append, ih, List.replicate_succ']
    simp [h]

/-- the copies a send queued: `k` times the triple of the (possibly corrupted) message -/
theorem SendFate.addedKeys {s s' : Sim σ T} {m : Msg} {src dst sn dn tipLen k : Nat} {corrupted : Bool}
    (h : SendFate s s' m src dst sn dn tipLen k corrupted) :
    (Sim.added s s').filterMap (fun e => keyOfQ e.data) =
      List.replicate k (if corrupted then corruptSim m else m, src, dst) := by
  obtain ⟨times, hev⟩ := h.events
  unfold Sim.added
  rw [hev, List.drop_left]
  exact fate_filterMap_const _ _ _ k (fun _ => rfl)

/-- with well-formed cancellations (`cancelled ids were handed out`) and a receiving node that has a handler, the
    deliverable triples grow by exactly the queued copies -/
theorem SendFate.liveKeys {s s' : Sim σ T} {m : Msg} {src dst sn dn tipLen k : Nat} {corrupted : Bool}
    (h : SendFate s s' m src dst sn dn tipLen k corrupted) (hcanc : ∀ id ∈ s.canceled, id < s.eventCount)
    (hdn : dn ∈ s.handlers) :
    s'.liveKeys = s.liveKeys ++ List.replicate k (if corrupted then corruptSim m else m, src, dst) := by
  obtain ⟨times, hev⟩ := h.events
  obtain ⟨hc, _, _, hh, _, _⟩ := h.frame
  have hfresh : ∀ i, s.eventCount + i ∉ s.canceled := fun i hmem => by have := hcanc _ hmem; omega
  unfold Sim.liveKeys Sim.deliverable Sim.live
  rw [hev, hc, hh, List.filter_append, List.filter_append, List.filterMap_append]
  congr 1
  rw [List.filter_eq_self.2, List.filter_eq_self.2]
  · exact fate_filterMap_const _ _ _ k (fun _ => rfl)
  · intro e he
    obtain ⟨i, _, rfl⟩ := List.mem_map.1 he
    simpa using hfresh i
  · intro e he
    obtain ⟨i, _, rfl⟩ := List.mem_map.1 (List.mem_filter.1 he).1
    simpa using hdn

/-! ## (C) the combination -/

/-- **(C)** One cross-node send, simulator against reference semantics, arbitrary rates.  The reference network has the
    settings `McNetwork::new` computes from the simulator's (`snapshotNet`: `drop_rate > 0`, `dupl_rate ≠ 0` — as
    `0 < rate ∨ rate < 0` —, `corrupt_rate > 0`, the same link controls), sender and receiver are not crashed, and no
    flight identical to the new message or to its corruption is in the air.  Then the copies the simulator queued for
    this send are, as a multiset of (message, source, destination) triples, exactly what a reduced-enabled path of at
    most three fault labels makes of the flights of the reference state after the reference `send`: the path is empty
    when a link control cut the path (no flight was created), and `fatePath` at the new flight's position otherwise. -/
theorem send_fate_refines [LawfulTime T] (s s' : Sim σ T) (r : RState σ) (m : Msg) (src dst sn dn tipLen : Nat)
    (hs : amGet? src s.net.procLoc = some sn) (hd : amGet? dst s.net.procLoc = some dn) (hne : sn ≠ dn)
    (hdraws : ∀ d ∈ s.draws, LawfulTime.isDraw d) (hlen : 4 ≤ s.draws.length)
    (hok : s.sendMessage m src dst tipLen = .ok s')
    (hloc : r.net.procLoc = s.net.procLoc)
    (hdrop : r.net.dropPos = TimeOps.lt TimeOps.zero s.net.dropRate)
    (hdupl : r.net.duplNonzero = (TimeOps.lt TimeOps.zero s.net.duplRate || TimeOps.lt s.net.duplRate TimeOps.zero))
    (hcorr : r.net.corruptPos = TimeOps.lt TimeOps.zero s.net.corruptRate)
    (hpath : r.net.pathEnabled sn dn = !s.pathCut sn dn)
    (hcs : r.procCrashed src = false) (hcd : r.procCrashed dst = false)
    (hfresh : ∀ g ∈ r.flights, g.key ≠ (m, src, dst))
    (hfresh' : ∀ g ∈ r.flights, g.key ≠ (corruptMc m, src, dst)) :
    ∃ k corrupted ls r',
      SendFate s s' m src dst sn dn tipLen k corrupted ∧
      ls = (if s.pathCut sn dn = true then [] else fatePath r.flights.length k corrupted) ∧
      (∀ l ∈ ls, l.isFault = true) ∧ ls.length ≤ 3 ∧
      (∀ (h : Handler σ) (mode : Mode), refRun h mode (r.act src (.send m dst)).1 ls = some r') ∧
      r.SameButFlights r' ∧
      (r'.flights.map Flight.key).Perm
        (r.flights.map Flight.key ++ (Sim.added s s').filterMap (fun e => keyOfQ e.data)) := by
  obtain ⟨k, corrupted, hf⟩ := sendMessage_fate s s' m src dst sn dn tipLen hs hd hne hdraws hlen hok
  obtain ⟨b1, b2, b3⟩ := RState.act_send_spec r src m dst sn dn (hloc ▸ hs) (hloc ▸ hd) hcs
  obtain ⟨b4, b5, _⟩ := RState.act_frame r src (.send m dst)
  have hsame0 : r.SameButFlights (r.act src (.send m dst)).1 := ⟨b1, b2, b4, b5⟩
  cases hcut : s.pathCut sn dn with
  | true =>
    -- cut by a link control: nothing queued, no flight created
    have hk : k = 0 := hf.dropped_iff.2 (Or.inr hcut)
    subst hk
    rw [hpath, hcut] at b3
    simp only [hne, Bool.not_true, Bool.false_eq_true, or_self, false_and, ↓reduceIte] at b3
    refine ⟨0, corrupted, [], (r.act src (.send m dst)).1, hf, by simp, by simp, by simp, fun _ _ => rfl, hsame0, ?_⟩
    rw [b3, hf.addedKeys]; simp
  | false =>
    rw [hpath, hcut] at b3
    simp only [hne, Bool.not_false, or_true, hcd, and_self, ↓reduceIte] at b3
    -- the fate is permitted by the options of the new flight
    have hkb : k ≤ 1 + (if r.net.duplNonzero = true then DUPL_COUNT else 0) := by
      by_cases h2 : 2 ≤ k
      · have := hf.dupl h2
        rw [hdupl, this]
        have := hf.le3
        simp [DUPL_COUNT]; omega
      · omega
    have hc : corrupted = true → r.net.corruptPos = true := fun h => by rw [hcorr]; exact (hf.corrupt h).2
    have ha : k = 0 → r.net.dropPos = true := fun h => by rw [hdrop]; exact hf.randomDrop h hcut
    let rb : RState σ := { (r.act src (.send m dst)).1 with flights := r.flights }
    obtain ⟨r', fs, hrun, hfl, hkeys, hsame, _⟩ :=
      fate_covered rb m src dst _ r.net.dropPos r.net.corruptPos k corrupted hkb hf.le3 hc ha
        (fun _ => hfresh) (fun _ => hfresh')
    have hra : (r.act src (.send m dst)).1 =
        { rb with flights := rb.flights ++ [⟨m, src, dst, .faults r.net.dropPos
          (if r.net.duplNonzero = true then DUPL_COUNT else 0) r.net.corruptPos⟩] } := by
      have e : rb.flights = r.flights := rfl
      rw [e, ← b3]
    refine ⟨k, corrupted, fatePath r.flights.length k corrupted, r', hf, by simp, fatePath_isFault _ _ _,
      fatePath_length _ _ _ hf.le3, ?_, RState.SameButFlights.trans (b := rb) ⟨b1, b2, b4, b5⟩ hsame, ?_⟩
    · intro h mode
      rw [hra]
      simpa using hrun h mode
    · rw [hfl, List.map_append, hkeys, hf.addedKeys]
      show (List.map Flight.key r.flights ++ _).Perm _
      simp only [fatePayload, corrupt_fns_equal]
      exact List.Perm.refl _

/-- (C) as preservation of the flights clause of the R4 relation, **without zombies**: if the flights of `r` are, as a
    multiset of triples, the deliverable queued copies of `s` plus some `zs`, then after the send the flights at the end
    of the fault path are the deliverable queued copies of `s'` plus the same `zs` (cancelled ids were handed out, the
    receiving node has a handler) -/
theorem send_fate_keeps_flights [LawfulTime T] (s s' : Sim σ T) (r : RState σ) (m : Msg) (src dst sn dn tipLen : Nat)
    (zs : List (Msg × Nat × Nat))
    (hs : amGet? src s.net.procLoc = some sn) (hd : amGet? dst s.net.procLoc = some dn) (hne : sn ≠ dn)
    (hdraws : ∀ d ∈ s.draws, LawfulTime.isDraw d) (hlen : 4 ≤ s.draws.length)
    (hok : s.sendMessage m src dst tipLen = .ok s')
    (hloc : r.net.procLoc = s.net.procLoc)
    (hdrop : r.net.dropPos = TimeOps.lt TimeOps.zero s.net.dropRate)
    (hdupl : r.net.duplNonzero = (TimeOps.lt TimeOps.zero s.net.duplRate || TimeOps.lt s.net.duplRate TimeOps.zero))
    (hcorr : r.net.corruptPos = TimeOps.lt TimeOps.zero s.net.corruptRate)
    (hpath : r.net.pathEnabled sn dn = !s.pathCut sn dn)
    (hcs : r.procCrashed src = false) (hcd : r.procCrashed dst = false)
    (hfresh : ∀ g ∈ r.flights, g.key ≠ (m, src, dst))
    (hfresh' : ∀ g ∈ r.flights, g.key ≠ (corruptMc m, src, dst))
    (hcanc : ∀ id ∈ s.canceled, id < s.eventCount) (hdn : dn ∈ s.handlers)
    (hrel : (r.flights.map Flight.key).Perm (s.liveKeys ++ zs)) :
    ∃ ls r', (∀ l ∈ ls, l.isFault = true) ∧ ls.length ≤ 3 ∧
      (∀ (h : Handler σ) (mode : Mode), refRun h mode (r.act src (.send m dst)).1 ls = some r') ∧
      r.SameButFlights r' ∧ (r'.flights.map Flight.key).Perm (s'.liveKeys ++ zs) := by
  obtain ⟨k, corrupted, ls, r', hf, _, hfault, hlen3, hrun, hsame, hperm⟩ :=
    send_fate_refines s s' r m src dst sn dn tipLen hs hd hne hdraws hlen hok hloc hdrop hdupl hcorr hpath hcs hcd
      hfresh hfresh'
  refine ⟨ls, r', hfault, hlen3, hrun, hsame, ?_⟩
  rw [hf.liveKeys hcanc hdn]
  rw [hf.addedKeys] at hperm
  refine hperm.trans ?_
  refine (List.Perm.append_right _ hrel).trans ?_
  rw [List.append_assoc, List.append_assoc]
  exact List.Perm.append_left _ List.perm_append_comm

end SimSide


/-! ## the freshness hypothesis of (B) cannot be dropped -/

/-- An older identical flight with weaker options blocks every fault of the new flight: behind the flight
    `⟨m, 1, 2, .faults false 0 false⟩` (say a duplicate's child, or a message sent before the rates were raised) the new
    flight `⟨m, 1, 2, .faults true 2 true⟩` is not the oldest identical one, and the oldest one permits no fault.  The
    only reduced-enabled run of fault labels is the empty one, so of the permitted fates `k ∈ {0, 1, 2, 3}`, corrupted
    or not, only "one intact copy" is reached without delivering the older flight first. -/
theorem fate_needs_fresh (h : Handler Nat) (mode : Mode) (ls : List Label) (r' : RState Nat)
    (hfault : ∀ l ∈ ls, l.isFault = true)
    (hrun : refRun h mode
      { flights := [⟨⟨0, []⟩, 1, 2, .faults false 0 false⟩] ++ [⟨⟨0, []⟩, 1, 2, .faults true 2 true⟩] } ls = some r') :
    ls = [] := by
  cases ls with
  | nil => rfl
  | cons l ls =>
    exfalso
    have hl := hfault l List.mem_cons_self
    cases l with
    | deliver i => cases hl
    | fire j => cases hl
    | drop i =>
      match i with
      | 0 => simp [refRun, RState.enabledRed, RState.oldestIdentical, RState.step] at hrun
      | 1 => simp [refRun, RState.enabledRed, RState.oldestIdentical] at hrun
      | n + 2 => simp [refRun, RState.enabledRed, RState.oldestIdentical] at hrun
    | dup i =>
      match i with
      | 0 => simp [refRun, RState.enabledRed, RState.oldestIdentical, RState.step] at hrun
      | 1 => simp [refRun, RState.enabledRed, RState.oldestIdentical] at hrun
      | n + 2 => simp [refRun, RState.enabledRed, RState.oldestIdentical] at hrun
    | corrupt i =>
      match i with
      | 0 => simp [refRun, RState.enabledRed, RState.oldestIdentical, RState.step] at hrun
      | 1 => simp [refRun, RState.enabledRed, RState.oldestIdentical] at hrun
      | n + 2 => simp [refRun, RState.enabledRed, RState.oldestIdentical] at hrun

/-! ## (D) non-vacuity: three corrupted copies -/

namespace SimFatesDemo

open Sim

/-- the payload `"a"`; its corruption is `""` -/
def m0 : Msg := ⟨0, [34, 97, 34]⟩

example : corruptSim m0 = ⟨0, [34, 34]⟩ := by decide

/-- node 0 hosts process 1, node 1 hosts process 2; duplication and corruption rates one half, no drop; the draws:
    not dropped, corrupted, duplicated, `copies ⟨600⟩ = 3`, then three delay draws -/
def q0 : Sim Nat Ticks :=
  { clock := ⟨0⟩, draws := [⟨1⟩, ⟨1⟩, ⟨1⟩, ⟨600⟩, ⟨0⟩, ⟨500⟩, ⟨999⟩],
    net := { (SimNet.default : SimNet Ticks) with maxDelay := ⟨10⟩, duplRate := ⟨500⟩, corruptRate := ⟨500⟩,
                                                   procLoc := [(1, 0), (2, 1)] },
    nodes := [(0, { skew := ⟨0⟩, procs := [(1, { st := 0 })] }), (1, { skew := ⟨0⟩, procs := [(2, { st := 0 })] })],
    procNodes := [(1, 0), (2, 1)], handlers := [0, 1] }

example : TimeOps.lt (TimeOps.zero : Ticks) q0.net.duplRate = true ∧
    TimeOps.lt (TimeOps.zero : Ticks) q0.net.corruptRate = true := by decide

/-- process 1 sends `m0` to process 2 -/
def q1 : Sim Nat Ticks :=
  match q0.sendMessage m0 1 2 2 with
  | .ok s => s
  | .error _ => q0

theorem q1_eq : q0.sendMessage m0 1 2 2 = .ok q1 := rfl

/-- **the simulator queues three corrupted copies** -/
theorem q1_events : q1.events =
    [⟨0, ⟨0⟩, 0, 1, .msg 0 ⟨0, [34, 34]⟩ 1 0 2 1⟩, ⟨1, ⟨5⟩, 0, 1, .msg 0 ⟨0, [34, 34]⟩ 1 0 2 1⟩,
     ⟨2, ⟨9⟩, 0, 1, .msg 0 ⟨0, [34, 34]⟩ 1 0 2 1⟩] := rfl

/-- the fate of this send is "3 copies, corrupted" -/
theorem q1_fate : SendFate q0 q1 m0 1 2 0 1 2 3 true where
  le3 := by omega
  events := ⟨fun i => ⟨[0, 5, 9].getD i 0⟩, rfl⟩
  eventCount := rfl
  frame := ⟨rfl, rfl, rfl, rfl, rfl, rfl⟩
  draws := ⟨7, by omega, rfl⟩
  dropped_iff := by decide
  trace := rfl
  randomDrop := by intro h; cases h
  corrupt := fun _ => ⟨by omega, by decide⟩
  dupl := fun _ => by decide

/-- the reference state: the same processes, the network settings the checker computes from the simulator's -/
def r0 : RState Nat :=
  { procs := [(1, { st := 0 }), (2, { st := 0 })],
    net := { dropPos := false, duplNonzero := true, corruptPos := true, procLoc := [(1, 0), (2, 1)], maxDelay := 10 } }

example : r0.net = snapshotNet (fun t : Ticks => t.n) q0 := by decide

/-- the reference `send` puts one flight in the air, with the full fault budget -/
theorem r0_send : (r0.act 1 (.send m0 2)).1.flights = [⟨m0, 1, 2, .faults false 2 true⟩] := by decide

/-- the end of the reference path: three corrupted flights -/
def r3 : RState Nat :=
  { r0 with
    flights := [⟨corruptMc m0, 1, 2, .faults false 0 false⟩, ⟨corruptMc m0, 1, 2, .faults false 0 false⟩,
                ⟨corruptMc m0, 1, 2, .faults false 0 false⟩],
    trace := [.sent m0 1 2, .corrupted m0 (corruptMc m0) 1 2, .duplicated (corruptMc m0) 1 2,
              .duplicated (corruptMc m0) 1 2] }

example : fatePath 0 3 true = [.corrupt 0, .dup 0, .dup 0] := rfl

/-- **the reference path `corrupt, dup, dup` matches it**: each label reduced-enabled, whatever the program -/
theorem r0_path (h : Handler Nat) (mode : Mode) :
    refRun h mode (r0.act 1 (.send m0 2)).1 [.corrupt 0, .dup 0, .dup 0] = some r3 := by
  have e : (r0.act 1 (.send m0 2)).1 =
      { r0 with flights := [⟨m0, 1, 2, .faults false 2 true⟩], trace := [.sent m0 1 2] } := by decide
  rw [e]
  simp [refRun, RState.enabledRed, RState.oldestIdentical, RState.step, r3]

/-- the flights at the end of the path are the copies the simulator queued -/
theorem r3_matches : r3.flights.map Flight.key = q1.liveKeys := by decide

/-- every hypothesis of `send_fate_refines` holds in the demo state -/
theorem demo_refines : ∃ k corrupted ls r',
    SendFate q0 q1 m0 1 2 0 1 2 k corrupted ∧
    ls = (if q0.pathCut 0 1 = true then [] else fatePath r0.flights.length k corrupted) ∧
    (∀ l ∈ ls, l.isFault = true) ∧ ls.length ≤ 3 ∧
    (∀ (h : Handler Nat) (mode : Mode), refRun h mode (r0.act 1 (.send m0 2)).1 ls = some r') ∧
    r0.SameButFlights r' ∧
    (r'.flights.map Flight.key).Perm
      (r0.flights.map Flight.key ++ (Sim.added q0 q1).filterMap (fun e => keyOfQ e.data)) :=
  send_fate_refines q0 q1 r0 m0 1 2 0 1 2 rfl rfl (by decide)
    (by intro d hd; simp only [q0, List.mem_cons, List.mem_nil_iff, or_false] at hd
        rcases hd with rfl | rfl | rfl | rfl | rfl | rfl | rfl <;> show _ < 1000 <;> decide)
    (by decide) q1_eq rfl (by decide) (by decide) (by decide) (by decide) (by decide) (by decide)
    (by intro g hg; cases hg) (by intro g hg; cases hg)

/-- … and the fate it speaks about is the one exhibited: the witnesses `k = 3`, `corrupted = true`,
    `ls = [corrupt 0, dup 0, dup 0]`, `r' = r3` satisfy the conclusion of `send_fate_refines` -/
theorem demo_witness :
    SendFate q0 q1 m0 1 2 0 1 2 3 true ∧
    [Label.corrupt 0, .dup 0, .dup 0] = (if q0.pathCut 0 1 = true then [] else fatePath r0.flights.length 3 true) ∧
    (∀ (h : Handler Nat) (mode : Mode),
      refRun h mode (r0.act 1 (.send m0 2)).1 [.corrupt 0, .dup 0, .dup 0] = some r3) ∧
    r0.SameButFlights r3 ∧
    (r3.flights.map Flight.key).Perm
      (r0.flights.map Flight.key ++ (Sim.added q0 q1).filterMap (fun e => keyOfQ e.data)) :=
  ⟨q1_fate, by decide, r0_path, ⟨rfl, rfl, rfl, rfl⟩, by decide⟩

end SimFatesDemo

end Anysystem
