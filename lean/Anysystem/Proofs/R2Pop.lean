import Anysystem.Proofs.R2Deliver
import Anysystem.Proofs.R2Offered
/-!
# Taking an offered event out of the store: the common first half of every alternative
-/
set_option linter.unusedSimpArgs false
namespace Anysystem

variable {σ : Type}

/-- rebuild `SimW'` after a step that only touches the store, the flights and the trace -/
theorem SimW'.store_step {s s2 : McSys σ} {r r2 : RState σ} {a a2 : AStore} (hw : SimW' s r a)
    (hn : s2.nodes = s.nodes) (hnet : s2.net = s.net) (hrnet : r2.net = r.net)
    (hcr : r2.crashedNodes = r.crashedNodes) (hprocs : r2.procs = r.procs)
    (htimers : r2.timers = r.timers) (htrace : r2.trace = s2.trace)
    (rep : Rep s2.events a2) (flights : r2.flights = flightsOf a2.pending)
    (timers : r.timers = timersOf a2.pending)
    (tm : ∀ id p name d, (id, Ev.timer p name d) ∈ a2.pending → amGet? (p, name) a2.tm = some id)
    (clean_msg : ∀ id m src dst o, (id, Ev.msg m src dst o) ∈ a2.pending →
      r.procCrashed src = false ∧ r.procCrashed dst = false)
    (clean_timer : ∀ id p name d, (id, Ev.timer p name d) ∈ a2.pending → r.procCrashed p = false) :
    SimW' s2 r2 a2 where
  core := hw.core.transfer hn hnet hrnet hcr rep flights (by rw [htimers]; exact timers)
    (by have := hw.core.uniq; simp only [RState.timersUnique, htimers] at this ⊢; exact this)
    tm clean_msg clean_timer
  procs := by rw [hprocs, hw.procs]; simp only [procsOf, hn]
  trace := htrace
  pend := by
    intro x hx hc pe hpe name
    rw [hn] at hx
    rw [timerPending_congr htimers]
    exact hw.pend x hx hc pe hpe name

/-- popping a pending message -/
theorem pop_msg {s : McSys σ} {r : RState σ} {a : AStore} (hs : SimS s r a) {l rest : List (Nat × Ev)}
    {id : Nat} {m : Msg} {src dst : Nat} {o : Opts}
    (hA : a.pending = l ++ (id, .msg m src dst o) :: rest) :
    ∃ st, s.events.pop {} id = .ok (st, .msg m src dst o) ∧ Rep st (a.erase id) ∧
      (a.erase id).pending = l ++ rest ∧
      r.flights[(flightsOf l).length]? = some ⟨m, src, dst, o⟩ ∧
      r.flights.eraseIdx (flightsOf l).length = flightsOf (l ++ rest) ∧
      r.timers = timersOf (l ++ rest) ∧ id ∉ keys (l ++ rest) ∧ id < a.next := by
  have hnd := hs.rep.inv.nodup
  have hmem : (id, Ev.msg m src dst o) ∈ a.pending := by rw [hA]; simp
  have hget : amGet? id a.pending = some (.msg m src dst o) := amGet?_of_mem_nodup hnd hmem
  obtain ⟨st, hpop, hrep⟩ := hs.rep.pop hget
  have hnd' := hnd
  rw [hA] at hnd'
  have her : (a.erase id).pending = l ++ rest := by
    simp only [AStore.erase, hA]
    exact filter_ne_decomp hnd'
  obtain ⟨hf, ht⟩ := flightsOf_decomp_msg l rest id m src dst o
  refine ⟨st, hpop, hrep, her, ?_, ?_, ?_, ?_, hs.rep.inv.lt_next _ hmem⟩
  · rw [hs.flights, hA, hf, getElem?_append_length_cons]
  · rw [hs.flights, hA, hf, eraseIdx_append_length_cons, flightsOf_append]
  · rw [hs.timers, hA, ht, timersOf_append]
  · have := (hs.rep.inv.filter (·.1 != id)).nodup
    intro hmem'
    simp only [keys, List.map_append, List.map_cons] at hnd'
    rw [List.nodup_append] at hnd'
    obtain ⟨_, hr, hlr⟩ := hnd'
    rw [List.nodup_cons] at hr
    simp only [keys, List.map_append, List.mem_append] at hmem'
    rcases hmem' with h | h
    · exact hlr id h id (by simp) rfl
    · exact hr.1 h

/-- popping a pending timer -/
theorem pop_timer {s : McSys σ} {r : RState σ} {a : AStore} (hs : SimS s r a) {l rest : List (Nat × Ev)}
    {id p nm dl : Nat} (hA : a.pending = l ++ (id, .timer p nm dl) :: rest) :
    ∃ st, s.events.pop {} id = .ok (st, .timer p nm dl) ∧ Rep st (a.erase id) ∧
      (a.erase id).pending = l ++ rest ∧
      r.timers[(timersOf l).length]? = some ⟨p, nm, dl⟩ ∧
      r.timers.eraseIdx (timersOf l).length = timersOf (l ++ rest) ∧
      r.flights = flightsOf (l ++ rest) ∧
      r.timers = timersOf l ++ ⟨p, nm, dl⟩ :: timersOf rest := by
  have hnd := hs.rep.inv.nodup
  have hmem : (id, Ev.timer p nm dl) ∈ a.pending := by rw [hA]; simp
  have hget : amGet? id a.pending = some (.timer p nm dl) := amGet?_of_mem_nodup hnd hmem
  obtain ⟨st, hpop, hrep⟩ := hs.rep.pop hget
  have hnd' := hnd
  rw [hA] at hnd'
  have her : (a.erase id).pending = l ++ rest := by
    simp only [AStore.erase, hA]
    exact filter_ne_decomp hnd'
  obtain ⟨ht, hf⟩ := timersOf_decomp_timer l rest id p nm dl
  refine ⟨st, hpop, hrep, her, ?_, ?_, ?_, ?_⟩
  · rw [hs.timers, hA, ht, getElem?_append_length_cons]
  · rw [hs.timers, hA, ht, eraseIdx_append_length_cons, timersOf_append]
  · rw [hs.flights, hA, hf, flightsOf_append]
  · rw [hs.timers, hA, ht]

theorem sub_of_erase {a : AStore} {l rest : List (Nat × Ev)} {id : Nat} {e : Ev}
    (hA : a.pending = l ++ (id, e) :: rest) : ∀ x ∈ l ++ rest, x ∈ a.pending := by
  intro x hx
  rw [hA]
  simp only [List.mem_append, List.mem_cons] at hx ⊢
  rcases hx with h | h
  · exact Or.inl h
  · exact Or.inr (Or.inr h)

end Anysystem
