import Anysystem.Proofs.SearchThmsOn
import Anysystem.Proofs.SearchSharedLemmas
import Anysystem.Proofs.StagedThms
import Anysystem.Proofs.C11Congr
/-!
# C16 — staged exploration with a *shared* visited cache: the union over the start states

`run_from_states` runs the strategy from every start state in turn with **one** strategy object: the visited
cache (and the collected set) survive from one start state to the next.  `searchMany` is that loop at the level of
the generic search.  With an exact cache and a key-congruent system an all-Ok staged run evaluates, up to state
identity, exactly the union of what is reachable from the start states (soundness needs nothing; completeness
is where the shared cache could have gone wrong: a state skipped because an earlier start state's run has
already seen it must have had its whole future explored by that run).
-/
set_option linter.unusedSectionVars false
set_option linter.unusedVariables false

namespace Anysystem

variable {σ κ : Type} [DecidableEq κ]

/-- the loop of `run_from_states` over the generic search: stop at the first run that is not Ok -/
def searchMany (S : TSys σ κ) (strat : Strat) (fuel : Nat) : List σ → Acc σ κ → Option (Res σ × Acc σ κ)
  | [], a => some (.ok, a)
  | s :: rest, a =>
    match search S strat fuel s a with
    | none => none
    | some (.ok, a') => searchMany S strat fuel rest a'
    | some (r, a') => some (r, a')

/-- one more Ok run on top of a closed cache keeps it closed, keeps what was evaluated, and evaluates its start state -/
theorem search_ok_binv_from (S : TSys σ κ) (strat : Strat) (fuel : Nat) (s : σ) (a a' : Acc σ κ)
    (hm : ExactCache S a.cache.mode) (hb : BInv S [] a.cache a.evald)
    (h : search S strat fuel s a = some (.ok, a')) :
    BInv S [] a'.cache a'.evald ∧ a'.cache.mode = a.cache.mode ∧ (∃ new, a'.evald = a.evald ++ new ∧ s ∈ new) :=
  search_ok_binv_from' S strat fuel s a a' hm hb h

/-- soundness of one run from any accumulator: what is newly evaluated is reachable from the start state -/
theorem search_evald_reachable_from (S : TSys σ κ) (strat : Strat) (fuel : Nat) (s : σ) (a a' : Acc σ κ) (r : Res σ)
    (h : search S strat fuel s a = some (r, a')) :
    ∃ new, a'.evald = a.evald ++ new ∧ ∀ e ∈ new, ReachC S s e :=
  search_ext S strat fuel s a a' r h

/-! ### the loop, unfolded -/

theorem searchMany_cons (S : TSys σ κ) (strat : Strat) (fuel : Nat) (s : σ) (rest : List σ) (a a' : Acc σ κ) (r : Res σ)
    (h : searchMany S strat fuel (s :: rest) a = some (r, a')) :
    ∃ r1 a1, search S strat fuel s a = some (r1, a1) ∧
      ((r1 = .ok ∧ searchMany S strat fuel rest a1 = some (r, a')) ∨ (r1 ≠ .ok ∧ r = r1 ∧ a' = a1)) := by
  simp only [searchMany] at h
  cases hse : search S strat fuel s a with
  | none => simp [hse] at h
  | some v =>
    obtain ⟨r1, a1⟩ := v
    simp only [hse] at h
    cases r1 with
    | ok => exact ⟨.ok, a1, rfl, Or.inl ⟨rfl, h⟩⟩
    | err msg e =>
      simp only [Option.some.injEq, Prod.mk.injEq] at h
      obtain ⟨rfl, rfl⟩ := h
      exact ⟨_, _, rfl, Or.inr ⟨by simp, rfl, rfl⟩⟩
    | panic msg =>
      simp only [Option.some.injEq, Prod.mk.injEq] at h
      obtain ⟨rfl, rfl⟩ := h
      exact ⟨_, _, rfl, Or.inr ⟨by simp, rfl, rfl⟩⟩

theorem searchMany_cons_ok (S : TSys σ κ) (strat : Strat) (fuel : Nat) (s : σ) (rest : List σ) (a a' : Acc σ κ)
    (h : searchMany S strat fuel (s :: rest) a = some (.ok, a')) :
    ∃ a1, search S strat fuel s a = some (.ok, a1) ∧ searchMany S strat fuel rest a1 = some (.ok, a') := by
  obtain ⟨r1, a1, h1, ⟨rfl, h2⟩ | ⟨hne, rfl, _⟩⟩ := searchMany_cons S strat fuel s rest a a' .ok h
  · exact ⟨a1, h1, h2⟩
  · exact absurd rfl hne

/-- the staged run from any accumulator extends `evald` by states reachable from the start states -/
theorem searchMany_ext (S : TSys σ κ) (strat : Strat) (fuel : Nat) :
    ∀ (starts : List σ) (a0 a : Acc σ κ) (r : Res σ), searchMany S strat fuel starts a0 = some (r, a) →
      ∃ new, a.evald = a0.evald ++ new ∧ ∀ e ∈ new, ∃ s ∈ starts, ReachC S s e := by
  intro starts
  induction starts with
  | nil =>
    intro a0 a r h
    simp only [searchMany, Option.some.injEq, Prod.mk.injEq] at h
    obtain ⟨_, rfl⟩ := h
    exact ⟨[], by simp, by simp⟩
  | cons s rest ih =>
    intro a0 a r h
    obtain ⟨r1, a1, h1, ⟨_, h2⟩ | ⟨_, _, rfl⟩⟩ := searchMany_cons S strat fuel s rest a0 a r h
    · obtain ⟨new1, e1, g1⟩ := search_ext S strat fuel s a0 a1 r1 h1
      obtain ⟨new2, e2, g2⟩ := ih a1 a r h2
      refine ⟨new1 ++ new2, by rw [e2, e1, List.append_assoc], ?_⟩
      intro e he
      rcases List.mem_append.mp he with he | he
      · exact ⟨s, List.mem_cons_self .., g1 e he⟩
      · obtain ⟨s', hs', hr⟩ := g2 e he
        exact ⟨s', List.mem_cons_of_mem _ hs', hr⟩
    · obtain ⟨new1, e1, g1⟩ := search_ext S strat fuel s a0 a r1 h1
      exact ⟨new1, e1, fun e he => ⟨s, List.mem_cons_self .., g1 e he⟩⟩

/-- an all-Ok staged run on top of a closed exact cache keeps it closed and evaluates every start state -/
theorem searchMany_ok_binv (S : TSys σ κ) (strat : Strat) (fuel : Nat) :
    ∀ (starts : List σ) (a0 a : Acc σ κ), ExactCache S a0.cache.mode → BInv S [] a0.cache a0.evald →
      searchMany S strat fuel starts a0 = some (.ok, a) →
      BInv S [] a.cache a.evald ∧ a.cache.mode = a0.cache.mode ∧
        ∃ new, a.evald = a0.evald ++ new ∧ ∀ s ∈ starts, s ∈ new := by
  intro starts
  induction starts with
  | nil =>
    intro a0 a hm hb h
    simp only [searchMany, Option.some.injEq, Prod.mk.injEq] at h
    obtain ⟨_, rfl⟩ := h
    exact ⟨hb, rfl, [], by simp, by simp⟩
  | cons s rest ih =>
    intro a0 a hm hb h
    obtain ⟨a1, h1, h2⟩ := searchMany_cons_ok S strat fuel s rest a0 a h
    obtain ⟨hb1, hm1, new1, e1, g1⟩ := search_ok_binv_from S strat fuel s a0 a1 hm hb h1
    obtain ⟨hb2, hm2, new2, e2, g2⟩ := ih a1 a (by rw [hm1]; exact hm) hb1 h2
    refine ⟨hb2, hm2.trans hm1, new1 ++ new2, by rw [e2, e1, List.append_assoc], ?_⟩
    intro x hx
    rcases List.mem_cons.mp hx with rfl | hx
    · exact List.mem_append_left _ g1
    · exact List.mem_append_right _ (g2 x hx)

/-- an all-Ok staged run without a cache: `evald` stays closed under the successors of expanded states and contains
    every start state -/
theorem searchMany_ok_closedD (S : TSys σ κ) (strat : Strat) (fuel : Nat) :
    ∀ (starts : List σ) (a0 a : Acc σ κ), a0.cache.mode = .disabled → ClosedD S a0.evald →
      searchMany S strat fuel starts a0 = some (.ok, a) →
      ClosedD S a.evald ∧ (∀ s ∈ starts, s ∈ a.evald) ∧ a.cache.mode = .disabled := by
  intro starts
  induction starts with
  | nil =>
    intro a0 a hm hc h
    simp only [searchMany, Option.some.injEq, Prod.mk.injEq] at h
    obtain ⟨_, rfl⟩ := h
    exact ⟨hc, by simp, hm⟩
  | cons s rest ih =>
    intro a0 a hm hc h
    obtain ⟨a1, h1, h2⟩ := searchMany_cons_ok S strat fuel s rest a0 a h
    obtain ⟨hc1, hs1, hm1⟩ := search_ok_closedD_from S strat fuel s a0 a1 hm hc h1
    obtain ⟨hc2, hs2, hm2⟩ := ih a1 a hm1 hc1 h2
    obtain ⟨new, e2, _⟩ := searchMany_ext S strat fuel rest a1 a .ok h2
    refine ⟨hc2, ?_, hm2⟩
    intro x hx
    rcases List.mem_cons.mp hx with rfl | hx
    · rw [e2]; exact List.mem_append_left _ hs1
    · exact hs2 x hx

/-- the union, cache disabled: every state reachable from a start state is itself evaluated -/
theorem searchMany_ok_union_disabled (S : TSys σ κ) (strat : Strat) (fuel : Nat) (starts : List σ) (a : Acc σ κ)
    (h : searchMany S strat fuel starts (Acc.fresh .disabled) = some (.ok, a)) :
    ∀ s ∈ starts, ∀ x, ReachC S s x → x ∈ a.evald ∧ isFail (S.verdict x) = false := by
  obtain ⟨hc, hs, _⟩ := searchMany_ok_closedD S strat fuel starts _ a rfl
    (by intro e he; simp [Acc.fresh] at he) h
  intro s hsm
  exact exhaustive_of_closedD hc (hs s hsm)

/-- **soundness of the staged run**: every evaluated state is reachable from one of the start states -/
theorem searchMany_evald_reachable (S : TSys σ κ) (strat : Strat) (mode : CacheMode) (fuel : Nat) (starts : List σ)
    (r : Res σ) (a : Acc σ κ) (h : searchMany S strat fuel starts (Acc.fresh mode) = some (r, a)) :
    ∀ e ∈ a.evald, ∃ s ∈ starts, ReachC S s e := by
  obtain ⟨new, e1, g⟩ := searchMany_ext S strat fuel starts _ a r h
  intro e he
  rw [e1] at he
  exact g e (by simpa [Acc.fresh] using he)

/-- **the union, shared exact cache**: an all-Ok staged run has evaluated, for every start state, a representative of
    every state reachable from it, and none of those states fails -/
theorem searchMany_ok_union (S : TSys σ κ) (Inv : σ → Prop) (hc : CongruentOn S Inv) (hcl : InvClosed S Inv)
    (strat : Strat) (mode : CacheMode) (hm : ExactCache S mode) (fuel : Nat) (starts : List σ)
    (hstarts : ∀ s ∈ starts, Inv s) (a : Acc σ κ)
    (h : searchMany S strat fuel starts (Acc.fresh mode) = some (.ok, a)) :
    ∀ s ∈ starts, ∀ x, ReachC S s x → (∃ e ∈ a.evald, S.key e = S.key x) ∧ isFail (S.verdict x) = false := by
  obtain ⟨hb, _, new, e1, g⟩ := searchMany_ok_binv S strat fuel starts (Acc.fresh mode) a hm (binv_fresh S mode hm) h
  have hE : ∀ e ∈ a.evald, Inv e := by
    intro e he
    obtain ⟨s, hs, hr⟩ := searchMany_evald_reachable S strat mode fuel starts .ok a h e he
    exact inv_of_reachC hcl (hstarts s hs) hr
  intro s hs
  exact exhaustive_of_binv hc hcl (hstarts s hs) hE hb (by rw [e1]; exact List.mem_append_right _ (g s hs))

/-- the set of evaluated keys of an all-Ok staged run is therefore determined by the start states alone: two staged
    runs (any strategies, any exact cache modes, any order of the start states) evaluate the same set of keys -/
theorem searchMany_same_keys (S : TSys σ κ) (Inv : σ → Prop) (hc : CongruentOn S Inv) (hcl : InvClosed S Inv)
    (st₁ st₂ : Strat) (m₁ m₂ : CacheMode) (hm₁ : ExactCache S m₁) (hm₂ : ExactCache S m₂) (f₁ f₂ : Nat)
    (starts₁ starts₂ : List σ) (hperm : ∀ s, s ∈ starts₁ ↔ s ∈ starts₂) (hstarts : ∀ s ∈ starts₁, Inv s)
    (a₁ a₂ : Acc σ κ)
    (h₁ : searchMany S st₁ f₁ starts₁ (Acc.fresh m₁) = some (.ok, a₁))
    (h₂ : searchMany S st₂ f₂ starts₂ (Acc.fresh m₂) = some (.ok, a₂)) :
    ∀ k, k ∈ a₁.evald.map S.key ↔ k ∈ a₂.evald.map S.key := by
  have hstarts₂ : ∀ s ∈ starts₂, Inv s := fun s hs => hstarts s ((hperm s).2 hs)
  intro k
  constructor
  · intro hk
    obtain ⟨e, he, rfl⟩ := List.mem_map.mp hk
    obtain ⟨s, hs, hr⟩ := searchMany_evald_reachable S st₁ m₁ f₁ starts₁ .ok a₁ h₁ e he
    obtain ⟨⟨e', he', hk'⟩, _⟩ :=
      searchMany_ok_union S Inv hc hcl st₂ m₂ hm₂ f₂ starts₂ hstarts₂ a₂ h₂ s ((hperm s).1 hs) e hr
    exact List.mem_map.mpr ⟨e', he', hk'⟩
  · intro hk
    obtain ⟨e, he, rfl⟩ := List.mem_map.mp hk
    obtain ⟨s, hs, hr⟩ := searchMany_evald_reachable S st₂ m₂ f₂ starts₂ .ok a₂ h₂ e he
    obtain ⟨⟨e', he', hk'⟩, _⟩ :=
      searchMany_ok_union S Inv hc hcl st₁ m₁ hm₁ f₁ starts₁ hstarts a₁ h₁ s ((hperm s).2 hs) e hr
    exact List.mem_map.mpr ⟨e', he', hk'⟩

/-- the same holds against the cache-less staged run (which evaluates every path from every start state) -/
theorem searchMany_same_keys_disabled (S : TSys σ κ) (Inv : σ → Prop) (hc : CongruentOn S Inv) (hcl : InvClosed S Inv)
    (st₁ st₂ : Strat) (m₁ : CacheMode) (hm₁ : ExactCache S m₁) (f₁ f₂ : Nat)
    (starts : List σ) (hstarts : ∀ s ∈ starts, Inv s) (a₁ a₂ : Acc σ κ)
    (h₁ : searchMany S st₁ f₁ starts (Acc.fresh m₁) = some (.ok, a₁))
    (h₂ : searchMany S st₂ f₂ starts (Acc.fresh .disabled) = some (.ok, a₂)) :
    ∀ k, k ∈ a₁.evald.map S.key ↔ k ∈ a₂.evald.map S.key := by
  intro k
  constructor
  · intro hk
    obtain ⟨e, he, rfl⟩ := List.mem_map.mp hk
    obtain ⟨s, hs, hr⟩ := searchMany_evald_reachable S st₁ m₁ f₁ starts .ok a₁ h₁ e he
    exact List.mem_map_of_mem (searchMany_ok_union_disabled S st₂ f₂ starts a₂ h₂ s hs e hr).1
  · intro hk
    obtain ⟨e, he, rfl⟩ := List.mem_map.mp hk
    obtain ⟨s, hs, hr⟩ := searchMany_evald_reachable S st₂ .disabled f₂ starts .ok a₂ h₂ e he
    obtain ⟨⟨e', he', hk'⟩, _⟩ :=
      searchMany_ok_union S Inv hc hcl st₁ m₁ hm₁ f₁ starts hstarts a₁ h₁ s hs e hr
    exact List.mem_map.mpr ⟨e', he', hk'⟩

/-- "the same states a single run passing through them reaches": if the start states are states a single Ok run from
    `s₀` has evaluated, the staged run evaluates only keys that single run has evaluated too -/
theorem searchMany_within_single_run (S : TSys σ κ) (Inv : σ → Prop) (hc : CongruentOn S Inv) (hcl : InvClosed S Inv)
    (st₁ st₂ : Strat) (m₁ m₂ : CacheMode) (hm₁ : ExactCache S m₁) (hm₂ : ExactCache S m₂) (f₁ f₂ : Nat)
    (s₀ : σ) (h0 : Inv s₀) (a₀ : Acc σ κ) (hsingle : search S st₁ f₁ s₀ (Acc.fresh m₁) = some (.ok, a₀))
    (starts : List σ) (hsub : ∀ s ∈ starts, s ∈ a₀.evald) (a : Acc σ κ)
    (h : searchMany S st₂ f₂ starts (Acc.fresh m₂) = some (.ok, a)) :
    ∀ k, k ∈ a.evald.map S.key → k ∈ a₀.evald.map S.key := by
  intro k hk
  obtain ⟨e, he, rfl⟩ := List.mem_map.mp hk
  obtain ⟨s, hs, hr⟩ := searchMany_evald_reachable S st₂ m₂ f₂ starts .ok a h e he
  have hs0 : ReachC S s₀ s := search_evald_reachable S st₁ m₁ f₁ s₀ .ok a₀ hsingle s (hsub s hs)
  obtain ⟨⟨e', he', hk'⟩, _⟩ :=
    search_ok_exhaustive_inv S Inv hc hcl st₁ m₁ hm₁ f₁ s₀ h0 a₀ hsingle e (hs0.trans hr)
  exact List.mem_map.mpr ⟨e', he', hk'⟩

/-! ## the model checker's `run_from_states` is `searchMany` -/

variable {τ : Type} [DecidableEq τ]

/-- the loop of `run_from_states` from any intermediate system of the right shape and mode, any shared cache and any
    totals, against `searchMany` from an accumulator with that cache that has evaluated what the totals list -/
theorem go_is_searchMany (h : Handler τ) (p : Preds τ) (hash : McSys.Key τ → Nat) (strat : Strat) (fuel : Nat)
    (sys : McSys τ) (cb : McSys τ → R (McSys τ))
    (hcb : ∀ a b, SortedTopo a → cb a = .ok b → SameShape a b ∧ SortedTopo b) :
    ∀ (starts : List (McSys.Snapshot τ)) (cur : McSys τ) (cache : Cache (McSys.Key τ)) (tot tot' : Totals τ)
      (sys' : McSys τ) (a0 : Acc (McSys τ) (McSys.Key τ)),
      (∀ st ∈ starts, ∃ s₀ : McSys τ, SameShape sys s₀ ∧ SortedTopo s₀ ∧ st = s₀.getState) →
      SameShape sys cur → cur.mode = sys.mode → a0.cache = cache → a0.evald = tot.evald →
      runFromStates.go {} h p hash strat fuel cb sys.getState starts cur cache tot = some (.ok, tot', sys') →
      ∃ (ss : List (McSys τ)) (a : Acc (McSys τ) (McSys.Key τ)), ss.length = starts.length ∧
        (∀ i (hi : i < starts.length) (hj : i < ss.length),
          cb { (sys.setState starts[i]) with trace := (sys.setState starts[i]).trace ++ [LogE.started] } = .ok ss[i]) ∧
        searchMany (mcTSys {} h p hash) strat fuel ss a0 = some (.ok, a) ∧ tot'.evald = a.evald := by
  intro starts
  induction starts with
  | nil =>
    intro cur cache tot tot' sys' a0 _ _ _ _ hev hrun
    simp only [runFromStates.go, Option.some.injEq, Prod.mk.injEq] at hrun
    refine ⟨[], a0, rfl, ?_, rfl, by rw [← hrun.2.1, hev]⟩
    intro i hi; simp at hi
  | cons st rest ih =>
    intro cur cache tot tot' sys' a0 hstarts hsc hm hca hev hrun
    obtain ⟨s₀, h0, hs0, rfl⟩ := hstarts st List.mem_cons_self
    simp only [runFromStates.go] at hrun
    cases hri : runImpl {} h p hash strat fuel (cur.setState s₀.getState) cb { cache := cache } with
    | none => simp [hri] at hrun
    | some v =>
      obtain ⟨r1, acc, cur'⟩ := v
      simp only [hri] at hrun
      have hst := setState_start_eq sys cur s₀ hsc hm h0 hs0
      obtain ⟨f1, f2, f3⟩ := setState_start_facts sys s₀ h0 hs0
      have hcur' : cur' = cur.setState s₀.getState :=
        runImpl_restores h p hash strat fuel _ cur' cb _ acc r1 (hst ▸ f2) hcb hri
      have hsc' : SameShape sys cur' := by rw [hcur', hst]; exact f1
      have hm' : cur'.mode = sys.mode := by rw [hcur', hst]; exact f3
      cases r1 with
      | err msg e => simp at hrun
      | panic msg => simp at hrun
      | ok =>
        simp only at hrun
        rw [hst] at hri
        cases hcb0 : cb { (sys.setState s₀.getState) with
            trace := (sys.setState s₀.getState).trace ++ [LogE.started] } with
        | error err => simp [runImpl, hcb0] at hri
        | ok t₀ =>
          have hse := runImpl_is_search h p hash strat fuel _ cur' t₀ cb _ acc .ok hcb0 hri
          obtain ⟨a1, hse1, hc1, he1⟩ := search_of_sim (mcTSys {} h p hash) a0.evald strat fuel t₀ a0
            { cache := cache } acc .ok ⟨hca, (List.append_nil _).symm⟩ hse
          obtain ⟨ss, a, hlen, hcbs, hsm, hfin⟩ :=
            ih cur' acc.cache _ tot' sys' a1 (fun st hst => hstarts st (List.mem_cons_of_mem _ hst)) hsc' hm' hc1
              (by rw [he1, hev]) hrun
          refine ⟨t₀ :: ss, a, by simp [hlen], ?_, ?_, hfin⟩
          · intro i hi hj
            cases i with
            | zero => exact hcb0
            | succ i =>
              simp only [List.getElem_cons_succ]
              exact hcbs i (by simpa using hi) (by simpa using hj)
          · simp only [searchMany, hse1]
            exact hsm

/-- an all-Ok `run_from_states` (any cache mode) evaluates what `searchMany` evaluates from the start states after
    `McStarted` and the callback -/
theorem runFromStates_is_searchMany (h : Handler τ) (p : Preds τ) (hash : McSys.Key τ → Nat) (strat : Strat) (fuel : Nat)
    (sys sys' : McSys τ) (cb : McSys τ → R (McSys τ)) (mode : CacheMode) (starts : List (McSys.Snapshot τ)) (tot : Totals τ)
    (hs : SortedTopo sys) (hcb : ∀ a b, SortedTopo a → cb a = .ok b → SameShape a b ∧ SortedTopo b)
    (hstarts : ∀ st ∈ starts, ∃ s₀ : McSys τ, SameShape sys s₀ ∧ SortedTopo s₀ ∧ st = s₀.getState)
    (hrun : runFromStates {} h p hash strat fuel sys cb mode starts = some (.ok, tot, sys')) :
    ∃ (ss : List (McSys τ)) (a : Acc (McSys τ) (McSys.Key τ)), ss.length = starts.length ∧
      (∀ i (hi : i < starts.length) (hj : i < ss.length),
        cb { (sys.setState starts[i]) with trace := (sys.setState starts[i]).trace ++ [LogE.started] } = .ok ss[i]) ∧
      searchMany (mcTSys {} h p hash) strat fuel ss (Acc.fresh mode) = some (.ok, a) ∧ tot.evald = a.evald :=
  go_is_searchMany h p hash strat fuel sys cb hcb starts sys { mode := mode } {} tot sys' (Acc.fresh mode) hstarts
    (SameShape.refl _) rfl rfl rfl hrun

/-- **C16, shared cache**: an all-Ok `run_from_states` with the Full cache (or the Partial cache with an injective hash)
    and state-based predicates has evaluated, for every start state, a representative of every state reachable from it
    after the callback, provided the post-callback start states are good states of one network/mode (C11's invariant) -/
theorem runFromStates_ok_union (h : Handler τ) (p : Preds τ) (hp : KeyBased p) (hash : McSys.Key τ → Nat) (strat : Strat)
    (fuel : Nat) (sys sys' : McSys τ) (cb : McSys τ → R (McSys τ)) (mode : CacheMode)
    (hm : ExactCache (mcTSys {} h p hash) mode) (starts : List (McSys.Snapshot τ)) (tot : Totals τ)
    (net : McNet) (md : Mode)
    (hs : SortedTopo sys) (hcb : ∀ a b, SortedTopo a → cb a = .ok b → SameShape a b ∧ SortedTopo b)
    (hstarts : ∀ st ∈ starts, ∃ s₀ : McSys τ, SameShape sys s₀ ∧ SortedTopo s₀ ∧ st = s₀.getState)
    (hgood : ∀ st ∈ starts, ∀ s₀, cb { (sys.setState st) with trace := (sys.setState st).trace ++ [LogE.started] } = .ok s₀ →
      GoodState h net md s₀)
    (hrun : runFromStates {} h p hash strat fuel sys cb mode starts = some (.ok, tot, sys')) :
    ∀ st ∈ starts, ∀ s₀, cb { (sys.setState st) with trace := (sys.setState st).trace ++ [LogE.started] } = .ok s₀ →
      ∀ x, ReachC (mcTSys {} h p hash) s₀ x → ∃ e ∈ tot.evald, e.key = x.key := by
  obtain ⟨ss, a, hlen, hcbs, hsm, hev⟩ :=
    runFromStates_is_searchMany h p hash strat fuel sys sys' cb mode starts tot hs hcb hstarts hrun
  have hss : ∀ s ∈ ss, GoodState h net md s := by
    intro s hsm'
    obtain ⟨i, hi, rfl⟩ := List.getElem_of_mem hsm'
    have hi' : i < starts.length := by rw [← hlen]; exact hi
    exact hgood starts[i] (List.getElem_mem hi') ss[i] (hcbs i hi' hi)
  intro st hst s₀ hcb0 x hx
  obtain ⟨i, hi, rfl⟩ := List.getElem_of_mem hst
  have hi' : i < ss.length := by rw [hlen]; exact hi
  have h1 := hcbs i hi hi'
  rw [hcb0] at h1
  have h2 : s₀ = ss[i] := by injection h1
  obtain ⟨⟨e, he, hk⟩, _⟩ := searchMany_ok_union (mcTSys {} h p hash) (GoodState h net md)
    (mcTSys_congruentOn h p hp hash net md) (goodState_closed h p hash net md) strat mode hm fuel ss hss a hsm
    s₀ (by rw [h2]; exact List.getElem_mem hi') x hx
  exact ⟨e, by rw [hev]; exact he, hk⟩

/-! ## non-vacuity: a concrete three-state system -/

section Example

/-- `0 → 1 → 2`, the key is the state, everything continues except a stop at `2` -/
def exTSys : TSys Nat Nat :=
  { succ := fun n => if n < 2 then .ok [n + 1] else .ok [],
    key := id,
    verdict := fun n => if n = 2 then .stop "done" else .cont,
    collect := fun _ => false,
    hash := id }

/-- the staged run from `[0, 1]` with the shared Full cache is all-Ok; the second run re-evaluates its start state `1`
    (already seen by the first run) and skips `2` -/
example : ∃ a, searchMany exTSys .dfs 10 [0, 1] (Acc.fresh .full) = some (.ok, a) ∧ a.evald = [0, 1, 2, 1] :=
  ⟨_, rfl, rfl⟩

example : ∃ a, searchMany exTSys .bfs 10 [0, 1] (Acc.fresh .full) = some (.ok, a) ∧ a.evald = [0, 1, 2, 1] :=
  ⟨_, rfl, rfl⟩

theorem exTSys_congruentOn : CongruentOn exTSys (fun _ => True) := by
  intro a b _ _ hk
  have : a = b := hk
  subst this
  exact ⟨rfl, rfl, fun ca hca => ⟨ca, hca, rfl⟩, fun e he => ⟨e, he⟩⟩

theorem exTSys_invClosed : InvClosed exTSys (fun _ => True) := invClosed_true exTSys

/-- the hypotheses of `searchMany_ok_union` are jointly satisfiable -/
example : ∀ s ∈ [0, 1], ∀ x, ReachC exTSys s x →
    (∃ e ∈ [0, 1, 2, 1], exTSys.key e = exTSys.key x) ∧ isFail (exTSys.verdict x) = false :=
  searchMany_ok_union exTSys (fun _ => True) exTSys_congruentOn exTSys_invClosed .dfs .full (Or.inl rfl) 10 [0, 1]
    (fun _ _ => trivial) _ (rfl : searchMany exTSys .dfs 10 [0, 1] (Acc.fresh .full) = some (.ok, _))

end Example

end Anysystem

#print axioms Anysystem.searchMany_ok_union
#print axioms Anysystem.searchMany_same_keys
#print axioms Anysystem.runFromStates_ok_union
#print axioms Anysystem.search_ok_binv_from
#print axioms Anysystem.search_evald_reachable_from
#print axioms Anysystem.searchMany_evald_reachable
#print axioms Anysystem.searchMany_same_keys_disabled
#print axioms Anysystem.searchMany_within_single_run
#print axioms Anysystem.runFromStates_is_searchMany
