import Anysystem.Spec.StoreSpec
import Anysystem.Proofs.AssocLemmas
/-!
# Spec-level lemmas: the invariant of the abstract store and the offered set
-/
namespace Anysystem

theorem lookup_eq_amGet? {β : Type} (l : List (Nat × β)) (k : Nat) : l.lookup k = amGet? k l := by
  induction l with
  | nil => simp [amGet?]
  | cons x xs ih =>
    obtain ⟨k', v⟩ := x
    simp only [List.lookup_cons, amGet?, ih]
    by_cases h : k = k'
    · subst h; simp
    · have : (k == k') = false := by simpa using h
      simp [this, h]

/-- keys of an assoc list -/
abbrev keys {β : Type} (l : List (Nat × β)) : List Nat := l.map (·.1)

/-- Invariant of the abstract pending list. -/
structure PInv (A : List (Nat × Ev)) (n : Nat) : Prop where
  nodup : (keys A).Nodup
  lt_next : ∀ x ∈ A, x.1 < n
  kinds : ∀ x ∈ A, x.2.isMsg = true ∨ x.2.isTimer = true
  timerOrd : A.Pairwise (fun x y => y.2.isTimer = true → x.1 < y.1)

theorem PInv.nil : PInv [] 0 := ⟨by simp, by simp, by simp, List.Pairwise.nil⟩

theorem PInv.filter {A n} (h : PInv A n) (q : Nat × Ev → Bool) : PInv (A.filter q) n where
  nodup := h.nodup.sublist (List.Sublist.map _ List.filter_sublist)
  lt_next := fun x hx => h.lt_next x (List.mem_filter.mp hx).1
  kinds := fun x hx => h.kinds x (List.mem_filter.mp hx).1
  timerOrd := h.timerOrd.filter q

theorem PInv.append {A n} (h : PInv A n) (id : Nat) (e : Ev) (n' : Nat)
    (hk : e.isMsg = true ∨ e.isTimer = true) (hfresh : id ∉ keys A) (hid : id < n') (hn : n ≤ n')
    (ht : e.isTimer = true → ∀ x ∈ A, x.1 < id) : PInv (A ++ [(id, e)]) n' where
  nodup := by
    simp only [keys, List.map_append, List.map_cons, List.map_nil]
    rw [List.nodup_append]
    refine ⟨h.nodup, by simp, ?_⟩
    intro a ha b hb
    simp only [List.mem_singleton] at hb
    subst hb
    intro e; subst e; exact hfresh ha
  lt_next := by
    intro x hx
    simp only [List.mem_append, List.mem_singleton] at hx
    rcases hx with hx | rfl
    · exact Nat.lt_of_lt_of_le (h.lt_next x hx) hn
    · exact hid
  kinds := by
    intro x hx
    simp only [List.mem_append, List.mem_singleton] at hx
    rcases hx with hx | rfl
    · exact h.kinds x hx
    · exact hk
  timerOrd := by
    rw [List.pairwise_append]
    refine ⟨h.timerOrd, by simp, ?_⟩
    intro x hx y hy
    simp only [List.mem_singleton] at hy
    subst hy
    intro hy
    exact ht hy x hx

theorem not_live_iff (a : AStore) (id : Nat) : a.live id = false ↔ id ∉ keys a.pending := by
  simp only [AStore.live, keys, List.mem_map, not_exists, not_and]
  rw [Bool.eq_false_iff]
  simp only [ne_eq, List.any_eq_true, beq_iff_eq, not_exists, not_and]

/-- the abstract step relation preserves the invariant -/
theorem PInv.step {a a' : AStore} {op : Op} {o : Out} (h : PInv a.pending a.next)
    (hs : a.step op = some (a', o)) : PInv a'.pending a'.next := by
  cases op with
  | push e =>
    simp only [AStore.step] at hs
    split at hs
    · rename_i hm
      simp only [Option.some.injEq, Prod.mk.injEq] at hs
      obtain ⟨rfl, _⟩ := hs
      refine h.append _ _ _ (Or.inl hm) ?_ (Nat.lt_succ_self _) (Nat.le_succ _) ?_
      · intro hmem
        obtain ⟨x, hx, hxe⟩ := List.mem_map.mp hmem
        have := h.lt_next x hx
        omega
      · intro _ x hx; exact h.lt_next x hx
    · split at hs
      · simp only [Option.some.injEq, Prod.mk.injEq] at hs
        obtain ⟨rfl, _⟩ := hs
        refine h.append _ _ _ (Or.inr rfl) ?_ (Nat.lt_succ_self _) (Nat.le_succ _) ?_
        · intro hmem
          obtain ⟨x, hx, hxe⟩ := List.mem_map.mp hmem
          have := h.lt_next x hx
          omega
        · intro _ x hx; exact h.lt_next x hx
      · simp at hs
  | reinsert e id =>
    simp only [AStore.step] at hs
    split at hs
    · rename_i hc
      simp only [Bool.and_eq_true, Bool.not_eq_eq_eq_not, Bool.not_true, decide_eq_true_eq] at hc
      simp only [Option.some.injEq, Prod.mk.injEq] at hs
      obtain ⟨rfl, _⟩ := hs
      refine h.append _ _ _ (Or.inl hc.1.1) ((not_live_iff a id).mp hc.1.2) hc.2 (Nat.le_refl _) ?_
      intro ht
      have hm := hc.1.1
      cases e <;> simp_all [Ev.isMsg, Ev.isTimer]
    · simp at hs
  | pop id =>
    simp only [AStore.step] at hs
    split at hs
    · simp only [Option.some.injEq, Prod.mk.injEq] at hs
      obtain ⟨rfl, _⟩ := hs
      exact h.filter _
    · simp at hs
  | cancelTimer p n =>
    simp only [AStore.step] at hs
    split at hs
    · simp only [Option.some.injEq, Prod.mk.injEq] at hs
      obtain ⟨rfl, _⟩ := hs
      exact h
    · simp only [Option.some.injEq, Prod.mk.injEq] at hs
      obtain ⟨rfl, _⟩ := hs
      exact h.filter _
  | cancelProc p =>
    simp only [AStore.step, Option.some.injEq, Prod.mk.injEq] at hs
    obtain ⟨rfl, _⟩ := hs
    exact h.filter _

theorem PInv.run {a a' : AStore} {ops : List Op} {os : List Out} (h : PInv a.pending a.next)
    (hs : a.run ops = some (a', os)) : PInv a'.pending a'.next := by
  induction ops generalizing a os with
  | nil =>
    simp only [AStore.run, Option.some.injEq, Prod.mk.injEq] at hs
    obtain ⟨rfl, _⟩ := hs
    exact h
  | cons op ops ih =>
    simp only [AStore.run] at hs
    split at hs
    · simp at hs
    · rename_i a1 o1 hstep
      split at hs
      · simp at hs
      · rename_i a2 os2 hrun
        simp only [Option.some.injEq, Prod.mk.injEq] at hs
        obtain ⟨rfl, _⟩ := hs
        exact ih (h.step hstep) hrun

theorem PInv.of_run {a : AStore} {ops : List Op} {os : List Out}
    (hs : AStore.run {} ops = some (a, os)) : PInv a.pending a.next :=
  PInv.run (a := {}) PInv.nil hs

/-! ## The offered set -/

theorem offeredFrom_subset (pre A : List (Nat × Ev)) : ∀ i ∈ offeredFrom pre A, i ∈ keys A := by
  induction A generalizing pre with
  | nil => simp [offeredFrom]
  | cons x rest ih =>
    intro i hi
    simp only [offeredFrom, List.mem_append] at hi
    rcases hi with hi | hi
    · split at hi
      · simp at hi
      · simp only [List.mem_singleton] at hi
        simp [hi]
    · have := ih _ i hi
      simp only [keys, List.map_cons, List.mem_cons]
      exact Or.inr this

/-- with unique ids: an id is offered iff nothing before it blocks it -/
theorem mem_offeredFrom_decomp (pre l r : List (Nat × Ev)) (i : Nat) (e : Ev)
    (hnd : (keys (l ++ (i, e) :: r)).Nodup) :
    i ∈ offeredFrom pre (l ++ (i, e) :: r) ↔ ∀ y ∈ pre ++ l, blocks y.2 e = false := by
  induction l generalizing pre with
  | nil =>
    simp only [List.nil_append, offeredFrom, List.mem_append, List.append_nil]
    simp only [keys, List.nil_append, List.map_cons, List.nodup_cons] at hnd
    have hnot : i ∉ offeredFrom (pre ++ [(i, e)]) r := fun hm => hnd.1 (offeredFrom_subset _ _ _ hm)
    constructor
    · rintro (h | h)
      · split at h
        · simp at h
        · rename_i hany
          intro y hy
          simp only [List.any_eq_true, not_exists, not_and, Bool.not_eq_true] at hany
          exact hany y hy
      · exact absurd h hnot
    · intro h
      left
      have : (pre.any fun y => blocks y.2 e) = false := by
        rw [List.any_eq_false]
        intro y hy
        simp [h y hy]
      simp [this]
  | cons x l ih =>
    simp only [keys, List.cons_append, List.map_cons, List.nodup_cons] at hnd
    have hne : i ≠ x.1 := by
      intro e'
      apply hnd.1
      rw [← e']
      simp
    simp only [List.cons_append, offeredFrom, List.mem_append]
    have ih := ih (pre ++ [x]) hnd.2
    constructor
    · rintro (h | h)
      · split at h
        · simp at h
        · simp only [List.mem_singleton] at h
          exact absurd h hne
      · have := ih.mp h
        intro y hy
        apply this
        simpa [List.append_assoc] using hy
    · intro h
      right
      apply ih.mpr
      intro y hy
      apply h
      simpa [List.append_assoc] using hy

theorem mem_specOffered_decomp (l r : List (Nat × Ev)) (i : Nat) (e : Ev)
    (hnd : (keys (l ++ (i, e) :: r)).Nodup) :
    i ∈ specOffered (l ++ (i, e) :: r) ↔ ∀ y ∈ l, blocks y.2 e = false := by
  simpa [specOffered] using mem_offeredFrom_decomp [] l r i e hnd

theorem amGet?_decomp {A : List (Nat × Ev)} {i : Nat} {e : Ev} (h : amGet? i A = some e) :
    ∃ l r, A = l ++ (i, e) :: r := by
  have := amGet?_eq_some_mem h
  obtain ⟨l, r, h⟩ := List.append_of_mem this
  exact ⟨l, r, h⟩

theorem specOffered_live {A : List (Nat × Ev)} {i : Nat} (h : i ∈ specOffered A) :
    ∃ e, amGet? i A = some e := by
  have := offeredFrom_subset _ _ _ h
  have := (amGet?_isSome_iff (l := A) (k := i)).mpr this
  exact Option.isSome_iff_exists.mp this

/-! ### Identical-message FIFOs -/

/-- is `x` a message with identical-message key `k`? -/
def isKey (k : Msg × Nat × Nat) (x : Nat × Ev) : Bool :=
  match x.2 with
  | .msg m s d _ => decide ((m, s, d) = k)
  | _ => false

/-- ids of the pending messages with key `k`, in insertion order -/
def fifo (A : List (Nat × Ev)) (k : Msg × Nat × Nat) : List Nat := (A.filter (isKey k)).map (·.1)

theorem blocks_msg (y : Nat × Ev) (m : Msg) (s d : Nat) (o : Opts) :
    blocks y.2 (.msg m s d o) = isKey (m, s, d) y := by
  obtain ⟨i, ev⟩ := y
  cases ev <;> simp [blocks, isKey]
  rename_i m' s' d' o'
  by_cases h1 : m' = m <;> by_cases h2 : s' = s <;> by_cases h3 : d' = d <;> simp [h1, h2, h3]

theorem fifo_subset (A : List (Nat × Ev)) (k) : ∀ i ∈ fifo A k, i ∈ keys A := by
  intro i hi
  simp only [fifo, List.mem_map, List.mem_filter] at hi
  obtain ⟨x, ⟨hx, _⟩, rfl⟩ := hi
  exact List.mem_map_of_mem hx

theorem fifo_append (A B : List (Nat × Ev)) (k) : fifo (A ++ B) k = fifo A k ++ fifo B k := by
  simp [fifo]

theorem fifo_filter (A : List (Nat × Ev)) (k) (j : Nat) :
    fifo (A.filter (·.1 != j)) k = (fifo A k).filter (· != j) := by
  simp only [fifo, List.filter_filter, List.filter_map]
  congr 1
  apply List.filter_congr
  intro x _
  simp [Bool.and_comm]

theorem fifo_nodup {A : List (Nat × Ev)} (h : (keys A).Nodup) (k) : (fifo A k).Nodup :=
  h.sublist (List.Sublist.map _ List.filter_sublist)

theorem mem_fifo {A : List (Nat × Ev)} (h : (keys A).Nodup) (k) (i : Nat) :
    i ∈ fifo A k ↔ ∃ e, amGet? i A = some e ∧ isKey k (i, e) = true := by
  simp only [fifo, List.mem_map, List.mem_filter]
  constructor
  · rintro ⟨⟨i', e⟩, ⟨hx, hk⟩, rfl⟩
    exact ⟨e, amGet?_of_mem_nodup h hx, hk⟩
  · rintro ⟨e, hg, hk⟩
    exact ⟨(i, e), ⟨amGet?_eq_some_mem hg, hk⟩, rfl⟩

/-- a pending message is offered iff it is the head of its FIFO -/
theorem offered_msg {A : List (Nat × Ev)} {n : Nat} (h : PInv A n) {i : Nat} {m : Msg} {s d : Nat}
    {o : Opts} (hg : amGet? i A = some (.msg m s d o)) :
    i ∈ specOffered A ↔ (fifo A (m, s, d)).head? = some i := by
  obtain ⟨l, r, rfl⟩ := amGet?_decomp hg
  rw [mem_specOffered_decomp l r i _ h.nodup]
  have hk : isKey (m, s, d) (i, Ev.msg m s d o) = true := by simp [isKey]
  have hf : fifo (l ++ (i, Ev.msg m s d o) :: r) (m, s, d)
      = fifo l (m, s, d) ++ i :: fifo r (m, s, d) := by
    simp [fifo, hk]
  rw [hf]
  have hnd := h.nodup
  simp only [keys, List.map_append, List.map_cons] at hnd
  rw [List.nodup_append] at hnd
  have hil : i ∉ fifo l (m, s, d) := by
    intro hm
    have := fifo_subset _ _ _ hm
    exact hnd.2.2 i this i (by simp) rfl
  constructor
  · intro hb
    have : fifo l (m, s, d) = [] := by
      simp only [fifo, List.map_eq_nil_iff, List.filter_eq_nil_iff]
      intro y hy
      rw [← blocks_msg y m s d o, hb y hy]
      simp
    simp [this]
  · intro hh y hy
    rw [blocks_msg]
    cases hfl : fifo l (m, s, d) with
    | nil =>
      simp only [fifo, List.map_eq_nil_iff, List.filter_eq_nil_iff] at hfl
      simpa using hfl y hy
    | cons z zs =>
      rw [hfl] at hh hil
      simp only [List.cons_append, List.head?_cons, Option.some.injEq] at hh
      subst hh
      simp at hil

/-- a pending timer is offered iff no pending timer of the same process with a smaller id has a
    less-or-equal delay -/
theorem offered_timer {A : List (Nat × Ev)} {n : Nat} (h : PInv A n) {i : Nat} {p nm dl : Nat}
    (hg : amGet? i A = some (.timer p nm dl)) :
    i ∈ specOffered A ↔
      ∀ b n' d', amGet? b A = some (.timer p n' d') → b < i → ¬ d' ≤ dl := by
  obtain ⟨l, r, rfl⟩ := amGet?_decomp hg
  rw [mem_specOffered_decomp l r i _ h.nodup]
  have hord := h.timerOrd
  rw [List.pairwise_append] at hord
  obtain ⟨_, hr, hlr⟩ := hord
  rw [List.pairwise_cons] at hr
  constructor
  · intro hb b n' d' hgb hlt
    have hmem := amGet?_eq_some_mem hgb
    simp only [List.mem_append, List.mem_cons, Prod.mk.injEq] at hmem
    rcases hmem with hmem | ⟨rfl, _⟩ | hmem
    · have := hb _ hmem
      simpa [blocks] using this
    · omega
    · have := hr.1 _ hmem (by simp [Ev.isTimer])
      simp only at this
      omega
  · intro hb y hy
    obtain ⟨j, ev⟩ := y
    have hlt : j < i := hlr (j, ev) hy (i, Ev.timer p nm dl) (by simp) (by simp [Ev.isTimer])
    have hgy : amGet? j (l ++ (i, Ev.timer p nm dl) :: r) = some ev :=
      amGet?_of_mem_nodup h.nodup (by simp [hy])
    cases ev <;> simp only [blocks] <;> try rfl
    rename_i p' n' d'
    by_cases hp : p' = p
    · subst hp
      have := hb j n' d' hgy hlt
      simp [this]
    · simp [hp]

/-! ### Effect of the abstract updates on lookups and on the offered set -/

theorem filter_ne_eq_amErase (A : List (Nat × Ev)) (id : Nat) :
    A.filter (·.1 != id) = amErase id A := by
  simp only [amErase]
  apply List.filter_congr
  intro x _
  by_cases h : x.1 = id <;> simp [h]

theorem amGet?_erase (A : List (Nat × Ev)) (id j : Nat) :
    amGet? j (A.filter (·.1 != id)) = if j = id then none else amGet? j A := by
  rw [filter_ne_eq_amErase, amGet?_amErase]

theorem amGet?_append_fresh {A : List (Nat × Ev)} {id : Nat} (e : Ev) (hfresh : id ∉ keys A)
    (j : Nat) : amGet? j (A ++ [(id, e)]) = if j = id then some e else amGet? j A := by
  rw [amGet?_append]
  by_cases h : j = id
  · subst h
    have : amGet? j A = none := by
      rw [amGet?_eq_none_iff]
      intro x hx e'
      exact hfresh (List.mem_map.mpr ⟨x, hx, e'⟩)
    simp [this, amGet?]
  · simp [amGet?, h]

theorem offeredFrom_append_singleton (pre A : List (Nat × Ev)) (x : Nat × Ev) :
    offeredFrom pre (A ++ [x]) =
      offeredFrom pre A ++ (if (pre ++ A).any (fun y => blocks y.2 x.2) then [] else [x.1]) := by
  induction A generalizing pre with
  | nil => simp only [offeredFrom, List.nil_append, List.append_nil]
  | cons a A ih =>
    simp only [List.cons_append, offeredFrom, ih, List.append_assoc]
    simp

theorem mem_specOffered_append (A : List (Nat × Ev)) (x : Nat × Ev) (i : Nat) :
    i ∈ specOffered (A ++ [x]) ↔
      i ∈ specOffered A ∨ (i = x.1 ∧ ∀ y ∈ A, blocks y.2 x.2 = false) := by
  simp only [specOffered, offeredFrom_append_singleton, List.nil_append, List.mem_append]
  apply or_congr Iff.rfl
  split
  · rename_i hany
    simp only [List.any_eq_true] at hany
    obtain ⟨y, hy, hb⟩ := hany
    simp only [List.not_mem_nil, false_iff, not_and]
    intro _ hall
    rw [hall y hy] at hb
    simp at hb
  · rename_i hany
    simp only [List.any_eq_true, not_exists, not_and, Bool.not_eq_true] at hany
    simp only [List.mem_singleton]
    exact ⟨fun h => ⟨h, hany⟩, fun h => h.1⟩

/-- erasing another event never blocks anything -/
theorem offered_erase_mono {A : List (Nat × Ev)} {n : Nat} (h : PInv A n) {i id : Nat}
    (hne : i ≠ id) (ho : i ∈ specOffered A) : i ∈ specOffered (A.filter (·.1 != id)) := by
  obtain ⟨e, hg⟩ := specOffered_live ho
  obtain ⟨l, r, rfl⟩ := amGet?_decomp hg
  have hnd' := (h.filter (·.1 != id)).nodup
  have hkeep : ((i, e).1 != id) = true := by simpa using hne
  simp only [List.filter_append, List.filter_cons, hkeep, ↓reduceIte] at hnd' ⊢
  rw [mem_specOffered_decomp _ _ i e hnd']
  rw [mem_specOffered_decomp _ _ i e h.nodup] at ho
  intro y hy
  exact ho y (List.mem_filter.mp hy).1

/-- erasing an event that does not block `i` does not change whether `i` is offered -/
theorem offered_erase_unrelated {A : List (Nat × Ev)} {n : Nat} (h : PInv A n) {i id : Nat}
    {e eid : Ev} (hne : i ≠ id) (hgi : amGet? i A = some e) (hgid : amGet? id A = some eid)
    (hnb : blocks eid e = false) :
    i ∈ specOffered (A.filter (·.1 != id)) ↔ i ∈ specOffered A := by
  refine ⟨?_, offered_erase_mono h hne⟩
  obtain ⟨l, r, rfl⟩ := amGet?_decomp hgi
  have hnd' := (h.filter (·.1 != id)).nodup
  have hkeep : ((i, e).1 != id) = true := by simpa using hne
  simp only [List.filter_append, List.filter_cons, hkeep, ↓reduceIte] at hnd' ⊢
  rw [mem_specOffered_decomp _ _ i e hnd', mem_specOffered_decomp _ _ i e h.nodup]
  intro ho y hy
  by_cases hy1 : y.1 = id
  · have : amGet? id (l ++ (i, e) :: r) = some y.2 :=
      amGet?_of_mem_nodup h.nodup (by rw [← hy1]; simp [hy])
    rw [hgid] at this
    simp only [Option.some.injEq] at this
    rw [← this]; exact hnb
  · exact ho y (List.mem_filter.mpr ⟨hy, by simpa using hy1⟩)

end Anysystem
