import Anysystem.Proofs.R7Defs
/-!
# R7 — the R4 lemmas for the relation `TimedRelF` (arbitrary rates)

The lemmas of `R4Lemmas` that speak about `NetRel`, `FlightRel` or the whole relation `TimedRel`, restated for `NetRelF`,
`FlightRelF`, `TimedRelF` (the proofs are those of `R4Lemmas` minus the clauses `ratesZero` and `inert`; the lemmas about
`TProcRel`, `QueueOk`, `TimerRel` are used as they are).  The `send` case, the action list and the handler tail — where
the rates matter — are in `R7Send.lean`.
-/
namespace Anysystem

set_option linter.unusedSectionVars false
set_option linter.unusedVariables false
set_option linter.unusedSimpArgs false

/-! # view -/
section R7View
variable {σ T : Type} [TimeOps T]

open Sim

theorem NetRelF.congr {bits : T → Nat} {q q' : Sim σ T} {r r' : RState σ} (hnet : q'.net.core = q.net.core)
    (hh : q'.handlers = q.handlers) (hn : NodesLike q.nodes q'.nodes) (hrn : r'.net = r.net)
    (hrc : r'.crashedNodes = r.crashedNodes) (h : NetRelF bits q r) : NetRelF bits q' r' := by
  obtain ⟨_, e5, e1, e2, e3, _, _, _, e4⟩ := SimNet.core_eq hnet
  refine ⟨?_, ?_, ?_, ?_, ?_, ?_, ?_, hn.2 h.nodesSorted⟩
  · rw [hrn, e1, e2, e3]; exact h.netFlags
  · rw [hrn, e4]; exact h.netLoc
  · intro a b ha hb
    rw [hrn, pathCut_congr hnet, hh]
    rw [hh] at ha; rw [hn.amHas] at hb
    exact h.netCut a b ha hb
  · rw [hrn, e5]; exact h.maxDelay
  · intro n; rw [hrc, hn.amHas, hh]; exact h.crashed n
  · intro p n; rw [e4, hn.amHas]; exact h.locNodes p n
  · intro n; rw [hh, hn.alive]; exact h.handlersOk n

theorem FlightRelF.congr {q q' : Sim σ T} {r r' : RState σ} (he : q'.events = q.events)
    (hcan : q'.canceled = q.canceled) (hh : q'.handlers = q.handlers)
    (hf : r'.flights = r.flights) (hn : r'.net = r.net) (h : FlightRelF q r) : FlightRelF q' r' :=
  ⟨by unfold liveKeys; rw [hf, hn, deliverable_congr he hcan hh]; exact h.perm⟩

theorem TimedRelF.sameView {bits : T → Nat} {q q' : Sim σ T} {r : RState σ} {gs : List (TimerGhost T)}
    (hv : SameView q q') (h : TimedRelF bits q r gs) : TimedRelF bits q' r gs :=
  ⟨h.net.congr hv.net hv.handlers hv.nodes rfl rfl,
   h.proc.congr (SimNet.core_procLoc hv.net) (fun n p => pvo_of_pv (hv.procs n p)) rfl,
   h.queue.congr hv.clock hv.events hv.canceled hv.eventCount hv.net,
   h.timer.congr hv.clock hv.events hv.canceled hv.handlers (fun n p => pvp_of_pv (hv.procs n p)) rfl,
   h.flights.congr hv.events hv.canceled hv.handlers rfl rfl⟩

/-- the relation does not look at the trace of the reference state -/
theorem TimedRelF.congr_r {bits : T → Nat} {q : Sim σ T} {r r' : RState σ} {gs : List (TimerGhost T)}
    (h1 : r'.procs = r.procs) (h2 : r'.crashedNodes = r.crashedNodes) (h3 : r'.flights = r.flights)
    (h4 : r'.timers = r.timers) (h5 : r'.net = r.net) (h : TimedRelF bits q r gs) : TimedRelF bits q r' gs :=
  ⟨h.net.congr rfl rfl (NodesLike.refl _) h5 h2,
   h.proc.congr rfl (fun _ _ => rfl) h1,
   h.queue,
   h.timer.congr rfl rfl rfl rfl (fun _ _ => rfl) h4,
   h.flights.congr rfl rfl rfl h3 h5⟩

end R7View

/-! # queue -/
section R7Queue
variable {σ T : Type} [TimeOps T]

open Sim

theorem FlightRelF.addEv {s s' : Sim σ T} {r r' : RState σ} {ev : QEv T} (h : FlightRelF s r)
    (hl : s'.live = s.live ++ [ev]) (hh : s'.handlers = s.handlers) (fs : List Flight)
    (hf : r'.flights = r.flights ++ fs) (hn : r'.net = r.net)
    (hkey : fs.map Flight.key = if s.handlers.contains ev.dst then (keyOfQ ev.data).toList else []) :
    FlightRelF s' r' := by
  constructor
  · obtain ⟨zs, hp, hz⟩ := h.perm
    refine ⟨zs, ?_, by rw [hn]; exact hz⟩
    unfold liveKeys at hp ⊢
    rw [deliverable_of_live_append hl hh, hf, List.map_append, List.filterMap_append, hkey]
    have hadd : (if s.handlers.contains ev.dst = true then (keyOfQ ev.data).toList else []) =
        (if s.handlers.contains ev.dst = true then [ev] else []).filterMap (fun e => keyOfQ e.data) := by
      split
      · cases hfo : keyOfQ ev.data <;> simp [List.filterMap_cons, hfo]
      · simp
    rw [hadd]
    -- (A ++ B) ~ (L ++ zs) ++ B ~ (L ++ B) ++ zs
    refine (hp.append_right _).trans ?_
    rw [List.append_assoc, List.append_assoc]
    exact List.Perm.append_left _ List.perm_append_comm

/-- the reference state puts a message in flight that the simulator has dropped at random at send time: a zombie -/
theorem FlightRelF.addZombie {s s' : Sim σ T} {r r' : RState σ} (h : FlightRelF s r)
    (hl : s'.live = s.live) (hh : s'.handlers = s.handlers) (f : Flight)
    (hf : r'.flights = r.flights ++ [f]) (hn : r'.net = r.net) (hdp : r.net.dropPos = true) :
    FlightRelF s' r' := by
  constructor
  · obtain ⟨zs, hp, hz⟩ := h.perm
    refine ⟨zs ++ [f.key], ?_, ?_⟩
    · have hd : s'.deliverable = s.deliverable := by unfold deliverable; rw [hl, hh]
      unfold liveKeys at hp ⊢
      rw [hd, hf, List.map_append, ← List.append_assoc]
      exact hp.append_right _
    · intro hfalse; rw [hn, hdp] at hfalse; cases hfalse

theorem FlightRelF.filterNone {s s' : Sim σ T} {r r' : RState σ} {P : QEv T → Bool} (h : FlightRelF s r)
    (hl : s'.live = s.live.filter P) (hh : s'.handlers = s.handlers) (hf : r'.flights = r.flights)
    (hn : r'.net = r.net)
    (hP : ∀ x ∈ s.deliverable, P x = false → ∀ mid m src sn dst dn, x.data ≠ .msg mid m src sn dst dn) :
    FlightRelF s' r' := by
  constructor
  unfold liveKeys
  rw [deliverable_of_live_filter hl hh, hf, hn, filterMap_filter_none]
  · exact h.perm
  · intro x hx hpx
    cases hd : x.data with
    | msg mid m src sn dst dn => exact absurd hd (hP x hx hpx mid m src sn dst dn)
    | timer p name => rfl

/-- a message copy leaves the queue, a flight with its (message, source, destination) triple leaves the reference
    state (`hi`: the erased flight is the first one with that triple, or any one: only the multiset matters) -/
theorem FlightRelF.popMsg {s s' : Sim σ T} {r r' : RState σ} {e : QEv T} {k : Msg × Nat × Nat} {i : Nat}
    (h : FlightRelF s r)
    (hwf : s.QueueWF) (hl : s'.live = s.live.filter (fun x => x.id != e.id)) (hh : s'.handlers = s.handlers)
    (he : e ∈ s.deliverable) (hke : keyOfQ e.data = some k) (hf : r'.flights = r.flights.eraseIdx i)
    (hn : r'.net = r.net)
    (hi : ((r.flights.eraseIdx i).map Flight.key).Perm ((r.flights.map Flight.key).erase k)) :
    FlightRelF s' r' := by
  constructor
  · obtain ⟨zs, hp, hz⟩ := h.perm
    refine ⟨zs, ?_, by rw [hn]; exact hz⟩
    unfold liveKeys at hp ⊢
    rw [deliverable_of_live_filter hl hh, hf]
    have hmem : k ∈ s.deliverable.filterMap (fun e => keyOfQ e.data) := List.mem_filterMap.2 ⟨e, he, hke⟩
    refine hi.trans ((hp.erase k).trans ?_)
    rw [List.erase_append_left _ hmem]
    exact ((perm_filterMap_erase (·.id) (fun e => keyOfQ e.data) s.deliverable
      (ids_nodup_deliverable s hwf) e he k hke).symm).append_right _

/-- some flight of the reference state carries the triple of a deliverable queued copy -/
theorem FlightRelF.key_mem {s : Sim σ T} {r : RState σ} (h : FlightRelF s r) {e : QEv T} {k : Msg × Nat × Nat}
    (he : e ∈ s.deliverable) (hke : keyOfQ e.data = some k) : k ∈ r.flights.map Flight.key := by
  obtain ⟨zs, hp, _⟩ := h.perm
  rw [hp.mem_iff]
  exact List.mem_append_left _ (List.mem_filterMap.2 ⟨e, he, hke⟩)

/-- when the reference network cannot drop there are no zombies: the flights are exactly the deliverable copies -/
theorem FlightRelF.perm_of_noDrop {s : Sim σ T} {r : RState σ} (h : FlightRelF s r) (hd : r.net.dropPos = false) :
    (r.flights.map Flight.key).Perm s.liveKeys := by
  obtain ⟨zs, hp, hz⟩ := h.perm
  rw [hz hd, List.append_nil] at hp
  exact hp

end R7Queue

/-! # reference side -/
section R7Ref
variable {σ T : Type} [TimeOps T]

open Sim

/-- from the relation and the reference-side context: the node has a handler and the process entry exists -/
theorem TimedRelF.ctx {bits : T → Nat} {s : Sim σ T} {r : RState σ} {gs : List (TimerGhost T)}
    (h : TimedRelF bits s r gs) {n p : Nat} (hc : r.Ctx n p) : n ∈ s.handlers ∧ ∃ e, s.proc? n p = some e := by
  obtain ⟨h1, h2, h3⟩ := hc
  cases hrp : amGet? p r.procs with
  | none => rw [hrp] at h2; cases h2
  | some rp =>
    obtain ⟨n', e, he⟩ := h.proc.procsBack p rp hrp
    have hl := (h.proc.procs n' p e he).2
    rw [h.net.netLoc, hl] at h1
    have hn : n' = n := Option.some.inj h1
    subst hn
    refine ⟨?_, e, he⟩
    have hhas : amHas n' s.nodes = true := h.net.locNodes p n' hl
    cases hdec : decide (n' ∈ s.handlers) with
    | true => exact of_decide_eq_true hdec
    | false =>
      exact absurd ((h.net.crashed n').2 ⟨hhas, of_decide_eq_false hdec⟩) h3

end R7Ref

/-! # primitives -/
section R7Prims
variable {σ T : Type} [TimeOps T]

open Sim

/-- the state or the outbox of a process changes on both sides -/
theorem TimedRelF.updVisible {bits : T → Nat} {s : Sim σ T} {r : RState σ} {gs : List (TimerGhost T)}
    (h : TimedRelF bits s r gs) {n p : Nat} {e : SProc σ T} (he : s.proc? n p = some e)
    (f : SProc σ T → SProc σ T) (g : RProc σ → RProc σ)
    (hfg : ∀ e : SProc σ T, (⟨(f e).st, (f e).outbox⟩ : RProc σ) = g ⟨e.st, e.outbox⟩)
    (hpend : ∀ e, (f e).pending = e.pending) :
    TimedRelF bits (s.updProc n p f)
      { r with procs := r.procs.map (fun (x : Nat × RProc σ) => if x.1 = p then (x.1, g x.2) else x) } gs :=
  ⟨NetRelF.congr (r := r) (by simp) (handlers_updProc s n p f) (nodesLike_updProc s n p f) rfl rfl h.net,
   h.proc.upd n p f g hfg he,
   h.queue.congr (by simp) (by simp) (by simp) (by simp) (by simp),
   TimerRel.congr (r := r) (by simp) (by simp) (by simp) (handlers_updProc s n p f) (pvp_updProc s n p f hpend) rfl h.timer,
   FlightRelF.congr (r := r) (by simp) (by simp) (handlers_updProc s n p f) rfl rfl h.flights⟩

/-- a message copy is queued -/
theorem TimedRelF.addMsg [LawfulTime T] {bits : T → Nat} {s s' : Sim σ T} {r r' : RState σ}
    {gs : List (TimerGhost T)} (h : TimedRelF bits s r gs) {ev : QEv T} {mid src sn dst dn : Nat} {m : Msg} {o : Opts}
    (hev : s'.events = s.events ++ [ev]) (hcan : s'.canceled = s.canceled) (hcnt : s'.eventCount = s.eventCount + 1)
    (hc : s'.clock = s.clock) (hh : s'.handlers = s.handlers) (hnet : s'.net.core = s.net.core)
    (hnodes : NodesLike s.nodes s'.nodes)
    (hp : ∀ n p, (s'.proc? n p).map pv = (s.proc? n p).map pv)
    (hid : ev.id = s.eventCount) (hdst : ev.dst = dn) (hdata : ev.data = .msg mid m src sn dst dn)
    (htime : TimeOps.le s.clock ev.time = true)
    (hld : amGet? dst s.net.procLoc = some dn) (hls : amGet? src s.net.procLoc = some sn)
    (h1 : r'.procs = r.procs) (h2 : r'.crashedNodes = r.crashedNodes) (h4 : r'.timers = r.timers)
    (h5 : r'.net = r.net)
    (h3 : r'.flights = if dn ∈ s.handlers then r.flights ++ [⟨m, src, dst, o⟩] else r.flights) :
    TimedRelF bits s' r' gs := by
  have hfresh : ev.id ∉ s.canceled := fun hin => Nat.lt_irrefl _ (hid ▸ h.queue.cancWF _ hin)
  have hl := live_of_append hev hcan hfresh
  have hloc := SimNet.core_procLoc hnet
  have hq' : QueueOk s' := h.queue.addEv hev hcan hcnt hc hnet hid htime
    (fun p name hd => by rw [hdata] at hd; cases hd)
    (fun mid' m' src' sn' dst' dn' hd => by
      rw [hdata] at hd; cases hd; exact ⟨hdst, hld, hls⟩)
  refine ⟨h.net.congr hnet hh hnodes h5 h2, h.proc.congr hloc (fun n p => pvo_of_pv (hp n p)) h1, hq', ?_, ?_⟩
  · refine h.timer.liveChange h.queue hq' h.proc hloc ?_ hh (by rw [hc]; exact LawfulTime.le_refl _)
      (fun n p => pvp_of_pv (hp n p)) h4
    intro x p name hd
    rw [hl, List.mem_append, List.mem_singleton]
    constructor
    · rintro (hx | hx)
      · exact hx
      · subst hx; rw [hdata] at hd; cases hd
    · exact Or.inl
  · refine h.flights.addEv hl hh (if dn ∈ s.handlers then [⟨m, src, dst, o⟩] else []) ?_ h5 ?_
    · rw [h3]; split <;> simp
    · rw [hdst]
      by_cases hdn : dn ∈ s.handlers
      · simp [hdn, hdata, keyOfQ, Flight.key]
      · simp [hdn]

/-- the reference state puts a message in flight that the simulator has dropped at random when it was sent -/
theorem TimedRelF.addZombie {bits : T → Nat} {s : Sim σ T} {r r' : RState σ} {gs : List (TimerGhost T)}
    (h : TimedRelF bits s r gs) (f : Flight)
    (h1 : r'.procs = r.procs) (h2 : r'.crashedNodes = r.crashedNodes) (h4 : r'.timers = r.timers)
    (h5 : r'.net = r.net) (h3 : r'.flights = r.flights ++ [f]) (hdp : r.net.dropPos = true) :
    TimedRelF bits s r' gs :=
  ⟨h.net.congr rfl rfl (NodesLike.refl _) h5 h2,
   h.proc.congr rfl (fun _ _ => rfl) h1,
   h.queue,
   h.timer.congr rfl rfl rfl rfl (fun _ _ => rfl) h4,
   h.flights.addZombie rfl rfl f h3 h5 hdp⟩

/-- `timerPending` of the reference state = the name is in the timer map of the process entry -/
theorem TimedRelF.timerPending_iff {bits : T → Nat} {s : Sim σ T} {r : RState σ} {gs : List (TimerGhost T)}
    (h : TimedRelF bits s r gs) {n p : Nat} {e : SProc σ T} (hn : n ∈ s.handlers) (he : s.proc? n p = some e)
    (name : Nat) : r.timerPending p name = true ↔ ∃ id, amGet? name e.pending = some id := by
  unfold RState.timerPending
  rw [List.any_eq_true, h.timer.timers]
  constructor
  · rintro ⟨t, ht, hpn⟩
    obtain ⟨g, hg, rfl⟩ := List.mem_map.1 ht
    simp only [TimerGhost.toPTimer, Bool.and_eq_true, beq_iff_eq] at hpn
    obtain ⟨x, hx, _, hd, _⟩ := h.timer.ghostsLive g hg
    rw [hpn.1, hpn.2] at hd
    exact ⟨x.id, (h.timer.pendMap n p e hn he name x.id).2 ⟨x, ((mem_deliverable s x).1 hx).1, rfl, hd⟩⟩
  · rintro ⟨id, hid⟩
    obtain ⟨x, hx, _, hd⟩ := (h.timer.pendMap n p e hn he name id).1 hid
    have hdst : x.dst = n := by
      have := (h.queue.timerLoc x hx p name hd).2
      rw [(h.proc.procs n p e he).2] at this
      exact (Option.some.inj this).symm
    have hxd : x ∈ s.deliverable := (mem_deliverable s x).2 ⟨hx, hdst ▸ hn⟩
    obtain ⟨g, hg, hgid⟩ := h.timer.ghostsCover x hx p name hd
    obtain ⟨x', hx', hid', hd', _⟩ := h.timer.ghostsLive g hg
    have : x' = x := live_eq_of_id s h.queue.queueWF ((mem_deliverable s x').1 hx').1 hx (hid'.trans hgid)
    subst this
    rw [hd] at hd'
    simp only [QData.timer.injEq] at hd'
    exact ⟨g.toPTimer, List.mem_map_of_mem hg, by simp [TimerGhost.toPTimer, hd'.1, hd'.2]⟩

/-- the pending timer `name` of process `p` is cancelled: its event id goes to the cancelled set, the name leaves
    the timer map -/
theorem TimedRelF.cancelTimer [LawfulTime T] {bits : T → Nat} {s s' : Sim σ T} {r : RState σ}
    {gs : List (TimerGhost T)} (h : TimedRelF bits s r gs) {n p name old : Nat} {e : SProc σ T}
    (hn : n ∈ s.handlers) (he : s.proc? n p = some e) (hold : amGet? name e.pending = some old)
    (hev : s'.events = s.events) (hcan : s'.canceled = setInsert old s.canceled) (hcnt : s'.eventCount = s.eventCount)
    (hc : s'.clock = s.clock) (hh : s'.handlers = s.handlers) (hnet : s'.net.core = s.net.core)
    (hnodes : NodesLike s.nodes s'.nodes)
    (hpo : ∀ n' p', (s'.proc? n' p').map pvo = (s.proc? n' p').map pvo)
    (hpp : ∀ n' p' e', s'.proc? n' p' = some e' → ∃ e0, s.proc? n' p' = some e0 ∧
      ∀ nm, amGet? nm e'.pending = if n' = n ∧ p' = p ∧ nm = name then none else amGet? nm e0.pending) :
    TimedRelF bits s' (r.removeTimer p name) (gs.filter (fun g => !(g.proc == p && g.name == name))) := by
  obtain ⟨ec, hec, hecid, hecd⟩ := (h.timer.pendMap n p e hn he name old).1 hold
  subst hecid
  have hloc := SimNet.core_procLoc hnet
  have hlt : ec.id < s.eventCount := h.queue.queueWF.2 ec ((mem_live s ec).1 hec).1
  have hl := live_of_cancel hev hcan
  have hq' : QueueOk s' := h.queue.cancel hev hcan hcnt hc hnet hlt
  refine ⟨NetRelF.congr (r := r) hnet hh hnodes rfl rfl h.net, TProcRel.congr (r := r) hloc hpo rfl h.proc, hq', ?_, ?_⟩
  · refine h.timer.remove h.queue h.proc hl hh (by rw [hc]; exact LawfulTime.le_refl _) hec hecd hn he hpp
      List.filter_sublist ?_ ?_
    · intro g
      rw [List.mem_filter]
      refine and_congr_right (fun hg => ?_)
      obtain ⟨x, hx, hxid, hxd, _⟩ := h.timer.ghostsLive g hg
      have hxl := ((mem_deliverable s x).1 hx).1
      simp only [Bool.not_eq_true', Bool.and_eq_false_iff, beq_eq_false_iff_ne, ne_eq]
      constructor
      · intro hne hid
        have : x = ec := live_eq_of_id s h.queue.queueWF hxl hec (hxid.trans hid)
        subst this
        rw [hecd] at hxd
        simp only [QData.timer.injEq] at hxd
        rcases hne with hne | hne
        · exact hne hxd.1.symm
        · exact hne hxd.2.symm
      · intro hid
        by_cases hgp : g.proc = p
        · by_cases hgn : g.name = name
          · exfalso
            rw [hgp, hgn] at hxd
            have := (h.timer.pendMap n p e hn he name x.id).2 ⟨x, hxl, rfl, hxd⟩
            rw [hold] at this
            exact hid (hxid.symm.trans (Option.some.inj this).symm)
          · exact Or.inr hgn
        · exact Or.inl hgp
    · show r.timers.filter _ = _
      rw [h.timer.timers, List.filter_map]
      rfl
  · refine h.flights.filterNone hl hh rfl rfl ?_
    intro x hx hpx mid m src sn dst dn hd
    simp only [bne_eq_false_iff_eq] at hpx
    have : x = ec := live_eq_of_id s h.queue.queueWF ((mem_deliverable s x).1 hx).1 hec hpx
    subst this
    rw [hecd] at hd; cases hd

/-- a timer is set under a name that is not pending -/
theorem TimedRelF.setTimer [LawfulTime T] {bits : T → Nat} {s s' : Sim σ T} {r r' : RState σ}
    {gs : List (TimerGhost T)} (h : TimedRelF bits s r gs) {n p name d : Nat} {e : SProc σ T}
    (hn : n ∈ s.handlers) (he : s.proc? n p = some e) (hnone : amGet? name e.pending = none)
    (hd0 : TimeOps.le TimeOps.zero (TimeOps.ofBits d : T) = true) (hbits : bits (TimeOps.ofBits d : T) = d)
    (hev : s'.events = s.events ++ [⟨s.eventCount, TimeOps.add s.clock (TimeOps.ofBits d), n, n, .timer p name⟩])
    (hcan : s'.canceled = s.canceled) (hcnt : s'.eventCount = s.eventCount + 1)
    (hc : s'.clock = s.clock) (hh : s'.handlers = s.handlers) (hnet : s'.net.core = s.net.core)
    (hnodes : NodesLike s.nodes s'.nodes)
    (hpo : ∀ n' p', (s'.proc? n' p').map pvo = (s.proc? n' p').map pvo)
    (hpp : ∀ n' p' e', s'.proc? n' p' = some e' → ∃ e0, s.proc? n' p' = some e0 ∧
      ∀ nm, amGet? nm e'.pending = if n' = n ∧ p' = p ∧ nm = name then some s.eventCount else amGet? nm e0.pending)
    (h1 : r'.procs = r.procs) (h2 : r'.crashedNodes = r.crashedNodes) (h3 : r'.flights = r.flights)
    (h5 : r'.net = r.net) (h4 : r'.timers = r.timers ++ [⟨p, name, d⟩]) :
    TimedRelF bits s' r' (gs ++ [⟨s.eventCount, p, name, d, s.clock⟩]) := by
  have hfresh : s.eventCount ∉ s.canceled := fun hin => Nat.lt_irrefl _ (h.queue.cancWF _ hin)
  have hl := live_of_append hev hcan hfresh
  have hloc := SimNet.core_procLoc hnet
  have hpl := (h.proc.procs n p e he).2
  have hq' : QueueOk s' := h.queue.addEv hev hcan hcnt hc hnet rfl (LawfulTime.le_add _ _ hd0)
    (fun p' name' hd => by cases hd; exact ⟨rfl, hpl⟩)
    (fun mid' m' src' sn' dst' dn' hd => by cases hd)
  refine ⟨h.net.congr hnet hh hnodes h5 h2, h.proc.congr hloc hpo h1, hq', ?_, ?_⟩
  · exact h.timer.addTimer h.queue h.proc hl hh hc rfl rfl rfl rfl hn he hnone hpp hbits h4
  · exact h.flights.addEv hl hh [] (by rw [h3]; simp) h5 (by simp [keyOfQ])

end R7Prims

/-! # single calls -/
section R7Acts
variable {σ T : Type} [TimeOps T]

open Sim

variable [LawfulTime T] {bits : T → Nat} {s s' : Sim σ T} {r : RState σ} {gs : List (TimerGhost T)}
  {n p : Nat} {time : T} {rest : List Action}

theorem r7_act_sim_loc (h : TimedRelF bits s r gs) (hctx : r.Ctx n p) (m : Msg)
    (hok : Sim.handleActions n p time (.loc m :: rest) s = .ok s') :
    ∃ s1, s1.draws = s.draws ∧ Sim.handleActions n p time rest s1 = .ok s' ∧
      TimedRelF bits s1 (r.act p (.loc m)).1 gs := by
  obtain ⟨hn, e, he⟩ := h.ctx hctx
  simp only [Sim.handleActions] at hok
  split at hok
  · cases hok
  · rename_i nd hnd
    split at hok
    · cases hok
    · rename_i nd' hnd'
      refine ⟨_, ?_, hok, ?_⟩
      · simp [setNode, log]
      · apply TimedRelF.sameView (sameView_setLocalCount _ n (nodeOf_ok hnd') _)
        apply TimedRelF.sameView (sameView_log _ _)
        have := h.updVisible he (fun e => { e with log := e.log ++ [⟨time, .lsent m⟩], outbox := e.outbox ++ [m] })
          (fun rp => { rp with outbox := rp.outbox ++ [m] }) (fun e => rfl) (fun e => rfl)
        refine TimedRelF.congr_r ?_ ?_ ?_ ?_ ?_ this <;> rfl

theorem r7_act_sim_set (h : TimedRelF bits s r gs) (hctx : r.Ctx n p) (name d : Nat) (once : Bool)
    (hd0 : TimeOps.le TimeOps.zero (TimeOps.ofBits d : T) = true) (hbits : bits (TimeOps.ofBits d : T) = d)
    (hok : Sim.handleActions n p time (.set name d once :: rest) s = .ok s') :
    ∃ s1 gs1, s1.draws = s.draws ∧ Sim.handleActions n p time rest s1 = .ok s' ∧
      TimedRelF bits s1 (r.act p (.set name d once)).1 gs1 := by
  obtain ⟨hn, e, he⟩ := h.ctx hctx
  obtain ⟨nd, hnd, hpe⟩ := proc?_some he
  have hva := sameView_updProc s n p (fun e => { e with log := e.log ++ [⟨time, .tset name d once⟩] }) (fun e => rfl)
  have ha := h.sameView hva
  have hna : n ∈ (s.updProc n p fun e => { e with log := e.log ++ [⟨time, .tset name d once⟩] }).handlers := by
    rw [hva.handlers]; exact hn
  have hea : (s.updProc n p fun e => { e with log := e.log ++ [⟨time, .tset name d once⟩] }).proc? n p =
      some { e with log := e.log ++ [⟨time, .tset name d once⟩] } := by
    rw [proc?_updProc, if_pos ⟨rfl, rfl⟩, he]; rfl
  cases hpend : amGet? name e.pending with
  | none =>
    rw [handleActions_set_none s n p time name d once rest hnd hpe hpend] at hok
    have hnp : r.timerPending p name = false := by
      cases hp : r.timerPending p name with
      | false => rfl
      | true =>
        obtain ⟨id, hid⟩ := (h.timerPending_iff hn he name).1 hp
        rw [hpend] at hid; cases hid
    obtain ⟨a1, a2, a3, a4, a5⟩ := RState.act_set_spec r p name d once (by rw [hnp, Bool.and_false])
    rw [RState.removeTimer_of_not_pending r p name hnp] at a5
    refine ⟨_, ?_, ?_, hok, ?_⟩
    rotate_left 2
    · refine ha.setTimer hna hea hpend hd0 hbits ?_ ?_ ?_ ?_ ?_ ?_ ?_ ?_ ?_ a1 a2 a3 a4 a5
      · simp [log, addEvent]
      · simp [log, addEvent]
      · simp [log, addEvent]
      · simp [log, addEvent]
      · simp [log, addEvent, handlers_updProc]
      · simp [log, addEvent]
      · exact nodesLike_updProc ((s.updProc n p fun e => { e with log := e.log ++ [⟨time, .tset name d once⟩] }).addEvent
          (.timer p name) n n (TimeOps.ofBits d)).1 n p _
      · intro n' p'
        exact pvo_updProc ((s.updProc n p fun e => { e with log := e.log ++ [⟨time, .tset name d once⟩] }).addEvent
          (.timer p name) n n (TimeOps.ofBits d)).1 n p
          (fun e => { e with pending := amInsert natLt name s.eventCount e.pending }) (fun e => rfl) n' p'
      · intro n' p' e' he'
        have := pend_updProc_insert ((s.updProc n p fun e => { e with log := e.log ++ [⟨time, .tset name d once⟩] }).addEvent
          (.timer p name) n n (TimeOps.ofBits d)).1 n p name s.eventCount n' p' e' he'
        rw [proc?_addEvent] at this
        simpa using this
    · simp [log, addEvent]
  | some old =>
    cases once with
    | true =>
      rw [handleActions_set_once s n p time name d old rest hnd hpe hpend] at hok
      have hp : r.timerPending p name = true := (h.timerPending_iff hn he name).2 ⟨old, hpend⟩
      refine ⟨_, gs, by simp, hok, ?_⟩
      rw [RState.act_set_ignored r p name d true (by rw [hp]; rfl)]
      exact ha
    | false =>
      rw [handleActions_set_override s n p time name d old rest hnd hpe hpend] at hok
      obtain ⟨a1, a2, a3, a4, a5⟩ := RState.act_set_spec r p name d false (by simp)
      -- first the cancellation, on an intermediate state that has forgotten the name
      have hc := ha.cancelTimer (s' := ((s.updProc n p fun e => { e with log := e.log ++ [⟨time, .tset name d false⟩] }).updProc n p
          fun e => { e with pending := amErase name e.pending }).cancelEvent old) hna hea hpend
        (by simp [cancelEvent]) (by simp [cancelEvent]) (by simp [cancelEvent]) (by simp [cancelEvent])
        (by simp only [cancelEvent, handlers_updProc]) (by simp [cancelEvent])
        (nodesLike_updProc (s.updProc n p fun e => { e with log := e.log ++ [⟨time, .tset name d false⟩] }) n p _)
        (fun n' p' => pvo_updProc (s.updProc n p fun e => { e with log := e.log ++ [⟨time, .tset name d false⟩] }) n p
          (fun e => { e with pending := amErase name e.pending }) (fun e => rfl) n' p')
        (fun n' p' e' he' => pend_updProc_erase _ n p name n' p' e' he')
      refine ⟨_, ?_, ?_, hok, ?_⟩
      rotate_left 2
      · refine hc.setTimer (n := n) (p := p) (name := name) (e := { e with log := e.log ++ [⟨time, .tset name d false⟩], pending := amErase name e.pending })
          ?_ ?_ (by simp [amGet?_amErase]) hd0 hbits ?_ ?_ ?_ ?_ ?_ ?_ ?_ ?_ ?_ a1 a2 a3 a4 a5
        · simp only [cancelEvent, handlers_updProc]; exact hn
        · show ((s.updProc n p _).updProc n p _).proc? n p = _
          rw [proc?_updProc, if_pos ⟨rfl, rfl⟩, hea]; rfl
        · simp [log, addEvent, cancelEvent]
        · simp [log, addEvent, cancelEvent]
        · simp [log, addEvent, cancelEvent]
        · simp [log, addEvent, cancelEvent]
        · simp [log, addEvent, cancelEvent, handlers_updProc]
        · simp [log, addEvent, cancelEvent]
        · exact NodesLike.of_common
            (nodesLike_updProc (s.updProc n p fun e => { e with log := e.log ++ [⟨time, .tset name d false⟩] }) n p _)
            (nodesLike_updProc (((s.updProc n p fun e => { e with log := e.log ++ [⟨time, .tset name d false⟩] }).cancelEvent old).addEvent
              (.timer p name) n n (TimeOps.ofBits d)).1 n p _) ha.net.nodesSorted
        · intro n' p'
          have e1 := pvo_updProc (((s.updProc n p fun e => { e with log := e.log ++ [⟨time, .tset name d false⟩] }).cancelEvent old).addEvent
            (.timer p name) n n (TimeOps.ofBits d)).1 n p
            (fun e => { e with pending := amInsert natLt name s.eventCount e.pending }) (fun e => rfl) n' p'
          have e2 := pvo_updProc (s.updProc n p fun e => { e with log := e.log ++ [⟨time, .tset name d false⟩] }) n p
            (fun e => { e with pending := amErase name e.pending }) (fun e => rfl) n' p'
          exact e1.trans e2.symm
        · intro n' p' e' he'
          have := pend_insert_after_erase
            (((s.updProc n p fun e => { e with log := e.log ++ [⟨time, .tset name d false⟩] }).cancelEvent old).addEvent
              (.timer p name) n n (TimeOps.ofBits d)).1
            (s.updProc n p fun e => { e with log := e.log ++ [⟨time, .tset name d false⟩] }) (fun _ _ => rfl)
            n p name s.eventCount n' p' e' he'
          simpa only [proc?_cancelEvent, cancelEvent_eventCount, updProc_eventCount] using this
      · simp [log, addEvent, cancelEvent]

theorem r7_act_sim_cancel (h : TimedRelF bits s r gs) (hctx : r.Ctx n p) (name : Nat)
    (hok : Sim.handleActions n p time (.cancel name :: rest) s = .ok s') :
    ∃ s1 gs1, s1.draws = s.draws ∧ Sim.handleActions n p time rest s1 = .ok s' ∧
      TimedRelF bits s1 (r.act p (.cancel name)).1 gs1 := by
  obtain ⟨hn, e, he⟩ := h.ctx hctx
  obtain ⟨nd, hnd, hpe⟩ := proc?_some he
  have hva := sameView_updProc s n p (fun e => { e with log := e.log ++ [⟨time, .tcancel name⟩] }) (fun e => rfl)
  have ha := h.sameView hva
  have hna : n ∈ (s.updProc n p fun e => { e with log := e.log ++ [⟨time, .tcancel name⟩] }).handlers := by
    rw [hva.handlers]; exact hn
  have hea : (s.updProc n p fun e => { e with log := e.log ++ [⟨time, .tcancel name⟩] }).proc? n p =
      some { e with log := e.log ++ [⟨time, .tcancel name⟩] } := by
    rw [proc?_updProc, if_pos ⟨rfl, rfl⟩, he]; rfl
  cases hpend : amGet? name e.pending with
  | none =>
    rw [handleActions_cancel_none s n p time name rest hnd hpe hpend] at hok
    have hnp : r.timerPending p name = false := by
      cases hp : r.timerPending p name with
      | false => rfl
      | true =>
        obtain ⟨id, hid⟩ := (h.timerPending_iff hn he name).1 hp
        rw [hpend] at hid; cases hid
    refine ⟨_, gs, by simp, hok, ?_⟩
    rw [RState.act_cancel_none r p name hnp]
    exact ha
  | some old =>
    rw [handleActions_cancel_some s n p time name old rest hnd hpe hpend] at hok
    have hp : r.timerPending p name = true := (h.timerPending_iff hn he name).2 ⟨old, hpend⟩
    obtain ⟨a1, a2, a3, a4, a5⟩ := RState.act_cancel_pending r p name hp
    have hc := ha.cancelTimer (s' := (((s.updProc n p fun e => { e with log := e.log ++ [⟨time, .tcancel name⟩] }).updProc n p
          fun e => { e with pending := amErase name e.pending }).log (.timerCancelled time old name n p)).cancelEvent old)
        hna hea hpend
        (by simp [cancelEvent, log]) (by simp [cancelEvent, log]) (by simp [cancelEvent, log]) (by simp [cancelEvent, log])
        (by simp only [cancelEvent, log, handlers_updProc]) (by simp [cancelEvent, log])
        (nodesLike_updProc (s.updProc n p fun e => { e with log := e.log ++ [⟨time, .tcancel name⟩] }) n p _)
        (fun n' p' => pvo_updProc (s.updProc n p fun e => { e with log := e.log ++ [⟨time, .tcancel name⟩] }) n p
          (fun e => { e with pending := amErase name e.pending }) (fun e => rfl) n' p')
        (fun n' p' e' he' => pend_updProc_erase
          (s.updProc n p fun e => { e with log := e.log ++ [⟨time, .tcancel name⟩] }) n p name n' p' e' he')
    refine ⟨_, _, ?_, hok, TimedRelF.congr_r (r := r.removeTimer p name) a1 a2 a3 a5 a4 hc⟩
    simp [cancelEvent, log]

end R7Acts

/-! # popping -/
section R7Pop
variable {σ T : Type} [TimeOps T]

open Sim

variable [LawfulTime T] {bits : T → Nat} {q s1 : Sim σ T} {r : RState σ} {gs : List (TimerGhost T)}
  {e : QEv T} {fuel : Nat}

/-- what popping the next event leaves alone, and what it guarantees -/
theorem r7_pop_frame (h : TimedRelF bits q r gs) (hf : q.events.length < fuel) (hne : nextEvent fuel q = (some e, s1)) :
    NetRelF bits s1 r ∧ TProcRel s1 r ∧ QueueOk s1 ∧ TimeOps.le q.clock s1.clock = true ∧ e ∈ q.live ∧
    s1.live = q.live.filter (fun x => x.id != e.id) ∧ s1.handlers = q.handlers ∧ s1.net = q.net ∧
    s1.nodes = q.nodes ∧ s1.draws = q.draws ∧ s1.clock = e.time ∧ (∀ x ∈ q.live, evBefore x e = false) := by
  obtain ⟨h1, h2, h3, h4, h5, h6, h7, h8⟩ := nextEvent_frame_r4 fuel q s1 e hne
  obtain ⟨k1, k2, _⟩ := nextEvent_some q s1 e fuel hf h.queue.queueWF hne
  obtain ⟨m1, _, _⟩ := nextEvent_keeps q s1 e fuel hf h.queue.queueWF h.queue.clockOk hne
  refine ⟨NetRelF.congr (r := r) (by rw [h1]) h3 (NodesLike.of_eq h2) rfl rfl h.net,
    TProcRel.congr (r := r) (by rw [h1]) (fun n p => by rw [proc?_of_nodes h2]) rfl h.proc,
    h.queue.pop hf hne, m1, k1, h8, h3, h1, h2, h5, h6, k2⟩

/-- the popped event is addressed to a node without handler: nothing the relation looks at changes -/
theorem r7_pop_undeliverable (h : TimedRelF bits q r gs) (hf : q.events.length < fuel)
    (hne : nextEvent fuel q = (some e, s1)) (hdst : e.dst ∉ q.handlers) : TimedRelF bits s1 r gs := by
  obtain ⟨f1, f2, f3, f4, f5, f6, f7, f8, f9, _, _, _⟩ := r7_pop_frame h hf hne
  have hpp : ∀ n p, (s1.proc? n p).map pvp = (q.proc? n p).map pvp := fun n p => by rw [proc?_of_nodes f9]
  refine ⟨f1, f2, f3, ?_, ?_⟩
  · refine h.timer.liveChange h.queue f3 h.proc (by rw [f8]) ?_ f7 f4 hpp rfl
    intro x p name hd
    rw [f6, List.mem_filter]
    constructor
    · exact fun hm => hm.1
    · intro hm
      refine ⟨hm, ?_⟩
      simp only [bne_iff_ne, ne_eq]
      intro hid
      have := live_eq_of_id q h.queue.queueWF hm f5 hid
      subst this
      exact hdst (h.timer.timerLive h.queue.queueWF hm hd)
  · refine h.flights.filterNone f6 f7 rfl rfl ?_
    intro x hx hpx
    simp only [bne_eq_false_iff_eq] at hpx
    have := live_eq_of_id q h.queue.queueWF ((mem_deliverable q x).1 hx).1 f5 hpx
    subst this
    exact absurd ((mem_deliverable q x).1 hx).2 hdst

/-- a message copy is popped: its flight leaves the reference state -/
theorem r7_pop_msg (h : TimedRelF bits q r gs) (hf : q.events.length < fuel)
    (hne : nextEvent fuel q = (some e, s1)) (hdst : e.dst ∈ q.handlers) {mid src sn dst dn : Nat} {m : Msg}
    (hd : e.data = .msg mid m src sn dst dn) (r' : RState σ) (i : Nat)
    (h1 : r'.procs = r.procs) (h2 : r'.crashedNodes = r.crashedNodes) (h4 : r'.timers = r.timers)
    (h5 : r'.net = r.net)
    (h3 : r'.flights = r.flights.eraseIdx i)
    (hi : ((r.flights.eraseIdx i).map Flight.key).Perm ((r.flights.map Flight.key).erase (m, src, dst))) :
    TimedRelF bits s1 r' gs := by
  obtain ⟨f1, f2, f3, f4, f5, f6, f7, f8, f9, _, _, _⟩ := r7_pop_frame h hf hne
  have hpp : ∀ n p, (s1.proc? n p).map pvp = (q.proc? n p).map pvp := fun n p => by rw [proc?_of_nodes f9]
  refine ⟨NetRelF.congr (r := r) rfl rfl (NodesLike.refl _) h5 h2 f1, TProcRel.congr (r := r) rfl (fun _ _ => rfl) h1 f2, f3, ?_, ?_⟩
  · refine h.timer.liveChange h.queue f3 h.proc (by rw [f8]) ?_ f7 f4 hpp h4
    intro x p name hdx
    rw [f6, List.mem_filter]
    constructor
    · exact fun hm => hm.1
    · intro hm
      refine ⟨hm, ?_⟩
      simp only [bne_iff_ne, ne_eq]
      intro hid
      have := live_eq_of_id q h.queue.queueWF hm f5 hid
      subst this
      rw [hd] at hdx; cases hdx
  · exact h.flights.popMsg h.queue.queueWF f6 f7 ((mem_deliverable q e).2 ⟨f5, hdst⟩)
      (by rw [hd]; rfl) h3 h5 hi

end R7Pop

section R7PopTimer
variable {σ T : Type} [TimeOps T]

open Sim

variable [LawfulTime T] {bits : T → Nat} {q s1 : Sim σ T} {r : RState σ} {gs : List (TimerGhost T)}
  {e : QEv T} {fuel : Nat}

/-- the ghost of a deliverable timer event -/
theorem r7_ghost_of_timer (h : TimedRelF bits q r gs) (he : e ∈ q.deliverable) {p name : Nat}
    (hd : e.data = .timer p name) :
    ∃ g ∈ gs, g.id = e.id ∧ g.proc = p ∧ g.name = name ∧
      e.time = TimeOps.add g.setClock (TimeOps.ofBits g.delay) := by
  obtain ⟨g, hg, hgid⟩ := h.timer.ghostsCover e ((mem_deliverable q e).1 he).1 p name hd
  obtain ⟨x, hx, hxid, hxd, hxt⟩ := h.timer.ghostsLive g hg
  have : x = e := live_eq_of_id q h.queue.queueWF ((mem_deliverable q x).1 hx).1 ((mem_deliverable q e).1 he).1
    (hxid.trans hgid)
  subst this
  rw [hd] at hxd
  simp only [QData.timer.injEq] at hxd
  exact ⟨g, hg, hgid, hxd.1.symm, hxd.2.symm, hxt⟩

/-- **The timer the simulator pops is `timerUnblocked` in the related reference state**: no earlier-set pending
    timer of the same process has a less-or-equal delay — it would be queued for a time not later than the popped
    one with a smaller id, hence would have been popped first. -/
theorem r7_popped_timer_unblocked (h : TimedRelF bits q r gs)
    (hbits : ∀ x y : T, TimeOps.le x y = true → bits x ≤ bits y)
    (hadd : ∀ a b c : T, TimeOps.le a b = true → TimeOps.le (TimeOps.add a c) (TimeOps.add b c) = true)
    (hf : q.events.length < fuel) (hne : nextEvent fuel q = (some e, s1)) (hdst : e.dst ∈ q.handlers)
    {p name : Nat} (hd : e.data = .timer p name) :
    ∃ l1 g l2, gs = l1 ++ g :: l2 ∧ g.id = e.id ∧ g.proc = p ∧ g.name = name ∧
      r.timers[l1.length]? = some ⟨p, name, g.delay⟩ ∧ r.timerUnblocked l1.length = true := by
  obtain ⟨_, _, _, _, f5, _, _, _, _, _, _, fmin⟩ := r7_pop_frame h hf hne
  have hed : e ∈ q.deliverable := (mem_deliverable q e).2 ⟨f5, hdst⟩
  obtain ⟨g, hg, hgid, hgp, hgn, hgt⟩ := r7_ghost_of_timer h hed hd
  obtain ⟨l1, l2, hgs⟩ := List.append_of_mem hg
  have htm : r.timers = l1.map TimerGhost.toPTimer ++ g.toPTimer :: l2.map TimerGhost.toPTimer := by
    rw [h.timer.timers, hgs]; simp
  have hget : r.timers[l1.length]? = some ⟨p, name, g.delay⟩ := by
    rw [htm, List.getElem?_append_right (by simp)]
    simp [TimerGhost.toPTimer, hgp, hgn]
  refine ⟨l1, g, l2, hgs, hgid, hgp, hgn, hget, ?_⟩
  unfold RState.timerUnblocked
  rw [hget]
  simp only
  have htake : r.timers.take l1.length = l1.map TimerGhost.toPTimer := by
    rw [htm]; exact List.take_left' (by simp)
  rw [htake, List.all_eq_true]
  intro u hu
  obtain ⟨g', hg', rfl⟩ := List.mem_map.1 hu
  cases hb : (g'.toPTimer.proc == p && decide (g'.toPTimer.delay ≤ g.delay)) with
  | false => rfl
  | true =>
    exfalso
    simp only [TimerGhost.toPTimer, Bool.and_eq_true, beq_iff_eq, decide_eq_true_eq] at hb
    obtain ⟨_, hdel⟩ := hb
    have hg'gs : g' ∈ gs := by rw [hgs]; exact List.mem_append_left _ hg'
    -- earlier in the list: set no later, and the smaller id in case of a tie
    have htie := h.timer.ghostsTie
    rw [hgs, List.pairwise_append] at htie
    have hidlt : g'.fire = g.fire → g'.id < g.id := htie.2.2 g' hg' g (by simp)
    have hmono := h.timer.ghostMono
    rw [hgs, List.pairwise_append] at hmono
    have hclk : TimeOps.le g'.setClock g.setClock = true := hmono.2.2 g' hg' g (by simp)
    obtain ⟨x', hx', hx'id, _, hx't⟩ := h.timer.ghostsLive g' hg'gs
    -- the delays compare as their bit patterns do
    have hb1 := h.timer.ghostBits g' hg'gs
    have hb2 := h.timer.ghostBits g hg
    have hdle : TimeOps.le (TimeOps.ofBits g'.delay : T) (TimeOps.ofBits g.delay) = true := by
      rcases LawfulTime.le_total (TimeOps.ofBits g'.delay : T) (TimeOps.ofBits g.delay) with hle | hle
      · exact hle
      · have := hbits _ _ hle
        rw [hb1, hb2] at this
        have heq : g'.delay = g.delay := Nat.le_antisymm (of_decide_eq_true hdel) this
        rw [heq]; exact LawfulTime.le_refl _
    have ht : TimeOps.le x'.time e.time = true := by
      rw [hx't, hgt]
      exact LawfulTime.le_trans _ _ _ (LawfulTime.add_mono _ _ _ hdle) (hadd _ _ _ hclk)
    -- the popped event is minimal in `(time, id)`: the times are equal and its id is not larger
    obtain ⟨hmin1, hmin2⟩ := (evBefore_eq_false_iff x' e).1 (fmin x' ((mem_deliverable q x').1 hx').1)
    have hteq : x'.time = e.time := LawfulTime.le_antisymm _ _ ht hmin1
    have hfire : g'.fire = g.fire := by
      unfold TimerGhost.fire; rw [← hx't, ← hgt]; exact hteq
    have h1 := hidlt hfire
    have h2 := hmin2 ht
    rw [hx'id, ← hgid] at h2
    exact absurd h1 (Nat.not_lt.2 h2)

/-- after popping a timer event and forgetting its name (the bookkeeping of `on_timer_fired` before the handler
    runs), the relation holds with the timer removed from the reference state -/
theorem r7_pop_timer (h : TimedRelF bits q r gs) (hf : q.events.length < fuel)
    (hne : nextEvent fuel q = (some e, s1)) (hdst : e.dst ∈ q.handlers) {p name : Nat}
    (hd : e.data = .timer p name) {e0 : SProc σ T} (he0 : s1.proc? e.dst p = some e0)
    {l1 l2 : List (TimerGhost T)} {g : TimerGhost T} (hgs : gs = l1 ++ g :: l2) (hgid : g.id = e.id)
    (x : SLog T) (tm : T) (r' : RState σ)
    (h1 : r'.procs = r.procs) (h2 : r'.crashedNodes = r.crashedNodes) (h3 : r'.flights = r.flights)
    (h5 : r'.net = r.net) (h4 : r'.timers = r.timers.eraseIdx l1.length) :
    amGet? name e0.pending = some e.id ∧
    TimedRelF bits
      (((s1.updProc e.dst p fun e => { e with log := e.log ++ [⟨tm, .tfired name⟩] }).updProc e.dst p
        fun e => { e with pending := amErase name e.pending }).log x) r' (l1 ++ l2) := by
  obtain ⟨f1, f2, f3, f4, f5, f6, f7, f8, f9, _, _, _⟩ := r7_pop_frame h hf hne
  have he0q : q.proc? e.dst p = some e0 := by rw [← proc?_of_nodes f9]; exact he0
  have hpend : amGet? name e0.pending = some e.id :=
    (h.timer.pendMap e.dst p e0 hdst he0q name e.id).2 ⟨e, f5, rfl, hd⟩
  refine ⟨hpend, ?_⟩
  have hl : (((s1.updProc e.dst p fun e => { e with log := e.log ++ [⟨tm, .tfired name⟩] }).updProc e.dst p
        fun e => { e with pending := amErase name e.pending }).log x).live = q.live.filter (fun y => y.id != e.id) := by
    rw [← f6]; exact live_congr (by simp [log]) (by simp [log])
  have hh : (((s1.updProc e.dst p fun e => { e with log := e.log ++ [⟨tm, .tfired name⟩] }).updProc e.dst p
        fun e => { e with pending := amErase name e.pending }).log x).handlers = q.handlers := by
    rw [← f7]; simp [log, handlers_updProc]
  refine ⟨?_, ?_, ?_, ?_, ?_⟩
  · exact NetRelF.congr (r := r) (by simp [log]) (by rw [hh, f7])
      ((nodesLike_updProc s1 e.dst p _).trans (nodesLike_updProc (s1.updProc e.dst p _) e.dst p _)) h5 h2 f1
  · refine TProcRel.congr (r := r) (by simp [log]) ?_ h1 f2
    intro n' p'
    have e1 := pvo_updProc (s1.updProc e.dst p fun e => { e with log := e.log ++ [⟨tm, .tfired name⟩] }) e.dst p
      (fun e => { e with pending := amErase name e.pending }) (fun e => rfl) n' p'
    have e2 := pvo_updProc s1 e.dst p (fun e => { e with log := e.log ++ [⟨tm, .tfired name⟩] }) (fun e => rfl) n' p'
    exact e1.trans e2
  · exact f3.congr (by simp [log]) (by simp [log]) (by simp [log]) (by simp [log]) (by simp [log])
  · refine h.timer.remove (n := e.dst) (p := p) (name := name) h.queue h.proc hl hh ?_ f5 hd hdst he0q ?_ ?_ ?_ ?_
    · simpa [log] using f4
    · intro n' p' e' he'
      obtain ⟨ea, hea, hrel⟩ := pend_updProc_erase
        (s1.updProc e.dst p fun e => { e with log := e.log ++ [⟨tm, .tfired name⟩] }) e.dst p name n' p' e' he'
      obtain ⟨eb, heb, hrel2⟩ := pvp_of_map_eq (pvp_updProc s1 e.dst p (fun e => { e with log := e.log ++ [⟨tm, .tfired name⟩] }) (fun e => rfl) n' p') hea
      rw [proc?_of_nodes f9] at heb
      exact ⟨eb, heb, fun nm => by rw [hrel nm, hrel2 nm]⟩
    · rw [hgs]; exact (List.sublist_cons_self g l2).append_left l1
    · intro g'
      have hnd := h.timer.ghostsNodup
      rw [hgs, List.map_append, List.map_cons, List.nodup_append, List.nodup_cons] at hnd
      rw [hgs]
      simp only [List.mem_append, List.mem_cons]
      constructor
      · rintro (hm | hm)
        · refine ⟨Or.inl hm, ?_⟩
          rw [← hgid]
          exact hnd.2.2 _ (List.mem_map_of_mem hm) _ List.mem_cons_self
        · refine ⟨Or.inr (Or.inr hm), ?_⟩
          rw [← hgid]
          intro hid
          exact hnd.2.1.1 (hid ▸ List.mem_map_of_mem (f := fun g : TimerGhost T => g.id) hm)
      · rintro ⟨hm | hm | hm, hid⟩
        · exact Or.inl hm
        · subst hm; exact absurd hgid hid
        · exact Or.inr hm
    · rw [h4, h.timer.timers, hgs]
      simp [List.eraseIdx_append_of_length_le]
  · refine h.flights.filterNone hl hh h3 h5 ?_
    intro y hy hpy mid m src sn dst dn hdy
    simp only [bne_eq_false_iff_eq] at hpy
    have := live_eq_of_id q h.queue.queueWF ((mem_deliverable q y).1 hy).1 f5 hpy
    subst this
    rw [hd] at hdy; cases hdy

end R7PopTimer

end Anysystem
