import Anysystem.Model.Snapshot
import Anysystem.Spec.TimeLaws
import Anysystem.Proofs.StoreRefine
/-!
# Helper lemmas for the snapshot hand-off theorems (`SnapshotThms.lean`)
-/
namespace Anysystem
variable {σ T : Type} [TimeOps T]

theorem Rep.push_ok_snap {st : Store} {a : AStore} (h : Rep st a) (e : Ev)
    (he : e.isMsg = true ∨ e.isTimer = true) :
    ∃ st' a', st.push e = .ok (st', a.next) ∧ Rep st' a' ∧
      a'.pending = a.pending ++ [(a.next, e)] ∧ a'.next = a.next + 1 := by
  have : ∃ a', a.step (.push e) = some (a', .id a.next) ∧
      a'.pending = a.pending ++ [(a.next, e)] ∧ a'.next = a.next + 1 := by
    cases e <;> simp [Ev.isMsg, Ev.isTimer] at he <;> simp [AStore.step, Ev.isMsg]
  obtain ⟨a', hs, hp, hn⟩ := this
  obtain ⟨st', hst, hrep⟩ := h.step hs
  refine ⟨st', a', ?_, hrep, hp, hn⟩
  simp only [Store.stepOp] at hst
  split at hst
  · next s' id heq =>
    simp only [Except.ok.injEq, Prod.mk.injEq, Out.id.injEq] at hst
    obtain ⟨rfl, rfl⟩ := hst
    exact heq
  · simp at hst

/-- which queued events the snapshot keeps, given the crashed nodes -/
def snapKeep (crashed : List Nat) (e : QEv T) : Bool :=
  match e.data with
  | .msg _ _ _ _ _ dstNode => !crashed.contains dstNode
  | .timer _ _ => true

def snapEv (bits : T → Nat) (clock : T) (maxDelay : Nat) (e : QEv T) : Ev :=
  match e.data with
  | .msg _ m src _ dst _ => .msg m src dst (.noFail maxDelay)
  | .timer p name => .timer p name (bits (TimeOps.sub e.time clock))

theorem snapFold_spec (bits : T → Nat) (clock : T) (maxDelay : Nat) (crashed : List Nat)
    (L : List (QEv T)) : ∀ (st : Store) (a : AStore), Rep st a →
    ∃ st' a', L.foldl (fun (r : R Store) e => match r with
      | .error err => .error err
      | .ok st =>
        match e.data with
        | .msg _ m src _ dst dstNode =>
          if crashed.contains dstNode then .ok st
          else (st.push (.msg m src dst (.noFail maxDelay))).map (·.1)
        | .timer p name => (st.push (.timer p name (bits (TimeOps.sub e.time clock)))).map (·.1))
        (.ok st) = .ok st' ∧ Rep st' a' ∧
      a'.pending = a.pending ++ ((L.filter (snapKeep crashed)).zipIdx a.next).map
        (fun (e, i) => (i, snapEv bits clock maxDelay e)) ∧
      a'.next = a.next + (L.filter (snapKeep crashed)).length := by
  induction L with
  | nil => intro st a h; exact ⟨st, a, rfl, h, by simp, by simp⟩
  | cons e L ih =>
    intro st a h
    rw [List.foldl_cons]
    cases hd : e.data with
    | msg mid m src srcNode dst dstNode =>
      by_cases hc : crashed.contains dstNode = true
      · have hk : snapKeep crashed e = false := by simp only [snapKeep, hd, hc]; rfl
        simp only [hc, if_true, List.filter_cons, hk]
        exact ih st a h
      · have hk : snapKeep crashed e = true := by simpa [snapKeep, hd] using hc
        obtain ⟨st1, a1, hpush, hrep1, hp1, hn1⟩ := h.push_ok_snap (.msg m src dst (.noFail maxDelay)) (Or.inl rfl)
        obtain ⟨st', a', hf, hrep', hp', hn'⟩ := ih st1 a1 hrep1
        refine ⟨st', a', ?_, hrep', ?_, ?_⟩
        · simp only [hc, hpush, Except.map]
          exact hf
        · simp only [List.filter_cons, hk, if_true, List.zipIdx_cons, List.map_cons, hp', hp1, hn1,
            List.append_assoc, List.singleton_append, snapEv, hd]
        · simp only [List.filter_cons, hk, if_true, List.length_cons, hn', hn1]; omega
    | timer p name =>
      have hk : snapKeep crashed e = true := by simp [snapKeep, hd]
      obtain ⟨st1, a1, hpush, hrep1, hp1, hn1⟩ :=
        h.push_ok_snap (.timer p name (bits (TimeOps.sub e.time clock))) (Or.inr rfl)
      obtain ⟨st', a', hf, hrep', hp', hn'⟩ := ih st1 a1 hrep1
      refine ⟨st', a', ?_, hrep', ?_, ?_⟩
      · simp only [hpush, Except.map]
        exact hf
      · simp only [List.filter_cons, hk, if_true, List.zipIdx_cons, List.map_cons, hp', hp1, hn1,
          List.append_assoc, List.singleton_append, snapEv, hd]
      · simp only [List.filter_cons, hk, if_true, List.length_cons, hn', hn1]; omega


/-! ### `dump_events` is a permutation of the live events -/

theorem span_loop_append {α : Type} (p : α → Bool) (l : List α) : ∀ acc : List α,
    (List.span.loop p l acc).1 ++ (List.span.loop p l acc).2 = acc.reverse ++ l := by
  induction l with
  | nil => intro acc; simp [List.span.loop]
  | cons x xs ih =>
    intro acc
    cases hx : p x
    · simp [List.span.loop, hx]
    · simp only [List.span.loop, hx]
      rw [ih]; simp

theorem span_append {α : Type} (p : α → Bool) (l : List α) : (l.span p).1 ++ (l.span p).2 = l := by
  simpa [List.span] using span_loop_append p l []

theorem insFold_perm {α : Type} (p : α → α → Bool) (L : List α) : ∀ acc : List α,
    (L.foldl (fun acc e => let (a, b) := acc.span (fun x => p x e); a ++ [e] ++ b) acc).Perm (acc ++ L) := by
  induction L with
  | nil => intro acc; simp
  | cons e L ih =>
    intro acc
    rw [List.foldl_cons]
    refine (ih _).trans ?_
    have : (let (a, b) := acc.span (fun x => p x e); a ++ [e] ++ b).Perm (acc ++ [e]) := by
      have h := span_append (fun x => p x e) acc
      show ((acc.span (fun x => p x e)).1 ++ [e] ++ (acc.span (fun x => p x e)).2).Perm (acc ++ [e])
      generalize (acc.span (fun x => p x e)).1 = a at h
      generalize (acc.span (fun x => p x e)).2 = b at h
      subst h
      simp only [List.append_assoc]
      exact List.Perm.append_left _ List.perm_append_comm
    have h2 := this.append_right L
    simpa [List.append_assoc] using h2

theorem dumpEvents_perm_liveS (s : Sim σ T) :
    s.dumpEvents.Perm (s.events.filter (fun e => !s.canceled.contains e.id)) := by
  have := insFold_perm (Sim.evBefore (T := T)) (s.events.filter (fun e => !s.canceled.contains e.id)) []
  simpa [Sim.dumpEvents] using this

theorem mem_dumpEvents (s : Sim σ T) (e : QEv T) :
    e ∈ s.dumpEvents ↔ e ∈ s.events ∧ e.id ∉ s.canceled := by
  rw [(dumpEvents_perm_liveS s).mem_iff]
  simp [List.mem_filter]

/-! ### `disconnect_node` folded over the crashed nodes -/

theorem disconnectFold_spec (cs : List Nat) : ∀ b : McNet,
    (cs.foldl (fun n c => n.disconnectNode c) b).procLoc = b.procLoc ∧
    (cs.foldl (fun n c => n.disconnectNode c) b).disabledLinks = b.disabledLinks ∧
    (cs.foldl (fun n c => n.disconnectNode c) b).dropPos = b.dropPos ∧
    (cs.foldl (fun n c => n.disconnectNode c) b).corruptPos = b.corruptPos ∧
    (∀ x, x ∈ (cs.foldl (fun n c => n.disconnectNode c) b).dropIncoming ↔ x ∈ b.dropIncoming ∨ x ∈ cs) ∧
    (∀ x, x ∈ (cs.foldl (fun n c => n.disconnectNode c) b).dropOutgoing ↔ x ∈ b.dropOutgoing ∨ x ∈ cs) := by
  induction cs with
  | nil => intro b; simp
  | cons c cs ih =>
    intro b
    obtain ⟨h1, h2, h3, h4, h5, h6⟩ := ih (b.disconnectNode c)
    rw [List.foldl_cons]
    refine ⟨h1, h2, h3, h4, ?_, ?_⟩
    · intro x; rw [h5]
      simp only [McNet.disconnectNode, McNet.dropIncomingOn, McNet.dropOutgoingOn, mem_setInsert,
        List.mem_cons]
      constructor
      · rintro ((h | h) | h)
        · exact Or.inr (Or.inl h)
        · exact Or.inl h
        · exact Or.inr (Or.inr h)
      · rintro (h | h | h)
        · exact Or.inl (Or.inr h)
        · exact Or.inl (Or.inl h)
        · exact Or.inr h
    · intro x; rw [h6]
      simp only [McNet.disconnectNode, McNet.dropIncomingOn, McNet.dropOutgoingOn, mem_setInsert,
        List.mem_cons]
      constructor
      · rintro ((h | h) | h)
        · exact Or.inr (Or.inl h)
        · exact Or.inl h
        · exact Or.inr (Or.inr h)
      · rintro (h | h | h)
        · exact Or.inl (Or.inr h)
        · exact Or.inl (Or.inl h)
        · exact Or.inr h

end Anysystem
