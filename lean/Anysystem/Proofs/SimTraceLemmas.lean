import Anysystem.Proofs.SimLogInv
import Anysystem.Proofs.SimStepThms
import Anysystem.Spec.TimeLaws
/-!
# Helper lemmas for `SimTraceInv.lean`

Model-level facts that do not mention the trace invariant: a counting lemma for filters, the frame of
`nextEvent` (list-level: the live events after a pop are the live events before minus the popped one), the
draws of a send under the hypothesis that the exhausted-stream value `zero` is itself a draw, the exact trace
written by `crashNode`, and queue well-formedness under appends.
-/
namespace Anysystem

set_option linter.unusedSectionVars false

variable {σ T : Type} [TimeOps T]

/-- counting: if `a` and `b` are disjoint on `l` and both imply `c`, then `#a + #b ≤ #c` -/
theorem length_filter_add_le {α : Type} (l : List α) (a b c : α → Bool)
    (h : ∀ x ∈ l, (a x = true → c x = true) ∧ (b x = true → c x = true) ∧ ¬(a x = true ∧ b x = true)) :
    (l.filter a).length + (l.filter b).length ≤ (l.filter c).length := by
  induction l with
  | nil => simp
  | cons x xs ih =>
    have hx := h x List.mem_cons_self
    have ih' := ih (fun y hy => h y (List.mem_cons_of_mem _ hy))
    simp only [List.filter_cons]
    cases ha : a x <;> cases hb : b x <;> cases hc : c x <;> simp_all <;> omega

theorem length_filter_le_of_imp {α : Type} (l : List α) (a c : α → Bool)
    (h : ∀ x ∈ l, a x = true → c x = true) : (l.filter a).length ≤ (l.filter c).length := by
  have := length_filter_add_le l a (fun _ => false) c (fun x hx => ⟨h x hx, by simp, by simp⟩)
  have hf : l.filter (fun _ => false) = [] := List.filter_eq_nil_iff.2 (by simp)
  rw [hf] at this
  simpa using this

/-- removing the events with the id of a member `e` that satisfies `q` lowers the `q`-count by at least one -/
theorem length_filter_pop {α : Type} (l : List α) (r q : α → Bool) (e : α) (he : e ∈ l) (hr : r e = false) :
    ((l.filter r).filter q).length + (if q e = true then 1 else 0) ≤ (l.filter q).length := by
  have h1 := length_filter_add_le l (fun x => r x && q x) (fun x => !r x && q x) q
    (fun x _ => by cases r x <;> cases q x <;> simp)
  have h2 : (l.filter r).filter q = l.filter (fun x => r x && q x) := by
    rw [List.filter_filter]
    apply List.filter_congr
    intro x _
    exact Bool.and_comm _ _
  rw [h2]
  split
  · rename_i hq
    have : e ∈ l.filter (fun x => !r x && q x) := by
      rw [List.mem_filter]; exact ⟨he, by simp [hr, hq]⟩
    have := List.length_pos_of_mem this
    omega
  · omega

namespace Sim

/-! ### `nextEvent` at list level -/

theorem liveOf_pop (s : Sim σ T) (e : QEv T) (c : T) :
    liveOf { s with events := s.events.filter (fun x => x.id != e.id), clock := c } =
      (liveOf s).filter (fun x => x.id != e.id) := by
  simp only [liveOf, List.filter_filter]
  apply List.filter_congr
  intro x _
  exact Bool.and_comm _ _

/-- `next_event` touches only the queue, the cancellation set and the clock; the live events afterwards are
    the live events before, minus the popped one (no time laws, no uniqueness of ids needed) -/
theorem nextEvent_frame (fuel : Nat) (s s' : Sim σ T) (o : Option (QEv T)) (h : nextEvent fuel s = (o, s')) :
    s'.trace = s.trace ∧ s'.net = s.net ∧ s'.draws = s.draws ∧ s'.eventCount = s.eventCount ∧
    s'.nodes = s.nodes ∧ s'.handlers = s.handlers ∧ s'.events.Sublist s.events ∧
    (∀ e, o = some e → e ∈ liveOf s ∧ liveOf s' = (liveOf s).filter (fun x => x.id != e.id)) ∧
    (o = none → liveOf s' = liveOf s) := by
  induction fuel generalizing s with
  | zero =>
    simp only [nextEvent, Prod.mk.injEq] at h
    obtain ⟨rfl, rfl⟩ := h
    exact ⟨rfl, rfl, rfl, rfl, rfl, rfl, List.Sublist.refl _, by simp, fun _ => rfl⟩
  | succ fuel ih =>
    rw [nextEvent_succ] at h
    split at h
    · simp only [Prod.mk.injEq] at h
      obtain ⟨rfl, rfl⟩ := h
      exact ⟨rfl, rfl, rfl, rfl, rfl, rfl, List.Sublist.refl _, by simp, fun _ => rfl⟩
    · rename_i m hm
      split at h
      · rename_i hc
        have hc' : m.id ∈ s.canceled := by simpa using hc
        obtain ⟨h1, h2, h3, h4, h5, h6, h7, h8, h9⟩ := ih _ h
        rw [liveOf_skip s m hc'] at h8 h9
        exact ⟨h1, h2, h3, h4, h5, h6, h7.trans List.filter_sublist, h8, h9⟩
      · rename_i hc
        have hc' : m.id ∉ s.canceled := by simpa using hc
        simp only [Prod.mk.injEq] at h
        obtain ⟨rfl, rfl⟩ := h
        refine ⟨rfl, rfl, rfl, rfl, rfl, rfl, List.filter_sublist, ?_, by simp⟩
        intro e he
        cases he
        exact ⟨(mem_liveOf s m).2 ⟨minEvent_mem _ _ hm, hc'⟩, liveOf_pop s m m.time⟩

/-! ### the draws of a send when `zero` counts as a draw -/

section lawful
variable [LawfulTime T]

theorem dr_isDraw (l : List T) (hl : ∀ r ∈ l, LawfulTime.isDraw r) (hzero : LawfulTime.isDraw (TimeOps.zero : T))
    (i : Nat) : LawfulTime.isDraw (dr l i) := by
  rcases dr_mem_or_zero l i with h | h
  · exact hl _ h
  · rw [h]; exact hzero

/-- a rate that is not positive is not above any draw -/
theorem lt_draw_false (r rate : T) (hr : LawfulTime.isDraw r) (hz : TimeOps.lt TimeOps.zero rate = false) :
    TimeOps.lt r rate = false := by
  cases hlt : TimeOps.lt r rate with
  | false => rfl
  | true =>
    exfalso
    have h1 : TimeOps.le rate TimeOps.zero = true := by
      cases hle : TimeOps.le rate TimeOps.zero with
      | true => rfl
      | false => rw [(LawfulTime.lt_iff _ _).2 hle] at hz; cases hz
    have h2 := LawfulTime.le_trans _ _ _ h1 (LawfulTime.draw_nonneg r hr)
    rw [(LawfulTime.lt_iff _ _).1 hlt] at h2
    cases h2

theorem sendCount_bounds' (s : Sim σ T) (hdraws : ∀ r ∈ s.draws, LawfulTime.isDraw r)
    (hzero : LawfulTime.isDraw (TimeOps.zero : T)) : 1 ≤ s.sendCount ∧ s.sendCount ≤ 3 := by
  unfold sendCount
  split
  · exact LawfulTime.copies_bounds _ (dr_isDraw _ hdraws hzero 3)
  · omega

theorem sendCount_no_dupl (s : Sim σ T) (hdraws : ∀ r ∈ s.draws, LawfulTime.isDraw r)
    (hzero : LawfulTime.isDraw (TimeOps.zero : T)) (hz : TimeOps.lt TimeOps.zero s.net.duplRate = false) :
    s.sendCount = 1 := by
  simp [sendCount, sendDup, lt_draw_false _ _ (dr_isDraw _ hdraws hzero 2) hz]

end lawful

/-! ### queue well-formedness -/

/-- appending events whose ids are `eventCount, eventCount + 1, …` keeps the queue well formed -/
theorem QueueWF.append {s s' : Sim σ T} (hwf : s.QueueWF) (new : List (QEv T)) (k : Nat)
    (hev : s'.events = s.events ++ new) (hids : new.map (·.id) = (List.range k).map (s.eventCount + ·))
    (hec : s'.eventCount = s.eventCount + k) : s'.QueueWF := by
  obtain ⟨hnd, hlt⟩ := hwf
  have hmem : ∀ e ∈ new, s.eventCount ≤ e.id ∧ e.id < s.eventCount + k := by
    intro e he
    have : e.id ∈ new.map (·.id) := List.mem_map_of_mem (f := (·.id)) he
    rw [hids] at this
    obtain ⟨i, hi, hie⟩ := List.mem_map.1 this
    have := List.mem_range.1 hi
    omega
  refine ⟨?_, ?_⟩
  · rw [hev, List.map_append, List.nodup_append]
    refine ⟨hnd, ?_, ?_⟩
    · rw [hids]
      rw [List.Nodup, List.pairwise_map]
      exact (List.pairwise_lt_range (n := k)).imp (by intro a b hab; omega)
    · intro a ha b hb
      obtain ⟨x, hx, rfl⟩ := List.mem_map.1 ha
      obtain ⟨y, hy, rfl⟩ := List.mem_map.1 hb
      have := hlt x hx
      have := hmem y hy
      omega
  · intro e he
    rw [hev, List.mem_append] at he
    rw [hec]
    rcases he with he | he
    · have := hlt e he; omega
    · exact (hmem e he).2

theorem QueueWF.sublist {s s' : Sim σ T} (hwf : s.QueueWF) (hsub : s'.events.Sublist s.events)
    (hec : s'.eventCount = s.eventCount) : s'.QueueWF :=
  ⟨(hsub.map (·.id)).nodup hwf.1, fun e he => by rw [hec]; exact hwf.2 e (hsub.subset he)⟩

/-! ### the trace written by `crashNode` -/

/-- the `MessageDropped` entry logged by `crashNode` for an event sent from the crashing node, if any -/
def crashDrop (clock : T) (live : List Nat) (e : QEv T) : Option (SLog T) :=
  if live.contains e.id then
    match e.data with
    | .msg mid m src sn dst dn => some (.dropped clock mid sn src dn dst m)
    | _ => none
  else none

/-- the `MessageDropped` entries logged by `crashNode` for the events `L` sent from the crashing node -/
def crashDrops (clock : T) (live : List Nat) (L : List (QEv T)) : List (SLog T) :=
  L.filterMap (crashDrop clock live)

theorem foldl_droplog_eq' (L : List (QEv T)) (live : List Nat) (s : Sim σ T) :
    L.foldl (fun (s : Sim σ T) e =>
      if live.contains e.id then
        match e.data with
        | .msg mid m src sn dst dn => s.log (.dropped s.clock mid sn src dn dst m)
        | _ => s
      else s) s = { s with trace := s.trace ++ crashDrops s.clock live L } := by
  induction L generalizing s with
  | nil => simp [crashDrops]
  | cons a L ih =>
    simp only [List.foldl_cons, crashDrops, List.filterMap_cons]
    cases hl : live.contains a.id <;> cases hd : a.data <;>
      simp only [crashDrop, hl, hd, Bool.false_eq_true, if_false, if_true] <;> rw [ih] <;>
      simp [log, crashDrops]

theorem crash_tail' (s2 : Sim σ T) (n : Nat) (live : List Nat) :
    (let fromNode := s2.events.filter (fun e => e.src == n)
     let s3 := fromNode.foldl (fun s e => s.cancelEvent e.id) s2
     let s4 := fromNode.foldl (fun (s : Sim σ T) e =>
        if live.contains e.id then
          match e.data with
          | .msg mid m src sn dst dn => s.log (.dropped s.clock mid sn src dn dst m)
          | _ => s
        else s) s3
     let s5 : Sim σ T := { s4 with handlers := setErase n s4.handlers }
     (s5.events.filter (fun e => e.dst == n)).foldl (fun s e => s.cancelEvent e.id) s5) =
    { s2 with
      trace := s2.trace ++ crashDrops s2.clock live (s2.events.filter (fun e => e.src == n)),
      handlers := setErase n s2.handlers,
      canceled := ((s2.events.filter (fun e => e.dst == n)).map (·.id)).foldl (fun acc x => setInsert x acc)
        (((s2.events.filter (fun e => e.src == n)).map (·.id)).foldl (fun acc x => setInsert x acc) s2.canceled) } := by
  have hr := foldl_droplog_eq' (s2.events.filter (fun e => e.src == n)) live
    ((s2.events.filter (fun e => e.src == n)).foldl (fun s e => s.cancelEvent e.id) s2)
  dsimp only
  rw [hr, foldl_cancel_eq, foldl_cancel_eq]

/-- the state after `crash_node`, with the logged drops spelled out -/
theorem crashNode_shape' (s s' : Sim σ T) (n : Nat) (h : s.crashNode n = .ok s') :
    ∃ nd, amGet? n s.nodes = some nd ∧
      s' = { s with
        nodes := amInsert natLt n { nd with crashed := true } s.nodes,
        trace := s.trace ++ SLog.nodeCrashed s.clock n ::
          crashDrops s.clock ((s.events.filter (fun e => !s.canceled.contains e.id)).map (·.id))
            (s.events.filter (fun e => e.src == n)),
        handlers := setErase n s.handlers,
        canceled := ((s.events.filter (fun e => e.dst == n)).map (·.id)).foldl (fun acc x => setInsert x acc)
          (((s.events.filter (fun e => e.src == n)).map (·.id)).foldl (fun acc x => setInsert x acc) s.canceled) } := by
  unfold crashNode at h
  cases hn : amGet? n s.nodes with
  | none => simp [nodeOf, hn] at h
  | some nd =>
    simp only [nodeOf, hn] at h
    have hr := crash_tail' ((s.setNode n { nd with crashed := true }).log (.nodeCrashed s.clock n)) n
      ((s.events.filter (fun e => !s.canceled.contains e.id)).map (·.id))
    refine ⟨nd, rfl, ?_⟩
    have h' := Except.ok.inj h
    rw [← h']
    refine Eq.trans hr ?_
    simp [setNode, log]

end Sim
end Anysystem
