import Anysystem.Model.Relay
/-! Statements about the Python bridge relay (C18). -/
namespace Anysystem

/-- every kind-list of the relayed actions is the sub-list of the calls of that kind, in issue order -/
theorem run_lists (calls : List PyCall) : ∀ (c c' : PyCtx), c.run calls = some c' →
    c'.sent.map (fun x => Action.send x.1 x.2) =
      c.sent.map (fun x => Action.send x.1 x.2) ++ (calls.map PyCall.toAction).filter Action.isSend ∧
    c'.locals.map Action.loc = c.locals.map Action.loc ++ (calls.map PyCall.toAction).filter Action.isLoc ∧
    c'.timers.map decodeTimer = c.timers.map decodeTimer ++ (calls.map PyCall.toAction).filter Action.isTimerOp := by
  induction calls with
  | nil =>
    intro c c' h
    simp only [PyCtx.run, Option.some.injEq] at h
    subst h
    simp
  | cons x xs ih =>
    intro c c' h
    cases x with
    | send m dst =>
      simp only [PyCtx.run, PyCtx.call] at h
      have := ih _ _ h
      simpa [List.filter_cons, PyCall.toAction, Action.isSend, Action.isLoc, Action.isTimerOp,
        List.append_assoc] using this
    | sendLocal m =>
      simp only [PyCtx.run, PyCtx.call] at h
      have := ih _ _ h
      simpa [List.filter_cons, PyCall.toAction, Action.isSend, Action.isLoc, Action.isTimerOp,
        List.append_assoc] using this
    | setTimer n d =>
      by_cases hd : d < 0
      · simp [PyCtx.run, PyCtx.call, hd] at h
      · simp only [PyCtx.run, PyCtx.call, if_neg hd] at h
        have := ih _ _ h
        simpa [List.filter_cons, PyCall.toAction, Action.isSend, Action.isLoc, Action.isTimerOp,
          decodeTimer, hd, List.append_assoc] using this
    | setTimerOnce n d =>
      by_cases hd : d < 0
      · simp [PyCtx.run, PyCtx.call, hd] at h
      · simp only [PyCtx.run, PyCtx.call, if_neg hd] at h
        have := ih _ _ h
        simpa [List.filter_cons, PyCall.toAction, Action.isSend, Action.isLoc, Action.isTimerOp,
          decodeTimer, hd, List.append_assoc] using this
    | cancelTimer n =>
      simp only [PyCtx.run, PyCtx.call] at h
      have := ih _ _ h
      have hneg : (-1 : Int) < 0 := by decide
      simpa [List.filter_cons, PyCall.toAction, Action.isSend, Action.isLoc, Action.isTimerOp,
        decodeTimer, hneg, List.append_assoc] using this

/-- what the bridge relays for a handler that made `calls` is the canonical reordering of the calls a
    Rust process would make: sends, then local sends, then timer operations, each in issue order with
    unchanged arguments -/
theorem C18_relay_canonical (calls : List PyCall) (c : PyCtx) (h : ({} : PyCtx).run calls = some c) :
    relay c = canonOrder (calls.map PyCall.toAction) := by
  obtain ⟨h1, h2, h3⟩ := run_lists calls {} c h
  simp only [List.map_nil, List.nil_append] at h1 h2 h3
  simp only [relay, canonOrder, h1, h2, h3]

/-- the encoding of timer operations is decoded to exactly the call that was made (on the domain Python accepts) -/
theorem C18_decode_exact (n : Nat) (d : Int) (hd : 0 ≤ d) :
    decodeTimer (n, d, false) = .set n d.toNat false ∧ decodeTimer (n, d, true) = .set n d.toNat true ∧
    decodeTimer (n, -1, false) = .cancel n := by
  have hd' : ¬ d < 0 := by omega
  refine ⟨?_, ?_, ?_⟩
  · simp [decodeTimer, hd']
  · simp [decodeTimer, hd']
  · simp [decodeTimer]

/-- a negative delay is rejected by Python: the handler fails and nothing is relayed -/
theorem C18_negative_delay_raises (c : PyCtx) (n : Nat) (d : Int) (hd : d < 0) :
    c.call (.setTimer n d) = none ∧ c.call (.setTimerOnce n d) = none := by
  simp [PyCtx.call, hd]

/-- a handler that makes a rejected call fails as a whole -/
theorem C18_failing_call_fails_handler (pre post : List PyCall) (x : PyCall) (c c1 : PyCtx)
    (hpre : c.run pre = some c1) (hx : c1.call x = none) : c.run (pre ++ x :: post) = none := by
  induction pre generalizing c with
  | nil =>
    simp only [PyCtx.run, Option.some.injEq] at hpre
    subst hpre
    simp [PyCtx.run, hx]
  | cons y ys ih =>
    simp only [PyCtx.run, List.cons_append] at hpre ⊢
    cases hy : c.call y with
    | none => simp [hy] at hpre
    | some c2 =>
      rw [hy] at hpre
      simp only
      exact ih c2 hpre

/-- the calls Python rejects: exactly `set_timer` / `set_timer_once` with a negative delay -/
def PyCall.raises : PyCall → Bool
  | .setTimer _ d => decide (d < 0)
  | .setTimerOnce _ d => decide (d < 0)
  | _ => false

theorem call_none_iff (c : PyCtx) (x : PyCall) : c.call x = none ↔ x.raises = true := by
  cases x with
  | send m dst => simp [PyCtx.call, PyCall.raises]
  | sendLocal m => simp [PyCtx.call, PyCall.raises]
  | setTimer n d => by_cases hd : d < 0 <;> simp [PyCtx.call, PyCall.raises, hd]
  | setTimerOnce n d => by_cases hd : d < 0 <;> simp [PyCtx.call, PyCall.raises, hd]
  | cancelTimer n => simp [PyCtx.call, PyCall.raises]

/-- a handler fails **iff** one of its calls is rejected: the bridge neither swallows an exception nor
    invents one, whatever the calls before and after it -/
theorem C18_handler_fails_iff (calls : List PyCall) : ∀ (c : PyCtx),
    c.run calls = none ↔ ∃ x ∈ calls, x.raises = true := by
  induction calls with
  | nil => intro c; simp [PyCtx.run]
  | cons y ys ih =>
    intro c
    cases hy : c.call y with
    | none =>
      have hr : y.raises = true := (call_none_iff c y).1 hy
      simp only [PyCtx.run, hy, true_iff]
      exact ⟨y, List.mem_cons_self, hr⟩
    | some c2 =>
      have hr : ¬ y.raises = true := fun h => by
        have := (call_none_iff c y).2 h
        rw [hy] at this
        cases this
      simp only [PyCtx.run, hy, ih c2, List.mem_cons, exists_eq_or_imp]
      constructor
      · intro h; exact Or.inr h
      · intro h
        cases h with
        | inl h => exact absurd h hr
        | inr h => exact h

/-- a handler none of whose calls is rejected always completes, and what reaches the engine is the
    canonical reordering of its calls (total form of `C18_relay_canonical`) -/
theorem C18_accepted_handler_relays (calls : List PyCall) (hok : ∀ x ∈ calls, x.raises = false) :
    ∃ c, ({} : PyCtx).run calls = some c ∧ relay c = canonOrder (calls.map PyCall.toAction) := by
  cases h : ({} : PyCtx).run calls with
  | none =>
    obtain ⟨x, hx, hr⟩ := (C18_handler_fails_iff calls {}).1 h
    rw [hok x hx] at hr
    cases hr
  | some c => exact ⟨c, rfl, C18_relay_canonical calls c h⟩

theorem filter_filter_disj {α : Type} (p q : α → Bool) (h : ∀ a, q a = true → p a = false) (l : List α) :
    (l.filter q).filter p = [] := by
  rw [List.filter_eq_nil_iff]
  intro a ha
  have := (List.mem_filter.1 ha).2
  simp [h a this]

theorem filter_filter_same {α : Type} (p : α → Bool) (l : List α) : (l.filter p).filter p = l.filter p := by
  simp [List.filter_filter]

theorem filter_isSend_canon (as : List Action) : (canonOrder as).filter Action.isSend = as.filter Action.isSend := by
  simp only [canonOrder, List.filter_append, filter_filter_same]
  rw [filter_filter_disj Action.isSend Action.isLoc (by intro a; cases a <;> simp [Action.isSend, Action.isLoc]),
    filter_filter_disj Action.isSend Action.isTimerOp (by intro a; cases a <;> simp [Action.isSend, Action.isTimerOp])]
  simp

theorem filter_isLoc_canon (as : List Action) : (canonOrder as).filter Action.isLoc = as.filter Action.isLoc := by
  simp only [canonOrder, List.filter_append, filter_filter_same]
  rw [filter_filter_disj Action.isLoc Action.isSend (by intro a; cases a <;> simp [Action.isSend, Action.isLoc]),
    filter_filter_disj Action.isLoc Action.isTimerOp (by intro a; cases a <;> simp [Action.isLoc, Action.isTimerOp])]
  simp

theorem filter_isTimerOp_canon (as : List Action) : (canonOrder as).filter Action.isTimerOp = as.filter Action.isTimerOp := by
  simp only [canonOrder, List.filter_append, filter_filter_same]
  rw [filter_filter_disj Action.isTimerOp Action.isSend (by intro a; cases a <;> simp [Action.isSend, Action.isTimerOp]),
    filter_filter_disj Action.isTimerOp Action.isLoc (by intro a; cases a <;> simp [Action.isLoc, Action.isTimerOp])]
  simp

/-- the canonical order is a fixed point of the relay: a Rust process that issues its calls in the
    order the bridge uses (as the twin processes of the correspondence runs do) is relayed unchanged,
    so relaying twice, or relaying a Rust twin's actions, changes nothing -/
theorem C18_canon_idempotent (as : List Action) : canonOrder (canonOrder as) = canonOrder as := by
  show (canonOrder as).filter Action.isSend ++ (canonOrder as).filter Action.isLoc ++
      (canonOrder as).filter Action.isTimerOp = canonOrder as
  rw [filter_isSend_canon, filter_isLoc_canon, filter_isTimerOp_canon]
  rfl

/-- non-vacuity of `C18_handler_fails_iff`: a rejected call in the middle fails the handler; without it the handler completes -/
example : ({} : PyCtx).run [.send ⟨0, []⟩ 1, .setTimer 1 (-2), .sendLocal ⟨3, []⟩] = none ∧
    (({} : PyCtx).run [.send ⟨0, []⟩ 1, .setTimer 1 2, .sendLocal ⟨3, []⟩]).isSome = true := by decide

/-- non-vacuity: a handler mixing all kinds of calls -/
example : relay ((({} : PyCtx).run [.setTimer 1 3, .send ⟨0, [1]⟩ 2, .cancelTimer 1, .sendLocal ⟨5, []⟩, .setTimerOnce 2 0]).getD {}) =
    [.send ⟨0, [1]⟩ 2, .loc ⟨5, []⟩, .set 1 3 false, .cancel 1, .set 2 0 true] := by decide

end Anysystem
