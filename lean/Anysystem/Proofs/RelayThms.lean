import Anysystem.Model.Relay
/-! Statements about the Python bridge relay (C18). -/
namespace Anysystem

/-- every kind-list of the relayed actions is the sub-list of the calls of that kind, in issue order -/
theorem run_lists (calls : List PyCall) : ∀ (c c' : PyCtx), c.run calls = some c' →
    c'.sent.map (fun x => Action.send x.1 x.2) =
      c.sent.map (fun x => Action.send x.1 x.2) ++ (calls.map PyCall.toAction).filter Action.isSend ∧
    c'.locals.map Action.loc = c.locals.map Action.loc ++ (calls.map PyCall.toAction).filter Action.isLoc ∧
    c'.timers.map decodeTimer = c.timers.map decodeTimer ++ (calls.map PyCall.toAction).filter Action.isTimerOp := by
  induction calls with
  | nil =>
    intro c c' h
    simp only [PyCtx.run, Option.some.injEq] at h
    subst h
    simp
  | cons x xs ih =>
    intro c c' h
    cases x with
    | send m dst =>
      simp only [PyCtx.run, PyCtx.call] at h
      have := ih _ _ h
      simpa [List.filter_cons, PyCall.toAction, Action.isSend, Action.isLoc, Action.isTimerOp,
        List.append_assoc] using this
    | sendLocal m =>
      simp only [PyCtx.run, PyCtx.call] at h
      have := ih _ _ h
      simpa [List.filter_cons, PyCall.toAction, Action.isSend, Action.isLoc, Action.isTimerOp,
        List.append_assoc] using this
    | setTimer n d =>
      by_cases hd : d < 0
      · simp [PyCtx.run, PyCtx.call, hd] at h
      · simp only [PyCtx.run, PyCtx.call, if_neg hd] at h
        have := ih _ _ h
        simpa [List.filter_cons, PyCall.toAction, Action.isSend, Action.isLoc, Action.isTimerOp,
          decodeTimer, hd, List.append_assoc] using this
    | setTimerOnce n d =>
      by_cases hd : d < 0
      · simp [PyCtx.run, PyCtx.call, hd] at h
      · simp only [PyCtx.run, PyCtx.call, if_neg hd] at h
        have := ih _ _ h
        simpa [List.filter_cons, PyCall.toAction, Action.isSend, Action.isLoc, Action.isTimerOp,
          decodeTimer, hd, List.append_assoc] using this
    | cancelTimer n =>
      simp only [PyCtx.run, PyCtx.call] at h
      have := ih _ _ h
      have hneg : (-1 : Int) < 0 := by decide
      simpa [List.filter_cons, PyCall.toAction, Action.isSend, Action.isLoc, Action.isTimerOp,
        decodeTimer, hneg, List.append_assoc] using this

/-- what the bridge relays for a handler that made `calls` is the canonical reordering of the calls a
    Rust process would make: sends, then local sends, then timer operations, each in issue order with
    unchanged arguments -/
theorem C18_relay_canonical (calls : List PyCall) (c : PyCtx) (h : ({} : PyCtx).run calls = some c) :
    relay c = canonOrder (calls.map PyCall.toAction) := by
  obtain ⟨h1, h2, h3⟩ := run_lists calls {} c h
  simp only [List.map_nil, List.nil_append] at h1 h2 h3
  simp only [relay, canonOrder, h1, h2, h3]

/-- the encoding of timer operations is decoded to exactly the call that was made (on the domain Python accepts) -/
theorem C18_decode_exact (n : Nat) (d : Int) (hd : 0 ≤ d) :
    decodeTimer (n, d, false) = .set n d.toNat false ∧ decodeTimer (n, d, true) = .set n d.toNat true ∧
    decodeTimer (n, -1, false) = .cancel n := by
  have hd' : ¬ d < 0 := by omega
  refine ⟨?_, ?_, ?_⟩
  · simp [decodeTimer, hd']
  · simp [decodeTimer, hd']
  · simp [decodeTimer]

/-- a negative delay is rejected by Python: the handler fails and nothing is relayed -/
theorem C18_negative_delay_raises (c : PyCtx) (n : Nat) (d : Int) (hd : d < 0) :
    c.call (.setTimer n d) = none ∧ c.call (.setTimerOnce n d) = none := by
  simp [PyCtx.call, hd]

/-- a handler that makes a rejected call fails as a whole -/
theorem C18_failing_call_fails_handler (pre post : List PyCall) (x : PyCall) (c c1 : PyCtx)
    (hpre : c.run pre = some c1) (hx : c1.call x = none) : c.run (pre ++ x :: post) = none := by
  induction pre generalizing c with
  | nil =>
    simp only [PyCtx.run, Option.some.injEq] at hpre
    subst hpre
    simp [PyCtx.run, hx]
  | cons y ys ih =>
    simp only [PyCtx.run, List.cons_append] at hpre ⊢
    cases hy : c.call y with
    | none => simp [hy] at hpre
    | some c2 =>
      rw [hy] at hpre
      simp only
      exact ih c2 hpre

/-- non-vacuity: a handler mixing all kinds of calls -/
example : relay ((({} : PyCtx).run [.setTimer 1 3, .send ⟨0, [1]⟩ 2, .cancelTimer 1, .sendLocal ⟨5, []⟩, .setTimerOnce 2 0]).getD {}) =
    [.send ⟨0, [1]⟩ 2, .loc ⟨5, []⟩, .set 1 3 false, .cancel 1, .set 2 0 true] := by decide

end Anysystem
