import Anysystem.Proofs.SimDelivery
import Anysystem.Proofs.SimFates
/-!
# Helper lemmas for `SimDeliveryDup.lean`

* `SimNet.cfg`, `SimNet.NoLoss`: the settings of the network (everything but its three counters), and "no loss": drop rate
  not positive, no link control on;
* `dropCount` / `recvCount` under the bookkeeping primitives;
* `KeepD`: the bookkeeping relation `Keep` of `SimDeliveryLemmas.lean` plus "no `MessageDropped` entry is written";
* `sendMessage_fate_z`: `sendMessage_fate` (`SimFates.lean`) without the hypothesis that four draws are left, under the
  hypothesis that the value an exhausted stream yields (`zero`) is itself a draw (as in `SimTraceInv.lean`).
-/
namespace Anysystem

set_option linter.unusedSectionVars false

variable {σ T : Type} [TimeOps T]

/-- the settings of the network: everything but the three counters -/
def SimNet.cfg (n : SimNet T) : SimNet T := { n with networkMessageCount := 0, messageCount := 0, traffic := 0 }

/-- nothing is lost on the way: the drop rate is not positive and no link control is on -/
def SimNet.NoLoss (n : SimNet T) : Prop :=
  TimeOps.lt TimeOps.zero n.dropRate = false ∧ n.dropOutgoing = [] ∧ n.dropIncoming = [] ∧ n.disabledLinks = []

/-- the identifier of a `MessageDropped` entry -/
def SLog.fd_dropOf : SLog T → Option Nat
  | .dropped _ mid _ _ _ _ _ => some mid
  | _ => none

/-- the identifier of a `MessageReceived` entry -/
def SLog.fd_recvOf : SLog T → Option Nat
  | .recv _ mid _ _ _ _ _ => some mid
  | _ => none

theorem SLog.fd_dropOf_of_fate (x : SLog T) (h : x.fateOf = none) : x.fd_dropOf = none := by
  cases x <;> simp_all [SLog.fateOf, SLog.fd_dropOf]

theorem SLog.fd_recvOf_of_fate (x : SLog T) (h : x.fateOf = none) : x.fd_recvOf = none := by
  cases x <;> simp_all [SLog.fateOf, SLog.fd_recvOf]

namespace Sim

theorem fd_dropCount_eq (s : Sim σ T) (mid : Nat) :
    s.dropCount mid = (s.trace.filter (fun x => x.fd_dropOf == some mid)).length := by
  unfold dropCount
  congr 1
  apply List.filter_congr
  intro x _
  cases x <;> simp [SLog.fd_dropOf]

theorem fd_recvCount_eq (s : Sim σ T) (mid : Nat) :
    s.recvCount mid = (s.trace.filter (fun x => x.fd_recvOf == some mid)).length := by
  unfold recvCount
  congr 1
  apply List.filter_congr
  intro x _
  cases x <;> simp [SLog.fd_recvOf]

theorem fd_dropCount_of_trace {s s' : Sim σ T} (h : s'.trace = s.trace) (mid : Nat) :
    s'.dropCount mid = s.dropCount mid := by
  unfold dropCount; rw [h]

theorem fd_recvCount_of_trace {s s' : Sim σ T} (h : s'.trace = s.trace) (mid : Nat) :
    s'.recvCount mid = s.recvCount mid := by
  unfold recvCount; rw [h]

theorem fd_dropCount_append {s s' : Sim σ T} (extra : List (SLog T)) (h : s'.trace = s.trace ++ extra) (mid : Nat) :
    s'.dropCount mid = s.dropCount mid + (extra.filter (fun x => x.fd_dropOf == some mid)).length := by
  rw [fd_dropCount_eq, fd_dropCount_eq, h, List.filter_append, List.length_append]

theorem fd_recvCount_append {s s' : Sim σ T} (extra : List (SLog T)) (h : s'.trace = s.trace ++ extra) (mid : Nat) :
    s'.recvCount mid = s.recvCount mid + (extra.filter (fun x => x.fd_recvOf == some mid)).length := by
  rw [fd_recvCount_eq, fd_recvCount_eq, h, List.filter_append, List.length_append]

/-- logging an entry that is not a `MessageDropped` -/
theorem fd_dropCount_log (s : Sim σ T) (x : SLog T) (hx : x.fd_dropOf = none) (mid : Nat) :
    (s.log x).dropCount mid = s.dropCount mid := by
  rw [fd_dropCount_append (s := s) (s' := s.log x) [x] rfl]
  simp [hx]

/-- the settings are those of the network -/
theorem fd_noLoss_cfg (n : SimNet T) : n.cfg.NoLoss ↔ n.NoLoss := Iff.rfl

/-! ### the bookkeeping relation, with the drops -/

/-- `Keep` (fates plus live copies of every message kept exactly, handlers, addressing, cancellations, timer tables) and no
    `MessageDropped` entry written -/
structure KeepD (H : List Nat) (s s' : Sim σ T) : Prop where
  keep : Keep H s s'
  drops : ∀ mid, s'.dropCount mid = s.dropCount mid

theorem KeepD.updProc {H : List Nat} (s : Sim σ T) (n p : Nat) (f : SProc σ T → SProc σ T)
    (hf : ∀ e name id, amGet? name (f e).pending = some id → amGet? name e.pending = some id ∨ s.TimerId id) :
    KeepD H s (s.updProc n p f) :=
  ⟨Keep.updProc s n p f hf, fd_dropCount_of_trace (by simp)⟩

theorem KeepD.updProc' {H : List Nat} (s : Sim σ T) (n p : Nat) (f : SProc σ T → SProc σ T)
    (hf : ∀ e, (f e).pending = e.pending) : KeepD H s (s.updProc n p f) :=
  ⟨Keep.updProc' s n p f hf, fd_dropCount_of_trace (by simp)⟩

theorem KeepD.setLocalCount {H : List Nat} (s : Sim σ T) (n : Nat) {nd : SNode σ T} (hn : amGet? n s.nodes = some nd)
    (c : Nat) : KeepD H s (s.setNode n { nd with localCount := c }) :=
  ⟨Keep.setLocalCount s n hn c, fd_dropCount_of_trace rfl⟩

theorem KeepD.dropDraws {H : List Nat} (s : Sim σ T) (k : Nat) : KeepD H s { s with draws := s.draws.drop k } :=
  ⟨Keep.dropDraws s k, fd_dropCount_of_trace rfl⟩

theorem KeepD.log {H : List Nat} (s : Sim σ T) (x : SLog T) (hx : x.sentId = none ∧ x.fateOf = none) :
    KeepD H s (s.log x) :=
  ⟨Keep.log s x hx, fd_dropCount_log s x (x.fd_dropOf_of_fate hx.2)⟩

theorem KeepD.cancelEvent {H : List Nat} (s : Sim σ T) (id : Nat) (hid : s.TimerId id) : KeepD H s (s.cancelEvent id) :=
  ⟨Keep.cancelEvent s id hid, fd_dropCount_of_trace rfl⟩

theorem KeepD.addTimer {H : List Nat} (s : Sim σ T) (p name src dst : Nat) (d : T) (hdst : dst ∈ H) :
    KeepD H s (s.addEvent (.timer p name) src dst d).1 :=
  ⟨Keep.addTimer s p name src dst d hdst, fd_dropCount_of_trace rfl⟩

theorem KeepD.pop {H : List Nat} {fuel : Nat} {s s1 : Sim σ T} {o : Option (QEv T)} (hwf : s.QueueWF)
    (hpop : nextEvent fuel s = (o, s1)) (ho : ∀ e, o = some e → e.data.mid? = none) : KeepD H s s1 :=
  ⟨Keep.pop hwf hpop ho, fd_dropCount_of_trace (nextEvent_frame fuel s s1 _ hpop).1⟩

/-- popping a copy of `mid` and logging its `MessageReceived` entry -/
theorem KeepD.pop_recv {H : List Nat} {fuel : Nat} {s s1 : Sim σ T} {e : QEv T} (hwf : s.QueueWF)
    (hpop : nextEvent fuel s = (some e, s1)) (mid : Nat) (hmid : e.data.mid? = some mid) (x : SLog T)
    (hx1 : x.sentId = none) (hx2 : x.fateOf = some mid) (hx3 : x.fd_dropOf = none) : KeepD H s (s1.log x) := by
  refine ⟨Keep.pop_fate hwf hpop mid hmid x hx1 hx2, ?_⟩
  intro mid'
  rw [fd_dropCount_log s1 x hx3]
  exact fd_dropCount_of_trace (nextEvent_frame fuel s s1 _ hpop).1 mid'

end Sim

/-! ### the fate of one cross-node send, when `zero` counts as a draw -/

section fate
variable [LawfulTime T]
open Sim

/-- `sendMessage_fate` without a bound on the number of draws left: an exhausted stream yields `zero`, a lawful draw -/
theorem Sim.sendMessage_fate_z (s s' : Sim σ T) (m : Msg) (src dst sn dn tipLen : Nat)
    (hs : amGet? src s.net.procLoc = some sn) (hd : amGet? dst s.net.procLoc = some dn) (hne : sn ≠ dn)
    (hdraws : ∀ d ∈ s.draws, LawfulTime.isDraw d) (hzero : LawfulTime.isDraw (TimeOps.zero : T))
    (hok : s.sendMessage m src dst tipLen = .ok s') :
    ∃ k corrupted, SendFate s s' m src dst sn dn tipLen k corrupted := by
  rw [sendMessage_cross s m src dst sn dn tipLen hs hd hne] at hok
  have hok' := Except.ok.inj hok
  subst hok'
  cases hdr : s.sendDropped sn dn with
  | true =>
    rw [cross_dropped _ _ _ _ _ _ _ hdr]
    have hdr' := hdr
    rw [sendDropped_eq, Bool.or_eq_true] at hdr'
    refine ⟨0, false, ⟨by omega, ⟨fun _ => TimeOps.zero, by simp⟩, rfl, ⟨rfl, rfl, rfl, rfl, rfl, rfl⟩,
      ⟨1, by omega, rfl⟩, ⟨fun _ => hdr', fun _ => rfl⟩, by simp, ?_, (by intro h; cases h), by omega⟩⟩
    intro _ hcut
    rcases hdr' with h | h
    · exact lt_zero_of_le_of_lt _ _ (dr_nonneg _ hdraws 0) h
    · rw [hcut] at h; cases h
  | false =>
    rw [cross_passed _ _ _ _ _ _ _ hdr]
    have hcnt := sendCount_bounds' s hdraws hzero
    have hdr' := hdr
    rw [sendDropped_eq, Bool.or_eq_false_iff] at hdr'
    have hk0 : s.sendCount ≠ 0 := by omega
    refine ⟨s.sendCount, TimeOps.lt (dr s.draws 1) s.net.corruptRate,
      ⟨hcnt.2, ⟨fun i => (copyEv s (.msg s.net.messageCount (s.sendPayload m) src sn dst dn) sn dn s.sendBase i).time, rfl⟩,
        rfl, ⟨rfl, rfl, rfl, rfl, rfl, rfl⟩, ⟨s.sendBase + s.sendCount, by have := sendBase_le s; omega, rfl⟩,
        ⟨fun h => absurd h hk0, ?_⟩, by simp [hk0], fun h => absurd h hk0, ?_, ?_⟩⟩
    · rintro (h | h)
      · rw [hdr'.1] at h; cases h
      · rw [hdr'.2] at h; cases h
    · intro hc
      exact ⟨hcnt.1, lt_zero_of_le_of_lt _ _ (dr_nonneg _ hdraws 1) hc⟩
    · intro h2
      cases hdup : s.sendDup with
      | false => simp [sendCount, hdup] at h2
      | true => exact lt_zero_of_le_of_lt _ _ (dr_nonneg _ hdraws 2) hdup

/-- without loss, a cross-node send is not dropped -/
theorem Sim.fd_noLoss_not_dropped (s : Sim σ T) (sn dn : Nat) (hdraws : ∀ d ∈ s.draws, LawfulTime.isDraw d)
    (hzero : LawfulTime.isDraw (TimeOps.zero : T)) (hnl : s.net.NoLoss) :
    ¬ (TimeOps.lt (dr s.draws 0) s.net.dropRate = true ∨ s.pathCut sn dn = true) := by
  obtain ⟨h1, h2, h3, h4⟩ := hnl
  rintro (h | h)
  · rw [lt_draw_false _ _ (dr_isDraw _ hdraws hzero 0) h1] at h
    cases h
  · simp [pathCut, h2, h3, h4] at h

end fate

end Anysystem
