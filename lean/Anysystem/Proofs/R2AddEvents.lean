import Anysystem.Proofs.R2Events
/-!
# `add_events` refines the reference effect of the produced events
-/
set_option linter.unusedSimpArgs false
namespace Anysystem

variable {σ : Type}

theorem WFTopo.congr {s s2 : McSys σ} (h : WFTopo s) (hn : s2.nodes = s.nodes)
    (hl : s2.net.procLoc = s.net.procLoc) : WFTopo s2 where
  nodes_nodup := by rw [hn]; exact h.nodes_nodup
  procs_nodup := by simp only [procsOf, hn]; exact h.procs_nodup
  loc_of_proc := by rw [hn, hl]; exact h.loc_of_proc
  proc_of_loc := by rw [hn, hl]; exact h.proc_of_loc

theorem SortedTopo.congr {s s2 : McSys σ} (h : SortedTopo s) (hn : s2.nodes = s.nodes) :
    SortedTopo s2 where
  nodes_sorted := by rw [hn]; exact h.nodes_sorted
  procs_sorted := by rw [hn]; exact h.procs_sorted

/-- rebuild the store-level relation after a change of the store and of the flights / timers -/
theorem SimS.transfer {s s2 : McSys σ} {r r2 : RState σ} {a a2 : AStore} (hs : SimS s r a)
    (hn : s2.nodes = s.nodes) (hnet : s2.net = s.net) (hrnet : r2.net = r.net)
    (hcr : r2.crashedNodes = r.crashedNodes)
    (rep : Rep s2.events a2) (flights : r2.flights = flightsOf a2.pending)
    (timers : r2.timers = timersOf a2.pending) (uniq : r2.timersUnique)
    (tm : ∀ id p name d, (id, Ev.timer p name d) ∈ a2.pending → amGet? (p, name) a2.tm = some id)
    (clean_msg : ∀ id m src dst o, (id, Ev.msg m src dst o) ∈ a2.pending →
      r.procCrashed src = false ∧ r.procCrashed dst = false)
    (clean_timer : ∀ id p name d, (id, Ev.timer p name d) ∈ a2.pending → r.procCrashed p = false) :
    SimS s2 r2 a2 where
  topo := hs.topo.congr hn (by rw [hnet])
  sorted := hs.sorted.congr hn
  rep := rep
  flights := flights
  timers := timers
  crashed := by rw [hn, hcr]; exact hs.crashed
  net := by rw [hrnet, hnet]; exact hs.net
  uniq := uniq
  tm := tm
  clean_msg := by
    intro id m src dst o hx
    have hc : ∀ q, r2.procCrashed q = r.procCrashed q := procCrashed_congr (by rw [hrnet]) hcr
    rw [hc, hc]
    exact clean_msg id m src dst o hx
  clean_timer := by
    intro id p name d hx
    have hc : ∀ q, r2.procCrashed q = r.procCrashed q := procCrashed_congr (by rw [hrnet]) hcr
    rw [hc]
    exact clean_timer id p name d hx

/-! ## store operations through `Rep.step` -/

theorem Rep.push_ok {s : Store} {a a' : AStore} {e : Ev} {id : Nat} (h : Rep s a)
    (hs : a.step (.push e) = some (a', .id id)) : ∃ st, s.push e = .ok (st, id) ∧ Rep st a' := by
  obtain ⟨st, hop, hr⟩ := h.step hs
  simp only [Store.stepOp] at hop
  cases hp : s.push e with
  | error err => simp [hp] at hop
  | ok v =>
    obtain ⟨st', id'⟩ := v
    simp only [hp, Except.ok.injEq, Prod.mk.injEq, Out.id.injEq] at hop
    obtain ⟨rfl, rfl⟩ := hop
    exact ⟨st', rfl, hr⟩

theorem Rep.push_msg {s : Store} {a : AStore} (h : Rep s a) (m : Msg) (src dst : Nat) (o : Opts) :
    ∃ st, s.push (.msg m src dst o) = .ok (st, a.next) ∧
      Rep st { a with pending := a.pending ++ [(a.next, .msg m src dst o)], next := a.next + 1 } :=
  h.push_ok (by simp [AStore.step, Ev.isMsg])

theorem Rep.push_timer {s : Store} {a : AStore} (h : Rep s a) (p n d : Nat) :
    ∃ st, s.push (.timer p n d) = .ok (st, a.next) ∧
      Rep st { pending := a.pending ++ [(a.next, .timer p n d)],
               tm := amInsert pairLt (p, n) a.next a.tm, next := a.next + 1 } :=
  h.push_ok (by simp [AStore.step, Ev.isMsg])

/-! ## one event -/

theorem mem_timers_of_pending {r : RState σ} {p n : Nat} (h : r.timerPending p n = true) :
    ∃ t ∈ r.timers, t.proc = p ∧ t.name = n := by
  simp only [RState.timerPending, List.any_eq_true, Bool.and_eq_true, beq_iff_eq] at h
  exact h

theorem not_pending_iff {r : RState σ} {p n : Nat} :
    r.timerPending p n = false ↔ ∀ t ∈ r.timers, ¬ (t.proc = p ∧ t.name = n) := by
  simp only [RState.timerPending, List.any_eq_false, Bool.and_eq_true, beq_iff_eq]

theorem step_msg_push {s : McSys σ} {r : RState σ} {a : AStore} (hs : SimS s r a) (m : Msg) (src dst : Nat)
    (o : Opts) (hca : r.procCrashed src = false) (hcb : r.procCrashed dst = false) :
    ∃ st a', s.events.push (.msg m src dst o) = .ok (st, a.next) ∧
      SimS { s with events := st } { r with flights := r.flights ++ [⟨m, src, dst, o⟩] } a' := by
  obtain ⟨st, hp, hr⟩ := hs.rep.push_msg m src dst o
  refine ⟨st, _, hp, hs.transfer rfl rfl rfl rfl hr ?_ ?_ hs.uniq ?_ ?_ ?_⟩
  · simp [flightsOf_append, flightsOf_cons_msg, hs.flights]
  · simp [timersOf_append, timersOf_cons_msg, hs.timers]
  · intro id p name d hx
    simp only [List.mem_append, List.mem_singleton, Prod.mk.injEq] at hx
    rcases hx with hx | ⟨_, hx⟩
    · exact hs.tm id p name d hx
    · cases hx
  · intro id m' src' dst' o' hx
    simp only [List.mem_append, List.mem_singleton, Prod.mk.injEq, Ev.msg.injEq] at hx
    rcases hx with hx | ⟨_, _, rfl, rfl, _⟩
    · exact hs.clean_msg id m' src' dst' o' hx
    · exact ⟨hca, hcb⟩
  · intro id p name d hx
    simp only [List.mem_append, List.mem_singleton, Prod.mk.injEq] at hx
    rcases hx with hx | ⟨_, hx⟩
    · exact hs.clean_timer id p name d hx
    · cases hx

theorem step_timer_push {s : McSys σ} {r : RState σ} {a : AStore} (hs : SimS s r a) (p n d : Nat)
    (hnp : r.timerPending p n = false) (hc : r.procCrashed p = false) :
    ∃ st a', s.events.push (.timer p n d) = .ok (st, a.next) ∧
      SimS { s with events := st } { r with timers := r.timers ++ [⟨p, n, d⟩] } a' := by
  obtain ⟨st, hp, hr⟩ := hs.rep.push_timer p n d
  rw [not_pending_iff] at hnp
  refine ⟨st, _, hp, hs.transfer rfl rfl rfl rfl hr ?_ ?_ ?_ ?_ ?_ ?_⟩
  · simp [flightsOf_append, flightsOf_cons_timer, hs.flights]
  · simp [timersOf_append, timersOf_cons_timer, hs.timers]
  · have hu := hs.uniq
    simp only [RState.timersUnique] at hu ⊢
    rw [List.pairwise_append]
    refine ⟨hu, by simp, ?_⟩
    intro t ht u hu'
    simp only [List.mem_singleton] at hu'
    subst hu'
    exact hnp t ht
  · intro id p' name d' hx
    simp only [List.mem_append, List.mem_singleton, Prod.mk.injEq, Ev.timer.injEq] at hx
    rcases hx with hx | ⟨rfl, rfl, rfl, rfl⟩
    · have hne : ¬ (p', name) = (p, n) := by
        intro e
        simp only [Prod.mk.injEq] at e
        have hm : (⟨p', name, d'⟩ : PTimer) ∈ r.timers := by
          rw [hs.timers, mem_timersOf]; exact ⟨id, hx⟩
        exact hnp _ hm e
      simp only [amGet?_amInsert, hne, ↓reduceIte]
      exact hs.tm id p' name d' hx
    · simp [amGet?_amInsert]
  · intro id m' src' dst' o' hx
    simp only [List.mem_append, List.mem_singleton, Prod.mk.injEq] at hx
    rcases hx with hx | ⟨_, hx⟩
    · exact hs.clean_msg id m' src' dst' o' hx
    · cases hx
  · intro id p' name d' hx
    simp only [List.mem_append, List.mem_singleton, Prod.mk.injEq, Ev.timer.injEq] at hx
    rcases hx with hx | ⟨_, rfl, _, _⟩
    · exact hs.clean_timer id p' name d' hx
    · exact hc

theorem filterMap_filter_of {α β : Type} (g : α → Option β) (q : α → Bool) (q' : β → Bool) (A : List α)
    (h : ∀ x ∈ A, ∀ b, g x = some b → q x = q' b) :
    (A.filter q).filterMap g = (A.filterMap g).filter q' := by
  induction A with
  | nil => rfl
  | cons x xs ih =>
    have ih := ih (fun y hy => h y (List.mem_cons_of_mem _ hy))
    cases hg : g x with
    | none =>
      rw [List.filterMap_cons_none hg, ← ih, List.filter_cons]
      split
      · rw [List.filterMap_cons_none hg]
      · rfl
    | some b =>
      have hq := h x (List.mem_cons_self) b hg
      rw [List.filterMap_cons_some hg, List.filter_cons, List.filter_cons, ← hq]
      split
      · rw [List.filterMap_cons_some hg, ih]
      · exact ih

theorem filterMap_filter_true {α β : Type} (g : α → Option β) (q : α → Bool) (A : List α)
    (h : ∀ x ∈ A, ∀ b, g x = some b → q x = true) :
    (A.filter q).filterMap g = A.filterMap g := by
  have := filterMap_filter_of g q (fun _ => true) A h
  rw [this]
  exact List.filter_eq_self.mpr (by simp)

theorem step_cancel {s : McSys σ} {r : RState σ} {a : AStore} (hs : SimS s r a) (p n : Nat)
    (hp : r.timerPending p n = true) :
    ∃ st a', s.events.cancelTimer {} p n = .ok st ∧
      SimS { s with events := st } (r.removeTimer p n) a' := by
  obtain ⟨t, ht, rfl, rfl⟩ := mem_timers_of_pending hp
  rw [hs.timers, mem_timersOf] at ht
  obtain ⟨id, hid⟩ := ht
  have htm := hs.tm id _ _ _ hid
  have hnd := hs.rep.inv.nodup
  have hstep : a.step (.cancelTimer t.proc t.name) =
      some ({ (a.erase id) with tm := amErase (t.proc, t.name) a.tm }, .unit) := by
    simp [AStore.step, htm]
  obtain ⟨st, hc, hr, _⟩ := hs.rep.cancelTimer t.proc t.name hstep
  -- an entry has id `id` iff it is a timer `(t.proc, t.name)`
  have hkey : ∀ x ∈ a.pending, (x.1 != id) = (match x.2 with
      | .timer p' n' _ => !(p' == t.proc && n' == t.name)
      | _ => true) := by
    intro x hx
    obtain ⟨id', ev⟩ := x
    by_cases hi : id' = id
    · subst hi
      have h1 := amGet?_of_mem_nodup hnd hx
      have h2 := amGet?_of_mem_nodup hnd hid
      rw [h1] at h2
      simp only [Option.some.injEq] at h2
      subst h2
      simp
    · have hi' : (id' != id) = true := by simpa using hi
      simp only [hi']
      cases ev with
      | timer p' n' d' =>
        simp only
        by_cases hpn : p' = t.proc ∧ n' = t.name
        · obtain ⟨rfl, rfl⟩ := hpn
          have := hs.tm id' _ _ _ hx
          rw [htm] at this
          simp only [Option.some.injEq] at this
          exact absurd this.symm hi
        · have : (p' == t.proc && n' == t.name) = false := by
            rw [Bool.and_eq_false_iff]
            by_cases h1 : p' = t.proc
            · right; simpa using fun e => hpn ⟨h1, e⟩
            · left; simpa using h1
          simp [this]
      | _ => rfl
  refine ⟨st, _, hc, hs.transfer rfl rfl rfl rfl hr ?_ ?_ ?_ ?_ ?_ ?_⟩
  · simp only [RState.removeTimer, AStore.erase, hs.flights, flightsOf]
    symm
    apply filterMap_filter_true
    intro x hx b hb
    rw [hkey x hx]
    obtain ⟨id', ev⟩ := x
    cases ev <;> simp at hb ⊢
  · simp only [RState.removeTimer, AStore.erase, hs.timers, timersOf]
    symm
    apply filterMap_filter_of
    intro x hx b hb
    rw [hkey x hx]
    obtain ⟨id', ev⟩ := x
    cases ev <;> simp at hb ⊢
    subst hb
    simp
  · have hu := hs.uniq
    simp only [RState.timersUnique, RState.removeTimer] at hu ⊢
    exact hu.filter _
  · intro id' p' name d' hx
    simp only [AStore.erase, List.mem_filter, bne_iff_ne, ne_eq] at hx
    have hne : ¬ (p', name) = (t.proc, t.name) := by
      intro e
      simp only [Prod.mk.injEq] at e
      obtain ⟨rfl, rfl⟩ := e
      have := hs.tm id' _ _ _ hx.1
      rw [htm] at this
      simp only [Option.some.injEq] at this
      exact hx.2 this.symm
    simp only [amGet?_amErase, hne, ↓reduceIte]
    exact hs.tm id' p' name d' hx.1
  · intro id' m' src' dst' o' hx
    simp only [AStore.erase, List.mem_filter] at hx
    exact hs.clean_msg id' m' src' dst' o' hx.1
  · intro id' p' name d' hx
    simp only [AStore.erase, List.mem_filter] at hx
    exact hs.clean_timer id' p' name d' hx.1

/-! ## the reference effect of a message event, by outcome -/

theorem addEv_msg_push {r : RState σ} {m : Msg} {src dst : Nat} (o0 : Opts) {o : Opts}
    (hsend : r.net.sendMessage m src dst = .ok (.msg m src dst o))
    (ha : r.procCrashed src = false) (hb : r.procCrashed dst = false) :
    r.addEv (.msg m src dst o0) = ({ r with flights := r.flights ++ [⟨m, src, dst, o⟩] }, []) := by
  simp [RState.addEv, hsend, ha, hb]

theorem addEv_msg_crashed {r : RState σ} {m : Msg} {src dst : Nat} (o0 : Opts) {o : Opts}
    (hsend : r.net.sendMessage m src dst = .ok (.msg m src dst o))
    (hab : (r.procCrashed src || r.procCrashed dst) = true) :
    r.addEv (.msg m src dst o0) = (r, [LogE.dropped m src dst]) := by
  simp only [RState.addEv, hsend, hab, ↓reduceIte]

theorem addEv_msg_dropped {r : RState σ} {m : Msg} {src dst : Nat} (o0 : Opts)
    (hsend : r.net.sendMessage m src dst = .ok (.dropped m src dst none)) :
    r.addEv (.msg m src dst o0) = (r, [LogE.dropped m src dst]) := by
  simp only [RState.addEv, hsend]

theorem SimS.with_trace {s : McSys σ} {r : RState σ} {a : AStore} (hs : SimS s r a) (T : List LogE) :
    SimS { s with trace := T } r a :=
  hs.transfer rfl rfl rfl rfl hs.rep hs.flights hs.timers hs.uniq hs.tm hs.clean_msg hs.clean_timer

/-! ## the whole list -/

theorem addEvents_refines (evs : List Ev) : ∀ {s : McSys σ} {r : RState σ} {a : AStore},
    SimS s r a → r.evsOK evs → evsKnown s evs →
    ∃ s' a', McSys.addEvents {} evs s = .ok s' ∧ SimS s' (r.addEvs evs).1 a' ∧ s'.nodes = s.nodes ∧
      s'.net = s.net ∧ s'.mode = s.mode ∧ s'.trace = s.trace ++ (r.addEvs evs).2 := by
  induction evs with
  | nil =>
    intro s r a hs _ _
    exact ⟨s, a, rfl, hs, rfl, rfl, rfl, by simp [RState.addEvs]⟩
  | cons ev rest ih =>
    intro s r a hs hok hk
    have hkrest : ∀ s1 : McSys σ, s1.net = s.net → evsKnown s1 rest := by
      intro s1 h1 m src dst o hm
      rw [h1]
      exact hk m src dst o (List.mem_cons_of_mem _ hm)
    simp only [RState.evsOK] at hok
    obtain ⟨hev, hokrest⟩ := hok
    cases ev with
    | msg m src dst o0 =>
      obtain ⟨hks, hkd⟩ := hk m src dst o0 List.mem_cons_self
      obtain ⟨ba, hsa, hra⟩ := procCrashed_known hs hks
      obtain ⟨bb, hsb, hrb⟩ := procCrashed_known hs hkd
      rcases sendMessage_cases s.net m hks hkd with ⟨o, hsend⟩ | hsend
      · have hsend' : r.net.sendMessage m src dst = .ok (.msg m src dst o) := by rw [hs.net]; exact hsend
        cases hab : (ba || bb) with
        | false =>
          simp only [Bool.or_eq_false_iff] at hab
          obtain ⟨rfl, rfl⟩ := hab
          obtain ⟨st, a1, hp, hs1⟩ := step_msg_push hs m src dst o hra hrb
          have hae := addEv_msg_push o0 hsend' hra hrb
          rw [hae] at hokrest
          obtain ⟨s', a', h1, h2, h3, h4, h5, h6⟩ := ih hs1 hokrest (hkrest _ rfl)
          refine ⟨s', a', ?_, ?_, h3, h4, h5, ?_⟩
          · rw [addEvents_msg_push s o0 rest hsend hsa hsb, hp]
            exact h1
          · simp only [RState.addEvs, hae]; exact h2
          · simp only [RState.addEvs, hae, List.nil_append]; exact h6
        | true =>
          have hab' : (r.procCrashed src || r.procCrashed dst) = true := by rw [hra, hrb]; exact hab
          have hae := addEv_msg_crashed o0 hsend' hab'
          rw [hae] at hokrest
          obtain ⟨s', a', h1, h2, h3, h4, h5, h6⟩ :=
            ih (hs.with_trace (s.trace ++ [.dropped m src dst])) hokrest (hkrest _ rfl)
          refine ⟨s', a', ?_, ?_, h3, h4, h5, ?_⟩
          · rw [addEvents_msg_crashed s o0 rest hsend hsa hsb hab]
            exact h1
          · simp only [RState.addEvs, hae]; exact h2
          · simp only [RState.addEvs, hae]
            rw [h6]; simp
      · have hsend' : r.net.sendMessage m src dst = .ok (.dropped m src dst none) := by
          rw [hs.net]; exact hsend
        have hae := addEv_msg_dropped o0 hsend'
        rw [hae] at hokrest
        obtain ⟨s', a', h1, h2, h3, h4, h5, h6⟩ :=
          ih (hs.with_trace (s.trace ++ [.dropped m src dst])) hokrest (hkrest _ rfl)
        refine ⟨s', a', ?_, ?_, h3, h4, h5, ?_⟩
        · rw [addEvents_msg_dropped s o0 rest hsend]
          exact h1
        · simp only [RState.addEvs, hae]; exact h2
        · simp only [RState.addEvs, hae]
          rw [h6]; simp
    | timer p n d =>
      simp only [RState.evOK] at hev
      obtain ⟨st, a1, hp, hs1⟩ := step_timer_push hs p n d hev.1 hev.2
      have hae : r.addEv (.timer p n d) = ({ r with timers := r.timers ++ [⟨p, n, d⟩] }, []) := rfl
      rw [hae] at hokrest
      obtain ⟨s', a', h1, h2, h3, h4, h5, h6⟩ := ih hs1 hokrest (hkrest _ rfl)
      refine ⟨s', a', ?_, ?_, h3, h4, h5, ?_⟩
      · rw [addEvents_timer, hp]
        exact h1
      · simp only [RState.addEvs, hae]; exact h2
      · simp only [RState.addEvs, hae, List.nil_append]; exact h6
    | timerCancelled p n =>
      simp only [RState.evOK] at hev
      obtain ⟨st, a1, hp, hs1⟩ := step_cancel hs p n hev
      have hae : r.addEv (.timerCancelled p n) = (r.removeTimer p n, []) := rfl
      rw [hae] at hokrest
      obtain ⟨s', a', h1, h2, h3, h4, h5, h6⟩ := ih hs1 hokrest (hkrest _ rfl)
      refine ⟨s', a', ?_, ?_, h3, h4, h5, ?_⟩
      · rw [addEvents_cancel, hp]
        exact h1
      · simp only [RState.addEvs, hae]; exact h2
      · simp only [RState.addEvs, hae, List.nil_append]; exact h6
    | dropped _ _ _ _ => exact absurd hev (by simp [RState.evOK])
    | duplicated _ _ _ _ => exact absurd hev (by simp [RState.evOK])
    | corrupted _ _ _ _ _ => exact absurd hev (by simp [RState.evOK])

/-! ## what a successful `add_events` tells -/

theorem addEvents_cons_ok {cfg : Cfg} {ev : Ev} {rest : List Ev} {s s' : McSys σ}
    (h : McSys.addEvents cfg (ev :: rest) s = .ok s') :
    ∃ s1 : McSys σ, s1.net = s.net ∧ s1.mode = s.mode ∧ s1.nodes = s.nodes ∧
      McSys.addEvents cfg rest s1 = .ok s' ∧
      (∀ m src dst o, ev = .msg m src dst o →
        (amGet? src s.net.procLoc).isSome = true ∧ (amGet? dst s.net.procLoc).isSome = true) := by
  have hk : ∀ m src dst o, ev = .msg m src dst o →
      (amGet? src s.net.procLoc).isSome = true ∧ (amGet? dst s.net.procLoc).isSome = true := by
    intro m src dst o he
    subst he
    simp only [McSys.addEvents] at h
    cases hsend : s.net.sendMessage m src dst with
    | error e => simp [hsend] at h
    | ok ev' => exact sendMessage_ok_known hsend
  simp only [McSys.addEvents] at h
  split at h
  · simp at h
  · split at h
    · simp at h
    · refine ⟨_, ?_, ?_, ?_, h, hk⟩ <;> rfl
  · split at h
    · simp at h
    · refine ⟨_, ?_, ?_, ?_, h, hk⟩ <;> rfl
  · split at h
    · simp at h
    · refine ⟨_, ?_, ?_, ?_, h, hk⟩ <;> rfl

theorem addEvents_frame {cfg : Cfg} (evs : List Ev) : ∀ {s s' : McSys σ},
    McSys.addEvents cfg evs s = .ok s' → s'.net = s.net ∧ s'.mode = s.mode ∧ s'.nodes = s.nodes := by
  induction evs with
  | nil =>
    intro s s' h
    simp only [McSys.addEvents, Except.ok.injEq] at h
    subst h
    exact ⟨rfl, rfl, rfl⟩
  | cons ev rest ih =>
    intro s s' h
    obtain ⟨s1, h1, h2, h3, h4, _⟩ := addEvents_cons_ok h
    obtain ⟨g1, g2, g3⟩ := ih h4
    exact ⟨g1.trans h1, g2.trans h2, g3.trans h3⟩

theorem addEvents_known (evs : List Ev) : ∀ {s s' : McSys σ},
    McSys.addEvents {} evs s = .ok s' → evsKnown s evs := by
  induction evs with
  | nil => intro s s' _ m src dst o hm; simp at hm
  | cons ev rest ih =>
    intro s s' h m src dst o hm
    obtain ⟨s1, h1, _, _, h4, hk⟩ := addEvents_cons_ok h
    simp only [List.mem_cons] at hm
    rcases hm with hm | hm
    · exact hk m src dst o hm.symm
    · have := ih h4 m src dst o hm
      rw [h1] at this
      exact this

end Anysystem
