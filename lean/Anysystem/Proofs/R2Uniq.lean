import Anysystem.Spec.RefSpec
/-!
# The reference semantics keeps at most one pending timer per (process, name)
-/
set_option linter.unusedSimpArgs false
namespace Anysystem

variable {σ : Type}

theorem timersUnique_of_timers {r r' : RState σ} (h : r'.timers = r.timers) (hu : r.timersUnique) :
    r'.timersUnique := by
  simp only [RState.timersUnique, h] at hu ⊢
  exact hu

theorem timersUnique_of_sublist {r r' : RState σ} (h : r'.timers.Sublist r.timers) (hu : r.timersUnique) :
    r'.timersUnique := by
  simp only [RState.timersUnique] at hu ⊢
  exact hu.sublist h

theorem act_timersUnique (r : RState σ) (p : Nat) (a : Action) (hu : r.timersUnique) :
    (r.act p a).1.timersUnique := by
  cases a with
  | send m dst =>
    apply timersUnique_of_timers _ hu
    simp only [RState.act]
    split
    · split <;> rfl
    · rfl
    · rfl
  | loc m => exact timersUnique_of_timers rfl hu
  | set name delay once =>
    simp only [RState.act]
    split
    · exact hu
    · simp only [RState.timersUnique, RState.removeTimer] at hu ⊢
      rw [List.pairwise_append]
      refine ⟨hu.filter _, by simp, ?_⟩
      intro t ht u hu'
      simp only [List.mem_singleton] at hu'
      subst hu'
      simp only [List.mem_filter, Bool.not_eq_eq_eq_not, Bool.not_true, Bool.and_eq_false_iff,
        beq_eq_false_iff_ne] at ht
      intro hc
      rcases ht.2 with h1 | h1
      · exact h1 hc.1
      · exact h1 hc.2
  | cancel name =>
    simp only [RState.act]
    split
    · apply timersUnique_of_sublist _ hu
      simp only [RState.removeTimer]
      exact List.filter_sublist
    · exact hu

theorem actsAux_timersUnique (p : Nat) (as : List Action) : ∀ (r : RState σ) (late : List LogE),
    r.timersUnique → (RState.actsAux p as r late).1.timersUnique := by
  induction as with
  | nil => intro r late hu; exact hu
  | cons a rest ih =>
    intro r late hu
    simp only [RState.actsAux]
    exact ih _ _ (act_timersUnique r p a hu)

theorem react_timersUnique (h : Handler σ) {r r' : RState σ} {p : Nat} {i : Input}
    (hu : r.timersUnique) (hstep : r.react h p i = some r') : r'.timersUnique := by
  simp only [RState.react] at hstep
  split at hstep
  · simp at hstep
  · split at hstep
    · simp at hstep
    · simp only [Option.some.injEq] at hstep
      subst hstep
      simp only [RState.acts]
      apply timersUnique_of_timers rfl
      apply actsAux_timersUnique
      exact timersUnique_of_timers rfl hu

/-- the reference semantics keeps the timer contract -/
theorem step_timersUnique_aux (h : Handler σ) {r r' : RState σ} {l : Label}
    (hu : r.timersUnique) (hstep : r.step h l = some r') : r'.timersUnique := by
  cases l with
  | deliver i =>
    simp only [RState.step] at hstep
    split at hstep
    · simp at hstep
    · refine react_timersUnique h ?_ hstep
      exact timersUnique_of_timers rfl hu
  | fire j =>
    simp only [RState.step] at hstep
    split at hstep
    · simp at hstep
    · refine react_timersUnique h ?_ hstep
      exact timersUnique_of_sublist (List.eraseIdx_sublist _ _) hu
  | drop i =>
    simp only [RState.step] at hstep
    split at hstep
    · simp only [Option.some.injEq] at hstep
      subst hstep
      exact timersUnique_of_timers rfl hu
    · simp at hstep
  | dup i =>
    simp only [RState.step] at hstep
    split at hstep
    · simp only [Option.some.injEq] at hstep
      subst hstep
      exact timersUnique_of_timers rfl hu
    · simp at hstep
  | corrupt i =>
    simp only [RState.step] at hstep
    split at hstep
    · simp only [Option.some.injEq] at hstep
      subst hstep
      exact timersUnique_of_timers rfl hu
    · simp at hstep

end Anysystem
