import Anysystem.Proofs.SimRunThms
import Anysystem.Proofs.SimStepThms
/-!
# Helper lemmas for `SimWholeRun.lean`

Model-level facts that do not mention the two invariants: membership in `live`, the fields `handlers` / `procNodes` /
crash flags under the bookkeeping primitives, the shape of a send as far as the queue is concerned, and what `next_event`
does to the cancellation set.
-/
namespace Anysystem

set_option linter.unusedSectionVars false

variable {σ T : Type} [TimeOps T]

/-- a lookup that survives a filter (no sortedness needed: the first entry with the key is the one found) -/
theorem amGet?_filter_of_pos {κ β : Type} [DecidableEq κ] (q : κ × β → Bool) (l : List (κ × β)) (k : κ) (v : β)
    (h : amGet? k l = some v) (hq : q (k, v) = true) : amGet? k (l.filter q) = some v := by
  induction l with
  | nil => simp [amGet?] at h
  | cons y ys ih =>
    obtain ⟨k', v'⟩ := y
    simp only [amGet?] at h
    by_cases hk : k = k'
    · subst hk
      simp only [if_true, Option.some.injEq] at h
      subst h
      simp [hq, amGet?]
    · simp only [hk, if_false] at h
      simp only [List.filter_cons]
      split
      · simp [amGet?, hk, ih h]
      · exact ih h

namespace Sim

/-! ### `live` -/

theorem mem_live (s : Sim σ T) (x : QEv T) : x ∈ s.live ↔ x ∈ s.events ∧ x.id ∉ s.canceled := mem_liveOf s x

theorem live_congr {s s' : Sim σ T} (hev : s'.events = s.events) (hc : s'.canceled = s.canceled) : s'.live = s.live := by
  unfold live; rw [hev, hc]

/-- live events are determined by their id -/
theorem live_eq_of_id {s : Sim σ T} (hq : s.QueueWF) {x y : QEv T} (hx : x ∈ s.live) (hy : y ∈ s.live)
    (h : x.id = y.id) : x = y :=
  eq_of_id_eq_of_nodup hq.1 ((mem_live s x).1 hx).1 ((mem_live s y).1 hy).1 h

/-! ### crash flags -/

/-- the crash flag of node `n`, if the node exists -/
def crashed? (s : Sim σ T) (n : Nat) : Option Bool := (amGet? n s.nodes).map (·.crashed)

theorem crashed?_of_nodes {s s' : Sim σ T} (h : s'.nodes = s.nodes) (m : Nat) : s'.crashed? m = s.crashed? m := by
  unfold crashed?; rw [h]

theorem crashed?_setNode (s : Sim σ T) (n : Nat) (nd : SNode σ T) (m : Nat) :
    (s.setNode n nd).crashed? m = if m = n then some nd.crashed else s.crashed? m := by
  unfold crashed? setNode
  simp only [amGet?_amInsert]
  by_cases h : m = n <;> simp [h]

/-- re-inserting a node with the same crash flag -/
theorem crashed?_setNode_same (s : Sim σ T) (n : Nat) {nd nd' : SNode σ T} (hn : amGet? n s.nodes = some nd)
    (hc : nd'.crashed = nd.crashed) (m : Nat) : (s.setNode n nd').crashed? m = s.crashed? m := by
  rw [crashed?_setNode]
  split
  · subst_vars; simp [crashed?, hn, hc]
  · rfl

@[simp] theorem crashed?_updProc (s : Sim σ T) (n p : Nat) (f : SProc σ T → SProc σ T) (m : Nat) :
    (s.updProc n p f).crashed? m = s.crashed? m := by
  unfold updProc
  split
  · rfl
  · rename_i nd hn
    split
    · rfl
    · exact crashed?_setNode_same s n (nd' := { nd with procs := amInsert natLt p (f _) nd.procs }) hn rfl m

@[simp] theorem crashed?_log (s : Sim σ T) (x : SLog T) (m : Nat) : (s.log x).crashed? m = s.crashed? m := rfl
@[simp] theorem crashed?_cancelEvent (s : Sim σ T) (id : Nat) (m : Nat) : (s.cancelEvent id).crashed? m = s.crashed? m := rfl
@[simp] theorem crashed?_addEvent (s : Sim σ T) (data : QData) (src dst : Nat) (d : T) (m : Nat) :
    (s.addEvent data src dst d).1.crashed? m = s.crashed? m := rfl

/-! ### more frame facts of `updProc` -/

@[simp] theorem updProc_handlers (s : Sim σ T) (n p : Nat) (f : SProc σ T → SProc σ T) :
    (s.updProc n p f).handlers = s.handlers := by
  obtain ⟨ns, h⟩ := updProc_frame s n p f; rw [h]
@[simp] theorem updProc_procNodes (s : Sim σ T) (n p : Nat) (f : SProc σ T → SProc σ T) :
    (s.updProc n p f).procNodes = s.procNodes := by
  obtain ⟨ns, h⟩ := updProc_frame s n p f; rw [h]

/-- the entry `handleActions` finds after it has appended an event-log entry with `updProc` -/
theorem proc?_of_lookup {s : Sim σ T} {n p : Nat} {nd : SNode σ T} {e : SProc σ T} (hnd : s.nodeOf n = .ok nd)
    (he : amGet? p nd.procs = some e) : s.proc? n p = some e := by
  rw [proc?_eq (nodeOf_ok hnd)]; exact he

theorem proc?_updProc_self {s : Sim σ T} {n p : Nat} {f : SProc σ T → SProc σ T} {e1 : SProc σ T}
    (h : (s.updProc n p f).proc? n p = some e1) : ∃ e, s.proc? n p = some e ∧ e1 = f e := by
  rw [proc?_updProc, if_pos ⟨rfl, rfl⟩] at h
  cases he : s.proc? n p with
  | none => simp [he] at h
  | some e =>
    simp only [he, Option.map_some, Option.some.injEq] at h
    exact ⟨e, rfl, h.symm⟩

/-! ### the queue side of a send -/

/-- `send_message` appends message events with fresh consecutive ids and touches neither the cancellation set nor the
    nodes, the handler set or the process table -/
theorem sendMessage_shape {s s' : Sim σ T} {m : Msg} {src dst tl : Nat} (hok : s.sendMessage m src dst tl = .ok s') :
    ∃ (new : List (QEv T)) (k : Nat), s'.events = s.events ++ new ∧
      new.map (·.id) = (List.range k).map (s.eventCount + ·) ∧ s'.eventCount = s.eventCount + k ∧
      s'.canceled = s.canceled ∧ s'.nodes = s.nodes ∧ s'.handlers = s.handlers ∧ s'.procNodes = s.procNodes ∧
      ∀ e ∈ new, ∀ p name, e.data ≠ .timer p name := by
  obtain ⟨sn, dn, hs, hdl⟩ := sendMessage_ok_loc hok
  by_cases hne : sn = dn
  · subst hne
    rw [sendMessage_same s m src dst sn _ hs hdl] at hok
    cases hok
    refine ⟨[⟨s.eventCount, TimeOps.add s.clock TimeOps.zero, sn, sn, .msg s.net.messageCount m src sn dst sn⟩], 1,
      rfl, by simp, rfl, rfl, rfl, rfl, rfl, ?_⟩
    intro e he p name hd
    rw [List.mem_singleton] at he
    subst he
    cases hd
  · rw [sendMessage_cross s m src dst sn dn _ hs hdl hne] at hok
    have hs' := (Except.ok.inj hok).symm
    clear hok
    cases hdr : s.sendDropped sn dn with
    | true =>
      rw [cross_dropped _ _ _ _ _ _ _ hdr] at hs'
      subst hs'
      exact ⟨[], 0, by simp, by simp, rfl, rfl, rfl, rfl, rfl, by simp⟩
    | false =>
      rw [cross_passed _ _ _ _ _ _ _ hdr] at hs'
      subst hs'
      refine ⟨(List.range s.sendCount).map
          (copyEv s (.msg s.net.messageCount (s.sendPayload m) src sn dst dn) sn dn s.sendBase), s.sendCount,
        rfl, ?_, rfl, rfl, rfl, rfl, rfl, ?_⟩
      · rw [List.map_map]; rfl
      · intro e he p name hd
        obtain ⟨i, _, rfl⟩ := List.mem_map.1 he
        simp only [copyEv] at hd
        cases hd

/-! ### `next_event` and the cancellation set -/

/-- `next_event` leaves the process table alone, only forgets cancelled ids, and an event that stays queued stays
    cancelled if it was -/
theorem nextEvent_frame2 (fuel : Nat) (s s' : Sim σ T) (o : Option (QEv T)) (h : nextEvent fuel s = (o, s')) :
    s'.procNodes = s.procNodes ∧ (∀ id ∈ s'.canceled, id ∈ s.canceled) ∧
    (∀ x ∈ s'.events, x.id ∈ s.canceled → x.id ∈ s'.canceled) := by
  induction fuel generalizing s with
  | zero =>
    simp only [nextEvent, Prod.mk.injEq] at h
    obtain ⟨rfl, rfl⟩ := h
    exact ⟨rfl, fun _ h => h, fun _ _ h => h⟩
  | succ fuel ih =>
    rw [nextEvent_succ] at h
    split at h
    · simp only [Prod.mk.injEq] at h
      obtain ⟨rfl, rfl⟩ := h
      exact ⟨rfl, fun _ h => h, fun _ _ h => h⟩
    · rename_i m hm
      split at h
      · obtain ⟨h1, h2, h3⟩ := ih _ h
        simp only at h1 h2 h3
        refine ⟨h1, fun id hid => ((mem_setErase _ _ _).1 (h2 id hid)).2, ?_⟩
        intro x hx hc
        have hx' := (nextEvent_frame fuel _ s' o h).2.2.2.2.2.2.1.subset hx
        simp only [List.mem_filter, bne_iff_ne, ne_eq] at hx'
        exact h3 x hx ((mem_setErase _ _ _).2 ⟨hx'.2, hc⟩)
      · simp only [Prod.mk.injEq] at h
        obtain ⟨rfl, rfl⟩ := h
        exact ⟨rfl, fun _ h => h, fun _ _ h => h⟩

/-- the live events after a successful pop -/
theorem mem_live_pop {fuel : Nat} {s s1 : Sim σ T} {e : QEv T} (hpop : nextEvent fuel s = (some e, s1)) (x : QEv T) :
    x ∈ s1.live ↔ x ∈ s.live ∧ x.id ≠ e.id := by
  obtain ⟨_, _, _, _, _, _, _, h8, _⟩ := nextEvent_frame fuel s s1 _ hpop
  obtain ⟨_, hl⟩ := h8 e rfl
  show x ∈ liveOf s1 ↔ x ∈ liveOf s ∧ x.id ≠ e.id
  rw [hl]
  simp [List.mem_filter]

theorem popped_mem_live {fuel : Nat} {s s1 : Sim σ T} {e : QEv T} (hpop : nextEvent fuel s = (some e, s1)) :
    e ∈ s.live :=
  ((nextEvent_frame fuel s s1 _ hpop).2.2.2.2.2.2.2.1 e rfl).1

/-- a queue that loses events and keeps its counter stays well formed (field-wise form of `QueueWF.sublist`) -/
theorem QueueWF.of_fields {s s' : Sim σ T} (hwf : s.QueueWF) (hev : s'.events = s.events)
    (hec : s'.eventCount = s.eventCount) : s'.QueueWF := by
  unfold QueueWF; rw [hev, hec]; exact hwf

end Sim
end Anysystem
