import Anysystem.Model.Snapshot
import Anysystem.Spec.RefSpec
import Anysystem.Spec.TimeLaws
import Anysystem.Proofs.SimQueueThms
import Anysystem.Proofs.SimNetThms
import Anysystem.Proofs.SimLogThms
/-!
# R4 (partial: duplication and corruption rates zero, drop rate arbitrary) — one simulator step is a reduced-enabled
step of the reference semantics

Setting: a clock-free program `h : Handler σ` run by the simulator (the simulator handler ignores clock and
draws), duplication and corruption rates zero, **drop rate arbitrary** (link controls arbitrary), no `crash_node` /
`recover_node` calls during the execution considered (nodes crashed earlier stay crashed).  `TimedRel q r` relates a
simulator state `q` and a reference state `r`:

* the same processes with the same state and local outbox; the same crashed nodes; the same link controls;
* the in-flight messages of `r` are, as a multiset **of (message, source, destination) triples**, the live queued
  message copies of `q` addressed to nodes that still have a handler **plus zombies**: triples of messages the
  simulator dropped at random when they were sent (`sendMessage` decides the drop at send time and queues nothing)
  while the reference semantics put them in flight (it may drop a flight later, by a `drop` label, and need not).
  There are no zombies when the reference network cannot drop (`dropPos = false`).  Every flight of `r` carries
  delivery options that permit neither duplication nor corruption (`Opts.dropOnly`: `noFail`, or `faults _ 0 false`)
  — a run that started quiet gives each cross-node flight the options `faults dropPos 0 false`, the snapshot
  `ModelChecker::new` gives every flight `noFail`.  A zombie never has to be dropped by the reference run: the
  reduced semantics looks at a flight's triple only (`oldestIdentical`), so when the simulator delivers a copy with
  triple `c` the reference run delivers the oldest flight with triple `c`, whether that flight "is" the zombie or the
  live one, and the multiset equation is kept;
* the pending timers of `r` are the live queued timer events of `q` (all of them are on nodes with handler), each
  pending under its name in its process's timer map, and — this is what makes the reduction sound — every
  queued timer event `i` has a *set clock* `c_i` with `time_i = c_i + delay_i`, `c_i ≤ clock`; along the list of
  pending timers the set clocks are non-decreasing, the event ids are pairwise distinct, and of two timers with the
  same firing time the earlier one in the list has the smaller id.  Creation order (a run that started quiet) and
  `(time, id)` order with one common set clock (the snapshot) are both instances.

The relation is the conjunction of five groups of clauses (`NetRel`, `TProcRel`, `QueueOk`, `TimerRel` and the
`flights` clause); they are separate structures only so that each proof touches the clauses it changes.
-/
namespace Anysystem

variable {σ T : Type} [TimeOps T]

/-- the simulator handler of a clock-free program -/
def liftHandler (h : Handler σ) : SHandler σ T := fun p st i _ _ => ((h p st i).1, (h p st i).2, 0)

/-- options the model checker gives a message between these processes when all rates are zero -/
def zeroOpts (loc : List (Nat × Nat)) (maxDelay : Nat) (src dst : Nat) : Opts :=
  if amGet? src loc = amGet? dst loc then .noFail maxDelay else .faults false 0 false

/-- delivery options that permit no fault (the same function as `Opts.inert` of `R5Defs`, which is defined
    downstream of R4) -/
def Opts.noFault : Opts → Bool
  | .noFail _ => true
  | .faults false 0 false => true
  | _ => false

/-- delivery options that permit neither duplication nor corruption (a drop may be permitted) -/
def Opts.dropOnly : Opts → Bool
  | .noFail _ => true
  | .faults _ 0 false => true
  | _ => false

theorem Opts.dropOnly_of_noFault {o : Opts} (h : o.noFault = true) : o.dropOnly = true := by
  cases o with
  | noFail d => rfl
  | faults a n c => cases a <;> cases n <;> cases c <;> first | rfl | cases h

/-- what the reduced semantics looks at in a flight (the same function as `Flight.core` of `R5Defs`) -/
def Flight.key (f : Flight) : Msg × Nat × Nat := (f.m, f.src, f.dst)

/-- the (message, source, destination) triple of a queued message copy -/
def keyOfQ : QData → Option (Msg × Nat × Nat)
  | .msg _ m src _ dst _ => some (m, src, dst)
  | .timer _ _ => none

theorem zeroOpts_noFault (loc : List (Nat × Nat)) (maxDelay : Nat) (src dst : Nat) :
    (zeroOpts loc maxDelay src dst).noFault = true := by
  unfold zeroOpts; split <;> rfl

/-- live queued events whose destination node still has a handler -/
def Sim.deliverable (q : Sim σ T) : List (QEv T) := q.live.filter (fun e => q.handlers.contains e.dst)

/-- ghost information about one queued timer event: its event id, the process and timer name, its delay (as the
    natural number the program passed) and the clock at which it was set -/
structure TimerGhost (T : Type) where
  id : Nat
  proc : Nat
  name : Nat
  delay : Nat
  setClock : T

/-- the pending timer a ghost stands for -/
def TimerGhost.toPTimer (g : TimerGhost T) : PTimer := ⟨g.proc, g.name, g.delay⟩

/-- the time at which the timer event of a ghost fires -/
def TimerGhost.fire (g : TimerGhost T) : T := TimeOps.add g.setClock (TimeOps.ofBits g.delay)

/-- network part: duplication and corruption rates are zero on both sides (the drop rate is arbitrary, the reference
    network may drop iff it is positive), link controls and locations agree, crashed = no handler -/
structure NetRel (bits : T → Nat) (q : Sim σ T) (r : RState σ) : Prop where
  ratesZero : q.net.duplRate = TimeOps.zero ∧ q.net.corruptRate = TimeOps.zero
  netFlags : r.net.dropPos = TimeOps.lt TimeOps.zero q.net.dropRate ∧ r.net.duplNonzero = false ∧
    r.net.corruptPos = false
  netLoc : r.net.procLoc = q.net.procLoc
  /-- from a node with handler to an existing node: the directed path is enabled in `r` exactly when it is not cut
      in `q` and the target has a handler -/
  netCut : ∀ a b, a ∈ q.handlers → amHas b q.nodes = true →
    r.net.pathEnabled a b = (!(q.pathCut a b) && q.handlers.contains b)
  maxDelay : r.net.maxDelay = bits q.net.maxDelay
  /-- crashed = existing node without handler -/
  crashed : ∀ n, n ∈ r.crashedNodes ↔ (amHas n q.nodes = true ∧ ¬ n ∈ q.handlers)
  /-- processes are located on existing nodes -/
  locNodes : ∀ p n, amGet? p q.net.procLoc = some n → amHas n q.nodes = true
  /-- a node has a handler iff it exists and is not marked crashed (there is no `crash_node` / `recover_node` call in
      the executions considered); no reference state involved -/
  handlersOk : ∀ n, n ∈ q.handlers ↔ ∃ nd, amGet? n q.nodes = some nd ∧ nd.crashed = false
  /-- the node table is a sorted map (`BTreeMap`); no reference state involved -/
  nodesSorted : KSorted q.nodes

/-- processes: same state and outbox -/
structure TProcRel (q : Sim σ T) (r : RState σ) : Prop where
  procs : ∀ n p e, q.proc? n p = some e →
    amGet? p r.procs = some ⟨e.st, e.outbox⟩ ∧ amGet? p q.net.procLoc = some n
  procsBack : ∀ p rp, amGet? p r.procs = some rp → ∃ n e, q.proc? n p = some e

/-- well-formedness of the event queue of the simulator (no reference state involved) -/
structure QueueOk (q : Sim σ T) : Prop where
  queueWF : q.QueueWF
  clockOk : q.ClockOk
  /-- cancelled ids are ids that were handed out -/
  cancWF : ∀ id ∈ q.canceled, id < q.eventCount
  delaysOk : TimeOps.le TimeOps.zero q.net.minDelay = true ∧ TimeOps.le q.net.minDelay q.net.maxDelay = true
  /-- timer events live on their process's node -/
  timerLoc : ∀ e ∈ q.live, ∀ p name, e.data = .timer p name → e.dst = e.src ∧ amGet? p q.net.procLoc = some e.dst
  msgLoc : ∀ e ∈ q.live, ∀ mid m src sn dst dn, e.data = .msg mid m src sn dst dn →
    e.dst = dn ∧ amGet? dst q.net.procLoc = some dn ∧ amGet? src q.net.procLoc = some sn

/-- pending timers = live timer events (all deliverable), with their ghosts -/
structure TimerRel (bits : T → Nat) (q : Sim σ T) (r : RState σ) (ghosts : List (TimerGhost T)) : Prop where
  timers : r.timers = ghosts.map TimerGhost.toPTimer
  /-- the event ids of the ghosts are pairwise distinct -/
  ghostsNodup : (ghosts.map (·.id)).Nodup
  /-- tie rule: of two ghosts with the same firing time the earlier one in the list has the smaller event id -/
  ghostsTie : ghosts.Pairwise (fun a b => a.fire = b.fire → a.id < b.id)
  /-- every live timer event has a ghost (hence, by `ghostsLive`, is addressed to a node with handler) -/
  ghostsCover : ∀ e ∈ q.live, ∀ p name, e.data = .timer p name → ∃ g ∈ ghosts, g.id = e.id
  ghostsLive : ∀ g ∈ ghosts, ∃ e ∈ q.deliverable, e.id = g.id ∧ e.data = .timer g.proc g.name ∧
    e.time = TimeOps.add g.setClock (TimeOps.ofBits g.delay)
  ghostClock : ∀ g ∈ ghosts, TimeOps.le g.setClock q.clock = true
  ghostMono : ghosts.Pairwise (fun a b => TimeOps.le a.setClock b.setClock = true)
  /-- delays are bit patterns that survive the round trip through the time type -/
  ghostBits : ∀ g ∈ ghosts, bits (TimeOps.ofBits g.delay : T) = g.delay
  /-- the per-process timer maps mirror the queue: a name is pending iff it maps to a live timer event of that process -/
  pendMap : ∀ n p e, n ∈ q.handlers → q.proc? n p = some e → ∀ name id,
    amGet? name e.pending = some id ↔ ∃ ev ∈ q.live, ev.id = id ∧ ev.data = .timer p name
  uniq : r.timersUnique

/-- the (message, source, destination) triples of the deliverable queued message copies -/
def Sim.liveKeys (q : Sim σ T) : List (Msg × Nat × Nat) := q.deliverable.filterMap fun e => keyOfQ e.data

/-- in-flight messages, as a multiset of (message, source, destination) triples: the deliverable queued copies plus
    the zombies `zs` (messages the simulator dropped at random when they were sent, still in flight in `r`); no
    zombies unless the reference network can drop; the options of every flight permit no duplication and no
    corruption -/
structure FlightRel (q : Sim σ T) (r : RState σ) : Prop where
  perm : ∃ zs : List (Msg × Nat × Nat),
    (r.flights.map Flight.key).Perm (q.liveKeys ++ zs) ∧ (r.net.dropPos = false → zs = [])
  inert : ∀ f ∈ r.flights, f.o.dropOnly = true

structure TimedRel (bits : T → Nat) (q : Sim σ T) (r : RState σ) (ghosts : List (TimerGhost T)) : Prop where
  net : NetRel bits q r
  proc : TProcRel q r
  queue : QueueOk q
  timer : TimerRel bits q r ghosts
  flights : FlightRel q r

/-- the process-visible projection the property speaks about -/
def visibleEq (q : Sim σ T) (r : RState σ) : Prop :=
  ∀ n nd p e, amGet? n q.nodes = some nd → amGet? p nd.procs = some e → amGet? p r.procs = some ⟨e.st, e.outbox⟩

end Anysystem
