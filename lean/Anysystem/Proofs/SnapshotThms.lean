import Anysystem.Model.Snapshot
import Anysystem.Spec.TimeLaws
import Anysystem.Proofs.StoreRefine
import Anysystem.Proofs.SnapshotLemmas
/-!
# The snapshot hand-off `ModelChecker::new` (C15) and the first simulated step (C04)
-/
namespace Anysystem

variable {σ T : Type} [TimeOps T]

/-- the queued events the snapshot takes over: live events in `(time, id)` order, without the
    messages addressed to crashed nodes -/
def snapshotSource (s : Sim σ T) : List (QEv T) :=
  let crashed := (s.nodes.filter (·.2.crashed)).map (·.1)
  s.dumpEvents.filter fun e => match e.data with
    | .msg _ _ _ _ _ dstNode => !crashed.contains dstNode
    | .timer _ _ => true

/-- the model-checking event a queued event becomes -/
def snapshotEv (bits : T → Nat) (s : Sim σ T) (maxDelay : Nat) (e : QEv T) : Ev :=
  match e.data with
  | .msg _ m src _ dst _ => .msg m src dst (.noFail maxDelay)
  | .timer p name => .timer p name (bits (TimeOps.sub e.time s.clock))

/-- the crashed nodes of a simulator state, as the snapshot computes them -/
private def crashedOf (s : Sim σ T) : List Nat := (s.nodes.filter (·.2.crashed)).map (·.1)

private theorem snapshotSource_eq (s : Sim σ T) :
    snapshotSource s = s.dumpEvents.filter (snapKeep (crashedOf s)) := rfl

private theorem snapshotEv_eq (bits : T → Nat) (s : Sim σ T) (maxDelay : Nat) :
    snapshotEv bits s maxDelay = snapEv bits s.clock maxDelay := rfl

/-- a timer in the store stems from a queued timer, with its remaining time as delay -/
private theorem snapshotEv_timer {bits : T → Nat} {s : Sim σ T} {maxDelay : Nat} {e : QEv T} {p n d : Nat}
    (h : snapshotEv bits s maxDelay e = .timer p n d) : d = bits (TimeOps.sub e.time s.clock) := by
  unfold snapshotEv at h
  split at h
  · cases h
  · cases h; rfl

private theorem mem_pending_source {bits : T → Nat} {s : Sim σ T} {maxDelay : Nat} {A : List (Nat × Ev)}
    (hpend : A = (snapshotSource s).zipIdx.map (fun (e, i) => (i, snapshotEv bits s maxDelay e)))
    {i : Nat} {ev : Ev} (h : (i, ev) ∈ A) :
    ∃ e, (snapshotSource s)[i]? = some e ∧ snapshotEv bits s maxDelay e = ev := by
  subst hpend
  obtain ⟨⟨e, k⟩, hm, heq⟩ := List.mem_map.mp h
  simp only [Prod.mk.injEq] at heq
  obtain ⟨rfl, rfl⟩ := heq
  exact ⟨e, List.mem_zipIdx_iff_getElem?.mp hm, rfl⟩

/-- the snapshot never trips a store assertion and the store it builds holds exactly one pending
    event per live queued copy (cancelled copies and copies addressed to crashed nodes excluded), in
    `(time, id)` order with fresh ids `0, 1, 2, …`; in-flight messages carry no fault options, timers
    carry their remaining time -/
theorem snapshotEvents_spec (bits : T → Nat) (s : Sim σ T) (maxDelay : Nat) :
    ∃ st a, snapshotEvents bits s maxDelay = .ok st ∧ Rep st a ∧
      a.pending = (snapshotSource s).zipIdx.map (fun (e, i) => (i, snapshotEv bits s maxDelay e)) ∧
      a.next = (snapshotSource s).length := by
  obtain ⟨st, a, hf, hrep, hp, hn⟩ :=
    snapFold_spec bits s.clock maxDelay (crashedOf s) s.dumpEvents {} {} Rep.empty
  refine ⟨st, a, hf, hrep, ?_, ?_⟩
  · rw [hp, snapshotSource_eq, snapshotEv_eq]; rfl
  · rw [hn, snapshotSource_eq]; exact Nat.zero_add _

/-- cancelled copies are not taken over -/
theorem snapshotSource_live (s : Sim σ T) : ∀ e ∈ snapshotSource s, e.id ∉ s.canceled := by
  intro e he
  rw [snapshotSource_eq] at he
  exact ((mem_dumpEvents s e).mp (List.mem_filter.mp he).1).2

/-- every live queued copy whose destination node is alive is taken over, once per queue entry -/
theorem snapshotSource_complete (s : Sim σ T) (e : QEv T) (he : e ∈ s.events) (hl : e.id ∉ s.canceled)
    (hd : match e.data with
      | .msg _ _ _ _ _ dstNode => ∀ nd, amGet? dstNode s.nodes = some nd → nd.crashed = false
      | .timer _ _ => True)
    (hnodes : (s.nodes.map (·.1)).Nodup) :
    e ∈ snapshotSource s := by
  rw [snapshotSource_eq]
  refine List.mem_filter.mpr ⟨(mem_dumpEvents s e).mpr ⟨he, hl⟩, ?_⟩
  obtain ⟨id, time, src, dst, data⟩ := e
  cases data with
  | timer p name => rfl
  | msg mid m sr srcNode ds dstNode =>
    simp only [snapKeep, Bool.not_eq_true', List.contains_eq_mem, decide_eq_false_iff_not]
    intro hc
    obtain ⟨⟨n, nd⟩, hm, hn⟩ := List.mem_map.mp hc
    obtain ⟨hmem, hcr⟩ := List.mem_filter.mp hm
    simp only at hn hcr
    subst hn
    have := hd nd (amGet?_of_mem_nodup hnodes hmem)
    rw [this] at hcr
    cases hcr

set_option linter.unusedSectionVars false in
/-- process states, outboxes, counters, pending timer names and crash flags are copied -/
theorem snapshotNodes_spec (s : Sim σ T) (n : Nat) (nd : SNode σ T) (p : Nat) (e : SProc σ T)
    (hn : (n, nd) ∈ s.nodes) (hp : (p, e) ∈ nd.procs) :
    ∃ mn me, (n, mn) ∈ snapshotNodes s ∧ mn.crashed = nd.crashed ∧ (p, me) ∈ mn.procs ∧
      me.st = e.st ∧ me.outbox = e.outbox ∧ me.sent = e.sent ∧ me.recv = e.recv ∧
      me.pending = e.pending.map (·.1) ∧ me.log = e.log.map (·.ev) := by
  refine ⟨_, _, List.mem_map.mpr ⟨(n, nd), hn, rfl⟩, rfl, List.mem_map.mpr ⟨(p, e), hp, rfl⟩,
    rfl, rfl, rfl, rfl, rfl, rfl⟩

/-- link and fault settings are copied, crashed nodes are disconnected -/
theorem snapshotNet_spec (bits : T → Nat) (s : Sim σ T) :
    (snapshotNet bits s).procLoc = s.net.procLoc ∧ (snapshotNet bits s).disabledLinks = s.net.disabledLinks ∧
    (snapshotNet bits s).dropPos = TimeOps.lt TimeOps.zero s.net.dropRate ∧
    (snapshotNet bits s).corruptPos = TimeOps.lt TimeOps.zero s.net.corruptRate ∧
    (∀ x, x ∈ s.net.dropIncoming → x ∈ (snapshotNet bits s).dropIncoming) ∧
    (∀ x, x ∈ s.net.dropOutgoing → x ∈ (snapshotNet bits s).dropOutgoing) ∧
    (∀ n nd, (n, nd) ∈ s.nodes → nd.crashed = true →
      n ∈ (snapshotNet bits s).dropIncoming ∧ n ∈ (snapshotNet bits s).dropOutgoing) := by
  obtain ⟨h1, h2, h3, h4, h5, h6⟩ := disconnectFold_spec (crashedOf s)
    { dropPos := TimeOps.lt TimeOps.zero s.net.dropRate,
      duplNonzero := TimeOps.lt TimeOps.zero s.net.duplRate || TimeOps.lt s.net.duplRate TimeOps.zero,
      corruptPos := TimeOps.lt TimeOps.zero s.net.corruptRate,
      dropIncoming := s.net.dropIncoming, dropOutgoing := s.net.dropOutgoing,
      disabledLinks := s.net.disabledLinks, procLoc := s.net.procLoc, maxDelay := bits s.net.maxDelay }
  refine ⟨h1, h2, h3, h4, fun x hx => (h5 x).mpr (Or.inl hx), fun x hx => (h6 x).mpr (Or.inl hx), ?_⟩
  intro n nd hn hc
  have hmem : n ∈ crashedOf s :=
    List.mem_map.mpr ⟨(n, nd), List.mem_filter.mpr ⟨hn, hc⟩, rfl⟩
  exact ⟨(h5 n).mpr (Or.inr hmem), (h6 n).mpr (Or.inr hmem)⟩

/-- C04, first step: the event the simulator handles next (the first of `snapshotSource`) is offered
    by the snapshot's store — the checker can always follow the simulator's next step -/
theorem snapshot_first_offered (bits : T → Nat) (s : Sim σ T) (maxDelay : Nat) (st : Store)
    (h : snapshotEvents bits s maxDelay = .ok st) (hne : snapshotSource s ≠ []) : 0 ∈ st.available := by
  obtain ⟨st', a, hf, hrep, hp, _⟩ := snapshotEvents_spec bits s maxDelay
  rw [h] at hf
  cases hf
  rw [hrep.avail, hp]
  cases hsrc : snapshotSource s with
  | nil => exact absurd hsrc hne
  | cons e rest =>
    rw [List.zipIdx_cons, List.map_cons]
    exact head_offered _ _

/-- pending timers are constrained exactly by their real firing order: of two queued timers of one
    process the later one (in `(time, id)` order) is withheld behind the earlier one, given that
    `bits` and subtraction are monotone (they are for non-negative `f64`) -/
theorem snapshot_timers_in_firing_order (bits : T → Nat) (s : Sim σ T) (maxDelay : Nat) (st : Store) (a : AStore)
    (hbits : ∀ x y : T, TimeOps.le x y = true → bits x ≤ bits y)
    (hsub : ∀ x y c : T, TimeOps.le x y = true → TimeOps.le (TimeOps.sub x c) (TimeOps.sub y c) = true)
    (hsorted : (snapshotSource s).Pairwise (fun e₁ e₂ => TimeOps.le e₁.time e₂.time = true))
    (h : snapshotEvents bits s maxDelay = .ok st) (hrep : Rep st a)
    (hpend : a.pending = (snapshotSource s).zipIdx.map (fun (e, i) => (i, snapshotEv bits s maxDelay e)))
    (i j p n₁ n₂ d₁ d₂ : Nat) (hij : i < j)
    (hi : (i, Ev.timer p n₁ d₁) ∈ a.pending) (hj : (j, Ev.timer p n₂ d₂) ∈ a.pending) :
    d₁ ≤ d₂ ∧ j ∉ specOffered a.pending := by
  have _ := h
  obtain ⟨e₁, hg₁, he₁⟩ := mem_pending_source hpend hi
  obtain ⟨e₂, hg₂, he₂⟩ := mem_pending_source hpend hj
  obtain ⟨hi', hgi⟩ := List.getElem?_eq_some_iff.mp hg₁
  obtain ⟨hj', hgj⟩ := List.getElem?_eq_some_iff.mp hg₂
  have hle : TimeOps.le e₁.time e₂.time = true := by
    have := List.pairwise_iff_getElem.mp hsorted i j hi' hj' hij
    rwa [hgi, hgj] at this
  have hd : d₁ ≤ d₂ := by
    rw [snapshotEv_timer he₁, snapshotEv_timer he₂]
    exact hbits _ _ (hsub _ _ _ hle)
  refine ⟨hd, ?_⟩
  have hinv := hrep.inv
  intro hoff
  have h1 := amGet?_of_mem_nodup hinv.nodup hi
  have h2 := amGet?_of_mem_nodup hinv.nodup hj
  exact (offered_timer hinv h2).mp hoff i n₁ d₁ h1 hij hd

end Anysystem
