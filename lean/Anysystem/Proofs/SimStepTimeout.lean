import Anysystem.Proofs.SimStepFns
import Anysystem.Proofs.SimLogInv
import Anysystem.Proofs.SimTraceInv
import Anysystem.Proofs.SimTimeOrder
import Anysystem.Proofs.SimLogTimes
/-!
# C06 / C17 — `step_until_local_message_timeout`

`Sim.stepUntilLocalTimeout h n p timeout fuel s` models `System::step_until_local_message_timeout(proc, timeout)`:
with `end = clock + timeout`, while `clock < end`: read the local outbox of the process — if it is non-empty return it (and
clear it); otherwise step — if no event is left give up; when `clock ≥ end` give up **without reading the outbox again**.

* (1)–(3) `stepUntilLocalTimeout_some` / `stepUntilLocalTimeout_none` (and the `Go` forms for an arbitrary deadline): the
  run is `k` successful steps (`s.steps h k = .ok (true, s₁)`); at each of the `k` states where the outbox was read before a
  step the clock was `< end` and the outbox was empty (`Timeout.ReadsEmpty`);
  - `some ms`: `clock s₁ < end`, `ms` is the non-empty outbox of `p` in `s₁`, `s'` is `s₁` with exactly that outbox cleared
    (`stepUntilLocalTimeout_some_frame` spells the frame out); no step is made once the outbox is non-empty;
  - `none`: either the deadline was reached (`¬ clock s₁ < end`, `s' = s₁`: nothing read, nothing cleared), or
    `clock s₁ < end`, the outbox was empty and `step` found no event (`s₁.step h = .ok (false, s')`, `s'.events = []`); in
    both cases `s'.nodes = s₁.nodes` — no local message of any process was consumed
    (`stepUntilLocalTimeout_none_keeps_outboxes`).
* (4) `Timeout.go_keeps`: the loop keeps whatever `step` and `readNode` keep; instances `TimeInvs.stepUntilLocalTimeout`
  (`TimeWF`, `TraceTimeInv`, `LogTimeInv`), `TimeWF.stepUntilLocalTimeout`, `LogInv.stepUntilLocalTimeout`,
  `stepUntilLocalTimeout_next` / `TraceInv.stepUntilLocalTimeout`.
* (5) the clock: `stepUntilLocalTimeout_clock_le` (`clock s ≤ clock s'`), `stepUntilLocalTimeout_some_clock_lt`
  (`clock s' < end` when messages are returned), `stepUntilLocalTimeout_none_deadline` (`r = none` and the queue is not
  empty afterwards ⇒ the deadline was reached: `end ≤ clock s'`).  The function does **not** set the clock to `end`: the
  clock is left at the time of the last handled event, which may lie beyond `end` (only the state *before* the last step had
  `clock < end`) — `SimStepTimeoutDemo.gives_up_past_deadline` ends at clock 5 with `end = 3`.
  `stepUntilLocalTimeout_expired`: with a deadline that is not after the clock (`timeout ≤ 0`) the function returns `none`
  at once and changes nothing — it does not even look at the outbox.
  `stepUntilLocalTimeout_deadline_ge`: for `0 ≤ timeout` the deadline is not before the clock at the call.
* `stepUntilLocalTimeout_fuel_mono`: more fuel does not change a result (`k < fuel` in all statements: `k` steps need `k + 1`
  iterations).
* (6) `SimStepTimeoutDemo`: a process that sends a local message when its timer fires at time 5;
  `stepUntilLocalTimeout … 3` gives up at clock 5 **with the message still in the outbox** (and a later timer still queued),
  and a following `readLocal` returns it (`gives_up_past_deadline`, `then_read_returns_it`); the hypotheses of all theorems
  are discharged for that run (`run_invs`, `demo_run`).
-/
namespace Anysystem

set_option linter.unusedSectionVars false
set_option linter.unusedVariables false

variable {σ T : Type} [TimeOps T]

namespace Sim

open TimeOrder LogTimes

namespace Timeout

/-- the reads of the loop that were followed by a step: at each of the first `k` states of the run (`j < k`) the clock
    was before the deadline and the outbox of `p` on `n` was empty -/
def ReadsEmpty (h : SHandler σ T) (n p : Nat) (endT : T) (s : Sim σ T) (k : Nat) : Prop :=
  ∀ j sj, j < k → s.steps h j = .ok (true, sj) → TimeOps.lt sj.clock endT = true ∧ sj.outboxEmpty n p

theorem ReadsEmpty.zero (h : SHandler σ T) (n p : Nat) (endT : T) (s : Sim σ T) : ReadsEmpty h n p endT s 0 :=
  fun j _ hj => absurd hj (Nat.not_lt_zero _)

theorem ReadsEmpty.succ {h : SHandler σ T} {n p : Nat} {endT : T} {s s2 : Sim σ T} {k : Nat}
    (hlt : TimeOps.lt s.clock endT = true) (hemp : s.outboxEmpty n p) (hstep : s.step h = .ok (true, s2))
    (hall : ReadsEmpty h n p endT s2 k) : ReadsEmpty h n p endT s (k + 1) := by
  intro j sj hj hsj
  cases j with
  | zero => cases hsj; exact ⟨hlt, hemp⟩
  | succ j =>
    simp only [steps_succ, hstep] at hsj
    exact hall j sj (Nat.lt_of_succ_lt_succ hj) hsj

/-- a shorter prefix -/
theorem ReadsEmpty.mono {h : SHandler σ T} {n p : Nat} {endT : T} {s : Sim σ T} {k k' : Nat} (hk : k' ≤ k)
    (hall : ReadsEmpty h n p endT s k) : ReadsEmpty h n p endT s k' :=
  fun j sj hj hsj => hall j sj (Nat.lt_of_lt_of_le hj hk) hsj

/-! ### (1)–(3) for an arbitrary deadline -/

/-- the loop returns messages -/
theorem go_some (h : SHandler σ T) (n p : Nat) (endT : T) (fuel : Nat) (s s' : Sim σ T) (ms : List Msg)
    (hrun : stepUntilLocalTimeoutGo h n p endT fuel s = some (.ok (some ms, s'))) :
    ∃ k s₁, k < fuel ∧ s.steps h k = .ok (true, s₁) ∧ ReadsEmpty h n p endT s k ∧
      TimeOps.lt s₁.clock endT = true ∧ ms ≠ [] ∧ s₁.readNode n p = .ok (some ms, s') := by
  induction fuel generalizing s with
  | zero => simp [stepUntilLocalTimeoutGo] at hrun
  | succ f ih =>
    simp only [stepUntilLocalTimeoutGo] at hrun
    split at hrun
    · rename_i hlt
      split at hrun
      · cases hrun
      · rename_i ms' s2 hr
        simp only [Option.some.injEq, Except.ok.injEq, Prod.mk.injEq] at hrun
        obtain ⟨rfl, rfl⟩ := hrun
        exact ⟨0, s, Nat.succ_pos _, rfl, ReadsEmpty.zero h n p endT s, hlt, readNode_some_ne hr, hr⟩
      · rename_i s2 hr
        obtain ⟨rfl, hemp⟩ := readNode_none hr
        split at hrun
        · cases hrun
        · cases hrun
        · rename_i s3 hstep
          obtain ⟨k, s₁, hk, hsteps, hall, hlt1, hne, hread⟩ := ih _ hrun
          refine ⟨k + 1, s₁, Nat.succ_lt_succ hk, ?_, ReadsEmpty.succ hlt hemp hstep hall, hlt1, hne, hread⟩
          simp only [steps_succ, hstep]; exact hsteps
    · cases hrun

/-- the loop gives up -/
theorem go_none (h : SHandler σ T) (n p : Nat) (endT : T) (fuel : Nat) (s s' : Sim σ T)
    (hrun : stepUntilLocalTimeoutGo h n p endT fuel s = some (.ok (none, s'))) :
    ∃ k s₁, k < fuel ∧ s.steps h k = .ok (true, s₁) ∧ ReadsEmpty h n p endT s k ∧
      ((TimeOps.lt s₁.clock endT = false ∧ s' = s₁) ∨
       (TimeOps.lt s₁.clock endT = true ∧ s₁.outboxEmpty n p ∧ s₁.step h = .ok (false, s') ∧ s'.events = [])) := by
  induction fuel generalizing s with
  | zero => simp [stepUntilLocalTimeoutGo] at hrun
  | succ f ih =>
    simp only [stepUntilLocalTimeoutGo] at hrun
    split at hrun
    · rename_i hlt
      split at hrun
      · cases hrun
      · cases hrun
      · rename_i s2 hr
        obtain ⟨rfl, hemp⟩ := readNode_none hr
        split at hrun
        · cases hrun
        · rename_i s3 hstep
          simp only [Option.some.injEq, Except.ok.injEq, Prod.mk.injEq, true_and] at hrun
          subst hrun
          exact ⟨0, s2, Nat.succ_pos _, rfl, ReadsEmpty.zero h n p endT s2,
            .inr ⟨hlt, hemp, hstep, step_false_events h _ _ hstep⟩⟩
        · rename_i s3 hstep
          obtain ⟨k, s₁, hk, hsteps, hall, hfin⟩ := ih _ hrun
          refine ⟨k + 1, s₁, Nat.succ_lt_succ hk, ?_, ReadsEmpty.succ hlt hemp hstep hall, hfin⟩
          simp only [steps_succ, hstep]; exact hsteps
    · rename_i hlt
      simp only [Option.some.injEq, Except.ok.injEq, Prod.mk.injEq, true_and] at hrun
      subst hrun
      refine ⟨0, s, Nat.succ_pos _, rfl, ReadsEmpty.zero h n p endT s, .inl ⟨?_, rfl⟩⟩
      cases hc : TimeOps.lt s.clock endT with
      | false => rfl
      | true => exact absurd hc hlt

/-- (4) the loop alternates the deadline test, `readNode` and `step`: it keeps whatever `step` and `readNode` keep -/
theorem go_keeps (h : SHandler σ T) (P : Sim σ T → Prop)
    (hstep : ∀ (s s' : Sim σ T) (b : Bool), P s → s.step h = .ok (b, s') → P s')
    (hread : ∀ (s s' : Sim σ T) (n p : Nat) (o : Option (List Msg)), P s → s.readNode n p = .ok (o, s') → P s')
    (n p : Nat) (endT : T) (fuel : Nat) {s s' : Sim σ T} {o : Option (List Msg)} (hi : P s)
    (hrun : stepUntilLocalTimeoutGo h n p endT fuel s = some (.ok (o, s'))) : P s' := by
  induction fuel generalizing s with
  | zero => simp [stepUntilLocalTimeoutGo] at hrun
  | succ f ih =>
    simp only [stepUntilLocalTimeoutGo] at hrun
    split at hrun
    · split at hrun
      · cases hrun
      · rename_i ms s2 hr
        cases hrun
        exact hread _ _ n p _ hi hr
      · rename_i s2 hr
        have hi2 := hread _ _ n p _ hi hr
        split at hrun
        · cases hrun
        · rename_i s3 hstep'
          cases hrun
          exact hstep _ _ false hi2 hstep'
        · rename_i s3 hstep'
          exact ih (hstep _ _ true hi2 hstep') hrun
    · cases hrun
      exact hi

theorem keeps (h : SHandler σ T) (P : Sim σ T → Prop)
    (hstep : ∀ (s s' : Sim σ T) (b : Bool), P s → s.step h = .ok (b, s') → P s')
    (hread : ∀ (s s' : Sim σ T) (n p : Nat) (o : Option (List Msg)), P s → s.readNode n p = .ok (o, s') → P s')
    (n p : Nat) (timeout : T) (fuel : Nat) {s s' : Sim σ T} {o : Option (List Msg)} (hi : P s)
    (hrun : stepUntilLocalTimeout h n p timeout fuel s = some (.ok (o, s'))) : P s' :=
  go_keeps h P hstep hread n p _ fuel hi hrun

/-- with enough fuel the loop terminates: `fuel` bounds the number of iterations, and every iteration but the last makes a
    successful step; the result with more fuel is the same -/
theorem go_fuel_mono (h : SHandler σ T) (n p : Nat) (endT : T) (fuel : Nat) (s : Sim σ T)
    (r : R (Option (List Msg) × Sim σ T))
    (hrun : stepUntilLocalTimeoutGo h n p endT fuel s = some r) :
    stepUntilLocalTimeoutGo h n p endT (fuel + 1) s = some r := by
  induction fuel generalizing s with
  | zero => simp [stepUntilLocalTimeoutGo] at hrun
  | succ f ih =>
    rw [stepUntilLocalTimeoutGo] at hrun ⊢
    split
    · rename_i hlt
      simp only [hlt, if_true] at hrun
      split
      · rename_i e hr; simp only [hr] at hrun; exact hrun
      · rename_i ms s2 hr; simp only [hr] at hrun; exact hrun
      · rename_i s2 hr
        simp only [hr] at hrun
        split
        · rename_i e hs; simp only [hs] at hrun; exact hrun
        · rename_i s3 hs; simp only [hs] at hrun; exact hrun
        · rename_i s3 hs; simp only [hs] at hrun; exact ih _ hrun
    · rename_i hlt
      simp only [hlt] at hrun
      exact hrun

end Timeout

open Timeout

/-! ## (1)–(3) `step_until_local_message_timeout` -/

/-- **(1), (2)** `step_until_local_message_timeout` returns messages: it made `k` successful steps; at each of the `k`
    reads that were followed by a step the clock was before the deadline and the outbox was empty (so no step was made after
    the outbox became non-empty); in the state `s₁` reached the clock is still before the deadline, and what it returns is
    the non-empty outbox found in `s₁`, which it drains (`readNode`). -/
theorem stepUntilLocalTimeout_some (h : SHandler σ T) (n p : Nat) (timeout : T) (fuel : Nat) (s s' : Sim σ T)
    (ms : List Msg) (hrun : stepUntilLocalTimeout h n p timeout fuel s = some (.ok (some ms, s'))) :
    ∃ k s₁, k < fuel ∧ s.steps h k = .ok (true, s₁) ∧ ReadsEmpty h n p (TimeOps.add s.clock timeout) s k ∧
      TimeOps.lt s₁.clock (TimeOps.add s.clock timeout) = true ∧ ms ≠ [] ∧ s₁.readNode n p = .ok (some ms, s') :=
  go_some h n p _ fuel s s' ms hrun

/-- **(2)** spelled out: the returned list is exactly the outbox of `p` on `n` in `s₁` (non-empty, in order); `s'` is `s₁`
    with that outbox emptied — the other fields of the entry, all other process entries (so all other outboxes), trace,
    clock, queue, cancellations, network, draws, counters are those of `s₁` (the equation for the whole state says so) -/
theorem stepUntilLocalTimeout_some_frame (h : SHandler σ T) (n p : Nat) (timeout : T) (fuel : Nat) (s s' : Sim σ T)
    (ms : List Msg) (hrun : stepUntilLocalTimeout h n p timeout fuel s = some (.ok (some ms, s'))) :
    ∃ k s₁ nd e, k < fuel ∧ s.steps h k = .ok (true, s₁) ∧ ReadsEmpty h n p (TimeOps.add s.clock timeout) s k ∧
      TimeOps.lt s₁.clock (TimeOps.add s.clock timeout) = true ∧
      amGet? n s₁.nodes = some nd ∧ amGet? p nd.procs = some e ∧ s₁.proc? n p = some e ∧
      ms = e.outbox ∧ ms ≠ [] ∧
      s' = { s₁ with nodes :=
               amInsert natLt n ({ nd with procs := amInsert natLt p ({ e with outbox := [] }) nd.procs }) s₁.nodes } ∧
      s'.proc? n p = some { e with outbox := [] } ∧
      (∀ n' p', ¬(n' = n ∧ p' = p) → s'.proc? n' p' = s₁.proc? n' p') ∧
      s'.trace = s₁.trace ∧ s'.clock = s₁.clock ∧ s'.events = s₁.events := by
  obtain ⟨k, s₁, hk, hsteps, hall, hlt, _, hread⟩ := stepUntilLocalTimeout_some h n p timeout fuel s s' ms hrun
  obtain ⟨nd, e, hn, he, h1, h2, h3, h4, h5, h6, h7, h8⟩ := (readNode_drains s₁ s' n p).1 ms hread
  exact ⟨k, s₁, nd, e, hk, hsteps, hall, hlt, hn, he, by rw [proc?_eq hn, he], h1, h2, h3, h4, h5, h6, h7, h8⟩

/-- **(1), (3)** `step_until_local_message_timeout` gives up: it made `k` successful steps, with the clock before the
    deadline and the outbox empty at each read that was followed by a step; then either
    * the deadline is reached in `s₁` (`¬ clock s₁ < end`) and `s' = s₁`: the outbox is **not** read again, nothing is
      cleared; or
    * the clock is still before the deadline, the outbox of `p` is empty and `step` finds no event: `s'` is the state that
      unsuccessful `step` returns (it only drops cancelled events from the queue, which is then empty). -/
theorem stepUntilLocalTimeout_none (h : SHandler σ T) (n p : Nat) (timeout : T) (fuel : Nat) (s s' : Sim σ T)
    (hrun : stepUntilLocalTimeout h n p timeout fuel s = some (.ok (none, s'))) :
    ∃ k s₁, k < fuel ∧ s.steps h k = .ok (true, s₁) ∧ ReadsEmpty h n p (TimeOps.add s.clock timeout) s k ∧
      ((TimeOps.lt s₁.clock (TimeOps.add s.clock timeout) = false ∧ s' = s₁) ∨
       (TimeOps.lt s₁.clock (TimeOps.add s.clock timeout) = true ∧ s₁.outboxEmpty n p ∧
          s₁.step h = .ok (false, s') ∧ s'.events = [])) :=
  go_none h n p _ fuel s s' hrun

/-- **(3)** nothing is consumed when the function gives up: the nodes — hence every process entry, hence the outbox of
    every process on every node — in `s'` are those of the state `s₁` after the last successful step; trace and clock are
    those of `s₁` as well -/
theorem stepUntilLocalTimeout_none_keeps_outboxes (h : SHandler σ T) (n p : Nat) (timeout : T) (fuel : Nat)
    (s s' : Sim σ T) (hrun : stepUntilLocalTimeout h n p timeout fuel s = some (.ok (none, s'))) :
    ∃ k s₁, k < fuel ∧ s.steps h k = .ok (true, s₁) ∧ s'.nodes = s₁.nodes ∧ (∀ n' p', s'.proc? n' p' = s₁.proc? n' p') ∧
      s'.trace = s₁.trace ∧ s'.clock = s₁.clock := by
  obtain ⟨k, s₁, hk, hsteps, _, hfin⟩ := stepUntilLocalTimeout_none h n p timeout fuel s s' hrun
  refine ⟨k, s₁, hk, hsteps, ?_⟩
  rcases hfin with ⟨_, rfl⟩ | ⟨_, _, hstep, _⟩
  · exact ⟨rfl, fun _ _ => rfl, rfl, rfl⟩
  · have hn := step_false_nodes h hstep
    rcases step_cases h hstep with ⟨_, hpop⟩ | ⟨hb, _⟩
    · obtain ⟨_, h2, h3, _⟩ := nextEvent_none_core _ s₁ s' (Nat.lt_succ_self _) hpop
      exact ⟨hn, proc?_of_nodes hn, h3, h2⟩
    · cases hb

/-- a deadline that is not after the clock (`timeout ≤ 0`, or any `timeout` for which `clock < clock + timeout` fails):
    the function gives up at once, makes no step and does not look at the outbox -/
theorem stepUntilLocalTimeout_expired (h : SHandler σ T) (n p : Nat) (timeout : T) (fuel : Nat) (s : Sim σ T)
    (hexp : TimeOps.lt s.clock (TimeOps.add s.clock timeout) = false) :
    stepUntilLocalTimeout h n p timeout (fuel + 1) s = some (.ok (none, s)) := by
  simp [stepUntilLocalTimeout, stepUntilLocalTimeoutGo, hexp]

/-- for a non-negative timeout the deadline `end = clock + timeout` is not before the clock at the call -/
theorem stepUntilLocalTimeout_deadline_ge [LawfulTime T] (s : Sim σ T) (timeout : T)
    (h0 : TimeOps.le TimeOps.zero timeout = true) : TimeOps.le s.clock (TimeOps.add s.clock timeout) = true :=
  LawfulTime.le_add _ _ h0

/-- the result does not depend on the fuel once there is enough of it -/
theorem stepUntilLocalTimeout_fuel_mono (h : SHandler σ T) (n p : Nat) (timeout : T) (fuel : Nat) (s : Sim σ T)
    (r : R (Option (List Msg) × Sim σ T)) (hrun : stepUntilLocalTimeout h n p timeout fuel s = some r) :
    stepUntilLocalTimeout h n p timeout (fuel + 1) s = some r :=
  go_fuel_mono h n p _ fuel s r hrun

/-! ## (4) invariants -/

theorem Timeout.logInv_readNode {s s' : Sim σ T} {n p : Nat} {o : Option (List Msg)} (hi : s.LogInv)
    (hok : s.readNode n p = .ok (o, s')) : s'.LogInv := by
  rcases readNode_cases hok with rfl | rfl
  · exact hi
  · exact LogInv.updProc _ _ _ (fun e h => h) hi

/-- **`step_until_local_message_timeout` keeps `LogInv`** (no hypotheses) -/
theorem LogInv.stepUntilLocalTimeout (h : SHandler σ T) (n p : Nat) (timeout : T) (fuel : Nat) {s s' : Sim σ T}
    {o : Option (List Msg)} (hi : s.LogInv) (hrun : stepUntilLocalTimeout h n p timeout fuel s = some (.ok (o, s'))) :
    s'.LogInv :=
  Timeout.keeps h LogInv (fun s s' b hi hok => LogInv.step h s s' b hi hok) (fun _ _ _ _ _ hi hok => logInv_readNode hi hok)
    n p timeout fuel hi hrun

theorem Timeout.readNode_traceLe {s s' : Sim σ T} {n p : Nat} {o : Option (List Msg)} (hok : s.readNode n p = .ok (o, s')) :
    TraceLe s s' := by
  rcases readNode_cases hok with rfl | rfl
  · exact TraceLe.refl _
  · exact TraceLe.updProc _ _ _ _

section lawful
variable [LawfulTime T]

/-- `step_until_local_message_timeout` in the `Next` framework of `SimTraceInv.lean`: from a state that satisfies
    `TraceInv dup` it reaches a state satisfying `TraceInv dup'` with `dup ⊆ dup'`, and `dup' = dup` when the duplication rate
    is zero; the rate is untouched and draws are only consumed from the front -/
theorem stepUntilLocalTimeout_next (hzero : LawfulTime.isDraw (TimeOps.zero : T)) (h : SHandler σ T) (n p : Nat)
    (timeout : T) (fuel : Nat) {s s' : Sim σ T} {dup : List Nat} {o : Option (List Msg)} (hi : s.TraceInv dup)
    (hd : ∀ d ∈ s.draws, LawfulTime.isDraw d)
    (hrun : stepUntilLocalTimeout h n p timeout fuel s = some (.ok (o, s'))) : Next s dup s' := by
  cases o with
  | some ms =>
    obtain ⟨k, s₁, _, hsteps, _, _, _, hread⟩ := stepUntilLocalTimeout_some h n p timeout fuel s s' ms hrun
    exact (steps_next hzero h k true hi hd hsteps).then_le (readNode_traceLe hread)
  | none =>
    obtain ⟨k, s₁, _, hsteps, _, hfin⟩ := stepUntilLocalTimeout_none h n p timeout fuel s s' hrun
    have h1 := steps_next hzero h k true hi hd hsteps
    rcases hfin with ⟨_, rfl⟩ | ⟨_, _, hstep, _⟩
    · exact h1
    · exact h1.trans (fun dup1 hi1 hd1 => step_next hzero h false hi1 (fun d hdd => hd d (hd1 d hdd)) hstep)

/-- **`step_until_local_message_timeout` keeps `TraceInv`** (for a ghost set that grows only if the duplication rate is
    positive) -/
theorem TraceInv.stepUntilLocalTimeout (h : SHandler σ T) (n p : Nat) (timeout : T) (fuel : Nat) {s s' : Sim σ T}
    {dup : List Nat} {o : Option (List Msg)} (hi : s.TraceInv dup) (hd : ∀ d ∈ s.draws, LawfulTime.isDraw d)
    (hzero : LawfulTime.isDraw (TimeOps.zero : T))
    (hrun : stepUntilLocalTimeout h n p timeout fuel s = some (.ok (o, s'))) :
    ∃ dup', s'.TraceInv dup' ∧ (∀ x ∈ dup, x ∈ dup') ∧
      (TimeOps.lt TimeOps.zero s.net.duplRate = false → dup' = dup) := by
  obtain ⟨dup', hi', hsub, hz, _, _⟩ := stepUntilLocalTimeout_next hzero h n p timeout fuel hi hd hrun
  exact ⟨dup', hi', hsub, hz⟩

section run
variable (hzero : LawfulTime.isDraw (TimeOps.zero : T)) (h : SHandler σ T) (hh : HandlerDelaysOk h)
include hzero hh

/-- **`step_until_local_message_timeout` keeps `TimeWF`, `TraceTimeInv`, `LogTimeInv`** -/
theorem TimeInvs.stepUntilLocalTimeout (n p : Nat) (timeout : T) (fuel : Nat) {s s' : Sim σ T} {o : Option (List Msg)}
    (hi : s.TimeInvs) (hrun : stepUntilLocalTimeout h n p timeout fuel s = some (.ok (o, s'))) : s'.TimeInvs :=
  Timeout.keeps h TimeInvs (fun _ _ b hi hok => hi.step hzero h hh b hok) (fun _ _ _ _ _ hi hok => hi.readNode hok)
    n p timeout fuel hi hrun

/-- `TimeWF` alone -/
theorem TimeWF.stepUntilLocalTimeout (n p : Nat) (timeout : T) (fuel : Nat) {s s' : Sim σ T} {o : Option (List Msg)}
    (hw : s.TimeWF) (hrun : stepUntilLocalTimeout h n p timeout fuel s = some (.ok (o, s'))) : s'.TimeWF :=
  Timeout.keeps h TimeWF (fun _ _ b hw hok => hw.step hzero h hh b hok) (fun _ _ _ _ _ hw hok => hw.readNode hok)
    n p timeout fuel hw hrun

/-! ## (5) the clock -/

/-- **the clock never goes back**: `clock s ≤ clock s'` -/
theorem stepUntilLocalTimeout_clock_le (n p : Nat) (timeout : T) (fuel : Nat) {s s' : Sim σ T} {o : Option (List Msg)}
    (hw : s.TimeWF) (hrun : stepUntilLocalTimeout h n p timeout fuel s = some (.ok (o, s'))) :
    TimeOps.le s.clock s'.clock = true := by
  cases o with
  | some ms =>
    obtain ⟨k, s₁, _, _, _, hsteps, _, _, _, _, _, _, _, _, _, _, _, hc, _⟩ :=
      stepUntilLocalTimeout_some_frame h n p timeout fuel s s' ms hrun
    rw [hc]
    exact clock_monotone hzero h hh k true hw hsteps
  | none =>
    obtain ⟨k, s₁, _, hsteps, _, _, _, hc⟩ := stepUntilLocalTimeout_none_keeps_outboxes h n p timeout fuel s s' hrun
    rw [hc]
    exact clock_monotone hzero h hh k true hw hsteps

end run

/-- when messages are returned the clock is still before the deadline -/
theorem stepUntilLocalTimeout_some_clock_lt (h : SHandler σ T) (n p : Nat) (timeout : T) (fuel : Nat) (s s' : Sim σ T)
    (ms : List Msg) (hrun : stepUntilLocalTimeout h n p timeout fuel s = some (.ok (some ms, s'))) :
    TimeOps.lt s'.clock (TimeOps.add s.clock timeout) = true := by
  obtain ⟨k, s₁, _, _, _, _, _, hlt, _, _, _, _, _, _, _, _, _, hc, _⟩ :=
    stepUntilLocalTimeout_some_frame h n p timeout fuel s s' ms hrun
  rw [hc]; exact hlt

/-- **giving up with events left means the deadline was reached**: `end ≤ clock s'`, and nothing was read or cleared
    (`s'` is the state after the last successful step).  The clock is *not* set to `end`; it is the time of the last handled
    event (or the initial clock), which may be later than `end`. -/
theorem stepUntilLocalTimeout_none_deadline (h : SHandler σ T) (n p : Nat) (timeout : T) (fuel : Nat) (s s' : Sim σ T)
    (hrun : stepUntilLocalTimeout h n p timeout fuel s = some (.ok (none, s'))) (hev : s'.events ≠ []) :
    TimeOps.le (TimeOps.add s.clock timeout) s'.clock = true ∧ ∃ k, k < fuel ∧ s.steps h k = .ok (true, s') := by
  obtain ⟨k, s₁, hk, hsteps, _, hfin⟩ := stepUntilLocalTimeout_none h n p timeout fuel s s' hrun
  rcases hfin with ⟨hlt, rfl⟩ | ⟨_, _, _, he⟩
  · exact ⟨time_le_of_not_lt _ _ (by rw [hlt]; simp), k, hk, hsteps⟩
  · exact absurd he hev

/-- the deadline-reached branch alone: `¬ clock s₁ < end` gives `end ≤ clock s'` -/
theorem stepUntilLocalTimeout_none_cases (h : SHandler σ T) (n p : Nat) (timeout : T) (fuel : Nat) (s s' : Sim σ T)
    (hrun : stepUntilLocalTimeout h n p timeout fuel s = some (.ok (none, s'))) :
    (TimeOps.le (TimeOps.add s.clock timeout) s'.clock = true ∧ ∃ k, k < fuel ∧ s.steps h k = .ok (true, s')) ∨
    (TimeOps.lt s'.clock (TimeOps.add s.clock timeout) = true ∧ s'.events = [] ∧ s'.outboxEmpty n p) := by
  obtain ⟨k, s₁, hk, hsteps, _, hfin⟩ := stepUntilLocalTimeout_none h n p timeout fuel s s' hrun
  rcases hfin with ⟨hlt, rfl⟩ | ⟨hlt, hemp, hstep, he⟩
  · exact .inl ⟨time_le_of_not_lt _ _ (by rw [hlt]; simp), k, hk, hsteps⟩
  · refine .inr ⟨?_, he, ?_⟩
    · rcases step_clock_eq_pop h hstep with ⟨hb, _⟩ | ⟨_, _, hc⟩
      · cases hb
      · rw [hc]; exact hlt
    · intro e he'
      rw [proc?_of_nodes (step_false_nodes h hstep)] at he'
      exact hemp e he'

end lawful

end Sim
/-! ## (6) non-vacuity: giving up past the deadline with the message still in the outbox -/
namespace SimStepTimeoutDemo

open Sim Sim.TimeOrder Sim.LogTimes Sim.Timeout

/-- an empty simulator: network delays in `[1, 5]`, no faults, two draws -/
def base : Sim Nat Ticks :=
  { clock := ⟨0⟩,
    net := { (SimNet.default : SimNet Ticks) with minDelay := ⟨1⟩, maxDelay := ⟨5⟩ },
    draws := [⟨500⟩, ⟨100⟩] }

/-- node 0 with processes 1 and 2 -/
def setup : R (Sim Nat Ticks) := do
  let s ← base.addNode 0
  let s ← s.addProcess 1 0 0
  s.addProcess 2 0 0

/-- process 1 answers a local message by setting timer 0 with delay 5, timer 1 with delay 2 and timer 2 with delay 9; when
    timer 0 fires (at time 5) it sends a local message carrying its clock reading; timers 1 and 2 (at times 2 and 9) do
    nothing; process 2 never does anything -/
def h : SHandler Nat Ticks := fun p st i c _ =>
  match p, i with
  | 1, .loc _ => (st + 1, [.set 0 5 false, .set 1 2 false, .set 2 9 false], 0)
  | 1, .timer 0 => (st + 1, [.loc ⟨9, [c.n]⟩], 0)
  | _, _ => (st + 1, [], 0)

theorem hzero : LawfulTime.isDraw (TimeOps.zero : Ticks) := by
  show (0 : Nat) < 1000
  decide

theorem hdelays : HandlerDelaysOk h := by
  intro p st i c dr name d once _
  show decide ((0 : Nat) ≤ _) = true
  simp

theorem hdraws : ∀ d ∈ base.draws, LawfulTime.isDraw d := by
  intro d hd
  simp only [base, List.mem_cons, List.not_mem_nil, or_false] at hd
  rcases hd with rfl | rfl <;> (show (_ : Nat) < 1000) <;> decide

theorem base_invs : base.TimeInvs :=
  TimeInvs.of_empty base rfl rfl rfl ⟨by decide, by decide⟩ hdraws

theorem base_trace : base.TraceInv [] := TraceInv.of_empty base rfl rfl ⟨rfl, rfl, rfl⟩

theorem base_log : base.LogInv := by
  intro n p e he
  simp [Sim.proc?, base, amGet?] at he

theorem logInv_addNode {s s' : Sim σ T} (n : Nat) (hi : s.LogInv) (hok : s.addNode n = .ok s') : s'.LogInv := by
  unfold Sim.addNode at hok
  split at hok
  · cases hok
  · cases hok
    refine LogInv.of_nodes (s := s.setNode n { skew := TimeOps.zero }) rfl ?_
    intro n' p' e he
    rw [proc?_setNode] at he
    split at he
    · simp [amGet?] at he
    · exact hi _ _ _ he

theorem addNode_duplRate {s s' : Sim σ T} {n : Nat} (hok : s.addNode n = .ok s') : s'.net.duplRate = s.net.duplRate := by
  unfold Sim.addNode at hok
  split at hok
  · cases hok
  · cases hok; rfl

theorem addProcess_duplRate {s s' : Sim σ T} {p n : Nat} {st : σ} (hok : s.addProcess p st n = .ok s') :
    s'.net.duplRate = s.net.duplRate := by
  unfold Sim.addProcess at hok
  split at hok
  · cases hok
  · dsimp only at hok
    split at hok
    · cases hok
    · cases hok; rfl

/-- the state after the set-up and `send_local_message` to process 1: clock 0, timers due at 5 (id 0), 2 (id 1), 9 (id 2) -/
def start : Option (Sim Nat Ticks) :=
  match setup with
  | .error _ => none
  | .ok s0 => (s0.sendLocal h 1 ⟨0, []⟩).toOption

example : start.map (fun s => (s.clock.n, s.events.map (fun e => (e.time.n, e.id)),
    (s.proc? 0 1).map (·.outbox))) = some (0, [(5, 0), (2, 1), (9, 2)], some []) := by decide

/-- what a call returns, projected to decidable data: the result, the clock, the live events (time, id), the outbox of
    process 1 on node 0 -/
def view (r : Option (R (Option (List Msg) × Sim Nat Ticks))) :
    Option (Option (Option (List Msg) × Nat × List (Nat × Nat) × Option (List Msg))) :=
  r.map fun x => x.toOption.map fun y =>
    (y.1, y.2.clock.n, y.2.live.map (fun e => (e.time.n, e.id)), (y.2.proc? 0 1).map (·.outbox))

/-- **`step_until_local_message_timeout(…, 3)` gives up past the deadline with the message still in the outbox.**
    `end = 0 + 3`.  Read at clock 0 (empty), step to clock 2 (timer 1, nothing sent); read at clock 2 `< 3` (empty), step to
    clock 5 (timer 0 fires, the process sends its local message); now `5 ≥ 3`: the function returns `none` *without* reading
    the outbox — the clock is 5 (not 3), the timer due at 9 is still queued, and the message `⟨9, [5]⟩` is still in the
    outbox. -/
theorem gives_up_past_deadline :
    (start.map fun s => view (stepUntilLocalTimeout h 0 1 ⟨3⟩ 10 s)) =
      some (some (some (none, 5, [(9, 2)], some [⟨9, [5]⟩]))) := by rfl

/-- … and a following `read_local_messages` returns it (and empties the outbox): nothing was lost -/
theorem then_read_returns_it :
    (start.bind fun s => match stepUntilLocalTimeout h 0 1 ⟨3⟩ 10 s with
      | some (.ok (r, s')) => (s'.readLocal 1).toOption.map (fun x => (r, x.1, (x.2.proc? 0 1).map (·.outbox)))
      | _ => none) = some (none, [⟨9, [5]⟩], some []) := by decide

/-- the same call with timeout 6 (`end = 6 > 5`) returns the message, at clock 5, and drains the outbox; with timeout 2
    (`end = 2`) it gives up after the first step (clock 2, timer 0 still queued, outbox empty); with timeout 0 it gives up at
    once; `step_until_local_message` (no deadline) returns the message -/
example : (start.map fun s => view (stepUntilLocalTimeout h 0 1 ⟨6⟩ 10 s)) =
    some (some (some (some [⟨9, [5]⟩], 5, [(9, 2)], some []))) := by rfl

example : (start.map fun s => view (stepUntilLocalTimeout h 0 1 ⟨2⟩ 10 s)) =
    some (some (some (none, 2, [(5, 0), (9, 2)], some []))) := by rfl

example : (start.map fun s => view (stepUntilLocalTimeout h 0 1 ⟨0⟩ 10 s)) =
    some (some (some (none, 0, [(5, 0), (2, 1), (9, 2)], some []))) := by rfl

example : (start.map fun s => view (stepUntilLocal h 0 1 10 s)) =
    some (some (some (some [⟨9, [5]⟩], 5, [(9, 2)], some []))) := by rfl

/-- **the queue runs dry before the deadline**: waiting for process 2 (which never sends) with timeout 20 handles all three
    events (clock 9 `< 20`), then `step` finds nothing: `none`, the clock stays at 9 (it is *not* moved to 20), and the
    message of process 1 — a different process — is still in its outbox -/
example : (start.map fun s => view (stepUntilLocalTimeout h 0 2 ⟨20⟩ 10 s)) =
    some (some (some (none, 9, [], some [⟨9, [5]⟩]))) := by rfl

/-- fuel: two successful steps and the final deadline test need three iterations; with less fuel the model reports
    exhaustion (`none` at the outer level), with more the result is the same -/
example : (start.map fun s => [2, 3, 4].map fun f => (stepUntilLocalTimeout h 0 1 ⟨3⟩ f s).isSome) =
    some [false, true, true] := by decide

/-- the decomposition of the theorems, evaluated: `k = 2` successful steps; the outbox is empty and the clock `< 3` in the
    states after 0 and 1 steps; after 2 steps the clock is 5 and the outbox holds the message -/
example : (start.map fun s => [0, 1, 2].map fun j => (s.steps h j).toOption.map fun r =>
      (r.1, r.2.clock.n, (r.2.proc? 0 1).map (·.outbox))) =
    some [some (true, 0, some []), some (true, 2, some []), some (true, 5, some [⟨9, [5]⟩])] := by rfl

/-- all hypotheses of the theorems are discharged for this run: whatever states the set-up, the `send_local_message` and
    `step_until_local_message_timeout` produce, the invariants hold in them and the clock did not go back -/
theorem run_invs (s0 s1 s2 : Sim Nat Ticks) (r : Option (List Msg)) (h0 : setup = .ok s0)
    (h1 : s0.sendLocal h 1 ⟨0, []⟩ = .ok s1)
    (h2 : stepUntilLocalTimeout h 0 1 ⟨3⟩ 10 s1 = some (.ok (r, s2))) :
    s2.TimeInvs ∧ s2.LogInv ∧ s2.TraceInv [] ∧ TimeOps.le s1.clock s2.clock = true ∧
    (r = none → s2.events ≠ [] → TimeOps.le (TimeOps.add s1.clock ⟨3⟩) s2.clock = true ∧
      ∃ k, k < 10 ∧ s1.steps h k = .ok (true, s2)) := by
  unfold setup at h0
  obtain ⟨a, ha, h0⟩ := bind_ok h0
  obtain ⟨b, hb, h0⟩ := bind_ok h0
  have i0 : s0.TimeInvs := ((base_invs.addNode 0 ha).addProcess 1 0 0 hb).addProcess 2 0 0 h0
  have l0 : s0.LogInv :=
    LogInv.addProcess _ _ 2 0 0 (LogInv.addProcess _ _ 1 0 0 (logInv_addNode 0 base_log ha) hb) h0
  have t0 : s0.TraceInv [] := ((base_trace.addNode 0 ha).addProcess 1 0 0 hb).addProcess 2 0 0 h0
  have d0 : ∀ d ∈ s0.draws, LawfulTime.isDraw d := i0.wf.drawsOk
  have i1 := i0.sendLocal hzero h hdelays 1 _ h1
  have l1 := LogInv.sendLocal h _ _ 1 _ l0 h1
  obtain ⟨dup1, t1, _, hz1, hr1, hd1⟩ := sendLocal_next hzero h 1 _ t0 d0 h1
  have hrate0 : TimeOps.lt (TimeOps.zero : Ticks) s0.net.duplRate = false := by
    rw [addProcess_duplRate h0, addProcess_duplRate hb, addNode_duplRate ha]; rfl
  rw [hz1 hrate0] at t1
  obtain ⟨dup2, t2, _, hz2⟩ := t1.stepUntilLocalTimeout h 0 1 ⟨3⟩ 10 i1.wf.drawsOk hzero h2
  rw [hz2 (by rw [hr1]; exact hrate0)] at t2
  refine ⟨i1.stepUntilLocalTimeout hzero h hdelays 0 1 ⟨3⟩ 10 h2, l1.stepUntilLocalTimeout h 0 1 ⟨3⟩ 10 h2, t2,
    stepUntilLocalTimeout_clock_le hzero h hdelays 0 1 ⟨3⟩ 10 i1.wf h2, ?_⟩
  intro hr hev
  subst hr
  exact stepUntilLocalTimeout_none_deadline h 0 1 ⟨3⟩ 10 s1 s2 h2 hev

/-- the concrete run is such a run: it exists, gives up (`none`) at clock 5 with `end = 3 ≤ 5`, the message is still in the
    outbox, and the final state satisfies all the invariants -/
theorem demo_run : ∃ s1 s2 : Sim Nat Ticks, start = some s1 ∧
    stepUntilLocalTimeout h 0 1 ⟨3⟩ 10 s1 = some (.ok (none, s2)) ∧ s2.clock = ⟨5⟩ ∧
    (s2.proc? 0 1).map (·.outbox) = some [⟨9, [5]⟩] ∧
    s2.TimeInvs ∧ s2.LogInv ∧ s2.TraceInv [] ∧ TimeOps.le (TimeOps.add s1.clock ⟨3⟩) s2.clock = true ∧
    ∃ k, k < 10 ∧ s1.steps h k = .ok (true, s2) := by
  have f := gives_up_past_deadline
  cases hs : start with
  | none => rw [hs] at f; cases f
  | some s1 =>
    rw [hs] at f
    simp only [Option.map_some, Option.some.injEq] at f
    cases hr : stepUntilLocalTimeout h 0 1 ⟨3⟩ 10 s1 with
    | none => rw [hr] at f; cases f
    | some x =>
      cases x with
      | error e => rw [hr] at f; cases f
      | ok y =>
        obtain ⟨r, s2⟩ := y
        rw [hr] at f
        simp only [view, Option.map_some, Except.toOption, Option.some.injEq, Prod.mk.injEq] at f
        obtain ⟨fr, fc, fl, fo⟩ := f
        subst fr
        have hev : s2.events ≠ [] := by
          intro h0
          simp [Sim.live, h0] at fl
        unfold start at hs
        split at hs
        · cases hs
        · rename_i s0 h0
          cases h1 : s0.sendLocal h 1 ⟨0, []⟩ with
          | error e => rw [h1] at hs; cases hs
          | ok s1' =>
            rw [h1] at hs
            simp only [Except.toOption, Option.some.injEq] at hs
            subst hs
            obtain ⟨i2, l2, t2, _, hd⟩ := run_invs s0 s1' s2 none h0 h1 hr
            obtain ⟨hle, hk⟩ := hd rfl hev
            refine ⟨s1', s2, rfl, hr, ?_, fo, i2, l2, t2, hle, hk⟩
            cases hc : s2.clock with
            | mk k => rw [hc] at fc; simp only at fc; rw [fc]

end SimStepTimeoutDemo
end Anysystem
