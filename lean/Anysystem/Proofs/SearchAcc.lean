import Anysystem.Proofs.SearchLemmas
/-!
# Invariants of the accumulator that `Acc.check` maintains: the collected set and the status counts
-/
set_option linter.unusedSectionVars false

namespace Anysystem

variable {σ κ : Type} [DecidableEq κ]

/-! ## collected -/

def CollInv (S : TSys σ κ) (a : Acc σ κ) : Prop :=
  (∀ c ∈ a.collected, c ∈ a.evald ∧ S.collect c = true) ∧
  (∀ e ∈ a.evald, S.collect e = true → ∃ c ∈ a.collected, S.key c = S.key e) ∧
  (a.collected.map S.key).Nodup

theorem collInv_check (S : TSys σ κ) (a : Acc σ κ) (s : σ) (h : CollInv S a) :
    CollInv S (a.check S s).1 := by
  obtain ⟨h1, h2, h3⟩ := h
  unfold CollInv
  rw [check_collected, check_evald]
  split
  · rename_i hc
    simp only [Bool.and_eq_true, Bool.not_eq_eq_eq_not, Bool.not_true, List.any_eq_false,
      decide_eq_true_eq] at hc
    obtain ⟨hcs, hany⟩ := hc
    refine ⟨?_, ?_, ?_⟩
    · intro c hcm
      rcases List.mem_append.mp hcm with hcm | hcm
      · exact ⟨List.mem_append_left _ (h1 c hcm).1, (h1 c hcm).2⟩
      · simp only [List.mem_singleton] at hcm; subst hcm
        exact ⟨by simp, hcs⟩
    · intro e he hce
      rcases List.mem_append.mp he with he | he
      · obtain ⟨c, hcm, hk⟩ := h2 e he hce
        exact ⟨c, List.mem_append_left _ hcm, hk⟩
      · simp only [List.mem_singleton] at he; subst he
        exact ⟨e, by simp, rfl⟩
    · rw [List.map_append, List.nodup_append]
      refine ⟨h3, by simp, ?_⟩
      intro k hk k' hk' hkk
      simp only [List.map_cons, List.map_nil, List.mem_singleton] at hk'
      subst hkk hk'
      obtain ⟨c, hcm, hck⟩ := List.mem_map.mp hk
      exact hany c hcm hck
  · rename_i hc
    refine ⟨?_, ?_, h3⟩
    · intro c hcm
      exact ⟨List.mem_append_left _ (h1 c hcm).1, (h1 c hcm).2⟩
    · intro e he hce
      rcases List.mem_append.mp he with he | he
      · exact h2 e he hce
      · simp only [List.mem_singleton] at he; subst he
        simp only [hce, Bool.true_and, Bool.not_eq_eq_eq_not, Bool.not_true, Bool.not_eq_false,
          List.any_eq_true, decide_eq_true_eq] at hc
        exact hc

/-! ## statuses -/

/-- what `bump` does to an entry -/
def incr (k : String) (x : String × Nat) : String × Nat := if x.1 == k then (x.1, x.2 + 1) else x

theorem incr_fst (k : String) (x : String × Nat) : (incr k x).1 = x.1 := by
  unfold incr; split <;> rfl

theorem incr_self (k : String) (n : Nat) : incr k (k, n) = (k, n + 1) := by
  simp [incr]

theorem incr_ne (k a : String) (n : Nat) (h : a ≠ k) : incr k (a, n) = (a, n) := by
  simp [incr, h]

theorem bump_eq (st : List (String × Nat)) (k : String) :
    bump st k = if st.any (·.1 == k) then st.map (incr k) else st ++ [(k, 1)] := by
  unfold bump
  split
  · apply List.map_congr_left
    rintro ⟨a, n⟩ _
    simp only [incr]
  · rfl

theorem bump_names (st : List (String × Nat)) (k : String) (h : (st.map (·.1)).Nodup) :
    ((bump st k).map (·.1)).Nodup := by
  rw [bump_eq]
  split
  · have : (st.map (incr k)).map (·.1) = st.map (·.1) := by
      rw [List.map_map]
      apply List.map_congr_left
      intro x _
      exact incr_fst k x
    rw [this]; exact h
  · rename_i hany
    rw [List.map_append, List.nodup_append]
    refine ⟨h, by simp, ?_⟩
    intro a ha b hb hab
    simp only [List.map_cons, List.map_nil, List.mem_singleton] at hb
    subst hab hb
    apply hany
    obtain ⟨x, hx, hxa⟩ := List.mem_map.mp ha
    simp only [List.any_eq_true, beq_iff_eq]
    exact ⟨x, hx, hxa⟩

theorem bump_sum_aux (k status : String) (st : List (String × Nat)) (h : (st.map (·.1)).Nodup) :
    ((((st.map (incr k))).filter (·.1 == status)).map (·.2)).sum =
      ((st.filter (·.1 == status)).map (·.2)).sum +
        if k = status ∧ k ∈ st.map (·.1) then 1 else 0 := by
  induction st with
  | nil => simp
  | cons x xs ih =>
    obtain ⟨a, n⟩ := x
    simp only [List.map_cons, List.nodup_cons] at h
    obtain ⟨hnot, hnd⟩ := h
    have ih := ih hnd
    rw [List.map_cons]
    by_cases hak : a = k
    · subst hak
      have hz : ¬ (a = status ∧ a ∈ xs.map (·.1)) := fun hh => hnot hh.2
      rw [if_neg hz, Nat.add_zero] at ih
      rw [incr_self]
      by_cases has : a = status
      · subst has
        have hp : (a = a ∧ a ∈ List.map (·.1) ((a, n) :: xs)) := ⟨rfl, by simp⟩
        rw [if_pos hp, List.filter_cons_of_pos (by simp), List.filter_cons_of_pos (by simp),
          List.map_cons, List.map_cons, List.sum_cons, List.sum_cons, ih]
        simp only []
        omega
      · have hn : ¬ (a = status ∧ a ∈ List.map (·.1) ((a, n) :: xs)) := fun hh => has hh.1
        rw [if_neg hn, List.filter_cons_of_neg (by simpa using has),
          List.filter_cons_of_neg (by simpa using has), ih, Nat.add_zero]
    · rw [incr_ne k a n hak]
      have hmem : (k = status ∧ k ∈ List.map (·.1) ((a, n) :: xs)) ↔
          (k = status ∧ k ∈ xs.map (·.1)) := by
        simp only [List.map_cons, List.mem_cons]
        constructor
        · rintro ⟨h1, h | h⟩
          · exact absurd h.symm hak
          · exact ⟨h1, h⟩
        · rintro ⟨h1, h⟩; exact ⟨h1, Or.inr h⟩
      simp only [hmem]
      by_cases has : a = status
      · subst has
        rw [List.filter_cons_of_pos (by simp), List.filter_cons_of_pos (by simp),
          List.map_cons, List.map_cons, List.sum_cons, List.sum_cons, ih]
        omega
      · rw [List.filter_cons_of_neg (by simpa using has),
          List.filter_cons_of_neg (by simpa using has), ih]

theorem bump_sum (k status : String) (st : List (String × Nat)) (h : (st.map (·.1)).Nodup) :
    (((bump st k).filter (·.1 == status)).map (·.2)).sum =
      ((st.filter (·.1 == status)).map (·.2)).sum + if k = status then 1 else 0 := by
  rw [bump_eq]
  split
  · rename_i hany
    rw [bump_sum_aux k status st h]
    have hk : k ∈ st.map (·.1) := by
      simp only [List.any_eq_true, beq_iff_eq] at hany
      obtain ⟨x, hx, hxk⟩ := hany
      exact List.mem_map.mpr ⟨x, hx, hxk⟩
    simp only [hk, and_true]
  · rw [List.filter_append, List.map_append, List.sum_append]
    by_cases hks : k = status
    · subst hks; simp
    · have : (k == status) = false := by simpa using hks
      simp [this, hks]

def StatInv (S : TSys σ κ) (a : Acc σ κ) : Prop :=
  (a.statuses.map (·.1)).Nodup ∧
  ∀ status : String, ((a.statuses.filter (·.1 == status)).map (·.2)).sum =
      (a.evald.filter (fun e => S.verdict e == .stop status)).length

theorem statInv_check (S : TSys σ κ) (a : Acc σ κ) (s : σ) (h : StatInv S a) :
    StatInv S (a.check S s).1 := by
  obtain ⟨h1, h2⟩ := h
  unfold StatInv
  rw [check_statuses, check_evald]
  cases hv : S.verdict s with
  | cont =>
    refine ⟨h1, fun status => ?_⟩
    simp only [List.filter_append, List.length_append, List.filter_cons, hv, h2 status]
    simp
  | fail msg =>
    refine ⟨h1, fun status => ?_⟩
    simp only [List.filter_append, List.length_append, List.filter_cons, hv, h2 status]
    simp
  | stop st =>
    refine ⟨bump_names _ _ h1, fun status => ?_⟩
    simp only
    rw [bump_sum st status _ h1, h2 status]
    simp only [List.filter_append, List.length_append, List.filter_cons, hv]
    by_cases hs : st = status
    · subst hs; simp
    · have : (Verdict.stop st == Verdict.stop status) = false := by simpa using hs
      simp [this, hs]

end Anysystem
