import Anysystem.Proofs.SimLogTimesLemmas
/-!
# C17 / C06 — the times of the per-process event logs, and the time-bounded stepping functions

*Every entry of every process's event log carries the global time of the handler invocation that wrote it; the times of
each event log are sorted and never ahead of the clock, along whole runs; `step_for_duration` / `step_until_time` handle
exactly the events due no later than the bound and leave the clock at the bound.*

* `Sim.LogTimeInv s` (`SimLogTimesLemmas.lean`): for every process entry of every node the times of its event log are
  non-decreasing (`Pairwise le`) and none lies after the clock.  It holds when no process exists (`LogTimeInv.of_no_nodes`)
  or all logs are empty (`LogTimeInv.of_logs_empty`), a process added by `addProcess` starts with an empty log
  (`addProcess_fresh_log_times`), and it is kept by `step` (`LogTimeInv.step`, under `TimeWF`), `steps` (under `TimeWF`,
  `HandlerDelaysOk`, `isDraw zero`), `sendLocal`, `readLocal`, `crashNode`, `recoverNode`, `addNode`, `addProcess`, `setSkew`
  and the network settings (no hypotheses).
* `step_log_times`: every process entry survives a step, and every entry the step appends to its event log carries the
  clock after the step, which is the popped event's time (`step_log_times_pop`); `sendLocal_log_times`: every entry
  `sendLocal` appends carries the current clock.
* `Sim.TimeInvs` = `TimeWF ∧ TraceTimeInv ∧ LogTimeInv`, kept by all of the above and by the stepping functions
  `stepUntilNoEvents`, `stepUntilLocal`, `stepUntilLocalMax`, `stepUntilTime`, `stepForDuration`.
* `log_times_sorted` (whole-run form, the per-process counterpart of `trace_times_sorted`): `steps` extends each event log by
  entries whose times are sorted and lie between the clock before and the clock after; `stepUntilTime_log_times`: the same
  for `step_until_time`, with the bound as upper limit.
* `stepUntilTime_pops` / `stepForDuration_pops`: in the `popSeq` framework — the function made `k` steps, popped exactly the
  `k` keys of `popSeq h k s`, all with time `≤` the bound; the next pop (if any) would be strictly later than the bound; the
  flag says whether there is such a pop; the clock is left at the bound.

**Skew.**  No event-log entry carries the skewed clock.  `onMessage`, `onTimer`, `onLocal` read `time := s.clock` (the
global clock) and stamp their own entry and — through `handleActions n p time` — the entries of all actions with it.  The
skewed value `clock + skew` is only the clock *reading* passed to the handler (`runHandler`); it can reach an event log only
as *payload* (a script's `.clock` action renders it into the data of a local message: the `lsent` entry then has the global
time as `time` and the skewed reading inside `m.data`; see `SimLogTimesDemo`).  The theorems below therefore hold for
arbitrary skews and `setSkew` is harmless.

**The clock jump.**  `step_until_time endT` sets the clock to `endT` unconditionally.  "Never ahead of the clock" survives
exactly because the clock only moves forward: the last handled event has time `≤ endT` (that is the loop condition), and
if nothing was handled one needs the *hypothesis* `clock ≤ endT` — for `step_for_duration d` it follows from `0 ≤ d`
(`LawfulTime.le_add`).  Without it the model (as `simcore`'s `set_time`) moves the clock *back* and both `TraceTimeInv` and
`LogTimeInv` fail: `SimLogTimesDemo.backwards_breaks`.
-/
namespace Anysystem

set_option linter.unusedSectionVars false
set_option linter.unusedVariables false

variable {σ T : Type} [TimeOps T]

namespace Sim

open TimeOrder LogTimes

namespace LogTimes

theorem Ext.to_right {t : T} {o : Option (SProc σ T)} {e' : SProc σ T} (h : Ext t o (some e')) :
    ∃ e evs, o = some e ∧ e'.log = e.log ++ evs ∧ ∀ x ∈ evs, x.time = t := by
  rcases h.cases with ⟨_, h2⟩ | ⟨e, e'', evs, h1, h2, h3, h4⟩
  · cases h2
  · cases h2
    exact ⟨e, evs, h1, h3, h4⟩

/-- one step: every process entry is extended by entries carrying the clock after the step -/
theorem step_ext (h : SHandler σ T) {s s' : Sim σ T} {b : Bool} (hok : s.step h = .ok (b, s')) (n p : Nat) :
    Ext s'.clock (s.proc? n p) (s'.proc? n p) := by
  have hn := nextEvent_nodes (s.events.length + 1) s
  rcases step_cases h hok with ⟨_, hpop⟩ | ⟨_, e, s1, hpop, hdel⟩
  · rw [hpop] at hn
    exact Ext.of_eq _ (proc?_of_nodes hn n p)
  · rw [hpop] at hn
    have hl := LStep.deliver h e hdel
    have := hl.procs n p
    rw [proc?_of_nodes hn n p] at this
    exact this.time_eq hl.clock.symm

/-- a step that found nothing leaves the nodes alone -/
theorem step_false_nodes (h : SHandler σ T) {s s' : Sim σ T} (hok : s.step h = .ok (false, s')) : s'.nodes = s.nodes := by
  have hn := nextEvent_nodes (s.events.length + 1) s
  rcases step_cases h hok with ⟨_, hpop⟩ | ⟨hb, _⟩
  · rw [hpop] at hn; exact hn
  · cases hb

/-- what `readNode` does to the state -/
theorem readNode_cases {s s' : Sim σ T} {n p : Nat} {o : Option (List Msg)} (h : s.readNode n p = .ok (o, s')) :
    s' = s ∨ s' = s.updProc n p fun e => { e with outbox := [] } := by
  unfold Sim.readNode at h
  split at h
  · cases h
  · split at h
    · cases h
    · split at h
      · cases h; exact .inl rfl
      · cases h; exact .inr rfl

theorem bind_ok {α β : Type} {x : R α} {f : α → R β} {b : β} (h : x >>= f = .ok b) : ∃ a, x = .ok a ∧ f a = .ok b := by
  cases x with
  | error e => cases h
  | ok a => exact ⟨a, rfl, h⟩

end LogTimes

/-! ## (2) the time stamps of the appended entries -/

/-- **Every entry a step appends to a process's event log carries the clock after the step.**  No process entry is created
    or removed by a step; the entry after the step has the log of the entry before, extended by entries whose time is
    `s'.clock` — by `step_clock_eq_pop` the time of the popped event.  Holds for every clock skew of the node. -/
theorem step_log_times (h : SHandler σ T) {s s' : Sim σ T} {b : Bool} (hok : s.step h = .ok (b, s')) (n p : Nat) :
    (s.proc? n p = none ∧ s'.proc? n p = none) ∨
    ∃ e e' evs, s.proc? n p = some e ∧ s'.proc? n p = some e' ∧ e'.log = e.log ++ evs ∧
      ∀ x ∈ evs, x.time = s'.clock :=
  (step_ext h hok n p).cases

/-- **Every entry `send_local_message` appends to a process's event log carries the current clock** (which the call does not
    move). -/
theorem sendLocal_log_times (h : SHandler σ T) {s s' : Sim σ T} (p : Nat) (m : Msg) (hok : s.sendLocal h p m = .ok s') :
    s'.clock = s.clock ∧ ∀ n q,
      (s.proc? n q = none ∧ s'.proc? n q = none) ∨
      ∃ e e' evs, s.proc? n q = some e ∧ s'.proc? n q = some e' ∧ e'.log = e.log ++ evs ∧
        ∀ x ∈ evs, x.time = s.clock :=
  ⟨(LStep.sendLocal h p m hok).clock, fun n q => ((LStep.sendLocal h p m hok).procs n q).cases⟩

/-! ## (1) the invariant `LogTimeInv` -/

section lawful
variable [LawfulTime T]

/-- the same with the popped event named: a step that pops `ev` (`popSeq h 1 s = [(ev.time, ev.id)]`) appends only entries
    with time `ev.time`, whichever process they belong to; a step that pops nothing changes no process entry -/
theorem step_log_times_pop (h : SHandler σ T) {s s' : Sim σ T} {b : Bool} (hok : s.step h = .ok (b, s')) :
    (b = true ∧ ∃ ev ∈ s.events, popSeq h 1 s = [(ev.time, ev.id)] ∧ s'.clock = ev.time ∧
      ∀ n p e', s'.proc? n p = some e' → ∃ e evs, s.proc? n p = some e ∧ e'.log = e.log ++ evs ∧
        ∀ x ∈ evs, x.time = ev.time) ∨
    (b = false ∧ popSeq h 1 s = [] ∧ ∀ n p, s'.proc? n p = s.proc? n p) := by
  rcases step_clock_eq_pop h hok with ⟨hb, ev, hev, hseq, hc⟩ | ⟨hb, hseq, _⟩
  · refine .inl ⟨hb, ev, hev, hseq, hc, ?_⟩
    intro n p e' he'
    have := step_ext h hok n p
    rw [he', hc] at this
    exact this.to_right
  · subst hb
    exact .inr ⟨rfl, hseq, fun n p => proc?_of_nodes (step_false_nodes h hok) n p⟩

theorem LogTimeInv.of_logs_empty (s : Sim σ T) (h : ∀ n p e, s.proc? n p = some e → e.log = []) : s.LogTimeInv := by
  intro n p e he
  unfold SProc.LogTimesOk
  rw [h n p e he]
  exact ⟨by simp, by simp⟩

/-- a simulator without nodes -/
theorem LogTimeInv.of_no_nodes (s : Sim σ T) (h : s.nodes = []) : s.LogTimeInv := by
  refine LogTimeInv.of_logs_empty s ?_
  intro n p e he
  simp [proc?, h, amGet?] at he

/-- the clock never goes back in a step -/
theorem step_clock_le (h : SHandler σ T) {s s' : Sim σ T} {b : Bool} (hw : s.TimeWF) (hok : s.step h = .ok (b, s')) :
    TimeOps.le s.clock s'.clock = true := by
  rcases step_cases h hok with ⟨_, hpop⟩ | ⟨_, e, s1, hpop, hdel⟩
  · rw [(pop_none (Nat.lt_succ_self _) hw hpop).2.1]; exact LawfulTime.le_refl _
  · obtain ⟨_, p2, p3, _⟩ := pop_some (Nat.lt_succ_self _) hw hpop
    rw [deliver_clock h e s1 s' hdel, p2]; exact p3

/-- **One step keeps `LogTimeInv`** (only the queue invariant is needed: the popped event is not in the past) -/
theorem LogTimeInv.step (h : SHandler σ T) {s s' : Sim σ T} (b : Bool) (hw : s.TimeWF) (hi : s.LogTimeInv)
    (hok : s.step h = .ok (b, s')) : s'.LogTimeInv := by
  refine hi.of_ext (step_clock_le h hw hok) ?_
  intro n p e' he'
  have := step_ext h hok n p
  rw [he'] at this
  exact .inr this.to_right

/-- **`steps` keeps `LogTimeInv`** -/
theorem LogTimeInv.steps (hzero : LawfulTime.isDraw (TimeOps.zero : T)) (h : SHandler σ T) (hh : HandlerDelaysOk h)
    (k : Nat) {s s' : Sim σ T} (b : Bool) (hw : s.TimeWF) (hi : s.LogTimeInv) (hok : s.steps h k = .ok (b, s')) :
    s'.LogTimeInv := by
  induction k generalizing s with
  | zero =>
    simp only [Sim.steps, Except.ok.injEq, Prod.mk.injEq] at hok
    obtain ⟨_, rfl⟩ := hok
    exact hi
  | succ k ih =>
    simp only [Sim.steps] at hok
    split at hok
    · cases hok
    · rename_i s1 hst
      cases hok
      exact hi.step h false hw hst
    · rename_i s1 hst
      exact ih (hw.step hzero h hh true hst) (hi.step h true hw hst) hok

/-! ### whole-run form: what a run appends to each event log -/

namespace LogTimes

/-- a run segment seen from one process entry: its event log is extended by entries whose times are sorted and lie between
    the clock at the start and the clock at the end (a process is neither created nor removed) -/
def ExtRun (c c' : T) (o o' : Option (SProc σ T)) : Prop :=
  match o, o' with
  | none, none => True
  | some e, some e' => ∃ evs, e'.log = e.log ++ evs ∧
      (evs.map (·.time)).Pairwise (fun a b => TimeOps.le a b = true) ∧
      ∀ x ∈ evs, TimeOps.le c x.time = true ∧ TimeOps.le x.time c' = true
  | _, _ => False

theorem ExtRun.refl (c c' : T) (o : Option (SProc σ T)) : ExtRun c c' o o := by
  cases o with
  | none => trivial
  | some e => exact ⟨[], by simp, by simp, by simp⟩

/-- one handler run, stamped with the clock at the end -/
theorem ExtRun.of_ext {c c' : T} {o o' : Option (SProc σ T)} (h : Ext c' o o') (hc : TimeOps.le c c' = true) :
    ExtRun c c' o o' := by
  rcases h.cases with ⟨rfl, rfl⟩ | ⟨e, e', evs, rfl, rfl, hl, hx⟩
  · trivial
  · refine ⟨evs, hl, ?_, ?_⟩
    · apply pairwise_of_forall_mem
      intro a ha b hb
      obtain ⟨x, hx1, rfl⟩ := List.mem_map.1 ha
      obtain ⟨y, hy1, rfl⟩ := List.mem_map.1 hb
      rw [hx x hx1, hx y hy1]; exact LawfulTime.le_refl _
    · intro x hxm
      rw [hx x hxm]
      exact ⟨hc, LawfulTime.le_refl _⟩

theorem ExtRun.trans {c c1 c2 : T} {o o1 o2 : Option (SProc σ T)} (h1 : ExtRun c c1 o o1) (h2 : ExtRun c1 c2 o1 o2)
    (hc1 : TimeOps.le c c1 = true) (hc2 : TimeOps.le c1 c2 = true) : ExtRun c c2 o o2 := by
  cases o with
  | none =>
    cases o1 with
    | none =>
      cases o2 with
      | none => trivial
      | some _ => exact absurd h2 (by simp [ExtRun])
    | some _ => exact absurd h1 (by simp [ExtRun])
  | some e =>
    cases o1 with
    | none => exact absurd h1 (by simp [ExtRun])
    | some e1 =>
      cases o2 with
      | none => exact absurd h2 (by simp [ExtRun])
      | some e2 =>
        obtain ⟨a, ha, hpa, hba⟩ := h1
        obtain ⟨b, hb, hpb, hbb⟩ := h2
        refine ⟨a ++ b, by rw [hb, ha, List.append_assoc], ?_, ?_⟩
        · rw [List.map_append, List.pairwise_append]
          refine ⟨hpa, hpb, ?_⟩
          intro u hu v hv
          obtain ⟨x, hx, rfl⟩ := List.mem_map.1 hu
          obtain ⟨y, hy, rfl⟩ := List.mem_map.1 hv
          exact LawfulTime.le_trans _ _ _ (hba x hx).2 (hbb y hy).1
        · intro x hx
          rcases List.mem_append.1 hx with hx | hx
          · exact ⟨(hba x hx).1, LawfulTime.le_trans _ _ _ (hba x hx).2 hc2⟩
          · exact ⟨LawfulTime.le_trans _ _ _ hc1 (hbb x hx).1, (hbb x hx).2⟩

/-- the upper bound may be raised -/
theorem ExtRun.mono_right {c c1 c2 : T} {o o' : Option (SProc σ T)} (h : ExtRun c c1 o o')
    (hc : TimeOps.le c1 c2 = true) : ExtRun c c2 o o' := by
  cases o with
  | none =>
    cases o' with
    | none => trivial
    | some _ => exact absurd h (by simp [ExtRun])
  | some e =>
    cases o' with
    | none => exact absurd h (by simp [ExtRun])
    | some e' =>
      obtain ⟨a, ha, hpa, hba⟩ := h
      exact ⟨a, ha, hpa, fun x hx => ⟨(hba x hx).1, LawfulTime.le_trans _ _ _ (hba x hx).2 hc⟩⟩

theorem ExtRun.cases {c c' : T} {o o' : Option (SProc σ T)} (h : ExtRun c c' o o') :
    (o = none ∧ o' = none) ∨
    ∃ e e' evs, o = some e ∧ o' = some e' ∧ e'.log = e.log ++ evs ∧
      (evs.map (·.time)).Pairwise (fun a b => TimeOps.le a b = true) ∧
      ∀ x ∈ evs, TimeOps.le c x.time = true ∧ TimeOps.le x.time c' = true := by
  cases o with
  | none =>
    cases o' with
    | none => exact .inl ⟨rfl, rfl⟩
    | some _ => exact absurd h (by simp [ExtRun])
  | some e =>
    cases o' with
    | none => exact absurd h (by simp [ExtRun])
    | some e' =>
      obtain ⟨evs, h1, h2, h3⟩ := h
      exact .inr ⟨e, e', evs, rfl, rfl, h1, h2, h3⟩

theorem steps_extrun (hzero : LawfulTime.isDraw (TimeOps.zero : T)) (h : SHandler σ T) (hh : HandlerDelaysOk h)
    (k : Nat) {s s' : Sim σ T} (b : Bool) (hw : s.TimeWF) (hok : s.steps h k = .ok (b, s')) (n p : Nat) :
    ExtRun s.clock s'.clock (s.proc? n p) (s'.proc? n p) := by
  induction k generalizing s with
  | zero =>
    simp only [Sim.steps, Except.ok.injEq, Prod.mk.injEq] at hok
    obtain ⟨_, rfl⟩ := hok
    exact ExtRun.refl _ _ _
  | succ k ih =>
    simp only [Sim.steps] at hok
    split at hok
    · cases hok
    · rename_i s1 hst
      cases hok
      exact ExtRun.of_ext (step_ext h hst n p) (step_clock_le h hw hst)
    · rename_i s1 hst
      have hw1 := hw.step hzero h hh true hst
      exact (ExtRun.of_ext (step_ext h hst n p) (step_clock_le h hw hst)).trans (ih hw1 hok)
        (step_clock_le h hw hst) (clock_monotone hzero h hh k b hw1 hok)

end LogTimes

/-- **What `steps` appends to each event log** (the per-process counterpart of `trace_times_sorted`): no process entry is
    created or removed; the event log of each grows by entries whose times are non-decreasing, not before the clock at the
    start (hence, under `LogTimeInv`, not before any earlier entry) and not after the clock at the end. -/
theorem log_times_sorted (hzero : LawfulTime.isDraw (TimeOps.zero : T)) (h : SHandler σ T) (hh : HandlerDelaysOk h)
    (k : Nat) {s s' : Sim σ T} (b : Bool) (hw : s.TimeWF) (hok : s.steps h k = .ok (b, s')) (n p : Nat) :
    (s.proc? n p = none ∧ s'.proc? n p = none) ∨
    ∃ e e' evs, s.proc? n p = some e ∧ s'.proc? n p = some e' ∧ e'.log = e.log ++ evs ∧
      (evs.map (·.time)).Pairwise (fun a b => TimeOps.le a b = true) ∧
      ∀ x ∈ evs, TimeOps.le s.clock x.time = true ∧ TimeOps.le x.time s'.clock = true :=
  (steps_extrun hzero h hh k b hw hok n p).cases

theorem LogTimeInv.sendLocal (h : SHandler σ T) {s s' : Sim σ T} (p : Nat) (m : Msg) (hi : s.LogTimeInv)
    (hok : s.sendLocal h p m = .ok s') : s'.LogTimeInv :=
  (LStep.sendLocal h p m hok).inv hi

theorem LogTimeInv.readNode {s s' : Sim σ T} {n p : Nat} {o : Option (List Msg)} (hi : s.LogTimeInv)
    (hok : s.readNode n p = .ok (o, s')) : s'.LogTimeInv := by
  rcases readNode_cases hok with rfl | rfl
  · exact hi
  · exact (LStep.updProc_same s.clock s n p (fun e => { e with outbox := [] }) (fun _ => rfl)).inv hi

theorem LogTimeInv.readLocal {s s' : Sim σ T} (p : Nat) (ms : List Msg) (hi : s.LogTimeInv)
    (hok : s.readLocal p = .ok (ms, s')) : s'.LogTimeInv := by
  unfold Sim.readLocal at hok
  split at hok
  · cases hok
  · split at hok
    · cases hok
    · rename_i n o s1 hrd
      cases hok
      exact hi.readNode hrd

theorem LogTimeInv.crashNode {s s' : Sim σ T} (n : Nat) (hi : s.LogTimeInv) (hok : s.crashNode n = .ok s') :
    s'.LogTimeInv := by
  obtain ⟨nd, rest, hn, rfl⟩ := crashNode_shape s s' n hok
  exact ((LStep.setNode_sameProcs s.clock s n hn (nd' := { nd with crashed := true }) rfl).trans
    (LStep.of_nodes _ rfl rfl)).inv hi

/-- `recover_node` forgets the processes of the node (and their event logs) and touches no other log -/
theorem LogTimeInv.recoverNode {s s' : Sim σ T} (n : Nat) (hi : s.LogTimeInv) (hok : s.recoverNode n = .ok s') :
    s'.LogTimeInv := by
  unfold Sim.recoverNode at hok
  split at hok
  · cases hok
  · rename_i nd hnd
    split at hok
    · cases hok
    · cases hok
      refine hi.of_sub (LawfulTime.le_refl _) ?_
      intro n' p' e' he'
      have he2 : (s.setNode n { nd with procs := [], crashed := false }).proc? n' p' = some e' := he'
      rw [proc?_setNode] at he2
      split at he2
      · simp [amGet?] at he2
      · exact ⟨e', he2, rfl⟩

/-- `add_node` adds a node without processes -/
theorem LogTimeInv.addNode {s s' : Sim σ T} (n : Nat) (hi : s.LogTimeInv) (hok : s.addNode n = .ok s') :
    s'.LogTimeInv := by
  unfold Sim.addNode at hok
  split at hok
  · cases hok
  · cases hok
    refine hi.of_sub (LawfulTime.le_refl _) ?_
    intro n' p' e' he'
    have he2 : (s.setNode n { skew := TimeOps.zero }).proc? n' p' = some e' := he'
    rw [proc?_setNode] at he2
    split at he2
    · simp [amGet?] at he2
    · exact ⟨e', he2, rfl⟩

/-- **a process added by `add_process` starts with an empty event log** (and no other entry changes: `LogTimeInv.addProcess`) -/
theorem addProcess_fresh_log_times {s s' : Sim σ T} (p n : Nat) (st : σ) (hok : s.addProcess p st n = .ok s') :
    ∃ e, s'.proc? n p = some e ∧ e.log = [] ∧ e.LogTimesOk s'.clock := by
  obtain ⟨nd, e, h1, h2, h3, _⟩ := addProcess_fresh s s' p n st hok
  refine ⟨e, by rw [proc?_eq h1]; exact h2, h3, ?_⟩
  unfold SProc.LogTimesOk
  rw [h3]
  exact ⟨by simp, by simp⟩

theorem LogTimeInv.addProcess {s s' : Sim σ T} (p n : Nat) (st : σ) (hi : s.LogTimeInv)
    (hok : s.addProcess p st n = .ok s') : s'.LogTimeInv := by
  unfold Sim.addProcess at hok
  split at hok
  · cases hok
  · rename_i nd hnd
    dsimp only at hok
    split at hok
    · cases hok
    · cases hok
      have hn := nodeOf_ok hnd
      refine hi.of_ext (LawfulTime.le_refl _) ?_
      intro n' p' e' he'
      have he2 : (s.setNode n { nd with procs := amInsert natLt p { st } nd.procs }).proc? n' p' = some e' := he'
      rw [proc?_setNode] at he2
      split at he2
      · subst_vars
        simp only [amGet?_amInsert] at he2
        split at he2
        · cases he2
          exact .inl rfl
        · rw [← proc?_eq hn] at he2
          exact .inr ⟨e', [], he2, by simp, by simp⟩
      · exact .inr ⟨e', [], he2, by simp, by simp⟩

/-- the skew of a node enters no event log: changing it keeps the invariant -/
theorem LogTimeInv.setSkew {s s' : Sim σ T} (n : Nat) (skew : T) (hi : s.LogTimeInv)
    (hok : s.setSkew n skew = .ok s') : s'.LogTimeInv := by
  unfold Sim.setSkew at hok
  split at hok
  · cases hok
  · rename_i nd hnd
    cases hok
    exact (LStep.setNode_sameProcs s.clock s n (nodeOf_ok hnd) (nd' := { nd with skew }) rfl).inv hi

/-- the network settings touch neither the nodes nor the clock -/
theorem LogTimeInv.netLog1 {s : Sim σ T} (hi : s.LogTimeInv) (f : SimNet T → SimNet T) (x : SLog T) :
    ((s.netSet f).log x).LogTimeInv :=
  hi.of_nodes rfl (LawfulTime.le_refl _)

theorem LogTimeInv.netSet {s : Sim σ T} (hi : s.LogTimeInv) (f : SimNet T → SimNet T) : (s.netSet f).LogTimeInv :=
  hi.of_nodes rfl (LawfulTime.le_refl _)

theorem LogTimeInv.dropIncoming {s : Sim σ T} (n : Nat) (hi : s.LogTimeInv) : (s.dropIncoming n).LogTimeInv :=
  hi.netLog1 _ _
theorem LogTimeInv.passIncoming {s : Sim σ T} (n : Nat) (hi : s.LogTimeInv) : (s.passIncoming n).LogTimeInv :=
  hi.netLog1 _ _
theorem LogTimeInv.dropOutgoing {s : Sim σ T} (n : Nat) (hi : s.LogTimeInv) : (s.dropOutgoing n).LogTimeInv :=
  hi.netLog1 _ _
theorem LogTimeInv.passOutgoing {s : Sim σ T} (n : Nat) (hi : s.LogTimeInv) : (s.passOutgoing n).LogTimeInv :=
  hi.netLog1 _ _
theorem LogTimeInv.disconnectNode {s : Sim σ T} (n : Nat) (hi : s.LogTimeInv) : (s.disconnectNode n).LogTimeInv :=
  hi.netLog1 _ _
theorem LogTimeInv.connectNode {s : Sim σ T} (n : Nat) (hi : s.LogTimeInv) : (s.connectNode n).LogTimeInv :=
  hi.netLog1 _ _
theorem LogTimeInv.disableLink {s : Sim σ T} (a b : Nat) (hi : s.LogTimeInv) : (s.disableLink a b).LogTimeInv :=
  hi.netLog1 _ _
theorem LogTimeInv.enableLink {s : Sim σ T} (a b : Nat) (hi : s.LogTimeInv) : (s.enableLink a b).LogTimeInv :=
  hi.netLog1 _ _
theorem LogTimeInv.makePartition {s : Sim σ T} (g1 g2 : List Nat) (hi : s.LogTimeInv) :
    (s.makePartition g1 g2).LogTimeInv := hi.netLog1 _ _
theorem LogTimeInv.netReset {s : Sim σ T} (hi : s.LogTimeInv) : s.netReset.LogTimeInv :=
  hi.netLog1 _ _

/-! ### `TimeWF` under `readNode` and the network settings (not covered by `SimTimeOrder.lean`) -/

theorem TimeWF.readNode {s s' : Sim σ T} {n p : Nat} {o : Option (List Msg)} (hw : s.TimeWF)
    (hok : s.readNode n p = .ok (o, s')) : s'.TimeWF := by
  rcases readNode_cases hok with rfl | rfl
  · exact hw
  · exact hw.of_fields (by simp) (by simp) (by simp) (by simp) (by simp) (by simp)

theorem TraceTimeInv.readNode {s s' : Sim σ T} {n p : Nat} {o : Option (List Msg)} (hi : s.TraceTimeInv)
    (hok : s.readNode n p = .ok (o, s')) : s'.TraceTimeInv := by
  rcases readNode_cases hok with rfl | rfl
  · exact hi
  · exact hi.of_log (by simp) [] (by simp) (by simp)

theorem TimeWF.readLocal {s s' : Sim σ T} (p : Nat) (ms : List Msg) (hw : s.TimeWF)
    (hok : s.readLocal p = .ok (ms, s')) : s'.TimeWF := by
  unfold Sim.readLocal at hok
  split at hok
  · cases hok
  · split at hok
    · cases hok
    · rename_i n o s1 hrd
      cases hok
      exact hw.readNode hrd

/-- a network setting that leaves the delay bounds alone (all of them except `set_delays`) and logs one entry -/
theorem TimeWF.netLog1 {s : Sim σ T} (hw : s.TimeWF) (f : SimNet T → SimNet T) (x : SLog T)
    (hmin : (f s.net).minDelay = s.net.minDelay) (hmax : (f s.net).maxDelay = s.net.maxDelay) :
    ((s.netSet f).log x).TimeWF :=
  hw.of_fields rfl rfl rfl hmin hmax rfl

theorem TimeWF.dropIncoming {s : Sim σ T} (n : Nat) (hw : s.TimeWF) : (s.dropIncoming n).TimeWF := hw.netLog1 _ _ rfl rfl
theorem TimeWF.passIncoming {s : Sim σ T} (n : Nat) (hw : s.TimeWF) : (s.passIncoming n).TimeWF := hw.netLog1 _ _ rfl rfl
theorem TimeWF.dropOutgoing {s : Sim σ T} (n : Nat) (hw : s.TimeWF) : (s.dropOutgoing n).TimeWF := hw.netLog1 _ _ rfl rfl
theorem TimeWF.passOutgoing {s : Sim σ T} (n : Nat) (hw : s.TimeWF) : (s.passOutgoing n).TimeWF := hw.netLog1 _ _ rfl rfl
theorem TimeWF.disconnectNode {s : Sim σ T} (n : Nat) (hw : s.TimeWF) : (s.disconnectNode n).TimeWF := hw.netLog1 _ _ rfl rfl
theorem TimeWF.connectNode {s : Sim σ T} (n : Nat) (hw : s.TimeWF) : (s.connectNode n).TimeWF := hw.netLog1 _ _ rfl rfl
theorem TimeWF.disableLink {s : Sim σ T} (a b : Nat) (hw : s.TimeWF) : (s.disableLink a b).TimeWF := hw.netLog1 _ _ rfl rfl
theorem TimeWF.enableLink {s : Sim σ T} (a b : Nat) (hw : s.TimeWF) : (s.enableLink a b).TimeWF := hw.netLog1 _ _ rfl rfl
theorem TimeWF.makePartition {s : Sim σ T} (g1 g2 : List Nat) (hw : s.TimeWF) : (s.makePartition g1 g2).TimeWF :=
  hw.netLog1 _ _ rfl rfl
theorem TimeWF.netReset {s : Sim σ T} (hw : s.TimeWF) : s.netReset.TimeWF := hw.netLog1 _ _ rfl rfl

/-! ## the three invariants together -/

/-- queue/time well-formedness, sorted and clock-bounded global trace, sorted and clock-bounded event logs -/
structure TimeInvs (s : Sim σ T) : Prop where
  wf : s.TimeWF
  trace : s.TraceTimeInv
  logs : s.LogTimeInv

/-- a fresh simulator: nothing queued, nothing logged, no nodes -/
theorem TimeInvs.of_empty (s : Sim σ T) (hev : s.events = []) (htr : s.trace = []) (hn : s.nodes = [])
    (hdel : TimeOps.le TimeOps.zero s.net.minDelay = true ∧ TimeOps.le s.net.minDelay s.net.maxDelay = true)
    (hdr : ∀ d ∈ s.draws, LawfulTime.isDraw d) : s.TimeInvs :=
  ⟨TimeWF.of_empty s hev hdel hdr, TraceTimeInv.of_empty s htr, LogTimeInv.of_no_nodes s hn⟩

section run
variable (hzero : LawfulTime.isDraw (TimeOps.zero : T)) (h : SHandler σ T) (hh : HandlerDelaysOk h)
include hzero hh

theorem TimeInvs.step {s s' : Sim σ T} (b : Bool) (hi : s.TimeInvs) (hok : s.step h = .ok (b, s')) : s'.TimeInvs :=
  ⟨hi.wf.step hzero h hh b hok, hi.trace.step hzero h hh b hi.wf hok, hi.logs.step h b hi.wf hok⟩

theorem TimeInvs.steps (k : Nat) {s s' : Sim σ T} (b : Bool) (hi : s.TimeInvs) (hok : s.steps h k = .ok (b, s')) :
    s'.TimeInvs :=
  ⟨hi.wf.steps hzero h hh k b hok, hi.trace.steps hzero h hh k b hi.wf hok, hi.logs.steps hzero h hh k b hi.wf hok⟩

theorem TimeInvs.sendLocal {s s' : Sim σ T} (p : Nat) (m : Msg) (hi : s.TimeInvs) (hok : s.sendLocal h p m = .ok s') :
    s'.TimeInvs :=
  ⟨hi.wf.sendLocal hzero h hh p m hok, hi.trace.sendLocal hzero h hh p m hok, hi.logs.sendLocal h p m hok⟩

end run

theorem TimeInvs.readNode {s s' : Sim σ T} {n p : Nat} {o : Option (List Msg)} (hi : s.TimeInvs)
    (hok : s.readNode n p = .ok (o, s')) : s'.TimeInvs :=
  ⟨hi.wf.readNode hok, hi.trace.readNode hok, hi.logs.readNode hok⟩

theorem TimeInvs.readLocal {s s' : Sim σ T} (p : Nat) (ms : List Msg) (hi : s.TimeInvs)
    (hok : s.readLocal p = .ok (ms, s')) : s'.TimeInvs :=
  ⟨hi.wf.readLocal p ms hok, hi.trace.readLocal p ms hok, hi.logs.readLocal p ms hok⟩

theorem TimeInvs.crashNode {s s' : Sim σ T} (n : Nat) (hi : s.TimeInvs) (hok : s.crashNode n = .ok s') : s'.TimeInvs :=
  ⟨hi.wf.crashNode n hok, hi.trace.crashNode n hok, hi.logs.crashNode n hok⟩

theorem TimeInvs.recoverNode {s s' : Sim σ T} (n : Nat) (hi : s.TimeInvs) (hok : s.recoverNode n = .ok s') :
    s'.TimeInvs :=
  ⟨hi.wf.recoverNode n hok, hi.trace.recoverNode n hok, hi.logs.recoverNode n hok⟩

theorem TimeInvs.addNode {s s' : Sim σ T} (n : Nat) (hi : s.TimeInvs) (hok : s.addNode n = .ok s') : s'.TimeInvs :=
  ⟨hi.wf.addNode n hok, hi.trace.addNode n hok, hi.logs.addNode n hok⟩

theorem TimeInvs.addProcess {s s' : Sim σ T} (p n : Nat) (st : σ) (hi : s.TimeInvs)
    (hok : s.addProcess p st n = .ok s') : s'.TimeInvs :=
  ⟨hi.wf.addProcess p n st hok, hi.trace.addProcess p n st hok, hi.logs.addProcess p n st hok⟩

theorem TimeInvs.setSkew {s s' : Sim σ T} (n : Nat) (skew : T) (hi : s.TimeInvs) (hok : s.setSkew n skew = .ok s') :
    s'.TimeInvs :=
  ⟨hi.wf.setSkew n skew hok, hi.trace.setSkew n skew hok, hi.logs.setSkew n skew hok⟩

theorem TimeInvs.dropIncoming {s : Sim σ T} (n : Nat) (hi : s.TimeInvs) : (s.dropIncoming n).TimeInvs :=
  ⟨hi.wf.dropIncoming n, hi.trace.dropIncoming n, hi.logs.dropIncoming n⟩
theorem TimeInvs.passIncoming {s : Sim σ T} (n : Nat) (hi : s.TimeInvs) : (s.passIncoming n).TimeInvs :=
  ⟨hi.wf.passIncoming n, hi.trace.passIncoming n, hi.logs.passIncoming n⟩
theorem TimeInvs.dropOutgoing {s : Sim σ T} (n : Nat) (hi : s.TimeInvs) : (s.dropOutgoing n).TimeInvs :=
  ⟨hi.wf.dropOutgoing n, hi.trace.dropOutgoing n, hi.logs.dropOutgoing n⟩
theorem TimeInvs.passOutgoing {s : Sim σ T} (n : Nat) (hi : s.TimeInvs) : (s.passOutgoing n).TimeInvs :=
  ⟨hi.wf.passOutgoing n, hi.trace.passOutgoing n, hi.logs.passOutgoing n⟩
theorem TimeInvs.disconnectNode {s : Sim σ T} (n : Nat) (hi : s.TimeInvs) : (s.disconnectNode n).TimeInvs :=
  ⟨hi.wf.disconnectNode n, hi.trace.disconnectNode n, hi.logs.disconnectNode n⟩
theorem TimeInvs.connectNode {s : Sim σ T} (n : Nat) (hi : s.TimeInvs) : (s.connectNode n).TimeInvs :=
  ⟨hi.wf.connectNode n, hi.trace.connectNode n, hi.logs.connectNode n⟩
theorem TimeInvs.disableLink {s : Sim σ T} (a b : Nat) (hi : s.TimeInvs) : (s.disableLink a b).TimeInvs :=
  ⟨hi.wf.disableLink a b, hi.trace.disableLink a b, hi.logs.disableLink a b⟩
theorem TimeInvs.enableLink {s : Sim σ T} (a b : Nat) (hi : s.TimeInvs) : (s.enableLink a b).TimeInvs :=
  ⟨hi.wf.enableLink a b, hi.trace.enableLink a b, hi.logs.enableLink a b⟩
theorem TimeInvs.makePartition {s : Sim σ T} (g1 g2 : List Nat) (hi : s.TimeInvs) : (s.makePartition g1 g2).TimeInvs :=
  ⟨hi.wf.makePartition g1 g2, hi.trace.makePartition g1 g2, hi.logs.makePartition g1 g2⟩
theorem TimeInvs.netReset {s : Sim σ T} (hi : s.TimeInvs) : s.netReset.TimeInvs :=
  ⟨hi.wf.netReset, hi.trace.netReset, hi.logs.netReset⟩

/-! ## (3) the stepping functions -/

namespace LogTimes

/-- `step_until_no_events` is an iteration of `step`: it keeps whatever `step` keeps -/
theorem stepUntilNoEvents_keeps (h : SHandler σ T) (P : Sim σ T → Prop)
    (hstep : ∀ (s s' : Sim σ T) (b : Bool), P s → s.step h = .ok (b, s') → P s')
    (fuel : Nat) {s s' : Sim σ T} (hi : P s) (hrun : stepUntilNoEvents h fuel s = some (.ok s')) : P s' := by
  induction fuel generalizing s with
  | zero => simp [Sim.stepUntilNoEvents] at hrun
  | succ f ih =>
    simp only [Sim.stepUntilNoEvents] at hrun
    split at hrun
    · cases hrun
    · rename_i s1 hstep'
      cases hrun
      exact hstep _ _ false hi hstep'
    · rename_i s1 hstep'
      exact ih (hstep _ _ true hi hstep') hrun

/-- `step_until_local_message` alternates `readNode` and `step`: it keeps whatever both keep -/
theorem stepUntilLocal_keeps (h : SHandler σ T) (P : Sim σ T → Prop)
    (hstep : ∀ (s s' : Sim σ T) (b : Bool), P s → s.step h = .ok (b, s') → P s')
    (hread : ∀ (s s' : Sim σ T) (n p : Nat) (o : Option (List Msg)), P s → s.readNode n p = .ok (o, s') → P s')
    (n p fuel : Nat) {s s' : Sim σ T} {o : Option (List Msg)} (hi : P s)
    (hrun : stepUntilLocal h n p fuel s = some (.ok (o, s'))) : P s' := by
  induction fuel generalizing s with
  | zero => simp [Sim.stepUntilLocal] at hrun
  | succ f ih =>
    simp only [Sim.stepUntilLocal] at hrun
    split at hrun
    · cases hrun
    · rename_i ms s2 hr
      cases hrun
      exact hread _ _ n p _ hi hr
    · rename_i s2 hr
      have hi2 := hread _ _ n p _ hi hr
      split at hrun
      · cases hrun
      · rename_i s3 hstep'
        cases hrun
        exact hstep _ _ false hi2 hstep'
      · rename_i s3 hstep'
        exact ih (hstep _ _ true hi2 hstep') hrun

theorem stepUntilLocalMax_go_keeps (h : SHandler σ T) (P : Sim σ T → Prop)
    (hstep : ∀ (s s' : Sim σ T) (b : Bool), P s → s.step h = .ok (b, s') → P s')
    (hread : ∀ (s s' : Sim σ T) (n p : Nat) (o : Option (List Msg)), P s → s.readNode n p = .ok (o, s') → P s')
    (n p m : Nat) {s s' : Sim σ T} {o : Option (List Msg)} (hi : P s)
    (hrun : stepUntilLocalMax.go h n p m s = .ok (o, s')) : P s' := by
  induction m generalizing s with
  | zero =>
    simp only [stepUntilLocalMax.go, Except.ok.injEq, Prod.mk.injEq] at hrun
    obtain ⟨_, rfl⟩ := hrun
    exact hi
  | succ m ih =>
    simp only [stepUntilLocalMax.go] at hrun
    split at hrun
    · cases hrun
    · rename_i s2 hstep'
      cases hrun
      exact hstep _ _ false hi hstep'
    · rename_i s2 hstep'
      have hi2 := hstep _ _ true hi hstep'
      split at hrun
      · cases hrun
      · rename_i ms s3 hr
        cases hrun
        exact hread _ _ n p _ hi2 hr
      · rename_i s3 hr
        exact ih (hread _ _ n p _ hi2 hr) hrun

/-- `step_until_local_message_max_steps` -/
theorem stepUntilLocalMax_keeps (h : SHandler σ T) (P : Sim σ T → Prop)
    (hstep : ∀ (s s' : Sim σ T) (b : Bool), P s → s.step h = .ok (b, s') → P s')
    (hread : ∀ (s s' : Sim σ T) (n p : Nat) (o : Option (List Msg)), P s → s.readNode n p = .ok (o, s') → P s')
    (n p maxSteps : Nat) {s s' : Sim σ T} {o : Option (List Msg)} (hi : P s)
    (hrun : stepUntilLocalMax h n p maxSteps s = .ok (o, s')) : P s' := by
  unfold Sim.stepUntilLocalMax at hrun
  split at hrun
  · cases hrun
  · rename_i ms s2 hr
    cases hrun
    exact hread _ _ n p _ hi hr
  · rename_i s2 hr
    exact stepUntilLocalMax_go_keeps h P hstep hread n p maxSteps (hread _ _ n p _ hi hr) hrun

end LogTimes

section run2
variable (hzero : LawfulTime.isDraw (TimeOps.zero : T)) (h : SHandler σ T) (hh : HandlerDelaysOk h)
include hzero hh

/-- **`step_until_no_events` keeps `TimeWF`, `TraceTimeInv`, `LogTimeInv`** -/
theorem TimeInvs.stepUntilNoEvents (fuel : Nat) {s s' : Sim σ T} (hi : s.TimeInvs)
    (hrun : stepUntilNoEvents h fuel s = some (.ok s')) : s'.TimeInvs :=
  stepUntilNoEvents_keeps h TimeInvs (fun _ _ b hi hok => hi.step hzero h hh b hok) fuel hi hrun

/-- **`step_until_local_message` keeps `TimeWF`, `TraceTimeInv`, `LogTimeInv`** -/
theorem TimeInvs.stepUntilLocal (n p fuel : Nat) {s s' : Sim σ T} {o : Option (List Msg)} (hi : s.TimeInvs)
    (hrun : stepUntilLocal h n p fuel s = some (.ok (o, s'))) : s'.TimeInvs :=
  stepUntilLocal_keeps h TimeInvs (fun _ _ b hi hok => hi.step hzero h hh b hok)
    (fun _ _ _ _ _ hi hok => hi.readNode hok) n p fuel hi hrun

/-- **`step_until_local_message_max_steps` keeps `TimeWF`, `TraceTimeInv`, `LogTimeInv`** -/
theorem TimeInvs.stepUntilLocalMax (n p maxSteps : Nat) {s s' : Sim σ T} {o : Option (List Msg)} (hi : s.TimeInvs)
    (hrun : stepUntilLocalMax h n p maxSteps s = .ok (o, s')) : s'.TimeInvs :=
  stepUntilLocalMax_keeps h TimeInvs (fun _ _ b hi hok => hi.step hzero h hh b hok)
    (fun _ _ _ _ _ hi hok => hi.readNode hok) n p maxSteps hi hrun

/-- `TimeWF` alone -/
theorem TimeWF.stepUntilNoEvents (fuel : Nat) {s s' : Sim σ T} (hw : s.TimeWF)
    (hrun : stepUntilNoEvents h fuel s = some (.ok s')) : s'.TimeWF :=
  stepUntilNoEvents_keeps h TimeWF (fun _ _ b hw hok => hw.step hzero h hh b hok) fuel hw hrun

theorem TimeWF.stepUntilLocal (n p fuel : Nat) {s s' : Sim σ T} {o : Option (List Msg)} (hw : s.TimeWF)
    (hrun : stepUntilLocal h n p fuel s = some (.ok (o, s'))) : s'.TimeWF :=
  stepUntilLocal_keeps h TimeWF (fun _ _ b hw hok => hw.step hzero h hh b hok)
    (fun _ _ _ _ _ hw hok => hw.readNode hok) n p fuel hw hrun

theorem TimeWF.stepUntilLocalMax (n p maxSteps : Nat) {s s' : Sim σ T} {o : Option (List Msg)} (hw : s.TimeWF)
    (hrun : stepUntilLocalMax h n p maxSteps s = .ok (o, s')) : s'.TimeWF :=
  stepUntilLocalMax_keeps h TimeWF (fun _ _ b hw hok => hw.step hzero h hh b hok)
    (fun _ _ _ _ _ hw hok => hw.readNode hok) n p maxSteps hw hrun

end run2

/-! ### `step_until_time` / `step_for_duration` -/

/-- the structure of a run of `step_until_time`: `k` steps that each handle an event due no later than `endT`, then a
    `peek_event` on the state reached (which only drops cancelled events from the head of the queue) that finds nothing or an
    event due later than `endT`, then the clock is set to `endT` -/
theorem stepUntilTime_decomp (h : SHandler σ T) (endT : T) (fuel : Nat) (s s' : Sim σ T) (b : Bool)
    (hrun : stepUntilTime h endT fuel s = some (.ok (b, s'))) :
    ∃ k s₁ sp o, k < fuel ∧ s.steps h k = .ok (true, s₁) ∧
      (∀ j sj, 0 < j → j ≤ k → s.steps h j = .ok (true, sj) → TimeOps.le sj.clock endT = true) ∧
      peekEvent (s₁.events.length + 1) s₁ = (o, sp) ∧ s' = { sp with clock := endT } ∧ b = o.isSome ∧
      ∀ e, o = some e → TimeOps.lt endT e.time = true := by
  induction fuel generalizing s with
  | zero => simp [Sim.stepUntilTime] at hrun
  | succ f ih =>
    simp only [Sim.stepUntilTime] at hrun
    split at hrun
    · rename_i sp hp
      simp only [Option.some.injEq, Except.ok.injEq, Prod.mk.injEq] at hrun
      obtain ⟨rfl, rfl⟩ := hrun
      exact ⟨0, s, sp, none, Nat.succ_pos _, rfl, fun j sj hj hj' => absurd hj (Nat.not_lt_of_le hj'), hp, rfl, rfl,
        fun e he => by cases he⟩
    · rename_i e sp hp
      split at hrun
      · rename_i hlt
        simp only [Option.some.injEq, Except.ok.injEq, Prod.mk.injEq] at hrun
        obtain ⟨rfl, rfl⟩ := hrun
        exact ⟨0, s, sp, some e, Nat.succ_pos _, rfl, fun j sj hj hj' => absurd hj (Nat.not_lt_of_le hj'), hp, rfl, rfl,
          fun e' he => by cases he; exact hlt⟩
      · rename_i hlt
        split at hrun
        · cases hrun
        · rename_i b' s2 hstep
          obtain ⟨_, hstep', hclk⟩ := step_after_peek h s sp s2 e b' hp hstep
          obtain ⟨k, s₁, sp', o, hk, hsteps, hall, hrest⟩ := ih _ hrun
          refine ⟨k + 1, s₁, sp', o, Nat.succ_lt_succ hk, ?_, ?_, hrest⟩
          · simp only [steps_succ, hstep']; exact hsteps
          · intro j sj hj hj' hsj
            cases j with
            | zero => exact absurd hj (Nat.lt_irrefl _)
            | succ j =>
              simp only [steps_succ, hstep'] at hsj
              cases j with
              | zero =>
                cases hsj
                rw [hclk]
                exact time_le_of_not_lt _ _ hlt
              | succ j => exact hall (j + 1) sj (Nat.succ_pos _) (Nat.le_of_succ_le_succ hj') hsj

/-- every key of `popSeq h k s` is the clock value after some prefix of the run -/
theorem popSeq_mem_clock (h : SHandler σ T) (k : Nat) {s s' : Sim σ T} (hok : s.steps h k = .ok (true, s'))
    {y : T × Nat} (hy : y ∈ popSeq h k s) :
    ∃ j sj, 0 < j ∧ j ≤ k ∧ s.steps h j = .ok (true, sj) ∧ sj.clock = y.1 := by
  induction k generalizing s with
  | zero => simp [popSeq] at hy
  | succ k ih =>
    have hok' := hok
    simp only [Sim.steps] at hok
    split at hok
    · cases hok
    · cases hok
    · rename_i s1 hst
      rcases step_cases h hst with ⟨hb, _⟩ | ⟨_, e, s0, hpop, hdel⟩
      · cases hb
      · rw [popSeq_succ_ok h k hpop hdel, List.mem_cons] at hy
        rcases hy with rfl | hy
        · refine ⟨1, s1, Nat.succ_pos _, Nat.succ_le_succ (Nat.zero_le _), ?_, ?_⟩
          · simp only [steps_succ, hst, steps_zero]
          · rw [deliver_clock h e s0 s1 hdel, (pop_some_clock hpop)]
        · obtain ⟨j, sj, hj, hjk, hsj, hc⟩ := ih hok hy
          refine ⟨j + 1, sj, Nat.succ_pos _, Nat.succ_le_succ hjk, ?_, hc⟩
          simp only [steps_succ, hst]; exact hsj
where
  pop_some_clock {s s0 : Sim σ T} {e : QEv T} (hpop : nextEvent (s.events.length + 1) s = (some e, s0)) :
      s0.clock = e.time := (nextEvent_some_core _ s s0 e hpop).2.2.2.1

/-- the pops of a run of `k + m` steps are those of the first `k` steps followed by those of the next `m` -/
theorem popSeq_add (h : SHandler σ T) (k m : Nat) {s s' : Sim σ T} (hok : s.steps h k = .ok (true, s')) :
    popSeq h (k + m) s = popSeq h k s ++ popSeq h m s' := by
  induction k generalizing s with
  | zero =>
    simp only [Sim.steps, Except.ok.injEq, Prod.mk.injEq, true_and] at hok
    subst hok
    simp [popSeq]
  | succ k ih =>
    simp only [Sim.steps] at hok
    split at hok
    · cases hok
    · cases hok
    · rename_i s1 hst
      rcases step_cases h hst with ⟨hb, _⟩ | ⟨_, e, s0, hpop, hdel⟩
      · cases hb
      · rw [Nat.add_right_comm, popSeq_succ_ok h (k + m) hpop hdel, popSeq_succ_ok h k hpop hdel, ih hok]
        rfl

theorem popSeq_one_some (h : SHandler σ T) {s s1 : Sim σ T} {e : QEv T}
    (hpop : nextEvent (s.events.length + 1) s = (some e, s1)) : popSeq h 1 s = [(e.time, e.id)] := by
  cases hdel : deliver h e s1 with
  | error err => exact popSeq_succ_error h 0 hpop hdel
  | ok s2 => rw [popSeq_succ_ok h 0 hpop hdel]; rfl

/-- what the final `peek_event` of `step_until_time` says about the next pop -/
theorem popSeq_one_of_peek (h : SHandler σ T) {s sp : Sim σ T} {o : Option (QEv T)}
    (hp : peekEvent (s.events.length + 1) s = (o, sp)) :
    popSeq h 1 s = match o with | none => [] | some e => [(e.time, e.id)] := by
  cases o with
  | none =>
    have h1 := lt_peek_none_next _ s sp hp
    cases hq : nextEvent (s.events.length + 1) s with
    | mk o' s1 =>
      rw [hq] at h1
      simp only at h1
      subst h1
      exact popSeq_succ_none h 0 hq
  | some e =>
    obtain ⟨_, _, hn⟩ := peekEvent_some _ s sp e hp
    exact popSeq_one_some h hn

/-- **`step_until_time` in the `popSeq` framework.**  It made `k` steps (`< fuel`) that popped exactly the `k` keys
    `popSeq h k s`, every one with time `≤ endT`; it stopped as soon as the next pop — `popSeq h 1 s₁`, the continuation of the
    pop sequence: `popSeq h (k + 1) s = popSeq h k s ++ popSeq h 1 s₁` — would be strictly later than `endT` or there is none;
    the flag tells which; the clock is left at `endT` and the state is otherwise that after the `k` steps (`SameButClock`),
    in particular every live event is due strictly later than `endT`. -/
theorem stepUntilTime_pops (h : SHandler σ T) (endT : T) (fuel : Nat) (s s' : Sim σ T) (b : Bool)
    (hrun : stepUntilTime h endT fuel s = some (.ok (b, s'))) :
    ∃ k s₁, k < fuel ∧ s.steps h k = .ok (true, s₁) ∧ (popSeq h k s).length = k ∧
      (∀ y ∈ popSeq h k s, TimeOps.le y.1 endT = true) ∧
      (∀ y ∈ popSeq h 1 s₁, TimeOps.lt endT y.1 = true) ∧
      (b = true ↔ popSeq h 1 s₁ ≠ []) ∧
      popSeq h (k + 1) s = popSeq h k s ++ popSeq h 1 s₁ ∧
      s'.clock = endT ∧ SameButClock s₁ s' ∧ (∀ e ∈ s'.live, TimeOps.lt endT e.time = true) := by
  obtain ⟨k, s₁, sp, o, hk, hsteps, hall, hp, rfl, hb, hlt⟩ := stepUntilTime_decomp h endT fuel s s' b hrun
  obtain ⟨_, _, _, _, _, _, _, hlive, _⟩ := stepUntilTime_spec h endT fuel s _ b hrun
  have h1 := popSeq_one_of_peek h hp
  refine ⟨k, s₁, hk, hsteps, popSeq_length_of_steps h k hsteps, ?_, ?_, ?_, popSeq_add h k 1 hsteps, rfl,
    sameButClock_peek endT _ s₁ sp o hp, hlive⟩
  · intro y hy
    obtain ⟨j, sj, hj, hjk, hsj, hc⟩ := popSeq_mem_clock h k hsteps hy
    rw [← hc]
    exact hall j sj hj hjk hsj
  · intro y hy
    rw [h1] at hy
    cases o with
    | none => cases hy
    | some e =>
      simp only [List.mem_singleton] at hy
      rw [hy]
      exact hlt e rfl
  · rw [h1, hb]
    cases o <;> simp

/-- `step_for_duration d` = `step_until_time (clock + d)` -/
theorem stepForDuration_pops (h : SHandler σ T) (d : T) (fuel : Nat) (s s' : Sim σ T) (b : Bool)
    (hrun : stepForDuration h d fuel s = some (.ok (b, s'))) :
    ∃ k s₁, k < fuel ∧ s.steps h k = .ok (true, s₁) ∧ (popSeq h k s).length = k ∧
      (∀ y ∈ popSeq h k s, TimeOps.le y.1 (TimeOps.add s.clock d) = true) ∧
      (∀ y ∈ popSeq h 1 s₁, TimeOps.lt (TimeOps.add s.clock d) y.1 = true) ∧
      (b = true ↔ popSeq h 1 s₁ ≠ []) ∧
      popSeq h (k + 1) s = popSeq h k s ++ popSeq h 1 s₁ ∧
      s'.clock = TimeOps.add s.clock d ∧ SameButClock s₁ s' ∧
      (∀ e ∈ s'.live, TimeOps.lt (TimeOps.add s.clock d) e.time = true) :=
  stepUntilTime_pops h _ fuel s s' b hrun

/-- where `clock ≤ endT` before the jump comes from: the state after the last step has the clock of the last handled event,
    which was due no later than `endT`; if no step was made it is the hypothesis on the initial clock -/
theorem stepUntilTime_last_clock_le (h : SHandler σ T) (endT : T) {s s₁ : Sim σ T} {k : Nat}
    (hle : TimeOps.le s.clock endT = true) (hsteps : s.steps h k = .ok (true, s₁))
    (hall : ∀ j sj, 0 < j → j ≤ k → s.steps h j = .ok (true, sj) → TimeOps.le sj.clock endT = true) :
    TimeOps.le s₁.clock endT = true := by
  cases k with
  | zero =>
    simp only [Sim.steps, Except.ok.injEq, Prod.mk.injEq, true_and] at hsteps
    subst hsteps
    exact hle
  | succ k => exact hall (k + 1) s₁ (Nat.succ_pos _) (Nat.le_refl _) hsteps

/-- **`step_until_time` keeps `TimeWF`, `TraceTimeInv` and `LogTimeInv`** and does not move the clock back, provided the
    bound is not before the clock.  `TimeWF`: after the final `peek_event` everything still queued (cancelled or not) is
    due later than `endT`.  `TraceTimeInv`, `LogTimeInv`: the jump moves the clock forward
    (`stepUntilTime_last_clock_le`). -/
theorem TimeInvs.stepUntilTime (hzero : LawfulTime.isDraw (TimeOps.zero : T)) (h : SHandler σ T) (hh : HandlerDelaysOk h)
    (endT : T) (fuel : Nat) {s s' : Sim σ T} {b : Bool} (hle : TimeOps.le s.clock endT = true) (hi : s.TimeInvs)
    (hrun : stepUntilTime h endT fuel s = some (.ok (b, s'))) :
    s'.TimeInvs ∧ TimeOps.le s.clock s'.clock = true := by
  obtain ⟨k, s₁, sp, o, hk, hsteps, hall, hp, rfl, hb, hlt⟩ := stepUntilTime_decomp h endT fuel s s' b hrun
  have hi1 := hi.steps hzero h hh k true hsteps
  have hc1 := stepUntilTime_last_clock_le h endT hle hsteps hall
  obtain ⟨f1, f2, _, _, _, f6, _⟩ := peekEvent_frame _ s₁ sp o hp
  refine ⟨⟨?_, ?_, ?_⟩, hle⟩
  · refine lt_jump_wf endT (lt_peek_wf hi1.wf hp) ?_
    cases o with
    | none => exact .inl (peekEvent_none_events _ s₁ sp (Nat.lt_succ_self _) hp)
    | some e => exact .inr ⟨e, (peekEvent_some _ s₁ sp e hp).1, hlt e rfl⟩
  · exact (TRun.of_clock (s := s₁) (s' := { sp with clock := endT }) hc1 f2).inv hi1.trace
  · exact hi1.logs.of_nodes (s' := { sp with clock := endT }) f6 hc1

theorem TimeWF.stepUntilTime (hzero : LawfulTime.isDraw (TimeOps.zero : T)) (h : SHandler σ T) (hh : HandlerDelaysOk h)
    (endT : T) (fuel : Nat) {s s' : Sim σ T} {b : Bool} (hw : s.TimeWF)
    (hrun : stepUntilTime h endT fuel s = some (.ok (b, s'))) : s'.TimeWF := by
  obtain ⟨k, s₁, sp, o, hk, hsteps, hall, hp, rfl, hb, hlt⟩ := stepUntilTime_decomp h endT fuel s s' b hrun
  refine lt_jump_wf endT (lt_peek_wf (hw.steps hzero h hh k true hsteps) hp) ?_
  cases o with
  | none => exact .inl (peekEvent_none_events _ s₁ sp (Nat.lt_succ_self _) hp)
  | some e => exact .inr ⟨e, (peekEvent_some _ s₁ sp e hp).1, hlt e rfl⟩

theorem TraceTimeInv.stepUntilTime (hzero : LawfulTime.isDraw (TimeOps.zero : T)) (h : SHandler σ T)
    (hh : HandlerDelaysOk h) (endT : T) (fuel : Nat) {s s' : Sim σ T} {b : Bool}
    (hle : TimeOps.le s.clock endT = true) (hw : s.TimeWF) (hi : s.TraceTimeInv)
    (hrun : stepUntilTime h endT fuel s = some (.ok (b, s'))) : s'.TraceTimeInv := by
  obtain ⟨k, s₁, sp, o, hk, hsteps, hall, hp, rfl, hb, hlt⟩ := stepUntilTime_decomp h endT fuel s s' b hrun
  have hc1 := stepUntilTime_last_clock_le h endT hle hsteps hall
  obtain ⟨_, f2, _⟩ := peekEvent_frame _ s₁ sp o hp
  exact (TRun.of_clock (s := s₁) (s' := { sp with clock := endT }) hc1 f2).inv (hi.steps hzero h hh k true hw hsteps)

theorem LogTimeInv.stepUntilTime (hzero : LawfulTime.isDraw (TimeOps.zero : T)) (h : SHandler σ T)
    (hh : HandlerDelaysOk h) (endT : T) (fuel : Nat) {s s' : Sim σ T} {b : Bool}
    (hle : TimeOps.le s.clock endT = true) (hw : s.TimeWF) (hi : s.LogTimeInv)
    (hrun : stepUntilTime h endT fuel s = some (.ok (b, s'))) : s'.LogTimeInv := by
  obtain ⟨k, s₁, sp, o, hk, hsteps, hall, hp, rfl, hb, hlt⟩ := stepUntilTime_decomp h endT fuel s s' b hrun
  have hc1 := stepUntilTime_last_clock_le h endT hle hsteps hall
  obtain ⟨_, _, _, _, _, f6, _⟩ := peekEvent_frame _ s₁ sp o hp
  exact (hi.steps hzero h hh k true hw hsteps).of_nodes (s' := { sp with clock := endT }) f6 hc1

/-- **What `step_until_time` appends to each event log**: entries with sorted times between the clock at the start and
    `endT` — it handled exactly events due no later than `endT`, and every entry carries the time of the event whose handling
    wrote it -/
theorem stepUntilTime_log_times (hzero : LawfulTime.isDraw (TimeOps.zero : T)) (h : SHandler σ T)
    (hh : HandlerDelaysOk h) (endT : T) (fuel : Nat) {s s' : Sim σ T} {b : Bool}
    (hle : TimeOps.le s.clock endT = true) (hw : s.TimeWF)
    (hrun : stepUntilTime h endT fuel s = some (.ok (b, s'))) (n p : Nat) :
    (s.proc? n p = none ∧ s'.proc? n p = none) ∨
    ∃ e e' evs, s.proc? n p = some e ∧ s'.proc? n p = some e' ∧ e'.log = e.log ++ evs ∧
      (evs.map (·.time)).Pairwise (fun a b => TimeOps.le a b = true) ∧
      ∀ x ∈ evs, TimeOps.le s.clock x.time = true ∧ TimeOps.le x.time endT = true := by
  obtain ⟨k, s₁, sp, o, hk, hsteps, hall, hp, rfl, hb, hlt⟩ := stepUntilTime_decomp h endT fuel s s' b hrun
  have hc1 := stepUntilTime_last_clock_le h endT hle hsteps hall
  obtain ⟨_, _, _, _, _, f6, _⟩ := peekEvent_frame _ s₁ sp o hp
  have h1 := (steps_extrun hzero h hh k true hw hsteps n p).mono_right hc1
  have h2 : ({ sp with clock := endT } : Sim σ T).proc? n p = s₁.proc? n p :=
    proc?_of_nodes (s := s₁) (s' := { sp with clock := endT }) f6 n p
  rw [← h2] at h1
  exact h1.cases

/-- **`step_for_duration d` keeps the three invariants for a non-negative duration**: `clock ≤ clock + d` is
    `LawfulTime.le_add` -/
theorem TimeInvs.stepForDuration (hzero : LawfulTime.isDraw (TimeOps.zero : T)) (h : SHandler σ T)
    (hh : HandlerDelaysOk h) (d : T) (fuel : Nat) {s s' : Sim σ T} {b : Bool}
    (hd : TimeOps.le TimeOps.zero d = true) (hi : s.TimeInvs)
    (hrun : stepForDuration h d fuel s = some (.ok (b, s'))) :
    s'.TimeInvs ∧ s'.clock = TimeOps.add s.clock d ∧ TimeOps.le s.clock s'.clock = true := by
  obtain ⟨h1, h2⟩ := hi.stepUntilTime hzero h hh _ fuel (LawfulTime.le_add _ _ hd) hrun
  exact ⟨h1, stepUntilTime_clock h _ fuel s s' b hrun, h2⟩

end lawful
end Sim

/-! ## (4) Non-vacuity: a run over `Ticks` with a skewed node, built through the `System` API -/
namespace SimLogTimesDemo

open Sim Sim.TimeOrder Sim.LogTimes

/-- an empty simulator: network delays in `[1, 5]`, no faults, six draws -/
def base : Sim Nat Ticks :=
  { clock := ⟨0⟩,
    net := { (SimNet.default : SimNet Ticks) with minDelay := ⟨1⟩, maxDelay := ⟨5⟩ },
    draws := [⟨500⟩, ⟨100⟩, ⟨900⟩, ⟨250⟩, ⟨10⟩, ⟨20⟩] }

/-- nodes 0 and 1; node 0 gets clock skew 7; process 1 on node 0, process 2 on node 1 -/
def setup : R (Sim Nat Ticks) := do
  let s ← base.addNode 0
  let s ← s.addNode 1
  let s ← s.setSkew 0 ⟨7⟩
  let s ← s.addProcess 1 0 0
  s.addProcess 2 0 1

/-- process 1 answers a local message with a message to itself (same node: delay 0), timer 0 with delay 3 and a message to
    process 2 (cross-node: delay `1 + 250·4/1000 = 2`); when its own message arrives it sets timer 1 with delay 2 and reports
    its clock reading in a local message; when a timer fires it reports its clock reading; process 2 reports its clock
    reading when a message arrives -/
def h : SHandler Nat Ticks := fun p st i c _ =>
  match p, i with
  | 1, .loc _ => (st + 1, [.send ⟨1, []⟩ 1, .set 0 3 false, .send ⟨2, [7]⟩ 2], 0)
  | 1, .msg _ _ => (st + 1, [.set 1 2 false, .loc ⟨9, [c.n]⟩], 0)
  | 1, .timer _ => (st + 1, [.loc ⟨9, [c.n]⟩], 0)
  | 2, .msg _ _ => (st + 1, [.loc ⟨8, [c.n]⟩], 0)
  | _, _ => (st + 1, [], 0)

theorem hzero : LawfulTime.isDraw (TimeOps.zero : Ticks) := by
  show (0 : Nat) < 1000
  decide

/-- every delay is non-negative in `Ticks` -/
theorem hdelays : HandlerDelaysOk h := by
  intro p st i c dr name d once _
  show decide ((0 : Nat) ≤ _) = true
  simp

theorem base_invs : base.TimeInvs := by
  refine TimeInvs.of_empty base rfl rfl rfl ⟨by decide, by decide⟩ ?_
  intro d hd
  simp only [base, List.mem_cons, List.not_mem_nil, or_false] at hd
  rcases hd with rfl | rfl | rfl | rfl | rfl | rfl <;> (show (_ : Nat) < 1000) <;> decide

/-- the invariants hold after the set-up, whatever state it produces: `addNode`, `setSkew`, `addProcess` keep them -/
theorem setup_invs (s0 : Sim Nat Ticks) (h0 : setup = .ok s0) : s0.TimeInvs := by
  unfold setup at h0
  obtain ⟨a, ha, h0⟩ := bind_ok h0
  obtain ⟨b, hb, h0⟩ := bind_ok h0
  obtain ⟨c, hc, h0⟩ := bind_ok h0
  obtain ⟨d, hd, h0⟩ := bind_ok h0
  exact ((((base_invs.addNode 0 ha).addNode 1 hb).setSkew 0 _ hc).addProcess 1 0 0 hd).addProcess 2 1 0 h0

/-- the run: set-up, `send_local_message` to process 1, `step_for_duration 1`, `step_for_duration 5` -/
def runAll : Option (Bool × Bool × Sim Nat Ticks × Sim Nat Ticks) :=
  match setup with
  | .error _ => none
  | .ok s0 =>
    match s0.sendLocal h 1 ⟨0, []⟩ with
    | .error _ => none
    | .ok s1 =>
      match stepForDuration h ⟨1⟩ 10 s1 with
      | some (.ok (b2, s2)) =>
        match stepForDuration h ⟨5⟩ 10 s2 with
        | some (.ok (b3, s3)) => some (b2, b3, s2, s3)
        | _ => none
      | _ => none

/-- the run exists.  `step_for_duration 1` handles the one event due at time 0, stops before the events due at time 2
    (`true`: events remain) and leaves the clock at `0 + 1`; `step_for_duration 5` handles the three remaining events (times
    2, 2, 3), runs dry (`false`) and leaves the clock at `1 + 5`. -/
example : runAll.map (fun r => (r.1, r.2.1, r.2.2.1.clock.n, r.2.2.1.live.length, r.2.2.2.clock.n, r.2.2.2.live.length)) =
    some (true, false, 1, 3, 6, 0) := by decide

/-- the event log of process 1 (node 0, skew 7) at the end: eleven entries, times sorted.  The `lsent` entries carry the
    *global* time (0, 2, 3) as `time`, while their payload is the handler's *skewed* clock reading (7, 9, 10). -/
example : runAll.map (fun r => (r.2.2.2.proc? 0 1).map (fun e => e.log.map (·.time.n))) =
    some (some [0, 0, 0, 0, 0, 0, 0, 2, 2, 3, 3]) := by decide

example : runAll.map (fun r => (r.2.2.2.proc? 0 1).map (fun e =>
      e.log.filterMap (fun x => match x.ev with | .lsent m => some (x.time.n, m.data) | _ => none))) =
    some (some [(0, [7]), (2, [9]), (3, [10])]) := by decide

/-- process 2 (node 1, no skew): received at time 2, reported the reading 2 -/
example : runAll.map (fun r => (r.2.2.2.proc? 1 2).map (fun e => (e.log.map (·.time.n),
      e.log.filterMap (fun x => match x.ev with | .lsent m => some m.data | _ => none)))) =
    some (some ([2, 2], [[2]])) := by decide

/-- all hypotheses of the theorems are discharged for this run: the invariants hold in every state of it, the clocks are
    where `step_for_duration` documents, and the pops of the two `step_for_duration` calls are bounded as stated -/
theorem run_invs (s0 s1 s2 s3 : Sim Nat Ticks) (b2 b3 : Bool) (h0 : setup = .ok s0)
    (h1 : s0.sendLocal h 1 ⟨0, []⟩ = .ok s1)
    (h2 : stepForDuration h ⟨1⟩ 10 s1 = some (.ok (b2, s2)))
    (h3 : stepForDuration h ⟨5⟩ 10 s2 = some (.ok (b3, s3))) :
    s0.TimeInvs ∧ s1.TimeInvs ∧ s2.TimeInvs ∧ s3.TimeInvs ∧
    s2.clock = TimeOps.add s1.clock ⟨1⟩ ∧ s3.clock = TimeOps.add s2.clock ⟨5⟩ ∧
    TimeOps.le s1.clock s2.clock = true ∧ TimeOps.le s2.clock s3.clock = true := by
  have i0 := setup_invs s0 h0
  have i1 := i0.sendLocal hzero h hdelays 1 _ h1
  obtain ⟨i2, c2, l2⟩ := i1.stepForDuration hzero h hdelays ⟨1⟩ 10 (by decide) h2
  obtain ⟨i3, c3, l3⟩ := i2.stepForDuration hzero h hdelays ⟨5⟩ 10 (by decide) h3
  exact ⟨i0, i1, i2, i3, c2, c3, l2, l3⟩

/-- `runAll` is such a run, so its final states satisfy the invariants -/
theorem runAll_invs (r : Bool × Bool × Sim Nat Ticks × Sim Nat Ticks) (hr : runAll = some r) :
    r.2.2.1.TimeInvs ∧ r.2.2.2.TimeInvs := by
  unfold runAll at hr
  split at hr
  · cases hr
  · rename_i s0 h0
    split at hr
    · cases hr
    · rename_i s1 h1
      split at hr
      · rename_i b2 s2 h2
        split at hr
        · rename_i b3 s3 h3
          cases hr
          obtain ⟨_, _, i2, i3, _⟩ := run_invs s0 s1 s2 s3 b2 b3 h0 h1 h2 h3
          exact ⟨i2, i3⟩
        · cases hr
      · cases hr

/-- the pops of the second `step_for_duration` in the `popSeq` framework, for the concrete run: three pops with times
    `2, 2, 3 ≤ 6`, and no further pop -/
example : runAll.map (fun r => (popSeq h 3 r.2.2.1, popSeq h 4 r.2.2.1)) =
    some ([(⟨2⟩, 2), (⟨2⟩, 3), (⟨3⟩, 1)], [(⟨2⟩, 2), (⟨2⟩, 3), (⟨3⟩, 1)]) := by decide

/-- **The clock jump needs `clock ≤ endT`.**  `step_until_time 0` at the end of the run (clock 6, nothing queued) sets the
    clock back to 0: the entries with times up to 3 are then ahead of the clock — `TraceTimeInv` and `LogTimeInv` fail, so the
    hypothesis `hle` of `TimeInvs.stepUntilTime` (`0 ≤ d` of `TimeInvs.stepForDuration`) cannot be dropped. -/
def back : Option (Sim Nat Ticks) :=
  runAll.bind fun r => match stepUntilTime h ⟨0⟩ 10 r.2.2.2 with
    | some (.ok (_, s)) => some s
    | _ => none

theorem backwards_breaks : ∃ s4, back = some s4 ∧ s4.clock = ⟨0⟩ ∧ ¬ s4.LogTimeInv ∧ ¬ s4.TraceTimeInv := by
  have f1 : back.map (fun s => (s.clock.n, (s.proc? 0 1).map (fun e => e.log.all (fun x => TimeOps.le x.time s.clock)),
      s.trace.all (fun x => TimeOps.le x.time s.clock))) = some (0, some false, false) := by decide
  cases hb : back with
  | none => rw [hb] at f1; cases f1
  | some s4 =>
    rw [hb] at f1
    simp only [Option.map_some, Option.some.injEq, Prod.mk.injEq] at f1
    obtain ⟨fc, fl, ft⟩ := f1
    refine ⟨s4, rfl, ?_, ?_, ?_⟩
    · cases hc : s4.clock with
      | mk k => rw [hc] at fc; simp only at fc; rw [fc]
    · intro hinv
      cases hp : s4.proc? 0 1 with
      | none => rw [hp] at fl; cases fl
      | some e =>
        rw [hp] at fl
        simp only [Option.map_some, Option.some.injEq] at fl
        have := List.all_eq_true.2 (fun x hx => (hinv 0 1 e hp).2 x hx)
        rw [this] at fl
        cases fl
    · intro hinv
      have := List.all_eq_true.2 (fun x hx => hinv.2 x hx)
      rw [this] at ft
      cases ft

end SimLogTimesDemo
end Anysystem
