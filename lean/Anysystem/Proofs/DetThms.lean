import Anysystem.Model.Snapshot
import Anysystem.Spec.TimeLaws
import Anysystem.Proofs.StoreLemmas
import Anysystem.Proofs.SimQueueLemmas
import Anysystem.Proofs.DetLemmas
import Anysystem.Proofs.R2CrashStore
/-!
# C01 — where the code iterates over hash containers, the observable result does not depend on the order

The model has no hidden inputs: every function is a function of its arguments (program, topology,
call sequence, draw stream).  The three places where the *code* passes through an unordered
container on the way to something observable are made explicit here with an order parameter, and the
result is shown not to depend on it (or, for `crash_node`, to depend on it only through the order of
the `dropped` entries, which the code fixes by sorting the process names).
-/
namespace Anysystem

variable {σ T : Type} [TimeOps T]

/-! ### helpers: `dump_events` is the insertion sort of the live events -/

theorem dumpEvents_eq_fold (s : Sim σ T) :
    s.dumpEvents = (Sim.liveOf s).foldl (Det.ins Sim.evBefore) [] := by
  unfold Sim.dumpEvents Sim.liveOf
  exact Det.insFold_eq _ _ _

theorem dumpEvents_sorted [LawfulTime T] (s : Sim σ T) : Det.WSorted Sim.evBefore s.dumpEvents := by
  rw [dumpEvents_eq_fold]
  exact Det.insFold_sorted _ Sim.evBefore_asymm Sim.evBefore_negtrans _ _ List.Pairwise.nil

theorem dumpEvents_perm_live (s : Sim σ T) : s.dumpEvents.Perm (Sim.liveOf s) := by
  rw [dumpEvents_eq_fold]
  simpa using Det.insFold_perm (Sim.evBefore (T := T)) (Sim.liveOf s) []

/-- `dump_events` (used by `ModelChecker::new` and by the repaired `crash_node`): simcore keeps the events in
    a binary heap whose array order is unspecified; the sorted dump does not depend on it -/
theorem dumpEvents_perm [LawfulTime T] (s₁ s₂ : Sim σ T) (hperm : s₁.events.Perm s₂.events)
    (hc : s₁.canceled = s₂.canceled) (hnd : (s₁.events.map (·.id)).Nodup) :
    s₁.dumpEvents = s₂.dumpEvents := by
  have hlive : (Sim.liveOf s₁).Perm (Sim.liveOf s₂) := by
    unfold Sim.liveOf
    rw [hc]
    exact hperm.filter _
  have hp : s₁.dumpEvents.Perm s₂.dumpEvents :=
    ((dumpEvents_perm_live s₁).trans hlive).trans (dumpEvents_perm_live s₂).symm
  refine List.Perm.eq_of_pairwise (le := fun a b => Sim.evBefore b a = false) ?_
    (dumpEvents_sorted s₁) (dumpEvents_sorted s₂) hp
  intro a b ha hb hab hba
  have ha' : a ∈ s₁.events := ((Sim.mem_liveOf s₁ a).1 ((dumpEvents_perm_live s₁).subset ha)).1
  have hb' : b ∈ s₁.events := ((Sim.mem_liveOf s₁ b).1 ((dumpEvents_perm_live s₁).subset (hp.symm.subset hb))).1
  by_cases hid : a.id = b.id
  · exact Sim.eq_of_id_eq_of_nodup hnd ha' hb' hid
  · rcases Sim.evBefore_total a b hid with h | h
    · rw [hba] at h; cases h
    · rw [hab] at h; cases h

/-- hence the snapshot is a function of the simulator state up to the heap's internal order -/
theorem snapshotEvents_perm [LawfulTime T] (bits : T → Nat) (s₁ s₂ : Sim σ T) (maxDelay : Nat)
    (hperm : s₁.events.Perm s₂.events) (hc : s₁.canceled = s₂.canceled) (hnd : (s₁.events.map (·.id)).Nodup)
    (hn : s₁.nodes = s₂.nodes) (hclock : s₁.clock = s₂.clock) :
    snapshotEvents bits s₁ maxDelay = snapshotEvents bits s₂ maxDelay := by
  unfold snapshotEvents
  rw [dumpEvents_perm s₁ s₂ hperm hc hnd, hn, hclock]

/-- `McSystem::crash_node` with an explicit order in which the processes of the node are visited -/
def McSys.crashNodeOrd (s : McSys σ) (node : Nat) (order : List Nat) : R (McSys σ) :=
  let s1 : McSys σ := { s with trace := s.trace ++ [LogE.crashed node], net := s.net.disconnectNode node }
  match s1.nodeOf node with
  | .error e => .error e
  | .ok n =>
    let rec go : List Nat → Store → List LogE → R (Store × List LogE)
      | [], st, tr => .ok (st, tr)
      | p :: ps, st, tr =>
        match st.cancelProcEvents {} p with
        | .error e => .error e
        | .ok (st', dropped) => go ps st' (tr ++ dropped.map Ev.toLog)
    match go order s1.events [] with
    | .error e => .error e
    | .ok (st, tr) =>
      .ok { s1 with events := st, trace := s1.trace ++ tr,
                    nodes := amInsert natLt node { n with crashed := true } s1.nodes }

/-- the local loop of `crashNodeOrd` is the loop of `McSys.crashNode` -/
theorem crashNodeOrd_go_eq (ps : List Nat) : ∀ (st : Store) (tr : List LogE),
    McSys.crashNodeOrd.go ps st tr = McSys.crashNode.go {} ps st tr := by
  induction ps with
  | nil => intro st tr; rfl
  | cons p ps ih =>
    intro st tr
    simp only [McSys.crashNodeOrd.go, McSys.crashNode.go]
    cases h : Store.cancelProcEvents {} st p with
    | error e => rfl
    | ok r => exact ih _ _

/-- the mirrored `crash_node` is the ordered one with the sorted process names -/
theorem crashNode_eq_ord (s : McSys σ) (node : Nat) (n : McNode σ) (hn : amGet? node s.nodes = some n) :
    s.crashNode {} node = s.crashNodeOrd node (n.procs.map (·.1)) := by
  unfold McSys.crashNode McSys.crashNodeOrd
  simp only [McSys.nodeOf, hn, crashNodeOrd_go_eq]
  cases McSys.crashNode.go {} (n.procs.map (fun x => x.1)) s.events [] <;> rfl

/-- whatever the order in which the processes are visited (the HashMap key order before the repair of D7), the
    resulting system differs only in the order of the recorded losses: same nodes, network, depth, the stores
    hold the same live events and offer the same ids, and the traces are permutations of each other -/
theorem crashNodeOrd_perm (s s₁ s₂ : McSys σ) (a : AStore) (hrep : Rep s.events a) (node : Nat) (o₁ o₂ : List Nat)
    (hperm : o₁.Perm o₂) (h₁ : s.crashNodeOrd node o₁ = .ok s₁) (h₂ : s.crashNodeOrd node o₂ = .ok s₂) :
    s₁.nodes = s₂.nodes ∧ s₁.net = s₂.net ∧ s₁.depth = s₂.depth ∧ s₁.mode = s₂.mode ∧
    (∀ id, s₁.events.get id = s₂.events.get id) ∧ (∀ id, id ∈ s₁.events.available ↔ id ∈ s₂.events.available) ∧
    s₁.trace.Perm s₂.trace := by
  unfold McSys.crashNodeOrd at h₁ h₂
  simp only [McSys.nodeOf] at h₁ h₂
  cases hn : amGet? node s.nodes with
  | none => simp [hn] at h₁
  | some n =>
    simp only [hn, crashNodeOrd_go_eq] at h₁ h₂
    obtain ⟨st₁, ord₁, hgo₁, hr₁, hp₁⟩ := crash_go o₁ (st := s.events) (a := a) [] hrep
    obtain ⟨st₂, ord₂, hgo₂, hr₂, hp₂⟩ := crash_go o₂ (st := s.events) (a := a) [] hrep
    simp only [hgo₁, Except.ok.injEq] at h₁
    simp only [hgo₂, Except.ok.injEq] at h₂
    subst h₁ h₂
    have hany : ∀ x : Nat × Ev, o₁.any (fun p => Store.touches p x.2) = o₂.any (fun p => Store.touches p x.2) :=
      fun x => hperm.any_eq
    simp only [hany] at hr₁ hp₁
    refine ⟨rfl, rfl, rfl, rfl, ?_, ?_, ?_⟩
    · intro id
      show amGet? id st₁.events = amGet? id st₂.events
      rw [hr₁.get_eq, hr₂.get_eq]
    · intro id
      show id ∈ st₁.available ↔ id ∈ st₂.available
      rw [hr₁.avail, hr₂.avail]
    · show (s.trace ++ [LogE.crashed node] ++ ([] ++ ord₁.map _)).Perm (s.trace ++ [LogE.crashed node] ++ ([] ++ ord₂.map _))
      exact List.Perm.append_left _ (List.Perm.append_left _ ((hp₁.trans hp₂.symm).map _))

end Anysystem
