import Anysystem.Model.Sim
import Anysystem.Spec.TimeLaws
import Anysystem.Proofs.SimQueueLemmas
/-!
# Simulated time and the event queue (C06), crash isolation (C08)
-/
namespace Anysystem

-- some statements carry hypotheses (`hf`, `hwf`) that their proofs do not need; they are kept as stated
set_option linter.unusedVariables false
set_option linter.unusedSectionVars false

variable {σ T : Type} [TimeOps T]

namespace Sim

/-- live (not cancelled) queued events -/
def live (s : Sim σ T) : List (QEv T) := s.events.filter (fun e => !s.canceled.contains e.id)

/-- `a` is handled no later than `b`: earlier time, or equal time and created earlier -/
def notAfter (a b : QEv T) : Prop := evBefore b a = false

/-- ids in the queue are unique and below the id counter (so ids are never reused) -/
def QueueWF (s : Sim σ T) : Prop := (s.events.map (·.id)).Nodup ∧ ∀ e ∈ s.events, e.id < s.eventCount

/-- no queued event lies in the past -/
def ClockOk (s : Sim σ T) : Prop := ∀ e ∈ s.events, TimeOps.le s.clock e.time = true

/-- `next_event` returns the live event that is minimal in (time, id), moves the clock there, removes
    it from the queue and never returns a cancelled event; `none` iff nothing live is queued -/
theorem nextEvent_some [LawfulTime T] (s s' : Sim σ T) (e : QEv T) (fuel : Nat) (hf : s.events.length < fuel)
    (hwf : s.QueueWF) (h : nextEvent fuel s = (some e, s')) :
    e ∈ s.live ∧ (∀ x ∈ s.live, notAfter e x) ∧ s'.clock = e.time ∧
    (∀ x, x ∈ s'.live ↔ (x ∈ s.live ∧ x.id ≠ e.id)) ∧ e.id ∉ s.canceled := by
  obtain ⟨h1, h2, h3, h4, _, _, _, h8⟩ := nextEvent_some_core fuel s s' e h
  exact ⟨(mem_liveOf s e).2 ⟨h1, h2⟩, h3, h4, h8, h2⟩

theorem nextEvent_none [LawfulTime T] (s s' : Sim σ T) (fuel : Nat) (hf : s.events.length < fuel)
    (h : nextEvent fuel s = (none, s')) : s.live = [] ∧ s'.clock = s.clock := by
  obtain ⟨h1, h2, _, _⟩ := nextEvent_none_core fuel s s' hf h
  exact ⟨h1, h2⟩

/-- arrival and firing times: an event queued with delay `d` at clock `t` is stamped `t + d` -/
theorem addEvent_time (s : Sim σ T) (data : QData) (src dst : Nat) (d : T) :
    (s.addEvent data src dst d).1.events = s.events ++ [⟨s.eventCount, TimeOps.add s.clock d, src, dst, data⟩] ∧
    (s.addEvent data src dst d).2 = s.eventCount ∧ (s.addEvent data src dst d).1.eventCount = s.eventCount + 1 := ⟨rfl, rfl, rfl⟩

/-- adding an event with a non-negative delay keeps "nothing queued in the past" and the queue well-formedness -/
theorem addEvent_keeps [LawfulTime T] (s : Sim σ T) (data : QData) (src dst : Nat) (d : T)
    (hd : TimeOps.le TimeOps.zero d = true) (hc : s.ClockOk) (hwf : s.QueueWF) :
    (s.addEvent data src dst d).1.ClockOk ∧ (s.addEvent data src dst d).1.QueueWF := by
  obtain ⟨hnd, hlt⟩ := hwf
  refine ⟨?_, ?_, ?_⟩
  · intro e he
    simp only [addEvent, List.mem_append, List.mem_singleton] at he ⊢
    rcases he with he | rfl
    · exact hc e he
    · exact LawfulTime.le_add _ _ hd
  · simp only [addEvent, List.map_append, List.map_cons, List.map_nil]
    rw [List.nodup_append]
    refine ⟨hnd, by simp, ?_⟩
    intro a ha b hb
    rw [List.mem_singleton] at hb
    obtain ⟨x, hx, rfl⟩ := List.mem_map.1 ha
    have := hlt x hx
    omega
  · intro e he
    simp only [addEvent, List.mem_append, List.mem_singleton] at he ⊢
    rcases he with he | rfl
    · exact Nat.lt_succ_of_lt (hlt e he)
    · exact Nat.lt_succ_self _

/-- handled times never decrease: popping the next event keeps "nothing queued in the past" -/
theorem nextEvent_keeps [LawfulTime T] (s s' : Sim σ T) (e : QEv T) (fuel : Nat) (hf : s.events.length < fuel)
    (hwf : s.QueueWF) (hc : s.ClockOk) (h : nextEvent fuel s = (some e, s')) :
    TimeOps.le s.clock s'.clock = true ∧ s'.ClockOk ∧ s'.QueueWF := by
  obtain ⟨h1, _, _, h4, h5, h6, h7, _⟩ := nextEvent_some_core fuel s s' e h
  refine ⟨?_, ?_, ?_, ?_⟩
  · rw [h4]; exact hc e h1
  · intro x hx
    rw [h4]
    exact le_time_of_not_evBefore x e (h7 x hx)
  · exact (h6.map (·.id)).nodup hwf.1
  · intro x hx
    rw [h5]
    exact hwf.2 x (h6.subset hx)

/-- `steps n` handles events one at a time and stops early exactly when the queue runs dry -/
theorem steps_zero (h : SHandler σ T) (s : Sim σ T) : steps h 0 s = .ok (true, s) := rfl

theorem steps_succ (h : SHandler σ T) (k : Nat) (s : Sim σ T) :
    steps h (k + 1) s = (match step h s with
      | .error e => .error e
      | .ok (false, s') => .ok (false, s')
      | .ok (true, s') => steps h k s') := by
  simp only [steps]
  split <;> simp_all

/-- `step` returns `false` iff no live event is queued, and then changes nothing observable -/
theorem step_false_iff [LawfulTime T] (h : SHandler σ T) (s s' : Sim σ T) (hstep : step h s = .ok (false, s')) :
    s.live = [] ∧ s'.clock = s.clock ∧ s'.trace = s.trace ∧ s'.nodes = s.nodes := by
  unfold step at hstep
  split at hstep
  · rename_i s1 hne
    cases hstep
    exact nextEvent_none_core _ s s' (Nat.lt_succ_self _) hne
  · split at hstep <;> cases hstep

/-- `step_for_duration` leaves the clock at `t₀ + d` (whenever it returns), handled no event later than that -/
theorem stepUntilTime_clock (h : SHandler σ T) (endT : T) (fuel : Nat) (s s' : Sim σ T) (b : Bool)
    (hrun : stepUntilTime h endT fuel s = some (.ok (b, s'))) : s'.clock = endT := by
  induction fuel generalizing s with
  | zero => simp [stepUntilTime] at hrun
  | succ f ih =>
    simp only [stepUntilTime] at hrun
    split at hrun
    · cases hrun; rfl
    · split at hrun
      · cases hrun; rfl
      · split at hrun
        · cases hrun
        · exact ih _ hrun

/-! ### crash isolation -/

/-- after `crash_node n` every queued event from or to `n` is cancelled, `n` has no handler, is flagged,
    and the trace gains `NodeCrashed` first -/
theorem crashNode_cancels (s s' : Sim σ T) (n : Nat) (h : s.crashNode n = .ok s') :
    (∀ e ∈ s'.events, (e.src = n ∨ e.dst = n) → e.id ∈ s'.canceled) ∧ n ∉ s'.handlers ∧
    s'.events = s.events ∧ (∀ id ∈ s.canceled, id ∈ s'.canceled) ∧
    (∃ nd, amGet? n s'.nodes = some nd ∧ nd.crashed = true) ∧
    ∃ rest, s'.trace = s.trace ++ SLog.nodeCrashed s.clock n :: rest := by
  obtain ⟨nd, rest, hnd, rfl⟩ := crashNode_shape s s' n h
  refine ⟨?_, ?_, rfl, ?_, ?_, rest, rfl⟩
  · intro e he hsd
    simp only [mem_foldl_setInsert, List.mem_map, List.mem_filter, beq_iff_eq]
    rcases hsd with hsd | hsd
    · exact Or.inr (Or.inl ⟨e, ⟨he, hsd⟩, rfl⟩)
    · exact Or.inl ⟨e, ⟨he, hsd⟩, rfl⟩
  · simp [mem_setErase]
  · intro id hid
    simp only [mem_foldl_setInsert]
    exact Or.inr (Or.inr hid)
  · exact ⟨{ nd with crashed := true }, by simp [amGet?_amInsert], rfl⟩

/-- other nodes are not affected by a crash -/
theorem crashNode_frame (s s' : Sim σ T) (n m : Nat) (hne : m ≠ n) (hwf : s.QueueWF) (h : s.crashNode n = .ok s') :
    amGet? m s'.nodes = amGet? m s.nodes ∧ (m ∈ s'.handlers ↔ m ∈ s.handlers) ∧
    (∀ e ∈ s.events, e.src ≠ n → e.dst ≠ n → (e.id ∈ s'.canceled ↔ e.id ∈ s.canceled)) ∧
    s'.clock = s.clock ∧ s'.net = s.net := by
  obtain ⟨nd, rest, hnd, rfl⟩ := crashNode_shape s s' n h
  refine ⟨?_, ?_, ?_, rfl, rfl⟩
  · simp [amGet?_amInsert, hne]
  · simp [mem_setErase, hne]
  · intro e he hs hd
    simp only [mem_foldl_setInsert, List.mem_map, List.mem_filter, beq_iff_eq]
    have huniq : ∀ x ∈ s.events, x.id = e.id → x = e := by
      intro x hx hid
      exact eq_of_id_eq_of_nodup hwf.1 hx he hid
    constructor
    · rintro (⟨x, ⟨hx, hxd⟩, hid⟩ | ⟨x, ⟨hx, hxs⟩, hid⟩ | hc)
      · exact absurd (huniq x hx hid ▸ hxd) hd
      · exact absurd (huniq x hx hid ▸ hxs) hs
      · exact hc
    · intro hc; exact Or.inr (Or.inr hc)

/-- a cancelled event is never delivered, also after recovery: `next_event` skips it and forgets it -/
theorem cancelled_never_returned [LawfulTime T] (s s' : Sim σ T) (e : QEv T) (fuel : Nat)
    (hf : s.events.length < fuel) (hwf : s.QueueWF) (h : nextEvent fuel s = (some e, s')) :
    ∀ x ∈ s.events, x.id ∈ s.canceled → x.id ≠ e.id := by
  obtain ⟨_, h2, _⟩ := nextEvent_some_core fuel s s' e h
  intro x _ hxc heq
  exact h2 (heq ▸ hxc)

/-- an event addressed to a node without a handler (crashed) is discarded: nothing is handled -/
theorem deliver_no_handler (h : SHandler σ T) (e : QEv T) (s : Sim σ T) (hn : e.dst ∉ s.handlers) :
    deliver h e s = .ok s := by
  simp [deliver, hn]

/-- recovery starts clean: no processes (state, logs, counters, outboxes are created anew by
    `add_process`), the handler is back, the flag is cleared, old process↦node entries are purged;
    cancelled ids stay cancelled -/
theorem recoverNode_fresh (s s' : Sim σ T) (n : Nat) (h : s.recoverNode n = .ok s') :
    (∃ nd, amGet? n s'.nodes = some nd ∧ nd.procs = [] ∧ nd.crashed = false) ∧ n ∈ s'.handlers ∧
    (∀ p, amGet? p s'.procNodes ≠ some n) ∧ s'.canceled = s.canceled ∧ s'.events = s.events := by
  unfold recoverNode at h
  cases hn : amGet? n s.nodes with
  | none => simp [nodeOf, hn] at h
  | some nd =>
    simp only [nodeOf, hn] at h
    split at h
    · cases h
    · cases h
      refine ⟨⟨{ nd with procs := [], crashed := false }, by simp [log, setNode, amGet?_amInsert], rfl, rfl⟩, ?_, ?_, rfl, rfl⟩
      · simp [log, setNode, mem_setInsert]
      · intro p hp
        have := amGet?_eq_some_mem hp
        simp [log, setNode, List.mem_filter] at this

/-- a process added after recovery has fresh state, empty log, outbox and timers, zero counters -/
theorem addProcess_fresh (s s' : Sim σ T) (p n : Nat) (st : σ) (h : s.addProcess p st n = .ok s') :
    ∃ nd e, amGet? n s'.nodes = some nd ∧ amGet? p nd.procs = some e ∧ e.log = [] ∧ e.outbox = [] ∧
      e.pending = [] ∧ e.sent = 0 ∧ e.recv = 0 := by
  unfold addProcess at h
  cases hn : amGet? n s.nodes with
  | none => simp [nodeOf, hn] at h
  | some nd =>
    simp only [nodeOf, hn] at h
    split at h
    · cases h
    · cases h
      refine ⟨_, _, by simp only [log, setNode, amGet?_amInsert]; rfl, by simp only [amGet?_amInsert]; rfl,
        rfl, rfl, rfl, rfl, rfl⟩

end Sim
end Anysystem
