import Anysystem.Proofs.SimQueueThms
import Anysystem.Proofs.SimLogThms
/-!
# C06 — handler clocks and the remaining stepping calls
-/
namespace Anysystem

variable {σ T : Type} [TimeOps T]

namespace Sim

-- several helper lemmas do not use the time arithmetic; `[TimeOps T]` is part of their signature all the same
set_option linter.unusedSectionVars false

/-! ### helper lemmas -/

@[simp] theorem updProc_eventCount (s : Sim σ T) (n p : Nat) (f : SProc σ T → SProc σ T) :
    (s.updProc n p f).eventCount = s.eventCount := by
  obtain ⟨ns, h⟩ := updProc_frame s n p f; rw [h]
@[simp] theorem updProc_canceled (s : Sim σ T) (n p : Nat) (f : SProc σ T → SProc σ T) :
    (s.updProc n p f).canceled = s.canceled := by
  obtain ⟨ns, h⟩ := updProc_frame s n p f; rw [h]

theorem proc?_addEvent (s : Sim σ T) (data : QData) (src dst : Nat) (d : T) (n p : Nat) :
    (s.addEvent data src dst d).1.proc? n p = s.proc? n p := rfl

theorem proc?_cancelEvent (s : Sim σ T) (id : Nat) (n p : Nat) : (s.cancelEvent id).proc? n p = s.proc? n p := rfl

/-- the lookups `handleActions` makes after it has appended the event-log entry of a timer call -/
theorem timer_lookups (s : Sim σ T) (n p : Nat) (f : SProc σ T → SProc σ T) {nd : SNode σ T} {e : SProc σ T}
    (hn : amGet? n s.nodes = some nd) (he : amGet? p nd.procs = some e) :
    (s.updProc n p f).nodeOf n = .ok { nd with procs := amInsert natLt p (f e) nd.procs } ∧
    amGet? p (amInsert natLt p (f e) nd.procs) = some (f e) := by
  refine ⟨?_, by simp only [amGet?_amInsert, if_true]⟩
  unfold nodeOf
  rw [updProc_node s n p f hn he]

/-- the minimum is an element (no time laws needed) -/
theorem minEvent_mem (l : List (QEv T)) (m : QEv T) (hm : minEvent l = some m) : m ∈ l := by
  induction l generalizing m with
  | nil => simp [minEvent] at hm
  | cons a es ih =>
    simp only [minEvent] at hm
    split at hm
    · cases hm; exact List.mem_cons_self
    · rename_i m' hm'
      split at hm
      · cases hm; exact List.mem_cons_self
      · cases hm; exact List.mem_cons_of_mem _ (ih _ hm')

/-- with enough fuel, `next_event` gives up only on an empty queue -/
theorem nextEvent_none_events (fuel : Nat) (s s' : Sim σ T) (hf : s.events.length < fuel)
    (h : nextEvent fuel s = (none, s')) : s'.events = [] := by
  induction fuel generalizing s with
  | zero => exact absurd hf (Nat.not_lt_zero _)
  | succ fuel ih =>
    rw [nextEvent_succ] at h
    split at h
    · rename_i hn
      cases h
      exact minEvent_eq_none _ hn
    · rename_i m hm
      split at h
      · refine ih _ ?_ h
        have := length_filter_ne_lt s.events m (minEvent_mem _ _ hm)
        simp only
        omega
      · cases h

/-- `step` on an empty queue reports that nothing is left -/
theorem step_of_events_nil (h : SHandler σ T) (s : Sim σ T) (he : s.events = []) : step h s = .ok (false, s) := by
  unfold step
  rw [he]
  simp only [List.length_nil, Nat.zero_add, nextEvent_succ, he, minEvent]

/-- a `step` that reports `false` leaves an empty queue -/
theorem step_false_events (h : SHandler σ T) (s s' : Sim σ T) (hstep : step h s = .ok (false, s')) : s'.events = [] := by
  unfold step at hstep
  split at hstep
  · rename_i s1 hne
    cases hstep
    exact nextEvent_none_events _ s s' (Nat.lt_succ_self _) hne
  · split at hstep <;> cases hstep

/-- a process entry is found through its node -/
theorem proc?_some {s : Sim σ T} {n p : Nat} {e : SProc σ T} (he : s.proc? n p = some e) :
    ∃ nd, amGet? n s.nodes = some nd ∧ amGet? p nd.procs = some e := by
  unfold proc? at he
  split at he
  · exact ⟨_, ‹_›, he⟩
  · cases he

/-- `read_local_messages` on an existing process -/
theorem readNode_eq (s : Sim σ T) (n p : Nat) {e : SProc σ T} (he : s.proc? n p = some e) :
    s.readNode n p = if e.outbox.isEmpty then .ok (none, s)
      else .ok (some e.outbox, s.updProc n p fun e => { e with outbox := [] }) := by
  obtain ⟨nd, hn, he'⟩ := proc?_some he
  simp only [readNode, nodeOf, hn, he']

/-! ### the statements -/

/-- a handler's clock reads global time plus its node's skew: `runHandler` calls the handler with `clock + skew` and
    the current draw stream, and with nothing else -/
theorem runHandler_clock (h h' : SHandler σ T) (n p : Nat) (time : T) (i : Input) (s : Sim σ T) (nd : SNode σ T)
    (e : SProc σ T) (hn : amGet? n s.nodes = some nd) (he : amGet? p nd.procs = some e)
    (hagree : h p e.st i (TimeOps.add s.clock nd.skew) s.draws = h' p e.st i (TimeOps.add s.clock nd.skew) s.draws) :
    runHandler h n p time i s = runHandler h' n p time i s := by
  unfold runHandler
  simp only [nodeOf, hn, he]
  rw [hagree]


/-- a timer set by a handler at clock `t` with delay `d` is queued for `t + d` (`emit_self`) and remembered under its name -/
theorem handleActions_set_timer (s : Sim σ T) (n p : Nat) (time : T) (name delay : Nat) (nd : SNode σ T) (e : SProc σ T)
    (hn : amGet? n s.nodes = some nd) (he : amGet? p nd.procs = some e) (hfree : amGet? name e.pending = none) :
    ∃ s', handleActions n p time [.set name delay false] s = .ok s' ∧
      s'.events = s.events ++ [⟨s.eventCount, TimeOps.add s.clock (TimeOps.ofBits delay), n, n, .timer p name⟩] ∧
      (∃ e', s'.proc? n p = some e' ∧ amGet? name e'.pending = some s.eventCount) := by
  obtain ⟨h1, h2⟩ := timer_lookups s n p (fun e => { e with log := e.log ++ [⟨time, .tset name delay false⟩] }) hn he
  have heq : handleActions n p time [.set name delay false] s = .ok
      ((((s.updProc n p fun e => { e with log := e.log ++ [⟨time, .tset name delay false⟩] }).addEvent
          (.timer p name) n n (TimeOps.ofBits delay)).1.updProc n p
          fun e => { e with pending := amInsert natLt name s.eventCount e.pending }).log
        (.timerSet time s.eventCount name n p (TimeOps.ofBits delay))) := by
    simp only [handleActions, h1, h2, hfree]
    simp [addEvent, handleActions.delayOf]
  refine ⟨_, heq, ?_, ?_⟩
  · simp [log, addEvent]
  · refine ⟨{ e with log := e.log ++ [⟨time, .tset name delay false⟩],
                     pending := amInsert natLt name s.eventCount e.pending }, ?_, ?_⟩
    · rw [proc?_log, proc?_updProc, if_pos ⟨rfl, rfl⟩, proc?_addEvent, proc?_updProc,
        if_pos ⟨rfl, rfl⟩, proc?_eq hn, he]
      rfl
    · simp [amGet?_amInsert]

/-- overriding a pending timer cancels the old event (so it never fires, `cancelled_never_returned`) and queues a new one -/
theorem handleActions_override_timer (s : Sim σ T) (n p : Nat) (time : T) (name delay old : Nat) (nd : SNode σ T)
    (e : SProc σ T) (hn : amGet? n s.nodes = some nd) (he : amGet? p nd.procs = some e)
    (hold : amGet? name e.pending = some old) :
    ∃ s', handleActions n p time [.set name delay false] s = .ok s' ∧ old ∈ s'.canceled ∧
      s'.events = s.events ++ [⟨s.eventCount, TimeOps.add s.clock (TimeOps.ofBits delay), n, n, .timer p name⟩] ∧
      (∃ e', s'.proc? n p = some e' ∧ amGet? name e'.pending = some s.eventCount) := by
  obtain ⟨h1, h2⟩ := timer_lookups s n p (fun e => { e with log := e.log ++ [⟨time, .tset name delay false⟩] }) hn he
  have heq : handleActions n p time [.set name delay false] s = .ok
      (((((s.updProc n p fun e => { e with log := e.log ++ [⟨time, .tset name delay false⟩] }).cancelEvent old).addEvent
          (.timer p name) n n (TimeOps.ofBits delay)).1.updProc n p
          fun e => { e with pending := amInsert natLt name s.eventCount e.pending }).log
        (.timerSet time s.eventCount name n p (TimeOps.ofBits delay))) := by
    simp only [handleActions, h1, h2, hold]
    simp [addEvent, cancelEvent, handleActions.delayOf]
  refine ⟨_, heq, ?_, ?_, ?_⟩
  · simp [log, addEvent, cancelEvent, mem_setInsert]
  · simp [log, addEvent, cancelEvent]
  · refine ⟨{ e with log := e.log ++ [⟨time, .tset name delay false⟩],
                     pending := amInsert natLt name s.eventCount e.pending }, ?_, ?_⟩
    · rw [proc?_log, proc?_updProc, if_pos ⟨rfl, rfl⟩, proc?_addEvent, proc?_cancelEvent, proc?_updProc,
        if_pos ⟨rfl, rfl⟩, proc?_eq hn, he]
      rfl
    · simp [amGet?_amInsert]


/-- `set_timer_once` on a pending name changes nothing but the event log -/
theorem handleActions_once_ignored (s : Sim σ T) (n p : Nat) (time : T) (name delay old : Nat) (nd : SNode σ T)
    (e : SProc σ T) (hn : amGet? n s.nodes = some nd) (he : amGet? p nd.procs = some e)
    (hold : amGet? name e.pending = some old) :
    ∃ s', handleActions n p time [.set name delay true] s = .ok s' ∧ s'.events = s.events ∧ s'.canceled = s.canceled ∧
      s'.trace = s.trace ∧ (∃ e', s'.proc? n p = some e' ∧ e'.pending = e.pending) := by
  obtain ⟨h1, h2⟩ := timer_lookups s n p (fun e => { e with log := e.log ++ [⟨time, .tset name delay true⟩] }) hn he
  have heq : handleActions n p time [.set name delay true] s = .ok
      (s.updProc n p fun e => { e with log := e.log ++ [⟨time, .tset name delay true⟩] }) := by
    simp only [handleActions, h1, h2, hold]
    rfl
  refine ⟨_, heq, by simp, by simp, by simp, ?_⟩
  refine ⟨{ e with log := e.log ++ [⟨time, .tset name delay true⟩] }, ?_, rfl⟩
  rw [proc?_updProc, if_pos ⟨rfl, rfl⟩, proc?_eq hn, he]
  rfl


/-- `cancel_timer` of a pending name cancels its event and forgets the name -/
theorem handleActions_cancel_timer (s : Sim σ T) (n p : Nat) (time : T) (name old : Nat) (nd : SNode σ T)
    (e : SProc σ T) (hn : amGet? n s.nodes = some nd) (he : amGet? p nd.procs = some e)
    (hold : amGet? name e.pending = some old) :
    ∃ s', handleActions n p time [.cancel name] s = .ok s' ∧ old ∈ s'.canceled ∧ s'.events = s.events ∧
      (∃ e', s'.proc? n p = some e' ∧ amGet? name e'.pending = none) := by
  obtain ⟨h1, h2⟩ := timer_lookups s n p (fun e => { e with log := e.log ++ [⟨time, .tcancel name⟩] }) hn he
  have heq : handleActions n p time [.cancel name] s = .ok
      ((((s.updProc n p fun e => { e with log := e.log ++ [⟨time, .tcancel name⟩] }).updProc n p
          fun e => { e with pending := amErase name e.pending }).log
        (.timerCancelled time old name n p)).cancelEvent old) := by
    simp only [handleActions, h1, h2, hold]
  refine ⟨_, heq, ?_, ?_, ?_⟩
  · simp [cancelEvent, mem_setInsert]
  · simp [log, cancelEvent]
  · refine ⟨{ e with log := e.log ++ [⟨time, .tcancel name⟩], pending := amErase name e.pending }, ?_, ?_⟩
    · rw [proc?_cancelEvent, proc?_log, proc?_updProc, if_pos ⟨rfl, rfl⟩, proc?_updProc,
        if_pos ⟨rfl, rfl⟩, proc?_eq hn, he]
      rfl
    · simp [amGet?_amErase]


/-- `step_until_local_message_max_steps`: if the outbox is non-empty it is returned at once and no event is handled -/
theorem stepUntilLocalMax_immediate (h : SHandler σ T) (n p k : Nat) (s : Sim σ T) (e : SProc σ T)
    (he : s.proc? n p = some e) (hne : e.outbox ≠ []) :
    ∃ s', s.stepUntilLocalMax h n p k = .ok (some e.outbox, s') ∧ s'.clock = s.clock ∧ s'.events = s.events ∧
      s'.trace = s.trace := by
  have hr := readNode_eq s n p he
  have hne' : e.outbox.isEmpty = false := by
    cases h0 : e.outbox with
    | nil => exact absurd h0 hne
    | cons _ _ => rfl
  rw [hne'] at hr
  refine ⟨s.updProc n p fun e => { e with outbox := [] }, ?_, by simp, by simp, by simp⟩
  unfold stepUntilLocalMax
  rw [hr]
  rfl


/-- with a zero step bound and an empty outbox nothing is handled and `None` is returned -/
theorem stepUntilLocalMax_zero (h : SHandler σ T) (n p : Nat) (s : Sim σ T) (e : SProc σ T)
    (he : s.proc? n p = some e) (hempty : e.outbox = []) :
    s.stepUntilLocalMax h n p 0 = .ok (none, s) := by
  have hr := readNode_eq s n p he
  rw [hempty] at hr
  unfold stepUntilLocalMax
  rw [hr]
  rfl


/-- `step_until_no_events` stops exactly when `step` reports that nothing is left -/
theorem stepUntilNoEvents_spec (h : SHandler σ T) (fuel : Nat) (s s' : Sim σ T)
    (hrun : stepUntilNoEvents h fuel s = some (.ok s')) : ∃ s'', step h s' = .ok (false, s'') := by
  induction fuel generalizing s with
  | zero => simp [stepUntilNoEvents] at hrun
  | succ f ih =>
    simp only [stepUntilNoEvents] at hrun
    split at hrun
    · cases hrun
    · rename_i s1 hstep
      cases hrun
      exact ⟨s', step_of_events_nil h s' (step_false_events h s s' hstep)⟩
    · exact ih _ hrun


end Sim
end Anysystem
