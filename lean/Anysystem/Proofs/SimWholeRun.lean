import Anysystem.Proofs.SimRunThms
import Anysystem.Proofs.SimStepThms
import Anysystem.Proofs.SimWholeRunLemmas
/-!
# C08 / C07 — two more whole-run invariants of the simulator

* **what a crash discards stays discarded** (C08): the events from and to a node that are queued when it crashes can never be
  delivered afterwards — not after recovery, not after re-adding processes: they stay cancelled while queued and their ids are never
  issued again (`DeadIds`).
* **the timer contract on every process's event log** (C07, simulator side): along any run, a `TimerFired` is logged only for a name
  that is pending by the contract (set and neither fired nor cancelled since; `set_timer` on a pending name keeps one pending instance,
  `set_timer_once` on a pending name changes nothing), and the process's `pending` table is exactly the contract's pending set
  (`TimerInv`, `sim_timer_contract`).

`TimerInv` carries three clauses beyond the five it was first stated with, because those five are not inductive:
`timerLoc` (a live timer event goes from a node to itself and that node has its handler — otherwise `crash_node` of the *source*
node cancels a timer whose name stays in the table of a live node, and `recover_node` meets live timers of processes it has just
dropped), `upHandled` (handler registered iff the node is not flagged crashed — `send_local_message` tests the flag, delivery tests
the handler, `recover_node` tests the flag), `procHome` (a process entry is registered in `proc_nodes` — `add_process` tests
`proc_nodes` and would otherwise overwrite an entry with pending timers).

Proof architecture: `DStep` (every set of dead ids stays dead) and `TLe` (bookkeeping that neither queues, cancels nor pops a
timer event and logs only harmless entries) are closed under the primitives of the model and carried through `handleActions` →
`runHandler` → `on*` → `deliver` → `step` → `steps`; the three transitions that do move a timer (`setCore`: set / override,
`eraseCore`: cancel / fire) are reduced by `TimerInv.focus` to the one table entry and the one log they touch.
-/
namespace Anysystem

-- some statements carry hypotheses (`hf`, `[LawfulTime T]`) that their proofs do not need; they are kept as stated
set_option linter.unusedVariables false
set_option linter.unusedSectionVars false

variable {σ T : Type} [TimeOps T]

namespace Sim

/-! ## what a crash discards stays discarded -/

/-- none of the ids in `dead` can be delivered any more: those still queued are cancelled, and all of them are below the counter
    (no future event gets one of them) -/
structure DeadIds (s : Sim σ T) (dead : List Nat) : Prop where
  cancelled : ∀ e ∈ s.events, e.id ∈ dead → e.id ∈ s.canceled
  old : ∀ id ∈ dead, id < s.eventCount
  qwf : s.QueueWF

/-- the ids `crash_node` discards: everything queued from or to the node -/
def crashedIds (s : Sim σ T) (n : Nat) : List Nat := (s.events.filter (fun e => e.src == n || e.dst == n)).map (·.id)

theorem crashNode_dead (s s' : Sim σ T) (n : Nat) (hwf : s.QueueWF) (h : s.crashNode n = .ok s') :
    s'.DeadIds (s.crashedIds n) := by
  obtain ⟨hc, _, hev, _, _, _⟩ := crashNode_cancels s s' n h
  obtain ⟨nd, rest, _, hs'⟩ := crashNode_shape s s' n h
  have hec : s'.eventCount = s.eventCount := by rw [hs']
  refine ⟨?_, ?_, hwf.of_fields hev hec⟩
  · intro e _ hin
    unfold crashedIds at hin
    obtain ⟨x, hx, hxe⟩ := List.mem_map.1 hin
    rw [List.mem_filter] at hx
    rw [← hxe]
    refine hc x (hev ▸ hx.1) ?_
    simpa using hx.2
  · intro id hin
    obtain ⟨x, hx, rfl⟩ := List.mem_map.1 hin
    rw [hec]
    exact hwf.2 x (List.mem_filter.1 hx).1

/-- a dead id is never popped for delivery -/
theorem DeadIds.never_popped [LawfulTime T] {s s' : Sim σ T} {dead : List Nat} (hd : s.DeadIds dead) (e : QEv T) (fuel : Nat)
    (hf : s.events.length < fuel) (hpop : nextEvent fuel s = (some e, s')) : e.id ∉ dead := by
  obtain ⟨h1, h2, _⟩ := nextEvent_some_core fuel s s' e hpop
  exact fun hin => h2 (hd.cancelled e h1 hin)

/-- generic preservation: surviving events stay cancelled if they were, new events get ids from the counter on, the counter
    does not decrease -/
theorem DeadIds.of_frame {s s' : Sim σ T} {dead : List Nat} (hd : s.DeadIds dead)
    (hev : ∀ e ∈ s'.events, e ∈ s.events ∨ s.eventCount ≤ e.id)
    (hc : ∀ e ∈ s'.events, e.id ∈ s.canceled → e.id ∈ s'.canceled)
    (hec : s.eventCount ≤ s'.eventCount) (hq : s'.QueueWF) : s'.DeadIds dead where
  cancelled := by
    intro e he hdead
    rcases hev e he with h | h
    · exact hc e he (hd.cancelled e h hdead)
    · have := hd.old _ hdead; omega
  old := fun id h => Nat.lt_of_lt_of_le (hd.old id h) hec
  qwf := hq

/-- `s'` keeps every set of dead ids dead -/
def DStep (s s' : Sim σ T) : Prop := ∀ dead, s.DeadIds dead → s'.DeadIds dead

theorem DStep.refl (s : Sim σ T) : DStep s s := fun _ h => h

theorem DStep.trans {s s1 s2 : Sim σ T} (h1 : DStep s s1) (h2 : DStep s1 s2) : DStep s s2 := fun d h => h2 d (h1 d h)

theorem DStep.same {s s' : Sim σ T} (hev : s'.events = s.events) (hc : s'.canceled = s.canceled)
    (hec : s'.eventCount = s.eventCount) : DStep s s' :=
  fun _ hd => hd.of_frame (by rw [hev]; exact fun e h => .inl h) (by rw [hc]; exact fun _ _ h => h)
    (by rw [hec]; exact Nat.le_refl _) (hd.qwf.of_fields hev hec)

theorem DStep.updProc (s : Sim σ T) (n p : Nat) (f : SProc σ T → SProc σ T) : DStep s (s.updProc n p f) :=
  DStep.same (by simp) (by simp) (by simp)

theorem DStep.setNode (s : Sim σ T) (n : Nat) (nd : SNode σ T) : DStep s (s.setNode n nd) := DStep.same rfl rfl rfl

theorem DStep.log (s : Sim σ T) (x : SLog T) : DStep s (s.log x) := DStep.same rfl rfl rfl

theorem DStep.dropDraws (s : Sim σ T) (k : Nat) : DStep s { s with draws := s.draws.drop k } := DStep.same rfl rfl rfl

theorem DStep.cancelEvent (s : Sim σ T) (id : Nat) : DStep s (s.cancelEvent id) :=
  fun _ hd => hd.of_frame (fun e h => .inl h)
    (fun e _ h => by simp only [Sim.cancelEvent, mem_setInsert]; exact .inr h) (Nat.le_refl _) hd.qwf

theorem DStep.append {s s' : Sim σ T} (new : List (QEv T)) (k : Nat) (hev : s'.events = s.events ++ new)
    (hids : new.map (·.id) = (List.range k).map (s.eventCount + ·)) (hec : s'.eventCount = s.eventCount + k)
    (hc : s'.canceled = s.canceled) : DStep s s' := by
  intro dead hd
  refine hd.of_frame ?_ (by rw [hc]; exact fun _ _ h => h) (by omega) (hd.qwf.append new k hev hids hec)
  intro e he
  rw [hev, List.mem_append] at he
  rcases he with he | he
  · exact .inl he
  · right
    have : e.id ∈ new.map (·.id) := List.mem_map_of_mem (f := (·.id)) he
    rw [hids] at this
    obtain ⟨i, _, hie⟩ := List.mem_map.1 this
    omega

theorem DStep.addEvent (s : Sim σ T) (data : QData) (src dst : Nat) (d : T) : DStep s (s.addEvent data src dst d).1 :=
  DStep.append [⟨s.eventCount, TimeOps.add s.clock d, src, dst, data⟩] 1 rfl (by simp) rfl rfl

theorem DStep.sendMessage {s s' : Sim σ T} {m : Msg} {src dst tl : Nat} (hok : s.sendMessage m src dst tl = .ok s') :
    DStep s s' := by
  obtain ⟨new, k, hev, hids, hec, hc, _⟩ := sendMessage_shape hok
  exact DStep.append new k hev hids hec hc

theorem DStep.pop {fuel : Nat} {s s1 : Sim σ T} {o : Option (QEv T)} (hpop : nextEvent fuel s = (o, s1)) : DStep s s1 := by
  obtain ⟨_, _, _, h4, _, _, h7, _, _⟩ := nextEvent_frame fuel s s1 _ hpop
  obtain ⟨_, _, h3⟩ := nextEvent_frame2 fuel s s1 _ hpop
  intro dead hd
  exact hd.of_frame (fun e he => .inl (h7.subset he)) h3 (by omega) (hd.qwf.sublist h7 h4)

theorem DStep.then_updProc {s s1 : Sim σ T} (h : DStep s s1) (n p : Nat) (f : SProc σ T → SProc σ T) :
    DStep s (s1.updProc n p f) := h.trans (DStep.updProc s1 n p f)
theorem DStep.then_setNode {s s1 : Sim σ T} (h : DStep s s1) (n : Nat) (nd : SNode σ T) :
    DStep s (s1.setNode n nd) := h.trans (DStep.setNode s1 n nd)
theorem DStep.then_log {s s1 : Sim σ T} (h : DStep s s1) (x : SLog T) : DStep s (s1.log x) := h.trans (DStep.log s1 x)
theorem DStep.then_cancelEvent {s s1 : Sim σ T} (h : DStep s s1) (id : Nat) :
    DStep s (s1.cancelEvent id) := h.trans (DStep.cancelEvent s1 id)
theorem DStep.then_addEvent {s s1 : Sim σ T} (h : DStep s s1) (data : QData) (src dst : Nat) (d : T) :
    DStep s (s1.addEvent data src dst d).1 := h.trans (DStep.addEvent s1 data src dst d)

theorem handleActions_dstep (n p : Nat) (time : T) (acts : List Action) : ∀ (s s' : Sim σ T),
    handleActions n p time acts s = .ok s' → DStep s s' := by
  induction acts with
  | nil =>
    intro s s' h
    simp only [handleActions, Except.ok.injEq] at h
    subst h
    exact DStep.refl s
  | cons a rest ih =>
    intro s s' h
    have cont : ∀ s1 : Sim σ T, DStep s s1 → handleActions n p time rest s1 = .ok s' → DStep s s' :=
      fun s1 hr h1 => hr.trans (ih s1 s' h1)
    cases a with
    | send m dst =>
      simp only [handleActions] at h
      split at h
      · cases h
      · rename_i s1 hs1
        exact cont _ (((DStep.updProc s n p _).trans (DStep.sendMessage hs1)).then_updProc n p _) h
    | loc m =>
      simp only [handleActions] at h
      split at h
      · cases h
      · split at h
        · cases h
        · refine cont _ ?_ h
          apply DStep.then_setNode
          apply DStep.then_log
          exact DStep.updProc s n p _
    | set name delay once =>
      simp only [handleActions] at h
      split at h
      · cases h
      · split at h
        · cases h
        · split at h
          · split at h
            · exact cont _ (DStep.updProc s n p _) h
            · refine cont _ ?_ h
              apply DStep.then_log
              apply DStep.then_updProc
              apply DStep.then_addEvent
              apply DStep.then_cancelEvent
              exact DStep.updProc s n p _
          · refine cont _ ?_ h
            apply DStep.then_log
            apply DStep.then_updProc
            apply DStep.then_addEvent
            exact DStep.updProc s n p _
    | cancel name =>
      simp only [handleActions] at h
      split at h
      · cases h
      · split at h
        · cases h
        · split at h
          · refine cont _ ?_ h
            apply DStep.then_cancelEvent
            apply DStep.then_log
            apply DStep.then_updProc
            exact DStep.updProc s n p _
          · exact cont _ (DStep.updProc s n p _) h

theorem runHandler_dstep (h : SHandler σ T) (n p : Nat) (time : T) (i : Input) {s s' : Sim σ T}
    (hok : runHandler h n p time i s = .ok s') : DStep s s' := by
  cases hn : amGet? n s.nodes with
  | none => simp [Sim.runHandler, nodeOf, hn] at hok
  | some nd =>
    cases he : amGet? p nd.procs with
    | none => simp [Sim.runHandler, nodeOf, hn, he] at hok
    | some e =>
      obtain ⟨st', acts, used, _, hact⟩ := runHandler_ok h n p time i s s' hn he hok
      exact ((DStep.dropDraws s used).then_updProc n p _).trans (handleActions_dstep n p time acts _ s' hact)

theorem onMessage_dstep (h : SHandler σ T) (n mid p : Nat) (m : Msg) (src srcNode : Nat) {s s' : Sim σ T}
    (hok : onMessage h n mid p m src srcNode s = .ok s') : DStep s s' := by
  unfold Sim.onMessage at hok
  split at hok
  · cases hok
  · split at hok
    · cases hok
    · exact ((DStep.log s _).then_updProc n p _).trans (runHandler_dstep h n p _ _ hok)

theorem onTimer_dstep (h : SHandler σ T) (n p name : Nat) {s s' : Sim σ T}
    (hok : onTimer h n p name s = .ok s') : DStep s s' := by
  unfold Sim.onTimer at hok
  split at hok
  · cases hok
  · split at hok
    · cases hok
    · refine DStep.trans ?_ (runHandler_dstep h n p _ _ hok)
      split
      · apply DStep.then_log
        apply DStep.then_updProc
        exact DStep.updProc s n p _
      · exact DStep.updProc s n p _

theorem onLocal_dstep (h : SHandler σ T) (n p : Nat) (m : Msg) {s s' : Sim σ T}
    (hok : onLocal h n p m s = .ok s') : DStep s s' := by
  unfold Sim.onLocal at hok
  split at hok
  · cases hok
  · split at hok
    · cases hok
    · refine DStep.trans ?_ (runHandler_dstep h n p _ _ hok)
      apply DStep.then_updProc
      apply DStep.then_setNode
      exact DStep.log s _

theorem deliver_dstep (h : SHandler σ T) (e : QEv T) {s s' : Sim σ T} (hok : deliver h e s = .ok s') : DStep s s' := by
  unfold Sim.deliver at hok
  split at hok
  · cases hok; exact DStep.refl s
  · split at hok
    · exact onMessage_dstep h _ _ _ _ _ _ hok
    · exact onTimer_dstep h _ _ _ hok

theorem step_dstep (h : SHandler σ T) {s s' : Sim σ T} (b : Bool) (hok : s.step h = .ok (b, s')) : DStep s s' := by
  unfold Sim.step at hok
  split at hok
  · rename_i s1 heq
    cases hok
    exact DStep.pop heq
  · rename_i e s1 heq
    split at hok
    · cases hok
    · rename_i s2 hdel
      cases hok
      exact (DStep.pop heq).trans (deliver_dstep h e hdel)

theorem DeadIds.step [LawfulTime T] (h : SHandler σ T) {s s' : Sim σ T} {dead : List Nat} (b : Bool) (hd : s.DeadIds dead)
    (hok : s.step h = .ok (b, s')) : s'.DeadIds dead := step_dstep h b hok dead hd

theorem DeadIds.steps [LawfulTime T] (h : SHandler σ T) (k : Nat) {s s' : Sim σ T} {dead : List Nat} (b : Bool) (hd : s.DeadIds dead)
    (hok : s.steps h k = .ok (b, s')) : s'.DeadIds dead := by
  induction k generalizing s with
  | zero =>
    simp only [Sim.steps, Except.ok.injEq, Prod.mk.injEq] at hok
    obtain ⟨_, rfl⟩ := hok
    exact hd
  | succ k ih =>
    simp only [Sim.steps] at hok
    split at hok
    · cases hok
    · rename_i s1 hst
      cases hok
      exact hd.step h false hst
    · rename_i s1 hst
      exact ih (hd.step h true hst) hok

theorem DeadIds.sendLocal [LawfulTime T] (h : SHandler σ T) {s s' : Sim σ T} {dead : List Nat} (p : Nat) (m : Msg) (hd : s.DeadIds dead)
    (hok : s.sendLocal h p m = .ok s') : s'.DeadIds dead := by
  unfold Sim.sendLocal at hok
  split at hok
  · cases hok
  · split at hok
    · cases hok
    · split at hok
      · cases hok
      · exact onLocal_dstep h _ p m hok dead hd

theorem DeadIds.recoverNode {s s' : Sim σ T} {dead : List Nat} (n : Nat) (hd : s.DeadIds dead)
    (hok : s.recoverNode n = .ok s') : s'.DeadIds dead := by
  unfold Sim.recoverNode at hok
  split at hok
  · cases hok
  · split at hok
    · cases hok
    · cases hok
      refine (DStep.same (s := s) ?_ ?_ ?_) dead hd <;> rfl

theorem DeadIds.addProcess {s s' : Sim σ T} {dead : List Nat} (p n : Nat) (st : σ) (hd : s.DeadIds dead)
    (hok : s.addProcess p st n = .ok s') : s'.DeadIds dead := by
  unfold Sim.addProcess at hok
  split at hok
  · cases hok
  · dsimp only at hok
    split at hok
    · cases hok
    · cases hok
      refine (DStep.same (s := s) ?_ ?_ ?_) dead hd <;> rfl

theorem DeadIds.crashNode {s s' : Sim σ T} {dead : List Nat} (n : Nat) (hd : s.DeadIds dead)
    (hok : s.crashNode n = .ok s') : s'.DeadIds dead := by
  obtain ⟨_, _, hev, hcs, _, _⟩ := crashNode_cancels s s' n hok
  obtain ⟨nd, rest, _, hs'⟩ := crashNode_shape s s' n hok
  have hec : s'.eventCount = s.eventCount := by rw [hs']
  exact hd.of_frame (by rw [hev]; exact fun e h => .inl h) (fun e _ h => hcs _ h) (by omega) (hd.qwf.of_fields hev hec)

/-! ## the timer contract on the event logs -/

/-- the contract on one process's event log: the names pending after each entry; `none` = a firing that the contract forbids -/
def pcStep (pend : List Nat) : PEv → Option (List Nat)
  | .tset name _ _ => some (if pend.contains name then pend else pend ++ [name])
  | .tcancel name => some (pend.filter (· != name))
  | .tfired name => if pend.contains name then some (pend.filter (· != name)) else none
  | _ => some pend

def pcRun : List Nat → List PEv → Option (List Nat)
  | pend, [] => some pend
  | pend, e :: es => match pcStep pend e with
    | some pend' => pcRun pend' es
    | none => none

/-- queue, `pending` tables and event logs fit together -/
structure TimerInv (s : Sim σ T) : Prop where
  qwf : s.QueueWF
  cancWF : ∀ id ∈ s.canceled, id < s.eventCount
  /-- on a node with a handler a name is in the table, with this id, iff that live timer event is queued -/
  pendMap : ∀ n p e, n ∈ s.handlers → s.proc? n p = some e → ∀ name id,
    amGet? name e.pending = some id ↔ ∃ ev ∈ s.live, ev.id = id ∧ ev.data = .timer p name ∧ ev.dst = n
  /-- every live timer event belongs to an existing process on its (handler-owning) node -/
  timerHome : ∀ ev ∈ s.live, ∀ p name, ev.data = .timer p name → ev.dst ∈ s.handlers → ∃ e, s.proc? ev.dst p = some e
  /-- the event log is accepted by the contract, and on a node with a handler the contract's pending names are the table's -/
  contract : ∀ n p e, s.proc? n p = some e → ∃ pend, pcRun [] (e.log.map (·.ev)) = some pend ∧
    (n ∈ s.handlers → ∀ name, name ∈ pend ↔ (amGet? name e.pending).isSome)
  /-- (added) a live timer event is an event of a node to itself, and that node has its handler -/
  timerLoc : ∀ ev ∈ s.live, ∀ p name, ev.data = .timer p name → ev.src = ev.dst ∧ ev.dst ∈ s.handlers
  /-- (added) an existing node has its handler iff it is not flagged as crashed -/
  upHandled : ∀ n b, s.crashed? n = some b → (n ∈ s.handlers ↔ b = false)
  /-- (added) a process entry is registered in `proc_nodes` under its node -/
  procHome : ∀ n p e, s.proc? n p = some e → amGet? p s.procNodes = some n

/-! ### the contract on appended log entries -/

theorem pcRun_append (pend : List Nat) (l1 l2 : List PEv) :
    pcRun pend (l1 ++ l2) = (pcRun pend l1).bind (fun q => pcRun q l2) := by
  induction l1 generalizing pend with
  | nil => simp [pcRun]
  | cons x xs ih =>
    simp only [List.cons_append, pcRun]
    cases pcStep pend x with
    | none => rfl
    | some q => exact ih q

theorem pcRun_single (pend : List Nat) (x : PEv) : pcRun pend [x] = pcStep pend x := by
  simp only [pcRun]
  cases pcStep pend x <;> rfl

theorem pcRun_snoc (pend : List Nat) (l : List PEv) (x : PEv) :
    pcRun pend (l ++ [x]) = (pcRun pend l).bind (fun q => pcStep q x) := by
  rw [pcRun_append]
  congr 1
  funext q
  exact pcRun_single q x

/-- an event-log entry that, for a process whose table is `pending`, leaves the contract's pending set alone: anything but a
    firing, a `set_timer` of a name that is not pending, or a `cancel_timer` of one that is -/
def Harmless (pending : List (Nat × Nat)) : PEv → Prop
  | .tset name _ _ => (amGet? name pending).isSome = true
  | .tcancel name => amGet? name pending = none
  | .tfired _ => False
  | _ => True

theorem pcRun_harmless (pending : List (Nat × Nat)) (evs : List PEv) (hev : ∀ x ∈ evs, Harmless pending x)
    (pend : List Nat) :
    ∃ pend', pcRun pend evs = some pend' ∧
      ((∀ k, k ∈ pend ↔ (amGet? k pending).isSome = true) → pend' = pend) := by
  induction evs generalizing pend with
  | nil => exact ⟨pend, rfl, fun _ => rfl⟩
  | cons x xs ih =>
    have hx := hev x List.mem_cons_self
    have hxs : ∀ y ∈ xs, Harmless pending y := fun y hy => hev y (List.mem_cons_of_mem _ hy)
    have key : ∃ q, pcStep pend x = some q ∧ ((∀ k, k ∈ pend ↔ (amGet? k pending).isSome = true) → q = pend) := by
      cases x with
      | tset name d o =>
        refine ⟨_, rfl, fun hiff => ?_⟩
        have : name ∈ pend := (hiff name).2 hx
        simp [this]
      | tcancel name =>
        refine ⟨_, rfl, fun hiff => ?_⟩
        have hnot : name ∉ pend := by
          intro hin
          have h1 := (hiff name).1 hin
          have h2 : amGet? name pending = none := hx
          rw [h2] at h1
          cases h1
        rw [List.filter_eq_self]
        intro a ha
        simp only [bne_iff_ne, ne_eq]
        rintro rfl
        exact hnot ha
      | tfired name => exact absurd hx id
      | sent m a b => exact ⟨pend, rfl, fun _ => rfl⟩
      | recv m a b => exact ⟨pend, rfl, fun _ => rfl⟩
      | lsent m => exact ⟨pend, rfl, fun _ => rfl⟩
      | lrecv m => exact ⟨pend, rfl, fun _ => rfl⟩
    obtain ⟨q, hq, hqe⟩ := key
    obtain ⟨pend', hp', hpe⟩ := ih hxs q
    refine ⟨pend', by simp only [pcRun, hq]; exact hp', fun hiff => ?_⟩
    have := hqe hiff
    subst this
    exact hpe hiff

/-! ### bookkeeping that leaves timers alone: `TLe` -/

/-- the entry of a process before and after bookkeeping: same `pending` table, the log grew by harmless entries -/
structure PSame (o o' : Option (SProc σ T)) : Prop where
  none_iff : o' = none ↔ o = none
  some : ∀ e e', o = some e → o' = some e' → e'.pending = e.pending ∧
    ∃ evs, e'.log.map (·.ev) = e.log.map (·.ev) ++ evs ∧ ∀ x ∈ evs, Harmless e.pending x

theorem PSame.refl (o : Option (SProc σ T)) : PSame o o :=
  ⟨Iff.rfl, fun e e' h h' => by rw [h] at h'; cases h'; exact ⟨rfl, [], by simp, by simp⟩⟩

theorem PSame.trans {o o1 o2 : Option (SProc σ T)} (h1 : PSame o o1) (h2 : PSame o1 o2) : PSame o o2 := by
  refine ⟨h2.none_iff.trans h1.none_iff, ?_⟩
  intro e e2 he he2
  cases ho1 : o1 with
  | none => rw [h1.none_iff.1 ho1] at he; cases he
  | some e1 =>
    obtain ⟨hp1, evs1, hl1, hh1⟩ := h1.some e e1 he ho1
    obtain ⟨hp2, evs2, hl2, hh2⟩ := h2.some e1 e2 ho1 he2
    refine ⟨hp2.trans hp1, evs1 ++ evs2, by rw [hl2, hl1, List.append_assoc], ?_⟩
    intro x hx
    rcases List.mem_append.1 hx with hx | hx
    · exact hh1 x hx
    · rw [← hp1]; exact hh2 x hx

/-- `s'` arises from `s` by bookkeeping that neither queues, cancels nor pops a timer event, keeps handlers, process table and
    crash flags, and appends only harmless entries to event logs -/
structure TLe (s s' : Sim σ T) : Prop where
  qwf : s.QueueWF → s'.QueueWF
  cancWF : (∀ id ∈ s.canceled, id < s.eventCount) → ∀ id ∈ s'.canceled, id < s'.eventCount
  timers : ∀ x q name, x.data = .timer q name → (x ∈ s'.live ↔ x ∈ s.live)
  handlers : s'.handlers = s.handlers
  procNodes : s'.procNodes = s.procNodes
  crashed : ∀ m, s'.crashed? m = s.crashed? m
  procs : ∀ n p, PSame (s.proc? n p) (s'.proc? n p)

theorem TLe.refl (s : Sim σ T) : TLe s s :=
  ⟨id, id, fun _ _ _ _ => Iff.rfl, rfl, rfl, fun _ => rfl, fun _ _ => PSame.refl _⟩

theorem TLe.trans {s s1 s2 : Sim σ T} (h1 : TLe s s1) (h2 : TLe s1 s2) : TLe s s2 :=
  ⟨fun h => h2.qwf (h1.qwf h), fun h => h2.cancWF (h1.cancWF h),
   fun x q name hx => (h2.timers x q name hx).trans (h1.timers x q name hx),
   h2.handlers.trans h1.handlers, h2.procNodes.trans h1.procNodes, fun m => (h2.crashed m).trans (h1.crashed m),
   fun n p => (h1.procs n p).trans (h2.procs n p)⟩

/-- queue, cancellation set, counter, handlers, process table untouched -/
theorem TLe.same {s s' : Sim σ T} (hev : s'.events = s.events) (hc : s'.canceled = s.canceled)
    (hec : s'.eventCount = s.eventCount) (hh : s'.handlers = s.handlers) (hpn : s'.procNodes = s.procNodes)
    (hcr : ∀ m, s'.crashed? m = s.crashed? m) (hp : ∀ n p, PSame (s.proc? n p) (s'.proc? n p)) : TLe s s' :=
  ⟨fun h => h.of_fields hev hec, fun h => by rw [hc, hec]; exact h,
   fun x _ _ _ => by rw [live_congr hev hc], hh, hpn, hcr, hp⟩

theorem TLe.updProc (s : Sim σ T) (n p : Nat) (f : SProc σ T → SProc σ T)
    (hf : ∀ e, s.proc? n p = some e → (f e).pending = e.pending ∧
      ∃ evs, (f e).log.map (·.ev) = e.log.map (·.ev) ++ evs ∧ ∀ x ∈ evs, Harmless e.pending x) :
    TLe s (s.updProc n p f) := by
  refine TLe.same (by simp) (by simp) (by simp) (by simp) (by simp) (by simp) ?_
  intro n' p'
  rw [proc?_updProc]
  split
  · rename_i h
    obtain ⟨rfl, rfl⟩ := h
    cases he : s.proc? n' p' with
    | none => exact PSame.refl _
    | some e =>
      refine ⟨by simp, ?_⟩
      intro e0 e1 h0 h1
      cases h0
      simp only [Option.map_some, Option.some.injEq] at h1
      subst h1
      exact hf _ he
  · exact PSame.refl _

theorem TLe.setNode_same (s : Sim σ T) (n : Nat) {nd nd' : SNode σ T} (hn : amGet? n s.nodes = some nd)
    (hp : nd'.procs = nd.procs) (hc : nd'.crashed = nd.crashed) : TLe s (s.setNode n nd') :=
  TLe.same rfl rfl rfl rfl rfl (crashed?_setNode_same s n hn hc)
    (fun n' p' => by rw [proc?_setNode_sameProcs s n hn hp]; exact PSame.refl _)

theorem TLe.log (s : Sim σ T) (x : SLog T) : TLe s (s.log x) :=
  TLe.same rfl rfl rfl rfl rfl (fun _ => rfl) (fun _ _ => PSame.refl _)

theorem TLe.dropDraws (s : Sim σ T) (k : Nat) : TLe s { s with draws := s.draws.drop k } :=
  TLe.same rfl rfl rfl rfl rfl (fun _ => rfl) (fun _ _ => PSame.refl _)

theorem TLe.sendMessage {s s' : Sim σ T} {m : Msg} {src dst tl : Nat} (hok : s.sendMessage m src dst tl = .ok s') :
    TLe s s' := by
  obtain ⟨new, k, hev, hids, hec, hc, hnodes, hh, hpn, hnew⟩ := sendMessage_shape hok
  refine ⟨fun hq => hq.append new k hev hids hec, ?_, ?_, hh, hpn, crashed?_of_nodes hnodes, fun n p => ?_⟩
  · intro hcw id hid
    rw [hc] at hid
    have := hcw id hid
    omega
  · intro x q name hx
    rw [mem_live, mem_live, hev, hc, List.mem_append]
    constructor
    · rintro ⟨h1 | h1, h2⟩
      · exact ⟨h1, h2⟩
      · exact absurd hx (hnew x h1 q name)
    · rintro ⟨h1, h2⟩
      exact ⟨.inl h1, h2⟩
  · rw [proc?_of_nodes hnodes]
    exact PSame.refl _

/-- `next_event`, unless it pops a timer event -/
theorem TLe.pop {fuel : Nat} {s s1 : Sim σ T} {o : Option (QEv T)} (hq : s.QueueWF) (hpop : nextEvent fuel s = (o, s1))
    (hmsg : ∀ e, o = some e → ∀ q name, e.data ≠ .timer q name) : TLe s s1 := by
  obtain ⟨_, _, _, h4, h5, h6, h7, _, h9⟩ := nextEvent_frame fuel s s1 _ hpop
  obtain ⟨g1, g2, _⟩ := nextEvent_frame2 fuel s s1 _ hpop
  refine ⟨fun h => h.sublist h7 h4, fun h id hid => by rw [h4]; exact h id (g2 id hid), ?_, h6, g1,
    crashed?_of_nodes h5, fun n p => by rw [proc?_of_nodes h5]; exact PSame.refl _⟩
  intro x q name hx
  cases o with
  | none =>
    have : s1.live = s.live := h9 rfl
    rw [this]
  | some e =>
    rw [mem_live_pop hpop]
    constructor
    · exact fun h => h.1
    · intro hxl
      refine ⟨hxl, fun hid => ?_⟩
      have := live_eq_of_id hq hxl (popped_mem_live hpop) hid
      subst this
      exact hmsg x rfl q name hx

theorem TLe.then_updProc {s s1 : Sim σ T} (h : TLe s s1) (n p : Nat) (f : SProc σ T → SProc σ T)
    (hf : ∀ e, s1.proc? n p = some e → (f e).pending = e.pending ∧
      ∃ evs, (f e).log.map (·.ev) = e.log.map (·.ev) ++ evs ∧ ∀ x ∈ evs, Harmless e.pending x) :
    TLe s (s1.updProc n p f) := h.trans (TLe.updProc s1 n p f hf)
theorem TLe.then_log {s s1 : Sim σ T} (h : TLe s s1) (x : SLog T) : TLe s (s1.log x) := h.trans (TLe.log s1 x)

/-- bookkeeping keeps the invariant -/
theorem TimerInv.of_le {s s' : Sim σ T} (hi : s.TimerInv) (hle : TLe s s') : s'.TimerInv := by
  have back : ∀ n p e', s'.proc? n p = some e' → ∃ e, s.proc? n p = some e ∧ e'.pending = e.pending ∧
      ∃ evs, e'.log.map (·.ev) = e.log.map (·.ev) ++ evs ∧ ∀ x ∈ evs, Harmless e.pending x := by
    intro n p e' he'
    have hps := hle.procs n p
    cases he : s.proc? n p with
    | none => have := hps.none_iff.2 he; rw [he'] at this; cases this
    | some e => exact ⟨e, rfl, hps.some e e' he he'⟩
  have fwd : ∀ n p e, s.proc? n p = some e → ∃ e', s'.proc? n p = some e' := by
    intro n p e he
    cases he' : s'.proc? n p with
    | none => have := (hle.procs n p).none_iff.1 he'; rw [he] at this; cases this
    | some e' => exact ⟨e', rfl⟩
  exact {
    qwf := hle.qwf hi.qwf
    cancWF := hle.cancWF hi.cancWF
    pendMap := by
      intro n p e' hn he' name id
      obtain ⟨e, he, hpe, _⟩ := back n p e' he'
      rw [hle.handlers] at hn
      rw [hpe, hi.pendMap n p e hn he name id]
      constructor
      · rintro ⟨ev, hev, h1, h2, h3⟩
        exact ⟨ev, (hle.timers ev p name h2).2 hev, h1, h2, h3⟩
      · rintro ⟨ev, hev, h1, h2, h3⟩
        exact ⟨ev, (hle.timers ev p name h2).1 hev, h1, h2, h3⟩
    timerHome := by
      intro ev hev p name hd hh
      rw [hle.handlers] at hh
      obtain ⟨e, he⟩ := hi.timerHome ev ((hle.timers ev p name hd).1 hev) p name hd hh
      exact fwd _ _ e he
    contract := by
      intro n p e' he'
      obtain ⟨e, he, hpe, evs, hlog, hharm⟩ := back n p e' he'
      obtain ⟨pend, hrun, hiff⟩ := hi.contract n p e he
      obtain ⟨pend', hrun', hpe'⟩ := pcRun_harmless e.pending evs hharm pend
      refine ⟨pend', by rw [hlog, pcRun_append, hrun]; exact hrun', ?_⟩
      intro hn name
      rw [hle.handlers] at hn
      rw [hpe' (hiff hn), hpe]
      exact hiff hn name
    timerLoc := by
      intro ev hev p name hd
      rw [hle.handlers]
      exact hi.timerLoc ev ((hle.timers ev p name hd).1 hev) p name hd
    upHandled := by
      intro n b hb
      rw [hle.crashed] at hb
      rw [hle.handlers]
      exact hi.upHandled n b hb
    procHome := by
      intro n p e' he'
      obtain ⟨e, he, _⟩ := back n p e' he'
      rw [hle.procNodes]
      exact hi.procHome n p e he }

/-! ### a change of one timer of one process -/

/-- the invariant after a change that concerns only the timer `nm` of process `p` on node `n` (which has its handler): all
    that is left to check is that timer's table entry against the queue, and the contract on the process's log -/
theorem TimerInv.focus {s s' : Sim σ T} (hi : s.TimerInv) {n p nm : Nat} {e e' : SProc σ T}
    (hn : n ∈ s.handlers) (he : s.proc? n p = some e) (he' : s'.proc? n p = some e')
    (hq : s'.QueueWF) (hcw : ∀ i ∈ s'.canceled, i < s'.eventCount)
    (hh : s'.handlers = s.handlers) (hpn : s'.procNodes = s.procNodes) (hcr : ∀ m, s'.crashed? m = s.crashed? m)
    (hoth : Oth n p s s')
    (hlive : ∀ y q k, y.data = .timer q k → ¬(y.dst = n ∧ q = p ∧ k = nm) → (y ∈ s'.live ↔ y ∈ s.live))
    (hpend : ∀ k, k ≠ nm → amGet? k e'.pending = amGet? k e.pending)
    (hpm : ∀ id, amGet? nm e'.pending = some id ↔ ∃ ev ∈ s'.live, ev.id = id ∧ ev.data = .timer p nm ∧ ev.dst = n)
    (hsrc : ∀ ev ∈ s'.live, ev.data = .timer p nm → ev.dst = n → ev.src = ev.dst)
    (hct : ∃ pend, pcRun [] (e'.log.map (·.ev)) = some pend ∧ ∀ k, k ∈ pend ↔ (amGet? k e'.pending).isSome) :
    s'.TimerInv where
  qwf := hq
  cancWF := hcw
  pendMap := by
    intro n' p' e'' hn' he'' name id
    rw [hh] at hn'
    by_cases hnp : n' = n ∧ p' = p
    · obtain ⟨rfl, rfl⟩ := hnp
      rw [he'] at he''
      cases he''
      by_cases hk : name = nm
      · subst hk
        exact hpm id
      · rw [hpend name hk, hi.pendMap n' p' e hn he name id]
        constructor
        · rintro ⟨ev, hev, h1, h2, h3⟩
          exact ⟨ev, (hlive ev p' name h2 (fun h => hk h.2.2)).2 hev, h1, h2, h3⟩
        · rintro ⟨ev, hev, h1, h2, h3⟩
          exact ⟨ev, (hlive ev p' name h2 (fun h => hk h.2.2)).1 hev, h1, h2, h3⟩
    · rw [hoth n' p' hnp] at he''
      rw [hi.pendMap n' p' e'' hn' he'' name id]
      constructor
      · rintro ⟨ev, hev, h1, h2, h3⟩
        exact ⟨ev, (hlive ev p' name h2 (fun h => hnp ⟨h3 ▸ h.1, h.2.1⟩)).2 hev, h1, h2, h3⟩
      · rintro ⟨ev, hev, h1, h2, h3⟩
        exact ⟨ev, (hlive ev p' name h2 (fun h => hnp ⟨h3 ▸ h.1, h.2.1⟩)).1 hev, h1, h2, h3⟩
  timerHome := by
    intro ev hev q k hd hdst
    by_cases hnp : ev.dst = n ∧ q = p
    · obtain ⟨h1, rfl⟩ := hnp
      rw [h1]
      exact ⟨e', he'⟩
    · have hev' := (hlive ev q k hd (fun h => hnp ⟨h.1, h.2.1⟩)).1 hev
      rw [hh] at hdst
      obtain ⟨e0, he0⟩ := hi.timerHome ev hev' q k hd hdst
      exact ⟨e0, by rw [hoth _ _ hnp]; exact he0⟩
  contract := by
    intro n' p' e'' he''
    by_cases hnp : n' = n ∧ p' = p
    · obtain ⟨rfl, rfl⟩ := hnp
      rw [he'] at he''
      cases he''
      obtain ⟨pend, h1, h2⟩ := hct
      exact ⟨pend, h1, fun _ => h2⟩
    · rw [hoth n' p' hnp] at he''
      rw [hh]
      exact hi.contract n' p' e'' he''
  timerLoc := by
    intro ev hev q k hd
    rw [hh]
    by_cases hx : ev.dst = n ∧ q = p ∧ k = nm
    · obtain ⟨h1, rfl, rfl⟩ := hx
      exact ⟨hsrc ev hev hd h1, by rw [h1]; exact hn⟩
    · exact hi.timerLoc ev ((hlive ev q k hd hx).1 hev) q k hd
  upHandled := by
    intro m b hb
    rw [hcr] at hb
    rw [hh]
    exact hi.upHandled m b hb
  procHome := by
    intro n' p' e'' he''
    rw [hpn]
    by_cases hnp : n' = n ∧ p' = p
    · obtain ⟨rfl, rfl⟩ := hnp
      exact hi.procHome _ _ e he
    · rw [hoth n' p' hnp] at he''
      exact hi.procHome _ _ e'' he''

/-- `set_timer` / `set_timer_once` that queues an event: the name's old event (if the name is pending) is cancelled, the new
    one is queued and entered in the table, `tset` is logged -/
theorem TimerInv.setCore {s s' : Sim σ T} (hi : s.TimerInv) {n p nm : Nat} {e e' : SProc σ T} (t : T) (d : Nat) (once : Bool)
    (hn : n ∈ s.handlers) (he : s.proc? n p = some e) (he' : s'.proc? n p = some e')
    (hev : s'.events = s.events ++ [⟨s.eventCount, t, n, n, .timer p nm⟩])
    (hec : s'.eventCount = s.eventCount + 1)
    (hc : ∀ id, id ∈ s'.canceled ↔ id ∈ s.canceled ∨ amGet? nm e.pending = some id)
    (hh : s'.handlers = s.handlers) (hpn : s'.procNodes = s.procNodes) (hcr : ∀ m, s'.crashed? m = s.crashed? m)
    (hoth : Oth n p s s')
    (hlog : e'.log.map (·.ev) = e.log.map (·.ev) ++ [.tset nm d once])
    (hpend : ∀ k, amGet? k e'.pending = if k = nm then some s.eventCount else amGet? k e.pending) : s'.TimerInv := by
  have hold : ∀ id, amGet? nm e.pending = some id → ∃ ev ∈ s.live, ev.id = id ∧ ev.data = .timer p nm ∧ ev.dst = n :=
    fun id h => (hi.pendMap n p e hn he nm id).1 h
  have hlt : ∀ ev ∈ s.live, ev.id < s.eventCount := fun ev hev => hi.qwf.2 ev ((mem_live s ev).1 hev).1
  have hnew : ∀ y, y ∈ s'.live ↔
      (y ∈ s.live ∧ amGet? nm e.pending ≠ some y.id) ∨ y = ⟨s.eventCount, t, n, n, .timer p nm⟩ := by
    intro y
    rw [mem_live, mem_live, hev, hc, List.mem_append, List.mem_singleton]
    constructor
    · rintro ⟨h1 | h1, h2⟩
      · exact .inl ⟨⟨h1, fun h => h2 (.inl h)⟩, fun h => h2 (.inr h)⟩
      · exact .inr h1
    · rintro (⟨⟨h1, h2⟩, h3⟩ | rfl)
      · exact ⟨.inl h1, fun h => h.elim h2 h3⟩
      · refine ⟨.inr rfl, ?_⟩
        rintro (h | h)
        · exact absurd (hi.cancWF _ h) (Nat.lt_irrefl _)
        · obtain ⟨ev, hev, hid, _⟩ := hold _ h
          have := hlt ev hev
          simp only at hid
          omega
  refine hi.focus (nm := nm) hn he he' (hi.qwf.append [_] 1 hev (by simp) hec) ?_ hh hpn hcr hoth ?_ ?_ ?_ ?_ ?_
  · intro i hi'
    rw [hec]
    rcases (hc i).1 hi' with h | h
    · have := hi.cancWF i h
      omega
    · obtain ⟨ev, hev, hid, _⟩ := hold i h
      have := hlt ev hev
      omega
  · intro y q k hd hx
    rw [hnew]
    constructor
    · rintro (⟨h1, _⟩ | rfl)
      · exact h1
      · simp only [QData.timer.injEq] at hd
        exact absurd ⟨rfl, hd.1.symm, hd.2.symm⟩ hx
    · intro hy
      refine .inl ⟨hy, fun h => ?_⟩
      obtain ⟨ev, hev, hid, hdat, hdst⟩ := hold _ h
      have := live_eq_of_id hi.qwf hev hy hid
      subst this
      rw [hd] at hdat
      simp only [QData.timer.injEq] at hdat
      exact hx ⟨hdst, hdat.1, hdat.2⟩
  · intro k hk
    rw [hpend k, if_neg hk]
  · intro id
    rw [hpend nm, if_pos rfl]
    constructor
    · intro h
      cases h
      exact ⟨_, (hnew _).2 (.inr rfl), rfl, rfl, rfl⟩
    · rintro ⟨ev, hev, h1, h2, h3⟩
      rcases (hnew ev).1 hev with ⟨hl, hne⟩ | rfl
      · exact absurd ((hi.pendMap n p e hn he nm ev.id).2 ⟨ev, hl, rfl, h2, h3⟩) hne
      · rw [← h1]
  · intro ev hev hd _
    rcases (hnew ev).1 hev with ⟨hl, _⟩ | rfl
    · exact (hi.timerLoc ev hl p nm hd).1
    · rfl
  · obtain ⟨pend, hrun, hiff⟩ := hi.contract n p e he
    refine ⟨if pend.contains nm then pend else pend ++ [nm], ?_, ?_⟩
    · rw [hlog, pcRun_snoc, hrun]
      rfl
    · intro k
      rw [hpend k]
      have hk' := hiff hn k
      by_cases hk : k = nm
      · subst hk
        simp only [if_true, Option.isSome_some, iff_true]
        split
        · rename_i hc'
          simpa using hc'
        · simp
      · simp only [if_neg hk]
        rw [← hk']
        split
        · rfl
        · simp [hk]

/-- a pending timer goes away — cancelled (`x = tcancel`) or fired (`x = tfired`): its event leaves the live events, the name
    leaves the table, `x` is logged -/
theorem TimerInv.eraseCore {s s' : Sim σ T} (hi : s.TimerInv) {n p nm id : Nat} {e e' : SProc σ T} (x : PEv)
    (hx : x = .tcancel nm ∨ x = .tfired nm)
    (hn : n ∈ s.handlers) (he : s.proc? n p = some e) (he' : s'.proc? n p = some e')
    (hid : amGet? nm e.pending = some id)
    (hq : s'.QueueWF) (hcw : ∀ i ∈ s'.canceled, i < s'.eventCount)
    (hlv : ∀ y, y ∈ s'.live ↔ y ∈ s.live ∧ y.id ≠ id)
    (hh : s'.handlers = s.handlers) (hpn : s'.procNodes = s.procNodes) (hcr : ∀ m, s'.crashed? m = s.crashed? m)
    (hoth : Oth n p s s')
    (hlog : e'.log.map (·.ev) = e.log.map (·.ev) ++ [x])
    (hpend : ∀ k, amGet? k e'.pending = if k = nm then none else amGet? k e.pending) : s'.TimerInv := by
  obtain ⟨ev0, hev0, hid0, hdat0, hdst0⟩ := (hi.pendMap n p e hn he nm id).1 hid
  refine hi.focus (nm := nm) hn he he' hq hcw hh hpn hcr hoth ?_ ?_ ?_ ?_ ?_
  · intro y q k hd hxx
    rw [hlv]
    constructor
    · exact fun h => h.1
    · intro hy
      refine ⟨hy, fun h => ?_⟩
      have := live_eq_of_id hi.qwf hev0 hy (hid0.trans h.symm)
      subst this
      rw [hd] at hdat0
      simp only [QData.timer.injEq] at hdat0
      exact hxx ⟨hdst0, hdat0.1, hdat0.2⟩
  · intro k hk
    rw [hpend k, if_neg hk]
  · intro i
    rw [hpend nm, if_pos rfl]
    constructor
    · intro h
      cases h
    · rintro ⟨ev, hev, h1, h2, h3⟩
      obtain ⟨hl, hne⟩ := (hlv ev).1 hev
      have := (hi.pendMap n p e hn he nm ev.id).2 ⟨ev, hl, rfl, h2, h3⟩
      rw [hid] at this
      cases this
      exact absurd rfl hne
  · intro ev hev hd _
    exact (hi.timerLoc ev ((hlv ev).1 hev).1 p nm hd).1
  · obtain ⟨pend, hrun, hiff⟩ := hi.contract n p e he
    have hmem : nm ∈ pend := (hiff hn nm).2 (by rw [hid]; rfl)
    refine ⟨pend.filter (· != nm), ?_, ?_⟩
    · rw [hlog, pcRun_snoc, hrun]
      rcases hx with rfl | rfl
      · rfl
      · simp [pcStep, hmem]
    · intro k
      rw [hpend k, List.mem_filter]
      have hk' := hiff hn k
      by_cases hk : k = nm
      · subst hk
        simp
      · simp [hk, hk']

/-! ### handler runs -/

/-- `handle_process_actions` on a node with a handler keeps the invariant -/
theorem TimerInv.handleActions (n p : Nat) (time : T) (acts : List Action) : ∀ (s s' : Sim σ T), s.TimerInv →
    n ∈ s.handlers → handleActions n p time acts s = .ok s' → s'.TimerInv := by
  induction acts with
  | nil =>
    intro s s' hi _ h
    simp only [Sim.handleActions, Except.ok.injEq] at h
    subst h
    exact hi
  | cons a rest ih =>
    intro s s' hi hn h
    have cont : ∀ s1 : Sim σ T, TLe s s1 → Sim.handleActions n p time rest s1 = .ok s' → s'.TimerInv :=
      fun s1 hle h1 => ih s1 s' (hi.of_le hle) (by rw [hle.handlers]; exact hn) h1
    cases a with
    | send m dst =>
      simp only [Sim.handleActions] at h
      split at h
      · cases h
      · rename_i s1 hs1
        refine cont _ ?_ h
        refine TLe.then_updProc ?_ n p _ (fun e _ => ⟨rfl, [], by simp, by simp⟩)
        refine TLe.trans ?_ (TLe.sendMessage hs1)
        exact TLe.updProc s n p _ (fun e _ => ⟨rfl, [.sent m p dst], by simp, by simp [Harmless]⟩)
    | loc m =>
      simp only [Sim.handleActions] at h
      split at h
      · cases h
      · split at h
        · cases h
        · rename_i nd2 hnd2
          refine cont _ ?_ h
          refine TLe.trans ?_ (TLe.setNode_same _ n (nodeOf_ok hnd2) rfl rfl)
          apply TLe.then_log
          exact TLe.updProc s n p _ (fun e _ => ⟨rfl, [.lsent m], by simp, by simp [Harmless]⟩)
    | set name delay once =>
      simp only [Sim.handleActions] at h
      split at h
      · cases h
      · rename_i nd hnd
        split at h
        · cases h
        · rename_i e1 he1
          obtain ⟨e0, he0, rfl⟩ := proc?_updProc_self (proc?_of_lookup hnd he1)
          split at h
          · rename_i oldId hold
            have hold' : amGet? name e0.pending = some oldId := hold
            split at h
            · -- `set_timer_once` on a pending name: only the log entry
              refine cont _ (TLe.updProc s n p _ ?_) h
              intro e he
              rw [he0] at he
              cases he
              exact ⟨rfl, [.tset name delay once], by simp, by simp [Harmless, hold']⟩
            · -- `set_timer` on a pending name: the old event is cancelled, a new one queued
              refine ih _ s' ?_ (by simpa [log, addEvent, cancelEvent] using hn) h
              refine hi.setCore (e := e0) (nm := name) (TimeOps.add s.clock (handleActions.delayOf delay)) delay once
                hn he0 (e' := ?e') ?he' ?hev ?hec ?hc ?hh ?hpn ?hcr ?hoth ?hlog ?hpend
              case he' =>
                rw [proc?_log, proc?_updProc, if_pos ⟨rfl, rfl⟩, proc?_addEvent, proc?_cancelEvent, proc?_updProc,
                  if_pos ⟨rfl, rfl⟩, he0]
                rfl
              case hev => simp [log, addEvent, cancelEvent]
              case hec => simp [log, addEvent, cancelEvent]
              case hc =>
                intro id
                simp only [log, updProc_canceled, addEvent, cancelEvent, mem_setInsert, hold', Option.some.injEq]
                constructor
                · rintro (h | h)
                  · exact .inr h.symm
                  · exact .inl h
                · rintro (h | h)
                  · exact .inr h
                  · exact .inl h.symm
              case hh => simp [log, addEvent, cancelEvent]
              case hpn => simp [log, addEvent, cancelEvent]
              case hcr =>
                intro m
                simp only [crashed?_log, crashed?_updProc, crashed?_addEvent, crashed?_cancelEvent]
              case hoth =>
                apply Oth.then_log
                apply Oth.then_updProc
                apply Oth.then_addEvent
                apply Oth.then_cancelEvent
                exact Oth.updProc n p s _
              case hlog => simp
              case hpend =>
                intro k
                simp only [amGet?_amInsert]
                simp [addEvent, cancelEvent]
          · rename_i hnone
            have hnone' : amGet? name e0.pending = none := hnone
            -- the name is not pending: a new event is queued
            refine ih _ s' ?_ (by simpa [log, addEvent] using hn) h
            refine hi.setCore (e := e0) (nm := name) (TimeOps.add s.clock (handleActions.delayOf delay)) delay once
              hn he0 (e' := ?e2') ?he' ?hev ?hec ?hc ?hh ?hpn ?hcr ?hoth ?hlog ?hpend
            case he' =>
              rw [proc?_log, proc?_updProc, if_pos ⟨rfl, rfl⟩, proc?_addEvent, proc?_updProc,
                if_pos ⟨rfl, rfl⟩, he0]
              rfl
            case hev => simp [log, addEvent]
            case hec => simp [log, addEvent]
            case hc =>
              intro id
              simp [log, addEvent, hnone']
            case hh => simp [log, addEvent]
            case hpn => simp [log, addEvent]
            case hcr =>
              intro m
              simp only [crashed?_log, crashed?_updProc, crashed?_addEvent]
            case hoth =>
              apply Oth.then_log
              apply Oth.then_updProc
              apply Oth.then_addEvent
              exact Oth.updProc n p s _
            case hlog => simp
            case hpend =>
              intro k
              simp only [amGet?_amInsert]
              simp [addEvent]
    | cancel name =>
      simp only [Sim.handleActions] at h
      split at h
      · cases h
      · rename_i nd hnd
        split at h
        · cases h
        · rename_i e1 he1
          obtain ⟨e0, he0, rfl⟩ := proc?_updProc_self (proc?_of_lookup hnd he1)
          split at h
          · rename_i id hid
            have hid' : amGet? name e0.pending = some id := hid
            obtain ⟨ev0, hev0, hid0, _⟩ := (hi.pendMap n p e0 hn he0 name id).1 hid'
            refine ih _ s' ?_ (by simpa [log, cancelEvent] using hn) h
            refine hi.eraseCore (e := e0) (nm := name) (id := id) (.tcancel name) (.inl rfl) hn he0 (e' := ?e3') ?he' hid'
              ?hq ?hcw ?hlv ?hh ?hpn ?hcr ?hoth ?hlog ?hpend
            case he' =>
              rw [proc?_cancelEvent, proc?_log, proc?_updProc, if_pos ⟨rfl, rfl⟩, proc?_updProc, if_pos ⟨rfl, rfl⟩, he0]
              rfl
            case hq => exact hi.qwf.of_fields (by simp [log, cancelEvent]) (by simp [log, cancelEvent])
            case hcw =>
              intro i hi'
              simp only [cancelEvent, log, updProc_canceled, updProc_eventCount, mem_setInsert] at hi' ⊢
              rcases hi' with rfl | hi'
              · rw [← hid0]
                exact hi.qwf.2 ev0 ((mem_live s ev0).1 hev0).1
              · exact hi.cancWF i hi'
            case hlv =>
              intro y
              rw [mem_live, mem_live]
              simp only [cancelEvent, log, updProc_events, updProc_canceled, mem_setInsert, not_or]
              constructor
              · rintro ⟨h1, h2, h3⟩
                exact ⟨⟨h1, h3⟩, h2⟩
              · rintro ⟨⟨h1, h3⟩, h2⟩
                exact ⟨h1, h2, h3⟩
            case hh => simp [log, cancelEvent]
            case hpn => simp [log, cancelEvent]
            case hcr =>
              intro m
              simp only [crashed?_log, crashed?_updProc, crashed?_cancelEvent]
            case hoth =>
              apply Oth.then_cancelEvent
              apply Oth.then_log
              apply Oth.then_updProc
              exact Oth.updProc n p s _
            case hlog => simp
            case hpend =>
              intro k
              simp only [amGet?_amErase]
          · rename_i hnone
            have hnone' : amGet? name e0.pending = none := hnone
            refine cont _ (TLe.updProc s n p _ ?_) h
            intro e he
            rw [he0] at he
            cases he
            exact ⟨rfl, [.tcancel name], by simp, by simp [Harmless, hnone']⟩

/-- a handler run on a node with a handler keeps the invariant -/
theorem TimerInv.runHandler (h : SHandler σ T) (n p : Nat) (time : T) (i : Input) {s s' : Sim σ T} (hi : s.TimerInv)
    (hn : n ∈ s.handlers) (hok : runHandler h n p time i s = .ok s') : s'.TimerInv := by
  cases hnd : amGet? n s.nodes with
  | none => simp [Sim.runHandler, nodeOf, hnd] at hok
  | some nd =>
    cases he : amGet? p nd.procs with
    | none => simp [Sim.runHandler, nodeOf, hnd, he] at hok
    | some e =>
      obtain ⟨st', acts, used, _, hact⟩ := runHandler_ok h n p time i s s' hnd he hok
      have hle : TLe s (({ s with draws := s.draws.drop used }).updProc n p fun e => { e with st := st' }) :=
        (TLe.dropDraws s used).then_updProc n p _ (fun e _ => ⟨rfl, [], by simp, by simp⟩)
      exact TimerInv.handleActions n p time acts _ s' (hi.of_le hle) (by rw [hle.handlers]; exact hn) hact

theorem TimerInv.onMessage (h : SHandler σ T) (n mid p : Nat) (m : Msg) (src srcNode : Nat) {s s' : Sim σ T}
    (hi : s.TimerInv) (hn : n ∈ s.handlers) (hok : onMessage h n mid p m src srcNode s = .ok s') : s'.TimerInv := by
  unfold Sim.onMessage at hok
  split at hok
  · cases hok
  · split at hok
    · cases hok
    · have hle : TLe s ((s.log (.recv s.clock mid srcNode src n p m)).updProc n p
          fun e => { e with log := e.log ++ [⟨s.clock, .recv m src p⟩], recv := e.recv + 1 }) :=
        (TLe.log s _).then_updProc n p _ (fun e _ => ⟨rfl, [.recv m src p], by simp, by simp [Harmless]⟩)
      exact TimerInv.runHandler h n p _ _ (hi.of_le hle) (by rw [hle.handlers]; exact hn) hok

theorem TimerInv.onLocal (h : SHandler σ T) (n p : Nat) (m : Msg) {s s' : Sim σ T}
    (hi : s.TimerInv) (hn : n ∈ s.handlers) (hok : onLocal h n p m s = .ok s') : s'.TimerInv := by
  unfold Sim.onLocal at hok
  split at hok
  · cases hok
  · rename_i nd hnd
    split at hok
    · cases hok
    · have hle : TLe s (((s.log (.localRecv s.clock n p nd.localCount m)).setNode n
          { nd with localCount := nd.localCount + 1 }).updProc n p
          fun e => { e with log := e.log ++ [⟨s.clock, .lrecv m⟩] }) := by
        refine TLe.then_updProc ?_ n p _ (fun e _ => ⟨rfl, [.lrecv m], by simp, by simp [Harmless]⟩)
        exact (TLe.log s _).trans (TLe.setNode_same _ n (nodeOf_ok hnd) rfl rfl)
      exact TimerInv.runHandler h n p _ _ (hi.of_le hle) (by rw [hle.handlers]; exact hn) hok

/-! ### popping and delivering an event -/

/-- delivering the popped event keeps the invariant: a popped timer event is a live timer of a process of a node with a
    handler, so its name is in the table (`pendMap`) and hence pending by the contract when `tfired` is logged -/
theorem TimerInv.deliver_pop (h : SHandler σ T) (fuel : Nat) {s s1 s' : Sim σ T} {e : QEv T} (hi : s.TimerInv)
    (hpop : nextEvent fuel s = (some e, s1)) (hok : deliver h e s1 = .ok s') : s'.TimerInv := by
  obtain ⟨_, _, _, h4, h5, h6, h7, _, _⟩ := nextEvent_frame fuel s s1 _ hpop
  obtain ⟨g1, g2, _⟩ := nextEvent_frame2 fuel s s1 _ hpop
  have hel := popped_mem_live hpop
  have hmsg : (∀ q name, e.data ≠ .timer q name) → s1.TimerInv := fun hm =>
    hi.of_le (TLe.pop hi.qwf hpop (fun e' he' => by cases he'; exact hm))
  unfold Sim.deliver at hok
  split at hok
  · rename_i hnh
    cases hok
    apply hmsg
    intro q name hd
    have := (hi.timerLoc e hel q name hd).2
    rw [← h6] at this
    simp [this] at hnh
  · rename_i hh
    have hdst : e.dst ∈ s1.handlers := by simpa using hh
    split at hok
    · rename_i mid m src sn dst dn hdat
      exact TimerInv.onMessage h _ _ _ _ _ _ (hmsg (fun q name hd => by rw [hdat] at hd; cases hd)) hdst hok
    · rename_i q name hdat
      have hdst' : e.dst ∈ s.handlers := h6 ▸ hdst
      unfold Sim.onTimer at hok
      split at hok
      · cases hok
      · rename_i nd hnd
        split at hok
        · cases hok
        · rename_i e0 he0
          have hp1 : s1.proc? e.dst q = some e0 := proc?_of_lookup hnd he0
          have hp : s.proc? e.dst q = some e0 := by rw [← proc?_of_nodes h5]; exact hp1
          have hpend : amGet? name e0.pending = some e.id :=
            (hi.pendMap e.dst q e0 hdst' hp name e.id).2 ⟨e, hel, rfl, hdat, rfl⟩
          simp only [hpend] at hok
          refine TimerInv.runHandler h _ _ _ _ ?_ (by simpa [log] using hdst) hok
          refine hi.eraseCore (e := e0) (nm := name) (id := e.id) (.tfired name) (.inr rfl) hdst' hp (e' := ?e4') ?he' hpend
            ?hq ?hcw ?hlv ?hh ?hpn ?hcr ?hoth ?hlog ?hpend
          case he' =>
            rw [proc?_log, proc?_updProc, if_pos ⟨rfl, rfl⟩, proc?_updProc, if_pos ⟨rfl, rfl⟩, hp1]
            rfl
          case hq => exact (hi.qwf.sublist h7 h4).of_fields (by simp [log]) (by simp [log])
          case hcw =>
            intro i hi'
            simp only [log, updProc_canceled, updProc_eventCount] at hi' ⊢
            rw [h4]
            exact hi.cancWF i (g2 i hi')
          case hlv =>
            intro y
            rw [← mem_live_pop hpop, live_congr (s := s1) (by simp [log]) (by simp [log])]
          case hh =>
            simp only [log, updProc_handlers]
            exact h6
          case hpn =>
            simp only [log, updProc_procNodes]
            exact g1
          case hcr =>
            intro m
            simp only [crashed?_log, crashed?_updProc]
            exact crashed?_of_nodes h5 m
          case hoth =>
            refine (Oth.of_nodes _ _ h5).trans ?_
            apply Oth.then_log
            apply Oth.then_updProc
            exact Oth.updProc _ _ s1 _
          case hlog => simp
          case hpend =>
            intro k
            simp only [amGet?_amErase]

theorem TimerInv.step [LawfulTime T] (h : SHandler σ T) {s s' : Sim σ T} (b : Bool) (hi : s.TimerInv)
    (hok : s.step h = .ok (b, s')) : s'.TimerInv := by
  unfold Sim.step at hok
  split at hok
  · rename_i s1 heq
    cases hok
    exact hi.of_le (TLe.pop hi.qwf heq (fun e he => by cases he))
  · rename_i e s1 heq
    split at hok
    · cases hok
    · rename_i s2 hdel
      cases hok
      exact hi.deliver_pop h _ heq hdel

theorem TimerInv.steps [LawfulTime T] (h : SHandler σ T) (k : Nat) {s s' : Sim σ T} (b : Bool) (hi : s.TimerInv)
    (hok : s.steps h k = .ok (b, s')) : s'.TimerInv := by
  induction k generalizing s with
  | zero =>
    simp only [Sim.steps, Except.ok.injEq, Prod.mk.injEq] at hok
    obtain ⟨_, rfl⟩ := hok
    exact hi
  | succ k ih =>
    simp only [Sim.steps] at hok
    split at hok
    · cases hok
    · rename_i s1 hst
      cases hok
      exact hi.step h false hst
    · rename_i s1 hst
      exact ih (hi.step h true hst) hok

theorem TimerInv.sendLocal [LawfulTime T] (h : SHandler σ T) {s s' : Sim σ T} (p : Nat) (m : Msg) (hi : s.TimerInv)
    (hok : s.sendLocal h p m = .ok s') : s'.TimerInv := by
  unfold Sim.sendLocal at hok
  split at hok
  · cases hok
  · rename_i n _
    split at hok
    · cases hok
    · rename_i nd hnd
      split at hok
      · cases hok
      · rename_i hcr
        have hn : n ∈ s.handlers :=
          (hi.upHandled n nd.crashed (by simp [crashed?, nodeOf_ok hnd])).2 (by simpa using hcr)
        exact hi.onLocal h n p m hn hok

/-! ### crash, recovery, new nodes and processes -/

theorem TimerInv.crash_core {s s' : Sim σ T} (hi : s.TimerInv) (n : Nat) (nd : SNode σ T)
    (hnd : amGet? n s.nodes = some nd) (hev : s'.events = s.events) (hec : s'.eventCount = s.eventCount)
    (hcan : s'.canceled = ((s.events.filter (fun e => e.dst == n)).map (·.id)).foldl (fun acc x => setInsert x acc)
      (((s.events.filter (fun e => e.src == n)).map (·.id)).foldl (fun acc x => setInsert x acc) s.canceled))
    (hnodes : s'.nodes = amInsert natLt n { nd with crashed := true } s.nodes)
    (hh : s'.handlers = setErase n s.handlers) (hpn : s'.procNodes = s.procNodes) : s'.TimerInv := by
  have hproc : ∀ m q, s'.proc? m q = s.proc? m q := by
    intro m q
    have : s'.proc? m q = (s.setNode n { nd with crashed := true }).proc? m q := by
      unfold proc?; rw [hnodes]; rfl
    rw [this, proc?_setNode_sameProcs s n (nd' := { nd with crashed := true }) hnd rfl]
  have hcrash : ∀ m, s'.crashed? m = if m = n then some true else s.crashed? m := by
    intro m
    have : s'.crashed? m = (s.setNode n { nd with crashed := true }).crashed? m := by
      unfold crashed?; rw [hnodes]; rfl
    rw [this, crashed?_setNode]
  have hlive : ∀ x, x ∈ s'.live ↔ x ∈ s.live ∧ x.dst ≠ n ∧ x.src ≠ n := by
    intro x
    rw [mem_live, mem_live, hev, hcan]
    simp only [mem_foldl_setInsert, List.mem_map, List.mem_filter, beq_iff_eq, not_or, not_exists, not_and, and_imp]
    constructor
    · rintro ⟨hx, h1, h2, h3⟩
      exact ⟨⟨hx, h3⟩, fun hd => h1 x hx hd rfl, fun hs => h2 x hx hs rfl⟩
    · rintro ⟨⟨hx, h3⟩, hd, hs⟩
      refine ⟨hx, ?_, ?_, h3⟩
      · intro y hy hyd hid
        have := eq_of_id_eq_of_nodup hi.qwf.1 hy hx hid
        subst this
        exact hd hyd
      · intro y hy hys hid
        have := eq_of_id_eq_of_nodup hi.qwf.1 hy hx hid
        subst this
        exact hs hys
  have hsub : ∀ m, m ∈ s'.handlers ↔ m ≠ n ∧ m ∈ s.handlers := by
    intro m; rw [hh, mem_setErase]
  exact {
    qwf := hi.qwf.of_fields hev hec
    cancWF := by
      intro id hid
      rw [hcan] at hid
      simp only [mem_foldl_setInsert, List.mem_map, List.mem_filter] at hid
      rw [hec]
      rcases hid with ⟨x, ⟨hx, _⟩, rfl⟩ | ⟨x, ⟨hx, _⟩, rfl⟩ | hid
      · exact hi.qwf.2 x hx
      · exact hi.qwf.2 x hx
      · exact hi.cancWF id hid
    pendMap := by
      intro m q e hm he name id
      rw [hproc] at he
      obtain ⟨hmn, hm'⟩ := (hsub m).1 hm
      rw [hi.pendMap m q e hm' he name id]
      constructor
      · rintro ⟨ev, hev', h1, h2, h3⟩
        have hsd := (hi.timerLoc ev hev' q name h2).1
        exact ⟨ev, (hlive ev).2 ⟨hev', by rw [h3]; exact hmn, by rw [hsd, h3]; exact hmn⟩, h1, h2, h3⟩
      · rintro ⟨ev, hev', h1, h2, h3⟩
        exact ⟨ev, ((hlive ev).1 hev').1, h1, h2, h3⟩
    timerHome := by
      intro ev hev' q name hd hdst
      rw [hproc]
      exact hi.timerHome ev ((hlive ev).1 hev').1 q name hd ((hsub _).1 hdst).2
    contract := by
      intro m q e he
      rw [hproc] at he
      obtain ⟨pend, h1, h2⟩ := hi.contract m q e he
      exact ⟨pend, h1, fun hm => h2 ((hsub m).1 hm).2⟩
    timerLoc := by
      intro ev hev' q name hd
      obtain ⟨hl, hdn, _⟩ := (hlive ev).1 hev'
      obtain ⟨h1, h2⟩ := hi.timerLoc ev hl q name hd
      exact ⟨h1, (hsub _).2 ⟨hdn, h2⟩⟩
    upHandled := by
      intro m b hb
      rw [hcrash] at hb
      rw [hsub]
      by_cases hmn : m = n
      · subst hmn
        simp only [if_true, Option.some.injEq] at hb
        subst hb
        simp
      · rw [if_neg hmn] at hb
        rw [← hi.upHandled m b hb]
        simp [hmn]
    procHome := by
      intro m q e he
      rw [hproc] at he
      rw [hpn]
      exact hi.procHome m q e he }

theorem TimerInv.crashNode {s s' : Sim σ T} (n : Nat) (hi : s.TimerInv) (hok : s.crashNode n = .ok s') : s'.TimerInv := by
  obtain ⟨nd, rest, hnd, rfl⟩ := crashNode_shape s s' n hok
  exact hi.crash_core n nd hnd rfl rfl rfl rfl rfl rfl

theorem TimerInv.recover_core {s s' : Sim σ T} (hi : s.TimerInv) (n : Nat) (nd : SNode σ T)
    (hnd : amGet? n s.nodes = some nd) (hc : nd.crashed = true)
    (hev : s'.events = s.events) (hcan : s'.canceled = s.canceled) (hec : s'.eventCount = s.eventCount)
    (hnodes : s'.nodes = amInsert natLt n { nd with procs := [], crashed := false } s.nodes)
    (hh : s'.handlers = setInsert n s.handlers) (hpn : s'.procNodes = s.procNodes.filter (fun x => x.2 != n)) :
    s'.TimerInv := by
  have hproc : ∀ m q, s'.proc? m q = if m = n then none else s.proc? m q := by
    intro m q
    have : s'.proc? m q = (s.setNode n { nd with procs := [], crashed := false }).proc? m q := by
      unfold proc?; rw [hnodes]; rfl
    rw [this, proc?_setNode]
    split
    · simp [amGet?]
    · rfl
  have hcrash : ∀ m, s'.crashed? m = if m = n then some false else s.crashed? m := by
    intro m
    have : s'.crashed? m = (s.setNode n { nd with procs := [], crashed := false }).crashed? m := by
      unfold crashed?; rw [hnodes]; rfl
    rw [this, crashed?_setNode]
  have hnot : n ∉ s.handlers := by
    intro hin
    have := (hi.upHandled n nd.crashed (by simp [crashed?, hnd])).1 hin
    rw [hc] at this
    cases this
  have hlive : s'.live = s.live := live_congr hev hcan
  have hback : ∀ m q e, s'.proc? m q = some e → m ≠ n ∧ s.proc? m q = some e := by
    intro m q e he
    rw [hproc] at he
    by_cases hmn : m = n
    · simp [hmn] at he
    · rw [if_neg hmn] at he
      exact ⟨hmn, he⟩
  have hsub : ∀ m, m ∈ s'.handlers ↔ m = n ∨ m ∈ s.handlers := by
    intro m; rw [hh, mem_setInsert]
  exact {
    qwf := hi.qwf.of_fields hev hec
    cancWF := by rw [hcan, hec]; exact hi.cancWF
    pendMap := by
      intro m q e hm he name id
      obtain ⟨hmn, he'⟩ := hback m q e he
      rw [hlive]
      exact hi.pendMap m q e (((hsub m).1 hm).resolve_left hmn) he' name id
    timerHome := by
      intro ev hev' q name hd _
      rw [hlive] at hev'
      have hdst := (hi.timerLoc ev hev' q name hd).2
      obtain ⟨e, he⟩ := hi.timerHome ev hev' q name hd hdst
      refine ⟨e, ?_⟩
      rw [hproc, if_neg (fun h => hnot (by rw [← h]; exact hdst))]
      exact he
    contract := by
      intro m q e he
      obtain ⟨hmn, he'⟩ := hback m q e he
      obtain ⟨pend, h1, h2⟩ := hi.contract m q e he'
      exact ⟨pend, h1, fun hm => h2 (((hsub m).1 hm).resolve_left hmn)⟩
    timerLoc := by
      intro ev hev' q name hd
      rw [hlive] at hev'
      obtain ⟨h1, h2⟩ := hi.timerLoc ev hev' q name hd
      exact ⟨h1, (hsub _).2 (.inr h2)⟩
    upHandled := by
      intro m b hb
      rw [hcrash] at hb
      rw [hsub]
      by_cases hmn : m = n
      · subst hmn
        simp only [if_true, Option.some.injEq] at hb
        subst hb
        simp
      · rw [if_neg hmn] at hb
        rw [← hi.upHandled m b hb]
        simp [hmn]
    procHome := by
      intro m q e he
      obtain ⟨hmn, he'⟩ := hback m q e he
      rw [hpn]
      exact amGet?_filter_of_pos _ _ q m (hi.procHome m q e he') (by simpa using hmn) }

theorem TimerInv.recoverNode {s s' : Sim σ T} (n : Nat) (hi : s.TimerInv) (hok : s.recoverNode n = .ok s') : s'.TimerInv := by
  unfold Sim.recoverNode at hok
  split at hok
  · cases hok
  · rename_i nd hnd
    split at hok
    · cases hok
    · rename_i hcr
      cases hok
      exact hi.recover_core n nd (nodeOf_ok hnd) (by simpa using hcr) rfl rfl rfl rfl rfl rfl

theorem TimerInv.addNode_core {s s' : Sim σ T} (hi : s.TimerInv) (n : Nat) (hnone : amGet? n s.nodes = none)
    (hev : s'.events = s.events) (hcan : s'.canceled = s.canceled) (hec : s'.eventCount = s.eventCount)
    (hnodes : s'.nodes = amInsert natLt n { skew := TimeOps.zero } s.nodes)
    (hh : s'.handlers = setInsert n s.handlers) (hpn : s'.procNodes = s.procNodes) : s'.TimerInv := by
  have hproc : ∀ m q, s'.proc? m q = s.proc? m q := by
    intro m q
    have : s'.proc? m q = (s.setNode n { skew := TimeOps.zero }).proc? m q := by
      unfold proc?; rw [hnodes]; rfl
    rw [this, proc?_setNode]
    split
    · rename_i hmn
      subst hmn
      simp [proc?, hnone, amGet?]
    · rfl
  have hcrash : ∀ m, s'.crashed? m = if m = n then some false else s.crashed? m := by
    intro m
    have : s'.crashed? m = (s.setNode n { skew := TimeOps.zero }).crashed? m := by
      unfold crashed?; rw [hnodes]; rfl
    rw [this, crashed?_setNode]
  have hlive : s'.live = s.live := live_congr hev hcan
  have hne : ∀ m q e, s.proc? m q = some e → m ≠ n := by
    intro m q e he hmn
    subst hmn
    simp [proc?, hnone] at he
  have hsub : ∀ m, m ∈ s'.handlers ↔ m = n ∨ m ∈ s.handlers := by
    intro m; rw [hh, mem_setInsert]
  exact {
    qwf := hi.qwf.of_fields hev hec
    cancWF := by rw [hcan, hec]; exact hi.cancWF
    pendMap := by
      intro m q e hm he name id
      rw [hproc] at he
      rw [hlive]
      exact hi.pendMap m q e (((hsub m).1 hm).resolve_left (hne m q e he)) he name id
    timerHome := by
      intro ev hev' q name hd _
      rw [hlive] at hev'
      rw [hproc]
      exact hi.timerHome ev hev' q name hd (hi.timerLoc ev hev' q name hd).2
    contract := by
      intro m q e he
      rw [hproc] at he
      obtain ⟨pend, h1, h2⟩ := hi.contract m q e he
      exact ⟨pend, h1, fun hm => h2 (((hsub m).1 hm).resolve_left (hne m q e he))⟩
    timerLoc := by
      intro ev hev' q name hd
      rw [hlive] at hev'
      obtain ⟨h1, h2⟩ := hi.timerLoc ev hev' q name hd
      exact ⟨h1, (hsub _).2 (.inr h2)⟩
    upHandled := by
      intro m b hb
      rw [hcrash] at hb
      rw [hsub]
      by_cases hmn : m = n
      · subst hmn
        simp only [if_true, Option.some.injEq] at hb
        subst hb
        simp
      · rw [if_neg hmn] at hb
        rw [← hi.upHandled m b hb]
        simp [hmn]
    procHome := by
      intro m q e he
      rw [hproc] at he
      rw [hpn]
      exact hi.procHome m q e he }

theorem TimerInv.addNode {s s' : Sim σ T} (n : Nat) (hi : s.TimerInv) (hok : s.addNode n = .ok s') : s'.TimerInv := by
  unfold Sim.addNode at hok
  split at hok
  · cases hok
  · rename_i hhas
    cases hok
    have hnone : amGet? n s.nodes = none := by
      rw [amHas_eq] at hhas
      cases hg : amGet? n s.nodes with
      | none => rfl
      | some v => simp [hg] at hhas
    exact hi.addNode_core n hnone rfl rfl rfl rfl rfl rfl

theorem TimerInv.addProcess_core {s s' : Sim σ T} (hi : s.TimerInv) (p n : Nat) (st : σ) (nd : SNode σ T)
    (hnd : amGet? n s.nodes = some nd) (hfresh : amGet? p s.procNodes = none)
    (hev : s'.events = s.events) (hcan : s'.canceled = s.canceled) (hec : s'.eventCount = s.eventCount)
    (hnodes : s'.nodes = amInsert natLt n { nd with procs := amInsert natLt p { st } nd.procs } s.nodes)
    (hh : s'.handlers = s.handlers) (hpn : s'.procNodes = amInsert natLt p n s.procNodes) : s'.TimerInv := by
  have hnoproc : ∀ m, s.proc? m p = none := by
    intro m
    cases he : s.proc? m p with
    | none => rfl
    | some e => have := hi.procHome m p e he; rw [hfresh] at this; cases this
  have hproc : ∀ m q, s'.proc? m q = if m = n ∧ q = p then some { st } else s.proc? m q := by
    intro m q
    have : s'.proc? m q = (s.setNode n { nd with procs := amInsert natLt p { st } nd.procs }).proc? m q := by
      unfold proc?; rw [hnodes]; rfl
    rw [this, proc?_setNode]
    by_cases hmn : m = n
    · subst hmn
      simp only [true_and, if_true, amGet?_amInsert]
      split
      · rfl
      · rw [proc?_eq hnd]
    · simp [hmn]
  have hcrash : ∀ m, s'.crashed? m = s.crashed? m := by
    intro m
    have : s'.crashed? m = (s.setNode n { nd with procs := amInsert natLt p { st } nd.procs }).crashed? m := by
      unfold crashed?; rw [hnodes]; rfl
    rw [this, crashed?_setNode_same s n (nd' := { nd with procs := amInsert natLt p { st } nd.procs }) hnd rfl]
  have hlive : s'.live = s.live := live_congr hev hcan
  exact {
    qwf := hi.qwf.of_fields hev hec
    cancWF := by rw [hcan, hec]; exact hi.cancWF
    pendMap := by
      intro m q e hm he name id
      rw [hh] at hm
      rw [hlive]
      rw [hproc] at he
      by_cases hmq : m = n ∧ q = p
      · obtain ⟨rfl, rfl⟩ := hmq
        simp only [and_self, if_true, Option.some.injEq] at he
        subst he
        constructor
        · intro h
          simp [amGet?] at h
        · rintro ⟨ev, hev', _, h2, h3⟩
          obtain ⟨e0, he0⟩ := hi.timerHome ev hev' q name h2 (hi.timerLoc ev hev' q name h2).2
          rw [hnoproc] at he0
          cases he0
      · rw [if_neg hmq] at he
        exact hi.pendMap m q e hm he name id
    timerHome := by
      intro ev hev' q name hd _
      rw [hlive] at hev'
      obtain ⟨e, he⟩ := hi.timerHome ev hev' q name hd (hi.timerLoc ev hev' q name hd).2
      rw [hproc]
      split
      · exact ⟨_, rfl⟩
      · exact ⟨e, he⟩
    contract := by
      intro m q e he
      rw [hproc] at he
      by_cases hmq : m = n ∧ q = p
      · rw [if_pos hmq] at he
        cases he
        exact ⟨[], rfl, fun _ name => by simp [amGet?]⟩
      · rw [if_neg hmq] at he
        rw [hh]
        exact hi.contract m q e he
    timerLoc := by
      intro ev hev' q name hd
      rw [hlive] at hev'
      rw [hh]
      exact hi.timerLoc ev hev' q name hd
    upHandled := by
      intro m b hb
      rw [hcrash] at hb
      rw [hh]
      exact hi.upHandled m b hb
    procHome := by
      intro m q e he
      rw [hproc] at he
      rw [hpn, amGet?_amInsert]
      by_cases hmq : m = n ∧ q = p
      · obtain ⟨rfl, rfl⟩ := hmq
        simp
      · rw [if_neg hmq] at he
        have hqp : q ≠ p := by
          intro hqp
          subst hqp
          rw [hnoproc] at he
          cases he
        rw [if_neg hqp]
        exact hi.procHome m q e he }

theorem TimerInv.addProcess {s s' : Sim σ T} (p n : Nat) (st : σ) (hi : s.TimerInv) (hok : s.addProcess p st n = .ok s') :
    s'.TimerInv := by
  unfold Sim.addProcess at hok
  split at hok
  · cases hok
  · rename_i nd hnd
    dsimp only at hok
    split at hok
    · cases hok
    · rename_i hhas
      cases hok
      have hfresh : amGet? p s.procNodes = none := by
        have hhas' : amHas p s.procNodes = false := by simpa [setNode] using hhas
        rw [amHas_eq] at hhas'
        cases hg : amGet? p s.procNodes with
        | none => rfl
        | some v => simp [hg] at hhas'
      exact hi.addProcess_core p n st nd (nodeOf_ok hnd) hfresh rfl rfl rfl rfl rfl rfl

/-- a simulator without nodes satisfies the invariant -/
theorem TimerInv.init (clock : T) (net : SimNet T) (draws : List T) :
    ({ clock := clock, net := net, draws := draws } : Sim σ T).TimerInv where
  qwf := by simp [QueueWF]
  cancWF := by simp
  pendMap := by intro n p e hn; simp at hn
  timerHome := by intro ev hev; simp [live] at hev
  contract := by intro n p e he; simp [proc?, amGet?] at he
  timerLoc := by intro ev hev; simp [live] at hev
  upHandled := by intro n b hb; simp [crashed?, amGet?] at hb
  procHome := by intro n p e he; simp [proc?, amGet?] at he

/-- **the simulator's event logs obey the timer contract**: after any run of steps from a state satisfying the invariant, no
    process's event log contains a firing the contract forbids -/
theorem sim_timer_contract [LawfulTime T] (h : SHandler σ T) (k : Nat) {s s' : Sim σ T} (b : Bool) (hi : s.TimerInv)
    (hok : s.steps h k = .ok (b, s')) :
    ∀ n p e, s'.proc? n p = some e → (pcRun [] (e.log.map (·.ev))).isSome = true := by
  intro n p e he
  obtain ⟨pend, hp, _⟩ := (hi.steps h k b hok).contract n p e he
  rw [hp]
  rfl

end Sim
/-! ## Non-vacuity: a concrete scenario over `Ticks` — timers set, overridden, set once, cancelled and fired, a crash that
discards a pending timer, recovery and a re-added process -/
namespace Sim.WholeDemo

/-- a fresh simulator: no nodes, default network with delays in `[0, 10]`, eight draws -/
def s0 : Sim Nat Ticks :=
  { clock := ⟨0⟩, net := { (SimNet.default : SimNet Ticks) with maxDelay := ⟨10⟩ },
    draws := [⟨500⟩, ⟨100⟩, ⟨900⟩, ⟨250⟩, ⟨10⟩, ⟨20⟩, ⟨999⟩, ⟨0⟩] }

/-- `TimerInv.init` instantiated for `Sim Nat Ticks` -/
example : s0.TimerInv := TimerInv.init _ _ _

/-- process 1 answers a local message with timer calls of every kind (set, override, set-once on a free and on a pending name,
    set and cancel, cancel of a name that is not pending) and a send; when its timer 1 fires it cancels and re-sets timer 0;
    process 2 answers a message with a reply and a timer -/
def h : SHandler Nat Ticks := fun p st i _ _ =>
  match p, i with
  | 1, .loc _ => (st + 1, [.set 0 5 false, .set 0 7 false, .set 1 3 true, .set 1 9 true, .set 2 4 false, .cancel 2,
      .cancel 3, .send ⟨1, [7]⟩ 2], 0)
  | 1, .timer 1 => (st + 1, [.cancel 0, .set 0 2 false, .set 0 4 true], 0)
  | 2, .msg _ src => (st + 1, [.send ⟨3, []⟩ src, .set 5 1 false], 0)
  | _, _ => (st + 1, [], 0)

/-- two nodes with one process each; a local message to process 1; three steps -/
def upToCrash : R (Sim Nat Ticks) := do
  let s ← s0.addNode 0
  let s ← s.addNode 1
  let s ← s.addProcess 1 0 0
  let s ← s.addProcess 2 0 1
  let s ← s.sendLocal h 1 ⟨0, []⟩
  let (_, s) ← s.steps h 3
  pure s

/-- … then node 1 crashes (timer 5 of its process is pending); two more steps; node 1 recovers and gets process 2 again; the
    rest of the run -/
def run : R (Bool × Sim Nat Ticks) := do
  let s ← upToCrash
  let s ← s.crashNode 1
  let (_, s) ← s.steps h 2
  let s ← s.recoverNode 1
  let s ← s.addProcess 2 0 1
  s.steps h 10

/-- the crash discards something: the queued event of the pending timer of process 2 -/
example : upToCrash.toOption.map (fun s => s.crashedIds 1) = some [6] := by decide

/-- the run exists and ends with an empty queue -/
example : run.toOption.map (fun r => (r.1, r.2.events.length)) = some (false, 0) := by decide

/-- the event log of process 1 at the end: every kind of timer call, and two firings -/
example : run.toOption.bind (fun r => (r.2.proc? 0 1).map (fun e => e.log.map (·.ev))) =
    some [.lrecv ⟨0, []⟩, .tset 0 5 false, .tset 0 7 false, .tset 1 3 true, .tset 1 9 true, .tset 2 4 false,
      .tcancel 2, .tcancel 3, .sent ⟨1, [7]⟩ 1 2, .recv ⟨3, []⟩ 2 1, .tfired 1, .tcancel 0, .tset 0 2 false, .tset 0 4 true,
      .tfired 0] := by decide

/-- … it is accepted by the contract with no name left pending, in agreement with the empty `pending` table -/
example : run.toOption.bind (fun r => (r.2.proc? 0 1).bind (fun e => pcRun [] (e.log.map (·.ev)))) = some [] ∧
    run.toOption.bind (fun r => (r.2.proc? 0 1).map (·.pending)) = some [] := by decide

/-- both invariants hold along the scenario (each hypothesis is one call of `run`), so the conclusions of
    `sim_timer_contract` and of `DeadIds` hold for its final state -/
example (a b c d e f g k l m s' : Sim Nat Ticks) (b1 b2 b3 : Bool)
    (h1 : s0.addNode 0 = .ok a) (h2 : a.addNode 1 = .ok b) (h3 : b.addProcess 1 0 0 = .ok c)
    (h4 : c.addProcess 2 0 1 = .ok d) (h5 : d.sendLocal h 1 ⟨0, []⟩ = .ok e) (h6 : e.steps h 3 = .ok (b1, f))
    (h7 : f.crashNode 1 = .ok g) (h8 : g.steps h 2 = .ok (b2, k)) (h9 : k.recoverNode 1 = .ok l)
    (h10 : l.addProcess 2 0 1 = .ok m) (h11 : m.steps h 10 = .ok (b3, s')) :
    (∀ n p e, s'.proc? n p = some e → (pcRun [] (e.log.map (·.ev))).isSome = true) ∧ s'.DeadIds (f.crashedIds 1) := by
  have hi_f : f.TimerInv :=
    (((((TimerInv.init _ _ _).addNode 0 h1).addNode 1 h2).addProcess 1 0 0 h3).addProcess 2 1 0 h4).sendLocal h 1 _ h5
      |>.steps h 3 b1 h6
  have hi_m : m.TimerInv := (((hi_f.crashNode 1 h7).steps h 2 b2 h8).recoverNode 1 h9).addProcess 2 1 0 h10
  refine ⟨sim_timer_contract h 10 b3 hi_m h11, ?_⟩
  exact ((((crashNode_dead f g 1 hi_f.qwf h7).steps h 2 b2 h8).recoverNode 1 h9).addProcess 2 1 0 h10).steps h 10 b3 h11

end Sim.WholeDemo

end Anysystem
