import Anysystem.Proofs.R2Mode
/-!
# Which alternatives exist for an offered event; the offered ids under an ordering mode
-/
set_option linter.unusedSimpArgs false
namespace Anysystem

variable {σ : Type}

theorem alternatives_ok {s : McSys σ} {id : Nat} {ev : Ev} (hg : s.events.get id = some ev) :
    ∃ alts, s.alternatives id = .ok alts := by
  simp only [McSys.alternatives, hg]
  split <;> simp_all

theorem mem_alternatives {s : McSys σ} {id : Nat} {ev : Ev} {alts : List Alt}
    (hg : s.events.get id = some ev) (halts : s.alternatives id = .ok alts) (alt : Alt) :
    alt ∈ alts ↔ alt = .deliver id ∨
      (alt = .drop id ∧ ∃ m sr d n c, ev = .msg m sr d (.faults true n c)) ∨
      (alt = .corrupt id ∧ ∃ m sr d b n, ev = .msg m sr d (.faults b n true)) ∨
      (alt = .dup id ∧ ∃ m sr d b n c, ev = .msg m sr d (.faults b (n + 1) c)) := by
  simp only [McSys.alternatives, hg] at halts
  cases ev with
  | msg m sr d o =>
    cases o with
    | noFail k =>
      simp only [Except.ok.injEq] at halts
      subst halts
      simp
    | faults cd n cc =>
      simp only [Except.ok.injEq] at halts
      subst halts
      cases cd <;> cases cc <;> cases n <;> simp
  | timer _ _ _ => simp only [Except.ok.injEq] at halts; subst halts; simp
  | timerCancelled _ _ => simp only [Except.ok.injEq] at halts; subst halts; simp
  | dropped _ _ _ _ => simp only [Except.ok.injEq] at halts; subst halts; simp
  | duplicated _ _ _ _ => simp only [Except.ok.injEq] at halts; subst halts; simp
  | corrupted _ _ _ _ _ => simp only [Except.ok.injEq] at halts; subst halts; simp

theorem specOfferedMode_sub {A : List (Nat × Ev)} {mode : Mode} {id : Nat}
    (h : id ∈ specOfferedMode A mode) : id ∈ specOffered A := by
  cases mode with
  | normal => exact h
  | messagesFirst =>
    simp only [specOfferedMode] at h
    split at h
    · exact h
    · exact (List.mem_filter.mp h).1

/-- the offered ids of a related state -/
theorem available_spec {s : McSys σ} {r : RState σ} {a : AStore} (hw : SimW' s r a) :
    ∃ ids, s.available = .ok ids ∧ ∀ id, id ∈ ids ↔ id ∈ specOfferedMode a.pending s.mode :=
  hw.core.rep.availableEvents s.mode

theorem get_eq_pending {s : McSys σ} {r : RState σ} {a : AStore} (hw : SimW' s r a) (id : Nat) :
    s.events.get id = amGet? id a.pending := hw.core.rep.get_eq id

end Anysystem
