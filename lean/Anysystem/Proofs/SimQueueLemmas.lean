import Anysystem.Model.Sim
import Anysystem.Spec.TimeLaws
import Anysystem.Proofs.AssocLemmas
/-!
# Helper lemmas for `SimQueueThms.lean`: the `(time, id)` order, `minEvent`, `nextEvent`, crash folds
-/
namespace Anysystem

set_option linter.unusedSectionVars false

variable {σ T : Type} [TimeOps T]

namespace Sim

/-! ### `evBefore` is a strict order -/

theorem evBefore_iff [LawfulTime T] (a b : QEv T) :
    evBefore a b = true ↔
      (TimeOps.le b.time a.time = false ∨ (TimeOps.le a.time b.time = true ∧ a.id < b.id)) := by
  unfold evBefore
  have h1 := LawfulTime.lt_iff a.time b.time
  have h2 := LawfulTime.lt_iff b.time a.time
  cases hlt1 : TimeOps.lt a.time b.time <;> cases hlt2 : TimeOps.lt b.time a.time <;>
    cases hle1 : TimeOps.le b.time a.time <;> cases hle2 : TimeOps.le a.time b.time <;> simp_all

theorem evBefore_irrefl [LawfulTime T] (a : QEv T) : evBefore a a = false := by
  cases h : evBefore a a with
  | false => rfl
  | true =>
    rw [evBefore_iff] at h
    rcases h with h | h
    · rw [LawfulTime.le_refl] at h; cases h
    · exact absurd h.2 (Nat.lt_irrefl _)

theorem evBefore_trans [LawfulTime T] (a b c : QEv T) (hab : evBefore a b = true) (hbc : evBefore b c = true) :
    evBefore a c = true := by
  rw [evBefore_iff] at hab hbc ⊢
  have leF_le : ∀ x y : T, TimeOps.le x y = false → TimeOps.le y x = true := by
    intro x y h
    rcases LawfulTime.le_total x y with h' | h'
    · rw [h] at h'; cases h'
    · exact h'
  rcases hab with hab | ⟨hab, iab⟩ <;> rcases hbc with hbc | ⟨hbc, ibc⟩
  · left
    cases hca : TimeOps.le c.time a.time with
    | false => rfl
    | true =>
      have := LawfulTime.le_trans _ _ _ hca (leF_le _ _ hab)
      rw [hbc] at this; cases this
  · left
    cases hca : TimeOps.le c.time a.time with
    | false => rfl
    | true =>
      have := LawfulTime.le_trans _ _ _ hbc hca
      rw [hab] at this; cases this
  · left
    cases hca : TimeOps.le c.time a.time with
    | false => rfl
    | true =>
      have := LawfulTime.le_trans _ _ _ hca hab
      rw [hbc] at this; cases this
  · right
    exact ⟨LawfulTime.le_trans _ _ _ hab hbc, Nat.lt_trans iab ibc⟩

/-- distinct ids are always comparable -/
theorem evBefore_total [LawfulTime T] (a b : QEv T) (hne : a.id ≠ b.id) :
    evBefore a b = true ∨ evBefore b a = true := by
  rw [evBefore_iff, evBefore_iff]
  cases h1 : TimeOps.le b.time a.time with
  | false => exact Or.inl (Or.inl rfl)
  | true =>
    cases h2 : TimeOps.le a.time b.time with
    | false => exact Or.inr (Or.inl rfl)
    | true =>
      rcases Nat.lt_or_gt_of_ne hne with h | h
      · exact Or.inl (Or.inr ⟨rfl, h⟩)
      · exact Or.inr (Or.inr ⟨rfl, h⟩)

/-- `evBefore x e = false` means `e.time ≤ x.time` -/
theorem le_time_of_not_evBefore [LawfulTime T] (x e : QEv T) (h : evBefore x e = false) :
    TimeOps.le e.time x.time = true := by
  cases hle : TimeOps.le e.time x.time with
  | true => rfl
  | false =>
    have : evBefore x e = true := (evBefore_iff x e).2 (Or.inl hle)
    rw [h] at this; cases this

/-! ### `minEvent` -/

theorem minEvent_eq_none (l : List (QEv T)) (h : minEvent l = none) : l = [] := by
  cases l with
  | nil => rfl
  | cons a es =>
    simp only [minEvent] at h
    split at h
    · cases h
    · split at h <;> cases h

theorem minEvent_spec [LawfulTime T] (l : List (QEv T)) (e : QEv T) (h : minEvent l = some e) :
    e ∈ l ∧ ∀ x ∈ l, evBefore x e = false := by
  induction l generalizing e with
  | nil => simp [minEvent] at h
  | cons a es ih =>
    simp only [minEvent] at h
    split at h
    · rename_i hn
      have := minEvent_eq_none es hn
      subst this
      cases h
      simp [evBefore_irrefl]
    · rename_i m hm
      obtain ⟨hmem, hmin⟩ := ih m hm
      split at h
      · rename_i hb
        cases h
        refine ⟨List.mem_cons_self, ?_⟩
        intro x hx
        rcases List.mem_cons.1 hx with rfl | hx
        · exact evBefore_irrefl _
        · cases hxe : evBefore x a with
          | false => rfl
          | true =>
            have := evBefore_trans _ _ _ hxe hb
            rw [hmin x hx] at this; cases this
      · rename_i hb
        cases h
        refine ⟨List.mem_cons_of_mem _ hmem, ?_⟩
        intro x hx
        rcases List.mem_cons.1 hx with rfl | hx
        · simpa using hb
        · exact hmin x hx

/-- events of a queue with unique ids are determined by their id -/
theorem eq_of_id_eq_of_nodup {l : List (QEv T)} (h : (l.map (·.id)).Nodup) {x y : QEv T}
    (hx : x ∈ l) (hy : y ∈ l) (hid : x.id = y.id) : x = y := by
  induction l with
  | nil => cases hx
  | cons a es ih =>
    rw [List.map_cons, List.nodup_cons] at h
    have hmem : ∀ z ∈ es, z.id ∈ es.map (·.id) := fun z hz => List.mem_map_of_mem (f := (·.id)) hz
    rcases List.mem_cons.1 hx with hx1 | hx1 <;> rcases List.mem_cons.1 hy with hy1 | hy1
    · rw [hx1, hy1]
    · subst hx1; exact absurd (by rw [hid]; exact hmem y hy1) h.1
    · subst hy1; exact absurd (by rw [← hid]; exact hmem x hx1) h.1
    · exact ih h.2 hx1 hy1

/-! ### `nextEvent` -/

/-- live (not cancelled) queued events (the body of `Sim.live`) -/
def liveOf (s : Sim σ T) : List (QEv T) := s.events.filter (fun e => !s.canceled.contains e.id)

theorem mem_liveOf (s : Sim σ T) (x : QEv T) : x ∈ liveOf s ↔ x ∈ s.events ∧ x.id ∉ s.canceled := by
  simp [liveOf, List.mem_filter]

theorem nextEvent_succ (fuel : Nat) (s : Sim σ T) :
    nextEvent (fuel + 1) s = (match minEvent s.events with
      | none => (none, s)
      | some e =>
        if s.canceled.contains e.id then
          nextEvent fuel { s with events := s.events.filter (fun x => x.id != e.id),
                                  canceled := setErase e.id s.canceled }
        else (some e, { s with events := s.events.filter (fun x => x.id != e.id), clock := e.time })) := rfl

/-- skipping a cancelled event (and forgetting its id) does not change the live events -/
theorem liveOf_skip (s : Sim σ T) (m : QEv T) (hc : m.id ∈ s.canceled) :
    liveOf { s with events := s.events.filter (fun x => x.id != m.id),
                    canceled := setErase m.id s.canceled } = liveOf s := by
  simp only [liveOf, List.filter_filter]
  apply List.filter_congr
  intro x _
  rw [Bool.eq_iff_iff]
  simp only [Bool.and_eq_true, Bool.not_eq_true', List.contains_eq_mem, decide_eq_false_iff_not,
    mem_setErase, bne_iff_ne, ne_eq]
  constructor
  · rintro ⟨h1, h2⟩ h3
    exact h1 ⟨h2, h3⟩
  · intro h
    refine ⟨fun h' => h h'.2, ?_⟩
    intro heq
    exact h (heq ▸ hc)

theorem length_filter_ne_lt (l : List (QEv T)) (m : QEv T) (hm : m ∈ l) :
    (l.filter (fun x => x.id != m.id)).length < l.length := by
  rw [List.length_filter_lt_length_iff_exists]
  exact ⟨m, hm, by simp⟩

theorem nextEvent_some_core [LawfulTime T] (fuel : Nat) (s s' : Sim σ T) (e : QEv T)
    (h : nextEvent fuel s = (some e, s')) :
    e ∈ s.events ∧ e.id ∉ s.canceled ∧ (∀ x ∈ liveOf s, evBefore x e = false) ∧
    s'.clock = e.time ∧ s'.eventCount = s.eventCount ∧ s'.events.Sublist s.events ∧
    (∀ x ∈ s'.events, evBefore x e = false) ∧
    (∀ x, x ∈ liveOf s' ↔ (x ∈ liveOf s ∧ x.id ≠ e.id)) := by
  induction fuel generalizing s with
  | zero => simp [nextEvent] at h
  | succ fuel ih =>
    rw [nextEvent_succ] at h
    split at h
    · cases h
    · rename_i m hm
      obtain ⟨hmem, hmin⟩ := minEvent_spec _ _ hm
      split at h
      · rename_i hc
        have hc' : m.id ∈ s.canceled := by simpa using hc
        obtain ⟨h1, h2, h3, h4, h5, h6, h7, h8⟩ := ih _ h
        simp only at h1 h2 h5 h6
        rw [liveOf_skip s m hc'] at h3 h8
        have h1' := List.mem_filter.1 h1
        refine ⟨h1'.1, ?_, h3, h4, h5, h6.trans List.filter_sublist, h7, h8⟩
        intro hin
        apply h2
        rw [mem_setErase]
        exact ⟨by simpa using h1'.2, hin⟩
      · rename_i hc
        have hc' : m.id ∉ s.canceled := by simpa using hc
        cases h
        refine ⟨hmem, hc', ?_, rfl, rfl, List.filter_sublist, ?_, ?_⟩
        · intro x hx
          exact hmin x ((mem_liveOf s x).1 hx).1
        · intro x hx
          exact hmin x (List.mem_filter.1 hx).1
        · intro x
          simp only [mem_liveOf, List.mem_filter, bne_iff_ne, ne_eq]
          constructor
          · rintro ⟨⟨a, b⟩, c⟩; exact ⟨⟨a, c⟩, b⟩
          · rintro ⟨⟨a, c⟩, b⟩; exact ⟨⟨a, b⟩, c⟩

theorem nextEvent_none_core (fuel : Nat) (s s' : Sim σ T) (hf : s.events.length < fuel)
    (h : nextEvent fuel s = (none, s')) :
    liveOf s = [] ∧ s'.clock = s.clock ∧ s'.trace = s.trace ∧ s'.nodes = s.nodes := by
  induction fuel generalizing s with
  | zero => exact absurd hf (Nat.not_lt_zero _)
  | succ fuel ih =>
    rw [nextEvent_succ] at h
    split at h
    · rename_i hn
      cases h
      have := minEvent_eq_none _ hn
      simp [liveOf, this]
    · rename_i m hm
      have hmem : m ∈ s.events := by
        -- membership does not need the time laws
        clear h ih hf
        generalize s.events = l at hm
        induction l generalizing m with
        | nil => simp [minEvent] at hm
        | cons a es ih =>
          simp only [minEvent] at hm
          split at hm
          · cases hm; exact List.mem_cons_self
          · rename_i m' hm'
            split at hm
            · cases hm; exact List.mem_cons_self
            · cases hm; exact List.mem_cons_of_mem _ (ih _ hm')
      split at h
      · rename_i hc
        have hc' : m.id ∈ s.canceled := by simpa using hc
        have hlen := length_filter_ne_lt s.events m hmem
        obtain ⟨h1, h2, h3, h4⟩ := ih _ (by simp only; omega) h
        rw [liveOf_skip s m hc'] at h1
        exact ⟨h1, h2, h3, h4⟩
      · cases h

/-! ### the folds of `crashNode` -/

theorem foldl_cancel_eq (L : List (QEv T)) (s : Sim σ T) :
    L.foldl (fun s e => s.cancelEvent e.id) s =
      { s with canceled := (L.map (·.id)).foldl (fun acc x => setInsert x acc) s.canceled } := by
  induction L generalizing s with
  | nil => rfl
  | cons a L ih => simp only [List.foldl_cons, ih, List.map_cons]; rfl

theorem foldl_cancel_mem (L : List (QEv T)) (s : Sim σ T) (id : Nat) :
    id ∈ (L.foldl (fun s e => s.cancelEvent e.id) s).canceled ↔ id ∈ s.canceled ∨ ∃ e ∈ L, e.id = id := by
  rw [foldl_cancel_eq]
  simp only [mem_foldl_setInsert, List.mem_map]
  constructor
  · rintro (h | h)
    · exact Or.inr h
    · exact Or.inl h
  · rintro (h | h)
    · exact Or.inr h
    · exact Or.inl h

theorem foldl_droplog_eq (L : List (QEv T)) (live : List Nat) (s : Sim σ T) :
    ∃ rest, L.foldl (fun (s : Sim σ T) e =>
      if live.contains e.id then
        match e.data with
        | .msg mid m src sn dst dn => s.log (.dropped s.clock mid sn src dn dst m)
        | _ => s
      else s) s = { s with trace := s.trace ++ rest } := by
  induction L generalizing s with
  | nil => exact ⟨[], by simp⟩
  | cons a L ih =>
    simp only [List.foldl_cons]
    split
    · split
      · obtain ⟨rest, hr⟩ := ih (s.log (.dropped s.clock _ _ _ _ _ _))
        rename_i mid m src sn dst dn _
        refine ⟨SLog.dropped s.clock mid sn src dn dst m :: rest, ?_⟩
        rw [hr]
        simp [log]
      · exact ih s
    · exact ih s

theorem crash_tail (s2 : Sim σ T) (n : Nat) (live : List Nat) :
    ∃ rest,
      (let fromNode := s2.events.filter (fun e => e.src == n)
       let s3 := fromNode.foldl (fun s e => s.cancelEvent e.id) s2
       let s4 := fromNode.foldl (fun (s : Sim σ T) e =>
          if live.contains e.id then
            match e.data with
            | .msg mid m src sn dst dn => s.log (.dropped s.clock mid sn src dn dst m)
            | _ => s
          else s) s3
       let s5 : Sim σ T := { s4 with handlers := setErase n s4.handlers }
       (s5.events.filter (fun e => e.dst == n)).foldl (fun s e => s.cancelEvent e.id) s5) =
      { s2 with
        trace := s2.trace ++ rest,
        handlers := setErase n s2.handlers,
        canceled := ((s2.events.filter (fun e => e.dst == n)).map (·.id)).foldl (fun acc x => setInsert x acc)
          (((s2.events.filter (fun e => e.src == n)).map (·.id)).foldl (fun acc x => setInsert x acc) s2.canceled) } := by
  obtain ⟨rest, hr⟩ := foldl_droplog_eq (s2.events.filter (fun e => e.src == n)) live
    ((s2.events.filter (fun e => e.src == n)).foldl (fun s e => s.cancelEvent e.id) s2)
  refine ⟨rest, ?_⟩
  dsimp only
  rw [hr, foldl_cancel_eq, foldl_cancel_eq]

/-- the shape of the state after `crash_node` -/
theorem crashNode_shape (s s' : Sim σ T) (n : Nat) (h : s.crashNode n = .ok s') :
    ∃ nd rest, amGet? n s.nodes = some nd ∧
      s' = { s with
        nodes := amInsert natLt n { nd with crashed := true } s.nodes,
        trace := s.trace ++ SLog.nodeCrashed s.clock n :: rest,
        handlers := setErase n s.handlers,
        canceled := ((s.events.filter (fun e => e.dst == n)).map (·.id)).foldl (fun acc x => setInsert x acc)
          (((s.events.filter (fun e => e.src == n)).map (·.id)).foldl (fun acc x => setInsert x acc) s.canceled) } := by
  unfold crashNode at h
  cases hn : amGet? n s.nodes with
  | none => simp [nodeOf, hn] at h
  | some nd =>
    simp only [nodeOf, hn] at h
    obtain ⟨rest, hr⟩ := crash_tail ((s.setNode n { nd with crashed := true }).log (.nodeCrashed s.clock n)) n
      ((s.events.filter (fun e => !s.canceled.contains e.id)).map (·.id))
    refine ⟨nd, rest, rfl, ?_⟩
    have h' := Except.ok.inj h
    rw [← h']
    refine Eq.trans hr ?_
    simp [setNode, log]

end Sim
end Anysystem
