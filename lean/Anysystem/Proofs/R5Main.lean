import Anysystem.Proofs.R5Snap
import Anysystem.Proofs.R5Rel
import Anysystem.Proofs.SearchThmsOn
import Anysystem.Proofs.C11Congr
import Anysystem.Proofs.StagedThms
/-!
# R5 — C04 end to end (partial: fault rates zero, no crash/recover after the snapshot, override-free program, exact time)

A simulation is stopped in state `q`; `ModelChecker::new` takes the snapshot `s₀` and an exploration from it (after
`McStarted`, no callback) finishes `Ok`.  If the simulation is instead continued for `k` steps to `q'`, the process-visible
state of `q'` (every process's state and local outbox) is the process-visible state of one of the states the exploration
evaluated — provided the exploration does not stop (goal / prune) at a state that still has pending events.

Chain: `timedRel_snapshot` (the simulator state is `TimedRel`-related to the reference state of its snapshot) and
`snapshot_sim'` (so is the snapshot, by `Sim'`); then per step R4 (`sim_step_refines_partial`: the simulator step is a
reduced-enabled reference step), R2 completeness (`alternatives_complete'`: the checker offers that step) and finally R3
(`search_ok_exhaustive_on` with C11's `GoodState` congruence: every reachable state has a representative among the
evaluated ones) and `key_covers` (equal keys have equal process-visible projections).
-/
namespace Anysystem

variable {σ T : Type} [TimeOps T]

/-- the process-visible projection of a simulator state is that of a model-checker state -/
def visibleEqMc (q : Sim σ T) (e : McSys σ) : Prop :=
  ∀ n p pe, q.proc? n p = some pe → amGet? p (procsOf e) = some ⟨pe.st, pe.outbox⟩

/-- the checker's start state of the run: the snapshot after `McStarted` -/
def startedOf (s₀ : McSys σ) : McSys σ := { s₀ with trace := s₀.trace ++ [LogE.started] }

/-- one simulator step is matched by at most one expansion step of the checker (invariant of the chain) -/
theorem sim_step_matched [LawfulTime T] [DecidableEq σ] (bits : T → Nat) (laws : SnapTimeLaws bits) (h : Handler σ)
    (p : Preds σ) (hash : McSys.Key σ → Nat)
    (q q' : Sim σ T) (s s₁ : McSys σ) (r : RState σ) (gs : List (TimerGhost T))
    (hrel : TimedRel bits q r gs) (hsim : Sim' s r) (hmode : s.mode = .normal) (hk : SendsKnown h s)
    (hreach : ReachC (mcTSys {} h p hash) s₁ s)
    (hof : OverrideFreeFrom h .normal r)
    (hcont : ∀ x, ReachC (mcTSys {} h p hash) s₁ x → (∃ ids id, x.available = .ok ids ∧ id ∈ ids) → p.verdict x = .cont)
    (hdelays : ∀ p st i a, a ∈ (h p st i).2 → ∀ name d once, a = .set name d once →
      TimeOps.le TimeOps.zero (TimeOps.ofBits d : T) = true ∧ bits (TimeOps.ofBits d : T) = d)
    (hknown : ∀ p st i a, a ∈ (h p st i).2 → ∀ m dst, a = .send m dst → (amGet? dst q.net.procLoc).isSome = true)
    (hdraws : ∀ d ∈ q.draws, LawfulTime.isDraw d) (hlen : ∀ p st i, 4 * (h p st i).2.length ≤ q.draws.length)
    (hstep : q.step (liftHandler h) = .ok (true, q')) :
    ∃ s' r' gs', TimedRel bits q' r' gs' ∧ Sim' s' r' ∧ s'.mode = .normal ∧ SendsKnown h s' ∧
      ReachC (mcTSys {} h p hash) s₁ s' ∧ OverrideFreeFrom h .normal r' := sorry

/-- **C04, end to end (partial)** -/
theorem sim_run_covered_partial [LawfulTime T] [DecidableEq σ] (bits : T → Nat) (laws : SnapTimeLaws bits) (h : Handler σ)
    (p : Preds σ) (hp : KeyBased p) (hash : McSys.Key σ → Nat)
    -- the simulation so far: `q` is related to some reference state (it is a state of a run that started quiet) and well formed
    (q : Sim σ T) (r : RState σ) (gs : List (TimerGhost T)) (hrel : TimedRel bits q r gs) (hwf : SnapWF q)
    -- the snapshot and an `Ok` exploration from it
    (s₀ : McSys σ) (hsnap : snapshot bits q = .ok s₀)
    (strat : Strat) (mode : CacheMode) (hm : ExactCache (mcTSys {} h p hash) mode) (fuel : Nat)
    (a : Acc (McSys σ) (McSys.Key σ))
    (hsearch : search (mcTSys {} h p hash) strat fuel (startedOf s₀) (Acc.fresh mode) = some (.ok, a))
    -- the program: no `set_timer` on a pending name (finding D1), sane delays, known destinations
    (hof : OverrideFreeFrom h .normal { (snapshotRef bits q) with trace := (snapshotRef bits q).trace ++ [LogE.started] })
    (hdelays : ∀ p st i a, a ∈ (h p st i).2 → ∀ name d once, a = .set name d once →
      TimeOps.le TimeOps.zero (TimeOps.ofBits d : T) = true ∧ bits (TimeOps.ofBits d : T) = d)
    (hknown : ∀ p st i a, a ∈ (h p st i).2 → ∀ m dst, a = .send m dst → (amGet? dst q.net.procLoc).isSome = true)
    -- the exploration stops (goal / prune) only at states without pending events
    (hcont : ∀ x, ReachC (mcTSys {} h p hash) (startedOf s₀) x → (∃ ids id, x.available = .ok ids ∧ id ∈ ids) →
      p.verdict x = .cont)
    -- the simulation continues for `k` steps, each of which finds an event
    (k : Nat) (q' : Sim σ T) (hrun : q.steps (liftHandler h) k = .ok (true, q'))
    (hdraws : ∀ d ∈ q.draws, LawfulTime.isDraw d)
    (hlen : ∀ p st i, 4 * k * (h p st i).2.length ≤ q.draws.length) :
    ∃ e ∈ a.evald, visibleEqMc q' e := sorry

end Anysystem
