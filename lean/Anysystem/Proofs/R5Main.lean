import Anysystem.Proofs.R5Snap
import Anysystem.Proofs.R5Rel
import Anysystem.Proofs.SearchThmsOn
import Anysystem.Proofs.C11Congr
import Anysystem.Proofs.StagedThms
import Anysystem.Proofs.R5MainLemmas
/-!
# R5 — C04 end to end (partial: duplication and corruption rates zero — the DROP RATE IS ARBITRARY —, no crash/recover
after the snapshot, override-free program, exact time)

A simulation is stopped in state `q`; `ModelChecker::new` takes the snapshot `s₀` and an exploration from it (after
`McStarted`, no callback) finishes `Ok`.  If the simulation is instead continued for `k` steps to `q'`, the process-visible
state of `q'` (every process's state and local outbox) is the process-visible state of one of the states the exploration
evaluated — provided the exploration does not stop (goal / prune) at a state that still has pending events.

Chain: `timedRel_snapshot` (the simulator state is `TimedRel`-related to the reference state of its snapshot) and
`snapshot_sim'` (so is the snapshot, by `Sim'`); then per step R4 (`sim_step_refines_partial`: the simulator step is a
reduced-enabled reference step), R2 completeness (`alternatives_complete'`: the checker offers that step) and finally R3
(`search_ok_exhaustive_on` with C11's `GoodState` congruence: every reachable state has a representative among the
evaluated ones) and `key_covers` (equal keys have equal process-visible projections).

Changes with respect to the draft statements:
* `sim_step_matched` has the additional hypothesis `hsucc` (the exploration does not panic on the states it expands:
  `successors` of a reachable state with verdict `cont` is `ok`).  No lemma says that `successors` of a `Sim'`-related
  state cannot fail, and `ReachC.step` needs the successor list.  The main theorem does NOT assume it: it derives it from
  the `Ok` search result (`search_ok_reach_succ_ok` in `R5MainLemmas`: an `Ok` run computed the successors of every
  evaluated `cont` state, and by key congruence so does every reachable state).
* `sim_run_covered_partial` is proved exactly as drafted (the draw budget `4 * k * len` is enough: with
  `M := draws.length / (4 * k)` every handler call returns at most `M` actions, `4 * (k * M) ≤ draws.length`, and one step
  drops at most `4 * M` draws from the front of the stream, `sim_step_draws`).
* `R5MainDemo`: non-vacuity, full instantiation on the demo state with a kernel-evaluated `Ok` search.

Generalisation R6 (drop rate arbitrary): nothing changes in this file.  The restriction on the rates is part of
`TimedRel` (`NetRel.ratesZero`, now `duplRate = zero ∧ corruptRate = zero`), and one simulator step is still matched by at
most one reference step (`sim_step_refines_partial` keeps its conclusion: a send the simulator drops at random at send
time leaves a *zombie* flight in the reference state, which needs no step and is never in the way — see `R4.lean`), hence
by at most one expansion step of the checker.  `R6Demo.drop_covered` is the full instantiation with drop rate `⟨1⟩` on a
run in which a send is dropped at random.
-/
namespace Anysystem

variable {σ T : Type} [TimeOps T]

/-- the process-visible projection of a simulator state is that of a model-checker state -/
def visibleEqMc (q : Sim σ T) (e : McSys σ) : Prop :=
  ∀ n p pe, q.proc? n p = some pe → amGet? p (procsOf e) = some ⟨pe.st, pe.outbox⟩

/-- the checker's start state of the run: the snapshot after `McStarted` -/
def startedOf (s₀ : McSys σ) : McSys σ := { s₀ with trace := s₀.trace ++ [LogE.started] }

/-- the chain step with its frame facts: besides the invariant of `sim_step_matched`, the checker's network settings are
    untouched (so the simulator's `proc_locations` are, see `sim_step_procLoc`) -/
theorem sim_step_matched_aux [LawfulTime T] [DecidableEq σ] (bits : T → Nat) (laws : SnapTimeLaws bits) (h : Handler σ)
    (p : Preds σ) (hash : McSys.Key σ → Nat)
    (q q' : Sim σ T) (s s₁ : McSys σ) (r : RState σ) (gs : List (TimerGhost T))
    (hrel : TimedRel bits q r gs) (hsim : Sim' s r) (hmode : s.mode = .normal) (hk : SendsKnown h s)
    (hreach : ReachC (mcTSys {} h p hash) s₁ s)
    (hof : OverrideFreeFrom h .normal r)
    (hcont : ∀ x, ReachC (mcTSys {} h p hash) s₁ x → (∃ ids id, x.available = .ok ids ∧ id ∈ ids) → p.verdict x = .cont)
    (hsucc : ∀ x, ReachC (mcTSys {} h p hash) s₁ x → p.verdict x = .cont → ∃ cs, x.successors {} h = .ok cs)
    (hdelays : ∀ p st i a, a ∈ (h p st i).2 → ∀ name d once, a = .set name d once →
      TimeOps.le TimeOps.zero (TimeOps.ofBits d : T) = true ∧ bits (TimeOps.ofBits d : T) = d)
    (hknown : ∀ p st i a, a ∈ (h p st i).2 → ∀ m dst, a = .send m dst → (amGet? dst q.net.procLoc).isSome = true)
    (hdraws : ∀ d ∈ q.draws, LawfulTime.isDraw d) (hlen : ∀ p st i, 4 * (h p st i).2.length ≤ q.draws.length)
    (hstep : q.step (liftHandler h) = .ok (true, q')) :
    ∃ s' r' gs', TimedRel bits q' r' gs' ∧ Sim' s' r' ∧ s'.mode = .normal ∧ SendsKnown h s' ∧
      ReachC (mcTSys {} h p hash) s₁ s' ∧ OverrideFreeFrom h .normal r' ∧ s'.net = s.net := by
  rcases sim_step_refines_partial bits h q q' r gs hrel laws.bits_mono laws.add_mono_left hdelays hknown hdraws hlen
      hstep with ⟨gs', hrel'⟩ | ⟨l, r', gs', hen, hst, hrel'⟩
  · -- the popped event was addressed to a node without handler: the checker stays where it is
    exact ⟨s, r, gs', hrel', hsim, hmode, hk, hreach, hof, rfl⟩
  · -- a reduced-enabled reference step: R2 completeness offers it, the exploration expands `s`
    have hovf : r.overrideFree h l = true := hof [] r rfl l hen
    obtain ⟨ids, id, alts, alt, s', hav, hid, halts, halt, happ, hsim'⟩ :=
      alternatives_complete' h hsim hk (by rw [hmode]; exact hen) hst hovf
    have hv : p.verdict s = .cont := hcont s hreach ⟨ids, id, hav, hid⟩
    obtain ⟨cs, hcs⟩ := hsucc s hreach hv
    have hmem : s' ∈ cs := (mem_successors_iff h hcs s').mpr ⟨ids, id, alts, alt, hav, hid, halts, halt, happ⟩
    have hnet : s'.net = s.net := applyAlt_net h happ
    refine ⟨s', r', gs', hrel', hsim', (applyAlt_mode h happ).trans hmode, ?_,
      ReachC.step (S := mcTSys {} h p hash) hreach hv hcs hmem, ?_, hnet⟩
    · intro pr st i a ha m dst hm
      rw [hnet]
      exact hk pr st i a ha m dst hm
    · intro ls r'' hrun l' hen'
      refine hof (l :: ls) r'' ?_ l' hen'
      simp only [refRun, hen, ↓reduceIte, hst]
      exact hrun

/-- one simulator step is matched by at most one expansion step of the checker (invariant of the chain) -/
theorem sim_step_matched [LawfulTime T] [DecidableEq σ] (bits : T → Nat) (laws : SnapTimeLaws bits) (h : Handler σ)
    (p : Preds σ) (hash : McSys.Key σ → Nat)
    (q q' : Sim σ T) (s s₁ : McSys σ) (r : RState σ) (gs : List (TimerGhost T))
    (hrel : TimedRel bits q r gs) (hsim : Sim' s r) (hmode : s.mode = .normal) (hk : SendsKnown h s)
    (hreach : ReachC (mcTSys {} h p hash) s₁ s)
    (hof : OverrideFreeFrom h .normal r)
    (hcont : ∀ x, ReachC (mcTSys {} h p hash) s₁ x → (∃ ids id, x.available = .ok ids ∧ id ∈ ids) → p.verdict x = .cont)
    -- ADDED: the exploration does not panic on the states it expands (the main theorem derives this from the `Ok` search)
    (hsucc : ∀ x, ReachC (mcTSys {} h p hash) s₁ x → p.verdict x = .cont → ∃ cs, x.successors {} h = .ok cs)
    (hdelays : ∀ p st i a, a ∈ (h p st i).2 → ∀ name d once, a = .set name d once →
      TimeOps.le TimeOps.zero (TimeOps.ofBits d : T) = true ∧ bits (TimeOps.ofBits d : T) = d)
    (hknown : ∀ p st i a, a ∈ (h p st i).2 → ∀ m dst, a = .send m dst → (amGet? dst q.net.procLoc).isSome = true)
    (hdraws : ∀ d ∈ q.draws, LawfulTime.isDraw d) (hlen : ∀ p st i, 4 * (h p st i).2.length ≤ q.draws.length)
    (hstep : q.step (liftHandler h) = .ok (true, q')) :
    ∃ s' r' gs', TimedRel bits q' r' gs' ∧ Sim' s' r' ∧ s'.mode = .normal ∧ SendsKnown h s' ∧
      ReachC (mcTSys {} h p hash) s₁ s' ∧ OverrideFreeFrom h .normal r' := by
  obtain ⟨s', r', gs', h1, h2, h3, h4, h5, h6, _⟩ := sim_step_matched_aux bits laws h p hash q q' s s₁ r gs hrel hsim
    hmode hk hreach hof hcont hsucc hdelays hknown hdraws hlen hstep
  exact ⟨s', r', gs', h1, h2, h3, h4, h5, h6⟩

/-- `steps (k+1)` that finds an event every time is a `step` that finds one followed by `steps k` -/
theorem steps_succ_inv (hh : SHandler σ T) (k : Nat) (q q' : Sim σ T)
    (hrun : q.steps hh (k + 1) = .ok (true, q')) :
    ∃ q₁, q.step hh = .ok (true, q₁) ∧ q₁.steps hh k = .ok (true, q') := by
  simp only [Sim.steps] at hrun
  split at hrun
  · cases hrun
  · cases hrun
  · rename_i q₁ hq₁
    exact ⟨q₁, hq₁, hrun⟩

/-- the invariant of the chain along `k` simulator steps; `M` bounds the number of actions of one handler call -/
theorem sim_run_chain [LawfulTime T] [DecidableEq σ] (bits : T → Nat) (laws : SnapTimeLaws bits) (h : Handler σ)
    (p : Preds σ) (hash : McSys.Key σ → Nat) (s₁ : McSys σ)
    (hcont : ∀ x, ReachC (mcTSys {} h p hash) s₁ x → (∃ ids id, x.available = .ok ids ∧ id ∈ ids) → p.verdict x = .cont)
    (hsucc : ∀ x, ReachC (mcTSys {} h p hash) s₁ x → p.verdict x = .cont → ∃ cs, x.successors {} h = .ok cs)
    (hdelays : ∀ p st i a, a ∈ (h p st i).2 → ∀ name d once, a = .set name d once →
      TimeOps.le TimeOps.zero (TimeOps.ofBits d : T) = true ∧ bits (TimeOps.ofBits d : T) = d)
    (M : Nat) (hM : ∀ p st i, (h p st i).2.length ≤ M) (q' : Sim σ T) (k : Nat) :
    ∀ (q : Sim σ T) (s : McSys σ) (r : RState σ) (gs : List (TimerGhost T)),
      TimedRel bits q r gs → Sim' s r → s.mode = .normal → SendsKnown h s →
      ReachC (mcTSys {} h p hash) s₁ s → OverrideFreeFrom h .normal r →
      (∀ p st i a, a ∈ (h p st i).2 → ∀ m dst, a = .send m dst → (amGet? dst q.net.procLoc).isSome = true) →
      (∀ d ∈ q.draws, LawfulTime.isDraw d) → 4 * (k * M) ≤ q.draws.length →
      q.steps (liftHandler h) k = .ok (true, q') →
      ∃ s' r' gs', TimedRel bits q' r' gs' ∧ Sim' s' r' ∧ ReachC (mcTSys {} h p hash) s₁ s' := by
  induction k with
  | zero =>
    intro q s r gs hrel hsim _ _ hreach _ _ _ _ hrun
    simp only [Sim.steps, Except.ok.injEq, Prod.mk.injEq, true_and] at hrun
    subst hrun
    exact ⟨s, r, gs, hrel, hsim, hreach⟩
  | succ k ih =>
    intro q s r gs hrel hsim hmode hk hreach hof hknown hdraws hlen hrun
    obtain ⟨q₁, hstep, hrest⟩ := steps_succ_inv _ k q q' hrun
    have hkm : (k + 1) * M = k * M + M := Nat.succ_mul k M
    rw [hkm] at hlen
    have hlen1 : ∀ p st i, 4 * (h p st i).2.length ≤ q.draws.length := by
      intro pr st i
      have := hM pr st i
      omega
    obtain ⟨s', r', gs', hrel', hsim', hmode', hk', hreach', hof', hnet⟩ := sim_step_matched_aux bits laws h p hash q q₁
      s s₁ r gs hrel hsim hmode hk hreach hof hcont hsucc hdelays hknown hdraws hlen1 hstep
    obtain ⟨k0, hk0, hd0⟩ := sim_step_draws h q q₁ r gs hrel laws.bits_mono laws.add_mono_left hdelays hknown hdraws
      hlen1 M hM hstep
    -- `proc_locations` are untouched: both sides mirror the (unchanged) network settings of the checker
    have hloc : q₁.net.procLoc = q.net.procLoc := by
      rw [← hrel'.net.netLoc, hsim'.net_eq, hnet, ← hsim.net_eq, hrel.net.netLoc]
    refine ih q₁ s' r' gs' hrel' hsim' hmode' hk' hreach' hof' ?_ ?_ ?_ hrest
    · intro pr st i a ha m dst hm
      rw [hloc]
      exact hknown pr st i a ha m dst hm
    · intro d hd
      rw [hd0] at hd
      exact hdraws d (List.mem_of_mem_drop hd)
    · rw [hd0, List.length_drop]
      omega

/-- the snapshot explores in the default ordering mode -/
theorem snapshot_mode (bits : T → Nat) (q : Sim σ T) (s₀ : McSys σ) (hsnap : snapshot bits q = .ok s₀) :
    s₀.mode = .normal := by
  simp only [snapshot] at hsnap
  split at hsnap
  · cases hsnap
  · cases hsnap
    rfl

/-- **C04, end to end (partial: duplication and corruption rates zero, drop rate arbitrary)** -/
theorem sim_run_covered_partial [LawfulTime T] [DecidableEq σ] (bits : T → Nat) (laws : SnapTimeLaws bits) (h : Handler σ)
    (p : Preds σ) (hp : KeyBased p) (hash : McSys.Key σ → Nat)
    -- the simulation so far: `q` is related to some reference state (it is a state of a run that started quiet) and well formed
    (q : Sim σ T) (r : RState σ) (gs : List (TimerGhost T)) (hrel : TimedRel bits q r gs) (hwf : SnapWF q)
    -- the snapshot and an `Ok` exploration from it
    (s₀ : McSys σ) (hsnap : snapshot bits q = .ok s₀)
    (strat : Strat) (mode : CacheMode) (hm : ExactCache (mcTSys {} h p hash) mode) (fuel : Nat)
    (a : Acc (McSys σ) (McSys.Key σ))
    (hsearch : search (mcTSys {} h p hash) strat fuel (startedOf s₀) (Acc.fresh mode) = some (.ok, a))
    -- the program: no `set_timer` on a pending name (finding D1), sane delays, known destinations
    (hof : OverrideFreeFrom h .normal { (snapshotRef bits q) with trace := (snapshotRef bits q).trace ++ [LogE.started] })
    (hdelays : ∀ p st i a, a ∈ (h p st i).2 → ∀ name d once, a = .set name d once →
      TimeOps.le TimeOps.zero (TimeOps.ofBits d : T) = true ∧ bits (TimeOps.ofBits d : T) = d)
    (hknown : ∀ p st i a, a ∈ (h p st i).2 → ∀ m dst, a = .send m dst → (amGet? dst q.net.procLoc).isSome = true)
    -- the exploration stops (goal / prune) only at states without pending events
    (hcont : ∀ x, ReachC (mcTSys {} h p hash) (startedOf s₀) x → (∃ ids id, x.available = .ok ids ∧ id ∈ ids) →
      p.verdict x = .cont)
    -- the simulation continues for `k` steps, each of which finds an event
    (k : Nat) (q' : Sim σ T) (hrun : q.steps (liftHandler h) k = .ok (true, q'))
    (hdraws : ∀ d ∈ q.draws, LawfulTime.isDraw d)
    (hlen : ∀ p st i, 4 * k * (h p st i).2.length ≤ q.draws.length) :
    ∃ e ∈ a.evald, visibleEqMc q' e := by
  -- the start of the chain
  obtain ⟨gs₀, hrel₀'⟩ := timedRel_snapshot bits laws q r gs hrel
  have hrel₀ := TimedRel.withTrace bits q _ gs₀ hrel₀' ((snapshotRef bits q).trace ++ [LogE.started])
  have hsim₀ : Sim' (startedOf s₀) { (snapshotRef bits q) with trace := (snapshotRef bits q).trace ++ [LogE.started] } :=
    (snapshot_sim' bits q s₀ hwf hsnap).appendTrace [LogE.started]
  have hmode₀ : (startedOf s₀).mode = .normal := snapshot_mode bits q s₀ hsnap
  have hk₀ : SendsKnown h (startedOf s₀) := snapshot_sendsKnown bits h q s₀ hsnap hknown
  have hgood : GoodState h (startedOf s₀).net .normal (startedOf s₀) := ⟨rfl, hmode₀, hk₀, _, hsim₀, hof⟩
  have hcong := mcTSys_congruentOn h p hp hash (startedOf s₀).net .normal
  have hclosed := goodState_closed h p hash (startedOf s₀).net .normal
  have hsucc : ∀ x, ReachC (mcTSys {} h p hash) (startedOf s₀) x → p.verdict x = .cont →
      ∃ cs, x.successors {} h = .ok cs :=
    search_ok_reach_succ_ok (mcTSys {} h p hash) _ hcong hclosed strat mode hm fuel (startedOf s₀) hgood a hsearch
  -- the chain
  have hchain : ∃ s' r' gs', TimedRel bits q' r' gs' ∧ Sim' s' r' ∧ ReachC (mcTSys {} h p hash) (startedOf s₀) s' := by
    cases k with
    | zero =>
      simp only [Sim.steps, Except.ok.injEq, Prod.mk.injEq, true_and] at hrun
      subst hrun
      exact ⟨_, _, gs₀, hrel₀, hsim₀, ReachC.refl⟩
    | succ k =>
      have hM : ∀ pr st i, (h pr st i).2.length ≤ q.draws.length / (4 * (k + 1)) := by
        intro pr st i
        rw [Nat.le_div_iff_mul_le (by omega)]
        have := hlen pr st i
        rw [Nat.mul_comm]
        exact this
      refine sim_run_chain bits laws h p hash (startedOf s₀) hcont hsucc hdelays _ hM q' (k + 1) q (startedOf s₀) _ gs₀
        hrel₀ hsim₀ hmode₀ hk₀ ReachC.refl hof hknown hdraws ?_ hrun
      rw [← Nat.mul_assoc]
      exact Nat.mul_div_le _ _
  -- R3 + C11: a key-representative of the reached checker state was evaluated; its process-visible part is the same
  obtain ⟨s', r', gs', hrel', hsim', hreach'⟩ := hchain
  obtain ⟨⟨e, he, hkey⟩, _⟩ := search_ok_exhaustive_on (mcTSys {} h p hash) _ hcong hclosed strat mode hm fuel
    (startedOf s₀) hgood a hsearch s' hreach'
  have hkey' : e.key = s'.key := hkey
  have hprocs : procsOf e = procsOf s' := procsOf_eq_of_view e s' (key_covers e s' hkey').2
  refine ⟨e, he, ?_⟩
  intro n pr pe hq
  rw [hprocs, ← hsim'.procs_eq]
  exact (hrel'.proc.procs n pr pe hq).1

/-! ## Non-vacuity: the demo state of `R4Demo` / `R5Demo`, two further steps, a concrete `Ok` exploration -/
namespace R5MainDemo

open R4Demo R5Demo

/-- trivial predicates: the invariant never fails, the goal is "no offered event", nothing is pruned -/
def demoP : Preds Nat := { goal := fun s => if s.events.available.isEmpty then some "done" else none }

theorem demoP_keyBased : KeyBased demoP := by
  intro a b hk
  have he : a.events = b.events := (key_covers a b hk).1
  simp only [demoP, he, and_self]

/-- the exploration with `demoP` stops only at states without an offered event -/
theorem demoP_cont (x : McSys Nat) (hx : ∃ ids id, x.available = .ok ids ∧ id ∈ ids) : demoP.verdict x = .cont := by
  obtain ⟨ids, id, hav, hid⟩ := hx
  have hne : x.events.available.isEmpty = false := by
    cases hem : x.events.available with
    | cons a l => rfl
    | nil =>
      exfalso
      simp only [McSys.available, Store.availableEvents, hem] at hav
      split at hav
      · cases hav
      · split at hav
        · cases hav; cases hid
        · simp only [List.any_nil, Bool.false_eq_true, if_false, List.filter_nil, List.isEmpty_nil, if_true] at hav
          cases hav; cases hid
  simp only [Preds.verdict, demoP, hne, Bool.false_eq_true, if_false]

/-- `demoH` sets timers only on local messages, which the reference steps never feed it -/
theorem demoH_overrideFree (r : RState Nat) (l : Label) : r.overrideFree demoH l = true := by
  cases l with
  | deliver i =>
    simp only [RState.overrideFree]
    split
    · rfl
    · split
      · rfl
      · rfl
  | fire j =>
    simp only [RState.overrideFree]
    split
    · rfl
    · split
      · rfl
      · rfl
  | drop i => rfl
  | dup i => rfl
  | corrupt i => rfl

/-- `q1` of `R4Demo` with sixteen draws instead of eight (two steps of a program that may return two actions) -/
def q1d : Sim Nat Ticks := { q1 with draws := List.replicate 16 ⟨1⟩ }

theorem q1d_wf : SnapWF q1d :=
  ⟨q1_wf.nodesSorted, q1_wf.procsSorted, q1_wf.procsNodup, q1_wf.loc, q1_wf.locBack, q1_wf.timerLoc, q1_wf.timerUniq,
    q1_wf.pendMap, q1_wf.noCrashedTimer, q1_wf.noCrashedSrc, q1_wf.idsNodup⟩

/-- the snapshot of `q1d` -/
def s0 : McSys Nat := match snapshot bitsT q1d with
  | .ok s => s
  | .error _ => {}

theorem s0_eq : snapshot bitsT q1d = .ok s0 := rfl

/-- the state after two further steps: the message is delivered, then the timer fires -/
def q3 : Sim Nat Ticks := match q1d.steps (liftHandler demoH) 2 with
  | .ok (_, s) => s
  | .error _ => q1d

theorem q3_eq : q1d.steps (liftHandler demoH) 2 = .ok (true, q3) := rfl

example : q3.events = [] ∧ q3.clock = ⟨5⟩ ∧ (q3.proc? 0 1).map (·.st) = some 2 := by decide

def demoSearch (strat : Strat) :=
  search (mcTSys {} demoH demoP (fun _ => 0)) strat 10 (startedOf s0) (Acc.fresh .full)

def isOkRes : Option (Res (McSys Nat) × Acc (McSys Nat) (McSys.Key Nat)) → Bool
  | some (.ok, _) => true
  | _ => false

/-- both strategies finish `Ok` within fuel 10 (kernel evaluation; four states are evaluated) -/
theorem demoSearch_ok : isOkRes (demoSearch .dfs) = true ∧ isOkRes (demoSearch .bfs) = true := by decide +kernel

theorem isOkRes_some {x : Option (Res (McSys Nat) × Acc (McSys Nat) (McSys.Key Nat))} (h : isOkRes x = true) :
    ∃ a, x = some (.ok, a) := by
  cases x with
  | none => cases h
  | some y =>
    obtain ⟨res, a⟩ := y
    cases res with
    | ok => exact ⟨a, rfl⟩
    | err m e => cases h
    | panic m => cases h

/-- **Non-vacuity of `sim_run_covered_partial`, full instantiation**: for the demo state (one queued timer, one queued
    message), both strategies and the full cache, the exploration from the snapshot finishes `Ok` and the
    process-visible state after two further simulator steps is that of an evaluated state. -/
theorem demo_covered (strat : Strat) :
    ∃ a, demoSearch strat = some (.ok, a) ∧ ∃ e ∈ a.evald, visibleEqMc q3 e := by
  have hok : isOkRes (demoSearch strat) = true := by
    cases strat with
    | dfs => exact demoSearch_ok.1
    | bfs => exact demoSearch_ok.2
  obtain ⟨a, ha⟩ := isOkRes_some hok
  refine ⟨a, ha, ?_⟩
  obtain ⟨r, gs, hrel, _, _, hdel, hkn, _, _, _, _⟩ := demo_hyps
  have hrel' : TimedRel bitsT q1d r gs := hrel.sameView (Sim.sameView_draws q1 (List.replicate 16 ⟨1⟩))
  refine sim_run_covered_partial bitsT ticks_snapTimeLaws demoH demoP demoP_keyBased (fun _ => 0) q1d r gs hrel' q1d_wf
    s0 s0_eq strat .full (Or.inl rfl) 10 a ha ?_ hdel hkn (fun x _ hx => demoP_cont x hx) 2 q3 q3_eq ?_ ?_
  · intro ls r' _ l _
    exact demoH_overrideFree r' l
  · intro d hd
    have : q1d.draws = List.replicate 16 ⟨1⟩ := rfl
    rw [this, List.mem_replicate] at hd
    rw [hd.2]; show (1 : Nat) < 1000; omega
  · intro p st i
    have : q1d.draws.length = 16 := rfl
    rw [this]
    cases i <;> simp [demoH]

/-- the covering evaluated state indeed shows process 1 in state 2 with an empty outbox -/
example (strat : Strat) : ∃ a, demoSearch strat = some (.ok, a) ∧
    ∃ e ∈ a.evald, amGet? 1 (procsOf e) = some ⟨2, []⟩ := by
  obtain ⟨a, ha, e, he, hv⟩ := demo_covered strat
  refine ⟨a, ha, e, he, ?_⟩
  have hq : q3.proc? 0 1 = some (match q3.proc? 0 1 with | some pe => pe | none => pe1) := rfl
  have := hv 0 1 _ hq
  exact this

end R5MainDemo

end Anysystem
