import Anysystem.Proofs.SpecLemmas
/-!
# The dependency resolver represents the pending list
-/
namespace Anysystem

/-- what the resolver's three tables say about the abstract pending list `A` -/
structure RRep (r : Resolver) (A : List (Nat × Ev)) : Prop where
  timers_sound : ∀ id info, amGet? id r.timers = some info →
      (∃ n, amGet? id A = some (.timer info.proc n info.delay)) ∧
      ∀ b, b ∈ info.blockers ↔
        (b < id ∧ ∃ n' d', amGet? b A = some (.timer info.proc n' d') ∧ d' ≤ info.delay)
  timers_complete : ∀ id p n d, amGet? id A = some (.timer p n d) →
      (amGet? id r.timers).isSome = true
  fifo_eq : ∀ k, (amGet? k r.messages).getD [] = fifo A k
  pts_iff : ∀ p i, i ∈ (amGet? p r.procTimers).getD [] ↔ ∃ n d, amGet? i A = some (.timer p n d)

theorem RRep.empty : RRep {} [] := by
  constructor <;> simp [amGet?, fifo]

theorem amGet?_none_of_fresh {A : List (Nat × Ev)} {id : Nat} (h : id ∉ keys A) :
    amGet? id A = none := by
  rw [amGet?_eq_none_iff]
  intro x hx e
  exact h (List.mem_map.mpr ⟨x, hx, e⟩)

theorem timer_lookup_append {A : List (Nat × Ev)} {id : Nat} {e : Ev} (hfresh : id ∉ keys A)
    {b p n d : Nat} (hne : e ≠ .timer p n d) :
    amGet? b (A ++ [(id, e)]) = some (.timer p n d) ↔ amGet? b A = some (.timer p n d) := by
  rw [amGet?_append_fresh e hfresh]
  split
  · subst_vars
    rw [amGet?_none_of_fresh hfresh]
    simp [hne]
  · rfl

theorem timer_lookup_erase {A : List (Nat × Ev)} {id : Nat} {eid : Ev}
    (hid : amGet? id A = some eid) {b p n d : Nat} (hne : eid ≠ .timer p n d) :
    amGet? b (A.filter (·.1 != id)) = some (.timer p n d) ↔ amGet? b A = some (.timer p n d) := by
  rw [amGet?_erase]
  split
  · subst_vars
    rw [hid]
    simp [hne]
  · rfl

theorem fifo_singleton_msg (id : Nat) (m : Msg) (s d : Nat) (o : Opts) (k) :
    fifo [(id, Ev.msg m s d o)] k = if k = (m, s, d) then [id] else [] := by
  simp only [fifo, List.filter_cons, isKey, List.filter_nil]
  by_cases h : (m, s, d) = k
  · subst h; simp
  · have : ¬ k = (m, s, d) := fun e => h e.symm
    simp [h, this]

theorem fifo_singleton_timer (id p n d : Nat) (k) : fifo [(id, Ev.timer p n d)] k = [] := by
  simp [fifo, isKey]

theorem RRep.addMessage {r : Resolver} {A : List (Nat × Ev)} (h : RRep r A)
    (m : Msg) (s d id : Nat) (o : Opts) (hfresh : id ∉ keys A) :
    RRep (r.addMessage m s d id).1 (A ++ [(id, .msg m s d o)]) ∧
    (r.addMessage m s d id).2 = (fifo A (m, s, d)).isEmpty := by
  have hne : ∀ p n dl, Ev.msg m s d o ≠ .timer p n dl := by intro p n dl; simp
  refine ⟨⟨?_, ?_, ?_, ?_⟩, ?_⟩
  · intro id' info hg
    simp only [Resolver.addMessage] at hg
    obtain ⟨⟨n, hn⟩, hb⟩ := h.timers_sound id' info hg
    refine ⟨⟨n, (timer_lookup_append hfresh (hne _ _ _)).mpr hn⟩, fun b => ?_⟩
    rw [hb b]
    simp only [timer_lookup_append hfresh (hne _ _ _)]
  · intro id' p n dl hg
    rw [timer_lookup_append hfresh (hne _ _ _)] at hg
    exact h.timers_complete id' p n dl hg
  · intro k
    simp only [Resolver.addMessage, amGet?_amInsert, fifo_append, fifo_singleton_msg]
    split
    · subst_vars
      simp [h.fifo_eq]
    · simp [h.fifo_eq]
  · intro p i
    simp only [Resolver.addMessage]
    rw [h.pts_iff]
    simp only [timer_lookup_append hfresh (hne _ _ _)]
  · simp only [Resolver.addMessage, h.fifo_eq]
    cases fifo A (m, s, d) <;> simp

/-! ## `add_timer` -/

/-- the blocker list computed by `add_timer` -/
def addTimerBlockers (r : Resolver) (proc delay : Nat) : List Nat :=
  ((amGet? proc r.procTimers).getD []).filter (fun i => match amGet? i r.timers with
    | some info => info.delay ≤ delay
    | none => false)

theorem addTimer_eq (r : Resolver) (proc delay id : Nat) :
    r.addTimer proc delay id =
      if ((amGet? proc r.procTimers).getD []).any (fun i => (amGet? i r.timers).isNone) then
        .error "add_timer: proc_timers refers to a missing timer"
      else if amHas id r.timers then .error "event with such id already exists"
      else .ok ({ r with
          timers := amInsert natLt id
            { proc := proc, delay := delay, blockers := addTimerBlockers r proc delay } r.timers,
          procTimers := amInsert natLt proc (setInsert id ((amGet? proc r.procTimers).getD []))
            r.procTimers },
        (addTimerBlockers r proc delay).isEmpty) := rfl

theorem RRep.mem_addTimerBlockers {r : Resolver} {A : List (Nat × Ev)} (h : RRep r A)
    (p dl b : Nat) :
    b ∈ addTimerBlockers r p dl ↔ ∃ n' d', amGet? b A = some (.timer p n' d') ∧ d' ≤ dl := by
  simp only [addTimerBlockers, List.mem_filter, h.pts_iff]
  constructor
  · rintro ⟨⟨n', d', hg⟩, hc⟩
    have hs := h.timers_complete b p n' d' hg
    obtain ⟨info, hi⟩ := Option.isSome_iff_exists.mp hs
    obtain ⟨⟨n, hn⟩, _⟩ := h.timers_sound b info hi
    rw [hg] at hn
    simp only [Option.some.injEq, Ev.timer.injEq] at hn
    rw [hi] at hc
    simp only [decide_eq_true_eq] at hc
    exact ⟨n', d', hg, by omega⟩
  · rintro ⟨n', d', hg, hle⟩
    refine ⟨⟨n', d', hg⟩, ?_⟩
    have hs := h.timers_complete b p n' d' hg
    obtain ⟨info, hi⟩ := Option.isSome_iff_exists.mp hs
    obtain ⟨⟨n, hn⟩, _⟩ := h.timers_sound b info hi
    rw [hg] at hn
    simp only [Option.some.injEq, Ev.timer.injEq] at hn
    rw [hi]
    simp only [decide_eq_true_eq]
    omega

theorem RRep.addTimer {r : Resolver} {A : List (Nat × Ev)} (h : RRep r A)
    (p nm dl id : Nat) (hfresh : id ∉ keys A) (hgt : ∀ x ∈ A, x.1 < id) :
    ∃ r' b, r.addTimer p dl id = .ok (r', b) ∧ RRep r' (A ++ [(id, .timer p nm dl)]) ∧
      (b = true ↔ ∀ b' n' d', amGet? b' A = some (.timer p n' d') → ¬ d' ≤ dl) := by
  have hany : ((amGet? p r.procTimers).getD []).any (fun i => (amGet? i r.timers).isNone) = false := by
    rw [List.any_eq_false]
    intro i hi
    obtain ⟨n, d, hg⟩ := (h.pts_iff p i).mp hi
    have := h.timers_complete i p n d hg
    cases hh : amGet? i r.timers <;> simp_all
  have hhas : amHas id r.timers = false := by
    rw [amHas_eq]
    cases hh : amGet? id r.timers with
    | none => rfl
    | some info =>
      obtain ⟨⟨n, hn⟩, _⟩ := h.timers_sound id info hh
      rw [amGet?_none_of_fresh hfresh] at hn
      simp at hn
  have hlt : ∀ {j : Nat} {e : Ev}, amGet? j A = some e → j < id := by
    intro j e hg
    exact hgt (j, e) (amGet?_eq_some_mem hg)
  rw [addTimer_eq]
  simp only [hany, hhas, Bool.false_eq_true, ↓reduceIte]
  refine ⟨_, _, rfl, ⟨?_, ?_, ?_, ?_⟩, ?_⟩
  · intro id' info hg
    simp only [amGet?_amInsert] at hg
    split at hg
    · subst_vars
      simp only [Option.some.injEq] at hg
      subst hg
      simp only
      refine ⟨⟨nm, by rw [amGet?_append_fresh _ hfresh]; simp⟩, fun b => ?_⟩
      rw [h.mem_addTimerBlockers]
      constructor
      · rintro ⟨n', d', hg, hle⟩
        have hb := hlt hg
        refine ⟨hb, n', d', ?_, hle⟩
        rw [amGet?_append_fresh _ hfresh]
        simp [Nat.ne_of_lt hb, hg]
      · rintro ⟨hb, n', d', hg, hle⟩
        rw [amGet?_append_fresh _ hfresh] at hg
        simp only [Nat.ne_of_lt hb, ↓reduceIte] at hg
        exact ⟨n', d', hg, hle⟩
    · rename_i hne
      obtain ⟨⟨n, hn⟩, hb⟩ := h.timers_sound id' info hg
      have hid' := hlt hn
      refine ⟨⟨n, by rw [amGet?_append_fresh _ hfresh]; simp [hne, hn]⟩, fun b => ?_⟩
      rw [hb b]
      constructor
      · rintro ⟨hlt', n', d', hg', hle⟩
        refine ⟨hlt', n', d', ?_, hle⟩
        rw [amGet?_append_fresh _ hfresh]
        have : b ≠ id := by omega
        simp [this, hg']
      · rintro ⟨hlt', n', d', hg', hle⟩
        refine ⟨hlt', n', d', ?_, hle⟩
        rw [amGet?_append_fresh _ hfresh] at hg'
        have : b ≠ id := by omega
        simpa [this] using hg'
  · intro id' p' n' d' hg
    simp only [amGet?_amInsert]
    split
    · rfl
    · rename_i hne
      rw [amGet?_append_fresh _ hfresh] at hg
      simp only [hne, ↓reduceIte] at hg
      exact h.timers_complete id' p' n' d' hg
  · intro k
    simp only [fifo_append, fifo_singleton_timer, List.append_nil]
    exact h.fifo_eq k
  · intro p' i
    simp only [amGet?_amInsert, amGet?_append_fresh _ hfresh]
    by_cases hp : p' = p
    · subst hp
      simp only [↓reduceIte, Option.getD_some, mem_setInsert, h.pts_iff]
      by_cases hi : i = id
      · subst hi; simp
      · simp [hi]
    · simp only [hp, ↓reduceIte, h.pts_iff]
      by_cases hi : i = id
      · subst hi
        simp only [↓reduceIte, Option.some.injEq, Ev.timer.injEq]
        rw [amGet?_none_of_fresh hfresh]
        constructor
        · rintro ⟨_, _, hh⟩; simp at hh
        · rintro ⟨_, _, hh, _⟩; exact absurd hh.symm hp
      · simp [hi]
  · simp only [List.isEmpty_iff, List.eq_nil_iff_forall_not_mem, h.mem_addTimerBlockers]
    constructor
    · intro hh b' n' d' hg hle
      exact hh b' ⟨n', d', hg, hle⟩
    · rintro hh b' ⟨n', d', hg, hle⟩
      exact hh b' n' d' hg hle

/-! ## `remove_message_by_id` -/

theorem eraseIdx_idxOf (q : List Nat) (id : Nat) : q.eraseIdx (q.idxOf id) = q.erase id := by
  induction q with
  | nil => simp
  | cons x xs ih =>
    by_cases h : x = id
    · subst h; simp
    · have h' : (x == id) = false := by simpa using h
      simp [List.idxOf_cons, h', ih]

theorem idxOf_eq_zero (q : List Nat) (id : Nat) (h : id ∈ q) :
    (q.idxOf id == 0) = true ↔ q.head? = some id := by
  cases q with
  | nil => simp at h
  | cons x xs =>
    by_cases h : x = id
    · subst h; simp
    · have h' : (x == id) = false := by simpa using h
      simp [List.idxOf_cons, h', h]

theorem RRep.removeMessage {r : Resolver} {A : List (Nat × Ev)} {n : Nat} (h : RRep r A)
    (hinv : PInv A n) {m : Msg} {s d id : Nat} {o : Opts}
    (hid : amGet? id A = some (.msg m s d o)) :
    ∃ r' unb, r.removeMessageById m s d id = .ok (r', unb) ∧
      RRep r' (A.filter (·.1 != id)) ∧
      ∀ u, unb = some u ↔ ((fifo A (m, s, d)).head? = some id ∧
        (fifo (A.filter (·.1 != id)) (m, s, d)).head? = some u) := by
  have hnd := hinv.nodup
  have hmem : id ∈ fifo A (m, s, d) := (mem_fifo hnd _ id).mpr ⟨_, hid, by simp [isKey]⟩
  have hget : amGet? (m, s, d) r.messages = some (fifo A (m, s, d)) := by
    have := h.fifo_eq (m, s, d)
    cases hh : amGet? (m, s, d) r.messages with
    | none =>
      rw [hh] at this
      simp only [Option.getD_none] at this
      rw [← this] at hmem
      simp at hmem
    | some q0 =>
      rw [hh] at this
      simpa using this
  have hq' : (fifo A (m, s, d)).eraseIdx ((fifo A (m, s, d)).idxOf id)
      = fifo (A.filter (·.1 != id)) (m, s, d) := by
    rw [eraseIdx_idxOf, (fifo_nodup hnd _).erase_eq_filter, fifo_filter]
  have hc : (fifo A (m, s, d)).contains id = true := by simpa using hmem
  have hother : ∀ k, k ≠ (m, s, d) → fifo (A.filter (·.1 != id)) k = fifo A k := by
    intro k hk
    rw [fifo_filter, List.filter_eq_self]
    intro j hj
    simp only [bne_iff_ne, ne_eq]
    intro e
    subst e
    obtain ⟨e', hg, hkey⟩ := (mem_fifo hnd k j).mp hj
    rw [hid] at hg
    cases hg
    simp only [isKey, decide_eq_true_eq] at hkey
    exact hk hkey.symm
  have hne : ∀ p n dl, Ev.msg m s d o ≠ .timer p n dl := by intros; simp
  have hts : ∀ id' info, amGet? id' r.timers = some info →
      (∃ n, amGet? id' (A.filter (·.1 != id)) = some (.timer info.proc n info.delay)) ∧
      ∀ b, b ∈ info.blockers ↔
        (b < id' ∧ ∃ n' d', amGet? b (A.filter (·.1 != id)) = some (.timer info.proc n' d') ∧
          d' ≤ info.delay) := by
    intro id' info hg
    obtain ⟨⟨n, hn⟩, hb⟩ := h.timers_sound id' info hg
    refine ⟨⟨n, (timer_lookup_erase hid (hne _ _ _)).mpr hn⟩, fun b => ?_⟩
    rw [hb b]
    simp only [timer_lookup_erase hid (hne _ _ _)]
  have htc : ∀ id' p n d', amGet? id' (A.filter (·.1 != id)) = some (.timer p n d') →
      (amGet? id' r.timers).isSome = true := by
    intro id' p n d' hg
    rw [timer_lookup_erase hid (hne _ _ _)] at hg
    exact h.timers_complete id' p n d' hg
  have hpts : ∀ p i, i ∈ (amGet? p r.procTimers).getD [] ↔
      ∃ n d', amGet? i (A.filter (·.1 != id)) = some (.timer p n d') := by
    intro p i
    rw [h.pts_iff]
    simp only [timer_lookup_erase hid (hne _ _ _)]
  simp only [Resolver.removeMessageById, hget, hc, Bool.not_true, Bool.false_eq_true, ↓reduceIte,
    hq']
  split
  · rename_i hemp
    rw [List.isEmpty_iff] at hemp
    refine ⟨_, _, rfl, ⟨hts, htc, ?_, hpts⟩, ?_⟩
    · intro k
      simp only [amGet?_amErase]
      split
      · subst_vars; simp [hemp]
      · rename_i hk
        rw [hother k hk]
        exact h.fifo_eq k
    · intro u
      simp [hemp]
  · rename_i hemp
    have hfe : ∀ k, (amGet? k (amInsert mkeyLt (m, s, d)
        (fifo (A.filter (·.1 != id)) (m, s, d)) r.messages)).getD [] =
        fifo (A.filter (·.1 != id)) k := by
      intro k
      simp only [amGet?_amInsert]
      split
      · subst_vars; simp
      · rename_i hk
        rw [hother k hk]
        exact h.fifo_eq k
    split
    · rename_i hpos
      rw [idxOf_eq_zero _ _ hmem] at hpos
      refine ⟨_, _, rfl, ⟨hts, htc, hfe, hpts⟩, ?_⟩
      intro u
      simp [hpos]
    · rename_i hpos
      rw [idxOf_eq_zero _ _ hmem] at hpos
      refine ⟨_, _, rfl, ⟨hts, htc, hfe, hpts⟩, ?_⟩
      intro u
      simp [hpos]

/-! ## `remove_timer` -/

/-- what the loop of `remove_timer` does to one timer entry -/
def eraseBlk (id : Nat) (info : TimerInfo) : TimerInfo :=
  { info with blockers := setErase id info.blockers }

theorem eraseBlk_idem (id : Nat) (info : TimerInfo) :
    eraseBlk id (eraseBlk id info) = eraseBlk id info := by
  simp [eraseBlk, setErase, List.filter_filter]

theorem unblockLoop_spec (id : Nat) (os : List Nat) (timers : List (Nat × TimerInfo))
    (ub : List Nat) (hsome : ∀ o ∈ os, (amGet? o timers).isSome = true) :
    ∃ timers' ub', Resolver.unblockLoop id os timers ub = .ok (timers', ub') ∧
      (∀ k, amGet? k timers' =
        if k ∈ os then (amGet? k timers).map (eraseBlk id) else amGet? k timers) ∧
      (∀ u, u ∈ ub' ↔ u ∈ ub ∨
        (u ∈ os ∧ ∃ info, amGet? u timers = some info ∧ (eraseBlk id info).blockers = [])) := by
  induction os generalizing timers ub with
  | nil => exact ⟨timers, ub, rfl, by simp, by simp⟩
  | cons o os ih =>
    obtain ⟨info, hinfo⟩ := Option.isSome_iff_exists.mp (hsome o (by simp))
    have heq : Resolver.unblockLoop id (o :: os) timers ub =
        Resolver.unblockLoop id os (amInsert natLt o (eraseBlk id info) timers)
          (if (eraseBlk id info).blockers.isEmpty then setInsert o ub else ub) := by
      simp only [Resolver.unblockLoop, hinfo]
      rfl
    have hsome' : ∀ o' ∈ os,
        (amGet? o' (amInsert natLt o (eraseBlk id info) timers)).isSome = true := by
      intro o' ho'
      rw [amGet?_amInsert]
      split
      · rfl
      · exact hsome o' (by simp [ho'])
    obtain ⟨timers', ub', hloop, hT, hU⟩ := ih _ _ hsome'
    refine ⟨timers', ub', heq.trans hloop, ?_, ?_⟩
    · intro k
      rw [hT k, amGet?_amInsert]
      by_cases hk : k = o
      · subst hk
        simp [hinfo, eraseBlk_idem]
      · simp [hk]
    · intro u
      rw [hU u]
      simp only [amGet?_amInsert, List.mem_cons]
      by_cases hu : u = o
      · subst hu
        simp only [↓reduceIte, Option.some.injEq, exists_eq_left', eraseBlk_idem, true_or,
          true_and, hinfo]
        by_cases hb : (eraseBlk id info).blockers = []
        · simp [hb, mem_setInsert]
        · have : (eraseBlk id info).blockers.isEmpty = false := by
            cases hbb : (eraseBlk id info).blockers with
            | nil => exact absurd hbb hb
            | cons _ _ => rfl
          simp [hb, this]
      · simp only [hu, ↓reduceIte, false_or]
        split
        · simp [mem_setInsert, hu]
        · rfl

theorem RRep.removeTimer {r : Resolver} {A : List (Nat × Ev)} {n : Nat} (h : RRep r A)
    (hinv : PInv A n) {p nm dl id : Nat} (hid : amGet? id A = some (.timer p nm dl)) :
    ∃ r' unb, r.removeTimer id = .ok (r', unb) ∧ RRep r' (A.filter (·.1 != id)) ∧
      ∀ u, u ∈ unb ↔
        ∃ info, amGet? u r'.timers = some info ∧ info.proc = p ∧ info.blockers = [] := by
  obtain ⟨t, ht⟩ := Option.isSome_iff_exists.mp (h.timers_complete id p nm dl hid)
  have htp : t.proc = p := by
    obtain ⟨⟨n', hn⟩, _⟩ := h.timers_sound id t ht
    rw [hid] at hn
    simp only [Option.some.injEq, Ev.timer.injEq] at hn
    exact hn.1.symm
  have hidpts : id ∈ (amGet? p r.procTimers).getD [] := (h.pts_iff p id).mpr ⟨nm, dl, hid⟩
  obtain ⟨pts, hpts⟩ : ∃ pts, amGet? p r.procTimers = some pts := by
    cases hh : amGet? p r.procTimers with
    | none => rw [hh] at hidpts; simp at hidpts
    | some pts => exact ⟨pts, rfl⟩
  have hmem : ∀ i, i ∈ pts ↔ ∃ n d, amGet? i A = some (.timer p n d) := by
    intro i
    have := h.pts_iff p i
    rwa [hpts] at this
  have hcont : pts.contains id = true := by
    rw [hpts] at hidpts
    simpa using hidpts
  have hsome : ∀ o ∈ setErase id pts, (amGet? o (amErase id r.timers)).isSome = true := by
    intro o ho
    rw [mem_setErase] at ho
    obtain ⟨n', d', hg⟩ := (hmem o).mp ho.2
    rw [amGet?_amErase]
    simp only [ho.1, ↓reduceIte]
    exact h.timers_complete o p n' d' hg
  obtain ⟨timers', ub', hloop, hT, hU⟩ := unblockLoop_spec id (setErase id pts) _ [] hsome
  -- characterisation of the new timers table
  have hTin : ∀ k, k ∈ setErase id pts → ∃ info, amGet? k r.timers = some info ∧
      amGet? k timers' = some (eraseBlk id info) ∧ k ≠ id ∧ info.proc = p := by
    intro k hk
    have hk' := (mem_setErase _ _ _).mp hk
    obtain ⟨n', d', hg⟩ := (hmem k).mp hk'.2
    obtain ⟨info, hi⟩ := Option.isSome_iff_exists.mp (h.timers_complete k p n' d' hg)
    refine ⟨info, hi, ?_, hk'.1, ?_⟩
    · rw [hT k]
      simp [hk, amGet?_amErase, hk'.1, hi]
    · obtain ⟨⟨n'', hn⟩, _⟩ := h.timers_sound k info hi
      rw [hg] at hn
      simp only [Option.some.injEq, Ev.timer.injEq] at hn
      exact hn.1.symm
  have hTout : ∀ k info, k ∉ setErase id pts → amGet? k timers' = some info →
      amGet? k r.timers = some info ∧ k ≠ id ∧ info.proc ≠ p := by
    intro k info hk hg
    rw [hT k] at hg
    simp only [hk, ↓reduceIte, amGet?_amErase] at hg
    split at hg
    · simp at hg
    · rename_i hne
      refine ⟨hg, hne, ?_⟩
      intro hp
      obtain ⟨⟨n', hn⟩, _⟩ := h.timers_sound k info hg
      rw [hp] at hn
      exact hk ((mem_setErase _ _ _).mpr ⟨hne, (hmem k).mpr ⟨n', _, hn⟩⟩)
  have hrep : ∀ pt', (∀ p' i, i ∈ (amGet? p' pt').getD [] ↔
        if p' = p then i ∈ setErase id pts else i ∈ (amGet? p' r.procTimers).getD []) →
      RRep { r with timers := timers', procTimers := pt' } (A.filter (·.1 != id)) := by
    intro pt' hpt'
    refine ⟨?_, ?_, ?_, ?_⟩
    · intro k info' hk
      simp only at hk
      by_cases hkp : k ∈ setErase id pts
      · obtain ⟨info, hi, hi', hkne, hip⟩ := hTin k hkp
        rw [hi'] at hk
        simp only [Option.some.injEq] at hk
        subst hk
        obtain ⟨⟨n', hn⟩, hb⟩ := h.timers_sound k info hi
        refine ⟨⟨n', ?_⟩, fun b => ?_⟩
        · simp only [eraseBlk, amGet?_erase, hkne, ↓reduceIte]
          exact hn
        · simp only [eraseBlk, mem_setErase, hb b, amGet?_erase]
          by_cases hbid : b = id
          · subst hbid; simp
          · simp [hbid]
      · obtain ⟨hi, hkne, hip⟩ := hTout k info' hkp hk
        obtain ⟨⟨n', hn⟩, hb⟩ := h.timers_sound k info' hi
        have hne : ∀ n' d', Ev.timer p nm dl ≠ .timer info'.proc n' d' := by
          intro n' d' e
          simp only [Ev.timer.injEq] at e
          exact hip e.1.symm
        refine ⟨⟨n', (timer_lookup_erase hid (hne _ _)).mpr hn⟩, fun b => ?_⟩
        rw [hb b]
        simp only [timer_lookup_erase hid (hne _ _)]
    · intro k p' n' d' hg
      simp only
      rw [amGet?_erase] at hg
      split at hg
      · simp at hg
      · rename_i hkne
        have hs := h.timers_complete k p' n' d' hg
        rw [hT k]
        split
        · obtain ⟨info, hi⟩ := Option.isSome_iff_exists.mp hs
          simp [amGet?_amErase, hkne, hi]
        · simpa [amGet?_amErase, hkne] using hs
    · intro k
      simp only
      rw [h.fifo_eq k, fifo_filter, eq_comm, List.filter_eq_self]
      intro j hj
      simp only [bne_iff_ne, ne_eq]
      intro e
      subst e
      obtain ⟨e', hg, hkey⟩ := (mem_fifo hinv.nodup k j).mp hj
      rw [hid] at hg
      cases hg
      simp [isKey] at hkey
    · intro p' i
      simp only
      rw [hpt' p' i]
      split
      · subst_vars
        rw [mem_setErase, hmem i]
        simp only [amGet?_erase]
        by_cases hi : i = id
        · subst hi; simp
        · simp [hi]
      · rename_i hpne
        rw [h.pts_iff p' i]
        have hne : ∀ n' d', Ev.timer p nm dl ≠ .timer p' n' d' := by
          intro n' d' e
          simp only [Ev.timer.injEq] at e
          exact hpne e.1.symm
        simp only [timer_lookup_erase hid (hne _ _)]
  have hunb : ∀ u, u ∈ ub' ↔
      ∃ info, amGet? u timers' = some info ∧ info.proc = p ∧ info.blockers = [] := by
    intro u
    rw [hU u]
    simp only [List.not_mem_nil, false_or]
    constructor
    · rintro ⟨hu, info0, hi0, hb⟩
      obtain ⟨info, hi, hi', hkne, hip⟩ := hTin u hu
      rw [amGet?_amErase] at hi0
      simp only [hkne, ↓reduceIte] at hi0
      rw [hi] at hi0
      cases hi0
      exact ⟨_, hi', hip, hb⟩
    · rintro ⟨info', hi', hip, hb⟩
      by_cases hu : u ∈ setErase id pts
      · obtain ⟨info, hi, hi'', hkne, _⟩ := hTin u hu
        rw [hi''] at hi'
        cases hi'
        refine ⟨hu, info, ?_, hb⟩
        rw [amGet?_amErase]
        simp [hkne, hi]
      · exact absurd hip (hTout u info' hu hi').2.2
  subst htp
  simp only [Resolver.removeTimer, ht, hpts, hcont, Bool.not_true, Bool.false_eq_true,
    ↓reduceIte, hloop]
  refine ⟨_, _, rfl, ?_, hunb⟩
  apply hrep
  intro p' i
  split
  · rename_i hemp
    rw [List.isEmpty_iff] at hemp
    simp only [amGet?_amErase]
    split
    · simp [hemp]
    · rfl
  · simp only [amGet?_amInsert]
    split
    · simp
    · rfl

end Anysystem
