import Anysystem.Proofs.R2Pop
/-!
# The `deliver` alternative: a message is received / a timer fires
-/
set_option linter.unusedSimpArgs false
namespace Anysystem

variable {σ : Type}

/-- delivering a pending message: both sides reduce to a delivery from related pre-states -/
theorem deliver_msg_setup (h : Handler σ) {s : McSys σ} {r : RState σ} {a : AStore} (hw : SimW' s r a)
    {l rest : List (Nat × Ev)} {id : Nat} {m : Msg} {src dst : Nat} {o : Opts}
    (hA : a.pending = l ++ (id, .msg m src dst o) :: rest) :
    ∃ (s1 : McSys σ) (r1 : RState σ) (a1 : AStore),
      s.applyAlt {} h (.deliver id) = McSys.deliverTo {} h s1 dst (.msg m src) ∧
      r.step h (.deliver (flightsOf l).length) = r1.react h dst (.msg m src) ∧
      PreReact s1 r1 a1 dst (.msg m src) ∧ s1.mode = s.mode ∧ s1.net = s.net ∧
      r1.procs = r.procs ∧
      (r.overrideFree h (.deliver (flightsOf l).length) = true →
        ∀ e', amGet? dst r1.procs = some e' →
          r1.overrideFreeActs dst (h dst e'.st (.msg m src)).2 = true) := by
  obtain ⟨st, hpop, hrep, her, hget, herase, htim, _, _⟩ := pop_msg hw.core hA
  refine ⟨{ s with events := st, depth := s.depth + 1, trace := s.trace ++ [LogE.recv m src dst] },
    { r with flights := r.flights.eraseIdx (flightsOf l).length,
             trace := r.trace ++ [LogE.recv m src dst] }, a.erase id, ?_, ?_, ?_, rfl, rfl, rfl, ?_⟩
  · simp only [McSys.applyAlt, hpop]
    rfl
  · simp only [RState.step, hget]
  · have hsub := sub_of_erase hA
    refine SimW'.preReact ?_ dst (.msg m src) (fun e => rfl)
    · refine hw.store_step rfl rfl rfl rfl rfl rfl ?_ hrep ?_ ?_ ?_ ?_ ?_
      · simp [hw.trace]
      · rw [her]; exact herase
      · rw [her]; exact htim
      · intro id' p name d hx
        rw [her] at hx
        exact hw.core.tm id' p name d (hsub _ hx)
      · intro id' m' src' dst' o' hx
        rw [her] at hx
        exact hw.core.clean_msg id' m' src' dst' o' (hsub _ hx)
      · intro id' p name d hx
        rw [her] at hx
        exact hw.core.clean_timer id' p name d (hsub _ hx)
  · intro hof e' he'
    simp only [RState.overrideFree, hget] at hof
    have he'' : amGet? dst r.procs = some e' := he'
    simp only [he''] at hof
    rw [← hof]
    exact overrideFreeActs_congr _ _ rfl

theorem any_append_cons_skip {α : Type} (tl tr : List α) (t : α) (q : α → Bool) (h : q t = false) :
    (tl ++ t :: tr).any q = (tl ++ tr).any q := by
  simp [List.any_append, h]

/-- a timer fires: both sides reduce to a delivery from related pre-states -/
theorem fire_setup (h : Handler σ) {s : McSys σ} {r : RState σ} {a : AStore} (hw : SimW' s r a)
    {l rest : List (Nat × Ev)} {id p nm dl : Nat}
    (hA : a.pending = l ++ (id, .timer p nm dl) :: rest) :
    ∃ (s1 : McSys σ) (r1 : RState σ) (a1 : AStore),
      s.applyAlt {} h (.deliver id) = McSys.deliverTo {} h s1 p (.timer nm) ∧
      r.step h (.fire (timersOf l).length) = r1.react h p (.timer nm) ∧
      PreReact s1 r1 a1 p (.timer nm) ∧ s1.mode = s.mode ∧ s1.net = s.net ∧
      r1.procs = r.procs ∧
      (r.overrideFree h (.fire (timersOf l).length) = true →
        ∀ e', amGet? p r1.procs = some e' →
          r1.overrideFreeActs p (h p e'.st (.timer nm)).2 = true) := by
  obtain ⟨st, hpop, hrep, her, hget, herase, hfl, htimers⟩ := pop_timer hw.core hA
  have hsub := sub_of_erase hA
  -- uniqueness: no other pending timer `(p, nm)`
  have huniq : ∀ t ∈ timersOf l ++ timersOf rest, ¬ (t.proc = p ∧ t.name = nm) := by
    have hu := hw.core.uniq
    simp only [RState.timersUnique, htimers] at hu
    rw [List.pairwise_append] at hu
    obtain ⟨_, hr, hlr⟩ := hu
    rw [List.pairwise_cons] at hr
    intro t ht hc
    simp only [List.mem_append] at ht
    rcases ht with ht | ht
    · exact hlr t ht _ List.mem_cons_self ⟨hc.1, hc.2⟩
    · exact hr.1 t ht ⟨hc.1.symm, hc.2.symm⟩
  have herase' : r.timers.eraseIdx (timersOf l).length = timersOf l ++ timersOf rest := by
    rw [herase, timersOf_append]
  have h0 : ∀ q name, r.timerPending q name =
      (timersOf l ++ ⟨p, nm, dl⟩ :: timersOf rest).any (fun t => t.proc == q && t.name == name) := by
    intro q name; simp only [RState.timerPending, htimers]
  have h1 : ∀ (R : RState σ), R.timers = r.timers.eraseIdx (timersOf l).length →
      ∀ q name, R.timerPending q name =
        (timersOf l ++ timersOf rest).any (fun t => t.proc == q && t.name == name) := by
    intro R hR q name; simp only [RState.timerPending, hR, herase']
  refine ⟨{ s with events := st, depth := s.depth + 1, trace := s.trace ++ [LogE.tfired p nm] },
    { r with timers := r.timers.eraseIdx (timersOf l).length,
             trace := r.trace ++ [LogE.tfired p nm] }, a.erase id, ?_, ?_, ?_, rfl, rfl, rfl, ?_⟩
  · simp only [McSys.applyAlt, hpop]
    rfl
  · simp only [RState.step, hget]
  · refine ⟨?_, ?_, ?_, ?_, ?_⟩
    · refine hw.core.transfer rfl rfl rfl rfl hrep ?_ ?_ ?_ ?_ ?_ ?_
      · rw [her]; exact hfl
      · rw [her]; exact herase
      · have hu := hw.core.uniq
        simp only [RState.timersUnique] at hu ⊢
        exact hu.sublist (List.eraseIdx_sublist _ _)
      · intro id' p' name d hx
        rw [her] at hx
        exact hw.core.tm id' p' name d (hsub _ hx)
      · intro id' m' src' dst' o' hx
        rw [her] at hx
        exact hw.core.clean_msg id' m' src' dst' o' (hsub _ hx)
      · intro id' p' name d hx
        rw [her] at hx
        exact hw.core.clean_timer id' p' name d (hsub _ hx)
    · exact hw.procs
    · simp [hw.trace]
    · intro x hx hc pe hpe hp name
      have hpend := hw.pend x hx hc pe hpe name
      simp only [inEntry, mem_setErase, hpend, hp]
      rw [h0, h1 _ rfl]
      by_cases hname : name = nm
      · subst hname
        simp only [ne_eq, not_true_eq_false, false_and, false_iff, Bool.not_eq_true]
        rw [List.any_eq_false]
        intro t ht
        have := huniq t ht
        simp only [Bool.and_eq_true, beq_iff_eq]
        exact this
      · have hq : ((fun t : PTimer => t.proc == p && t.name == name) ⟨p, nm, dl⟩) = false := by
          simp only [Bool.and_eq_false_iff, beq_eq_false_iff_ne]
          right; exact fun e => hname e.symm
        rw [any_append_cons_skip (timersOf l) (timersOf rest) ⟨p, nm, dl⟩
          (fun t : PTimer => t.proc == p && t.name == name) hq]
        simp [hname]
    · intro x hx hc pe hpe hp name
      have hpend := hw.pend x hx hc pe hpe name
      rw [hpend, h0, h1 _ rfl]
      have hq : ((fun t : PTimer => t.proc == pe.1 && t.name == name) ⟨p, nm, dl⟩) = false := by
        simp only [Bool.and_eq_false_iff, beq_eq_false_iff_ne]
        left; exact fun e => hp e.symm
      rw [any_append_cons_skip (timersOf l) (timersOf rest) ⟨p, nm, dl⟩
        (fun t : PTimer => t.proc == pe.1 && t.name == name) hq]
  · intro hof e' he'
    simp only [RState.overrideFree, hget] at hof
    have he'' : amGet? p r.procs = some e' := he'
    simp only [he''] at hof
    rw [← hof]
    exact overrideFreeActs_congr _ _ rfl

end Anysystem
