import Anysystem.Proofs.R2Alt
/-!
# One step, soundness and completeness, for the corrected relation `Sim'`
-/
set_option linter.unusedSimpArgs false
namespace Anysystem

variable {σ : Type}

theorem kinds_absurd {A : List (Nat × Ev)} {n : Nat} (hinv : PInv A n) {id : Nat} {ev : Ev}
    (hm : (id, ev) ∈ A) (h1 : ev.isMsg = false) (h2 : ev.isTimer = false) : False := by
  rcases hinv.kinds _ hm with h | h
  · simp only at h; rw [h1] at h; cases h
  · simp only at h; rw [h2] at h; cases h

/-- (R2, soundness) for the corrected relation -/
theorem applyAlt_refines' (h : Handler σ) {s s' : McSys σ} {r : RState σ} (hs : Sim' s r)
    {ids : List Nat} {id : Nat} {alts : List Alt} {alt : Alt}
    (hav : s.available = .ok ids) (hid : id ∈ ids) (halts : s.alternatives id = .ok alts) (halt : alt ∈ alts)
    (hok : s.applyAlt {} h alt = .ok s') :
    ∃ l, r.enabledRed s.mode l = true ∧
      (r.overrideFree h l = true → ∃ r', r.step h l = some r' ∧ Sim' s' r') := by
  obtain ⟨a, hw⟩ := hs
  have hinv := hw.core.rep.inv
  have hnd := hinv.nodup
  obtain ⟨ids', hav', hiff⟩ := available_spec hw
  rw [hav] at hav'
  simp only [Except.ok.injEq] at hav'
  subst hav'
  have hmode := (hiff id).mp hid
  obtain ⟨ev, hg⟩ := specOffered_live (specOfferedMode_sub hmode)
  obtain ⟨hoff, hcond⟩ := (mem_specOfferedMode hnd hg).mp hmode
  obtain ⟨l, rest, hA⟩ := amGet?_decomp hg
  have hget : s.events.get id = some ev := by rw [get_eq_pending hw]; exact hg
  have hmemA : (id, ev) ∈ a.pending := amGet?_eq_some_mem hg
  rcases (mem_alternatives hget halts alt).mp halt with rfl | ⟨rfl, m, sr, d, n, c, rfl⟩ |
    ⟨rfl, m, sr, d, b, n, rfl⟩ | ⟨rfl, m, sr, d, b, n, c, rfl⟩
  · -- deliver
    cases ev with
    | msg m src dst o =>
      obtain ⟨s1, r1, a1, happ, hstep, hpre, _, _, _, hofc⟩ := deliver_msg_setup h hw hA
      refine ⟨.deliver (flightsOf l).length, ?_, ?_⟩
      · simp only [RState.enabledRed]
        exact (offered_iff_oldest hnd hA r hw.core.flights).mp hoff
      · intro hof
        rw [happ] at hok
        obtain ⟨r', a', hreact, hw', _⟩ := deliverTo_sound h hpre hok (hofc hof)
        exact ⟨r', by rw [hstep]; exact hreact, a', hw'⟩
    | timer p nm dl =>
      obtain ⟨s1, r1, a1, happ, hstep, hpre, _, _, _, hofc⟩ := fire_setup h hw hA
      refine ⟨.fire (timersOf l).length, ?_, ?_⟩
      · simp only [RState.enabledRed, Bool.and_eq_true, Bool.or_eq_true, beq_iff_eq]
        refine ⟨(offered_iff_unblocked hnd hA r hw.core.timers).mp hoff, ?_⟩
        rcases hcond with hc | hc | hc
        · simp [Ev.isMsg] at hc
        · exact Or.inl hc
        · right; rw [hw.core.flights, hc]; rfl
      · intro hof
        rw [happ] at hok
        obtain ⟨r', a', hreact, hw', _⟩ := deliverTo_sound h hpre hok (hofc hof)
        exact ⟨r', by rw [hstep]; exact hreact, a', hw'⟩
    | timerCancelled _ _ => exact (kinds_absurd hinv hmemA rfl rfl).elim
    | dropped _ _ _ _ => exact (kinds_absurd hinv hmemA rfl rfl).elim
    | duplicated _ _ _ _ => exact (kinds_absurd hinv hmemA rfl rfl).elim
    | corrupted _ _ _ _ _ => exact (kinds_absurd hinv hmemA rfl rfl).elim
  · -- drop
    obtain ⟨s'', r', happ, hstep, hsim, _⟩ := drop_step h hw hA
    rw [happ] at hok
    simp only [Except.ok.injEq] at hok
    subst hok
    refine ⟨.drop (flightsOf l).length, ?_, fun _ => ⟨r', hstep, hsim⟩⟩
    simp only [RState.enabledRed]
    exact (offered_iff_oldest hnd hA r hw.core.flights).mp hoff
  · -- corrupt
    obtain ⟨s'', r', happ, hstep, hsim, _⟩ := corrupt_step h hw hA
    rw [happ] at hok
    simp only [Except.ok.injEq] at hok
    subst hok
    refine ⟨.corrupt (flightsOf l).length, ?_, fun _ => ⟨r', hstep, hsim⟩⟩
    simp only [RState.enabledRed]
    exact (offered_iff_oldest hnd hA r hw.core.flights).mp hoff
  · -- duplicate
    obtain ⟨s'', r', happ, hstep, hsim, _⟩ := dup_step h hw hA
    rw [happ] at hok
    simp only [Except.ok.injEq] at hok
    subst hok
    refine ⟨.dup (flightsOf l).length, ?_, fun _ => ⟨r', hstep, hsim⟩⟩
    simp only [RState.enabledRed]
    exact (offered_iff_oldest hnd hA r hw.core.flights).mp hoff

end Anysystem
