import Anysystem.Proofs.C11Step
/-!
# C11, helper lemmas III: key-equal states that are both related to reference states are `KV`-related

On a node that is alive `pending_timers` is determined by the pending-event store (`Pend`), and the
store is part of the key.
-/
set_option linter.unusedSimpArgs false
namespace Anysystem

variable {σ : Type}

/-- a timer of `(p, name)` is pending in the store -/
def storeTimerPending (st : Store) (p name : Nat) : Prop := ∃ id d, st.get id = some (.timer p name d)

theorem timerPending_iff_store {s : McSys σ} {r : RState σ} {A : AStore} (hw : SimW' s r A) (p name : Nat) :
    r.timerPending p name = true ↔ storeTimerPending s.events p name := by
  have hnd := hw.core.rep.inv.nodup
  simp only [RState.timerPending, List.any_eq_true, Bool.and_eq_true, beq_iff_eq, storeTimerPending,
    get_eq_pending hw, hw.core.timers]
  constructor
  · rintro ⟨t, ht, rfl, rfl⟩
    obtain ⟨id, hid⟩ := mem_timersOf.mp ht
    exact ⟨id, t.delay, amGet?_of_mem_nodup hnd hid⟩
  · rintro ⟨id, d, hg⟩
    refine ⟨⟨p, name, d⟩, mem_timersOf.mpr ⟨id, amGet?_eq_some_mem hg⟩, rfl, rfl⟩

/-- the pair view of the node part of the key -/
def nodeView (s : McSys σ) : List (Nat × Bool × List (Nat × σ × List Msg)) :=
  s.nodes.map (fun nd => (nd.1, nd.2.crashed, nd.2.procs.map fun pe => (pe.1, pe.2.st, pe.2.outbox)))

theorem key_nodes_view (s : McSys σ) :
    nodeView s = s.key.nodes.map (fun k => (k.name, k.crashed, k.procs.map fun pk => (pk.name, pk.st, pk.outbox))) := by
  simp only [nodeView, McSys.key, List.map_map]
  apply List.map_congr_left
  intro nd _
  simp only [Function.comp, List.map_map]
  rfl

theorem key_covers_aux (a b : McSys σ) (hk : a.key = b.key) : a.events = b.events ∧ nodeView a = nodeView b := by
  refine ⟨?_, ?_⟩
  · have := congrArg McSys.Key.events hk
    exact this
  · rw [key_nodes_view, key_nodes_view, hk]

theorem KV.of_sim {a b : McSys σ} {ra rb : RState σ} (ha : Sim' a ra) (hb : Sim' b rb) (hk : a.key = b.key)
    (hnet : a.net = b.net) (hmode : a.mode = b.mode) : KV a b := by
  obtain ⟨Aa, hwa⟩ := ha
  obtain ⟨Ab, hwb⟩ := hb
  obtain ⟨he, hv⟩ := key_covers_aux a b hk
  refine ⟨he, hnet, hmode, ?_⟩
  refine All2.of_map_eq hv ?_
  rintro ⟨n, nd⟩ hx ⟨m, md⟩ hy hxy
  simp only [Prod.mk.injEq] at hxy
  obtain ⟨h1, h2, h3⟩ := hxy
  refine ⟨h1, h2, ?_⟩
  refine All2.of_map_eq h3 ?_
  rintro ⟨p, e⟩ hpe ⟨q, f⟩ hqf hpq
  simp only [Prod.mk.injEq] at hpq
  obtain ⟨g1, g2, g3⟩ := hpq
  refine ⟨g1, g2, g3, ?_⟩
  intro hc name
  have hc' : md.crashed = false := by rw [← h2]; exact hc
  have h4 := hwa.pend (n, nd) hx hc (p, e) hpe name
  have h5 := hwb.pend (m, md) hy hc' (q, f) hqf name
  simp only at h4 h5 g1
  rw [h4, h5, timerPending_iff_store hwa, timerPending_iff_store hwb, he, g1]

end Anysystem
