import Anysystem.Spec.SearchSpec
import Anysystem.Proofs.SearchLemmas
import Anysystem.Proofs.SearchAcc
import Anysystem.Proofs.SearchDfs
import Anysystem.Proofs.SearchBfs
import Anysystem.Proofs.SearchDepth
set_option linter.unusedSectionVars false

namespace Anysystem

variable {σ κ : Type} [DecidableEq κ]

/-! ## The accumulator the strategies start from, and helper corollaries -/

/-- the accumulator after `search` marked the start state -/
def startAcc (S : TSys σ κ) (mode : CacheMode) (s₀ : σ) : Acc σ κ :=
  { (Acc.fresh mode : Acc σ κ) with cache := (Acc.fresh mode : Acc σ κ).cache.mark S s₀ }

theorem search_dfs_eq (S : TSys σ κ) (mode : CacheMode) (fuel : Nat) (s₀ : σ) :
    search S .dfs fuel s₀ (Acc.fresh mode) = dfs S fuel s₀ (startAcc S mode s₀) := rfl

theorem search_bfs_eq (S : TSys σ κ) (mode : CacheMode) (fuel : Nat) (s₀ : σ) :
    search S .bfs fuel s₀ (Acc.fresh mode) = bfsLoop S fuel [s₀] (startAcc S mode s₀) := rfl

theorem startAcc_evald (S : TSys σ κ) (mode : CacheMode) (s₀ : σ) : (startAcc S mode s₀).evald = [] := rfl

theorem startAcc_mode (S : TSys σ κ) (mode : CacheMode) (s₀ : σ) :
    (startAcc S mode s₀).cache.mode = mode := mark_mode S _ s₀

theorem startAcc_marked (S : TSys σ κ) (mode : CacheMode) (hm : ExactCache S mode) (s₀ : σ) (k : κ) :
    Marked S (startAcc S mode s₀).cache k ↔ k = S.key s₀ := marked_fresh_iff S mode hm s₀ k

theorem exhaustive_of_binv {S : TSys σ κ} {Inv : σ → Prop} (hc : CongruentOn S Inv) (hcl : InvClosed S Inv)
    {s₀ : σ} (h0 : Inv s₀) {c : Cache κ} {E : List σ} (hE : ∀ e ∈ E, Inv e)
    (hb : BInv S [] c E) (hs : s₀ ∈ E) :
    ∀ x, ReachC S s₀ x → (∃ e ∈ E, S.key e = S.key x) ∧ isFail (S.verdict x) = false := by
  intro x hx
  induction hx with
  | refl => exact ⟨⟨s₀, hs, rfl⟩, hb.noFail _ hs⟩
  | @step y x cs hy hv hsucc hmem ih =>
    obtain ⟨⟨e, he, hk⟩, _⟩ := ih
    have hiy : Inv y := inv_of_reachC hcl h0 hy
    have hix : Inv x := hcl y cs hiy hsucc x hmem
    obtain ⟨hve, _, hsucc', _⟩ := hc y e hiy (hE e he) hk.symm
    obtain ⟨cb, hcb, hkeys⟩ := hsucc' cs hsucc
    have hkx : S.key x ∈ cb.map S.key := by
      rw [← hkeys]; exact List.mem_map_of_mem hmem
    obtain ⟨c', hc', hck⟩ := List.mem_map.mp hkx
    have hmk : Marked S c (S.key c') := hb.closed e he (hve ▸ hv) cb hcb c' hc'
    rcases hb.origin _ hmk with ⟨e', he', hk'⟩ | ⟨x', hx', _⟩
    · have hkk : S.key e' = S.key x := by rw [hk', hck]
      exact ⟨⟨e', he', hkk⟩, isFail_congr hc (hE e' he') hix hkk (hb.noFail e' he')⟩
    · simp at hx'

theorem exhaustive_of_closedD {S : TSys σ κ} {s₀ : σ} {E : List σ} (hcl : ClosedD S E) (hs : s₀ ∈ E) :
    ∀ x, ReachC S s₀ x → x ∈ E ∧ isFail (S.verdict x) = false := by
  intro x hx
  induction hx with
  | refl => exact ⟨hs, (hcl _ hs).1⟩
  | @step y x cs _ hv hsucc hmem ih =>
    have hxE : x ∈ E := (hcl y ih.1).2 hv cs hsucc x hmem
    exact ⟨hxE, (hcl x hxE).1⟩

/-- the final state of an `ok` run with an exact cache -/
theorem search_ok_binv (S : TSys σ κ) (strat : Strat) (mode : CacheMode) (hm : ExactCache S mode)
    (fuel : Nat) (s₀ : σ) (a : Acc σ κ)
    (h : search S strat fuel s₀ (Acc.fresh mode) = some (.ok, a)) :
    BInv S [] a.cache a.evald ∧ s₀ ∈ a.evald := by
  have hm' : ExactCache S (startAcc S mode s₀).cache.mode := by rw [startAcc_mode]; exact hm
  cases strat with
  | dfs =>
    rw [search_dfs_eq] at h
    obtain ⟨new, h1, h2, h3, _⟩ := (dfs_good S fuel).1 s₀ _ _ _ h rfl hm'
    rw [startAcc_evald, List.nil_append] at h1
    rw [h1]
    refine ⟨⟨?_, h3.noFail, h3.closed⟩, h2⟩
    intro k hk
    rcases h3.origin k hk with hk | hk
    · rw [startAcc_marked S mode hm] at hk
      exact Or.inl ⟨s₀, h2, hk.symm⟩
    · exact Or.inl hk
  | bfs =>
    rw [search_bfs_eq] at h
    refine bfs_good S s₀ fuel [s₀] _ a h hm' ⟨?_, ?_, ?_⟩ (Or.inr (by simp))
    · intro k hk
      rw [startAcc_marked S mode hm] at hk
      exact Or.inr ⟨s₀, by simp, hk.symm⟩
    · intro e he; rw [startAcc_evald] at he; simp at he
    · intro e he; rw [startAcc_evald] at he; simp at he

/-- the final state of an `ok` run without a cache -/
theorem search_ok_closedD (S : TSys σ κ) (strat : Strat) (fuel : Nat) (s₀ : σ) (a : Acc σ κ)
    (h : search S strat fuel s₀ (Acc.fresh .disabled) = some (.ok, a)) :
    ClosedD S a.evald ∧ s₀ ∈ a.evald := by
  cases strat with
  | dfs =>
    rw [search_dfs_eq] at h
    obtain ⟨new, h1, h2, h3, _⟩ := (dfs_closedD S fuel).1 s₀ _ _ _ h rfl (startAcc_mode S _ s₀)
    rw [startAcc_evald, List.nil_append] at h1
    rw [h1]
    exact ⟨h3, h2⟩
  | bfs =>
    rw [search_bfs_eq] at h
    refine bfs_closedD S s₀ fuel [s₀] _ a h (startAcc_mode S _ s₀) ?_ (Or.inr (by simp))
    intro e he; rw [startAcc_evald] at he; simp at he

/-! ## The theorems -/

/-- (soundness of the exploration) every evaluated state is reachable through expanded states,
    for both strategies and every cache mode, whatever the result of the run -/
theorem search_evald_reachable (S : TSys σ κ) (strat : Strat) (mode : CacheMode) (fuel : Nat) (s₀ : σ)
    (r : Res σ) (a : Acc σ κ) (h : search S strat fuel s₀ (Acc.fresh mode) = some (r, a)) :
    ∀ e ∈ a.evald, ReachC S s₀ e := by
  cases strat with
  | dfs =>
    rw [search_dfs_eq] at h
    exact dfs_reach S s₀ fuel s₀ _ r a h ReachC.refl (by intro e he; rw [startAcc_evald] at he; simp at he)
  | bfs =>
    rw [search_bfs_eq] at h
    refine (bfs_reach S s₀ fuel [s₀] _ r a h ?_ ?_).1
    · intro x hx; simp only [List.mem_singleton] at hx; subst hx; exact ReachC.refl
    · intro e he; rw [startAcc_evald] at he; simp at he

/-- (no repeats with an exact cache) with an exact cache no two evaluated states have the same key -/
theorem search_evald_nodup_keys (S : TSys σ κ) (strat : Strat) (mode : CacheMode) (hm : ExactCache S mode)
    (fuel : Nat) (s₀ : σ) (r : Res σ) (a : Acc σ κ)
    (h : search S strat fuel s₀ (Acc.fresh mode) = some (r, a)) :
    (a.evald.map S.key).Nodup := by
  have hm' : ExactCache S (startAcc S mode s₀).cache.mode := by rw [startAcc_mode]; exact hm
  have hmk : Marked S (startAcc S mode s₀).cache (S.key s₀) := (startAcc_marked S mode hm s₀ _).2 rfl
  cases strat with
  | dfs =>
    rw [search_dfs_eq] at h
    refine (dfs_nodup S mode hm fuel s₀ _ r a h (startAcc_mode S mode s₀) ⟨?_, ?_⟩ hmk ?_).1
    · rw [startAcc_evald]; simp
    · intro e he; rw [startAcc_evald] at he; simp at he
    · rw [startAcc_evald]; simp
  | bfs =>
    rw [search_bfs_eq] at h
    refine bfs_nodup S fuel [s₀] _ r a h hm' ?_ ?_
    · rw [startAcc_evald]; simp
    · intro x hx
      rw [startAcc_evald] at hx
      simp only [List.nil_append, List.mem_singleton] at hx
      subst hx; exact hmk

/-- `search_ok_exhaustive` with the key congruence relativised to an invariant of the explored states -/
theorem search_ok_exhaustive_inv (S : TSys σ κ) (Inv : σ → Prop) (hc : CongruentOn S Inv)
    (hcl : InvClosed S Inv) (strat : Strat) (mode : CacheMode) (hm : ExactCache S mode) (fuel : Nat)
    (s₀ : σ) (h0 : Inv s₀) (a : Acc σ κ)
    (h : search S strat fuel s₀ (Acc.fresh mode) = some (.ok, a)) :
    ∀ x, ReachC S s₀ x → (∃ e ∈ a.evald, S.key e = S.key x) ∧ isFail (S.verdict x) = false := by
  obtain ⟨hb, hs⟩ := search_ok_binv S strat mode hm fuel s₀ a h
  have hE : ∀ e ∈ a.evald, Inv e := fun e he =>
    inv_of_reachC hcl h0 (search_evald_reachable S strat mode fuel s₀ _ a h e he)
  exact exhaustive_of_binv hc hcl h0 hE hb hs

/-- (exhaustive, exact cache) an `ok` run evaluated a key-representative of every reachable state and
    none of the reachable states fails -/
theorem search_ok_exhaustive (S : TSys σ κ) (hc : Congruent S) (strat : Strat) (mode : CacheMode)
    (hm : ExactCache S mode) (fuel : Nat) (s₀ : σ) (a : Acc σ κ)
    (h : search S strat fuel s₀ (Acc.fresh mode) = some (.ok, a)) :
    ∀ x, ReachC S s₀ x → (∃ e ∈ a.evald, S.key e = S.key x) ∧ isFail (S.verdict x) = false :=
  search_ok_exhaustive_inv S (fun _ => True) hc.on (invClosed_true S) strat mode hm fuel s₀ trivial a h

/-- (exhaustive, cache disabled) without a cache every reachable state itself is evaluated; no
    congruence needed -/
theorem search_ok_exhaustive_disabled (S : TSys σ κ) (strat : Strat) (fuel : Nat) (s₀ : σ) (a : Acc σ κ)
    (h : search S strat fuel s₀ (Acc.fresh .disabled) = some (.ok, a)) :
    ∀ x, ReachC S s₀ x → x ∈ a.evald ∧ isFail (S.verdict x) = false := by
  obtain ⟨hcl, hs⟩ := search_ok_closedD S strat fuel s₀ a h
  exact exhaustive_of_closedD hcl hs

/-- (errors are genuine) an `err` result names an evaluated, reachable state whose verdict is that failure -/
theorem search_err_genuine (S : TSys σ κ) (strat : Strat) (mode : CacheMode) (fuel : Nat) (s₀ e : σ)
    (msg : String) (a : Acc σ κ) (h : search S strat fuel s₀ (Acc.fresh mode) = some (.err msg e, a)) :
    e ∈ a.evald ∧ S.verdict e = .fail msg ∧ ReachC S s₀ e := by
  have hr := search_evald_reachable S strat mode fuel s₀ _ a h
  cases strat with
  | dfs =>
    rw [search_dfs_eq] at h
    obtain ⟨h1, h2⟩ := ((dfs_err S fuel).1 s₀ _ _ _ h).2 msg e rfl
    exact ⟨h1, h2, hr e h1⟩
  | bfs =>
    rw [search_bfs_eq] at h
    have := (bfs_reach S s₀ fuel [s₀] _ _ a h
      (by intro x hx; simp only [List.mem_singleton] at hx; subst hx; exact ReachC.refl)
      (by intro e he; rw [startAcc_evald] at he; simp at he)).2 msg e rfl
    exact ⟨this.1, this.2, hr e this.1⟩

theorem search_not_ok_of_reachable_fail_inv (S : TSys σ κ) (Inv : σ → Prop) (hc : CongruentOn S Inv)
    (hcl : InvClosed S Inv) (strat : Strat) (mode : CacheMode)
    (hm : ExactCache S mode ∨ mode = .disabled) (fuel : Nat) (s₀ x : σ) (h0 : Inv s₀) (a : Acc σ κ)
    (hx : ReachC S s₀ x) (hf : isFail (S.verdict x) = true) :
    search S strat fuel s₀ (Acc.fresh mode) ≠ some (.ok, a) := by
  intro h
  rcases hm with hm | rfl
  · have := (search_ok_exhaustive_inv S Inv hc hcl strat mode hm fuel s₀ h0 a h x hx).2
    rw [hf] at this; cases this
  · have := (search_ok_exhaustive_disabled S strat fuel s₀ a h x hx).2
    rw [hf] at this; cases this

/-- (Ok exactly when nothing reachable fails – the converse direction) if some reachable state fails, a
    run that finishes (enough fuel, no panic) with an exact cache and a congruent key, or with no
    cache, does not return `ok` -/
theorem search_not_ok_of_reachable_fail (S : TSys σ κ) (hc : Congruent S) (strat : Strat) (mode : CacheMode)
    (hm : ExactCache S mode ∨ mode = .disabled) (fuel : Nat) (s₀ x : σ) (a : Acc σ κ)
    (hx : ReachC S s₀ x) (hf : isFail (S.verdict x) = true) :
    search S strat fuel s₀ (Acc.fresh mode) ≠ some (.ok, a) :=
  search_not_ok_of_reachable_fail_inv S (fun _ => True) hc.on (invClosed_true S) strat mode hm fuel s₀ x
    trivial a hx hf

/-- (collected set is exact) the collected states are evaluated states satisfying the collect
    predicate, one per key, and every evaluated state satisfying it is represented -/
theorem search_collected_exact (S : TSys σ κ) (strat : Strat) (mode : CacheMode) (fuel : Nat) (s₀ : σ)
    (r : Res σ) (a : Acc σ κ) (h : search S strat fuel s₀ (Acc.fresh mode) = some (r, a)) :
    (∀ c ∈ a.collected, c ∈ a.evald ∧ S.collect c = true) ∧
    (∀ e ∈ a.evald, S.collect e = true → ∃ c ∈ a.collected, S.key c = S.key e) ∧
    (a.collected.map S.key).Nodup := by
  have h0 : CollInv S (startAcc S mode s₀) := by
    refine ⟨?_, ?_, ?_⟩
    · intro c hc; simp [startAcc, Acc.fresh] at hc
    · intro e he; simp [startAcc, Acc.fresh] at he
    · simp [startAcc, Acc.fresh]
  cases strat with
  | dfs =>
    rw [search_dfs_eq] at h
    exact dfs_accInv S (CollInv S) (fun _ _ h => h) (collInv_check S) fuel s₀ _ r a h h0
  | bfs =>
    rw [search_bfs_eq] at h
    exact bfs_accInv S (CollInv S) (fun _ _ h => h) (collInv_check S) fuel [s₀] _ r a h h0

/-- (status counts are exact) each status is counted once per evaluated state that stopped with it -/
theorem search_statuses_exact (S : TSys σ κ) (strat : Strat) (mode : CacheMode) (fuel : Nat) (s₀ : σ)
    (r : Res σ) (a : Acc σ κ) (h : search S strat fuel s₀ (Acc.fresh mode) = some (r, a)) (status : String) :
    ((a.statuses.filter (·.1 == status)).map (·.2)).sum =
      (a.evald.filter (fun e => S.verdict e == .stop status)).length := by
  have h0 : StatInv S (startAcc S mode s₀) := by
    refine ⟨?_, ?_⟩
    · simp [startAcc, Acc.fresh]
    · intro st; simp [startAcc, Acc.fresh]
  cases strat with
  | dfs =>
    rw [search_dfs_eq] at h
    exact (dfs_accInv S (StatInv S) (fun _ _ h => h) (statInv_check S) fuel s₀ _ r a h h0).2 status
  | bfs =>
    rw [search_bfs_eq] at h
    exact (bfs_accInv S (StatInv S) (fun _ _ h => h) (statInv_check S) fuel [s₀] _ r a h h0).2 status

theorem bfs_dfs_same_keys_inv (S : TSys σ κ) (Inv : σ → Prop) (hc : CongruentOn S Inv)
    (hcl : InvClosed S Inv) (mode : CacheMode) (hm : ExactCache S mode)
    (f₁ f₂ : Nat) (s₀ : σ) (h0 : Inv s₀) (a₁ a₂ : Acc σ κ)
    (h₁ : search S .dfs f₁ s₀ (Acc.fresh mode) = some (.ok, a₁))
    (h₂ : search S .bfs f₂ s₀ (Acc.fresh mode) = some (.ok, a₂)) :
    ∀ k, k ∈ a₁.evald.map S.key ↔ k ∈ a₂.evald.map S.key := by
  intro k
  constructor
  · intro hk
    obtain ⟨e, he, rfl⟩ := List.mem_map.mp hk
    have hr := search_evald_reachable S .dfs mode f₁ s₀ _ a₁ h₁ e he
    obtain ⟨⟨e', he', hk'⟩, _⟩ := search_ok_exhaustive_inv S Inv hc hcl .bfs mode hm f₂ s₀ h0 a₂ h₂ e hr
    exact List.mem_map.mpr ⟨e', he', hk'⟩
  · intro hk
    obtain ⟨e, he, rfl⟩ := List.mem_map.mp hk
    have hr := search_evald_reachable S .bfs mode f₂ s₀ _ a₂ h₂ e he
    obtain ⟨⟨e', he', hk'⟩, _⟩ := search_ok_exhaustive_inv S Inv hc hcl .dfs mode hm f₁ s₀ h0 a₁ h₁ e hr
    exact List.mem_map.mpr ⟨e', he', hk'⟩

/-- (BFS and DFS agree) with an exact cache and a congruent key two `ok` runs evaluate the same set of keys -/
theorem bfs_dfs_same_keys (S : TSys σ κ) (hc : Congruent S) (mode : CacheMode) (hm : ExactCache S mode)
    (f₁ f₂ : Nat) (s₀ : σ) (a₁ a₂ : Acc σ κ)
    (h₁ : search S .dfs f₁ s₀ (Acc.fresh mode) = some (.ok, a₁))
    (h₂ : search S .bfs f₂ s₀ (Acc.fresh mode) = some (.ok, a₂)) :
    ∀ k, k ∈ a₁.evald.map S.key ↔ k ∈ a₂.evald.map S.key :=
  bfs_dfs_same_keys_inv S (fun _ => True) hc.on (invClosed_true S) mode hm f₁ f₂ s₀ trivial a₁ a₂ h₁ h₂

theorem cache_modes_same_keys_inv (S : TSys σ κ) (Inv : σ → Prop) (hc : CongruentOn S Inv)
    (hcl : InvClosed S Inv) (s₁ s₂ : Strat) (mode : CacheMode)
    (hm : ExactCache S mode) (f₁ f₂ : Nat) (s₀ : σ) (h0 : Inv s₀) (a₁ a₂ : Acc σ κ)
    (h₁ : search S s₁ f₁ s₀ (Acc.fresh mode) = some (.ok, a₁))
    (h₂ : search S s₂ f₂ s₀ (Acc.fresh .disabled) = some (.ok, a₂)) :
    ∀ k, k ∈ a₁.evald.map S.key ↔ k ∈ a₂.evald.map S.key := by
  intro k
  constructor
  · intro hk
    obtain ⟨e, he, rfl⟩ := List.mem_map.mp hk
    have hr := search_evald_reachable S s₁ mode f₁ s₀ _ a₁ h₁ e he
    exact List.mem_map_of_mem (search_ok_exhaustive_disabled S s₂ f₂ s₀ a₂ h₂ e hr).1
  · intro hk
    obtain ⟨e, he, rfl⟩ := List.mem_map.mp hk
    have hr := search_evald_reachable S s₂ .disabled f₂ s₀ _ a₂ h₂ e he
    obtain ⟨⟨e', he', hk'⟩, _⟩ := search_ok_exhaustive_inv S Inv hc hcl s₁ mode hm f₁ s₀ h0 a₁ h₁ e hr
    exact List.mem_map.mpr ⟨e', he', hk'⟩

/-- (cache modes agree) an `ok` run with an exact cache and an `ok` run with the cache disabled evaluate
    the same set of keys -/
theorem cache_modes_same_keys (S : TSys σ κ) (hc : Congruent S) (s₁ s₂ : Strat) (mode : CacheMode)
    (hm : ExactCache S mode) (f₁ f₂ : Nat) (s₀ : σ) (a₁ a₂ : Acc σ κ)
    (h₁ : search S s₁ f₁ s₀ (Acc.fresh mode) = some (.ok, a₁))
    (h₂ : search S s₂ f₂ s₀ (Acc.fresh .disabled) = some (.ok, a₂)) :
    ∀ k, k ∈ a₁.evald.map S.key ↔ k ∈ a₂.evald.map S.key :=
  cache_modes_same_keys_inv S (fun _ => True) hc.on (invClosed_true S) s₁ s₂ mode hm f₁ f₂ s₀ trivial
    a₁ a₂ h₁ h₂

/-- (BFS counterexamples are shortest, cache disabled) if BFS without a cache reports an error on a
    state at distance `n`, no state at a smaller distance fails -/
theorem bfs_err_min_depth_disabled (S : TSys σ κ) (fuel : Nat) (s₀ e : σ) (msg : String) (a : Acc σ κ)
    (h : search S .bfs fuel s₀ (Acc.fresh .disabled) = some (.err msg e, a)) :
    ∃ n, ReachN S s₀ n e ∧ ∀ m x, m < n → ReachN S s₀ m x → isFail (S.verdict x) = false := by
  rw [search_bfs_eq] at h
  refine bfs_minDepth_disabled S s₀ fuel [s₀] _ msg e a h (startAcc_mode S _ s₀) ⟨0, [s₀], [], rfl, ?_⟩
  refine ⟨?_, ?_, by simp, ?_⟩
  · intro m x hm; omega
  · intro x hx; simp only [List.mem_singleton] at hx; subst hx; exact ReachN.refl
  · intro x hx
    cases hx
    exact Or.inl (by simp)

theorem bfs_err_min_depth_inv (S : TSys σ κ) (Inv : σ → Prop) (hc : CongruentOn S Inv)
    (hcl : InvClosed S Inv) (mode : CacheMode) (hm : ExactCache S mode)
    (fuel : Nat) (s₀ e : σ) (h0 : Inv s₀) (msg : String) (a : Acc σ κ)
    (h : search S .bfs fuel s₀ (Acc.fresh mode) = some (.err msg e, a)) :
    ∃ n, ReachN S s₀ n e ∧ ∀ m x, m < n → ReachN S s₀ m x → isFail (S.verdict x) = false := by
  rw [search_bfs_eq] at h
  have hm' : ExactCache S (startAcc S mode s₀).cache.mode := by rw [startAcc_mode]; exact hm
  refine bfs_minDepth_exact S Inv hc hcl s₀ h0 fuel [s₀] _ msg e a h
    ⟨hm', ⟨?_, ?_, ?_⟩, 0, [s₀], [], rfl, ?_⟩ ?_
  · intro k hk
    rw [startAcc_marked S mode hm] at hk
    exact Or.inr ⟨s₀, by simp, hk.symm⟩
  · intro e he; rw [startAcc_evald] at he; simp at he
  · intro e he; rw [startAcc_evald] at he; simp at he
  · refine ⟨?_, ?_, by simp, ?_⟩
    · intro m x hm; omega
    · intro x hx; simp only [List.mem_singleton] at hx; subst hx; exact ReachN.refl
    · intro m x hm hx
      obtain rfl : m = 0 := by omega
      cases hx
      exact Or.inr ⟨s₀, by simp, rfl⟩
  · intro e he; rw [startAcc_evald] at he; simp at he

/-- (BFS counterexamples are shortest, exact cache, congruent key) the same with a cache -/
theorem bfs_err_min_depth (S : TSys σ κ) (hc : Congruent S) (mode : CacheMode) (hm : ExactCache S mode)
    (fuel : Nat) (s₀ e : σ) (msg : String) (a : Acc σ κ)
    (h : search S .bfs fuel s₀ (Acc.fresh mode) = some (.err msg e, a)) :
    ∃ n, ReachN S s₀ n e ∧ ∀ m x, m < n → ReachN S s₀ m x → isFail (S.verdict x) = false :=
  bfs_err_min_depth_inv S (fun _ => True) hc.on (invClosed_true S) mode hm fuel s₀ e trivial msg a h

end Anysystem
