import Anysystem.Spec.SearchSpec
namespace Anysystem

variable {σ κ : Type} [DecidableEq κ]

/-- (soundness of the exploration) every evaluated state is reachable through expanded states,
    for both strategies and every cache mode, whatever the result of the run -/
theorem search_evald_reachable (S : TSys σ κ) (strat : Strat) (mode : CacheMode) (fuel : Nat) (s₀ : σ)
    (r : Res σ) (a : Acc σ κ) (h : search S strat fuel s₀ (Acc.fresh mode) = some (r, a)) :
    ∀ e ∈ a.evald, ReachC S s₀ e := sorry

/-- (no repeats with an exact cache) with an exact cache no two evaluated states have the same key -/
theorem search_evald_nodup_keys (S : TSys σ κ) (strat : Strat) (mode : CacheMode) (hm : ExactCache S mode)
    (fuel : Nat) (s₀ : σ) (r : Res σ) (a : Acc σ κ)
    (h : search S strat fuel s₀ (Acc.fresh mode) = some (r, a)) :
    (a.evald.map S.key).Nodup := sorry

/-- (exhaustive, exact cache) an `ok` run evaluated a key-representative of every reachable state and
    none of the reachable states fails -/
theorem search_ok_exhaustive (S : TSys σ κ) (hc : Congruent S) (strat : Strat) (mode : CacheMode)
    (hm : ExactCache S mode) (fuel : Nat) (s₀ : σ) (a : Acc σ κ)
    (h : search S strat fuel s₀ (Acc.fresh mode) = some (.ok, a)) :
    ∀ x, ReachC S s₀ x → (∃ e ∈ a.evald, S.key e = S.key x) ∧ isFail (S.verdict x) = false := sorry

/-- (exhaustive, cache disabled) without a cache every reachable state itself is evaluated; no
    congruence needed -/
theorem search_ok_exhaustive_disabled (S : TSys σ κ) (strat : Strat) (fuel : Nat) (s₀ : σ) (a : Acc σ κ)
    (h : search S strat fuel s₀ (Acc.fresh .disabled) = some (.ok, a)) :
    ∀ x, ReachC S s₀ x → x ∈ a.evald ∧ isFail (S.verdict x) = false := sorry

/-- (errors are genuine) an `err` result names an evaluated, reachable state whose verdict is that failure -/
theorem search_err_genuine (S : TSys σ κ) (strat : Strat) (mode : CacheMode) (fuel : Nat) (s₀ e : σ)
    (msg : String) (a : Acc σ κ) (h : search S strat fuel s₀ (Acc.fresh mode) = some (.err msg e, a)) :
    e ∈ a.evald ∧ S.verdict e = .fail msg ∧ ReachC S s₀ e := sorry

/-- (Ok exactly when nothing reachable fails – the converse direction) if some reachable state fails, a
    run that finishes (enough fuel, no panic) with an exact cache and a congruent key, or with no
    cache, does not return `ok` -/
theorem search_not_ok_of_reachable_fail (S : TSys σ κ) (hc : Congruent S) (strat : Strat) (mode : CacheMode)
    (hm : ExactCache S mode ∨ mode = .disabled) (fuel : Nat) (s₀ x : σ) (a : Acc σ κ)
    (hx : ReachC S s₀ x) (hf : isFail (S.verdict x) = true) :
    search S strat fuel s₀ (Acc.fresh mode) ≠ some (.ok, a) := sorry

/-- (collected set is exact) the collected states are evaluated states satisfying the collect
    predicate, one per key, and every evaluated state satisfying it is represented -/
theorem search_collected_exact (S : TSys σ κ) (strat : Strat) (mode : CacheMode) (fuel : Nat) (s₀ : σ)
    (r : Res σ) (a : Acc σ κ) (h : search S strat fuel s₀ (Acc.fresh mode) = some (r, a)) :
    (∀ c ∈ a.collected, c ∈ a.evald ∧ S.collect c = true) ∧
    (∀ e ∈ a.evald, S.collect e = true → ∃ c ∈ a.collected, S.key c = S.key e) ∧
    (a.collected.map S.key).Nodup := sorry

/-- (status counts are exact) each status is counted once per evaluated state that stopped with it -/
theorem search_statuses_exact (S : TSys σ κ) (strat : Strat) (mode : CacheMode) (fuel : Nat) (s₀ : σ)
    (r : Res σ) (a : Acc σ κ) (h : search S strat fuel s₀ (Acc.fresh mode) = some (r, a)) (status : String) :
    ((a.statuses.filter (·.1 == status)).map (·.2)).sum =
      (a.evald.filter (fun e => S.verdict e == .stop status)).length := sorry

/-- (BFS and DFS agree) with an exact cache and a congruent key two `ok` runs evaluate the same set of keys -/
theorem bfs_dfs_same_keys (S : TSys σ κ) (hc : Congruent S) (mode : CacheMode) (hm : ExactCache S mode)
    (f₁ f₂ : Nat) (s₀ : σ) (a₁ a₂ : Acc σ κ)
    (h₁ : search S .dfs f₁ s₀ (Acc.fresh mode) = some (.ok, a₁))
    (h₂ : search S .bfs f₂ s₀ (Acc.fresh mode) = some (.ok, a₂)) :
    ∀ k, k ∈ a₁.evald.map S.key ↔ k ∈ a₂.evald.map S.key := sorry

/-- (cache modes agree) an `ok` run with an exact cache and an `ok` run with the cache disabled evaluate
    the same set of keys -/
theorem cache_modes_same_keys (S : TSys σ κ) (hc : Congruent S) (s₁ s₂ : Strat) (mode : CacheMode)
    (hm : ExactCache S mode) (f₁ f₂ : Nat) (s₀ : σ) (a₁ a₂ : Acc σ κ)
    (h₁ : search S s₁ f₁ s₀ (Acc.fresh mode) = some (.ok, a₁))
    (h₂ : search S s₂ f₂ s₀ (Acc.fresh .disabled) = some (.ok, a₂)) :
    ∀ k, k ∈ a₁.evald.map S.key ↔ k ∈ a₂.evald.map S.key := sorry

/-- (BFS counterexamples are shortest, cache disabled) if BFS without a cache reports an error on a
    state at distance `n`, no state at a smaller distance fails -/
theorem bfs_err_min_depth_disabled (S : TSys σ κ) (fuel : Nat) (s₀ e : σ) (msg : String) (a : Acc σ κ)
    (h : search S .bfs fuel s₀ (Acc.fresh .disabled) = some (.err msg e, a)) :
    ∃ n, ReachN S s₀ n e ∧ ∀ m x, m < n → ReachN S s₀ m x → isFail (S.verdict x) = false := sorry

/-- (BFS counterexamples are shortest, exact cache, congruent key) the same with a cache -/
theorem bfs_err_min_depth (S : TSys σ κ) (hc : Congruent S) (mode : CacheMode) (hm : ExactCache S mode)
    (fuel : Nat) (s₀ e : σ) (msg : String) (a : Acc σ κ)
    (h : search S .bfs fuel s₀ (Acc.fresh mode) = some (.err msg e, a)) :
    ∃ n, ReachN S s₀ n e ∧ ∀ m x, m < n → ReachN S s₀ m x → isFail (S.verdict x) = false := sorry

end Anysystem
