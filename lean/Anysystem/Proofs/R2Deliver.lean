import Anysystem.Proofs.R2React
/-!
# Delivering an input to a process (`apply_event` for messages / timers, `send_local_message`)
-/
set_option linter.unusedSimpArgs false
namespace Anysystem

variable {σ : Type}

/-- the `deliver` closure of `apply_event` -/
def McSys.deliverTo (cfg : Cfg) (h : Handler σ) (s1 : McSys σ) (proc : Nat) (i : Input) : R (McSys σ) :=
  match s1.net.procNode proc with
  | .error e => .error e
  | .ok nd =>
    match s1.nodeOf nd with
    | .error e => .error e
    | .ok n =>
      match n.react cfg h proc i with
      | .error e => .error e
      | .ok (n', evs, tr) =>
        McSys.addEvents cfg evs { s1 with nodes := amInsert natLt nd n' s1.nodes, trace := s1.trace ++ tr }

theorem applyEvent_msg (cfg : Cfg) (h : Handler σ) (s : McSys σ) (m : Msg) (src dst : Nat) (o : Opts) :
    s.applyEvent cfg h (.msg m src dst o) =
      McSys.deliverTo cfg h { s with depth := s.depth + 1, trace := s.trace ++ [LogE.recv m src dst] }
        dst (.msg m src) := rfl

theorem applyEvent_timer (cfg : Cfg) (h : Handler σ) (s : McSys σ) (p t d : Nat) :
    s.applyEvent cfg h (.timer p t d) =
      McSys.deliverTo cfg h { s with depth := s.depth + 1, trace := s.trace ++ [LogE.tfired p t] }
        p (.timer t) := rfl

theorem sendLocal_eq (cfg : Cfg) (h : Handler σ) (s : McSys σ) (node p : Nat) (m : Msg)
    (hnode : amGet? p s.net.procLoc = some node) :
    s.sendLocal cfg h node p m =
      McSys.deliverTo cfg h { s with trace := s.trace ++ [LogE.lrecv m p] } p (.loc m) := by
  simp only [McSys.sendLocal, McSys.deliverTo, McNet.procNode, hnode]
  rfl

theorem deliverTo_ok_inv {h : Handler σ} {s1 s' : McSys σ} {p : Nat} {i : Input}
    (hok : McSys.deliverTo {} h s1 p i = .ok s') :
    ∃ nd n e, amGet? p s1.net.procLoc = some nd ∧ amGet? nd s1.nodes = some n ∧ n.crashed = false ∧
      amGet? p n.procs = some e := by
  simp only [McSys.deliverTo, McNet.procNode, McSys.nodeOf] at hok
  cases hloc : amGet? p s1.net.procLoc with
  | none => simp [hloc] at hok
  | some nd =>
    cases hn : amGet? nd s1.nodes with
    | none => simp [hloc, hn] at hok
    | some n =>
      simp only [hloc, hn] at hok
      cases hr : n.react {} h p i with
      | error err => simp [hr] at hok
      | ok v =>
        obtain ⟨n', evs, tr⟩ := v
        obtain ⟨hc, e, he⟩ := McNode.react_ok hr
        exact ⟨nd, n, e, rfl, hn, hc, he⟩

theorem deliverTo_eq {h : Handler σ} {s1 : McSys σ} {p nd : Nat} {i : Input} {n n' : McNode σ}
    {evs : List Ev} {tr : List LogE}
    (hloc : amGet? p s1.net.procLoc = some nd) (hn : amGet? nd s1.nodes = some n)
    (hr : n.react {} h p i = .ok (n', evs, tr)) :
    McSys.deliverTo {} h s1 p i =
      McSys.addEvents {} evs { s1 with nodes := amInsert natLt nd n' s1.nodes, trace := s1.trace ++ tr } := by
  simp only [McSys.deliverTo, McNet.procNode, McSys.nodeOf, hloc, hn, hr]

/-- the relation minus the `pending_timers` of the reacting process, which the caller adjusts -/
structure PreReact (s1 : McSys σ) (r1 : RState σ) (a1 : AStore) (p : Nat) (i : Input) : Prop where
  core : SimS s1 r1 a1
  procs : r1.procs = procsOf s1
  trace : r1.trace = s1.trace
  pend_p : ∀ x ∈ s1.nodes, x.2.crashed = false → ∀ pe ∈ x.2.procs, pe.1 = p →
    ∀ name, name ∈ (inEntry p i pe.2).pending ↔ r1.timerPending p name = true
  pend_o : ∀ x ∈ s1.nodes, x.2.crashed = false → ∀ pe ∈ x.2.procs, pe.1 ≠ p →
    ∀ name, name ∈ pe.2.pending ↔ r1.timerPending pe.1 name = true

theorem SimW'.preReact {s : McSys σ} {r : RState σ} {a : AStore} (hw : SimW' s r a) (p : Nat) (i : Input)
    (hi : ∀ e : ProcEntry σ, (inEntry p i e).pending = e.pending) : PreReact s r a p i where
  core := hw.core
  procs := hw.procs
  trace := hw.trace
  pend_p := by
    intro x hx hc pe hpe hp name
    rw [hi, ← hp]
    exact hw.pend x hx hc pe hpe name
  pend_o := fun x hx hc pe hpe _ name => hw.pend x hx hc pe hpe name

/-- soundness of a delivery -/
theorem deliverTo_sound (h : Handler σ) {s1 s' : McSys σ} {r1 : RState σ} {a1 : AStore} {p : Nat}
    {i : Input} (hpre : PreReact s1 r1 a1 p i) (hok : McSys.deliverTo {} h s1 p i = .ok s')
    (hof : ∀ e', amGet? p r1.procs = some e' → r1.overrideFreeActs p (h p e'.st i).2 = true) :
    ∃ r' a', r1.react h p i = some r' ∧ SimW' s' r' a' ∧ s'.mode = s1.mode := by
  obtain ⟨nd, n, e, hloc, hn, hcr, he⟩ := deliverTo_ok_inv hok
  have hnmem := amGet?_eq_some_mem hn
  have hget : amGet? p r1.procs = some ⟨e.st, e.outbox⟩ := by
    rw [hpre.procs]; exact amGet?_procsOf hpre.core.topo hn he
  obtain ⟨n', evs, tr, r', hreact, hrr, _, hfin⟩ :=
    react_refines h i hpre.core hpre.procs hpre.trace hloc hn hcr he
      (hpre.pend_p _ hnmem hcr _ (amGet?_eq_some_mem he) rfl) hpre.pend_o (hof _ hget)
  rw [deliverTo_eq hloc hn hreact] at hok
  have hk : evsKnown s1 evs := by
    have := addEvents_known evs hok
    exact this
  obtain ⟨s'', a', hadd, hw', hmode⟩ := hfin hk
  rw [hok] at hadd
  simp only [Except.ok.injEq] at hadd
  subst hadd
  exact ⟨r', a', hrr, hw', hmode⟩

/-- completeness of a delivery: the checker does not panic -/
theorem deliverTo_complete (h : Handler σ) {s1 : McSys σ} {r1 r' : RState σ} {a1 : AStore} {p : Nat}
    {i : Input} (hpre : PreReact s1 r1 a1 p i) (hk : SendsKnown h s1)
    (hstep : r1.react h p i = some r')
    (hof : ∀ e', amGet? p r1.procs = some e' → r1.overrideFreeActs p (h p e'.st i).2 = true) :
    ∃ s', McSys.deliverTo {} h s1 p i = .ok s' := by
  -- the process exists and is alive
  have hex : ∃ e', amGet? p r1.procs = some e' ∧ r1.procCrashed p = false := by
    simp only [RState.react] at hstep
    cases hg : amGet? p r1.procs with
    | none => simp [hg] at hstep
    | some e' =>
      refine ⟨e', rfl, ?_⟩
      cases hc : r1.procCrashed p with
      | false => rfl
      | true => simp [hg, hc] at hstep
  obtain ⟨e', hget, hrc⟩ := hex
  have hget' := hget
  rw [hpre.procs] at hget'
  obtain ⟨nd, n, e, hloc, hn, he, he'⟩ := procsOf_lookup hpre.core.topo hpre.core.sorted hget'
  have hnmem := amGet?_eq_some_mem hn
  have hcr : n.crashed = false := by
    rw [← (procCrashed_agree hpre.core hloc hn).2]; exact hrc
  have hof' := hof _ hget
  rw [he'] at hof'
  obtain ⟨n', evs, tr, r'', hreact, _, hm, hfin⟩ :=
    react_refines h i hpre.core hpre.procs hpre.trace hloc hn hcr he
      (hpre.pend_p _ hnmem hcr _ (amGet?_eq_some_mem he) rfl) hpre.pend_o hof'
  have hkn : evsKnown s1 evs := by
    intro m src dst o hmem
    obtain ⟨rfl, hsend⟩ := hm m src dst o hmem
    refine ⟨by rw [hloc]; rfl, ?_⟩
    exact hk src e.st i _ hsend m dst rfl
  obtain ⟨s', a', hadd, _, _⟩ := hfin hkn
  exact ⟨s', by rw [deliverTo_eq hloc hn hreact]; exact hadd⟩

end Anysystem
