import Anysystem.Proofs.SimTimeOrderLemmas
import Anysystem.Proofs.SimStepFnsLemmas
/-!
# C06 / C17 — whole-run time order of the simulator

*Events are handled in non-decreasing time order with ties in creation order; every trace entry carries the right time.*

* `Sim.popSeq h k s` (ghost): the `(time, id)` keys of the events popped by `steps h k s`, in pop order.  Events addressed
  to a node without handler are popped (and discarded by `deliver`) and count; a pop whose handler run fails is the last
  one listed (`steps` returns the error).
* `popSeq_sorted`: under `TimeWF` (`QueueWF`, `ClockOk`, `0 ≤ minDelay ≤ maxDelay`, lawful remaining draws), a program that
  never sets a negative timer delay (`HandlerDelaysOk`) and `isDraw zero` (the value an exhausted draw stream yields), the
  sequence is strictly increasing in the lexicographic order `keyLt` on `(time, id)` — pairwise, not only for neighbours.
  `pop_times_nondecreasing`, `pop_ties_in_creation_order`, `popSeq_ids_nodup`, `popSeq_ids_lt`, `step_creates_later` are the corollaries /
  companions (ids are handed out by the counter `eventCount` in creation order: `addEvent_time`).
* `clock_monotone`, `step_clock_eq_pop`, `steps_clock_eq_last_pop`: the clock never goes back and always equals the time
  of the last popped event.
* `trace_times_sorted` (+ `TraceTimeInv.sendLocal`, `.crashNode`, `.recoverNode`, `.addNode`, `.addProcess`, `.readLocal`,
  `.setSkew`, the network settings): the times of the global trace are sorted and bounded by the clock, along whole runs;
  `step_trace_times`: every entry written by a step carries exactly the time of the event popped by that step.

**Skew.**  In the model *no* global trace entry and no per-process event-log entry carries a skewed time: `onMessage`,
`onTimer`, `onLocal` read `time := s.clock` and pass it to `handleActions`, which stamps `localSent`, `timerSet`,
`timerCancelled` (and the `SPEv` entries) with it; `sendMessage` and the `System` calls stamp with `s.clock` themselves.
The skewed value `clock + skew` is only what the *handler* is given as its clock reading (`runHandler`,
`runHandler_clock` of `SimStepThms.lean`).  Hence `TraceTimeInv` needs no exclusion, whatever the skews are (they may even be
"negative" in a `T` that has such values) — `TraceTimeInv.setSkew` records that changing the skew is harmless.
-/
namespace Anysystem

set_option linter.unusedSectionVars false
set_option linter.unusedVariables false

variable {σ T : Type} [TimeOps T]

namespace Sim

open TimeOrder

/-- ghost: the `(time, id)` keys of the events popped by `steps h k s`, in pop order -/
def popSeq (h : SHandler σ T) : Nat → Sim σ T → List (T × Nat)
  | 0, _ => []
  | k + 1, s =>
    match nextEvent (s.events.length + 1) s with
    | (none, _) => []
    | (some e, s1) =>
      (e.time, e.id) :: (match deliver h e s1 with
        | .error _ => []
        | .ok s2 => popSeq h k s2)

theorem popSeq_zero (h : SHandler σ T) (s : Sim σ T) : popSeq h 0 s = [] := rfl

theorem popSeq_succ_none (h : SHandler σ T) (k : Nat) {s s1 : Sim σ T}
    (hpop : nextEvent (s.events.length + 1) s = (none, s1)) : popSeq h (k + 1) s = [] := by
  simp only [popSeq, hpop]

theorem popSeq_succ_error (h : SHandler σ T) (k : Nat) {s s1 : Sim σ T} {e : QEv T} {err : String}
    (hpop : nextEvent (s.events.length + 1) s = (some e, s1)) (hdel : deliver h e s1 = .error err) :
    popSeq h (k + 1) s = [(e.time, e.id)] := by
  simp only [popSeq, hpop, hdel]

theorem popSeq_succ_ok (h : SHandler σ T) (k : Nat) {s s1 s2 : Sim σ T} {e : QEv T}
    (hpop : nextEvent (s.events.length + 1) s = (some e, s1)) (hdel : deliver h e s1 = .ok s2) :
    popSeq h (k + 1) s = (e.time, e.id) :: popSeq h k s2 := by
  simp only [popSeq, hpop, hdel]

/-- `step` in terms of the pop and the delivery -/
theorem step_cases (h : SHandler σ T) {s s' : Sim σ T} {b : Bool} (hok : s.step h = .ok (b, s')) :
    (b = false ∧ nextEvent (s.events.length + 1) s = (none, s')) ∨
    (b = true ∧ ∃ e s1, nextEvent (s.events.length + 1) s = (some e, s1) ∧ deliver h e s1 = .ok s') := by
  unfold Sim.step at hok
  split at hok
  · rename_i s1 heq
    cases hok
    exact .inl ⟨rfl, heq⟩
  · rename_i e s1 heq
    split at hok
    · cases hok
    · rename_i s2 hdel
      cases hok
      exact .inr ⟨rfl, e, s1, heq, hdel⟩

theorem popSeq_length_le (h : SHandler σ T) (k : Nat) (s : Sim σ T) : (popSeq h k s).length ≤ k := by
  induction k generalizing s with
  | zero => simp [popSeq]
  | succ k ih =>
    cases hpop : nextEvent (s.events.length + 1) s with
    | mk o s1 =>
      cases o with
      | none => rw [popSeq_succ_none h k hpop]; simp
      | some e =>
        cases hdel : deliver h e s1 with
        | error err => rw [popSeq_succ_error h k hpop hdel]; simp
        | ok s2 =>
          rw [popSeq_succ_ok h k hpop hdel]
          have := ih s2
          simp only [List.length_cons]; omega

/-- a run of `steps h k` that did not run dry popped exactly `k` events -/
theorem popSeq_length_of_steps (h : SHandler σ T) (k : Nat) {s s' : Sim σ T}
    (hok : s.steps h k = .ok (true, s')) : (popSeq h k s).length = k := by
  induction k generalizing s with
  | zero => simp [popSeq]
  | succ k ih =>
    simp only [Sim.steps] at hok
    split at hok
    · cases hok
    · cases hok
    · rename_i s1 hst
      rcases step_cases h hst with ⟨hb, _⟩ | ⟨_, e, s0, hpop, hdel⟩
      · cases hb
      · rw [popSeq_succ_ok h k hpop hdel, List.length_cons, ih hok]

section lawful
variable [LawfulTime T]

/-! ### the invariant `TimeWF` along a run -/

theorem TimeWF.step (hzero : LawfulTime.isDraw (TimeOps.zero : T)) (h : SHandler σ T) (hh : HandlerDelaysOk h)
    {s s' : Sim σ T} (b : Bool) (hw : s.TimeWF) (hok : s.step h = .ok (b, s')) : s'.TimeWF := by
  rcases step_cases h hok with ⟨_, hpop⟩ | ⟨_, e, s1, hpop, hdel⟩
  · exact (pop_none (Nat.lt_succ_self _) hw hpop).1
  · exact (deliver_tstep hzero h hh e hdel).wf (pop_some (Nat.lt_succ_self _) hw hpop).1

theorem TimeWF.steps (hzero : LawfulTime.isDraw (TimeOps.zero : T)) (h : SHandler σ T) (hh : HandlerDelaysOk h) (k : Nat)
    {s s' : Sim σ T} (b : Bool) (hw : s.TimeWF) (hok : s.steps h k = .ok (b, s')) : s'.TimeWF := by
  induction k generalizing s with
  | zero =>
    simp only [Sim.steps, Except.ok.injEq, Prod.mk.injEq] at hok
    obtain ⟨_, rfl⟩ := hok
    exact hw
  | succ k ih =>
    simp only [Sim.steps] at hok
    split at hok
    · cases hok
    · rename_i s1 hst
      cases hok
      exact hw.step hzero h hh false hst
    · rename_i s1 hst
      exact ih (hw.step hzero h hh true hst) hok

theorem TimeWF.sendLocal (hzero : LawfulTime.isDraw (TimeOps.zero : T)) (h : SHandler σ T) (hh : HandlerDelaysOk h)
    {s s' : Sim σ T} (p : Nat) (m : Msg) (hw : s.TimeWF) (hok : s.sendLocal h p m = .ok s') : s'.TimeWF := by
  unfold Sim.sendLocal at hok
  split at hok
  · cases hok
  · split at hok
    · cases hok
    · split at hok
      · cases hok
      · exact (onLocal_tstep hzero h hh _ p m hok).wf hw

/-- the invariant looks at the queue, the id counter, the clock, the delay bounds and the draws only -/
theorem TimeWF.of_fields {s s' : Sim σ T} (hw : s.TimeWF) (hclock : s'.clock = s.clock) (hev : s'.events = s.events)
    (hec : s'.eventCount = s.eventCount) (hmin : s'.net.minDelay = s.net.minDelay)
    (hmax : s'.net.maxDelay = s.net.maxDelay) (hdr : s'.draws = s.draws) : s'.TimeWF :=
  ⟨hw.queueWF.of_fields hev hec, by intro e he; rw [hclock]; rw [hev] at he; exact hw.clockOk e he,
    by rw [hmin, hmax]; exact hw.delaysOk, by rw [hdr]; exact hw.drawsOk⟩

theorem TimeWF.crashNode {s s' : Sim σ T} (n : Nat) (hw : s.TimeWF) (hok : s.crashNode n = .ok s') : s'.TimeWF := by
  obtain ⟨nd, rest, _, rfl⟩ := crashNode_shape s s' n hok
  exact hw.of_fields rfl rfl rfl rfl rfl rfl

theorem TimeWF.recoverNode {s s' : Sim σ T} (n : Nat) (hw : s.TimeWF) (hok : s.recoverNode n = .ok s') : s'.TimeWF := by
  unfold Sim.recoverNode at hok
  split at hok
  · cases hok
  · split at hok
    · cases hok
    · cases hok
      exact hw.of_fields rfl rfl rfl rfl rfl rfl

theorem TimeWF.addNode {s s' : Sim σ T} (n : Nat) (hw : s.TimeWF) (hok : s.addNode n = .ok s') : s'.TimeWF := by
  unfold Sim.addNode at hok
  split at hok
  · cases hok
  · cases hok
    exact hw.of_fields rfl rfl rfl rfl rfl rfl

theorem TimeWF.addProcess {s s' : Sim σ T} (p n : Nat) (st : σ) (hw : s.TimeWF) (hok : s.addProcess p st n = .ok s') :
    s'.TimeWF := by
  unfold Sim.addProcess at hok
  cases hn : amGet? n s.nodes with
  | none => simp [nodeOf, hn] at hok
  | some nd =>
    simp only [nodeOf, hn] at hok
    split at hok
    · cases hok
    · cases hok
      exact hw.of_fields rfl rfl rfl rfl rfl rfl

/-- a fresh simulator (nothing queued) with lawful delay bounds and draws -/
theorem TimeWF.of_empty (s : Sim σ T) (hev : s.events = [])
    (hdel : TimeOps.le TimeOps.zero s.net.minDelay = true ∧ TimeOps.le s.net.minDelay s.net.maxDelay = true)
    (hdr : ∀ d ∈ s.draws, LawfulTime.isDraw d) : s.TimeWF :=
  ⟨by simp [QueueWF, hev], by simp [ClockOk, hev], hdel, hdr⟩

/-! ### (1) the pops are sorted -/

/-- every key popped from a state above `b` comes after `b` -/
theorem popSeq_above (hzero : LawfulTime.isDraw (TimeOps.zero : T)) (h : SHandler σ T) (hh : HandlerDelaysOk h) (k : Nat) :
    ∀ (s : Sim σ T) (b : T × Nat), s.TimeWF → Above b s → ∀ y ∈ popSeq h k s, keyLt b y := by
  induction k with
  | zero => intro s b _ _ y hy; simp [popSeq] at hy
  | succ k ih =>
    intro s b hw ha y hy
    cases hpop : nextEvent (s.events.length + 1) s with
    | mk o s1 =>
      cases o with
      | none => rw [popSeq_succ_none h k hpop] at hy; cases hy
      | some e =>
        obtain ⟨hke, ha1⟩ := pop_above (Nat.lt_succ_self _) hw hpop ha
        cases hdel : deliver h e s1 with
        | error err =>
          rw [popSeq_succ_error h k hpop hdel, List.mem_singleton] at hy
          rw [hy]; exact hke
        | ok s2 =>
          rw [popSeq_succ_ok h k hpop hdel, List.mem_cons] at hy
          rcases hy with rfl | hy
          · exact hke
          · have hw1 := (pop_some (Nat.lt_succ_self _) hw hpop).1
            have hst := deliver_tstep hzero h hh e hdel
            exact ih s2 b (hst.wf hw1) (hst.above hw1 ha1) y hy

/-- **Events are handled in `(time, id)` order.**  The keys of the events popped along `steps h k s` are strictly
    increasing in the lexicographic order on `(time, id)`, pairwise: an event that was queued when an earlier one was popped
    comes later by minimality of the pop; an event created after that pop has a time `≥` the clock (`=` the popped time or
    later) and a fresh, larger id. -/
theorem popSeq_sorted (hzero : LawfulTime.isDraw (TimeOps.zero : T)) (h : SHandler σ T) (hh : HandlerDelaysOk h) (k : Nat)
    (s : Sim σ T) (hw : s.TimeWF) : (popSeq h k s).Pairwise keyLt := by
  induction k generalizing s with
  | zero => simp [popSeq]
  | succ k ih =>
    cases hpop : nextEvent (s.events.length + 1) s with
    | mk o s1 =>
      cases o with
      | none => rw [popSeq_succ_none h k hpop]; exact List.Pairwise.nil
      | some e =>
        cases hdel : deliver h e s1 with
        | error err => rw [popSeq_succ_error h k hpop hdel]; exact List.pairwise_singleton _ _
        | ok s2 =>
          rw [popSeq_succ_ok h k hpop hdel]
          obtain ⟨hw1, _, _, _, _, _, _, ha1⟩ := pop_some (Nat.lt_succ_self _) hw hpop
          have hst := deliver_tstep hzero h hh e hdel
          exact List.pairwise_cons.2
            ⟨popSeq_above hzero h hh k s2 _ (hst.wf hw1) (hst.above hw1 ha1), ih s2 (hst.wf hw1)⟩

/-- handled times never decrease -/
theorem pop_times_nondecreasing (hzero : LawfulTime.isDraw (TimeOps.zero : T)) (h : SHandler σ T) (hh : HandlerDelaysOk h)
    (k : Nat) (s : Sim σ T) (hw : s.TimeWF) :
    ((popSeq h k s).map (·.1)).Pairwise (fun a b => TimeOps.le a b = true) := by
  rw [List.pairwise_map]
  exact (popSeq_sorted hzero h hh k s hw).imp (fun hab => le_of_keyLt hab)

/-- ties are broken in creation order: of two events handled at the same time, the one handled first has the smaller id
    (ids are the values of the counter `eventCount` at creation: `addEvent_time`, `step_creates_later`) -/
theorem pop_ties_in_creation_order (hzero : LawfulTime.isDraw (TimeOps.zero : T)) (h : SHandler σ T)
    (hh : HandlerDelaysOk h) (k : Nat) (s : Sim σ T) (hw : s.TimeWF) :
    (popSeq h k s).Pairwise (fun a b => a.1 = b.1 → a.2 < b.2) := by
  refine (popSeq_sorted hzero h hh k s hw).imp ?_
  intro a b hab heq
  rcases hab with hlt | ⟨_, hid⟩
  · have := (LawfulTime.lt_iff _ _).1 hlt
    rw [heq, LawfulTime.le_refl] at this; cases this
  · exact hid

/-- id `i` was handed out and is no longer queued (it can never be popped again) -/
def TimeOrder.Gone (i : Nat) (s : Sim σ T) : Prop := i < s.eventCount ∧ ∀ x ∈ s.events, x.id ≠ i

theorem TimeOrder.TStep.gone {s s' : Sim σ T} (h : TStep s s') (hw : s.TimeWF) {i : Nat} (hg : Gone i s) : Gone i s' := by
  refine ⟨Nat.lt_of_lt_of_le hg.1 h.count, ?_⟩
  intro x hx
  rcases h.fresh hw x hx with hx | ⟨hid, _⟩
  · exact hg.2 x hx
  · have := hg.1; omega

theorem popSeq_gone (hzero : LawfulTime.isDraw (TimeOps.zero : T)) (h : SHandler σ T) (hh : HandlerDelaysOk h) (k : Nat) :
    ∀ (s : Sim σ T) (i : Nat), s.TimeWF → Gone i s → ∀ y ∈ popSeq h k s, y.2 ≠ i := by
  induction k with
  | zero => intro s i _ _ y hy; simp [popSeq] at hy
  | succ k ih =>
    intro s i hw hg y hy
    cases hpop : nextEvent (s.events.length + 1) s with
    | mk o s1 =>
      cases o with
      | none => rw [popSeq_succ_none h k hpop] at hy; cases hy
      | some e =>
        obtain ⟨hw1, _, _, _, p5, p6, p7, _⟩ := pop_some (Nat.lt_succ_self _) hw hpop
        cases hdel : deliver h e s1 with
        | error err =>
          rw [popSeq_succ_error h k hpop hdel, List.mem_singleton] at hy
          rw [hy]; exact hg.2 e p6
        | ok s2 =>
          rw [popSeq_succ_ok h k hpop hdel, List.mem_cons] at hy
          rcases hy with rfl | hy
          · exact hg.2 e p6
          · have hst := deliver_tstep hzero h hh e hdel
            have hg1 : Gone i s1 := ⟨by rw [p5]; exact hg.1, fun x hx => hg.2 x (p7 x hx)⟩
            exact ih s2 i (hst.wf hw1) (hst.gone hw1 hg1) y hy

/-- no event is handled twice: the popped ids are pairwise distinct (a popped id leaves the queue and ids are never
    reused) -/
theorem popSeq_ids_nodup (hzero : LawfulTime.isDraw (TimeOps.zero : T)) (h : SHandler σ T) (hh : HandlerDelaysOk h)
    (k : Nat) (s : Sim σ T) (hw : s.TimeWF) : ((popSeq h k s).map (·.2)).Nodup := by
  rw [List.Nodup, List.pairwise_map]
  induction k generalizing s with
  | zero => simp [popSeq]
  | succ k ih =>
    cases hpop : nextEvent (s.events.length + 1) s with
    | mk o s1 =>
      cases o with
      | none => rw [popSeq_succ_none h k hpop]; exact List.Pairwise.nil
      | some e =>
        cases hdel : deliver h e s1 with
        | error err => rw [popSeq_succ_error h k hpop hdel]; exact List.pairwise_singleton _ _
        | ok s2 =>
          rw [popSeq_succ_ok h k hpop hdel]
          obtain ⟨hw1, _, _, _, p5, p6, _, _⟩ := pop_some (Nat.lt_succ_self _) hw hpop
          have hst := deliver_tstep hzero h hh e hdel
          have hg1 : Gone e.id s1 :=
            ⟨by rw [p5]; exact hw.queueWF.2 e p6, nextEvent_ids_ne _ s s1 e hpop⟩
          exact List.pairwise_cons.2
            ⟨fun y hy => Ne.symm (popSeq_gone hzero h hh k s2 e.id (hst.wf hw1) (hst.gone hw1 hg1) y hy),
              ih s2 (hst.wf hw1)⟩

/-- every popped id was handed out before the end of the run: it is below the final id counter -/
theorem popSeq_ids_lt (hzero : LawfulTime.isDraw (TimeOps.zero : T)) (h : SHandler σ T) (hh : HandlerDelaysOk h) (k : Nat)
    {s s' : Sim σ T} (b : Bool) (hw : s.TimeWF) (hok : s.steps h k = .ok (b, s')) :
    s.eventCount ≤ s'.eventCount ∧ ∀ y ∈ popSeq h k s, y.2 < s'.eventCount := by
  induction k generalizing s with
  | zero =>
    simp only [Sim.steps, Except.ok.injEq, Prod.mk.injEq] at hok
    obtain ⟨_, rfl⟩ := hok
    exact ⟨Nat.le_refl _, by simp [popSeq]⟩
  | succ k ih =>
    simp only [Sim.steps] at hok
    split at hok
    · cases hok
    · rename_i s1 hst
      cases hok
      rcases step_cases h hst with ⟨_, hpop⟩ | ⟨hb, _⟩
      · rw [popSeq_succ_none h k hpop]
        exact ⟨by rw [(nextEvent_frame _ s s' _ hpop).2.2.2.1]; exact Nat.le_refl _, by simp⟩
      · cases hb
    · rename_i s1 hst
      rcases step_cases h hst with ⟨hb, _⟩ | ⟨_, e, s0, hpop, hdel⟩
      · cases hb
      · obtain ⟨hw0, _, _, _, p5, p6, _, _⟩ := pop_some (Nat.lt_succ_self _) hw hpop
        have hd := deliver_tstep hzero h hh e hdel
        obtain ⟨i1, i2⟩ := ih (hd.wf hw0) hok
        have hle : s.eventCount ≤ s1.eventCount := by rw [← p5]; exact hd.count
        rw [popSeq_succ_ok h k hpop hdel]
        refine ⟨Nat.le_trans hle i1, ?_⟩
        intro y hy
        rcases List.mem_cons.1 hy with rfl | hy
        · have := hw.queueWF.2 e p6
          show e.id < s'.eventCount
          omega
        · exact i2 y hy

/-- what a successful step does to the queue: the popped event `e` is minimal, the clock is its time, and every event
    queued afterwards either was queued before (and comes strictly after `e`) or was created by the step: its id is a value
    the counter took during the step (`≥` the old counter, `<` the new one) and its time is not before the clock -/
theorem step_creates_later (hzero : LawfulTime.isDraw (TimeOps.zero : T)) (h : SHandler σ T) (hh : HandlerDelaysOk h)
    {s s' : Sim σ T} (hw : s.TimeWF) (hok : s.step h = .ok (true, s')) :
    ∃ e ∈ s.events, popSeq h 1 s = [(e.time, e.id)] ∧ s'.clock = e.time ∧ s.eventCount ≤ s'.eventCount ∧
      ∀ x ∈ s'.events, keyLt (e.time, e.id) (x.time, x.id) ∧ x.id < s'.eventCount ∧
        (x ∈ s.events ∨ (s.eventCount ≤ x.id ∧ TimeOps.le e.time x.time = true)) := by
  rcases step_cases h hok with ⟨hb, _⟩ | ⟨_, e, s1, hpop, hdel⟩
  · cases hb
  · obtain ⟨hw1, p2, _, _, p5, p6, p7, ha1⟩ := pop_some (Nat.lt_succ_self _) hw hpop
    have hst := deliver_tstep hzero h hh e hdel
    have ha' := hst.above hw1 ha1
    refine ⟨e, p6, by rw [popSeq_succ_ok h 0 hpop hdel]; rfl, by rw [hst.clock, p2], by rw [← p5]; exact hst.count, ?_⟩
    intro x hx
    refine ⟨ha'.2.2 x hx, (hst.wf hw1).queueWF.2 x hx, ?_⟩
    rcases hst.fresh hw1 x hx with hx1 | ⟨hid, ht⟩
    · exact .inl (p7 x hx1)
    · exact .inr ⟨by rw [← p5]; exact hid, by rw [← p2]; exact ht⟩

/-! ### (2) the clock -/

/-- clock and trace along one step -/
theorem step_trun (hzero : LawfulTime.isDraw (TimeOps.zero : T)) (h : SHandler σ T) (hh : HandlerDelaysOk h)
    {s s' : Sim σ T} (b : Bool) (hw : s.TimeWF) (hok : s.step h = .ok (b, s')) : TRun s s' := by
  rcases step_cases h hok with ⟨_, hpop⟩ | ⟨_, e, s1, hpop, hdel⟩
  · obtain ⟨_, hc, htr⟩ := pop_none (Nat.lt_succ_self _) hw hpop
    exact TRun.of_clock (by rw [hc]; exact LawfulTime.le_refl _) htr
  · obtain ⟨_, p2, p3, p4, _⟩ := pop_some (Nat.lt_succ_self _) hw hpop
    exact (TRun.of_clock (by rw [p2]; exact p3) p4).trans (TRun.of_tstep (deliver_tstep hzero h hh e hdel))

theorem steps_trun (hzero : LawfulTime.isDraw (TimeOps.zero : T)) (h : SHandler σ T) (hh : HandlerDelaysOk h) (k : Nat)
    {s s' : Sim σ T} (b : Bool) (hw : s.TimeWF) (hok : s.steps h k = .ok (b, s')) : TRun s s' := by
  induction k generalizing s with
  | zero =>
    simp only [Sim.steps, Except.ok.injEq, Prod.mk.injEq] at hok
    obtain ⟨_, rfl⟩ := hok
    exact TRun.refl s
  | succ k ih =>
    simp only [Sim.steps] at hok
    split at hok
    · cases hok
    · rename_i s1 hst
      cases hok
      exact step_trun hzero h hh false hw hst
    · rename_i s1 hst
      exact (step_trun hzero h hh true hw hst).trans (ih (hw.step hzero h hh true hst) hok)

/-- **`steps` never decreases the clock.** -/
theorem clock_monotone (hzero : LawfulTime.isDraw (TimeOps.zero : T)) (h : SHandler σ T) (hh : HandlerDelaysOk h) (k : Nat)
    {s s' : Sim σ T} (b : Bool) (hw : s.TimeWF) (hok : s.steps h k = .ok (b, s')) :
    TimeOps.le s.clock s'.clock = true :=
  (steps_trun hzero h hh k b hw hok).clock

/-- after a step that popped an event the clock equals that event's time; after a step that popped nothing the clock is
    unchanged (no well-formedness needed) -/
theorem step_clock_eq_pop (h : SHandler σ T) {s s' : Sim σ T} {b : Bool} (hok : s.step h = .ok (b, s')) :
    (b = true ∧ ∃ e ∈ s.events, popSeq h 1 s = [(e.time, e.id)] ∧ s'.clock = e.time) ∨
    (b = false ∧ popSeq h 1 s = [] ∧ s'.clock = s.clock) := by
  rcases step_cases h hok with ⟨hb, hpop⟩ | ⟨hb, e, s1, hpop, hdel⟩
  · exact .inr ⟨hb, popSeq_succ_none h 0 hpop, (nextEvent_none_core _ s s' (Nat.lt_succ_self _) hpop).2.1⟩
  · obtain ⟨h1, _, _, h4, _⟩ := nextEvent_some_core _ s s1 e hpop
    exact .inl ⟨hb, e, h1, by rw [popSeq_succ_ok h 0 hpop hdel]; rfl, by rw [deliver_clock h e s1 s' hdel, h4]⟩

/-- the clock after `steps h k` is the time of the last popped event (the initial clock if nothing was popped) -/
theorem steps_clock_eq_last_pop (h : SHandler σ T) (k : Nat) {s s' : Sim σ T} {b : Bool}
    (hok : s.steps h k = .ok (b, s')) :
    s'.clock = ((popSeq h k s).getLast?.map (·.1)).getD s.clock := by
  induction k generalizing s with
  | zero =>
    simp only [Sim.steps, Except.ok.injEq, Prod.mk.injEq] at hok
    obtain ⟨_, rfl⟩ := hok
    simp [popSeq]
  | succ k ih =>
    simp only [Sim.steps] at hok
    split at hok
    · cases hok
    · rename_i s1 hst
      cases hok
      rcases step_cases h hst with ⟨_, hpop⟩ | ⟨hb, _⟩
      · rw [popSeq_succ_none h k hpop]
        simpa using (nextEvent_none_core _ s s' (Nat.lt_succ_self _) hpop).2.1
      · cases hb
    · rename_i s1 hst
      rcases step_cases h hst with ⟨hb, _⟩ | ⟨_, e, s0, hpop, hdel⟩
      · cases hb
      · obtain ⟨_, _, _, h4, _⟩ := nextEvent_some_core _ s s0 e hpop
        have hc : s1.clock = e.time := by rw [deliver_clock h e s0 s1 hdel, h4]
        rw [popSeq_succ_ok h k hpop hdel, List.getLast?_cons, ih hok, hc]
        cases (popSeq h k s1).getLast? <;> rfl

/-! ### (3) the global trace -/

/-- **The times of the global trace are sorted along `steps`.**  If the times of the trace entries are non-decreasing and
    none lies after the clock, the same holds after `steps h k`; more precisely the trace grows by entries whose times are
    non-decreasing, not before the clock at the start (hence not before any earlier entry) and not after the clock at the
    end. -/
theorem trace_times_sorted (hzero : LawfulTime.isDraw (TimeOps.zero : T)) (h : SHandler σ T) (hh : HandlerDelaysOk h)
    (k : Nat) {s s' : Sim σ T} (b : Bool) (hw : s.TimeWF) (hi : s.TraceTimeInv) (hok : s.steps h k = .ok (b, s')) :
    s'.TraceTimeInv ∧ ∃ extra, s'.trace = s.trace ++ extra ∧
      (extra.map SLog.time).Pairwise (fun a b => TimeOps.le a b = true) ∧
      (∀ y ∈ extra, TimeOps.le s.clock y.time = true ∧ TimeOps.le y.time s'.clock = true) ∧
      ∀ x ∈ s.trace, ∀ y ∈ extra, TimeOps.le x.time y.time = true := by
  have hr := steps_trun hzero h hh k b hw hok
  obtain ⟨extra, htr, hp, hb⟩ := hr.trace
  exact ⟨hr.inv hi, extra, htr, hp, hb, fun x hx y hy => LawfulTime.le_trans _ _ _ (hi.2 x hx) (hb y hy).1⟩

/-- every entry written by a step carries exactly the time of the event popped by that step (= the clock afterwards) -/
theorem step_trace_times (hzero : LawfulTime.isDraw (TimeOps.zero : T)) (h : SHandler σ T) (hh : HandlerDelaysOk h)
    {s s' : Sim σ T} {b : Bool} (hok : s.step h = .ok (b, s')) :
    ∃ extra, s'.trace = s.trace ++ extra ∧ ∀ x ∈ extra, x.time = s'.clock := by
  rcases step_cases h hok with ⟨_, hpop⟩ | ⟨_, e, s1, hpop, hdel⟩
  · exact ⟨[], by simp [(nextEvent_none_core _ s s' (Nat.lt_succ_self _) hpop).2.2.1], by simp⟩
  · have hst := deliver_tstep hzero h hh e hdel
    obtain ⟨extra, htr, hx⟩ := hst.trace
    refine ⟨extra, by rw [htr, (nextEvent_frame _ s s1 _ hpop).1], ?_⟩
    intro x hxm
    rw [hx x hxm, hst.clock]

theorem TraceTimeInv.step (hzero : LawfulTime.isDraw (TimeOps.zero : T)) (h : SHandler σ T) (hh : HandlerDelaysOk h)
    {s s' : Sim σ T} (b : Bool) (hw : s.TimeWF) (hi : s.TraceTimeInv) (hok : s.step h = .ok (b, s')) :
    s'.TraceTimeInv := (step_trun hzero h hh b hw hok).inv hi

theorem TraceTimeInv.steps (hzero : LawfulTime.isDraw (TimeOps.zero : T)) (h : SHandler σ T) (hh : HandlerDelaysOk h)
    (k : Nat) {s s' : Sim σ T} (b : Bool) (hw : s.TimeWF) (hi : s.TraceTimeInv) (hok : s.steps h k = .ok (b, s')) :
    s'.TraceTimeInv := (steps_trun hzero h hh k b hw hok).inv hi

/-- `send_local_message`: the entries (`LocalMessageReceived` and those of the handler's actions) carry the clock -/
theorem sendLocal_tstep (hzero : LawfulTime.isDraw (TimeOps.zero : T)) (h : SHandler σ T) (hh : HandlerDelaysOk h)
    {s s' : Sim σ T} (p : Nat) (m : Msg) (hok : s.sendLocal h p m = .ok s') : TStep s s' := by
  unfold Sim.sendLocal at hok
  split at hok
  · cases hok
  · split at hok
    · cases hok
    · split at hok
      · cases hok
      · exact onLocal_tstep hzero h hh _ p m hok

theorem TraceTimeInv.sendLocal (hzero : LawfulTime.isDraw (TimeOps.zero : T)) (h : SHandler σ T) (hh : HandlerDelaysOk h)
    {s s' : Sim σ T} (p : Nat) (m : Msg) (hi : s.TraceTimeInv) (hok : s.sendLocal h p m = .ok s') :
    s'.TraceTimeInv := (TRun.of_tstep (sendLocal_tstep hzero h hh p m hok)).inv hi

/-- a call that leaves the clock alone and logs entries stamped with the clock -/
theorem TraceTimeInv.of_log {s s' : Sim σ T} (hi : s.TraceTimeInv) (hclock : s'.clock = s.clock) (extra : List (SLog T))
    (htr : s'.trace = s.trace ++ extra) (hx : ∀ x ∈ extra, x.time = s.clock) : s'.TraceTimeInv := by
  refine TRun.inv ⟨by rw [hclock]; exact LawfulTime.le_refl _, extra, htr, ?_, ?_⟩ hi
  · apply pairwise_of_forall_mem
    intro a ha b hb
    obtain ⟨x, hx1, rfl⟩ := List.mem_map.1 ha
    obtain ⟨y, hy1, rfl⟩ := List.mem_map.1 hb
    rw [hx x hx1, hx y hy1]; exact LawfulTime.le_refl _
  · intro y hy
    rw [hx y hy, hclock]
    exact ⟨LawfulTime.le_refl _, LawfulTime.le_refl _⟩

theorem crashDrops_time (c : T) (live : List Nat) (L : List (QEv T)) : ∀ x ∈ crashDrops c live L, x.time = c := by
  intro x hx
  obtain ⟨e, _, he⟩ := List.mem_filterMap.1 hx
  unfold crashDrop at he
  split at he
  · split at he
    · cases he; rfl
    · cases he
  · cases he

/-- `crash_node`: `NodeCrashed` and the `MessageDropped` entries of the messages in flight carry the clock -/
theorem TraceTimeInv.crashNode {s s' : Sim σ T} (n : Nat) (hi : s.TraceTimeInv) (hok : s.crashNode n = .ok s') :
    s'.TraceTimeInv := by
  obtain ⟨nd, _, rfl⟩ := crashNode_shape' s s' n hok
  refine hi.of_log rfl _ rfl ?_
  intro x hx
  rcases List.mem_cons.1 hx with rfl | hx
  · rfl
  · exact crashDrops_time _ _ _ x hx

theorem TraceTimeInv.recoverNode {s s' : Sim σ T} (n : Nat) (hi : s.TraceTimeInv) (hok : s.recoverNode n = .ok s') :
    s'.TraceTimeInv := by
  unfold Sim.recoverNode at hok
  split at hok
  · cases hok
  · split at hok
    · cases hok
    · cases hok
      refine hi.of_log rfl [.nodeRecovered s.clock n] rfl ?_
      intro x hx; rw [List.mem_singleton] at hx; rw [hx]; rfl

theorem TraceTimeInv.addNode {s s' : Sim σ T} (n : Nat) (hi : s.TraceTimeInv) (hok : s.addNode n = .ok s') :
    s'.TraceTimeInv := by
  unfold Sim.addNode at hok
  split at hok
  · cases hok
  · cases hok
    refine hi.of_log rfl [.nodeStarted s.clock n] rfl ?_
    intro x hx; rw [List.mem_singleton] at hx; rw [hx]; rfl

theorem TraceTimeInv.addProcess {s s' : Sim σ T} (p n : Nat) (st : σ) (hi : s.TraceTimeInv)
    (hok : s.addProcess p st n = .ok s') : s'.TraceTimeInv := by
  unfold Sim.addProcess at hok
  cases hn : amGet? n s.nodes with
  | none => simp [nodeOf, hn] at hok
  | some nd =>
    simp only [nodeOf, hn] at hok
    split at hok
    · cases hok
    · cases hok
      refine hi.of_log rfl [.processStarted s.clock n p] rfl ?_
      intro x hx; rw [List.mem_singleton] at hx; rw [hx]; rfl

/-- `read_local_messages` writes nothing -/
theorem TraceTimeInv.readLocal {s s' : Sim σ T} (p : Nat) (ms : List Msg) (hi : s.TraceTimeInv)
    (hok : s.readLocal p = .ok (ms, s')) : s'.TraceTimeInv := by
  unfold Sim.readLocal at hok
  split at hok
  · cases hok
  · split at hok
    · cases hok
    · rename_i n o s1 hrd
      cases hok
      unfold Sim.readNode at hrd
      split at hrd
      · cases hrd
      · split at hrd
        · cases hrd
        · split at hrd
          · cases hrd; exact hi
          · cases hrd
            exact hi.of_log (by simp) [] (by simp) (by simp)

/-- changing a node's clock skew changes no trace time and does not invalidate the invariant: the skew enters the clock
    reading handed to the handler only -/
theorem TraceTimeInv.setSkew {s s' : Sim σ T} (n : Nat) (skew : T) (hi : s.TraceTimeInv)
    (hok : s.setSkew n skew = .ok s') : s'.TraceTimeInv := by
  unfold Sim.setSkew at hok
  split at hok
  · cases hok
  · cases hok; exact hi

theorem TimeWF.setSkew {s s' : Sim σ T} (n : Nat) (skew : T) (hw : s.TimeWF)
    (hok : s.setSkew n skew = .ok s') : s'.TimeWF := by
  unfold Sim.setSkew at hok
  split at hok
  · cases hok
  · cases hok; exact hw.of_fields rfl rfl rfl rfl rfl rfl

/-- the network settings log one entry each, stamped with the clock -/
theorem TraceTimeInv.netLog1 {s : Sim σ T} (hi : s.TraceTimeInv) (f : SimNet T → SimNet T) (x : SLog T)
    (hx : x.time = s.clock) : ((s.netSet f).log x).TraceTimeInv :=
  hi.of_log rfl [x] rfl (by intro y hy; rw [List.mem_singleton] at hy; rw [hy]; exact hx)

theorem TraceTimeInv.dropIncoming {s : Sim σ T} (n : Nat) (hi : s.TraceTimeInv) : (s.dropIncoming n).TraceTimeInv :=
  hi.netLog1 _ _ rfl
theorem TraceTimeInv.passIncoming {s : Sim σ T} (n : Nat) (hi : s.TraceTimeInv) : (s.passIncoming n).TraceTimeInv :=
  hi.netLog1 _ _ rfl
theorem TraceTimeInv.dropOutgoing {s : Sim σ T} (n : Nat) (hi : s.TraceTimeInv) : (s.dropOutgoing n).TraceTimeInv :=
  hi.netLog1 _ _ rfl
theorem TraceTimeInv.passOutgoing {s : Sim σ T} (n : Nat) (hi : s.TraceTimeInv) : (s.passOutgoing n).TraceTimeInv :=
  hi.netLog1 _ _ rfl
theorem TraceTimeInv.disconnectNode {s : Sim σ T} (n : Nat) (hi : s.TraceTimeInv) : (s.disconnectNode n).TraceTimeInv :=
  hi.netLog1 _ _ rfl
theorem TraceTimeInv.connectNode {s : Sim σ T} (n : Nat) (hi : s.TraceTimeInv) : (s.connectNode n).TraceTimeInv :=
  hi.netLog1 _ _ rfl
theorem TraceTimeInv.disableLink {s : Sim σ T} (a b : Nat) (hi : s.TraceTimeInv) : (s.disableLink a b).TraceTimeInv :=
  hi.netLog1 _ _ rfl
theorem TraceTimeInv.enableLink {s : Sim σ T} (a b : Nat) (hi : s.TraceTimeInv) : (s.enableLink a b).TraceTimeInv :=
  hi.netLog1 _ _ rfl
theorem TraceTimeInv.makePartition {s : Sim σ T} (g1 g2 : List Nat) (hi : s.TraceTimeInv) :
    (s.makePartition g1 g2).TraceTimeInv := hi.netLog1 _ _ rfl
theorem TraceTimeInv.netReset {s : Sim σ T} (hi : s.TraceTimeInv) : s.netReset.TraceTimeInv :=
  hi.netLog1 _ _ rfl

/-- an empty trace satisfies the invariant -/
theorem TraceTimeInv.of_empty (s : Sim σ T) (htr : s.trace = []) : s.TraceTimeInv := by
  simp [TraceTimeInv, htr]

end lawful
end Sim
/-! ## Non-vacuity: a concrete run over `Ticks` with two ties and an event created after a pop -/
namespace SimTimeOrderDemo

open Sim Sim.TimeOrder

/-- two nodes (node 0 has clock skew 7), process 1 on node 0 and process 2 on node 1, no faults, network delays in
    `[1, 5]`, six draws; nothing has happened yet -/
def s0 : Sim Nat Ticks :=
  { clock := ⟨0⟩,
    net := { (SimNet.default : SimNet Ticks) with procLoc := [(1, 0), (2, 1)], minDelay := ⟨1⟩, maxDelay := ⟨5⟩ },
    draws := [⟨500⟩, ⟨100⟩, ⟨900⟩, ⟨250⟩, ⟨10⟩, ⟨20⟩],
    nodes := [(0, { skew := ⟨7⟩, procs := [(1, { st := 0 })] }), (1, { skew := ⟨0⟩, procs := [(2, { st := 0 })] })],
    procNodes := [(1, 0), (2, 1)], handlers := [0, 1] }

/-- process 1 answers a local message with a message to itself (same node: delay 0), a timer with delay 0 and a message to
    process 2 (cross-node: delay `1 + 250·4/1000 = 2`); when its own message arrives it sets a second timer with delay 2 and
    reports its clock reading in a local message; everything else is ignored -/
def h : SHandler Nat Ticks := fun p st i c _ =>
  match p, i with
  | 1, .loc _ => (st + 1, [.send ⟨1, []⟩ 1, .set 0 0 false, .send ⟨2, [7]⟩ 2], 0)
  | 1, .msg _ _ => (st + 1, [.set 1 2 false, .loc ⟨9, [c.n]⟩], 0)
  | _, _ => (st + 1, [], 0)

theorem hzero : LawfulTime.isDraw (TimeOps.zero : Ticks) := by
  show (0 : Nat) < 1000
  decide

/-- every delay is non-negative in `Ticks` -/
theorem hdelays : HandlerDelaysOk h := by
  intro p st i c dr name d once _
  show decide ((0 : Nat) ≤ _) = true
  simp

theorem s0_wf : s0.TimeWF := by
  refine TimeWF.of_empty s0 rfl ⟨by decide, by decide⟩ ?_
  intro d hd
  simp only [s0, List.mem_cons, List.not_mem_nil, or_false] at hd
  rcases hd with rfl | rfl | rfl | rfl | rfl | rfl <;> (show (_ : Nat) < 1000) <;> decide

theorem s0_trace : s0.TraceTimeInv := TraceTimeInv.of_empty s0 rfl

/-- after `send_local_message` three events are queued: ids 0 and 1 at time 0 (a tie), id 2 at time 2 -/
example : (s0.sendLocal h 1 ⟨0, []⟩).toOption.map (fun s => s.events.map (fun e => (e.time, e.id))) =
    some [(⟨0⟩, 0), (⟨0⟩, 1), (⟨2⟩, 2)] := by decide

/-- `popSeq` evaluated: four pops.  Ids 0 and 1 tie at time 0 and are handled in creation order; the timer with id 3 is
    created by the handler run of the first pop (at clock 0, delay 2) and ties at time 2 with the message copy id 2, which was
    queued before: it is handled after it. -/
example : (s0.sendLocal h 1 ⟨0, []⟩).toOption.map (fun s => popSeq h 10 s) =
    some [(⟨0⟩, 0), (⟨0⟩, 1), (⟨2⟩, 2), (⟨2⟩, 3)] := by decide

/-- the run exists, pops four events and ends with the clock at the last popped time; the trace times are sorted; the
    handler on node 0 (skew 7) read the clock `0 + 7` while the entries it caused are stamped with the global time `0` -/
example : ((s0.sendLocal h 1 ⟨0, []⟩).bind (·.steps h 4)).toOption.map
    (fun r => (r.1, r.2.clock.n, r.2.eventCount)) = some (true, 2, 4) := by decide

example : ((s0.sendLocal h 1 ⟨0, []⟩).bind (·.steps h 4)).toOption.map
    (fun r => r.2.trace.map (fun x => x.time.n)) = some [0, 0, 0, 0, 0, 0, 0, 0, 2, 2] := by decide

example : ((s0.sendLocal h 1 ⟨0, []⟩).bind (·.steps h 4)).toOption.map
    (fun r => r.2.trace.filterMap (fun x => match x with | .localSent t _ _ _ m => some (t.n, m.data) | _ => none)) =
    some [(0, [7])] := by decide

/-- all hypotheses of the theorems hold for the state after the `send_local_message`, so their conclusions hold for the
    concrete run above -/
example (s1 s' : Sim Nat Ticks) (b : Bool) (hsend : s0.sendLocal h 1 ⟨0, []⟩ = .ok s1)
    (hrun : s1.steps h 4 = .ok (b, s')) :
    (popSeq h 4 s1).Pairwise keyLt ∧ ((popSeq h 4 s1).map (·.2)).Nodup ∧
    TimeOps.le s1.clock s'.clock = true ∧ s'.clock = ((popSeq h 4 s1).getLast?.map (·.1)).getD s1.clock ∧
    s'.TraceTimeInv := by
  have hw1 : s1.TimeWF := s0_wf.sendLocal hzero h hdelays 1 _ hsend
  have hi1 : s1.TraceTimeInv := s0_trace.sendLocal hzero h hdelays 1 _ hsend
  exact ⟨popSeq_sorted hzero h hdelays 4 s1 hw1, popSeq_ids_nodup hzero h hdelays 4 s1 hw1,
    clock_monotone hzero h hdelays 4 b hw1 hrun, steps_clock_eq_last_pop h 4 hrun,
    (trace_times_sorted hzero h hdelays 4 b hw1 hi1 hrun).1⟩

end SimTimeOrderDemo
end Anysystem
