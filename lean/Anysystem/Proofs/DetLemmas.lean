import Anysystem.Model.Snapshot
import Anysystem.Spec.TimeLaws
import Anysystem.Proofs.SimQueueLemmas
/-!
# Helper lemmas for `DetThms.lean` (C01)

* `List.span` as `takeWhile`/`dropWhile`; the insertion step `Det.ins` of `dump_events`; an insertion-sort fold
  is a permutation of its input and keeps a list weakly sorted (`Det.WSorted`) for any asymmetric,
  negatively transitive comparison;
* `evBefore` is asymmetric and negatively transitive (no hypothesis on the ids needed).
-/
namespace Anysystem
variable {σ T : Type} [TimeOps T]

namespace Det

theorem span_loop_eq {α : Type} (p : α → Bool) (l : List α) : ∀ acc : List α,
    List.span.loop p l acc = (acc.reverse ++ l.takeWhile p, l.dropWhile p) := by
  induction l with
  | nil => intro acc; simp [List.span.loop]
  | cons x xs ih =>
    intro acc
    cases hx : p x
    · simp [List.span.loop, hx]
    · simp [List.span.loop, hx, ih]

theorem span_eq {α : Type} (p : α → Bool) (l : List α) : l.span p = (l.takeWhile p, l.dropWhile p) := by
  simpa [List.span] using span_loop_eq p l []

/-- one insertion step of `dump_events` -/
def ins {α : Type} (lt : α → α → Bool) (acc : List α) (e : α) : List α :=
  acc.takeWhile (fun x => lt x e) ++ [e] ++ acc.dropWhile (fun x => lt x e)

theorem insFold_eq {α : Type} (lt : α → α → Bool) (L acc : List α) :
    L.foldl (fun acc e => let (a, b) := acc.span (fun x => lt x e); a ++ [e] ++ b) acc = L.foldl (ins lt) acc := by
  congr 1
  funext acc e
  simp only [span_eq, ins]

theorem ins_perm {α : Type} (lt : α → α → Bool) (acc : List α) (e : α) : (ins lt acc e).Perm (e :: acc) := by
  have h := List.takeWhile_append_dropWhile (p := fun x => lt x e) (l := acc)
  unfold ins
  generalize acc.takeWhile (fun x => lt x e) = a at h
  generalize acc.dropWhile (fun x => lt x e) = b at h
  subst h
  simp only [List.append_assoc, List.singleton_append]
  exact List.perm_middle

theorem insFold_perm {α : Type} (lt : α → α → Bool) (L : List α) : ∀ acc : List α,
    (L.foldl (ins lt) acc).Perm (L ++ acc) := by
  induction L with
  | nil => intro acc; simp
  | cons e L ih =>
    intro acc
    rw [List.foldl_cons]
    refine (ih _).trans ?_
    refine ((ins_perm lt acc e).append_left L).trans ?_
    exact List.perm_middle

/-- weakly sorted: no later element is strictly before an earlier one -/
def WSorted {α : Type} (lt : α → α → Bool) (l : List α) : Prop := l.Pairwise (fun a b => lt b a = false)

theorem ins_sorted {α : Type} (lt : α → α → Bool)
    (hasym : ∀ a b, lt a b = true → lt b a = false)
    (hneg : ∀ a b c, lt a b = false → lt b c = false → lt a c = false)
    (acc : List α) (e : α) (h : WSorted lt acc) : WSorted lt (ins lt acc e) := by
  have happ := List.takeWhile_append_dropWhile (p := fun x => lt x e) (l := acc)
  have htw : ∀ x ∈ acc.takeWhile (fun x => lt x e), lt x e = true := by
    have := List.all_takeWhile (l := acc) (p := fun x => lt x e)
    rw [List.all_eq_true] at this
    exact this
  have hdw : ∀ y ∈ acc.dropWhile (fun x => lt x e), lt y e = false := by
    intro y hy
    have hne : acc.dropWhile (fun x => lt x e) ≠ [] := List.ne_nil_of_mem hy
    have hhead := List.head_dropWhile_not (fun x => lt x e) hne
    have hs : WSorted lt (acc.dropWhile (fun x => lt x e)) := h.sublist (List.dropWhile_sublist _)
    revert hhead hs hy
    generalize acc.dropWhile (fun x => lt x e) = b at hne
    cases b with
    | nil => exact absurd rfl hne
    | cons y0 b =>
      intro hy hhead hs
      simp only [List.head_cons] at hhead
      rcases List.mem_cons.1 hy with rfl | hy
      · exact hhead
      · exact hneg _ _ _ ((List.pairwise_cons.1 hs).1 y hy) hhead
  unfold WSorted at h ⊢
  rw [← happ] at h
  unfold ins
  rw [List.pairwise_append] at h
  obtain ⟨h1, h2, h3⟩ := h
  rw [List.append_assoc, List.pairwise_append]
  refine ⟨h1, ?_, ?_⟩
  · rw [List.singleton_append, List.pairwise_cons]
    exact ⟨hdw, h2⟩
  · intro a ha b hb
    rcases List.mem_append.1 hb with hb | hb
    · rw [List.mem_singleton] at hb; subst hb
      exact hasym _ _ (htw a ha)
    · exact h3 a ha b hb

theorem insFold_sorted {α : Type} (lt : α → α → Bool)
    (hasym : ∀ a b, lt a b = true → lt b a = false)
    (hneg : ∀ a b c, lt a b = false → lt b c = false → lt a c = false)
    (L : List α) : ∀ acc : List α, WSorted lt acc → WSorted lt (L.foldl (ins lt) acc) := by
  induction L with
  | nil => intro acc h; exact h
  | cons e L ih => intro acc h; exact ih _ (ins_sorted lt hasym hneg acc e h)

end Det

namespace Sim

theorem evBefore_asymm [LawfulTime T] (a b : QEv T) (h : evBefore a b = true) : evBefore b a = false := by
  cases h' : evBefore b a with
  | false => rfl
  | true =>
    have := evBefore_trans _ _ _ h h'
    rw [evBefore_irrefl] at this; cases this

theorem evBefore_eq_false_iff [LawfulTime T] (a b : QEv T) :
    evBefore a b = false ↔
      (TimeOps.le b.time a.time = true ∧ (TimeOps.le a.time b.time = true → b.id ≤ a.id)) := by
  have h := evBefore_iff a b
  cases hb : evBefore a b with
  | true =>
    rw [hb] at h
    simp only [true_iff] at h
    simp only [Bool.true_eq_false, false_iff, not_and]
    intro h1 h2
    rcases h with h | h
    · rw [h1] at h; cases h
    · exact absurd (h2 h.1) (Nat.not_le.2 h.2)
  | false =>
    rw [hb] at h
    simp only [Bool.false_eq_true, false_iff, not_or, not_and, Nat.not_lt] at h
    simp only [true_iff]
    refine ⟨?_, h.2⟩
    cases hle : TimeOps.le b.time a.time with
    | true => rfl
    | false => exact absurd hle h.1

theorem evBefore_negtrans [LawfulTime T] (a b c : QEv T) (hab : evBefore a b = false) (hbc : evBefore b c = false) :
    evBefore a c = false := by
  rw [evBefore_eq_false_iff] at hab hbc ⊢
  refine ⟨LawfulTime.le_trans _ _ _ hbc.1 hab.1, ?_⟩
  intro hac
  have h1 := hab.2 (LawfulTime.le_trans _ _ _ hac hbc.1)
  have h2 := hbc.2 (LawfulTime.le_trans _ _ _ hab.1 hac)
  exact Nat.le_trans h2 h1

end Sim
end Anysystem
