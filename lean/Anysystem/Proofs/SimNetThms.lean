import Anysystem.Model.Sim
import Anysystem.Spec.TimeLaws
import Anysystem.Proofs.SimNetLemmas
/-!
# The simulated network (C05) and the bookkeeping of sends (C17)
-/
namespace Anysystem

variable {σ T : Type} [TimeOps T]

/-- the `Ticks` instance is lawful (draws are ticks out of 1000) -/
instance : LawfulTime Ticks where
  isDraw r := r.n < 1000
  le_refl a := by simp [TimeOps.le]
  le_trans a b c := by simp only [TimeOps.le, decide_eq_true_eq]; omega
  le_total a b := by simp only [TimeOps.le, decide_eq_true_eq]; omega
  le_antisymm a b := by
    cases a; cases b
    simp only [TimeOps.le, decide_eq_true_eq, Ticks.mk.injEq]; omega
  lt_iff a b := by
    simp only [TimeOps.lt, TimeOps.le, decide_eq_true_eq, decide_eq_false_iff_not]; omega
  add_zero a := by cases a; simp [TimeOps.add, TimeOps.zero]
  le_add a d := by simp only [TimeOps.le, TimeOps.add, decide_eq_true_eq]; omega
  add_mono a b c := by simp only [TimeOps.le, TimeOps.add, decide_eq_true_eq]; omega
  scale_bounds lo hi r := by
    simp only [TimeOps.le, TimeOps.add, TimeOps.mul, TimeOps.sub, decide_eq_true_eq]
    intro h hr
    have h1 : r.n * (hi.n - lo.n) / 1000 ≤ hi.n - lo.n :=
      Nat.div_le_of_le_mul (Nat.mul_le_mul_right _ (Nat.le_of_lt hr))
    omega
  draw_nonneg r _ := by simp [TimeOps.le, TimeOps.zero]
  copies_bounds r := by
    simp only [TimeOps.copies]
    intro h
    omega

namespace Sim

/-- is the directed path enabled for a cross-node send right now -/
def pathCut (s : Sim σ T) (sn dn : Nat) : Bool :=
  s.net.dropOutgoing.contains sn || s.net.dropIncoming.contains dn || s.net.disabledLinks.contains (sn, dn)

/-- the events a send adds to the queue -/
def added (s s' : Sim σ T) : List (QEv T) := s'.events.drop s.events.length

theorem sendDropped_eq (s : Sim σ T) (sn dn : Nat) :
    s.sendDropped sn dn = (TimeOps.lt (dr s.draws 0) s.net.dropRate || s.pathCut sn dn) := by
  simp [sendDropped, pathCut, Bool.or_assoc]

/-- a cross-node send, dropped -/
theorem cross_dropped (s : Sim σ T) (m : Msg) (src dst sn dn tipLen : Nat) (h : s.sendDropped sn dn = true) :
    crossResult s m src dst sn dn tipLen =
      { s with draws := s.draws.drop 1, net := s.crossNet m tipLen,
               trace := s.trace ++ [.sent s.clock s.net.messageCount sn src dn dst m,
                                    .dropped s.clock s.net.messageCount sn src dn dst m] } := by
  simp [crossResult, h]

/-- a cross-node send, not dropped -/
theorem cross_passed (s : Sim σ T) (m : Msg) (src dst sn dn tipLen : Nat) (h : s.sendDropped sn dn = false) :
    crossResult s m src dst sn dn tipLen =
      { s with draws := s.draws.drop (s.sendBase + s.sendCount), eventCount := s.eventCount + s.sendCount,
               net := s.crossNet m tipLen,
               trace := s.trace ++ [.sent s.clock s.net.messageCount sn src dn dst m],
               events := s.events ++ (List.range s.sendCount).map
                 (copyEv s (.msg s.net.messageCount (s.sendPayload m) src sn dst dn) sn dn s.sendBase) } := by
  simp [crossResult, h]

theorem added_cross_dropped (s : Sim σ T) (m : Msg) (src dst sn dn tipLen : Nat) (h : s.sendDropped sn dn = true) :
    added s (crossResult s m src dst sn dn tipLen) = [] := by
  simp [added, cross_dropped _ _ _ _ _ _ _ h]

theorem added_cross_passed (s : Sim σ T) (m : Msg) (src dst sn dn tipLen : Nat) (h : s.sendDropped sn dn = false) :
    added s (crossResult s m src dst sn dn tipLen) = (List.range s.sendCount).map
      (copyEv s (.msg s.net.messageCount (s.sendPayload m) src sn dst dn) sn dn s.sendBase) := by
  simp [added, cross_passed _ _ _ _ _ _ _ h]

/-- messages inside a node: delivered once, intact, with zero delay, no draw consumed, not counted as
    network traffic -/
theorem send_same_node (s s' : Sim σ T) (m : Msg) (src dst n tipLen : Nat)
    (hs : amGet? src s.net.procLoc = some n) (hd : amGet? dst s.net.procLoc = some n)
    (h : s.sendMessage m src dst tipLen = .ok s') :
    s'.events = s.events ++ [⟨s.eventCount, TimeOps.add s.clock TimeOps.zero, n, n, .msg s.net.messageCount m src n dst n⟩] ∧
    s'.draws = s.draws ∧ s'.net.networkMessageCount = s.net.networkMessageCount ∧ s'.net.traffic = s.net.traffic ∧
    s'.net.messageCount = s.net.messageCount + 1 ∧
    s'.trace = s.trace ++ [.sent s.clock s.net.messageCount n src n dst m] := by
  rw [sendMessage_same s m src dst n tipLen hs hd] at h
  cases h
  simp

/-- a cross-node send over a disabled path (sender's outgoing, receiver's incoming, or the directed
    link): nothing is queued, the loss is logged, exactly one draw is consumed -/
theorem send_cut_dropped (s s' : Sim σ T) (m : Msg) (src dst sn dn tipLen : Nat)
    (hs : amGet? src s.net.procLoc = some sn) (hd : amGet? dst s.net.procLoc = some dn) (hne : sn ≠ dn)
    (hcut : s.pathCut sn dn = true) (h : s.sendMessage m src dst tipLen = .ok s') :
    s'.events = s.events ∧ s'.draws = s.draws.drop 1 ∧
    s'.trace = s.trace ++ [.sent s.clock s.net.messageCount sn src dn dst m, .dropped s.clock s.net.messageCount sn src dn dst m] ∧
    s'.net.networkMessageCount = s.net.networkMessageCount + 1 ∧ s'.net.traffic = s.net.traffic + (tipLen + m.data.length) := by
  rw [sendMessage_cross s m src dst sn dn tipLen hs hd hne] at h
  cases h
  have hdr : s.sendDropped sn dn = true := by rw [sendDropped_eq, hcut, Bool.or_true]
  rw [cross_dropped _ _ _ _ _ _ _ hdr]
  simp [crossNet, msgSize]

/-- whatever is queued by a cross-node send: between 0 and 3 copies of the same message id, each
    carrying the payload sent or its canonical corruption (the latter only if the corruption rate is
    above some draw, i.e. positive), addressed as sent, arriving within the configured bounds -/
theorem send_copies [LawfulTime T] (s s' : Sim σ T) (m : Msg) (src dst sn dn tipLen : Nat)
    (hs : amGet? src s.net.procLoc = some sn) (hd : amGet? dst s.net.procLoc = some dn) (hne : sn ≠ dn)
    (hdraws : ∀ r ∈ s.draws, LawfulTime.isDraw r) (hlen : 8 ≤ s.draws.length)
    (hdel : TimeOps.le s.net.minDelay s.net.maxDelay = true)
    (h : s.sendMessage m src dst tipLen = .ok s') :
    (added s s').length ≤ 3 ∧ s'.events = s.events ++ added s s' ∧
    ∀ e ∈ added s s', e.src = sn ∧ e.dst = dn ∧
      (e.data = .msg s.net.messageCount m src sn dst dn ∨
       (e.data = .msg s.net.messageCount (corruptSim m) src sn dst dn ∧ TimeOps.lt TimeOps.zero s.net.corruptRate = true)) ∧
      TimeOps.le (TimeOps.add s.clock s.net.minDelay) e.time = true ∧
      TimeOps.le e.time (TimeOps.add s.clock s.net.maxDelay) = true := by
  rw [sendMessage_cross s m src dst sn dn tipLen hs hd hne] at h
  cases h
  cases hdr : s.sendDropped sn dn with
  | true =>
    rw [added_cross_dropped _ _ _ _ _ _ _ hdr, cross_dropped _ _ _ _ _ _ _ hdr]
    simp
  | false =>
    have hcnt := sendCount_bounds s hdraws (by omega)
    have hbase := sendBase_le s
    rw [added_cross_passed _ _ _ _ _ _ _ hdr]
    refine ⟨by simpa using hcnt.2, by rw [cross_passed _ _ _ _ _ _ _ hdr], ?_⟩
    intro e he
    obtain ⟨i, hi, rfl⟩ := List.mem_map.1 he
    have hi' : i < s.sendCount := List.mem_range.1 hi
    refine ⟨rfl, rfl, ?_, ?_⟩
    · show QData.msg _ (s.sendPayload m) _ _ _ _ = _ ∨ _
      unfold sendPayload
      split
      · rename_i hc
        right
        refine ⟨rfl, ?_⟩
        -- the corruption rate is above a non-negative draw, hence positive
        cases hz : TimeOps.lt TimeOps.zero s.net.corruptRate with
        | true => rfl
        | false =>
          exfalso
          have h1 : TimeOps.le s.net.corruptRate TimeOps.zero = true := by
            cases hle : TimeOps.le s.net.corruptRate TimeOps.zero with
            | true => rfl
            | false => rw [(LawfulTime.lt_iff _ _).2 hle] at hz; cases hz
          have h2 := LawfulTime.le_trans _ _ _ h1 (dr_nonneg s.draws hdraws 1)
          rw [(LawfulTime.lt_iff _ _).1 hc] at h2
          cases h2
      · left; rfl
    · have hdrw : LawfulTime.isDraw (dr s.draws (s.sendBase + i)) :=
        hdraws _ (dr_mem _ _ (by omega))
      have hb := LawfulTime.scale_bounds s.net.minDelay s.net.maxDelay _ hdel hdrw
      exact ⟨LawfulTime.add_mono _ _ _ hb.1, LawfulTime.add_mono _ _ _ hb.2⟩

/-- duplication rate 0: at most one copy -/
theorem send_no_dupl [LawfulTime T] (s s' : Sim σ T) (m : Msg) (src dst sn dn tipLen : Nat)
    (hs : amGet? src s.net.procLoc = some sn) (hd : amGet? dst s.net.procLoc = some dn)
    (hdraws : ∀ r ∈ s.draws, LawfulTime.isDraw r) (hz : s.net.duplRate = TimeOps.zero)
    (h : s.sendMessage m src dst tipLen = .ok s') : (added s s').length ≤ 1 := by
  by_cases hne : sn = dn
  · subst hne
    rw [sendMessage_same s m src dst sn tipLen hs hd] at h
    cases h
    simp [added]
  · rw [sendMessage_cross s m src dst sn dn tipLen hs hd hne] at h
    cases h
    cases hdr : s.sendDropped sn dn with
    | true => simp [added_cross_dropped _ _ _ _ _ _ _ hdr]
    | false => simp [added_cross_passed _ _ _ _ _ _ _ hdr, sendCount_dupl_zero s hdraws hz]

/-- drop rate 0 on an enabled path: the message is queued (at least one copy) -/
theorem send_drop_zero_delivers [LawfulTime T] (s s' : Sim σ T) (m : Msg) (src dst sn dn tipLen : Nat)
    (hs : amGet? src s.net.procLoc = some sn) (hd : amGet? dst s.net.procLoc = some dn) (hne : sn ≠ dn)
    (hdraws : ∀ r ∈ s.draws, LawfulTime.isDraw r) (hlen : 8 ≤ s.draws.length)
    (hz : s.net.dropRate = TimeOps.zero) (hcut : s.pathCut sn dn = false)
    (h : s.sendMessage m src dst tipLen = .ok s') : 1 ≤ (added s s').length := by
  rw [sendMessage_cross s m src dst sn dn tipLen hs hd hne] at h
  cases h
  have hdr : s.sendDropped sn dn = false := by
    rw [sendDropped_eq, hcut, hz, dr_lt_zero _ hdraws]; rfl
  rw [added_cross_passed _ _ _ _ _ _ _ hdr]
  simpa using (sendCount_bounds s hdraws (by omega)).1

/-- drop rate above every draw (i.e. 1): nothing is queued -/
theorem send_drop_one [LawfulTime T] (s s' : Sim σ T) (m : Msg) (src dst sn dn tipLen : Nat)
    (hs : amGet? src s.net.procLoc = some sn) (hd : amGet? dst s.net.procLoc = some dn) (hne : sn ≠ dn)
    (hone : ∀ r ∈ s.draws, TimeOps.lt r s.net.dropRate = true) (hlen : 1 ≤ s.draws.length)
    (h : s.sendMessage m src dst tipLen = .ok s') : added s s' = [] := by
  rw [sendMessage_cross s m src dst sn dn tipLen hs hd hne] at h
  cases h
  have hdr : s.sendDropped sn dn = true := by
    rw [sendDropped_eq, hone _ (dr_mem _ _ (by omega)), Bool.true_or]
  exact added_cross_dropped _ _ _ _ _ _ _ hdr

/-- every send, whatever its fate, is logged once, gets the next message id and bumps the id counter -/
theorem send_logged_once (s s' : Sim σ T) (m : Msg) (src dst tipLen : Nat)
    (h : s.sendMessage m src dst tipLen = .ok s') :
    s'.net.messageCount = s.net.messageCount + 1 ∧
    ∃ sn dn rest, s'.trace = s.trace ++ (.sent s.clock s.net.messageCount sn src dn dst m) :: rest ∧
      (rest = [] ∨ rest = [.dropped s.clock s.net.messageCount sn src dn dst m]) := by
  obtain ⟨sn, dn, hs, hd⟩ := sendMessage_ok_loc h
  by_cases hne : sn = dn
  · subst hne
    rw [sendMessage_same s m src dst sn tipLen hs hd] at h
    cases h
    exact ⟨rfl, sn, sn, [], rfl, .inl rfl⟩
  · rw [sendMessage_cross s m src dst sn dn tipLen hs hd hne] at h
    cases h
    cases hdr : s.sendDropped sn dn with
    | true =>
      rw [cross_dropped _ _ _ _ _ _ _ hdr]
      exact ⟨rfl, sn, dn, _, rfl, .inr rfl⟩
    | false =>
      rw [cross_passed _ _ _ _ _ _ _ hdr]
      exact ⟨rfl, sn, dn, [], rfl, .inl rfl⟩

/-! ### link controls -/

-- the statements below do not use the time arithmetic; `[TimeOps T]` is part of their signature all the same
set_option linter.unusedSectionVars false

theorem disableLink_directional (s : Sim σ T) (a b x y : Nat) :
    (s.disableLink a b).pathCut x y = (s.pathCut x y || (x == a && y == b)) := by
  rw [Bool.eq_iff_iff]
  simp [pathCut, disableLink, netSet, log, mem_linkInsert, or_assoc]

theorem enableLink_directional (s : Sim σ T) (a b x y : Nat) :
    (s.enableLink a b).net.disabledLinks.contains (x, y) = (s.net.disabledLinks.contains (x, y) && !(x == a && y == b)) := by
  rw [Bool.eq_iff_iff]
  simp [enableLink, netSet, log, List.mem_filter]

/-- a partition cuts both directions of every cross pair -/
theorem partition_cuts_both (s : Sim σ T) (g1 g2 : List Nat) (a b : Nat) (ha : a ∈ g1) (hb : b ∈ g2) :
    (s.makePartition g1 g2).pathCut a b = true ∧ (s.makePartition g1 g2).pathCut b a = true := by
  have h := mem_partition_links g1 g2 s.net.disabledLinks a b ha hb
  simp only [pathCut, makePartition, netSet, log, Bool.or_eq_true, List.contains_eq_mem, decide_eq_true_eq]
  exact ⟨.inr h.1, .inr h.2⟩

/-- reset heals all links and keeps rates and delays -/
theorem reset_heals_keeps_rates (s : Sim σ T) (x y : Nat) :
    s.netReset.pathCut x y = false ∧ s.netReset.net.dropRate = s.net.dropRate ∧ s.netReset.net.duplRate = s.net.duplRate ∧
    s.netReset.net.corruptRate = s.net.corruptRate ∧ s.netReset.net.minDelay = s.net.minDelay ∧
    s.netReset.net.maxDelay = s.net.maxDelay := by
  simp [pathCut, netReset, netSet, log]

theorem dropIncoming_directional (s : Sim σ T) (n x y : Nat) :
    (s.dropIncoming n).pathCut x y = (s.pathCut x y || y == n) := by
  rw [Bool.eq_iff_iff]
  simp [pathCut, dropIncoming, netSet, log, mem_setInsert, or_assoc, or_comm]

theorem dropOutgoing_directional (s : Sim σ T) (n x y : Nat) :
    (s.dropOutgoing n).pathCut x y = (s.pathCut x y || x == n) := by
  rw [Bool.eq_iff_iff]
  simp [pathCut, dropOutgoing, netSet, log, mem_setInsert, or_assoc, or_comm, or_left_comm]

end Sim
end Anysystem
