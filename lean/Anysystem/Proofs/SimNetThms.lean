import Anysystem.Model.Sim
import Anysystem.Spec.TimeLaws
/-!
# The simulated network (C05) and the bookkeeping of sends (C17)
-/
namespace Anysystem

variable {σ T : Type} [TimeOps T]

/-- the `Ticks` instance is lawful (draws are ticks out of 1000) -/
instance : LawfulTime Ticks := sorry

namespace Sim

/-- is the directed path enabled for a cross-node send right now -/
def pathCut (s : Sim σ T) (sn dn : Nat) : Bool :=
  s.net.dropOutgoing.contains sn || s.net.dropIncoming.contains dn || s.net.disabledLinks.contains (sn, dn)

/-- the events a send adds to the queue -/
def added (s s' : Sim σ T) : List (QEv T) := s'.events.drop s.events.length

/-- messages inside a node: delivered once, intact, with zero delay, no draw consumed, not counted as
    network traffic -/
theorem send_same_node (s s' : Sim σ T) (m : Msg) (src dst n tipLen : Nat)
    (hs : amGet? src s.net.procLoc = some n) (hd : amGet? dst s.net.procLoc = some n)
    (h : s.sendMessage m src dst tipLen = .ok s') :
    s'.events = s.events ++ [⟨s.eventCount, TimeOps.add s.clock TimeOps.zero, n, n, .msg s.net.messageCount m src n dst n⟩] ∧
    s'.draws = s.draws ∧ s'.net.networkMessageCount = s.net.networkMessageCount ∧ s'.net.traffic = s.net.traffic ∧
    s'.net.messageCount = s.net.messageCount + 1 ∧
    s'.trace = s.trace ++ [.sent s.clock s.net.messageCount n src n dst m] := sorry

/-- a cross-node send over a disabled path (sender's outgoing, receiver's incoming, or the directed
    link): nothing is queued, the loss is logged, exactly one draw is consumed -/
theorem send_cut_dropped (s s' : Sim σ T) (m : Msg) (src dst sn dn tipLen : Nat)
    (hs : amGet? src s.net.procLoc = some sn) (hd : amGet? dst s.net.procLoc = some dn) (hne : sn ≠ dn)
    (hcut : s.pathCut sn dn = true) (h : s.sendMessage m src dst tipLen = .ok s') :
    s'.events = s.events ∧ s'.draws = s.draws.drop 1 ∧
    s'.trace = s.trace ++ [.sent s.clock s.net.messageCount sn src dn dst m, .dropped s.clock s.net.messageCount sn src dn dst m] ∧
    s'.net.networkMessageCount = s.net.networkMessageCount + 1 ∧ s'.net.traffic = s.net.traffic + (tipLen + m.data.length) := sorry

/-- whatever is queued by a cross-node send: between 0 and 3 copies of the same message id, each
    carrying the payload sent or its canonical corruption (the latter only if the corruption rate is
    above some draw, i.e. positive), addressed as sent, arriving within the configured bounds -/
theorem send_copies [LawfulTime T] (s s' : Sim σ T) (m : Msg) (src dst sn dn tipLen : Nat)
    (hs : amGet? src s.net.procLoc = some sn) (hd : amGet? dst s.net.procLoc = some dn) (hne : sn ≠ dn)
    (hdraws : ∀ r ∈ s.draws, LawfulTime.isDraw r) (hlen : 8 ≤ s.draws.length)
    (hdel : TimeOps.le s.net.minDelay s.net.maxDelay = true)
    (h : s.sendMessage m src dst tipLen = .ok s') :
    (added s s').length ≤ 3 ∧ s'.events = s.events ++ added s s' ∧
    ∀ e ∈ added s s', e.src = sn ∧ e.dst = dn ∧
      (e.data = .msg s.net.messageCount m src sn dst dn ∨
       (e.data = .msg s.net.messageCount (corruptSim m) src sn dst dn ∧ TimeOps.lt TimeOps.zero s.net.corruptRate = true)) ∧
      TimeOps.le (TimeOps.add s.clock s.net.minDelay) e.time = true ∧
      TimeOps.le e.time (TimeOps.add s.clock s.net.maxDelay) = true := sorry

/-- duplication rate 0: at most one copy -/
theorem send_no_dupl [LawfulTime T] (s s' : Sim σ T) (m : Msg) (src dst sn dn tipLen : Nat)
    (hs : amGet? src s.net.procLoc = some sn) (hd : amGet? dst s.net.procLoc = some dn)
    (hdraws : ∀ r ∈ s.draws, LawfulTime.isDraw r) (hz : s.net.duplRate = TimeOps.zero)
    (h : s.sendMessage m src dst tipLen = .ok s') : (added s s').length ≤ 1 := sorry

/-- drop rate 0 on an enabled path: the message is queued (at least one copy) -/
theorem send_drop_zero_delivers [LawfulTime T] (s s' : Sim σ T) (m : Msg) (src dst sn dn tipLen : Nat)
    (hs : amGet? src s.net.procLoc = some sn) (hd : amGet? dst s.net.procLoc = some dn) (hne : sn ≠ dn)
    (hdraws : ∀ r ∈ s.draws, LawfulTime.isDraw r) (hlen : 8 ≤ s.draws.length)
    (hz : s.net.dropRate = TimeOps.zero) (hcut : s.pathCut sn dn = false)
    (h : s.sendMessage m src dst tipLen = .ok s') : 1 ≤ (added s s').length := sorry

/-- drop rate above every draw (i.e. 1): nothing is queued -/
theorem send_drop_one [LawfulTime T] (s s' : Sim σ T) (m : Msg) (src dst sn dn tipLen : Nat)
    (hs : amGet? src s.net.procLoc = some sn) (hd : amGet? dst s.net.procLoc = some dn) (hne : sn ≠ dn)
    (hone : ∀ r ∈ s.draws, TimeOps.lt r s.net.dropRate = true) (hlen : 1 ≤ s.draws.length)
    (h : s.sendMessage m src dst tipLen = .ok s') : added s s' = [] := sorry

/-- every send, whatever its fate, is logged once, gets the next message id and bumps the id counter -/
theorem send_logged_once (s s' : Sim σ T) (m : Msg) (src dst tipLen : Nat)
    (h : s.sendMessage m src dst tipLen = .ok s') :
    s'.net.messageCount = s.net.messageCount + 1 ∧
    ∃ sn dn rest, s'.trace = s.trace ++ (.sent s.clock s.net.messageCount sn src dn dst m) :: rest ∧
      (rest = [] ∨ rest = [.dropped s.clock s.net.messageCount sn src dn dst m]) := sorry

/-! ### link controls -/

theorem disableLink_directional (s : Sim σ T) (a b x y : Nat) :
    (s.disableLink a b).pathCut x y = (s.pathCut x y || (x == a && y == b)) := sorry

theorem enableLink_directional (s : Sim σ T) (a b x y : Nat) :
    (s.enableLink a b).net.disabledLinks.contains (x, y) = (s.net.disabledLinks.contains (x, y) && !(x == a && y == b)) := sorry

/-- a partition cuts both directions of every cross pair -/
theorem partition_cuts_both (s : Sim σ T) (g1 g2 : List Nat) (a b : Nat) (ha : a ∈ g1) (hb : b ∈ g2) :
    (s.makePartition g1 g2).pathCut a b = true ∧ (s.makePartition g1 g2).pathCut b a = true := sorry

/-- reset heals all links and keeps rates and delays -/
theorem reset_heals_keeps_rates (s : Sim σ T) (x y : Nat) :
    s.netReset.pathCut x y = false ∧ s.netReset.net.dropRate = s.net.dropRate ∧ s.netReset.net.duplRate = s.net.duplRate ∧
    s.netReset.net.corruptRate = s.net.corruptRate ∧ s.netReset.net.minDelay = s.net.minDelay ∧
    s.netReset.net.maxDelay = s.net.maxDelay := sorry

theorem dropIncoming_directional (s : Sim σ T) (n x y : Nat) :
    (s.dropIncoming n).pathCut x y = (s.pathCut x y || y == n) := sorry

theorem dropOutgoing_directional (s : Sim σ T) (n x y : Nat) :
    (s.dropOutgoing n).pathCut x y = (s.pathCut x y || x == n) := sorry

end Sim
end Anysystem
