import Anysystem.Model.Sim
import Anysystem.Proofs.AssocLemmas
import Anysystem.Proofs.SimNetLemmas
import Anysystem.Proofs.SimNetThms
/-!
# Bookkeeping of the simulator (C17): logs, event logs, counters and outboxes tell one consistent story

* `Sim.readNode_drains`: `read_local_messages` returns exactly the outbox and empties it, nothing else moves;
* `Sim.handleActions_loc_outbox`: one `send_local` = one outbox entry, one `localSent` trace entry, one
  `lsent` event-log entry, one tick of the node's local-message counter;
* `Sim.handleActions_send_counts`: one `send` = one tick of `sent`, one `sent` event-log entry;
* `Sim.onMessage_counts`: one delivery = one `recv` trace entry (the first one added), one tick of `recv`,
  and `sent` grows by the number of sends the handler made;
* `Sim.handleActions_counts` (general form): for an arbitrary action list, `sent` grows by the number of
  sends, the outbox by the local sends, the event log by one entry per action, `recv` and the state stay.

None of the statements needs sortedness of the assoc lists: they are phrased with lookups
(`amGet?`, `Sim.proc?`), and `amInsert` overwrites the entry the lookup finds in any list.
-/
namespace Anysystem

-- several helper lemmas do not use the time arithmetic; `[TimeOps T]` is part of their signature all the same
set_option linter.unusedSectionVars false

variable {σ T : Type} [TimeOps T]

/-- inserting the same key twice keeps only the second value (no sortedness needed) -/
theorem amInsert_natLt_idem {β : Type} (k : Nat) (v1 v2 : β) (l : List (Nat × β)) :
    amInsert natLt k v2 (amInsert natLt k v1 l) = amInsert natLt k v2 l := by
  induction l with
  | nil => simp [amInsert, natLt]
  | cons x xs ih =>
    obtain ⟨k', v'⟩ := x
    simp only [amInsert]
    split
    · simp [amInsert, natLt]
    · split
      · simp [amInsert, natLt]
      · rename_i h1 h2
        simp [amInsert, h1, h2, ih]

/-- is this trace entry a `MessageReceived` entry -/
def SLog.isRecv : SLog T → Bool
  | .recv .. => true
  | _ => false

/-- the `ProcessEvent` a context call appends to the event log of process `p` -/
def Action.pev (p : Nat) : Action → PEv
  | .send m dst => .sent m p dst
  | .loc m => .lsent m
  | .set name delay once => .tset name delay once
  | .cancel name => .tcancel name

/-- the message of a `send_local` call -/
def Action.locMsg? : Action → Option Msg
  | .loc m => some m
  | _ => none

namespace Sim

/-- the entry of process `p` on node `n` -/
def proc? (s : Sim σ T) (n p : Nat) : Option (SProc σ T) :=
  match amGet? n s.nodes with
  | some nd => amGet? p nd.procs
  | none => none

theorem proc?_of_nodes {s s' : Sim σ T} (h : s'.nodes = s.nodes) (n p : Nat) : s'.proc? n p = s.proc? n p := by
  unfold proc?; rw [h]

theorem proc?_eq {s : Sim σ T} {n p : Nat} {nd : SNode σ T} (hn : amGet? n s.nodes = some nd) :
    s.proc? n p = amGet? p nd.procs := by
  unfold proc?; rw [hn]

/-! ### `setNode`, `updProc` -/

theorem proc?_setNode (s : Sim σ T) (n : Nat) (nd : SNode σ T) (n' p' : Nat) :
    (s.setNode n nd).proc? n' p' = if n' = n then amGet? p' nd.procs else s.proc? n' p' := by
  unfold proc? setNode
  simp only [amGet?_amInsert]
  by_cases h : n' = n <;> simp [h]

/-- `updProc` on an existing process, as a `setNode` -/
theorem updProc_eq (s : Sim σ T) (n p : Nat) (f : SProc σ T → SProc σ T) {nd : SNode σ T} {e : SProc σ T}
    (hn : amGet? n s.nodes = some nd) (he : amGet? p nd.procs = some e) :
    s.updProc n p f = s.setNode n { nd with procs := amInsert natLt p (f e) nd.procs } := by
  unfold updProc; rw [hn]; simp only; rw [he]

/-- `updProc` only touches `nodes` -/
theorem updProc_frame (s : Sim σ T) (n p : Nat) (f : SProc σ T → SProc σ T) :
    ∃ ns, s.updProc n p f = { s with nodes := ns } := by
  unfold updProc
  split
  · exact ⟨s.nodes, rfl⟩
  · split
    · exact ⟨s.nodes, rfl⟩
    · exact ⟨_, rfl⟩

@[simp] theorem updProc_trace (s : Sim σ T) (n p : Nat) (f : SProc σ T → SProc σ T) : (s.updProc n p f).trace = s.trace := by
  obtain ⟨ns, h⟩ := updProc_frame s n p f; rw [h]
@[simp] theorem updProc_clock (s : Sim σ T) (n p : Nat) (f : SProc σ T → SProc σ T) : (s.updProc n p f).clock = s.clock := by
  obtain ⟨ns, h⟩ := updProc_frame s n p f; rw [h]
@[simp] theorem updProc_draws (s : Sim σ T) (n p : Nat) (f : SProc σ T → SProc σ T) : (s.updProc n p f).draws = s.draws := by
  obtain ⟨ns, h⟩ := updProc_frame s n p f; rw [h]
@[simp] theorem updProc_net (s : Sim σ T) (n p : Nat) (f : SProc σ T → SProc σ T) : (s.updProc n p f).net = s.net := by
  obtain ⟨ns, h⟩ := updProc_frame s n p f; rw [h]
@[simp] theorem updProc_events (s : Sim σ T) (n p : Nat) (f : SProc σ T → SProc σ T) : (s.updProc n p f).events = s.events := by
  obtain ⟨ns, h⟩ := updProc_frame s n p f; rw [h]

/-- the node entry after `updProc` on an existing process -/
theorem updProc_node (s : Sim σ T) (n p : Nat) (f : SProc σ T → SProc σ T) {nd : SNode σ T} {e : SProc σ T}
    (hn : amGet? n s.nodes = some nd) (he : amGet? p nd.procs = some e) :
    amGet? n (s.updProc n p f).nodes = some { nd with procs := amInsert natLt p (f e) nd.procs } := by
  rw [updProc_eq s n p f hn he]
  simp [setNode, amGet?_amInsert]

/-- `updProc` rewrites the entry of `p` on `n` (if any) and no other entry -/
theorem proc?_updProc (s : Sim σ T) (n p : Nat) (f : SProc σ T → SProc σ T) (n' p' : Nat) :
    (s.updProc n p f).proc? n' p' = if n' = n ∧ p' = p then (s.proc? n p).map f else s.proc? n' p' := by
  cases hn : amGet? n s.nodes with
  | none =>
    have : s.updProc n p f = s := by unfold updProc; rw [hn]
    rw [this]
    split
    · rename_i h; obtain ⟨rfl, rfl⟩ := h; simp [proc?, hn]
    · rfl
  | some nd =>
    cases he : amGet? p nd.procs with
    | none =>
      have : s.updProc n p f = s := by unfold updProc; rw [hn]; simp only; rw [he]
      rw [this]
      split
      · rename_i h; obtain ⟨rfl, rfl⟩ := h; simp [proc?, hn, he]
      · rfl
    | some e =>
      rw [updProc_eq s n p f hn he, proc?_setNode]
      by_cases h1 : n' = n
      · subst h1
        simp only [true_and, if_true, amGet?_amInsert, proc?_eq hn, he, Option.map_some]
      · simp [h1]

/-- re-inserting a node with only its local-message counter changed leaves all process entries alone -/
theorem proc?_setNode_localCount (s : Sim σ T) (n : Nat) {nd : SNode σ T} (hn : amGet? n s.nodes = some nd)
    (c : Nat) (n' p' : Nat) : (s.setNode n { nd with localCount := c }).proc? n' p' = s.proc? n' p' := by
  rw [proc?_setNode]
  split
  · subst_vars; rw [proc?_eq hn]
  · rfl

/-! ### `sendMessage` leaves the nodes alone -/

theorem sendMessage_nodes {s s' : Sim σ T} {m : Msg} {src dst tipLen : Nat}
    (h : s.sendMessage m src dst tipLen = .ok s') : s'.nodes = s.nodes := by
  obtain ⟨sn, dn, hs, hd⟩ := sendMessage_ok_loc h
  by_cases hne : sn = dn
  · subst hne
    rw [sendMessage_same s m src dst sn tipLen hs hd] at h
    cases h; rfl
  · rw [sendMessage_cross s m src dst sn dn tipLen hs hd hne] at h
    cases h
    unfold crossResult
    split <;> rfl

/-! ### one bookkeeping step -/

/-- `s'` arises from `s` by bookkeeping that, as far as process `p` on node `n` is concerned, counted
    `k` sends, queued `ms` in the outbox and appended `evs` to the event log, and that appended only
    entries other than `recv` to the trace -/
structure Step (n p k : Nat) (ms : List Msg) (evs : List (SPEv T)) (s s' : Sim σ T) : Prop where
  trace : ∃ rest, s'.trace = s.trace ++ rest ∧ ∀ x ∈ rest, x.isRecv = false
  proc : ∀ e, s.proc? n p = some e → ∃ e', s'.proc? n p = some e' ∧ e'.recv = e.recv ∧ e'.sent = e.sent + k ∧
    e'.st = e.st ∧ e'.outbox = e.outbox ++ ms ∧ e'.log = e.log ++ evs

theorem Step.refl (n p : Nat) (s : Sim σ T) : Step n p 0 [] [] s s :=
  ⟨⟨[], by simp, by simp⟩, fun e he => ⟨e, he, rfl, rfl, rfl, by simp, by simp⟩⟩

theorem Step.trans {n p k1 k2 : Nat} {ms1 ms2 : List Msg} {evs1 evs2 : List (SPEv T)} {s s1 s2 : Sim σ T}
    (h1 : Step n p k1 ms1 evs1 s s1) (h2 : Step n p k2 ms2 evs2 s1 s2) :
    Step n p (k1 + k2) (ms1 ++ ms2) (evs1 ++ evs2) s s2 := by
  obtain ⟨⟨r1, ht1, hr1⟩, hp1⟩ := h1
  obtain ⟨⟨r2, ht2, hr2⟩, hp2⟩ := h2
  refine ⟨⟨r1 ++ r2, by rw [ht2, ht1, List.append_assoc], ?_⟩, ?_⟩
  · intro x hx
    rcases List.mem_append.1 hx with hx | hx
    · exact hr1 x hx
    · exact hr2 x hx
  · intro e he
    obtain ⟨e1, he1, a1, b1, c1, d1, f1⟩ := hp1 e he
    obtain ⟨e2, he2, a2, b2, c2, d2, f2⟩ := hp2 e1 he1
    refine ⟨e2, he2, by rw [a2, a1], by rw [b2, b1, Nat.add_assoc], by rw [c2, c1], ?_, ?_⟩
    · rw [d2, d1, List.append_assoc]
    · rw [f2, f1, List.append_assoc]

theorem Step.of_eq {n p k k' : Nat} {ms ms' : List Msg} {evs evs' : List (SPEv T)} {s s' : Sim σ T}
    (h : Step n p k ms evs s s') (hk : k = k') (hms : ms = ms') (hevs : evs = evs') : Step n p k' ms' evs' s s' := by
  subst hk hms hevs; exact h

/-- a change that touches neither the nodes nor the trace -/
theorem Step.of_frame (n p : Nat) {s s' : Sim σ T} (hn : s'.nodes = s.nodes) (ht : s'.trace = s.trace) :
    Step n p 0 [] [] s s' :=
  ⟨⟨[], by simp [ht], by simp⟩, fun e he => ⟨e, by rw [proc?_of_nodes hn, he], rfl, rfl, rfl, by simp, by simp⟩⟩

/-- logging one entry that is not `recv` -/
theorem Step.log (n p : Nat) (s : Sim σ T) (x : SLog T) (hx : x.isRecv = false) : Step n p 0 [] [] s (s.log x) :=
  ⟨⟨[x], rfl, by simpa using hx⟩, fun e he => ⟨e, he, rfl, rfl, rfl, by simp, by simp⟩⟩

theorem Step.updProc (n p k : Nat) (ms : List Msg) (evs : List (SPEv T)) (s : Sim σ T) (f : SProc σ T → SProc σ T)
    (hf : ∀ e, (f e).recv = e.recv ∧ (f e).sent = e.sent + k ∧ (f e).st = e.st ∧
      (f e).outbox = e.outbox ++ ms ∧ (f e).log = e.log ++ evs) :
    Step n p k ms evs s (s.updProc n p f) := by
  refine ⟨⟨[], by simp, by simp⟩, ?_⟩
  intro e he
  refine ⟨f e, ?_, hf e⟩
  rw [proc?_updProc, he]
  simp

theorem Step.sendMessage (n p : Nat) {s s' : Sim σ T} {m : Msg} {src dst tipLen : Nat}
    (h : s.sendMessage m src dst tipLen = .ok s') : Step n p 0 [] [] s s' := by
  refine ⟨?_, fun e he => ⟨e, by rw [proc?_of_nodes (sendMessage_nodes h), he], rfl, rfl, rfl, by simp, by simp⟩⟩
  obtain ⟨_, sn, dn, rest, ht, hr⟩ := send_logged_once s s' m src dst tipLen h
  refine ⟨_, ht, ?_⟩
  intro x hx
  rcases hr with rfl | rfl
  · simp only [List.mem_singleton] at hx; subst hx; rfl
  · simp only [List.mem_cons, List.not_mem_nil, or_false] at hx
    rcases hx with rfl | rfl <;> rfl

theorem Step.setLocalCount (n p : Nat) (s : Sim σ T) {nd : SNode σ T} (hn : amGet? n s.nodes = some nd) (c : Nat) :
    Step n p 0 [] [] s (s.setNode n { nd with localCount := c }) :=
  ⟨⟨[], by simp [setNode], by simp⟩,
   fun e he => ⟨e, by rw [proc?_setNode_localCount s n hn, he], rfl, rfl, rfl, by simp, by simp⟩⟩

theorem Step.then_frame {n p k : Nat} {ms : List Msg} {evs : List (SPEv T)} {s s1 s2 : Sim σ T}
    (h : Step n p k ms evs s s1) (hn : s2.nodes = s1.nodes) (ht : s2.trace = s1.trace) : Step n p k ms evs s s2 :=
  (h.trans (Step.of_frame n p hn ht)).of_eq (by simp) (by simp) (by simp)

theorem Step.then_log {n p k : Nat} {ms : List Msg} {evs : List (SPEv T)} {s s1 : Sim σ T}
    (h : Step n p k ms evs s s1) (x : SLog T) (hx : x.isRecv = false) : Step n p k ms evs s (s1.log x) :=
  (h.trans (Step.log n p s1 x hx)).of_eq (by simp) (by simp) (by simp)

theorem Step.then_cancelEvent {n p k : Nat} {ms : List Msg} {evs : List (SPEv T)} {s s1 : Sim σ T}
    (h : Step n p k ms evs s s1) (id : Nat) : Step n p k ms evs s (s1.cancelEvent id) := h.then_frame rfl rfl

theorem Step.then_addEvent {n p k : Nat} {ms : List Msg} {evs : List (SPEv T)} {s s1 : Sim σ T}
    (h : Step n p k ms evs s s1) (data : QData) (src dst : Nat) (d : T) :
    Step n p k ms evs s (s1.addEvent data src dst d).1 := h.then_frame rfl rfl

/-- a change of the entry that keeps counters, state, outbox and event log (the `pending` map) -/
theorem Step.then_updProc {n p k : Nat} {ms : List Msg} {evs : List (SPEv T)} {s s1 : Sim σ T}
    (h : Step n p k ms evs s s1) (f : SProc σ T → SProc σ T)
    (hf : ∀ e, (f e).recv = e.recv ∧ (f e).sent = e.sent + 0 ∧ (f e).st = e.st ∧
      (f e).outbox = e.outbox ++ [] ∧ (f e).log = e.log ++ []) :
    Step n p k ms evs s (s1.updProc n p f) :=
  (h.trans (Step.updProc n p 0 [] [] s1 f hf)).of_eq (by simp) (by simp) (by simp)

theorem nodeOf_ok {s : Sim σ T} {n : Nat} {nd : SNode σ T} (h : s.nodeOf n = .ok nd) : amGet? n s.nodes = some nd := by
  unfold nodeOf at h
  split at h
  · cases h; assumption
  · cases h

/-- **General bookkeeping of `handle_process_actions`.**  Processing `acts` for process `p` on node `n`
    appends no `recv` entry to the trace and — if `p` lives on `n` — increases its `sent` counter by the
    number of sends among `acts`, appends the locally sent messages to its outbox and one event-log
    entry per action (in call order), and leaves its `recv` counter and its state alone. -/
theorem handleActions_step (n p : Nat) (time : T) (acts : List Action) : ∀ (s s' : Sim σ T),
    handleActions n p time acts s = .ok s' →
    Step n p (acts.filter Action.isSend).length (acts.filterMap Action.locMsg?)
      (acts.map fun a => ⟨time, a.pev p⟩) s s' := by
  induction acts with
  | nil =>
    intro s s' h
    simp only [handleActions, Except.ok.injEq] at h
    subst h
    exact Step.refl n p s
  | cons a rest ih =>
    intro s s' h
    cases a with
    | send m dst =>
      simp only [handleActions] at h
      split at h
      · cases h
      · rename_i s1 hs1
        have st1 := Step.updProc n p 0 [] [⟨time, .sent m p dst⟩] s
          (fun e => { e with log := e.log ++ [⟨time, .sent m p dst⟩] }) (fun e => by simp)
        have st2 := Step.sendMessage n p hs1
        have st3 := Step.updProc n p 1 [] [] s1 (fun e => { e with sent := e.sent + 1 }) (fun e => by simp)
        refine (st1.trans (st2.trans (st3.trans (ih _ _ h)))).of_eq ?_ ?_ ?_
        · simp [List.filter_cons, Action.isSend]; omega
        · simp [List.filterMap_cons, Action.locMsg?]
        · simp [Action.pev]
    | loc m =>
      simp only [handleActions] at h
      split at h
      · cases h
      · rename_i nd hnd
        split at h
        · cases h
        · rename_i nd2 hnd2
          have st1 := Step.updProc n p 0 [m] [⟨time, .lsent m⟩] s
            (fun e => { e with log := e.log ++ [⟨time, .lsent m⟩], outbox := e.outbox ++ [m] }) (fun e => by simp)
          have st2 := Step.log n p (s.updProc n p fun e => { e with log := e.log ++ [⟨time, .lsent m⟩], outbox := e.outbox ++ [m] })
            (.localSent time n p nd.localCount m) rfl
          have st3 := Step.setLocalCount n p _ (nodeOf_ok hnd2) (nd2.localCount + 1)
          refine (st1.trans (st2.trans (st3.trans (ih _ _ h)))).of_eq ?_ ?_ ?_
          · simp [Action.isSend]
          · simp [Action.locMsg?]
          · simp [Action.pev]
    | set name delay once =>
      simp only [handleActions] at h
      have st1 := Step.updProc n p 0 [] [⟨time, .tset name delay once⟩] s
        (fun e => { e with log := e.log ++ [⟨time, .tset name delay once⟩] }) (fun e => by simp)
      have fin : ∀ {s2 : Sim σ T}, Step n p 0 [] [] (s.updProc n p fun e => { e with log := e.log ++ [⟨time, .tset name delay once⟩] }) s2 →
          handleActions n p time rest s2 = .ok s' →
          Step n p (((Action.set name delay once) :: rest).filter Action.isSend).length
            (((Action.set name delay once) :: rest).filterMap Action.locMsg?)
            (((Action.set name delay once) :: rest).map fun a => ⟨time, a.pev p⟩) s s' := by
        intro s2 st2 h2
        refine (st1.trans (st2.trans (ih _ _ h2))).of_eq ?_ ?_ ?_
        · simp [Action.isSend]
        · simp [List.filterMap_cons, Action.locMsg?]
        · simp [Action.pev]
      split at h
      · cases h
      · split at h
        · cases h
        · split at h
          · split at h
            · exact fin (Step.refl n p _) h
            · refine fin ?_ h
              apply Step.then_log _ _ rfl
              apply Step.then_updProc _ _ (fun e => by simp)
              apply Step.then_addEvent
              apply Step.then_cancelEvent
              exact Step.refl n p _
          · refine fin ?_ h
            apply Step.then_log _ _ rfl
            apply Step.then_updProc _ _ (fun e => by simp)
            apply Step.then_addEvent
            exact Step.refl n p _
    | cancel name =>
      simp only [handleActions] at h
      have st1 := Step.updProc n p 0 [] [⟨time, .tcancel name⟩] s
        (fun e => { e with log := e.log ++ [⟨time, .tcancel name⟩] }) (fun e => by simp)
      have fin : ∀ {s2 : Sim σ T}, Step n p 0 [] [] (s.updProc n p fun e => { e with log := e.log ++ [⟨time, .tcancel name⟩] }) s2 →
          handleActions n p time rest s2 = .ok s' →
          Step n p (((Action.cancel name) :: rest).filter Action.isSend).length
            (((Action.cancel name) :: rest).filterMap Action.locMsg?)
            (((Action.cancel name) :: rest).map fun a => ⟨time, a.pev p⟩) s s' := by
        intro s2 st2 h2
        refine (st1.trans (st2.trans (ih _ _ h2))).of_eq ?_ ?_ ?_
        · simp [Action.isSend]
        · simp [List.filterMap_cons, Action.locMsg?]
        · simp [Action.pev]
      split at h
      · cases h
      · split at h
        · cases h
        · split at h
          · refine fin ?_ h
            apply Step.then_cancelEvent
            apply Step.then_log _ _ rfl
            apply Step.then_updProc _ _ (fun e => by simp)
            exact Step.refl n p _
          · exact fin (Step.refl n p _) h

/-! ## The C17 statements -/

/-- **`read_local_messages` drains the outbox and touches nothing else.**  If `readNode` returns
    `some ms`, then `ms` is exactly the outbox of `p` before the call and is non-empty, afterwards the
    outbox is `[]`, and the state is otherwise the same (given as an equation for the whole state, and
    spelled out: every other field of the entry, every other process entry, trace, clock and event
    queue are unchanged).  If it returns `none`, the outbox was empty and the state is unchanged.
    Success implies that the node and the process exist; no sortedness is needed. -/
theorem readNode_drains (s s' : Sim σ T) (n p : Nat) :
    (∀ ms, s.readNode n p = .ok (some ms, s') →
      ∃ nd e, amGet? n s.nodes = some nd ∧ amGet? p nd.procs = some e ∧
        ms = e.outbox ∧ ms ≠ [] ∧
        s' = { s with nodes :=
                 amInsert natLt n ({ nd with procs := amInsert natLt p ({ e with outbox := [] }) nd.procs }) s.nodes } ∧
        s'.proc? n p = some { e with outbox := [] } ∧
        (∀ n' p', ¬(n' = n ∧ p' = p) → s'.proc? n' p' = s.proc? n' p') ∧
        s'.trace = s.trace ∧ s'.clock = s.clock ∧ s'.events = s.events) ∧
    (s.readNode n p = .ok (none, s') →
      ∃ nd e, amGet? n s.nodes = some nd ∧ amGet? p nd.procs = some e ∧ e.outbox = [] ∧ s' = s) := by
  cases hn : amGet? n s.nodes with
  | none => constructor <;> (intros; simp_all [readNode, nodeOf])
  | some nd =>
    cases he : amGet? p nd.procs with
    | none => constructor <;> (intros; simp_all [readNode, nodeOf])
    | some e =>
      have hupd := updProc_eq s n p (fun e => { e with outbox := [] }) hn he
      constructor
      · intro ms h
        simp only [readNode, nodeOf, hn, he] at h
        split at h
        · cases h
        · rename_i hne
          simp only [Except.ok.injEq, Prod.mk.injEq, Option.some.injEq] at h
          obtain ⟨rfl, rfl⟩ := h
          refine ⟨nd, e, rfl, he, rfl, ?_, hupd, ?_, ?_, ?_, ?_, ?_⟩
          · intro h0; simp [h0] at hne
          · rw [proc?_updProc, proc?_eq hn, he]; simp
          · intro n' p' hnp; rw [proc?_updProc, if_neg hnp]
          · simp
          · simp
          · simp
      · intro h
        simp only [readNode, nodeOf, hn, he] at h
        split at h
        · rename_i hem
          cases h
          exact ⟨nd, e, rfl, he, by simpa using hem, rfl⟩
        · cases h

/-- **One `send_local` = one outbox entry, one trace entry, one event-log entry, one counter tick.**
    Hypotheses: the node `n` and the process `p` on it exist (otherwise the call fails resp. there is no
    outbox).  Then processing `[.loc m]` succeeds; the resulting state is given as an equation, and
    spelled out: the trace grows by exactly `localSent` with the node's `localCount` as sequence
    number, the node's `localCount` grows by one (skew and crash flag unchanged), the entry of `p` gets
    `m` appended to its outbox and one `lsent` appended to its event log and is otherwise unchanged,
    and no other process entry changes. -/
theorem handleActions_loc_outbox (s : Sim σ T) (n p : Nat) (time : T) (m : Msg) (nd : SNode σ T) (e : SProc σ T)
    (hn : amGet? n s.nodes = some nd) (he : amGet? p nd.procs = some e) :
    ∃ s', handleActions n p time [.loc m] s = .ok s' ∧
      s' = { s with
        trace := s.trace ++ [.localSent time n p nd.localCount m],
        nodes :=
          amInsert natLt n
            ({ nd with localCount := nd.localCount + 1,
                       procs := amInsert natLt p
                         ({ e with log := e.log ++ [⟨time, .lsent m⟩], outbox := e.outbox ++ [m] }) nd.procs })
            s.nodes } ∧
      s'.trace = s.trace ++ [.localSent time n p nd.localCount m] ∧
      (∃ nd', amGet? n s'.nodes = some nd' ∧ nd'.localCount = nd.localCount + 1 ∧
        nd'.skew = nd.skew ∧ nd'.crashed = nd.crashed) ∧
      s'.proc? n p = some { e with log := e.log ++ [⟨time, .lsent m⟩], outbox := e.outbox ++ [m] } ∧
      (∀ n' p', ¬(n' = n ∧ p' = p) → s'.proc? n' p' = s.proc? n' p') := by
  refine ⟨_, ?_, rfl, rfl,
    ⟨{ nd with localCount := nd.localCount + 1,
               procs := amInsert natLt p
                 ({ e with log := e.log ++ [⟨time, .lsent m⟩], outbox := e.outbox ++ [m] }) nd.procs },
      by simp only [amGet?_amInsert, if_true], rfl, rfl, rfl⟩, ?_, ?_⟩
  · have hupd := updProc_eq s n p
      (fun e => { e with log := e.log ++ [⟨time, .lsent m⟩], outbox := e.outbox ++ [m] }) hn he
    simp only [handleActions, nodeOf, hn, hupd, log, setNode, amGet?_amInsert, if_true, amInsert_natLt_idem]
  · simp [proc?, amGet?_amInsert]
  · intro n' p' hnp
    simp only [proc?, amGet?_amInsert]
    by_cases h1 : n' = n
    · subst h1
      have h2 : ¬ p' = p := fun h2 => hnp ⟨rfl, h2⟩
      simp [hn, amGet?_amInsert, h2]
    · simp [h1]

/-- **One `send` = one tick of `sent`, one `sent` event-log entry.**  If processing `[.send m dst]` for
    process `p` on node `n` succeeds and `e` is the entry of `p` on `n`, then afterwards the entry is `e`
    with `sent` incremented by exactly one and one `sent` event appended to its event log — `recv`,
    outbox, state and pending timers unchanged —, no other process entry changes, and the trace grows
    by exactly one `sent` entry carrying the next message id, followed by at most its `dropped` entry. -/
theorem handleActions_send_counts (s s' : Sim σ T) (n p : Nat) (time : T) (m : Msg) (dst : Nat) (e : SProc σ T)
    (he : s.proc? n p = some e) (h : handleActions n p time [.send m dst] s = .ok s') :
    s'.proc? n p = some { e with log := e.log ++ [⟨time, .sent m p dst⟩], sent := e.sent + 1 } ∧
    (∀ n' p', ¬(n' = n ∧ p' = p) → s'.proc? n' p' = s.proc? n' p') ∧
    ∃ sn dn rest, s'.trace = s.trace ++ (.sent s.clock s.net.messageCount sn p dn dst m) :: rest ∧
      (rest = [] ∨ rest = [.dropped s.clock s.net.messageCount sn p dn dst m]) := by
  simp only [handleActions] at h
  split at h
  · cases h
  · rename_i s1 hs1
    cases h
    have hnodes := sendMessage_nodes hs1
    refine ⟨?_, ?_, ?_⟩
    · rw [proc?_updProc, proc?_of_nodes hnodes, proc?_updProc, he]; simp
    · intro n' p' hnp
      rw [proc?_updProc, if_neg hnp, proc?_of_nodes hnodes, proc?_updProc, if_neg hnp]
    · obtain ⟨_, sn, dn, rest, ht, hr⟩ := send_logged_once _ _ _ _ _ _ hs1
      simp only [updProc_trace, updProc_clock, updProc_net] at ht hr
      exact ⟨sn, dn, rest, by simpa using ht, hr⟩

/-- **General form for an arbitrary action list** (the two statements above are its one-action
    instances, with more detail).  If processing `acts` for process `p` on node `n` succeeds and `e` is
    the entry of `p` on `n`, the entry afterwards has `sent` increased by the number of sends in `acts`,
    the locally sent messages appended to the outbox, one event-log entry per action in call order, and
    the same `recv` counter and state; the trace only grows, by entries other than `recv`. -/
theorem handleActions_counts (s s' : Sim σ T) (n p : Nat) (time : T) (acts : List Action) (e : SProc σ T)
    (he : s.proc? n p = some e) (h : handleActions n p time acts s = .ok s') :
    (∃ e', s'.proc? n p = some e' ∧ e'.recv = e.recv ∧ e'.sent = e.sent + (acts.filter Action.isSend).length ∧
      e'.st = e.st ∧ e'.outbox = e.outbox ++ acts.filterMap Action.locMsg? ∧
      e'.log = e.log ++ acts.map (fun a => ⟨time, a.pev p⟩)) ∧
    ∃ rest, s'.trace = s.trace ++ rest ∧ ∀ x ∈ rest, x.isRecv = false :=
  let st := handleActions_step n p time acts s s' h
  ⟨st.proc e he, st.trace⟩

theorem proc?_log (s : Sim σ T) (x : SLog T) (n p : Nat) : (s.log x).proc? n p = s.proc? n p := rfl

theorem proc?_withDraws (s : Sim σ T) (d : List T) (n p : Nat) : ({ s with draws := d }).proc? n p = s.proc? n p := rfl

/-- `runHandler` on an existing process: the handler is called with the process's state, the skewed
    local clock and the remaining draws; its actions are processed after the draws it used have been
    dropped and its new state has been stored -/
theorem runHandler_ok (h : SHandler σ T) (n p : Nat) (time : T) (i : Input) (s s' : Sim σ T)
    {nd : SNode σ T} {e : SProc σ T} (hn : amGet? n s.nodes = some nd) (he : amGet? p nd.procs = some e)
    (hok : runHandler h n p time i s = .ok s') :
    ∃ st' acts used, h p e.st i (TimeOps.add s.clock nd.skew) s.draws = (st', acts, used) ∧
      handleActions n p time acts
        (({ s with draws := s.draws.drop used }).updProc n p fun e => { e with st := st' }) = .ok s' := by
  unfold runHandler at hok
  simp only [nodeOf, hn, he] at hok
  exact ⟨_, _, _, rfl, hok⟩

/-- **One delivery = one `recv` trace entry (the first one added), one tick of `recv`.**  If
    `onMessage` succeeds, the node `n` and the process `p` on it exist; let `(st', acts, used)` be what
    the handler returns for this delivery.  Then
    * the trace grows by the `recv` entry of this delivery *first*, followed only by entries that are
      not `recv` entries (those of the handler's actions);
    * the entry of `p` afterwards has `recv` incremented by exactly one, `sent` increased by the number
      of sends among `acts`, the handler's new state, the local sends of `acts` appended to the outbox,
      and the event log extended by one `recv` event followed by one event per action;
    * if the handler made no calls (`acts = []`), the trace grows by exactly that one `recv` entry and
      the entry of `p` is the old one with the new state, `recv + 1` and one `recv` event — in
      particular `sent`, the outbox and the pending timers are unchanged. -/
theorem onMessage_counts (h : SHandler σ T) (n mid p : Nat) (m : Msg) (src srcNode : Nat) (s s' : Sim σ T)
    (hok : onMessage h n mid p m src srcNode s = .ok s') :
    ∃ nd e st' acts used, amGet? n s.nodes = some nd ∧ amGet? p nd.procs = some e ∧
      h p e.st (.msg m src) (TimeOps.add s.clock nd.skew) s.draws = (st', acts, used) ∧
      (∃ rest, s'.trace = s.trace ++ SLog.recv s.clock mid srcNode src n p m :: rest ∧
        ∀ x ∈ rest, x.isRecv = false) ∧
      (∃ e', s'.proc? n p = some e' ∧ e'.recv = e.recv + 1 ∧
        e'.sent = e.sent + (acts.filter Action.isSend).length ∧ e'.st = st' ∧
        e'.outbox = e.outbox ++ acts.filterMap Action.locMsg? ∧
        e'.log = e.log ++ ⟨s.clock, .recv m src p⟩ :: acts.map (fun a => ⟨s.clock, a.pev p⟩)) ∧
      (acts = [] →
        s'.trace = s.trace ++ [SLog.recv s.clock mid srcNode src n p m] ∧
        s'.proc? n p = some { e with st := st', log := e.log ++ [⟨s.clock, .recv m src p⟩], recv := e.recv + 1 }) := by
  unfold onMessage at hok
  cases hn : amGet? n s.nodes with
  | none => simp [nodeOf, hn] at hok
  | some nd =>
    simp only [nodeOf, hn] at hok
    split at hok
    · cases hok
    · rename_i hhas
      rw [amHas_eq] at hhas
      cases he : amGet? p nd.procs with
      | none => simp [he] at hhas
      | some e =>
        have hn1 : amGet? n (s.log (SLog.recv s.clock mid srcNode src n p m)).nodes = some nd := hn
        have hnode := updProc_node (s.log (.recv s.clock mid srcNode src n p m)) n p
          (fun e => { e with log := e.log ++ [⟨s.clock, .recv m src p⟩], recv := e.recv + 1 }) hn1 he
        obtain ⟨st', acts, used, hout, hact⟩ := runHandler_ok h n p s.clock (.msg m src) _ s' hnode
          (by simp only [amGet?_amInsert, if_true]; rfl) hok
        simp only [updProc_clock, updProc_draws] at hout
        obtain ⟨⟨rest, htr, hrest⟩, hproc⟩ := handleActions_step n p s.clock acts _ s' hact
        simp only [updProc_trace] at htr
        have hp0 := hproc { e with st := st', log := e.log ++ [⟨s.clock, .recv m src p⟩], recv := e.recv + 1 }
          (by simp only [proc?_updProc, proc?_withDraws, proc?_log, proc?_eq hn, he, and_self, if_true,
                Option.map_some])
        obtain ⟨e', he', h1, h2, h3, h4, h5⟩ := hp0
        refine ⟨nd, e, st', acts, used, rfl, he, hout, ⟨rest, ?_, hrest⟩, ⟨e', he', h1, ?_, h3, h4, ?_⟩, ?_⟩
        · rw [htr]; simp [log]
        · exact h2
        · rw [h5]; simp
        · intro hacts
          subst hacts
          simp only [handleActions, Except.ok.injEq] at hact
          subst hact
          refine ⟨by simp [log], ?_⟩
          simp only [proc?_updProc, proc?_withDraws, proc?_log, proc?_eq hn, he, and_self, if_true,
                Option.map_some]

end Sim

/-! ## Non-vacuity: the hypotheses of the four statements are met by a concrete state -/
namespace Sim.LogDemo

/-- node 0 hosts processes 1 and 2 (state type `Nat`); process 1 has one unread local message -/
def s0 : Sim Nat Ticks :=
  { clock := ⟨5⟩, net := { (SimNet.default : SimNet Ticks) with procLoc := [(1, 0), (2, 0)] },
    nodes := [(0, { skew := ⟨0⟩, localCount := 3,
                    procs := [(1, { st := 10, outbox := [⟨9, [1]⟩], sent := 4, recv := 6 }), (2, { st := 20 })] })],
    procNodes := [(1, 0), (2, 0)], handlers := [0] }

/-- a handler that counts deliveries in its state and makes no calls -/
def quiet : SHandler Nat Ticks := fun _ st _ _ _ => (st + 1, [], 0)

/-- a handler that answers every message with one send to process 2 and one local message -/
def chatty : SHandler Nat Ticks := fun _ st _ _ _ => (st, [.send ⟨1, []⟩ 2, .loc ⟨2, []⟩], 0)

example : ((s0.readNode 0 1).toOption.map (·.1)) = some (some [⟨9, [1]⟩]) := by decide
example : ((s0.readNode 0 2).toOption.map (·.1)) = some none := by decide
example : (handleActions 0 1 ⟨5⟩ [.send ⟨1, []⟩ 2] s0).toOption.isSome = true := by decide
example : (onMessage quiet 0 0 1 ⟨1, []⟩ 2 0 s0).toOption.isSome = true := by decide
example : ((onMessage chatty 0 0 1 ⟨1, []⟩ 2 0 s0).toOption.bind (·.proc? 0 1)).map (fun e => (e.sent, e.recv, e.outbox)) =
    some (5, 7, [⟨9, [1]⟩, ⟨2, []⟩]) := by decide

end Sim.LogDemo
end Anysystem
