import Anysystem.Proofs.SimLogThms
import Anysystem.Proofs.SimQueueLemmas
/-!
# C17 — counters and event logs agree after every operation (an invariant of the simulator)
-/
namespace Anysystem

-- several helper lemmas do not use the time arithmetic; `[TimeOps T]` is part of their signature all the same
set_option linter.unusedSectionVars false

variable {σ T : Type} [TimeOps T]

def PEv.isSent : PEv → Bool | .sent .. => true | _ => false
def PEv.isRecv : PEv → Bool | .recv .. => true | _ => false
def PEv.isLsent : PEv → Bool | .lsent .. => true | _ => false

/-- per process: the sent / received counters equal the number of `MessageSent` / `MessageReceived` entries of
    its event log (both start empty when the process is added) -/
def SProc.LogOk (e : SProc σ T) : Prop :=
  e.sent = (e.log.filter (fun x => x.ev.isSent)).length ∧ e.recv = (e.log.filter (fun x => x.ev.isRecv)).length

namespace Sim

/-- every process of every node satisfies `LogOk` -/
def LogInv (s : Sim σ T) : Prop := ∀ n p e, s.proc? n p = some e → e.LogOk

/-! ### helper lemmas -/

/-- the event-log entries of a handler's calls: one `sent` entry per send -/
theorem pev_count_sent (time : T) (p : Nat) (acts : List Action) :
    ((acts.map fun a => (⟨time, a.pev p⟩ : SPEv T)).filter (fun x => x.ev.isSent)).length =
      (acts.filter Action.isSend).length := by
  induction acts with
  | nil => rfl
  | cons a rest ih =>
    cases a <;> simp [Action.pev, PEv.isSent, Action.isSend, List.filter_cons] at ih ⊢ <;> exact ih

/-- the event-log entries of a handler's calls: no `recv` entry -/
theorem pev_count_recv (time : T) (p : Nat) (acts : List Action) :
    ((acts.map fun a => (⟨time, a.pev p⟩ : SPEv T)).filter (fun x => x.ev.isRecv)).length = 0 := by
  induction acts with
  | nil => rfl
  | cons a rest ih =>
    cases a <;> simp [Action.pev, PEv.isRecv] at ih ⊢ <;> exact ih

end Sim

/-- extending the log by `evs` and the counters by the number of `sent` / `recv` entries among `evs` keeps `LogOk` -/
theorem SProc.LogOk.append {e e' : SProc σ T} (h : e.LogOk) (evs : List (SPEv T)) (hl : e'.log = e.log ++ evs)
    (hs : e'.sent = e.sent + (evs.filter (fun x => x.ev.isSent)).length)
    (hr : e'.recv = e.recv + (evs.filter (fun x => x.ev.isRecv)).length) : e'.LogOk := by
  obtain ⟨h1, h2⟩ := h
  refine ⟨?_, ?_⟩
  · rw [hs, hl, List.filter_append, List.length_append, h1]
  · rw [hr, hl, List.filter_append, List.length_append, h2]

namespace Sim

theorem LogInv.of_nodes {s s' : Sim σ T} (hn : s'.nodes = s.nodes) (hi : s.LogInv) : s'.LogInv := by
  intro n p e he
  rw [proc?_of_nodes hn] at he
  exact hi n p e he

theorem LogInv.updProc {s : Sim σ T} (n p : Nat) (f : SProc σ T → SProc σ T) (hf : ∀ e, e.LogOk → (f e).LogOk)
    (hi : s.LogInv) : (s.updProc n p f).LogInv := by
  intro n' p' e' he'
  rw [proc?_updProc] at he'
  split at he'
  · cases hs : s.proc? n p with
    | none => simp [hs] at he'
    | some e =>
      simp only [hs, Option.map_some, Option.some.injEq] at he'
      subst he'
      exact hf e (hi _ _ _ hs)
  · exact hi _ _ _ he'

/-- re-inserting a node with the same process table leaves all process entries alone -/
theorem proc?_setNode_sameProcs (s : Sim σ T) (n : Nat) {nd nd' : SNode σ T} (hn : amGet? n s.nodes = some nd)
    (hp : nd'.procs = nd.procs) (n' p' : Nat) : (s.setNode n nd').proc? n' p' = s.proc? n' p' := by
  rw [proc?_setNode]
  split
  · subst_vars; rw [proc?_eq hn, hp]
  · rfl

theorem LogInv.setNode_sameProcs {s : Sim σ T} (n : Nat) {nd nd' : SNode σ T} (hn : amGet? n s.nodes = some nd)
    (hp : nd'.procs = nd.procs) (hi : s.LogInv) : (s.setNode n nd').LogInv := by
  intro n' p' e he
  rw [proc?_setNode_sameProcs s n hn hp] at he
  exact hi _ _ _ he

/-- `s'` agrees with `s` on every process entry other than that of `p` on `n` -/
def Oth (n p : Nat) (s s' : Sim σ T) : Prop := ∀ n' p', ¬(n' = n ∧ p' = p) → s'.proc? n' p' = s.proc? n' p'

theorem Oth.refl (n p : Nat) (s : Sim σ T) : Oth n p s s := fun _ _ _ => rfl

theorem Oth.trans {n p : Nat} {s s1 s2 : Sim σ T} (h1 : Oth n p s s1) (h2 : Oth n p s1 s2) : Oth n p s s2 :=
  fun n' p' h => (h2 n' p' h).trans (h1 n' p' h)

theorem Oth.of_nodes (n p : Nat) {s s' : Sim σ T} (hn : s'.nodes = s.nodes) : Oth n p s s' :=
  fun n' p' _ => proc?_of_nodes hn n' p'

theorem Oth.updProc (n p : Nat) (s : Sim σ T) (f : SProc σ T → SProc σ T) : Oth n p s (s.updProc n p f) :=
  fun n' p' h => by rw [proc?_updProc, if_neg h]

theorem Oth.setLocalCount (n p : Nat) (s : Sim σ T) {nd : SNode σ T} (hn : amGet? n s.nodes = some nd) (c : Nat) :
    Oth n p s (s.setNode n { nd with localCount := c }) :=
  fun n' p' _ => proc?_setNode_localCount s n hn c n' p'

theorem Oth.then_log {n p : Nat} {s s1 : Sim σ T} (h : Oth n p s s1) (x : SLog T) : Oth n p s (s1.log x) :=
  h.trans (Oth.of_nodes n p rfl)

theorem Oth.then_cancelEvent {n p : Nat} {s s1 : Sim σ T} (h : Oth n p s s1) (id : Nat) : Oth n p s (s1.cancelEvent id) :=
  h.trans (Oth.of_nodes n p rfl)

theorem Oth.then_addEvent {n p : Nat} {s s1 : Sim σ T} (h : Oth n p s s1) (data : QData) (src dst : Nat) (d : T) :
    Oth n p s (s1.addEvent data src dst d).1 :=
  h.trans (Oth.of_nodes n p rfl)

theorem Oth.then_updProc {n p : Nat} {s s1 : Sim σ T} (h : Oth n p s s1) (f : SProc σ T → SProc σ T) :
    Oth n p s (s1.updProc n p f) :=
  h.trans (Oth.updProc n p s1 f)

/-- `handle_process_actions` for `p` on `n` leaves every other process entry alone -/
theorem handleActions_oth (n p : Nat) (time : T) (acts : List Action) : ∀ (s s' : Sim σ T),
    handleActions n p time acts s = .ok s' → Oth n p s s' := by
  induction acts with
  | nil =>
    intro s s' h
    simp only [handleActions, Except.ok.injEq] at h
    subst h
    exact Oth.refl n p s
  | cons a rest ih =>
    intro s s' h
    cases a with
    | send m dst =>
      simp only [handleActions] at h
      split at h
      · cases h
      · rename_i s1 hs1
        exact (Oth.updProc n p s _).trans ((Oth.of_nodes n p (sendMessage_nodes hs1)).trans
          ((Oth.updProc n p s1 _).trans (ih _ _ h)))
    | loc m =>
      simp only [handleActions] at h
      split at h
      · cases h
      · rename_i nd hnd
        split at h
        · cases h
        · rename_i nd2 hnd2
          refine Oth.trans ?_ (ih _ _ h)
          refine Oth.trans ?_ (Oth.setLocalCount n p _ (nodeOf_ok hnd2) _)
          apply Oth.then_log
          exact Oth.updProc n p s _
    | set name delay once =>
      simp only [handleActions] at h
      split at h
      · cases h
      · split at h
        · cases h
        · split at h
          · split at h
            · exact (Oth.updProc n p s _).trans (ih _ _ h)
            · refine Oth.trans ?_ (ih _ _ h)
              apply Oth.then_log
              apply Oth.then_updProc
              apply Oth.then_addEvent
              apply Oth.then_cancelEvent
              exact Oth.updProc n p s _
          · refine Oth.trans ?_ (ih _ _ h)
            apply Oth.then_log
            apply Oth.then_updProc
            apply Oth.then_addEvent
            exact Oth.updProc n p s _
    | cancel name =>
      simp only [handleActions] at h
      split at h
      · cases h
      · split at h
        · cases h
        · split at h
          · refine Oth.trans ?_ (ih _ _ h)
            apply Oth.then_cancelEvent
            apply Oth.then_log
            apply Oth.then_updProc
            exact Oth.updProc n p s _
          · exact (Oth.updProc n p s _).trans (ih _ _ h)

/-- processing the actions of an existing process keeps the invariant -/
theorem LogInv.handleActions {s s' : Sim σ T} (n p : Nat) (time : T) (acts : List Action) (hi : s.LogInv)
    (hex : ∃ e, s.proc? n p = some e) (h : handleActions n p time acts s = .ok s') : s'.LogInv := by
  intro n' p' e' he'
  by_cases hnp : n' = n ∧ p' = p
  · obtain ⟨rfl, rfl⟩ := hnp
    obtain ⟨e, he⟩ := hex
    obtain ⟨e1, he1, hr, hs, _, _, hl⟩ := (handleActions_step n' p' time acts s s' h).proc e he
    rw [he1] at he'
    cases he'
    refine (hi _ _ _ he).append _ hl ?_ ?_
    · rw [hs, pev_count_sent]
    · rw [hr, pev_count_recv]; rfl
  · rw [handleActions_oth n p time acts s s' h n' p' hnp] at he'
    exact hi _ _ _ he'

/-- a handler run keeps the invariant -/
theorem LogInv.runHandler (h : SHandler σ T) (n p : Nat) (time : T) (i : Input) {s s' : Sim σ T} (hi : s.LogInv)
    (hok : runHandler h n p time i s = .ok s') : s'.LogInv := by
  cases hn : amGet? n s.nodes with
  | none => simp [Sim.runHandler, nodeOf, hn] at hok
  | some nd =>
    cases he : amGet? p nd.procs with
    | none => simp [Sim.runHandler, nodeOf, hn, he] at hok
    | some e =>
      obtain ⟨st', acts, used, _, hact⟩ := runHandler_ok h n p time i s s' hn he hok
      refine LogInv.handleActions n p time acts ?_ ?_ hact
      · refine LogInv.updProc n p (fun e => { e with st := st' }) (fun e h => h) ?_
        exact LogInv.of_nodes (s := s) rfl hi
      · refine ⟨{ e with st := st' }, ?_⟩
        simp only [proc?_updProc, proc?_withDraws, proc?_eq hn, he, and_self, if_true, Option.map_some]

theorem LogInv.onMessage (h : SHandler σ T) (n mid p : Nat) (m : Msg) (src srcNode : Nat) {s s' : Sim σ T}
    (hi : s.LogInv) (hok : onMessage h n mid p m src srcNode s = .ok s') : s'.LogInv := by
  unfold Sim.onMessage at hok
  split at hok
  · cases hok
  · split at hok
    · cases hok
    · refine LogInv.runHandler h n p _ _ ?_ hok
      apply LogInv.updProc
      · intro e he
        exact he.append [⟨s.clock, .recv m src p⟩] rfl rfl rfl
      · exact LogInv.of_nodes (s := s) rfl hi

theorem LogInv.onLocal (h : SHandler σ T) (n p : Nat) (m : Msg) {s s' : Sim σ T}
    (hi : s.LogInv) (hok : onLocal h n p m s = .ok s') : s'.LogInv := by
  unfold Sim.onLocal at hok
  split at hok
  · cases hok
  · rename_i nd hnd
    split at hok
    · cases hok
    · refine LogInv.runHandler h n p _ _ ?_ hok
      apply LogInv.updProc
      · intro e he
        exact he.append [⟨s.clock, .lrecv m⟩] rfl rfl rfl
      · refine LogInv.setNode_sameProcs n (nd := nd) (nodeOf_ok hnd) rfl ?_
        exact LogInv.of_nodes (s := s) rfl hi

theorem LogInv.onTimer (h : SHandler σ T) (n p name : Nat) {s s' : Sim σ T}
    (hi : s.LogInv) (hok : onTimer h n p name s = .ok s') : s'.LogInv := by
  unfold Sim.onTimer at hok
  split at hok
  · cases hok
  · split at hok
    · cases hok
    · refine LogInv.runHandler h n p _ _ ?_ hok
      have h1 : (s.updProc n p fun e => { e with log := e.log ++ [⟨s.clock, .tfired name⟩] }).LogInv := by
        apply LogInv.updProc _ _ _ _ hi
        intro e he
        exact he.append [⟨s.clock, .tfired name⟩] rfl rfl rfl
      split
      · refine LogInv.of_nodes (s := (s.updProc n p fun e => { e with log := e.log ++ [⟨s.clock, .tfired name⟩] }).updProc n p
          fun e => { e with pending := amErase name e.pending }) rfl ?_
        exact LogInv.updProc _ _ _ (fun e h => h) h1
      · exact h1

theorem nextEvent_nodes (fuel : Nat) (s : Sim σ T) : (nextEvent fuel s).2.nodes = s.nodes := by
  induction fuel generalizing s with
  | zero => rfl
  | succ fuel ih =>
    rw [nextEvent_succ]
    split
    · rfl
    · split
      · rw [ih]
      · rfl

theorem LogInv.deliver (h : SHandler σ T) (e : QEv T) {s s' : Sim σ T} (hi : s.LogInv)
    (hok : deliver h e s = .ok s') : s'.LogInv := by
  unfold Sim.deliver at hok
  split at hok
  · cases hok; exact hi
  · split at hok
    · exact LogInv.onMessage h _ _ _ _ _ _ hi hok
    · exact LogInv.onTimer h _ _ _ hi hok

/-! ### the statements -/

theorem LogInv.addProcess (s s' : Sim σ T) (p n : Nat) (st : σ) (hi : s.LogInv) (h : s.addProcess p st n = .ok s') :
    s'.LogInv := by
  unfold Sim.addProcess at h
  split at h
  · cases h
  · rename_i nd hnd
    dsimp only at h
    split at h
    · cases h
    · cases h
      have hn := nodeOf_ok hnd
      refine LogInv.of_nodes (s := s.setNode n { nd with procs := amInsert natLt p { st } nd.procs }) rfl ?_
      intro n' p' e he
      rw [proc?_setNode] at he
      split at he
      · subst_vars
        simp only [amGet?_amInsert] at he
        split at he
        · cases he
          exact ⟨rfl, rfl⟩
        · rw [← proc?_eq hn] at he
          exact hi _ _ _ he
      · exact hi _ _ _ he

theorem LogInv.sendLocal (h : SHandler σ T) (s s' : Sim σ T) (p : Nat) (m : Msg) (hi : s.LogInv)
    (hok : s.sendLocal h p m = .ok s') : s'.LogInv := by
  unfold Sim.sendLocal at hok
  split at hok
  · cases hok
  · split at hok
    · cases hok
    · split at hok
      · cases hok
      · exact LogInv.onLocal h _ p m hi hok

/-- one simulation step (any event: message, timer, discarded) keeps the invariant -/
theorem LogInv.step (h : SHandler σ T) (s s' : Sim σ T) (b : Bool) (hi : s.LogInv) (hok : s.step h = .ok (b, s')) :
    s'.LogInv := by
  unfold Sim.step at hok
  have hn := nextEvent_nodes (s.events.length + 1) s
  split at hok
  · rename_i s1 heq
    cases hok
    rw [heq] at hn
    exact LogInv.of_nodes hn hi
  · rename_i e s1 heq
    rw [heq] at hn
    split at hok
    · cases hok
    · rename_i s2 hd
      cases hok
      exact LogInv.deliver h e (LogInv.of_nodes hn hi) hd

theorem LogInv.steps (h : SHandler σ T) (k : Nat) (s s' : Sim σ T) (b : Bool) (hi : s.LogInv)
    (hok : Sim.steps h k s = .ok (b, s')) : s'.LogInv := by
  induction k generalizing s with
  | zero =>
    simp only [Sim.steps, Except.ok.injEq, Prod.mk.injEq] at hok
    obtain ⟨_, rfl⟩ := hok
    exact hi
  | succ k ih =>
    simp only [Sim.steps] at hok
    split at hok
    · cases hok
    · rename_i s1 hst
      cases hok
      exact LogInv.step h s _ false hi hst
    · rename_i s1 hst
      exact ih s1 (LogInv.step h s s1 true hi hst) hok

theorem LogInv.readLocal (s s' : Sim σ T) (p : Nat) (ms : List Msg) (hi : s.LogInv) (hok : s.readLocal p = .ok (ms, s')) :
    s'.LogInv := by
  unfold Sim.readLocal at hok
  split at hok
  · cases hok
  · rename_i n _
    split at hok
    · cases hok
    · rename_i oms s1 hr
      cases hok
      unfold Sim.readNode at hr
      split at hr
      · cases hr
      · split at hr
        · cases hr
        · split at hr
          · cases hr; exact hi
          · cases hr
            exact LogInv.updProc _ _ _ (fun e h => h) hi

theorem LogInv.crashNode (s s' : Sim σ T) (n : Nat) (hi : s.LogInv) (hok : s.crashNode n = .ok s') : s'.LogInv := by
  obtain ⟨nd, rest, hn, rfl⟩ := crashNode_shape s s' n hok
  refine LogInv.of_nodes (s := s.setNode n { nd with crashed := true }) rfl ?_
  exact LogInv.setNode_sameProcs n hn rfl hi

theorem LogInv.recoverNode (s s' : Sim σ T) (n : Nat) (hi : s.LogInv) (hok : s.recoverNode n = .ok s') : s'.LogInv := by
  unfold Sim.recoverNode at hok
  split at hok
  · cases hok
  · rename_i nd hnd
    split at hok
    · cases hok
    · cases hok
      refine LogInv.of_nodes (s := s.setNode n { nd with procs := [], crashed := false }) rfl ?_
      intro n' p' e he
      rw [proc?_setNode] at he
      split at he
      · simp [amGet?] at he
      · exact hi _ _ _ he

/-- the local outbox holds exactly the local sends since it was last read: reading returns them in order and empties it,
    and a handler run appends its `send_local` messages in issue order (from `handleActions_counts`) -/
theorem readLocal_returns_outbox (s s' : Sim σ T) (p n : Nat) (ms : List Msg) (e : SProc σ T)
    (hn : amGet? p s.procNodes = some n) (he : s.proc? n p = some e) (hok : s.readLocal p = .ok (ms, s')) :
    ms = e.outbox ∧ ∃ e', s'.proc? n p = some e' ∧ e'.outbox = [] := by
  unfold Sim.readLocal at hok
  rw [hn] at hok
  simp only at hok
  split at hok
  · cases hok
  · rename_i oms s1 hr
    cases hok
    cases oms with
    | none =>
      obtain ⟨nd, e0, h1, h2, h3, rfl⟩ := (readNode_drains s s' n p).2 hr
      rw [proc?_eq h1, h2] at he
      cases he
      exact ⟨by simp [h3], e, by rw [proc?_eq h1, h2], h3⟩
    | some ms0 =>
      obtain ⟨nd, e0, h1, h2, h3, _, _, h6, _⟩ := (readNode_drains s s' n p).1 ms0 hr
      rw [proc?_eq h1, h2] at he
      cases he
      exact ⟨by simp [h3], _, h6, rfl⟩

end Sim
end Anysystem
