import Anysystem.Proofs.R2Pop
/-!
# The network-fault alternatives: drop, corrupt, duplicate
-/
set_option linter.unusedSimpArgs false
namespace Anysystem

variable {σ : Type}

theorem Rep.reinsert_msg {st : Store} {a : AStore} (h : Rep st a) (m : Msg) (src dst : Nat) (o : Opts)
    (id : Nat) (hfresh : id ∉ keys a.pending) (hid : id < a.next) :
    ∃ st', st.pushFixed (.msg m src dst o) id = .ok st' ∧
      Rep st' { a with pending := a.pending ++ [(id, .msg m src dst o)] } := by
  obtain ⟨st', hp, hr⟩ := h.pushFixed_msg m src dst o id a.next hfresh hid (Nat.le_refl _)
  have hs0 : ({ st with idCounter := a.next } : Store) = st := by rw [← h.next_eq]
  rw [hs0] at hp
  exact ⟨st', hp, hr⟩

theorem drop_step (h : Handler σ) {s : McSys σ} {r : RState σ} {a : AStore} (hw : SimW' s r a)
    {l rest : List (Nat × Ev)} {id : Nat} {m : Msg} {src dst n : Nat} {c : Bool}
    (hA : a.pending = l ++ (id, .msg m src dst (.faults true n c)) :: rest) :
    ∃ s' r', s.applyAlt {} h (.drop id) = .ok s' ∧
      r.step h (.drop (flightsOf l).length) = some r' ∧ Sim' s' r' ∧ s'.mode = s.mode := by
  obtain ⟨st, hpop, hrep, her, hget, herase, htim, _, _⟩ := pop_msg hw.core hA
  have hsub := sub_of_erase hA
  refine ⟨{ s with events := st, depth := s.depth + 1, trace := s.trace ++ [LogE.dropped m src dst] },
    { r with flights := r.flights.eraseIdx (flightsOf l).length,
             trace := r.trace ++ [LogE.dropped m src dst] }, ?_, ?_, ⟨a.erase id, ?_⟩, rfl⟩
  · simp only [McSys.applyAlt, hpop]
    rfl
  · simp only [RState.step, hget]
  · refine hw.store_step rfl rfl rfl rfl rfl rfl ?_ hrep ?_ ?_ ?_ ?_ ?_
    · simp [hw.trace]
    · rw [her]; exact herase
    · rw [her]; exact htim
    · intro id' p name d hx
      rw [her] at hx
      exact hw.core.tm id' p name d (hsub _ hx)
    · intro id' m' src' dst' o' hx
      rw [her] at hx
      exact hw.core.clean_msg id' m' src' dst' o' (hsub _ hx)
    · intro id' p name d hx
      rw [her] at hx
      exact hw.core.clean_timer id' p name d (hsub _ hx)

theorem corrupt_step (h : Handler σ) {s : McSys σ} {r : RState σ} {a : AStore} (hw : SimW' s r a)
    {l rest : List (Nat × Ev)} {id : Nat} {m : Msg} {src dst n : Nat} {c : Bool}
    (hA : a.pending = l ++ (id, .msg m src dst (.faults c n true)) :: rest) :
    ∃ s' r', s.applyAlt {} h (.corrupt id) = .ok s' ∧
      r.step h (.corrupt (flightsOf l).length) = some r' ∧ Sim' s' r' ∧ s'.mode = s.mode := by
  obtain ⟨st, hpop, hrep, her, hget, herase, htim, hfresh, hlt⟩ := pop_msg hw.core hA
  have hsub := sub_of_erase hA
  have hclean := hw.core.clean_msg id m src dst (.faults c n true) (by rw [hA]; simp)
  obtain ⟨st', hpf, hrep'⟩ := hrep.reinsert_msg (corruptMc m) src dst (.faults c n false) id
    (by rw [her]; exact hfresh) hlt
  refine ⟨{ s with events := st', depth := s.depth + 1,
                   trace := s.trace ++ [LogE.corrupted m (corruptMc m) src dst] },
    { r with flights := r.flights.eraseIdx (flightsOf l).length ++ [⟨corruptMc m, src, dst, .faults c n false⟩],
             trace := r.trace ++ [LogE.corrupted m (corruptMc m) src dst] }, ?_, ?_, ?_, rfl⟩
  · simp only [McSys.applyAlt, hpop, hpf]
    rfl
  · simp only [RState.step, hget]
  · refine ⟨_, hw.store_step rfl rfl rfl rfl rfl rfl ?_ hrep' ?_ ?_ ?_ ?_ ?_⟩
    · simp [hw.trace]
    · simp only [her, flightsOf_append, flightsOf_cons_msg, flightsOf_nil, herase]
    · simp only [her, timersOf_append, timersOf_cons_msg, timersOf_nil, List.append_nil, htim]
    · intro id' p name d hx
      simp only [her, List.mem_append, List.mem_singleton, Prod.mk.injEq] at hx
      rcases hx with hx | ⟨_, hx⟩
      · exact hw.core.tm id' p name d (hsub _ (by simpa using hx))
      · cases hx
    · intro id' m' src' dst' o' hx
      simp only [her, List.mem_append, List.mem_singleton, Prod.mk.injEq, Ev.msg.injEq] at hx
      rcases hx with hx | ⟨_, _, rfl, rfl, _⟩
      · exact hw.core.clean_msg id' m' src' dst' o' (hsub _ (by simpa using hx))
      · exact hclean
    · intro id' p name d hx
      simp only [her, List.mem_append, List.mem_singleton, Prod.mk.injEq] at hx
      rcases hx with hx | ⟨_, hx⟩
      · exact hw.core.clean_timer id' p name d (hsub _ (by simpa using hx))
      · cases hx

theorem dup_step (h : Handler σ) {s : McSys σ} {r : RState σ} {a : AStore} (hw : SimW' s r a)
    {l rest : List (Nat × Ev)} {id : Nat} {m : Msg} {src dst n : Nat} {b c : Bool}
    (hA : a.pending = l ++ (id, .msg m src dst (.faults b (n + 1) c)) :: rest) :
    ∃ s' r', s.applyAlt {} h (.dup id) = .ok s' ∧
      r.step h (.dup (flightsOf l).length) = some r' ∧ Sim' s' r' ∧ s'.mode = s.mode := by
  obtain ⟨st, hpop, hrep, her, hget, herase, htim, hfresh, hlt⟩ := pop_msg hw.core hA
  have hsub := sub_of_erase hA
  have hclean := hw.core.clean_msg id m src dst (.faults b (n + 1) c) (by rw [hA]; simp)
  obtain ⟨st1, hpf, hrep1⟩ := hrep.reinsert_msg m src dst (.faults b n c) id
    (by rw [her]; exact hfresh) hlt
  obtain ⟨st2, hpush, hrep2⟩ := hrep1.push_msg m src dst (.faults b 0 c)
  refine ⟨{ s with events := st2, depth := s.depth + 1, trace := s.trace ++ [LogE.duplicated m src dst] },
    { r with flights := r.flights.eraseIdx (flightsOf l).length ++
               [⟨m, src, dst, .faults b n c⟩, ⟨m, src, dst, .faults b 0 c⟩],
             trace := r.trace ++ [LogE.duplicated m src dst] }, ?_, ?_, ?_, rfl⟩
  · simp only [McSys.applyAlt, hpop, McSys.duplicateEv, Nat.add_sub_cancel, hpf, McSys.disableDup, hpush]
    rfl
  · simp only [RState.step, hget]
  · refine ⟨_, hw.store_step rfl rfl rfl rfl rfl rfl ?_ hrep2 ?_ ?_ ?_ ?_ ?_⟩
    · simp [hw.trace]
    · simp only [her, flightsOf_append, flightsOf_cons_msg, flightsOf_nil, herase, List.append_assoc,
        List.cons_append, List.nil_append]
    · simp only [her, timersOf_append, timersOf_cons_msg, timersOf_nil, List.append_nil, htim]
    · intro id' p name d hx
      simp only [her, List.mem_append, List.mem_singleton, Prod.mk.injEq] at hx
      rcases hx with (hx | ⟨_, hx⟩) | ⟨_, hx⟩
      · exact hw.core.tm id' p name d (hsub _ (by simpa using hx))
      · cases hx
      · cases hx
    · intro id' m' src' dst' o' hx
      simp only [her, List.mem_append, List.mem_singleton, Prod.mk.injEq, Ev.msg.injEq] at hx
      rcases hx with (hx | ⟨_, _, rfl, rfl, _⟩) | ⟨_, _, rfl, rfl, _⟩
      · exact hw.core.clean_msg id' m' src' dst' o' (hsub _ (by simpa using hx))
      · exact hclean
      · exact hclean
    · intro id' p name d hx
      simp only [her, List.mem_append, List.mem_singleton, Prod.mk.injEq] at hx
      rcases hx with (hx | ⟨_, hx⟩) | ⟨_, hx⟩
      · exact hw.core.clean_timer id' p name d (hsub _ (by simpa using hx))
      · cases hx
      · cases hx

end Anysystem
