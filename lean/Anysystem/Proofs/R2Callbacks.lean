import Anysystem.Proofs.R2Complete
/-!
# Callbacks (`send_local_message`, network / mode settings), paths, for the corrected relation
-/
set_option linter.unusedSimpArgs false
namespace Anysystem

variable {σ : Type}

theorem Sim'.init (s : McSys σ) (ht : WFTopo s) (hsrt : SortedTopo s) (he : s.events = {})
    (hp : ∀ nd ∈ s.nodes, ∀ pe ∈ nd.2.procs, pe.2.pending = []) (hc : ∀ nd ∈ s.nodes, nd.2.crashed = false) :
    Sim' s { procs := procsOf s, net := s.net, trace := s.trace } := by
  refine ⟨{}, ⟨⟨ht, hsrt, by rw [he]; exact Rep.empty, rfl, rfl, ?_, rfl, ?_, ?_, ?_, ?_⟩, rfl, rfl, ?_⟩⟩
  · intro nd hnd
    simp [hc nd hnd]
  · exact List.Pairwise.nil
  · intro id p name d hx; simp at hx
  · intro id m src dst o hx; simp at hx
  · intro id p name d hx; simp at hx
  · intro nd hnd _ pe hpe name
    simp [hp nd hnd pe hpe, RState.timerPending]

theorem Sim'.setNet {s : McSys σ} {r : RState σ} (hs : Sim' s r) (n : McNet) (hloc : n.procLoc = s.net.procLoc) :
    Sim' { s with net := n } { r with net := n } := by
  obtain ⟨a, hw⟩ := hs
  have hc : ∀ q, ({ r with net := n } : RState σ).procCrashed q = r.procCrashed q :=
    procCrashed_congr (by simp only [hloc, hw.core.net]) rfl
  refine ⟨a, ⟨⟨hw.core.topo.congr rfl hloc, hw.core.sorted.congr rfl, hw.core.rep, hw.core.flights,
    hw.core.timers, hw.core.crashed, rfl, hw.core.uniq, hw.core.tm, ?_, ?_⟩, hw.procs, hw.trace, hw.pend⟩⟩
  · intro id m src dst o hx
    rw [hc, hc]; exact hw.core.clean_msg id m src dst o hx
  · intro id p name d hx
    rw [hc]; exact hw.core.clean_timer id p name d hx

theorem Sim'.setMode {s : McSys σ} {r : RState σ} (hs : Sim' s r) (m : Mode) : Sim' { s with mode := m } r := by
  obtain ⟨a, hw⟩ := hs
  exact ⟨a, ⟨⟨hw.core.topo.congr rfl rfl, hw.core.sorted.congr rfl, hw.core.rep, hw.core.flights,
    hw.core.timers, hw.core.crashed, hw.core.net, hw.core.uniq, hw.core.tm, hw.core.clean_msg,
    hw.core.clean_timer⟩, hw.procs, hw.trace, hw.pend⟩⟩

/-- `send_local_message` refines the reference `sendLocal` -/
theorem Sim'.sendLocal (h : Handler σ) {s s' : McSys σ} {r : RState σ} (hs : Sim' s r) (node p : Nat) (m : Msg)
    (hnode : amGet? p s.net.procLoc = some node)
    (hok : s.sendLocal {} h node p m = .ok s')
    (hof : ∀ e, amGet? p r.procs = some e →
      RState.overrideFreeActs { r with trace := r.trace ++ [LogE.lrecv m p] } p (h p e.st (.loc m)).2 = true) :
    ∃ r', r.sendLocal h p m = some r' ∧ Sim' s' r' := by
  obtain ⟨a, hw⟩ := hs
  rw [sendLocal_eq _ _ _ _ _ _ hnode] at hok
  have hw1 : SimW' ({ s with trace := s.trace ++ [LogE.lrecv m p] } : McSys σ)
      ({ r with trace := r.trace ++ [LogE.lrecv m p] } : RState σ) a :=
    hw.store_step rfl rfl rfl rfl rfl rfl (by simp [hw.trace]) hw.core.rep hw.core.flights
      hw.core.timers hw.core.tm hw.core.clean_msg hw.core.clean_timer
  obtain ⟨r', a', hreact, hw', _⟩ :=
    deliverTo_sound h (hw1.preReact p (.loc m) (fun e => rfl)) hok (fun e' he' => hof e' he')
  exact ⟨r', hreact, a', hw'⟩

/-- the checker does not panic on `send_local_message` to a live, known process -/
theorem Sim'.sendLocal_complete (h : Handler σ) {s : McSys σ} {r r' : RState σ} (hs : Sim' s r)
    (hk : SendsKnown h s) (node p : Nat) (m : Msg)
    (hnode : amGet? p s.net.procLoc = some node)
    (hstep : r.sendLocal h p m = some r')
    (hof : ∀ e, amGet? p r.procs = some e →
      RState.overrideFreeActs { r with trace := r.trace ++ [LogE.lrecv m p] } p (h p e.st (.loc m)).2 = true) :
    ∃ s', s.sendLocal {} h node p m = .ok s' ∧ Sim' s' r' := by
  obtain ⟨a, hw⟩ := hs
  have hw1 : SimW' ({ s with trace := s.trace ++ [LogE.lrecv m p] } : McSys σ)
      ({ r with trace := r.trace ++ [LogE.lrecv m p] } : RState σ) a :=
    hw.store_step rfl rfl rfl rfl rfl rfl (by simp [hw.trace]) hw.core.rep hw.core.flights
      hw.core.timers hw.core.tm hw.core.clean_msg hw.core.clean_timer
  have hpre := hw1.preReact p (.loc m) (fun e => rfl)
  obtain ⟨s', hdel⟩ := deliverTo_complete h hpre hk hstep (fun e' he' => hof e' he')
  obtain ⟨r'', a', hreact, hw', _⟩ := deliverTo_sound h hpre hdel (fun e' he' => hof e' he')
  have : r'' = r' := by
    have h2 : r.sendLocal h p m = some r'' := hreact
    rw [hstep] at h2
    simpa using h2.symm
  subst this
  exact ⟨s', by rw [sendLocal_eq _ _ _ _ _ _ hnode]; exact hdel, a', hw'⟩

/-- (C02, partial: `OverrideFree`) every path of the checker is an enabled run of the reference
    semantics ending in the related state -/
theorem mc_path_sound_partial' (h : Handler σ) {s₀ s : McSys σ} {r₀ : RState σ} {alts : List Alt}
    (hs : Sim' s₀ r₀) (hp : McPath h s₀ alts s) :
    ∃ ls, ls.length = alts.length ∧
      (overrideFreeRun h r₀ ls = true → ∃ r, refRun h s₀.mode r₀ ls = some r ∧ Sim' s r) := by
  induction hp generalizing r₀ with
  | nil s => exact ⟨[], rfl, fun _ => ⟨r₀, rfl, hs⟩⟩
  | @cons s s' s'' ids id alts alt rest hav hid halts halt hok _ ih =>
    obtain ⟨l, hen, hcont⟩ := applyAlt_refines' h hs hav hid halts halt hok
    have hmode : s'.mode = s.mode := applyAlt_mode_gen h hok
    cases hof : r₀.overrideFree h l with
    | false =>
      refine ⟨l :: List.replicate rest.length l, by simp, ?_⟩
      intro hrun
      simp [overrideFreeRun, hof] at hrun
    | true =>
      obtain ⟨r', hstep, hsim'⟩ := hcont hof
      obtain ⟨ls, hlen, hrest⟩ := ih hsim'
      refine ⟨l :: ls, by simp [hlen], ?_⟩
      intro hrun
      simp only [overrideFreeRun, hof, hstep, Bool.true_and] at hrun
      obtain ⟨rf, hrf, hsimf⟩ := hrest hrun
      refine ⟨rf, ?_, hsimf⟩
      simp only [refRun, hen, ↓reduceIte, hstep]
      rw [← hmode]; exact hrf

end Anysystem
