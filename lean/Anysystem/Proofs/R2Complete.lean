import Anysystem.Proofs.R2Sound
/-!
# One step, completeness, for the corrected relation `Sim'`
-/
set_option linter.unusedSimpArgs false
namespace Anysystem

variable {σ : Type}

/-- an offered pending event is in the list `available` returns, given the mode condition -/
theorem mem_available {s : McSys σ} {r : RState σ} {a : AStore} (hw : SimW' s r a) {id : Nat} {ev : Ev}
    (hg : amGet? id a.pending = some ev) (hoff : id ∈ specOffered a.pending)
    (hcond : ev.isMsg = true ∨ s.mode = .normal ∨ flightsOf a.pending = []) :
    ∃ ids, s.available = .ok ids ∧ id ∈ ids := by
  obtain ⟨ids, hav, hiff⟩ := available_spec hw
  exact ⟨ids, hav, (hiff id).mpr ((mem_specOfferedMode hw.core.rep.inv.nodup hg).mpr ⟨hoff, hcond⟩)⟩

/-- (R2, completeness) for the corrected relation -/
theorem alternatives_complete' (h : Handler σ) {s : McSys σ} {r r' : RState σ} (hs : Sim' s r)
    (hk : SendsKnown h s) {l : Label} (hen : r.enabledRed s.mode l = true) (hstep : r.step h l = some r')
    (hof : r.overrideFree h l = true) :
    ∃ ids id alts alt s', s.available = .ok ids ∧ id ∈ ids ∧ s.alternatives id = .ok alts ∧ alt ∈ alts ∧
      s.applyAlt {} h alt = .ok s' ∧ Sim' s' r' := by
  obtain ⟨a, hw⟩ := hs
  have hinv := hw.core.rep.inv
  have hnd := hinv.nodup
  -- a flight label points at a pending message
  have hflight : ∀ i f, r.flights[i]? = some f → r.oldestIdentical i = true →
      ∃ lst id rest, a.pending = lst ++ (id, Ev.msg f.m f.src f.dst f.o) :: rest ∧
        (flightsOf lst).length = i ∧ s.events.get id = some (Ev.msg f.m f.src f.dst f.o) ∧
        ∃ ids, s.available = .ok ids ∧ id ∈ ids := by
    intro i f hf hold
    rw [hw.core.flights] at hf
    obtain ⟨lst, id, rest, hA, hlen⟩ := flightsOf_getElem?_decomp hf
    have hg : amGet? id a.pending = some (Ev.msg f.m f.src f.dst f.o) :=
      amGet?_of_mem_nodup hnd (by rw [hA]; simp)
    have hoff : id ∈ specOffered a.pending := by
      rw [offered_iff_oldest hnd hA r hw.core.flights, hlen]; exact hold
    exact ⟨lst, id, rest, hA, hlen, by rw [get_eq_pending hw]; exact hg,
      mem_available hw hg hoff (Or.inl rfl)⟩
  cases l with
  | deliver i =>
    simp only [RState.enabledRed] at hen
    cases hf : r.flights[i]? with
    | none => simp [RState.step, hf] at hstep
    | some f =>
      obtain ⟨lst, id, rest, hA, hlen, hget, ids, hav, hid⟩ := hflight i f hf hen
      subst hlen
      obtain ⟨alts, halts⟩ := alternatives_ok hget
      obtain ⟨s1, r1, a1, happ, hst, hpre, _, hnet, _, hofc⟩ := deliver_msg_setup h hw hA
      rw [hst] at hstep
      have hk1 : SendsKnown h s1 := by
        intro p st i' act hact m dst hsend
        rw [hnet]
        exact hk p st i' act hact m dst hsend
      obtain ⟨s', hdel⟩ := deliverTo_complete h hpre hk1 hstep (hofc hof)
      obtain ⟨r'', a', hreact, hw', _⟩ := deliverTo_sound h hpre hdel (hofc hof)
      rw [hstep] at hreact
      simp only [Option.some.injEq] at hreact
      subst hreact
      exact ⟨ids, id, alts, .deliver id, s', hav, hid, halts,
        (mem_alternatives hget halts _).mpr (Or.inl rfl), by rw [happ]; exact hdel, a', hw'⟩
  | fire j =>
    simp only [RState.enabledRed, Bool.and_eq_true, Bool.or_eq_true, beq_iff_eq] at hen
    obtain ⟨hunb, hmode⟩ := hen
    cases hf : r.timers[j]? with
    | none => simp [RState.step, hf] at hstep
    | some t =>
      have hf' := hf
      rw [hw.core.timers] at hf'
      obtain ⟨lst, id, rest, hA, hlen⟩ := timersOf_getElem?_decomp hf'
      subst hlen
      have hg : amGet? id a.pending = some (Ev.timer t.proc t.name t.delay) :=
        amGet?_of_mem_nodup hnd (by rw [hA]; simp)
      have hoff : id ∈ specOffered a.pending := by
        rw [offered_iff_unblocked hnd hA r hw.core.timers]; exact hunb
      have hcond : (Ev.timer t.proc t.name t.delay).isMsg = true ∨ s.mode = .normal ∨
          flightsOf a.pending = [] := by
        rcases hmode with hm | hm
        · exact Or.inr (Or.inl hm)
        · right; right
          rw [← hw.core.flights]
          exact List.isEmpty_iff.mp hm
      obtain ⟨ids, hav, hid⟩ := mem_available hw hg hoff hcond
      have hget : s.events.get id = some (Ev.timer t.proc t.name t.delay) := by
        rw [get_eq_pending hw]; exact hg
      obtain ⟨alts, halts⟩ := alternatives_ok hget
      obtain ⟨s1, r1, a1, happ, hst, hpre, _, hnet, _, hofc⟩ := fire_setup h hw hA
      rw [hst] at hstep
      have hk1 : SendsKnown h s1 := by
        intro p st i' act hact m dst hsend
        rw [hnet]
        exact hk p st i' act hact m dst hsend
      obtain ⟨s', hdel⟩ := deliverTo_complete h hpre hk1 hstep (hofc hof)
      obtain ⟨r'', a', hreact, hw', _⟩ := deliverTo_sound h hpre hdel (hofc hof)
      rw [hstep] at hreact
      simp only [Option.some.injEq] at hreact
      subst hreact
      exact ⟨ids, id, alts, .deliver id, s', hav, hid, halts,
        (mem_alternatives hget halts _).mpr (Or.inl rfl), by rw [happ]; exact hdel, a', hw'⟩
  | drop i =>
    simp only [RState.enabledRed] at hen
    cases hf : r.flights[i]? with
    | none => simp [RState.step, hf] at hstep
    | some f =>
      obtain ⟨lst, id, rest, hA, hlen, hget, ids, hav, hid⟩ := hflight i f hf hen
      subst hlen
      obtain ⟨alts, halts⟩ := alternatives_ok hget
      obtain ⟨m, sr, d, o⟩ := f
      cases o with
      | noFail k => simp [RState.step, hf] at hstep
      | faults cd n cc =>
        cases cd with
        | false => simp [RState.step, hf] at hstep
        | true =>
          obtain ⟨s', r'', happ, hst, hsim, _⟩ := drop_step h hw hA
          rw [hstep] at hst
          simp only [Option.some.injEq] at hst
          subst hst
          exact ⟨ids, id, alts, .drop id, s', hav, hid, halts,
            (mem_alternatives hget halts _).mpr (Or.inr (Or.inl ⟨rfl, _, _, _, _, _, rfl⟩)), happ, hsim⟩
  | corrupt i =>
    simp only [RState.enabledRed] at hen
    cases hf : r.flights[i]? with
    | none => simp [RState.step, hf] at hstep
    | some f =>
      obtain ⟨lst, id, rest, hA, hlen, hget, ids, hav, hid⟩ := hflight i f hf hen
      subst hlen
      obtain ⟨alts, halts⟩ := alternatives_ok hget
      obtain ⟨m, sr, d, o⟩ := f
      cases o with
      | noFail k => simp [RState.step, hf] at hstep
      | faults cd n cc =>
        cases cc with
        | false => simp [RState.step, hf] at hstep
        | true =>
          obtain ⟨s', r'', happ, hst, hsim, _⟩ := corrupt_step h hw hA
          rw [hstep] at hst
          simp only [Option.some.injEq] at hst
          subst hst
          exact ⟨ids, id, alts, .corrupt id, s', hav, hid, halts,
            (mem_alternatives hget halts _).mpr
              (Or.inr (Or.inr (Or.inl ⟨rfl, _, _, _, _, _, rfl⟩))), happ, hsim⟩
  | dup i =>
    simp only [RState.enabledRed] at hen
    cases hf : r.flights[i]? with
    | none => simp [RState.step, hf] at hstep
    | some f =>
      obtain ⟨lst, id, rest, hA, hlen, hget, ids, hav, hid⟩ := hflight i f hf hen
      subst hlen
      obtain ⟨alts, halts⟩ := alternatives_ok hget
      obtain ⟨m, sr, d, o⟩ := f
      cases o with
      | noFail k => simp [RState.step, hf] at hstep
      | faults cd n cc =>
        cases n with
        | zero => simp [RState.step, hf] at hstep
        | succ n =>
          obtain ⟨s', r'', happ, hst, hsim, _⟩ := dup_step h hw hA
          rw [hstep] at hst
          simp only [Option.some.injEq] at hst
          subst hst
          exact ⟨ids, id, alts, .dup id, s', hav, hid, halts,
            (mem_alternatives hget halts _).mpr
              (Or.inr (Or.inr (Or.inr ⟨rfl, _, _, _, _, _, _, rfl⟩))), happ, hsim⟩

end Anysystem
