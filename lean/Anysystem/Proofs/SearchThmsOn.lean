import Anysystem.Proofs.SearchThms
/-! The congruence-dependent search theorems, relativised to an invariant of the explored states. -/
namespace Anysystem

variable {σ κ : Type} [DecidableEq κ]

theorem search_ok_exhaustive_on (S : TSys σ κ) (Inv : σ → Prop) (hc : CongruentOn S Inv) (hcl : InvClosed S Inv)
    (strat : Strat) (mode : CacheMode) (hm : ExactCache S mode) (fuel : Nat) (s₀ : σ) (h0 : Inv s₀) (a : Acc σ κ)
    (h : search S strat fuel s₀ (Acc.fresh mode) = some (.ok, a)) :
    ∀ x, ReachC S s₀ x → (∃ e ∈ a.evald, S.key e = S.key x) ∧ isFail (S.verdict x) = false :=
  search_ok_exhaustive_inv S Inv hc hcl strat mode hm fuel s₀ h0 a h

theorem search_not_ok_of_reachable_fail_on (S : TSys σ κ) (Inv : σ → Prop) (hc : CongruentOn S Inv)
    (hcl : InvClosed S Inv) (strat : Strat) (mode : CacheMode)
    (hm : ExactCache S mode ∨ mode = .disabled) (fuel : Nat) (s₀ x : σ) (h0 : Inv s₀) (a : Acc σ κ)
    (hx : ReachC S s₀ x) (hf : isFail (S.verdict x) = true) :
    search S strat fuel s₀ (Acc.fresh mode) ≠ some (.ok, a) :=
  search_not_ok_of_reachable_fail_inv S Inv hc hcl strat mode hm fuel s₀ x h0 a hx hf

theorem bfs_dfs_same_keys_on (S : TSys σ κ) (Inv : σ → Prop) (hc : CongruentOn S Inv) (hcl : InvClosed S Inv)
    (mode : CacheMode) (hm : ExactCache S mode) (f₁ f₂ : Nat) (s₀ : σ) (h0 : Inv s₀) (a₁ a₂ : Acc σ κ)
    (h₁ : search S .dfs f₁ s₀ (Acc.fresh mode) = some (.ok, a₁))
    (h₂ : search S .bfs f₂ s₀ (Acc.fresh mode) = some (.ok, a₂)) :
    ∀ k, k ∈ a₁.evald.map S.key ↔ k ∈ a₂.evald.map S.key :=
  bfs_dfs_same_keys_inv S Inv hc hcl mode hm f₁ f₂ s₀ h0 a₁ a₂ h₁ h₂

theorem cache_modes_same_keys_on (S : TSys σ κ) (Inv : σ → Prop) (hc : CongruentOn S Inv) (hcl : InvClosed S Inv)
    (s₁ s₂ : Strat) (mode : CacheMode) (hm : ExactCache S mode) (f₁ f₂ : Nat) (s₀ : σ) (h0 : Inv s₀)
    (a₁ a₂ : Acc σ κ)
    (h₁ : search S s₁ f₁ s₀ (Acc.fresh mode) = some (.ok, a₁))
    (h₂ : search S s₂ f₂ s₀ (Acc.fresh .disabled) = some (.ok, a₂)) :
    ∀ k, k ∈ a₁.evald.map S.key ↔ k ∈ a₂.evald.map S.key :=
  cache_modes_same_keys_inv S Inv hc hcl s₁ s₂ mode hm f₁ f₂ s₀ h0 a₁ a₂ h₁ h₂

theorem bfs_err_min_depth_on (S : TSys σ κ) (Inv : σ → Prop) (hc : CongruentOn S Inv) (hcl : InvClosed S Inv)
    (mode : CacheMode) (hm : ExactCache S mode) (fuel : Nat) (s₀ e : σ) (h0 : Inv s₀) (msg : String) (a : Acc σ κ)
    (h : search S .bfs fuel s₀ (Acc.fresh mode) = some (.err msg e, a)) :
    ∃ n, ReachN S s₀ n e ∧ ∀ m x, m < n → ReachN S s₀ m x → isFail (S.verdict x) = false :=
  bfs_err_min_depth_inv S Inv hc hcl mode hm fuel s₀ e h0 msg a h

end Anysystem
