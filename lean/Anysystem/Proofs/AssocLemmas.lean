import Anysystem.Model.Basic
/-!
# Lemmas about the sorted-set / assoc-map stand-ins of `Anysystem/Model/Basic.lean`
-/
namespace Anysystem

/-! ## `setInsert` / `setErase` -/

theorem mem_setInsert (x a : Nat) (l : List Nat) : a ∈ setInsert x l ↔ a = x ∨ a ∈ l := by
  induction l with
  | nil => simp [setInsert]
  | cons y ys ih =>
    simp only [setInsert]
    split
    · simp
    · split
      · subst_vars; simp
      · simp only [List.mem_cons, ih]
        constructor
        · rintro (h | h | h) <;> simp [h]
        · rintro (h | h | h) <;> simp [h]

theorem mem_setErase (x a : Nat) (l : List Nat) : a ∈ setErase x l ↔ a ≠ x ∧ a ∈ l := by
  simp [setErase, List.mem_filter, and_comm]

theorem mem_foldl_setInsert (us : List Nat) (l : List Nat) (a : Nat) :
    a ∈ us.foldl (fun acc x => setInsert x acc) l ↔ a ∈ us ∨ a ∈ l := by
  induction us generalizing l with
  | nil => simp
  | cons u us ih =>
    simp only [List.foldl_cons, ih, mem_setInsert, List.mem_cons]
    constructor
    · rintro (h | h | h) <;> simp [h]
    · rintro ((h | h) | h) <;> simp [h]

/-! ## `amGet?` / `amInsert` / `amErase` / `amHas` -/

section am
variable {κ β : Type} [DecidableEq κ]

theorem amGet?_amInsert (lt : κ → κ → Bool) (k j : κ) (v : β) (l : List (κ × β)) :
    amGet? j (amInsert lt k v l) = if j = k then some v else amGet? j l := by
  induction l with
  | nil => simp [amInsert, amGet?]
  | cons x xs ih =>
    obtain ⟨k', v'⟩ := x
    simp only [amInsert]
    split
    · simp [amGet?]
    · split
      · subst_vars
        simp only [amGet?]
        split <;> rfl
      · rename_i hne
        simp only [amGet?, ih]
        by_cases h1 : j = k
        · subst h1; simp [hne]
        · simp [h1]

theorem amGet?_amErase (k j : κ) (l : List (κ × β)) :
    amGet? j (amErase k l) = if j = k then none else amGet? j l := by
  induction l with
  | nil => simp [amErase, amGet?]
  | cons x xs ih =>
    obtain ⟨k', v'⟩ := x
    simp only [amErase, List.filter_cons] at ih ⊢
    by_cases h : k' = k
    · subst h
      simp only [decide_true, Bool.not_true, Bool.false_eq_true, ↓reduceIte, ih, amGet?]
      split <;> rfl
    · simp only [h, decide_false, Bool.not_false, ↓reduceIte, amGet?, ih]
      by_cases h1 : j = k'
      · subst h1; simp [h]
      · simp [h1]

theorem amHas_eq (k : κ) (l : List (κ × β)) : amHas k l = (amGet? k l).isSome := by
  induction l with
  | nil => simp [amHas, amGet?]
  | cons x xs ih =>
    obtain ⟨k', v'⟩ := x
    simp only [amHas, List.any_cons, amGet?] at ih ⊢
    by_cases h : k = k'
    · subst h; simp
    · have h' : ¬ k' = k := fun e => h e.symm
      simp [h, h', ih]

theorem amGet?_eq_some_mem {k : κ} {v : β} {l : List (κ × β)} (h : amGet? k l = some v) :
    (k, v) ∈ l := by
  induction l with
  | nil => simp [amGet?] at h
  | cons x xs ih =>
    obtain ⟨k', v'⟩ := x
    simp only [amGet?] at h
    split at h
    · subst_vars; simp_all
    · simp [ih h]

theorem amGet?_eq_none_iff {k : κ} {l : List (κ × β)} :
    amGet? k l = none ↔ ∀ x ∈ l, x.1 ≠ k := by
  induction l with
  | nil => simp [amGet?]
  | cons x xs ih =>
    obtain ⟨k', v'⟩ := x
    simp only [amGet?]
    split
    · subst_vars; simp
    · rename_i hne
      simp only [ih, List.mem_cons, forall_eq_or_imp, ne_eq]
      constructor
      · intro h; exact ⟨fun e => hne e.symm, h⟩
      · intro h; exact h.2

end am

/-! ## Sorted (by `Nat` key) assoc lists -/

/-- strictly increasing keys -/
def KSorted {β : Type} (l : List (Nat × β)) : Prop := l.Pairwise (fun x y => x.1 < y.1)

theorem KSorted.nil {β : Type} : KSorted ([] : List (Nat × β)) := List.Pairwise.nil

theorem mem_amInsert_natLt {β : Type} (k : Nat) (v : β) (l : List (Nat × β)) (x : Nat × β)
    (h : x ∈ amInsert natLt k v l) : x = (k, v) ∨ x ∈ l := by
  induction l with
  | nil => simpa [amInsert] using h
  | cons y ys ih =>
    obtain ⟨k', v'⟩ := y
    simp only [amInsert] at h
    split at h
    · simpa using h
    · split at h
      · simp only [List.mem_cons] at h ⊢
        rcases h with h | h <;> simp [h]
      · simp only [List.mem_cons] at h ⊢
        rcases h with h | h
        · simp [h]
        · rcases ih h with h | h <;> simp [h]

theorem KSorted.amInsert {β : Type} (k : Nat) (v : β) (l : List (Nat × β)) (h : KSorted l) :
    KSorted (amInsert natLt k v l) := by
  induction l with
  | nil => simp [Anysystem.amInsert, KSorted]
  | cons y ys ih =>
    obtain ⟨k', v'⟩ := y
    unfold KSorted at h ih ⊢
    rw [List.pairwise_cons] at h
    simp only [Anysystem.amInsert]
    split
    · rename_i hlt
      simp only [natLt, decide_eq_true_eq] at hlt
      rw [List.pairwise_cons]
      refine ⟨?_, List.pairwise_cons.mpr h⟩
      intro a ha
      simp only [List.mem_cons] at ha
      rcases ha with ha | ha
      · subst ha; exact hlt
      · have := h.1 a ha
        simp only at this ⊢
        omega
    · split
      · subst_vars
        rw [List.pairwise_cons]
        exact ⟨h.1, h.2⟩
      · rename_i hnlt hne
        simp only [natLt, decide_eq_true_eq] at hnlt
        rw [List.pairwise_cons]
        refine ⟨?_, ih h.2⟩
        intro a ha
        rcases mem_amInsert_natLt k v ys a ha with ha | ha
        · subst ha; simp only; omega
        · exact h.1 a ha

theorem KSorted.filter {β : Type} (p : Nat × β → Bool) (l : List (Nat × β)) (h : KSorted l) :
    KSorted (l.filter p) := List.Pairwise.filter p h

theorem KSorted.amErase {β : Type} (k : Nat) (l : List (Nat × β)) (h : KSorted l) :
    KSorted (amErase k l) := List.Pairwise.filter _ h

theorem KSorted.nodup {β : Type} {l : List (Nat × β)} (h : KSorted l) : (l.map (·.1)).Nodup := by
  unfold KSorted at h
  rw [List.Nodup, List.pairwise_map]
  exact h.imp (fun hlt => by omega)

theorem amGet?_filter {κ β : Type} [DecidableEq κ] (p : κ × β → Bool) (l : List (κ × β))
    (h : (l.map (·.1)).Nodup) (k : κ) :
    amGet? k (l.filter p) = (amGet? k l).filter (fun v => p (k, v)) := by
  induction l with
  | nil => simp [amGet?]
  | cons y ys ih =>
    obtain ⟨k', v'⟩ := y
    rw [List.map_cons, List.nodup_cons] at h
    have ih := ih h.2
    simp only [List.filter_cons]
    by_cases hk : k = k'
    · subst hk
      have hnone : amGet? k (ys.filter p) = none := by
        rw [amGet?_eq_none_iff]
        intro x hx e
        apply h.1
        rw [← e]
        exact List.mem_map_of_mem (f := (·.1)) (List.mem_filter.mp hx).1
      split
      · rename_i hp; simp [amGet?, Option.filter, hp]
      · rename_i hp; simp [amGet?, Option.filter, hp, hnone]
    · split
      · simp [amGet?, hk, ih]
      · simp [amGet?, hk, ih]

theorem amGet?_append {κ β : Type} [DecidableEq κ] (l₁ l₂ : List (κ × β)) (k : κ) :
    amGet? k (l₁ ++ l₂) = (amGet? k l₁).or (amGet? k l₂) := by
  induction l₁ with
  | nil => simp [amGet?]
  | cons y ys ih =>
    obtain ⟨k', v'⟩ := y
    simp only [List.cons_append, amGet?]
    split
    · simp
    · exact ih

theorem amGet?_of_mem_nodup {κ β : Type} [DecidableEq κ] {l : List (κ × β)}
    (h : (l.map (·.1)).Nodup) {k : κ} {v : β} (hm : (k, v) ∈ l) : amGet? k l = some v := by
  induction l with
  | nil => simp at hm
  | cons y ys ih =>
    obtain ⟨k', v'⟩ := y
    rw [List.map_cons, List.nodup_cons] at h
    simp only [List.mem_cons, Prod.mk.injEq] at hm
    simp only [amGet?]
    rcases hm with ⟨rfl, rfl⟩ | hm
    · simp
    · split
      · subst_vars
        exact absurd (List.mem_map_of_mem (f := (·.1)) hm) h.1
      · exact ih h.2 hm

theorem amGet?_isSome_iff {κ β : Type} [DecidableEq κ] {l : List (κ × β)} {k : κ} :
    (amGet? k l).isSome ↔ k ∈ l.map (·.1) := by
  cases hg : amGet? k l with
  | none =>
    rw [amGet?_eq_none_iff] at hg
    simp only [Option.isSome_none, Bool.false_eq_true, List.mem_map, false_iff]
    rintro ⟨x, hx, rfl⟩
    exact hg x hx rfl
  | some v =>
    simp only [Option.isSome_some, List.mem_map, true_iff]
    exact ⟨(k, v), amGet?_eq_some_mem hg, rfl⟩

/-- two key-sorted assoc lists with the same lookup function are equal -/
theorem KSorted.ext {β : Type} (l₁ l₂ : List (Nat × β)) (h₁ : KSorted l₁) (h₂ : KSorted l₂)
    (h : ∀ k, amGet? k l₁ = amGet? k l₂) : l₁ = l₂ := by
  induction l₁ generalizing l₂ with
  | nil =>
    cases l₂ with
    | nil => rfl
    | cons y ys =>
      have := h y.1
      simp [amGet?] at this
  | cons x xs ih =>
    cases l₂ with
    | nil =>
      have := h x.1
      simp [amGet?] at this
    | cons y ys =>
      obtain ⟨kx, vx⟩ := x
      obtain ⟨ky, vy⟩ := y
      unfold KSorted at h₁ h₂ ih
      rw [List.pairwise_cons] at h₁ h₂
      have hx := h kx
      have hy := h ky
      simp only [amGet?, ↓reduceIte] at hx hy
      have hkeq : kx = ky := by
        by_cases hk : kx = ky
        · exact hk
        · exfalso
          have hk' : ¬ ky = kx := fun e => hk e.symm
          simp only [hk, hk', ↓reduceIte] at hx hy
          have m1 := amGet?_eq_some_mem hx.symm
          have m2 := amGet?_eq_some_mem hy
          have := h₂.1 _ m1
          have := h₁.1 _ m2
          simp only at *
          omega
      subst hkeq
      simp only [↓reduceIte, Option.some.injEq] at hx
      subst hx
      congr 1
      apply ih ys h₁.2 h₂.2
      intro k
      have hk := h k
      simp only [amGet?] at hk
      by_cases hkk : k = kx
      · subst hkk
        have n1 : amGet? k xs = none := by
          rw [amGet?_eq_none_iff]; intro x hx; have := h₁.1 x hx; simp only at this; omega
        have n2 : amGet? k ys = none := by
          rw [amGet?_eq_none_iff]; intro x hx; have := h₂.1 x hx; simp only at this; omega
        rw [n1, n2]
      · simpa [hkk] using hk

end Anysystem
