import Anysystem.Proofs.R7Defs
/-!
# R7 — the reference side: fault paths for flights in the MIDDLE of the list, and for all the flights of one handler call

* `fate_covered_mid` (1) — `fate_covered` for a flight with other flights behind it (`F ++ f :: G`): the first label of
  the path acts at position `|F|`, it moves the flight (or what becomes of it) to the back, the remaining duplications
  act at position `|F| + |G|`.  The fate "one intact copy" needs no label and leaves the flight where it is.
* `fates_covered` — all the flights `xs` a handler call created (`P ++ xs ++ Rest`), each with its fate, processed front
  to back; the concatenated path has at most `3 * |xs|` labels, all of them fault labels.
-/
namespace Anysystem

set_option linter.unusedSectionVars false
set_option linter.unusedVariables false
set_option linter.unusedSimpArgs false

variable {σ : Type}

theorem r7_refRun_append (h : Handler σ) (mode : Mode) (ls1 ls2 : List Label) : ∀ (r r1 : RState σ),
    refRun h mode r ls1 = some r1 → refRun h mode r (ls1 ++ ls2) = refRun h mode r1 ls2 := by
  induction ls1 with
  | nil => intro r r1 h1; simp only [refRun, Option.some.injEq] at h1; subst h1; rfl
  | cons l ls ih =>
    intro r r1 h1
    simp only [refRun, List.cons_append] at h1 ⊢
    split at h1
    · rename_i hen
      simp only [hen, ↓reduceIte]
      cases hs : r.step h l with
      | none => rw [hs] at h1; cases h1
      | some r2 =>
        rw [hs] at h1
        exact ih r2 r1 h1
    · cases h1

theorem RState.SameButFlights.r7_refl (r : RState σ) : r.SameButFlights r := ⟨rfl, rfl, rfl, rfl⟩

theorem RState.SameButFlights.r7_symm {a b : RState σ} (h : a.SameButFlights b) : b.SameButFlights a :=
  ⟨h.1.symm, h.2.1.symm, h.2.2.1.symm, h.2.2.2.symm⟩

/-- **(1)** `fate_covered` for a flight in the middle of the list.  Freshness: the first label needs that no flight IN
    FRONT of the flight is identical to it (`hfreshF`); a second duplication (of the intact message) happens at the back
    and needs that no other flight at all is identical (`hfreshG`); a duplication after a corruption happens at the back
    and needs that no other flight is identical to the corrupted message (`hfresh'`). -/
theorem fate_covered_mid (r : RState σ) (F G : List Flight) (m : Msg) (src dst b : Nat) (a c : Bool) (k : Nat)
    (corrupted : Bool) (hfl : r.flights = F ++ ⟨m, src, dst, .faults a b c⟩ :: G)
    (hkb : k ≤ 1 + b) (hk3 : k ≤ 3) (hc : corrupted = true → c = true) (ha : k = 0 → a = true)
    (hfreshF : (k ≠ 1 ∨ corrupted = true) → ∀ g ∈ F, g.key ≠ (m, src, dst))
    (hfreshG : (3 ≤ k ∧ corrupted = false) → ∀ g ∈ F ++ G, g.key ≠ (m, src, dst))
    (hfresh' : (2 ≤ k ∧ corrupted = true) → ∀ g ∈ F ++ G, g.key ≠ (corruptMc m, src, dst)) :
    ∃ r', (∀ (h : Handler σ) (mode : Mode),
        refRun h mode r (fatePathMid F.length (F.length + G.length) k corrupted) = some r') ∧
      r.SameButFlights r' ∧ r'.trace = r.trace ++ fateLog m src dst k corrupted ∧
      ((k = 1 ∧ corrupted = false ∧ r'.flights = r.flights) ∨
       (¬ (k = 1 ∧ corrupted = false) ∧ ∃ fs, r'.flights = F ++ G ++ fs ∧
          fs.map Flight.key = List.replicate k (fatePayload m corrupted, src, dst))) := by
  have hlen : (F ++ G).length = F.length + G.length := List.length_append
  by_cases hk0 : k = 0
  · -- dropped
    subst hk0
    have ha' := ha rfl
    subst ha'
    refine ⟨{ r with flights := F ++ G, trace := r.trace ++ [LogE.dropped m src dst] }, ?_, ⟨rfl, rfl, rfl, rfl⟩, rfl,
      Or.inr ⟨by omega, [], by simp, rfl⟩⟩
    intro h mode
    show refRun h mode r [.drop F.length] = _
    rw [fate_refRun_cons h mode r _ (.drop F.length) _
      (RState.fate_oldest r F G _ hfl (hfreshF (Or.inl (by omega))))
      (RState.fate_step_drop h r F G m src dst b c hfl)]
    rfl
  · cases corrupted with
    | true =>
      have hc' := hc rfl
      subst hc'
      have hfr := hfreshF (Or.inr rfl)
      let r1 : RState σ := { r with flights := F ++ G ++ [⟨corruptMc m, src, dst, .faults a b false⟩],
                                    trace := r.trace ++ [LogE.corrupted m (corruptMc m) src dst] }
      have hfl1 : r1.flights = (F ++ G) ++ [⟨corruptMc m, src, dst, .faults a b false⟩] := rfl
      obtain ⟨r', fs, hrun, hfl', hkeys, hsame, htr⟩ :=
        fate_run_dups r1 (F ++ G) (corruptMc m) src dst b a false (k - 1) hfl1 (by omega) (by omega)
          (fun hne => hfresh' ⟨by omega, rfl⟩)
      refine ⟨r', ?_, RState.SameButFlights.trans (b := r1) ⟨rfl, rfl, rfl, rfl⟩ hsame, ?_,
        Or.inr ⟨by simp, fs, hfl', ?_⟩⟩
      · intro h mode
        have := hrun h mode []
        simp only [List.append_nil] at this
        simp only [fatePathMid, hk0, ↓reduceIte]
        rw [fate_refRun_cons h mode r r1 (.corrupt F.length) _ (RState.fate_oldest r F G _ hfl hfr)
          (RState.fate_step_corrupt h r F G m src dst b a hfl)]
        rw [← hlen, this]; rfl
      · rw [htr]
        simp only [fateLog, hk0, ↓reduceIte, fatePayload, List.singleton_append, r1, List.append_assoc]
      · rw [hkeys]
        have : k - 1 + 1 = k := by omega
        rw [this]; rfl
    | false =>
      by_cases hk1 : k = 1
      · subst hk1
        refine ⟨r, ?_, ⟨rfl, rfl, rfl, rfl⟩, ?_, Or.inl ⟨rfl, rfl, rfl⟩⟩
        · intro h mode; rfl
        · simp [fateLog]
      · have hfr := hfreshF (Or.inl hk1)
        obtain ⟨b', rfl⟩ : ∃ b', b = b' + 1 := ⟨b - 1, by omega⟩
        let r1 : RState σ := { r with flights := F ++ G ++ [⟨m, src, dst, .faults a b' c⟩, ⟨m, src, dst, .faults a 0 c⟩],
                                      trace := r.trace ++ [LogE.duplicated m src dst] }
        have hstep1 : ∀ h : Handler σ, _ := fun h => RState.fate_step_dup h r F G m src dst b' a c hfl
        by_cases hk2 : k = 2
        · subst hk2
          refine ⟨r1, ?_, ⟨rfl, rfl, rfl, rfl⟩, ?_, Or.inr ⟨by omega, _, rfl, rfl⟩⟩
          · intro h mode
            show refRun h mode r [.dup F.length] = _
            rw [fate_refRun_cons h mode r r1 (.dup F.length) _ (RState.fate_oldest r F G _ hfl hfr) (hstep1 h)]
            rfl
          · simp [fateLog, fatePayload, r1]
        · have hk3' : k = 3 := by omega
          subst hk3'
          obtain ⟨b'', rfl⟩ : ∃ b'', b' = b'' + 1 := ⟨b' - 1, by omega⟩
          have hfrG := hfreshG ⟨by omega, rfl⟩
          have hfl1 : r1.flights = (F ++ G) ++ ⟨m, src, dst, .faults a (b'' + 1) c⟩ :: [⟨m, src, dst, .faults a 0 c⟩] := rfl
          let r2 : RState σ :=
            { r1 with flights := (F ++ G) ++ [⟨m, src, dst, .faults a 0 c⟩] ++
                        [⟨m, src, dst, .faults a b'' c⟩, ⟨m, src, dst, .faults a 0 c⟩],
                      trace := r1.trace ++ [LogE.duplicated m src dst] }
          refine ⟨r2, ?_, ⟨rfl, rfl, rfl, rfl⟩, ?_,
            Or.inr ⟨by omega, [⟨m, src, dst, .faults a 0 c⟩, ⟨m, src, dst, .faults a b'' c⟩, ⟨m, src, dst, .faults a 0 c⟩],
              by simp [r2], rfl⟩⟩
          · intro h mode
            show refRun h mode r [.dup F.length, .dup (F.length + G.length)] = _
            rw [fate_refRun_cons h mode r r1 (.dup F.length) _ (RState.fate_oldest r F G _ hfl hfr) (hstep1 h)]
            rw [← hlen]
            rw [fate_refRun_cons h mode r1 r2 (.dup (F ++ G).length) _ (RState.fate_oldest r1 (F ++ G) _ _ hfl1 hfrG)
              (RState.fate_step_dup h r1 (F ++ G) _ m src dst b'' a c hfl1)]
            rfl
          · simp [fateLog, fatePayload, r2, r1]

/-- (1) as a statement about the multiset of triples -/
theorem fate_covered_mid_perm (r : RState σ) (F G : List Flight) (m : Msg) (src dst b : Nat) (a c : Bool) (k : Nat)
    (corrupted : Bool) (hfl : r.flights = F ++ ⟨m, src, dst, .faults a b c⟩ :: G)
    (hkb : k ≤ 1 + b) (hk3 : k ≤ 3) (hc : corrupted = true → c = true) (ha : k = 0 → a = true)
    (hfresh : ∀ g ∈ F ++ G, g.key ≠ (m, src, dst))
    (hfresh' : ∀ g ∈ F ++ G, g.key ≠ (corruptMc m, src, dst)) :
    ∃ ls r', (∀ l ∈ ls, l.isFault = true) ∧ ls.length ≤ 3 ∧
      (∀ (h : Handler σ) (mode : Mode), refRun h mode r ls = some r') ∧ r.SameButFlights r' ∧
      (r'.flights.map Flight.key).Perm
        ((F ++ G).map Flight.key ++ List.replicate k (fatePayload m corrupted, src, dst)) := by
  obtain ⟨r', hrun, hsame, _, hcase⟩ := fate_covered_mid r F G m src dst b a c k corrupted hfl hkb hk3 hc ha
    (fun _ g hg => hfresh g (List.mem_append_left _ hg)) (fun _ => hfresh) (fun _ => hfresh')
  refine ⟨_, r', fatePathMid_isFault _ _ _ _, fatePathMid_length _ _ _ _ hk3, hrun, hsame, ?_⟩
  rcases hcase with ⟨rfl, rfl, hf⟩ | ⟨_, fs, hf, hkeys⟩
  · rw [hf, hfl]
    simp only [List.map_append, List.map_cons, fatePayload, List.replicate_one, Flight.key]
    rw [List.append_assoc]
    refine List.Perm.append_left _ ?_
    simp only [Bool.false_eq_true, ↓reduceIte]
    exact (List.perm_append_comm (l₁ := [(m, src, dst)]) (l₂ := List.map Flight.key G))
  · rw [hf, List.map_append, hkeys]

/-! ## all the flights of one handler call -/

theorem Fated.copies_trivial {x : Fated} (h : x.trivial) : x.copies = [x.f.key] := by
  obtain ⟨h1, h2⟩ := h
  simp [Fated.copies, h1, h2, fatePayload, Flight.key]

/-- a fate that is not "one intact copy" needs options that permit faults -/
theorem Fated.faults_of_not_trivial {x : Fated} (hok : x.ok) (hnt : ¬ x.trivial) :
    ∃ a b c, x.f.o = .faults a b c ∧ x.k ≤ 1 + b ∧ (x.corrupted = true → c = true) := by
  obtain ⟨_, _, h3⟩ := hok
  cases ho : x.f.o with
  | noFail d => rw [ho] at h3; exact absurd h3 hnt
  | faults a b c => rw [ho] at h3; exact ⟨a, b, c, rfl, h3.1, h3.2⟩

/-- a copy of `x` (intact or corrupted) is not a copy of `y` (intact or corrupted) -/
theorem Flight.not_clash_keys {f g : Flight} (h : ¬ f.clash g) :
    f.key ≠ g.key ∧ f.ckey ≠ g.key ∧ f.key ≠ g.ckey ∧ f.ckey ≠ g.ckey :=
  ⟨fun e => h (Or.inl e), fun e => h (Or.inr (Or.inl e)), fun e => h (Or.inr (Or.inr (Or.inl e))),
    fun e => h (Or.inr (Or.inr (Or.inr e)))⟩

theorem fatePayload_key (f : Flight) (corrupted : Bool) :
    (fatePayload f.m corrupted, f.src, f.dst) = (if corrupted then f.ckey else f.key) := by
  cases corrupted <;> rfl

/-- **All the flights `xs` of one handler call**, each with its fate, sitting behind the flights `P` and in front of
    `Rest`: processed front to back, each one by its path `fatePathMid`; at most `3 * |xs|` fault labels.  Freshness is
    needed for the flights whose fate is not "one intact copy" only: such a flight clashes with no flight of `P`, of
    `Rest` and with no other flight of `xs`. -/
theorem fates_covered (xs : List Fated) : ∀ (r : RState σ) (P Rest : List Flight),
    r.flights = P ++ xs.map (·.f) ++ Rest →
    (∀ x ∈ xs, x.ok) →
    (∀ x ∈ xs, ¬ x.trivial → ∀ g ∈ P, g.key ≠ x.f.key ∧ g.key ≠ x.f.ckey) →
    (∀ x ∈ xs, ¬ x.trivial → ∀ g ∈ Rest, g.key ≠ x.f.key ∧ g.key ≠ x.f.ckey) →
    xs.Pairwise (fun x y => (¬ x.trivial ∨ ¬ y.trivial) → ¬ x.f.clash y.f) →
    ∃ ls r', (∀ l ∈ ls, l.isFault = true) ∧ ls.length ≤ 3 * xs.length ∧
      (∀ (h : Handler σ) (mode : Mode), refRun h mode r ls = some r') ∧ r.SameButFlights r' ∧
      (r'.flights.map Flight.key).Perm (P.map Flight.key ++ xs.flatMap Fated.copies ++ Rest.map Flight.key) := by
  induction xs with
  | nil =>
    intro r P Rest hfl _ _ _ _
    refine ⟨[], r, by simp, by simp, fun _ _ => rfl, RState.SameButFlights.r7_refl r, ?_⟩
    rw [hfl]; simp
  | cons x xs ih =>
    intro r P Rest hfl hok hP hR hX
    rw [List.pairwise_cons] at hX
    obtain ⟨hXx, hXs⟩ := hX
    have hokx := hok x List.mem_cons_self
    by_cases htr : x.trivial
    · -- one intact copy: no label, the flight stays where it is
      obtain ⟨ls, r', h1, h2, h3, h4, h5⟩ := ih r (P ++ [x.f]) Rest (by rw [hfl]; simp)
        (fun y hy => hok y (List.mem_cons_of_mem _ hy))
        (by
          intro y hy hnt g hg
          rcases List.mem_append.1 hg with hg | hg
          · exact hP y (List.mem_cons_of_mem _ hy) hnt g hg
          · simp only [List.mem_singleton] at hg; subst hg
            have := Flight.not_clash_keys (hXx y hy (Or.inr hnt))
            exact ⟨this.1, this.2.2.1⟩)
        (fun y hy hnt => hR y (List.mem_cons_of_mem _ hy) hnt) hXs
      refine ⟨ls, r', h1, by simp only [List.length_cons]; omega, h3, h4, ?_⟩
      refine h5.trans (List.Perm.of_eq ?_)
      simp [Fated.copies_trivial htr]
    · -- a real fate: the path `fatePathMid` at the flight's position
      obtain ⟨a, b, c, ho, hkb, hc⟩ := Fated.faults_of_not_trivial hokx htr
      have hxf : x.f = ⟨x.f.m, x.f.src, x.f.dst, .faults a b c⟩ := by
        cases hx : x.f with
        | mk m s d o => rw [hx] at ho; simp only at ho; rw [ho]
      have hPx := hP x List.mem_cons_self htr
      have hRx := hR x List.mem_cons_self htr
      have hall : ∀ g ∈ P ++ (xs.map (·.f) ++ Rest), g.key ≠ x.f.key ∧ g.key ≠ x.f.ckey := by
        intro g hg
        rcases List.mem_append.1 hg with hg | hg
        · exact hPx g hg
        · rcases List.mem_append.1 hg with hg | hg
          · obtain ⟨y, hy, rfl⟩ := List.mem_map.1 hg
            have := Flight.not_clash_keys (hXx y hy (Or.inl htr))
            exact ⟨fun e => this.1 e.symm, fun e => this.2.1 e.symm⟩
          · exact hRx g hg
      obtain ⟨r1, hrun1, hsame1, _, hcase⟩ := fate_covered_mid r P (xs.map (·.f) ++ Rest) x.f.m x.f.src x.f.dst b a c
        x.k x.corrupted (by rw [hfl, ← hxf]; simp) hkb hokx.2.1 hc (fun h0 => by have := hokx.1; omega)
        (fun _ g hg => (hPx g hg).1) (fun _ g hg => (hall g hg).1) (fun _ g hg => (hall g hg).2)
      rcases hcase with ⟨h1, h2, _⟩ | ⟨_, fs, hfl1, hkeys⟩
      · exact absurd ⟨h1, h2⟩ htr
      · rw [fatePayload_key] at hkeys
        obtain ⟨ls, r', h1, h2, h3, h4, h5⟩ := ih r1 P (Rest ++ fs) (by rw [hfl1]; simp)
          (fun y hy => hok y (List.mem_cons_of_mem _ hy))
          (fun y hy hnt => hP y (List.mem_cons_of_mem _ hy) hnt)
          (by
            intro y hy hnt g hg
            rcases List.mem_append.1 hg with hg | hg
            · exact hR y (List.mem_cons_of_mem _ hy) hnt g hg
            · have hgk : g.key = (if x.corrupted = true then x.f.ckey else x.f.key) := by
                have := List.mem_map_of_mem (f := Flight.key) hg
                rw [hkeys] at this
                exact List.eq_of_mem_replicate this
              have := Flight.not_clash_keys (hXx y hy (Or.inr hnt))
              rw [hgk]
              split
              · exact ⟨this.2.1, this.2.2.2⟩
              · exact ⟨this.1, this.2.2.1⟩)
          hXs
        refine ⟨fatePathMid P.length (P.length + (xs.map (·.f) ++ Rest).length) x.k x.corrupted ++ ls, r', ?_, ?_, ?_,
          RState.SameButFlights.trans hsame1 h4, ?_⟩
        · intro l hl
          rcases List.mem_append.1 hl with hl | hl
          · exact fatePathMid_isFault _ _ _ _ l hl
          · exact h1 l hl
        · have := fatePathMid_length P.length (P.length + (xs.map (·.f) ++ Rest).length) x.k x.corrupted hokx.2.1
          have e : ∀ A : List Label, (A ++ ls).length = A.length + ls.length := fun A => List.length_append
          rw [e, List.length_cons]
          omega
        · intro h mode
          rw [r7_refRun_append h mode _ ls r r1 (hrun1 h mode)]
          exact h3 h mode
        · refine h5.trans ?_
          have hc : x.copies = fs.map Flight.key := by
            rw [hkeys, Fated.copies, fatePayload_key]
          simp only [List.map_append, List.flatMap_cons, hc, List.append_assoc]
          refine List.Perm.append_left _ ?_
          -- B ++ (R ++ C) ~ C ++ (B ++ R)
          rw [← List.append_assoc]
          exact List.perm_append_comm

end Anysystem
