import Anysystem.Proofs.R4Lemmas
import Anysystem.Proofs.R2Defs
import Anysystem.Proofs.McMisc
/-!
# Helper lemmas for `SimFates`: fault steps of the reference semantics at the position of a known flight
-/
namespace Anysystem

variable {σ : Type}

/-- the network-fault labels of the reference semantics (no handler is run) -/
def Label.isFault : Label → Bool
  | .drop _ => true
  | .dup _ => true
  | .corrupt _ => true
  | _ => false

theorem fate_getElem_mid {α : Type} (F G : List α) (g : α) : (F ++ g :: G)[F.length]? = some g := by
  simp

theorem fate_eraseIdx_mid {α : Type} (F G : List α) (g : α) : (F ++ g :: G).eraseIdx F.length = F ++ G := by
  rw [List.eraseIdx_append_of_length_le (Nat.le_refl _)]
  simp

theorem fate_take_mid {α : Type} (F G : List α) : (F ++ G).take F.length = F := by
  simp

namespace RState

/-- the flight right behind a prefix without an identical flight is the oldest identical one -/
theorem fate_oldest (r : RState σ) (F G : List Flight) (g : Flight) (hfl : r.flights = F ++ g :: G)
    (hfresh : ∀ x ∈ F, x.key ≠ g.key) : r.oldestIdentical F.length = true := by
  unfold oldestIdentical
  rw [hfl, fate_getElem_mid]
  simp only [fate_take_mid, List.all_eq_true]
  intro x hx
  have h := hfresh x hx
  cases hd : (decide (x.m = g.m) && x.src == g.src && x.dst == g.dst) with
  | false => rfl
  | true =>
    exfalso
    simp only [Bool.and_eq_true, decide_eq_true_eq, beq_iff_eq] at hd
    apply h
    simp only [Flight.key, hd.1.1, hd.1.2, hd.2]

theorem fate_step_drop (h : Handler σ) (r : RState σ) (F G : List Flight) (m : Msg) (s d n : Nat) (c : Bool)
    (hfl : r.flights = F ++ ⟨m, s, d, .faults true n c⟩ :: G) :
    r.step h (.drop F.length) = some { r with flights := F ++ G, trace := r.trace ++ [LogE.dropped m s d] } := by
  simp only [step, hfl, fate_getElem_mid, fate_eraseIdx_mid]

theorem fate_step_dup (h : Handler σ) (r : RState σ) (F G : List Flight) (m : Msg) (s d n : Nat) (a c : Bool)
    (hfl : r.flights = F ++ ⟨m, s, d, .faults a (n + 1) c⟩ :: G) :
    r.step h (.dup F.length) =
      some { r with flights := F ++ G ++ [⟨m, s, d, .faults a n c⟩, ⟨m, s, d, .faults a 0 c⟩],
                    trace := r.trace ++ [LogE.duplicated m s d] } := by
  simp only [step, hfl, fate_getElem_mid, fate_eraseIdx_mid]

theorem fate_step_corrupt (h : Handler σ) (r : RState σ) (F G : List Flight) (m : Msg) (s d n : Nat) (a : Bool)
    (hfl : r.flights = F ++ ⟨m, s, d, .faults a n true⟩ :: G) :
    r.step h (.corrupt F.length) =
      some { r with flights := F ++ G ++ [⟨corruptMc m, s, d, .faults a n false⟩],
                    trace := r.trace ++ [LogE.corrupted m (corruptMc m) s d] } := by
  simp only [step, hfl, fate_getElem_mid, fate_eraseIdx_mid]

end RState

/-- one reduced-enabled step in front of a reference run -/
theorem fate_refRun_cons (h : Handler σ) (mode : Mode) (r r1 : RState σ) (l : Label) (ls : List Label)
    (hen : r.enabledRed mode l = true) (hst : r.step h l = some r1) :
    refRun h mode r (l :: ls) = refRun h mode r1 ls := by
  simp only [refRun, hen, ↓reduceIte, hst]

/-- a positive rate is not the zero rate -/
theorem fate_pos_ne_zero {T : Type} [TimeOps T] [LawfulTime T] (x : T) (h : TimeOps.lt TimeOps.zero x = true) :
    x ≠ TimeOps.zero := by
  intro e
  rw [e] at h
  have := (LawfulTime.lt_iff (TimeOps.zero : T) TimeOps.zero).1 h
  rw [LawfulTime.le_refl] at this
  cases this

end Anysystem
