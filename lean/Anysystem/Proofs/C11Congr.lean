import Anysystem.Proofs.R2
import Anysystem.Proofs.C11Good
import Anysystem.Spec.SearchSpec
/-!
# Key congruence of the model checker's state identity (C11), relative to the invariant that
`pending_timers` mirrors the pending timer events (which finding D1 breaks, hence `OverrideFreeFrom`)
-/
namespace Anysystem

variable {σ : Type}

/-- predicates that look only at what state identity covers (process states, outboxes, crash flags,
    pending events) -/
def KeyBased (p : Preds σ) : Prop :=
  ∀ a b : McSys σ, a.key = b.key →
    p.invariant a = p.invariant b ∧ p.goal a = p.goal b ∧ p.prune a = p.prune b ∧ p.collect a = p.collect b

/-- from `r` on, no reduced-enabled step of any reduced-enabled run re-sets a pending timer -/
def OverrideFreeFrom (h : Handler σ) (mode : Mode) (r : RState σ) : Prop :=
  ∀ ls r', refRun h mode r ls = some r' → ∀ l, r'.enabledRed mode l = true → r'.overrideFree h l = true

/-- the invariant of the states of one exploration: network settings and ordering mode as fixed by
    the callback, the handler addresses existing processes only, and the state is related to a
    reference state from which the program is override-free -/
def GoodState (h : Handler σ) (net : McNet) (mode : Mode) (s : McSys σ) : Prop :=
  s.net = net ∧ s.mode = mode ∧ SendsKnown h s ∧ ∃ r, Sim' s r ∧ OverrideFreeFrom h mode r

theorem deliverTo_net {cfg : Cfg} {h : Handler σ} {s1 s' : McSys σ} {p : Nat} {i : Input}
    (hok : McSys.deliverTo cfg h s1 p i = .ok s') : s'.net = s1.net := by
  simp only [McSys.deliverTo] at hok
  split at hok
  · simp at hok
  · split at hok
    · simp at hok
    · split at hok
      · simp at hok
      · exact (addEvents_frame _ hok).1

theorem applyEvent_net {cfg : Cfg} {h : Handler σ} {s s' : McSys σ} {ev : Ev}
    (hok : s.applyEvent cfg h ev = .ok s') : s'.net = s.net := by
  cases ev with
  | msg m src dst o => rw [applyEvent_msg] at hok; (have h1 := deliverTo_net hok; exact h1)
  | timer p t d => rw [applyEvent_timer] at hok; (have h1 := deliverTo_net hok; exact h1)
  | timerCancelled _ _ => simp only [McSys.applyEvent, Except.ok.injEq] at hok; subst hok; rfl
  | dropped _ _ _ _ => simp only [McSys.applyEvent, Except.ok.injEq] at hok; subst hok; rfl
  | duplicated _ _ _ _ => simp only [McSys.applyEvent, Except.ok.injEq] at hok; subst hok; rfl
  | corrupted _ _ _ _ _ => simp only [McSys.applyEvent, Except.ok.injEq] at hok; subst hok; rfl

theorem applyAlt_net (h : Handler σ) {s s' : McSys σ} {alt : Alt} (hok : s.applyAlt {} h alt = .ok s') :
    s'.net = s.net := by
  cases alt with
  | deliver id =>
    simp only [McSys.applyAlt] at hok
    split at hok
    · simp at hok
    · (have h1 := applyEvent_net hok; exact h1)
  | drop id =>
    simp only [McSys.applyAlt] at hok
    split at hok
    · simp at hok
    · (have h1 := applyEvent_net hok; exact h1)
    · simp at hok
  | corrupt id =>
    simp only [McSys.applyAlt] at hok
    split at hok
    · simp at hok
    · split at hok
      · simp at hok
      · (have h1 := applyEvent_net hok; exact h1)
    · simp at hok
  | dup id =>
    simp only [McSys.applyAlt] at hok
    split at hok
    · simp at hok
    · split at hok
      · simp at hok
      · split at hok
        · simp at hok
        · split at hok
          · simp at hok
          · split at hok
            · (have h1 := applyEvent_net hok; exact h1)
            · simp at hok

theorem goodState_closed [DecidableEq σ] (h : Handler σ) (p : Preds σ) (hash : McSys.Key σ → Nat)
    (net : McNet) (mode : Mode) : InvClosed (mcTSys {} h p hash) (GoodState h net mode) := by
  rintro s cs ⟨hnet, hmode, hsk, r, hsim, hof⟩ hsucc c hc
  have hsucc' : s.successors {} h = .ok cs := hsucc
  obtain ⟨ids, id, alts, alt, hav, hid, halts, halt, happ⟩ := (mem_successors_iff h hsucc' c).mp hc
  obtain ⟨l, hen, hstep⟩ := applyAlt_refines' h hsim hav hid halts halt happ
  rw [hmode] at hen
  obtain ⟨r', hr', hsim'⟩ := hstep (hof [] r rfl l hen)
  have hcnet := applyAlt_net h happ
  refine ⟨hcnet.trans hnet, (applyAlt_mode h happ).trans hmode, ?_, r', hsim', ?_⟩
  · intro q st i a ha m dst hm
    rw [hcnet]
    exact hsk q st i a ha m dst hm
  · intro ls r'' hrun l' hen'
    refine hof (l :: ls) r'' ?_ l' hen'
    simp only [refRun, hen, ↓reduceIte, hr']
    exact hrun

/-- C11: two good states the checker treats as equal have identical futures -/
theorem mcTSys_congruentOn [DecidableEq σ] (h : Handler σ) (p : Preds σ) (hp : KeyBased p)
    (hash : McSys.Key σ → Nat) (net : McNet) (mode : Mode) :
    CongruentOn (mcTSys {} h p hash) (GoodState h net mode) := by
  rintro a b ⟨hanet, hamode, _, ra, hsa, _⟩ ⟨hbnet, hbmode, _, rb, hsb, _⟩ hk
  have hk' : a.key = b.key := hk
  have hkv : KV a b := KV.of_sim hsa hsb hk' (hanet.trans hbnet.symm) (hamode.trans hbmode.symm)
  obtain ⟨hi, hg, hpr, hco⟩ := hp a b hk'
  have hsucc := hkv.successors h
  refine ⟨?_, hco, ?_, ?_⟩
  · show p.verdict a = p.verdict b
    simp only [Preds.verdict, hi, hg, hpr, hkv.events]
  · intro ca hca
    have hca' : a.successors {} h = .ok ca := hca
    rw [hca'] at hsucc
    cases hcb : b.successors {} h with
    | error e => rw [hcb] at hsucc; exact hsucc.elim
    | ok cb =>
      rw [hcb] at hsucc
      exact ⟨cb, hcb, hsucc.map_eq (fun x y hxy => hxy.key_eq)⟩
  · intro e hea
    have hea' : a.successors {} h = .error e := hea
    rw [hea'] at hsucc
    cases hcb : b.successors {} h with
    | error e' => exact ⟨e', hcb⟩
    | ok cb => rw [hcb] at hsucc; exact hsucc.elim

/-- state identity covers process state, outbox, crash flag and the complete pending-event store -/
theorem key_covers (a b : McSys σ) (hk : a.key = b.key) :
    a.events = b.events ∧
    a.nodes.map (fun nd => (nd.1, nd.2.crashed, nd.2.procs.map fun pe => (pe.1, pe.2.st, pe.2.outbox))) =
    b.nodes.map (fun nd => (nd.1, nd.2.crashed, nd.2.procs.map fun pe => (pe.1, pe.2.st, pe.2.outbox))) :=
  key_covers_aux a b hk

end Anysystem
