import Anysystem.Proofs.R2
import Anysystem.Spec.SearchSpec
/-!
# Key congruence of the model checker's state identity (C11), relative to the invariant that
`pending_timers` mirrors the pending timer events (which finding D1 breaks, hence `OverrideFreeFrom`)
-/
namespace Anysystem

variable {σ : Type}

/-- predicates that look only at what state identity covers (process states, outboxes, crash flags,
    pending events) -/
def KeyBased (p : Preds σ) : Prop :=
  ∀ a b : McSys σ, a.key = b.key →
    p.invariant a = p.invariant b ∧ p.goal a = p.goal b ∧ p.prune a = p.prune b ∧ p.collect a = p.collect b

/-- from `r` on, no reduced-enabled step of any reduced-enabled run re-sets a pending timer -/
def OverrideFreeFrom (h : Handler σ) (mode : Mode) (r : RState σ) : Prop :=
  ∀ ls r', refRun h mode r ls = some r' → ∀ l, r'.enabledRed mode l = true → r'.overrideFree h l = true

/-- the invariant of the states of one exploration: network settings and ordering mode as fixed by
    the callback, the handler addresses existing processes only, and the state is related to a
    reference state from which the program is override-free -/
def GoodState (h : Handler σ) (net : McNet) (mode : Mode) (s : McSys σ) : Prop :=
  s.net = net ∧ s.mode = mode ∧ SendsKnown h s ∧ ∃ r, Sim' s r ∧ OverrideFreeFrom h mode r

theorem applyAlt_net (h : Handler σ) {s s' : McSys σ} {alt : Alt} (hok : s.applyAlt {} h alt = .ok s') :
    s'.net = s.net := sorry

theorem goodState_closed [DecidableEq σ] (h : Handler σ) (p : Preds σ) (hash : McSys.Key σ → Nat)
    (net : McNet) (mode : Mode) : InvClosed (mcTSys {} h p hash) (GoodState h net mode) := sorry

/-- C11: two good states the checker treats as equal have identical futures -/
theorem mcTSys_congruentOn [DecidableEq σ] (h : Handler σ) (p : Preds σ) (hp : KeyBased p)
    (hash : McSys.Key σ → Nat) (net : McNet) (mode : Mode) :
    CongruentOn (mcTSys {} h p hash) (GoodState h net mode) := sorry

/-- state identity covers process state, outbox, crash flag and the complete pending-event store -/
theorem key_covers (a b : McSys σ) (hk : a.key = b.key) :
    a.events = b.events ∧
    a.nodes.map (fun nd => (nd.1, nd.2.crashed, nd.2.procs.map fun pe => (pe.1, pe.2.st, pe.2.outbox))) =
    b.nodes.map (fun nd => (nd.1, nd.2.crashed, nd.2.procs.map fun pe => (pe.1, pe.2.st, pe.2.outbox))) := sorry

end Anysystem
