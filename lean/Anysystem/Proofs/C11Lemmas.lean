import Anysystem.Proofs.R2
/-!
# C11, helper lemmas I: the relation `KV` ("equal as far as the future is concerned") and one reaction

`KV a b`: equal stores, network settings and ordering mode; the node maps have the same shape, the
same crash flags, and position by position processes with equal state and outbox whose
`pending_timers` have the same members on nodes that are alive.  `KV` implies key equality and is
preserved by every operation a step performs.
-/
set_option linter.unusedSimpArgs false
namespace Anysystem

variable {σ : Type}

/-- position-wise relation of two lists -/
inductive All2 {α β : Type} (R : α → β → Prop) : List α → List β → Prop where
  | nil : All2 R [] []
  | cons {a : α} {b : β} {l₁ : List α} {l₂ : List β} : R a b → All2 R l₁ l₂ → All2 R (a :: l₁) (b :: l₂)

/-- position-wise relation of two association lists: equal keys, related values -/
def All2K {β γ : Type} (Rv : Nat → β → γ → Prop) (l₁ : List (Nat × β)) (l₂ : List (Nat × γ)) : Prop :=
  All2 (fun x y => x.1 = y.1 ∧ Rv x.1 x.2 y.2) l₁ l₂

theorem All2.map_eq {α β γ : Type} {R : α → β → Prop} {f : α → γ} {g : β → γ} {l₁ : List α} {l₂ : List β}
    (h : All2 R l₁ l₂) (hfg : ∀ x y, R x y → f x = g y) : l₁.map f = l₂.map g := by
  induction h with
  | nil => rfl
  | cons hab _ ih => simp only [List.map_cons, hfg _ _ hab, ih]

theorem All2.of_map_eq {α β γ : Type} {R : α → β → Prop} {f : α → γ} {g : β → γ} :
    ∀ {l₁ : List α} {l₂ : List β}, l₁.map f = l₂.map g →
      (∀ x ∈ l₁, ∀ y ∈ l₂, f x = g y → R x y) → All2 R l₁ l₂
  | [], [], _, _ => All2.nil
  | [], _ :: _, h, _ => by simp at h
  | _ :: _, [], h, _ => by simp at h
  | x :: xs, y :: ys, h, hR => by
    simp only [List.map_cons, List.cons.injEq] at h
    exact All2.cons (hR x List.mem_cons_self y List.mem_cons_self h.1)
      (All2.of_map_eq h.2 (fun x' hx' y' hy' => hR x' (List.mem_cons_of_mem _ hx') y' (List.mem_cons_of_mem _ hy')))

theorem All2.mono {α β : Type} {R R' : α → β → Prop} {l₁ : List α} {l₂ : List β}
    (h : All2 R l₁ l₂) (hRR : ∀ x y, R x y → R' x y) : All2 R' l₁ l₂ := by
  induction h with
  | nil => exact All2.nil
  | cons hab _ ih => exact All2.cons (hRR _ _ hab) ih

theorem All2.append {α β : Type} {R : α → β → Prop} {l₁ : List α} {l₂ : List β} {a : α} {b : β}
    (h : All2 R l₁ l₂) (hab : R a b) : All2 R (l₁ ++ [a]) (l₂ ++ [b]) := by
  induction h with
  | nil => exact All2.cons hab All2.nil
  | cons hxy _ ih => exact All2.cons hxy ih

/-- lookups in related association lists -/
theorem All2K.amGet? {β γ : Type} {Rv : Nat → β → γ → Prop} {l₁ : List (Nat × β)} {l₂ : List (Nat × γ)}
    (h : All2K Rv l₁ l₂) (k : Nat) :
    (amGet? k l₁ = none ∧ amGet? k l₂ = none) ∨
      ∃ v w, amGet? k l₁ = some v ∧ amGet? k l₂ = some w ∧ Rv k v w := by
  induction h with
  | nil => left; exact ⟨rfl, rfl⟩
  | @cons a b l₁ l₂ hab _ ih =>
    obtain ⟨ka, va⟩ := a
    obtain ⟨kb, vb⟩ := b
    obtain ⟨h1, h2⟩ := hab
    simp only at h1 h2
    subst h1
    simp only [Anysystem.amGet?]
    by_cases hk : k = ka
    · subst hk
      right
      exact ⟨va, vb, by simp, by simp, h2⟩
    · simp only [hk, ↓reduceIte]
      exact ih

theorem All2K.amInsert {β γ : Type} {Rv : Nat → β → γ → Prop} {l₁ : List (Nat × β)} {l₂ : List (Nat × γ)}
    (h : All2K Rv l₁ l₂) (k : Nat) {v : β} {w : γ} (hvw : Rv k v w) :
    All2K Rv (amInsert natLt k v l₁) (amInsert natLt k w l₂) := by
  induction h with
  | nil => exact All2.cons ⟨rfl, hvw⟩ All2.nil
  | @cons a b l₁ l₂ hab hrest ih =>
    obtain ⟨ka, va⟩ := a
    obtain ⟨kb, vb⟩ := b
    obtain ⟨h1, h2⟩ := hab
    simp only at h1 h2
    subst h1
    simp only [Anysystem.amInsert]
    by_cases hlt : natLt k ka = true
    · simp only [hlt, ↓reduceIte]
      exact All2.cons ⟨rfl, hvw⟩ (All2.cons ⟨rfl, h2⟩ hrest)
    · simp only [hlt, Bool.false_eq_true, ↓reduceIte]
      by_cases hk : k = ka
      · simp only [hk, ↓reduceIte]
        exact All2.cons ⟨rfl, hk ▸ hvw⟩ hrest
      · simp only [hk, ↓reduceIte]
        exact All2.cons ⟨rfl, h2⟩ ih

/-! ## the relation -/

/-- two process entries agree on what the future depends on (`c` = crash flag of the node) -/
def ProcRel (c : Bool) (_ : Nat) (e f : ProcEntry σ) : Prop :=
  e.st = f.st ∧ e.outbox = f.outbox ∧ (c = false → ∀ name, name ∈ e.pending ↔ name ∈ f.pending)

def NodeRel (_ : Nat) (n m : McNode σ) : Prop :=
  n.crashed = m.crashed ∧ All2K (ProcRel n.crashed) n.procs m.procs

structure KV (a b : McSys σ) : Prop where
  events : a.events = b.events
  net : a.net = b.net
  mode : a.mode = b.mode
  nodes : All2K NodeRel a.nodes b.nodes

/-- both fail, or both succeed with related results -/
def ResRel : R (McSys σ) → R (McSys σ) → Prop
  | .ok x, .ok y => KV x y
  | .error _, .error _ => True
  | _, _ => False

theorem KV.key_eq {a b : McSys σ} (h : KV a b) : a.key = b.key := by
  simp only [McSys.key, h.events, McSys.Key.mk.injEq, true_and]
  apply h.nodes.map_eq
  rintro ⟨n, nd⟩ ⟨m, md⟩ ⟨h1, h2, h3⟩
  simp only at h1 h2 h3
  subst h1
  simp only [McSys.NodeKey.mk.injEq, true_and, h2]
  apply h3.map_eq
  rintro ⟨p, e⟩ ⟨q, f⟩ ⟨g1, g2, g3, _⟩
  simp only at g1 g2 g3
  subst g1
  simp only [g2, g3]

theorem KV.procCrashed {a b : McSys σ} (h : KV a b) (p : Nat) : a.procCrashed p = b.procCrashed p := by
  simp only [McSys.procCrashed, h.net, McSys.nodeOf]
  cases b.net.procNode p with
  | error e => rfl
  | ok nd =>
    simp only
    rcases h.nodes.amGet? nd with ⟨h1, h2⟩ | ⟨v, w, h1, h2, h3, _⟩
    · simp only [h1, h2]
    · simp only [h1, h2, h3]

/-! ## `handle_process_actions` -/

theorem contains_congr {l₁ l₂ : List Nat} (h : ∀ name, name ∈ l₁ ↔ name ∈ l₂) (x : Nat) :
    l₁.contains x = l₂.contains x := by
  rw [Bool.eq_iff_iff]
  simp only [List.contains_iff_mem]
  exact h x

theorem handleActions_rel (p : Nat) (as : List Action) : ∀ (e f : ProcEntry σ) (evs : List Ev) (tr tr' : List LogE),
    ProcRel false p e f →
      ProcRel false p (handleActions {} p as e evs tr).1 (handleActions {} p as f evs tr').1 ∧
      (handleActions {} p as e evs tr).2.1 = (handleActions {} p as f evs tr').2.1 := by
  induction as with
  | nil => intro e f evs tr tr' h; exact ⟨h, rfl⟩
  | cons a rest ih =>
    intro e f evs tr tr' h
    obtain ⟨h1, h2, h3⟩ := h
    have h3' := h3 rfl
    have hc := contains_congr h3'
    cases a with
    | send m dst =>
      simp only [handleActions]
      exact ih _ _ _ _ _ ⟨h1, h2, h3⟩
    | loc m =>
      simp only [handleActions]
      exact ih _ _ _ _ _ ⟨h1, by simp only [h2], h3⟩
    | set name delay once =>
      simp only [handleActions, hc]
      split
      · apply ih
        refine ⟨h1, h2, fun _ nm => ?_⟩
        simp only [mem_setInsert, h3' nm]
      · exact ih _ _ _ _ _ ⟨h1, h2, h3⟩
    | cancel name =>
      simp only [handleActions, hc]
      split
      · apply ih
        refine ⟨h1, h2, fun _ nm => ?_⟩
        simp only [mem_setErase, h3' nm]
      · exact ih _ _ _ _ _ ⟨h1, h2, h3⟩

/-! ## `McNode.react` -/

/-- both fail, or both succeed with related nodes and the same new events -/
def ReactRel : R (McNode σ × List Ev × List LogE) → R (McNode σ × List Ev × List LogE) → Prop
  | .ok x, .ok y => NodeRel 0 x.1 y.1 ∧ x.2.1 = y.2.1
  | .error _, .error _ => True
  | _, _ => False

theorem react_rel (h : Handler σ) {n m : McNode σ} (hnm : NodeRel 0 n m) (p : Nat) (i : Input) :
    ReactRel (n.react {} h p i) (m.react {} h p i) := by
  obtain ⟨hc, hp⟩ := hnm
  cases hcr : n.crashed with
  | true =>
    have hcm : m.crashed = true := by rw [← hc, hcr]
    simp only [McNode.react, hcr, hcm, ↓reduceIte, ReactRel]
  | false =>
    have hcm : m.crashed = false := by rw [← hc, hcr]
    rw [hcr] at hp
    rcases hp.amGet? p with ⟨g1, g2⟩ | ⟨e, f, g1, g2, g3⟩
    · simp only [McNode.react, hcr, hcm, Bool.false_eq_true, ↓reduceIte, g1, g2, ReactRel]
    · rw [McNode.react_eq h n p i e hcr g1, McNode.react_eq h m p i f hcm g2]
      simp only [ReactRel, reactOut]
      have hin : ProcRel false p (inEntry p i e) (inEntry p i f) := by
        obtain ⟨k1, k2, k3⟩ := g3
        cases i with
        | msg mm src => exact ⟨k1, k2, k3⟩
        | loc mm => exact ⟨k1, k2, k3⟩
        | timer name =>
          refine ⟨k1, k2, fun _ nm => ?_⟩
          simp only [inEntry, mem_setErase, k3 rfl nm]
      have hst : e.st = f.st := g3.1
      rw [hst]
      have hin' : ProcRel false p ({ inEntry p i e with st := (h p f.st i).1 } : ProcEntry σ)
          ({ inEntry p i f with st := (h p f.st i).1 } : ProcEntry σ) := ⟨rfl, hin.2.1, hin.2.2⟩
      obtain ⟨r1, r2⟩ := handleActions_rel p (h p f.st i).2 _ _ [] [] [] hin'
      refine ⟨⟨?_, ?_⟩, r2⟩
      · simp only [hcr, hcm]
      · simp only [hcr]
        exact hp.amInsert p r1

end Anysystem
