import Anysystem.Proofs.R2Sim
/-!
# `add_events` against the reference effect of the produced events (store side of a reaction)
-/
set_option linter.unusedSimpArgs false
namespace Anysystem

variable {σ : Type}

/-! ## the reference effect of one produced event -/

/-- what a produced event does to the flights / timers, and the entry logged late -/
def RState.addEv (r : RState σ) : Ev → RState σ × List LogE
  | .msg m src dst _ =>
    match r.net.sendMessage m src dst with
    | .ok (.msg m' s d o) =>
      if r.procCrashed s || r.procCrashed d then (r, [LogE.dropped m' s d])
      else ({ r with flights := r.flights ++ [⟨m', s, d, o⟩] }, [])
    | .ok (.dropped m' s d _) => (r, [LogE.dropped m' s d])
    | _ => (r, [])
  | .timer p name delay => ({ r with timers := r.timers ++ [⟨p, name, delay⟩] }, [])
  | .timerCancelled p name => (r.removeTimer p name, [])
  | _ => (r, [])

def RState.addEvs (r : RState σ) : List Ev → RState σ × List LogE
  | [] => (r, [])
  | ev :: rest => (((r.addEv ev).1.addEvs rest).1, (r.addEv ev).2 ++ ((r.addEv ev).1.addEvs rest).2)

/-- the circumstances under which the handler code produces an event -/
def RState.evOK (r : RState σ) : Ev → Prop
  | .msg .. => True
  | .timer p name _ => r.timerPending p name = false ∧ r.procCrashed p = false
  | .timerCancelled p name => r.timerPending p name = true
  | _ => False

def RState.evsOK (r : RState σ) : List Ev → Prop
  | [] => True
  | ev :: rest => r.evOK ev ∧ (r.addEv ev).1.evsOK rest

/-- every message event addresses known processes -/
def evsKnown (s : McSys σ) (evs : List Ev) : Prop :=
  ∀ m src dst o, Ev.msg m src dst o ∈ evs →
    (amGet? src s.net.procLoc).isSome = true ∧ (amGet? dst s.net.procLoc).isSome = true

theorem RState.addEvs_append (r : RState σ) (l₁ l₂ : List Ev) :
    r.addEvs (l₁ ++ l₂) = (((r.addEvs l₁).1.addEvs l₂).1, (r.addEvs l₁).2 ++ ((r.addEvs l₁).1.addEvs l₂).2) := by
  induction l₁ generalizing r with
  | nil => simp [RState.addEvs]
  | cons ev rest ih =>
    simp only [List.cons_append, RState.addEvs, ih, List.append_assoc]

theorem RState.evsOK_append (r : RState σ) (l₁ l₂ : List Ev) :
    r.evsOK (l₁ ++ l₂) ↔ r.evsOK l₁ ∧ (r.addEvs l₁).1.evsOK l₂ := by
  induction l₁ generalizing r with
  | nil => simp [RState.evsOK, RState.addEvs]
  | cons ev rest ih =>
    simp only [List.cons_append, RState.evsOK, RState.addEvs, ih, and_assoc]

/-! ## frame facts for `addEv` -/

theorem RState.addEv_frame (r : RState σ) (ev : Ev) :
    (r.addEv ev).1.net = r.net ∧ (r.addEv ev).1.crashedNodes = r.crashedNodes ∧
    (r.addEv ev).1.procs = r.procs ∧ (r.addEv ev).1.trace = r.trace := by
  cases ev with
  | msg m src dst o =>
    simp only [RState.addEv]
    split
    · split <;> simp
    · simp
    · simp
  | timer p n d => simp [RState.addEv]
  | timerCancelled p n => simp [RState.addEv, RState.removeTimer]
  | dropped _ _ _ _ => simp [RState.addEv]
  | duplicated _ _ _ _ => simp [RState.addEv]
  | corrupted _ _ _ _ _ => simp [RState.addEv]

theorem RState.addEvs_frame (r : RState σ) (evs : List Ev) :
    (r.addEvs evs).1.net = r.net ∧ (r.addEvs evs).1.crashedNodes = r.crashedNodes ∧
    (r.addEvs evs).1.procs = r.procs ∧ (r.addEvs evs).1.trace = r.trace := by
  induction evs generalizing r with
  | nil => simp [RState.addEvs]
  | cons ev rest ih =>
    simp only [RState.addEvs]
    obtain ⟨h1, h2, h3, h4⟩ := ih (r.addEv ev).1
    obtain ⟨g1, g2, g3, g4⟩ := r.addEv_frame ev
    exact ⟨h1.trans g1, h2.trans g2, h3.trans g3, h4.trans g4⟩

/-- replace the processes and the trace -/
def RState.withPT (r : RState σ) (P : List (Nat × RProc σ)) (T : List LogE) : RState σ :=
  { r with procs := P, trace := T }

@[simp] theorem RState.withPT_procs (r : RState σ) (P : List (Nat × RProc σ)) (T : List LogE) :
    (r.withPT P T).procs = P := rfl
@[simp] theorem RState.withPT_trace (r : RState σ) (P : List (Nat × RProc σ)) (T : List LogE) :
    (r.withPT P T).trace = T := rfl
@[simp] theorem RState.withPT_flights (r : RState σ) (P : List (Nat × RProc σ)) (T : List LogE) :
    (r.withPT P T).flights = r.flights := rfl
@[simp] theorem RState.withPT_timers (r : RState σ) (P : List (Nat × RProc σ)) (T : List LogE) :
    (r.withPT P T).timers = r.timers := rfl
@[simp] theorem RState.withPT_net (r : RState σ) (P : List (Nat × RProc σ)) (T : List LogE) :
    (r.withPT P T).net = r.net := rfl
@[simp] theorem RState.withPT_crashedNodes (r : RState σ) (P : List (Nat × RProc σ)) (T : List LogE) :
    (r.withPT P T).crashedNodes = r.crashedNodes := rfl
@[simp] theorem RState.withPT_withPT (r : RState σ) (P P' : List (Nat × RProc σ)) (T T' : List LogE) :
    (r.withPT P T).withPT P' T' = r.withPT P' T' := rfl
@[simp] theorem RState.withPT_timerPending (r : RState σ) (P : List (Nat × RProc σ)) (T : List LogE)
    (q n : Nat) : (r.withPT P T).timerPending q n = r.timerPending q n := rfl
@[simp] theorem RState.withPT_procCrashed (r : RState σ) (P : List (Nat × RProc σ)) (T : List LogE)
    (q : Nat) : (r.withPT P T).procCrashed q = r.procCrashed q := rfl

/-- `addEv` does not look at the processes or the trace -/
theorem RState.addEv_with (r : RState σ) (P : List (Nat × RProc σ)) (T : List LogE) (ev : Ev) :
    (r.withPT P T).addEv ev =
      ((r.addEv ev).1.withPT P T, (r.addEv ev).2) := by
  cases ev with
  | msg m src dst o =>
    have hc : ∀ q, (r.withPT P T).procCrashed q = r.procCrashed q := fun q => rfl
    have hn : (r.withPT P T).net = r.net := rfl
    simp only [RState.addEv, hc, hn]
    cases hsend : r.net.sendMessage m src dst with
    | error e => rfl
    | ok ev' =>
      cases ev' with
      | msg m' s d o' => cases hb : (r.procCrashed s || r.procCrashed d) <;> simp [hb] <;> rfl
      | _ => rfl
  | timer p n d => rfl
  | timerCancelled p n => rfl
  | dropped _ _ _ _ => rfl
  | duplicated _ _ _ _ => rfl
  | corrupted _ _ _ _ _ => rfl

theorem RState.addEvs_with (r : RState σ) (P : List (Nat × RProc σ)) (T : List LogE) (evs : List Ev) :
    (r.withPT P T).addEvs evs =
      ((r.addEvs evs).1.withPT P T, (r.addEvs evs).2) := by
  induction evs generalizing r with
  | nil => simp [RState.addEvs]
  | cons ev rest ih =>
    simp only [RState.addEvs, RState.addEv_with, ih]

theorem RState.evOK_with (r : RState σ) (P : List (Nat × RProc σ)) (T : List LogE) (ev : Ev) :
    (r.withPT P T).evOK ev ↔ r.evOK ev := by
  cases ev <;> simp [RState.evOK, RState.timerPending, RState.procCrashed]

theorem RState.evsOK_with (r : RState σ) (P : List (Nat × RProc σ)) (T : List LogE) (evs : List Ev) :
    (r.withPT P T).evsOK evs ↔ r.evsOK evs := by
  induction evs generalizing r with
  | nil => simp [RState.evsOK]
  | cons ev rest ih =>
    simp only [RState.evsOK, RState.evOK_with, RState.addEv_with, ih]

/-! ## unfolding `add_events` per event kind -/

theorem addEvents_timer (s : McSys σ) (p n d : Nat) (rest : List Ev) :
    McSys.addEvents {} (.timer p n d :: rest) s =
      match s.events.push (.timer p n d) with
      | .error err => .error err
      | .ok (st, _) => McSys.addEvents {} rest { s with events := st } := by
  simp only [McSys.addEvents]
  rfl

theorem addEvents_cancel (s : McSys σ) (p n : Nat) (rest : List Ev) :
    McSys.addEvents {} (.timerCancelled p n :: rest) s =
      match s.events.cancelTimer {} p n with
      | .error err => .error err
      | .ok st => McSys.addEvents {} rest { s with events := st } := by
  simp only [McSys.addEvents]
  rfl

theorem addEvents_msg_push (s : McSys σ) {m : Msg} {src dst : Nat} (o0 : Opts) {o : Opts} (rest : List Ev)
    (hsend : s.net.sendMessage m src dst = .ok (.msg m src dst o))
    (ha : s.procCrashed src = .ok false) (hb : s.procCrashed dst = .ok false) :
    McSys.addEvents {} (.msg m src dst o0 :: rest) s =
      match s.events.push (.msg m src dst o) with
      | .error err => .error err
      | .ok (st, _) => McSys.addEvents {} rest { s with events := st } := by
  simp only [McSys.addEvents, hsend, ha, hb, Bool.or_self, Bool.false_eq_true, ↓reduceIte]
  rfl

theorem addEvents_msg_crashed (s : McSys σ) {m : Msg} {src dst : Nat} (o0 : Opts) {o : Opts} (rest : List Ev)
    {a b : Bool}
    (hsend : s.net.sendMessage m src dst = .ok (.msg m src dst o))
    (ha : s.procCrashed src = .ok a) (hb : s.procCrashed dst = .ok b) (hab : (a || b) = true) :
    McSys.addEvents {} (.msg m src dst o0 :: rest) s =
      McSys.addEvents {} rest { s with trace := s.trace ++ [.dropped m src dst] } := by
  simp only [McSys.addEvents, hsend, ha, hb, hab, ↓reduceIte]

theorem addEvents_msg_dropped (s : McSys σ) {m : Msg} {src dst : Nat} (o0 : Opts) (rest : List Ev)
    (hsend : s.net.sendMessage m src dst = .ok (.dropped m src dst none)) :
    McSys.addEvents {} (.msg m src dst o0 :: rest) s =
      McSys.addEvents {} rest { s with trace := s.trace ++ [.dropped m src dst] } := by
  simp only [McSys.addEvents, hsend]

/-- the three outcomes of `send_message` between known processes -/
theorem sendMessage_cases (n : McNet) (m : Msg) {src dst : Nat}
    (hs : (amGet? src n.procLoc).isSome = true) (hd : (amGet? dst n.procLoc).isSome = true) :
    (∃ o, n.sendMessage m src dst = .ok (.msg m src dst o)) ∨
      n.sendMessage m src dst = .ok (.dropped m src dst none) := by
  obtain ⟨sn, hsn⟩ := Option.isSome_iff_exists.mp hs
  obtain ⟨dn, hdn⟩ := Option.isSome_iff_exists.mp hd
  simp only [McNet.sendMessage, McNet.procNode, hsn, hdn]
  split
  · exact Or.inl ⟨_, rfl⟩
  · split
    · exact Or.inl ⟨_, rfl⟩
    · exact Or.inr rfl

theorem sendMessage_ok_known {n : McNet} {m : Msg} {src dst : Nat} {ev : Ev}
    (h : n.sendMessage m src dst = .ok ev) :
    (amGet? src n.procLoc).isSome = true ∧ (amGet? dst n.procLoc).isSome = true := by
  simp only [McNet.sendMessage, McNet.procNode] at h
  cases hs : amGet? src n.procLoc with
  | none => simp [hs] at h
  | some sn =>
    cases hd : amGet? dst n.procLoc with
    | none => simp [hs, hd] at h
    | some dn => simp

end Anysystem
