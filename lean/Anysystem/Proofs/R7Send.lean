import Anysystem.Proofs.R7Lemmas
import Anysystem.Proofs.R7Fates
/-!
# R7 — `send` with arbitrary rates, the action list of one handler call, the handler tail

* `RState.sendAdds`, `RState.r7_act_flights` — what a `Context` call adds to the flights (a function of the network settings
  and the crashed nodes only); `RState.act_sameButFlights`, `freshActs_congr`;
* `TimedRelF.congr_perm` — the relation looks at the flights up to the multiset of their triples;
* `TimedRelF.addMsgs` — `k` copies of one message are queued;
* `r7_send_sim` — one `send`: the simulator's fate `(k, corrupted)` of the send is a `Fated` flight permitted by the
  options the reference `send` gives the flight, and the relation holds for every reference state whose flights are, as
  a multiset of triples, the old ones plus the copies;
* `r7_acts_sim` — a whole action list: the simulator state after the list is related to a *virtual* reference state
  (flights: the old ones plus the copies of all fated flights) that differs from the reference state after the list
  (flights: the old ones plus the fated flights) in the flights only;
* `r7_handler_tail` — the handler runs on both sides; the fault paths of `fates_covered` lead from the reference state
  after the handler step to a state related to the simulator's.
-/
namespace Anysystem

set_option linter.unusedSectionVars false
set_option linter.unusedVariables false
set_option linter.unusedSimpArgs false

/-! # the reference side of one call -/
section R7RefCall
variable {σ : Type}

namespace RState

/-- the flights a `send` creates: none (link cut, a crashed end) or one -/
def sendAdds (r : RState σ) (p : Nat) (m : Msg) (dst : Nat) : List Flight :=
  match r.net.sendMessage m p dst with
  | .ok (.msg m' s d o) => if r.procCrashed s || r.procCrashed d then [] else [⟨m', s, d, o⟩]
  | _ => []

/-- the flights a call creates -/
def actAdds (r : RState σ) (p : Nat) : Action → List Flight
  | .send m dst => r.sendAdds p m dst
  | _ => []

theorem r7_act_flights (r : RState σ) (p : Nat) (a : Action) : (r.act p a).1.flights = r.flights ++ r.actAdds p a := by
  cases a with
  | send m dst =>
    simp only [act, actAdds, sendAdds]
    cases hsm : r.net.sendMessage m p dst with
    | error e => simp
    | ok ev =>
      cases ev with
      | msg m' s d o => by_cases hc : (r.procCrashed s || r.procCrashed d) = true <;> simp [hc]
      | _ => simp
  | loc m => simp [act, actAdds]
  | set name delay once => simp only [act, actAdds]; split <;> simp [removeTimer]
  | cancel name => simp only [act, actAdds]; split <;> simp [removeTimer]

theorem sendAdds_congr {r r' : RState σ} (hn : r'.net = r.net) (hc : r'.crashedNodes = r.crashedNodes) (p : Nat)
    (m : Msg) (dst : Nat) : r'.sendAdds p m dst = r.sendAdds p m dst := by
  unfold sendAdds procCrashed
  rw [hn, hc]

theorem actAdds_congr {r r' : RState σ} (hn : r'.net = r.net) (hc : r'.crashedNodes = r.crashedNodes) (p : Nat)
    (a : Action) : r'.actAdds p a = r.actAdds p a := by
  cases a with
  | send m dst => exact sendAdds_congr hn hc p m dst
  | loc m => rfl
  | set name delay once => rfl
  | cancel name => rfl

theorem sendAdds_length (r : RState σ) (p : Nat) (m : Msg) (dst : Nat) : (r.sendAdds p m dst).length ≤ 1 := by
  unfold sendAdds
  split
  · split <;> simp
  · simp

/-- the flight a `send` creates carries the message, the sender and the destination of the call -/
theorem sendAdds_mem (r : RState σ) (p : Nat) (m : Msg) (dst : Nat) (f : Flight) (h : f ∈ r.sendAdds p m dst) :
    f.m = m ∧ f.src = p ∧ f.dst = dst := by
  unfold sendAdds at h
  split at h
  · rename_i m' s d o heq
    split at h
    · cases h
    · simp only [List.mem_singleton] at h
      subst h
      unfold McNet.sendMessage at heq
      split at heq
      · split at heq
        · cases heq; exact ⟨rfl, rfl, rfl⟩
        · split at heq
          · cases heq; exact ⟨rfl, rfl, rfl⟩
          · cases heq
      · cases heq
      · cases heq
  · cases h

/-- a `send` changes the flights and the trace only -/
theorem r7_act_send_same (r : RState σ) (p : Nat) (m : Msg) (dst : Nat) : r.SameButFlights (r.act p (.send m dst)).1 := by
  simp only [act]
  split
  · split <;> exact ⟨rfl, rfl, rfl, rfl⟩
  · exact ⟨rfl, rfl, rfl, rfl⟩
  · exact ⟨rfl, rfl, rfl, rfl⟩

theorem r7_timerPending_congr {r r' : RState σ} (ht : r'.timers = r.timers) (p name : Nat) :
    r'.timerPending p name = r.timerPending p name := by
  unfold timerPending; rw [ht]

/-- apart from the flights (and the trace) a call does the same to two states that differ in the flights only -/
theorem act_sameButFlights {r r' : RState σ} (h : r.SameButFlights r') (p : Nat) (a : Action) :
    (r.act p a).1.SameButFlights (r'.act p a).1 := by
  obtain ⟨h1, h2, h3, h4⟩ := h
  cases a with
  | send m dst =>
    exact ((r7_act_send_same r p m dst).r7_symm.trans ⟨h1, h2, h3, h4⟩).trans (r7_act_send_same r' p m dst)
  | loc m => exact ⟨by simp only [act]; rw [h1], h2, h3, h4⟩
  | set name delay once =>
    have hp := r7_timerPending_congr h2 p name
    simp only [act, hp]
    split
    · exact ⟨h1, h2, h3, h4⟩
    · exact ⟨h1, by simp only [removeTimer]; rw [h2], h3, h4⟩
  | cancel name =>
    have hp := r7_timerPending_congr h2 p name
    simp only [act, hp]
    split
    · exact ⟨h1, by simp only [removeTimer]; rw [h2], h3, h4⟩
    · exact ⟨h1, h2, h3, h4⟩

theorem Ctx.of_same {r r' : RState σ} {n p : Nat} (h : r.Ctx n p) (hs : r.SameButFlights r') : r'.Ctx n p :=
  h.congr hs.2.2.1 (fun k => by rw [hs.1]) hs.2.2.2

end RState

/-- freshness of a call list looks at the flights, the network settings and the crashed nodes only -/
theorem freshActs_congr (as : List Action) : ∀ (r r' : RState σ) (p n0 : Nat), r'.flights = r.flights → r'.net = r.net →
    r'.crashedNodes = r.crashedNodes → freshActs r p n0 as → freshActs r' p n0 as := by
  induction as with
  | nil => intro _ _ _ _ _ _ _ _; trivial
  | cons a rest ih =>
    intro r r' p n0 hf hn hc h
    obtain ⟨h1, h2⟩ := h
    refine ⟨?_, ih (r.act p a).1 (r'.act p a).1 p n0 ?_ ?_ ?_ h2⟩
    · cases a with
      | send m dst => simp only [freshSend] at h1 ⊢; rw [hf, hn]; exact h1
      | loc m => trivial
      | set name delay once => trivial
      | cancel name => trivial
    · rw [RState.r7_act_flights, RState.r7_act_flights, hf, RState.actAdds_congr hn hc]
    · rw [(RState.act_frame r' p a).1, (RState.act_frame r p a).1, hn]
    · rw [(RState.act_frame r' p a).2.1, (RState.act_frame r p a).2.1, hc]

end R7RefCall

/-! # the simulator side -/
section R7SendSim
variable {σ T : Type} [TimeOps T]

open Sim

/-- the relation looks at the flights up to the multiset of their triples -/
theorem TimedRelF.congr_perm {bits : T → Nat} {q : Sim σ T} {r r' : RState σ} {gs : List (TimerGhost T)}
    (h1 : r'.procs = r.procs) (h2 : r'.crashedNodes = r.crashedNodes)
    (h3 : (r'.flights.map Flight.key).Perm (r.flights.map Flight.key))
    (h4 : r'.timers = r.timers) (h5 : r'.net = r.net) (h : TimedRelF bits q r gs) : TimedRelF bits q r' gs := by
  have h0 : TimedRelF bits q { r' with flights := r.flights } gs := TimedRelF.congr_r h1 h2 rfl h4 h5 h
  refine ⟨NetRelF.congr (r := ({ r' with flights := r.flights } : RState σ)) rfl rfl (NodesLike.refl _) rfl rfl h0.net,
    TProcRel.congr (r := ({ r' with flights := r.flights } : RState σ)) rfl (fun _ _ => rfl) rfl h0.proc, h0.queue,
    TimerRel.congr (r := ({ r' with flights := r.flights } : RState σ)) rfl rfl rfl rfl (fun _ _ => rfl) rfl h0.timer, ?_⟩
  obtain ⟨zs, hp, hz⟩ := h0.flights.perm
  exact ⟨⟨zs, h3.trans hp, hz⟩⟩

theorem TimedRelF.of_same {bits : T → Nat} {q : Sim σ T} {r r' : RState σ} {gs : List (TimerGhost T)}
    (hs : r.SameButFlights r') (h3 : (r'.flights.map Flight.key).Perm (r.flights.map Flight.key))
    (h : TimedRelF bits q r gs) : TimedRelF bits q r' gs :=
  TimedRelF.congr_perm hs.1 hs.2.2.2 h3 hs.2.1 hs.2.2.1 h

/-- `k` copies of one message are queued -/
theorem TimedRelF.addMsgs [LawfulTime T] {bits : T → Nat} {s s' : Sim σ T} {r r' : RState σ}
    {gs : List (TimerGhost T)} (h : TimedRelF bits s r gs) (k : Nat) (evs : Nat → QEv T)
    {mid src sn dst dn : Nat} {m : Msg}
    (hev : s'.events = s.events ++ (List.range k).map evs) (hcan : s'.canceled = s.canceled)
    (hcnt : s'.eventCount = s.eventCount + k)
    (hc : s'.clock = s.clock) (hh : s'.handlers = s.handlers) (hnet : s'.net.core = s.net.core)
    (hnodes : NodesLike s.nodes s'.nodes)
    (hp : ∀ n p, (s'.proc? n p).map pv = (s.proc? n p).map pv)
    (hid : ∀ i, i < k → (evs i).id = s.eventCount + i) (hdst : ∀ i, i < k → (evs i).dst = dn)
    (hdata : ∀ i, i < k → (evs i).data = .msg mid m src sn dst dn)
    (htime : ∀ i, i < k → TimeOps.le s.clock (evs i).time = true)
    (hld : amGet? dst s.net.procLoc = some dn) (hls : amGet? src s.net.procLoc = some sn)
    (h1 : r'.procs = r.procs) (h2 : r'.crashedNodes = r.crashedNodes) (h4 : r'.timers = r.timers)
    (h5 : r'.net = r.net)
    (h3 : (r'.flights.map Flight.key).Perm
      (r.flights.map Flight.key ++ if dn ∈ s.handlers then List.replicate k (m, src, dst) else [])) :
    TimedRelF bits s' r' gs := by
  -- the intermediate states: `i` copies queued
  have key : ∀ i, i ≤ k → TimedRelF bits
      ({ s with events := s.events ++ (List.range i).map evs, eventCount := s.eventCount + i } : Sim σ T)
      ({ r with flights := r.flights ++ if dn ∈ s.handlers then List.replicate i ⟨m, src, dst, .noFail 0⟩ else [] } : RState σ)
      gs := by
    intro i
    induction i with
    | zero =>
      intro _
      have hv0 : SameView s
          ({ s with events := s.events ++ (List.range 0).map evs, eventCount := s.eventCount + 0 } : Sim σ T) :=
        ⟨rfl, by simp, rfl, rfl, rfl, rfl, NodesLike.refl _, fun _ _ => rfl⟩
      have h0 := h.sameView hv0
      refine TimedRelF.congr_r (r := r) rfl rfl ?_ rfl rfl h0
      show r.flights ++ (if dn ∈ s.handlers then List.replicate 0 _ else []) = r.flights
      split <;> simp
    | succ i ih =>
      intro hik
      have hi := ih (by omega)
      refine hi.addMsg (ev := evs i) (mid := mid) (src := src) (sn := sn) (dst := dst) (dn := dn) (m := m) (o := .noFail 0)
        ?_ rfl rfl rfl rfl rfl (NodesLike.refl _) (fun _ _ => rfl) (hid i (by omega)) (hdst i (by omega))
        (hdata i (by omega)) (htime i (by omega)) hld hls rfl rfl rfl rfl ?_
      · show s.events ++ (List.range (i + 1)).map evs = s.events ++ (List.range i).map evs ++ [evs i]
        rw [List.range_succ, List.map_append, List.append_assoc]; rfl
      · show r.flights ++ (if dn ∈ s.handlers then List.replicate (i + 1) _ else []) =
          if dn ∈ s.handlers then (r.flights ++ if dn ∈ s.handlers then List.replicate i _ else []) ++ [_] else
            r.flights ++ if dn ∈ s.handlers then List.replicate i _ else []
        by_cases hdn : dn ∈ s.handlers
        · simp only [hdn, if_true, List.replicate_succ', List.append_assoc]
        · simp only [hdn, if_false]
  have hk := key k (Nat.le_refl _)
  have hsv : SameView ({ s with events := s.events ++ (List.range k).map evs, eventCount := s.eventCount + k } : Sim σ T) s' :=
    ⟨hc, hev, hcan, hcnt, hh, hnet, hnodes, hp⟩
  refine TimedRelF.congr_perm
    (r := ({ r with flights := r.flights ++ if dn ∈ s.handlers then List.replicate k ⟨m, src, dst, .noFail 0⟩ else [] } : RState σ))
    h1 h2 ?_ h4 h5 (hk.sameView hsv)
  refine h3.trans (List.Perm.of_eq ?_)
  show _ = List.map Flight.key (r.flights ++ if dn ∈ s.handlers then List.replicate k _ else [])
  by_cases hdn : dn ∈ s.handlers
  · simp [hdn, Flight.key]
  · simp [hdn]

/-- the flights a `send` creates, in the terms of `act_send_spec` -/
theorem RState.sendAdds_spec (r : RState σ) (p : Nat) (m : Msg) (dst sn dn : Nat)
    (hs : amGet? p r.net.procLoc = some sn) (hd : amGet? dst r.net.procLoc = some dn)
    (hcp : r.procCrashed p = false) :
    r.sendAdds p m dst =
      if (sn = dn ∨ r.net.pathEnabled sn dn = true) ∧ r.procCrashed dst = false then
        [⟨m, p, dst, if sn = dn then .noFail r.net.maxDelay
          else .faults r.net.dropPos (if r.net.duplNonzero then DUPL_COUNT else 0) r.net.corruptPos⟩]
      else [] := by
  have e := RState.r7_act_flights r p (.send m dst)
  rw [(RState.act_send_spec r p m dst sn dn hs hd hcp).2.2] at e
  simp only [RState.actAdds] at e
  split at e
  · rename_i hc
    rw [if_pos hc]
    exact (List.append_cancel_left e).symm
  · rename_i hc
    rw [if_neg hc]
    exact (List.self_eq_append_right.1 e)

theorem Fated.ok_mk_faults (m : Msg) (sr d : Nat) (a : Bool) (b : Nat) (c : Bool) (k : Nat) (cor : Bool) (h1 : 1 ≤ k)
    (h3 : k ≤ 3) (hb : k ≤ 1 + b) (hc : cor = true → c = true) : Fated.ok ⟨⟨m, sr, d, .faults a b c⟩, k, cor⟩ :=
  ⟨h1, h3, hb, hc⟩

theorem Fated.ok_mk_noFail (m : Msg) (sr d x : Nat) : Fated.ok ⟨⟨m, sr, d, .noFail x⟩, 1, false⟩ :=
  ⟨Nat.le_refl _, by show (1 : Nat) ≤ 3; omega, rfl, rfl⟩

theorem r7_sendPayload (s : Sim σ T) (m : Msg) :
    s.sendPayload m = fatePayload m (TimeOps.lt (dr s.draws 1) s.net.corruptRate) := by
  unfold sendPayload fatePayload
  cases TimeOps.lt (dr s.draws 1) s.net.corruptRate <;> rfl

variable [LawfulTime T] {bits : T → Nat} {s s' : Sim σ T} {r : RState σ} {gs : List (TimerGhost T)}
  {n p : Nat} {time : T} {rest : List Action}

/-- **one `send`, arbitrary rates.**  The simulator gives the send a fate; `xs` is the flight the reference `send`
    creates (if any) with that fate — permitted by the flight's options —, and the relation holds between the simulator
    state after the send and every reference state whose flights are, as a multiset of triples, the old flights plus
    the copies of `xs`.  A send dropped at random has the fate "one intact copy" (the flight is a zombie).  At most
    seven draws are consumed (drop, corrupt, duplicate?, number of copies, one delay per copy). -/
theorem r7_send_sim (h : TimedRelF bits s r gs) (hctx : r.Ctx n p) (m : Msg) (dst tl : Nat)
    (hdraws : ∀ d ∈ s.draws, LawfulTime.isDraw d) (hlen : 7 ≤ s.draws.length)
    (hknown : (amGet? dst r.net.procLoc).isSome = true)
    (hok : s.sendMessage m p dst tl = .ok s') :
    (∃ j, j ≤ 7 ∧ s'.draws = s.draws.drop j) ∧
    ∃ xs : List Fated, xs.map (·.f) = r.sendAdds p m dst ∧
      (∀ x ∈ xs, x.ok ∧ x.f.m = m ∧ x.f.src = p ∧ x.f.dst = dst ∧ (r.net.canFault = false → x.trivial)) ∧
      ∀ r' : RState σ, r.SameButFlights r' →
        (r'.flights.map Flight.key).Perm (r.flights.map Flight.key ++ xs.flatMap Fated.copies) →
        TimedRelF bits s' r' gs := by
  obtain ⟨hn, e, he⟩ := h.ctx hctx
  obtain ⟨hf1, hf2, hf3⟩ := h.net.netFlags
  have hpl : amGet? p s.net.procLoc = some n := (h.proc.procs n p e he).2
  cases hdl : amGet? dst r.net.procLoc with
  | none => rw [hdl] at hknown; cases hknown
  | some dn =>
  have hdl' : amGet? dst s.net.procLoc = some dn := by rw [← h.net.netLoc]; exact hdl
  have hcp : r.procCrashed p = false := RState.procCrashed_false_of hctx.1 hctx.2.2
  have hadds := RState.sendAdds_spec r p m dst n dn hctx.1 hdl hcp
  have hdnode : amHas dn s.nodes = true := h.net.locNodes dst dn hdl'
  have hcr : r.procCrashed dst = !(decide (dn ∈ s.handlers)) := by
    simp only [RState.procCrashed, hdl]
    by_cases hdn : dn ∈ s.handlers
    · have : dn ∉ r.crashedNodes := fun hc => ((h.net.crashed dn).1 hc).2 hdn
      simp [hdn, this]
    · have : dn ∈ r.crashedNodes := (h.net.crashed dn).2 ⟨hdnode, hdn⟩
      simp [hdn, this]
  by_cases hnd : n = dn
  · subst hnd
    rw [sendMessage_same s m p dst n tl hpl hdl'] at hok
    have hok' := Except.ok.inj hok
    subst hok'
    refine ⟨⟨0, by omega, by simp⟩, [⟨⟨m, p, dst, .noFail r.net.maxDelay⟩, 1, false⟩], ?_, ?_, ?_⟩
    · rw [hadds, hcr]; simp [hn]
    · intro x hx
      simp only [List.mem_singleton] at hx; subst hx
      exact ⟨Fated.ok_mk_noFail _ _ _ _, rfl, rfl, rfl, fun _ => ⟨rfl, rfl⟩⟩
    · intro r' hs' hperm
      refine h.addMsgs 1
        (fun _ => ⟨s.eventCount, TimeOps.add s.clock TimeOps.zero, n, n, .msg s.net.messageCount m p n dst n⟩)
        (mid := s.net.messageCount) (src := p) (sn := n) (dst := dst) (dn := n) (m := m)
        (by simp [List.range_succ]) rfl rfl rfl rfl rfl (NodesLike.refl _) (fun _ _ => rfl)
        (fun i hi => by have : i = 0 := by omega
                        subst this; rfl) (fun _ _ => rfl) (fun _ _ => rfl)
        (fun _ _ => LawfulTime.le_add _ _ (LawfulTime.le_refl _)) hdl' hpl hs'.1 hs'.2.2.2 hs'.2.1 hs'.2.2.1 ?_
      refine hperm.trans (List.Perm.of_eq ?_)
      simp [hn, Fated.copies, fatePayload]
  · rw [sendMessage_cross s m p dst n dn tl hpl hdl' hnd] at hok
    have hok' := Except.ok.inj hok
    subst hok'
    have hpe : r.net.pathEnabled n dn = (!(s.pathCut n dn) && s.handlers.contains dn) :=
      h.net.netCut n dn hn hdnode
    cases hcut : s.pathCut n dn with
    | true =>
      have hdr : s.sendDropped n dn = true := by rw [sendDropped_eq, hcut, Bool.or_true]
      rw [cross_dropped _ _ _ _ _ _ _ hdr]
      refine ⟨⟨1, by omega, rfl⟩, [], ?_, (by intro x hx; cases hx), ?_⟩
      · rw [hadds, hpe, hcut]; simp [hnd]
      · intro r' hs' hperm
        refine TimedRelF.of_same hs' (by simpa using hperm)
          (TimedRelF.sameView (q := s) ⟨rfl, rfl, rfl, rfl, rfl, rfl, NodesLike.refl _, fun _ _ => rfl⟩ h)
    | false =>
      cases hrd : TimeOps.lt (dr s.draws 0) s.net.dropRate with
      | true =>
        -- dropped at random at send time: the simulator queues nothing, the reference flight is a zombie
        have hdr : s.sendDropped n dn = true := by rw [sendDropped_eq, hrd]; rfl
        rw [cross_dropped _ _ _ _ _ _ _ hdr]
        have hsv := TimedRelF.sameView (q := s)
          (q' := { s with draws := s.draws.drop 1, net := s.crossNet m tl,
                          trace := s.trace ++ [.sent s.clock s.net.messageCount n p dn dst m,
                                               .dropped s.clock s.net.messageCount n p dn dst m] })
          ⟨rfl, rfl, rfl, rfl, rfl, rfl, NodesLike.refl _, fun _ _ => rfl⟩ h
        have hdp : r.net.dropPos = true := by
          rw [hf1]; exact lt_zero_of_le_of_lt _ _ (dr_nonneg _ hdraws 0) hrd
        by_cases hdn : dn ∈ s.handlers
        · refine ⟨⟨1, by omega, rfl⟩,
            [⟨⟨m, p, dst, .faults r.net.dropPos (if r.net.duplNonzero then DUPL_COUNT else 0) r.net.corruptPos⟩, 1, false⟩],
            ?_, ?_, ?_⟩
          · rw [hadds, hpe, hcut, hcr]; simp [hdn, hnd]
          · intro x hx
            simp only [List.mem_singleton] at hx; subst hx
            exact ⟨Fated.ok_mk_faults _ _ _ _ _ _ _ _ (Nat.le_refl _) (by omega) (by omega) (fun hc => by cases hc),
              rfl, rfl, rfl, fun _ => ⟨rfl, rfl⟩⟩
          · intro r' hs' hperm
            have hz := hsv.addZombie (r' := ({ r with flights := r.flights ++ [⟨m, p, dst, .noFail 0⟩] } : RState σ))
              ⟨m, p, dst, .noFail 0⟩ rfl rfl rfl rfl rfl hdp
            refine TimedRelF.congr_perm
              (r := ({ r with flights := r.flights ++ [⟨m, p, dst, .noFail 0⟩] } : RState σ))
              hs'.1 hs'.2.2.2 ?_ hs'.2.1 hs'.2.2.1 hz
            refine hperm.trans (List.Perm.of_eq ?_)
            simp [Fated.copies, fatePayload, Flight.key]
        · refine ⟨⟨1, by omega, rfl⟩, [], ?_, (by intro x hx; cases hx), ?_⟩
          · rw [hadds, hpe, hcut, hcr]; simp [hdn, hnd]
          · intro r' hs' hperm
            exact TimedRelF.of_same hs' (by simpa using hperm) hsv
      | false =>
      have hdr : s.sendDropped n dn = false := by
        rw [sendDropped_eq, hcut, hrd]; rfl
      have hlen4 : 4 ≤ s.draws.length := by omega
      have hcnt := sendCount_bounds s hdraws hlen4
      have hbase := sendBase_le s
      rw [cross_passed _ _ _ _ _ _ _ hdr]
      -- the fate: `sendCount` copies, corrupted iff the second draw is below the corruption rate
      have hk2 : 2 ≤ s.sendCount → r.net.duplNonzero = true := by
        intro h2
        cases hdup : s.sendDup with
        | false => simp [sendCount, hdup] at h2
        | true =>
          rw [hf2, lt_zero_of_le_of_lt _ _ (dr_nonneg _ hdraws 2) hdup]; rfl
      have hcc : TimeOps.lt (dr s.draws 1) s.net.corruptRate = true → r.net.corruptPos = true := by
        intro hc
        rw [hf3]; exact lt_zero_of_le_of_lt _ _ (dr_nonneg _ hdraws 1) hc
      have hrel : ∀ r' : RState σ, r.SameButFlights r' →
          (r'.flights.map Flight.key).Perm (r.flights.map Flight.key ++
            if dn ∈ s.handlers then List.replicate s.sendCount
              (fatePayload m (TimeOps.lt (dr s.draws 1) s.net.corruptRate), p, dst) else []) →
          TimedRelF bits
            { s with draws := s.draws.drop (s.sendBase + s.sendCount), eventCount := s.eventCount + s.sendCount,
                     net := s.crossNet m tl,
                     trace := s.trace ++ [.sent s.clock s.net.messageCount n p dn dst m],
                     events := s.events ++ (List.range s.sendCount).map
                       (copyEv s (.msg s.net.messageCount (s.sendPayload m) p n dst dn) n dn s.sendBase) } r' gs := by
        intro r' hs' hperm
        refine h.addMsgs s.sendCount (copyEv s (.msg s.net.messageCount (s.sendPayload m) p n dst dn) n dn s.sendBase)
          (mid := s.net.messageCount) (src := p) (sn := n) (dst := dst) (dn := dn) (m := s.sendPayload m)
          rfl rfl rfl rfl rfl rfl (NodesLike.refl _) (fun _ _ => rfl)
          (fun _ _ => rfl) (fun _ _ => rfl) (fun _ _ => rfl) ?_ hdl' hpl hs'.1 hs'.2.2.2 hs'.2.1 hs'.2.2.1 ?_
        · intro i hi
          have hdrw : LawfulTime.isDraw (dr s.draws (s.sendBase + i)) := hdraws _ (dr_mem _ _ (by omega))
          have hb := LawfulTime.scale_bounds s.net.minDelay s.net.maxDelay _ h.queue.delaysOk.2 hdrw
          exact LawfulTime.le_add _ _ (LawfulTime.le_trans _ _ _ h.queue.delaysOk.1 hb.1)
        · rw [r7_sendPayload]; exact hperm
      by_cases hdn : dn ∈ s.handlers
      · refine ⟨⟨s.sendBase + s.sendCount, by omega, rfl⟩,
          [⟨⟨m, p, dst, .faults r.net.dropPos (if r.net.duplNonzero then DUPL_COUNT else 0) r.net.corruptPos⟩,
            s.sendCount, TimeOps.lt (dr s.draws 1) s.net.corruptRate⟩], ?_, ?_, ?_⟩
        · rw [hadds, hpe, hcut, hcr]; simp [hdn, hnd]
        · intro x hx
          simp only [List.mem_singleton] at hx; subst hx
          refine ⟨Fated.ok_mk_faults _ _ _ _ _ _ _ _ hcnt.1 hcnt.2 ?_ hcc, rfl, rfl, rfl, ?_⟩
          · show s.sendCount ≤ 1 + (if r.net.duplNonzero = true then DUPL_COUNT else 0)
            by_cases h2 : 2 ≤ s.sendCount
            · rw [if_pos (hk2 h2)]; have := hcnt.2; simp only [DUPL_COUNT]; omega
            · omega
          · intro hcf
            simp only [McNet.canFault, Bool.or_eq_false_iff] at hcf
            refine ⟨?_, ?_⟩
            · show s.sendCount = 1
              by_cases h2 : 2 ≤ s.sendCount
              · have := hk2 h2; rw [hcf.1] at this; cases this
              · have := hcnt.1; omega
            · show TimeOps.lt (dr s.draws 1) s.net.corruptRate = false
              cases hc : TimeOps.lt (dr s.draws 1) s.net.corruptRate with
              | false => rfl
              | true => have := hcc hc; rw [hcf.2] at this; cases this
        · intro r' hs' hperm
          refine hrel r' hs' (hperm.trans (List.Perm.of_eq ?_))
          simp [hdn, Fated.copies]
      · refine ⟨⟨s.sendBase + s.sendCount, by omega, rfl⟩, [], ?_, (by intro x hx; cases hx), ?_⟩
        · rw [hadds, hpe, hcut, hcr]; simp [hdn, hnd]
        · intro r' hs' hperm
          refine hrel r' hs' (hperm.trans (List.Perm.of_eq ?_))
          simp [hdn]

theorem r7_act_sim_send (h : TimedRelF bits s r gs) (hctx : r.Ctx n p) (m : Msg) (dst : Nat)
    (hdraws : ∀ d ∈ s.draws, LawfulTime.isDraw d) (hlen : 7 ≤ s.draws.length)
    (hknown : (amGet? dst r.net.procLoc).isSome = true)
    (hok : Sim.handleActions n p time (.send m dst :: rest) s = .ok s') :
    ∃ s1, (∃ j, j ≤ 7 ∧ s1.draws = s.draws.drop j) ∧ Sim.handleActions n p time rest s1 = .ok s' ∧
      ∃ xs : List Fated, xs.map (·.f) = r.sendAdds p m dst ∧
        (∀ x ∈ xs, x.ok ∧ x.f.m = m ∧ x.f.src = p ∧ x.f.dst = dst ∧ (r.net.canFault = false → x.trivial)) ∧
        ∀ r' : RState σ, r.SameButFlights r' →
          (r'.flights.map Flight.key).Perm (r.flights.map Flight.key ++ xs.flatMap Fated.copies) →
          TimedRelF bits s1 r' gs := by
  simp only [Sim.handleActions] at hok
  split at hok
  · cases hok
  · rename_i sb hsb
    have hva := sameView_updProc s n p (fun e => { e with log := e.log ++ [⟨time, .sent m p dst⟩] }) (fun e => rfl)
    obtain ⟨⟨k, hk, hdk⟩, xs, hx1, hx2, hx3⟩ := r7_send_sim (h.sameView hva) hctx m dst _ (by simpa using hdraws)
      (by simpa using hlen) hknown hsb
    refine ⟨_, ⟨k, hk, ?_⟩, hok, xs, hx1, hx2, ?_⟩
    · simpa using hdk
    · intro r' hs' hperm
      exact (hx3 r' hs' hperm).sameView (sameView_updProc sb n p _ (fun e => rfl))

end R7SendSim

/-! # a whole action list -/
section R7Run
variable {σ T : Type} [TimeOps T]

open Sim

/-- flights with given triples (the options do not matter to the relation) -/
def flightsOfKeys (K : List (Msg × Nat × Nat)) : List Flight := K.map fun k => ⟨k.1, k.2.1, k.2.2, .noFail 0⟩

theorem flightsOfKeys_keys (K : List (Msg × Nat × Nat)) : (flightsOfKeys K).map Flight.key = K := by
  induction K with
  | nil => rfl
  | cons k K ih =>
    unfold flightsOfKeys at ih ⊢
    rw [List.map_cons, List.map_cons, ih]
    rfl

theorem RState.actAdds_nonsend (r : RState σ) (p : Nat) (a : Action) (ha : ∀ m dst, a ≠ .send m dst) :
    (r.act p a).1.flights = r.flights := by
  rw [RState.r7_act_flights]
  cases a with
  | send m dst => exact absurd rfl (ha m dst)
  | loc m => simp [RState.actAdds]
  | set name delay once => simp [RState.actAdds]
  | cancel name => simp [RState.actAdds]

/-- the freshness facts after one more fated flight -/
theorem FatesFresh.snoc {F0 : List Flight} {xs : List Fated} {x : Fated} (h : FatesFresh F0 xs)
    (h1 : ∀ g ∈ F0 ++ xs.map (·.f), g.key ≠ x.f.key ∧ g.key ≠ x.f.ckey)
    (h2 : ∀ g ∈ xs.map (·.f), g.ckey ≠ x.f.key ∧ g.ckey ≠ x.f.ckey) : FatesFresh F0 (xs ++ [x]) := by
  refine ⟨?_, ?_⟩
  · intro y hy g hg
    rcases List.mem_append.1 hy with hy | hy
    · exact h.old y hy g hg
    · simp only [List.mem_singleton] at hy; subst hy
      exact h1 g (List.mem_append_left _ hg)
  · rw [List.pairwise_append]
    refine ⟨h.pair, by simp, ?_⟩
    intro y hy z hz
    simp only [List.mem_singleton] at hz; subst hz
    have hm : y.f ∈ xs.map (·.f) := List.mem_map_of_mem hy
    have a1 := h1 y.f (List.mem_append_right _ hm)
    have a2 := h2 y.f hm
    rintro (e | e | e | e)
    · exact a1.1 e
    · exact a2.1 e
    · exact a1.2 e
    · exact a2.2 e

theorem r7_acts_sim [LawfulTime T] {bits : T → Nat} {n p : Nat} {time : T} {s' : Sim σ T} (acts : List Action) :
    ∀ (s : Sim σ T) (ra rv : RState σ) (gs : List (TimerGhost T)) (late : List LogE) (F0 : List Flight)
      (xs : List Fated),
      TimedRelF bits s rv gs → ra.SameButFlights rv → ra.Ctx n p →
      ra.flights = F0 ++ xs.map (·.f) →
      (rv.flights.map Flight.key).Perm (F0.map Flight.key ++ xs.flatMap Fated.copies) →
      (∀ x ∈ xs, x.ok ∧ (ra.net.canFault = false → x.trivial)) →
      (ra.net.canFault = true → FatesFresh F0 xs) →
      freshActs ra p F0.length acts →
      (∀ d ∈ s.draws, LawfulTime.isDraw d) → 7 * acts.length ≤ s.draws.length →
      (∀ a ∈ acts, ActOk bits ra.net.procLoc a) → Sim.handleActions n p time acts s = .ok s' →
      ∃ gs' rv' xs', TimedRelF bits s' rv' gs' ∧ (RState.actsAux p acts ra late).1.SameButFlights rv' ∧
        (RState.actsAux p acts ra late).1.flights = F0 ++ xs'.map (·.f) ∧
        (rv'.flights.map Flight.key).Perm (F0.map Flight.key ++ xs'.flatMap Fated.copies) ∧
        (∀ x ∈ xs', x.ok ∧ (ra.net.canFault = false → x.trivial)) ∧
        (ra.net.canFault = true → FatesFresh F0 xs') ∧ xs'.length ≤ xs.length + acts.length ∧
        ∃ j, j ≤ 7 * acts.length ∧ s'.draws = s.draws.drop j := by
  induction acts with
  | nil =>
    intro s ra rv gs late F0 xs h hsame _ hfl hperm hok hff _ _ _ _ hrun
    simp only [Sim.handleActions, Except.ok.injEq] at hrun
    subst hrun
    exact ⟨gs, rv, xs, h, hsame, hfl, hperm, hok, hff, by simp, 0, by simp, by simp⟩
  | cons a rest ih =>
    intro s ra rv gs late F0 xs h hsame hctx hfl hperm hokx hff hfresh hdraws hlen haok hrun
    rw [RState.actsAux_cons]
    obtain ⟨hfr1, hfr2⟩ := hfresh
    have hlen7 : 7 ≤ s.draws.length := by simp only [List.length_cons] at hlen; omega
    have hnet1 : (ra.act p a).1.net = ra.net := (RState.act_frame ra p a).1
    have haok' : ∀ a' ∈ rest, ActOk bits (ra.act p a).1.net.procLoc a' := by
      intro a' ha'; rw [hnet1]; exact haok a' (List.mem_cons_of_mem _ ha')
    have hthis := haok a List.mem_cons_self
    have hctxv : rv.Ctx n p := hctx.of_same hsame
    -- the common end of the four cases
    have fin : ∀ (s1 : Sim σ T) (gs1 : List (TimerGhost T)) (rv1 : RState σ) (xs1 : List Fated),
        (∃ k, k ≤ 7 ∧ s1.draws = s.draws.drop k) → Sim.handleActions n p time rest s1 = .ok s' →
        TimedRelF bits s1 rv1 gs1 → (ra.act p a).1.SameButFlights rv1 →
        (ra.act p a).1.flights = F0 ++ xs1.map (·.f) →
        (rv1.flights.map Flight.key).Perm (F0.map Flight.key ++ xs1.flatMap Fated.copies) →
        (∀ x ∈ xs1, x.ok ∧ (ra.net.canFault = false → x.trivial)) →
        (ra.net.canFault = true → FatesFresh F0 xs1) → xs1.length ≤ xs.length + 1 →
        ∃ gs' rv' xs', TimedRelF bits s' rv' gs' ∧
          (RState.actsAux p rest (ra.act p a).1 (late ++ (ra.act p a).2)).1.SameButFlights rv' ∧
          (RState.actsAux p rest (ra.act p a).1 (late ++ (ra.act p a).2)).1.flights = F0 ++ xs'.map (·.f) ∧
          (rv'.flights.map Flight.key).Perm (F0.map Flight.key ++ xs'.flatMap Fated.copies) ∧
          (∀ x ∈ xs', x.ok ∧ (ra.net.canFault = false → x.trivial)) ∧
          (ra.net.canFault = true → FatesFresh F0 xs') ∧ xs'.length ≤ xs.length + (a :: rest).length ∧
          ∃ j, j ≤ 7 * (a :: rest).length ∧ s'.draws = s.draws.drop j := by
      intro s1 gs1 rv1 xs1 ⟨k, hk, hdk⟩ hrun1 hrel1 hsame1 hfl1 hperm1 hok1 hff1 hlen1
      obtain ⟨gs', rv', xs', c1, c2, c3, c4, c5, c6, c7, j, c8, c9⟩ := ih s1 (ra.act p a).1 rv1 gs1
        (late ++ (ra.act p a).2) F0 xs1 hrel1 hsame1 (hctx.act p a) hfl1 hperm1
        (by rw [hnet1]; exact hok1) (by rw [hnet1]; exact hff1) hfr2
        (by intro d hd; rw [hdk] at hd; exact hdraws d (List.mem_of_mem_drop hd))
        (by rw [hdk, List.length_drop]; simp only [List.length_cons] at hlen; omega) haok' hrun1
      rw [hnet1] at c5 c6
      refine ⟨gs', rv', xs', c1, c2, c3, c4, c5, c6, by simp only [List.length_cons]; omega, k + j,
        by simp only [List.length_cons]; omega, ?_⟩
      rw [c9, hdk, List.drop_drop]
    -- a call that is not a `send`: the flights do not change
    have nonsend : (∀ m dst, a ≠ .send m dst) → ∀ (s1 : Sim σ T) (gs1 : List (TimerGhost T)),
        s1.draws = s.draws → Sim.handleActions n p time rest s1 = .ok s' →
        TimedRelF bits s1 (rv.act p a).1 gs1 →
        ∃ gs' rv' xs', TimedRelF bits s' rv' gs' ∧
          (RState.actsAux p rest (ra.act p a).1 (late ++ (ra.act p a).2)).1.SameButFlights rv' ∧
          (RState.actsAux p rest (ra.act p a).1 (late ++ (ra.act p a).2)).1.flights = F0 ++ xs'.map (·.f) ∧
          (rv'.flights.map Flight.key).Perm (F0.map Flight.key ++ xs'.flatMap Fated.copies) ∧
          (∀ x ∈ xs', x.ok ∧ (ra.net.canFault = false → x.trivial)) ∧
          (ra.net.canFault = true → FatesFresh F0 xs') ∧ xs'.length ≤ xs.length + (a :: rest).length ∧
          ∃ j, j ≤ 7 * (a :: rest).length ∧ s'.draws = s.draws.drop j := by
      intro hns s1 gs1 hd hrun1 hrel1
      exact fin s1 gs1 (rv.act p a).1 xs ⟨0, by omega, by simpa using hd⟩ hrun1 hrel1
        (RState.act_sameButFlights hsame p a) (by rw [RState.actAdds_nonsend ra p a hns]; exact hfl)
        (by rw [RState.actAdds_nonsend rv p a hns]; exact hperm) hokx hff (by omega)
    cases a with
    | send m dst =>
      have hknown : (amGet? dst rv.net.procLoc).isSome = true := by rw [hsame.2.2.1]; exact hthis
      obtain ⟨s1, hk, hrun1, xs1, hx1, hx2, hx3⟩ := r7_act_sim_send h hctxv m dst hdraws hlen7 hknown hrun
      rw [RState.sendAdds_congr hsame.2.2.1 hsame.2.2.2] at hx1
      have hcf : rv.net.canFault = ra.net.canFault := by rw [hsame.2.2.1]
      have hl1 : xs1.length ≤ 1 := by
        have := RState.sendAdds_length ra p m dst
        rw [← hx1, List.length_map] at this
        exact this
      -- the virtual reference state: the old flights and the copies
      have hrel1 := hx3 ({ rv with flights := flightsOfKeys (rv.flights.map Flight.key ++ xs1.flatMap Fated.copies) } : RState σ)
        ⟨rfl, rfl, rfl, rfl⟩ (by rw [flightsOfKeys_keys])
      refine fin s1 gs _ (xs ++ xs1) hk hrun1 hrel1
        ((RState.r7_act_send_same ra p m dst).r7_symm.trans (hsame.trans ⟨rfl, rfl, rfl, rfl⟩)) ?_ ?_ ?_ ?_
        (by rw [List.length_append]; omega)
      · rw [RState.r7_act_flights, hfl, List.map_append, List.append_assoc]
        show _ ++ (_ ++ ra.sendAdds p m dst) = _
        rw [hx1]
      · show (List.map Flight.key (flightsOfKeys _)).Perm _
        rw [flightsOfKeys_keys, List.flatMap_append, ← List.append_assoc]
        exact hperm.append_right _
      · intro x hx
        rcases List.mem_append.1 hx with hx | hx
        · exact hokx x hx
        · obtain ⟨o1, _, _, _, o2⟩ := hx2 x hx
          exact ⟨o1, fun hc => o2 (by rw [hcf]; exact hc)⟩
      · intro hc
        have hF := hff hc
        match xs1, hl1, hx2 with
        | [], _, _ => rw [List.append_nil]; exact hF
        | [x], _, hx2 =>
          obtain ⟨_, e1, e2, e3, _⟩ := hx2 x (by simp)
          have hk1 : x.f.key = (m, p, dst) := by simp [Flight.key, e1, e2, e3]
          have hk2 : x.f.ckey = (corruptMc m, p, dst) := by simp [Flight.ckey, e1, e2, e3]
          have hfs := hfr1
          simp only [freshSend] at hfs
          obtain ⟨f1, f2⟩ := hfs hc
          rw [hfl] at f1 f2
          rw [List.drop_left] at f2
          refine hF.snoc ?_ ?_
          · rw [hk1, hk2]; exact f1
          · rw [hk1, hk2]; exact f2
        | _ :: _ :: _, hl, _ => simp at hl
    | loc m =>
      obtain ⟨s1, hd, hrun1, hrel1⟩ := r7_act_sim_loc h hctxv m hrun
      exact nonsend (by intro _ _ hh; cases hh) s1 gs hd hrun1 hrel1
    | set name d once =>
      obtain ⟨s1, gs1, hd, hrun1, hrel1⟩ := r7_act_sim_set h hctxv name d once hthis.1 hthis.2 hrun
      exact nonsend (by intro _ _ hh; cases hh) s1 gs1 hd hrun1 hrel1
    | cancel name =>
      obtain ⟨s1, gs1, hd, hrun1, hrel1⟩ := r7_act_sim_cancel h hctxv name hrun
      exact nonsend (by intro _ _ hh; cases hh) s1 gs1 hd hrun1 hrel1

end R7Run

/-! # the handler tail -/
section R7Tail
variable {σ T : Type} [TimeOps T]

open Sim

variable [LawfulTime T] {bits : T → Nat}

/-- **the handler of `p` runs on both sides**; afterwards the reference run takes the fault paths of the fated flights
    (`fates_covered`): at most three fault labels per action of the call.  `M` bounds the number of actions of a call. -/
theorem r7_handler_tail (h : Handler σ) {s q' : Sim σ T} {r1 : RState σ} {gs1 : List (TimerGhost T)} {n p : Nat}
    {time : T} (hrel : TimedRelF bits s r1 gs1) (hctx : r1.Ctx n p)
    (hdraws : ∀ d ∈ s.draws, LawfulTime.isDraw d) (hlen : ∀ p st i, 7 * (h p st i).2.length ≤ s.draws.length)
    (haok : ∀ p st i, ∀ a ∈ (h p st i).2, ActOk bits r1.net.procLoc a) (i : Input)
    (hfresh : ∀ rp, amGet? p r1.procs = some rp → freshActs r1 p r1.flights.length (h p rp.st i).2)
    (M : Nat) (hM : ∀ p st i, (h p st i).2.length ≤ M)
    (hrun : runHandler (liftHandler h) n p time i s = .ok q') :
    ∃ rA ls r' gs', r1.react h p i = some rA ∧ (∀ l ∈ ls, l.isFault = true) ∧ ls.length ≤ 3 * M ∧
      (∀ mode, refRun h mode rA ls = some r') ∧ TimedRelF bits q' r' gs' ∧
      ∃ j, j ≤ 7 * M ∧ q'.draws = s.draws.drop j := by
  obtain ⟨hn, e, he⟩ := hrel.ctx hctx
  obtain ⟨nd, hnd, hpe⟩ := proc?_some he
  obtain ⟨st', acts, used, hout, hact⟩ := runHandler_ok _ n p time i s q' hnd hpe hrun
  simp only [liftHandler, Prod.mk.injEq] at hout
  obtain ⟨rfl, rfl, rfl⟩ := hout
  have hprocs : amGet? p r1.procs = some ⟨e.st, e.outbox⟩ := (hrel.proc.procs n p e he).1
  have hcr : r1.procCrashed p = false := RState.procCrashed_false_of hctx.1 hctx.2.2
  have relB := hrel.sameView (sameView_draws s (s.draws.drop 0))
  have relC := relB.updVisible (n := n) (p := p) (e := e) he (fun x => { x with st := (h p e.st i).1 })
    (fun rp => { rp with st := (h p e.st i).1 }) (fun _ => rfl) (fun _ => rfl)
  -- the reference state the actions start from
  obtain ⟨rb, hrb⟩ : ∃ rb : RState σ, rb = { r1 with procs := (r1.procs.map (fun (x : Nat × RProc σ) =>
      if x.1 = p then (x.1, { x.2 with st := (h p e.st i).1 }) else x)) } := ⟨_, rfl⟩
  have ctx2 : rb.Ctx n p := by
    rw [hrb]
    exact hctx.congr rfl (fun k => RState.isSome_map_upd r1.procs p (fun rp => { rp with st := (h p e.st i).1 }) k) rfl
  have hfr : freshActs rb p rb.flights.length (h p e.st i).2 := by
    have := hfresh _ hprocs
    rw [hrb]
    exact freshActs_congr _ r1 _ p _ rfl rfl rfl this
  rw [← hrb] at relC
  obtain ⟨gs', rv', xs', c1, c2, c3, c4, c5, c6, c7, j, c8, c9⟩ := r7_acts_sim (h p e.st i).2 _ rb rb gs1 [] rb.flights []
    relC (RState.SameButFlights.r7_refl _) ctx2 (by simp) (by simp) (by intro x hx; cases hx)
    (fun _ => ⟨(by intro x hx; cases hx), List.Pairwise.nil⟩) hfr (by simpa using hdraws)
    (by simpa using hlen p e.st i) (by rw [hrb]; exact haok p e.st i) hact
  have hreact : r1.react h p i = some (RState.acts rb p (h p e.st i).2) := by
    unfold RState.react
    rw [hprocs]
    simp only [hcr]
    rw [hrb]
    rfl
  obtain ⟨a1, a2, a3, a4, a5⟩ := RState.acts_eq rb p (h p e.st i).2
  have hsameA : (RState.actsAux p (h p e.st i).2 rb []).1.SameButFlights (rb.acts p (h p e.st i).2) :=
    ⟨a1, a4, a5, a2⟩
  -- the fault paths
  obtain ⟨ls, r', f1, f2, f3, f4, f5⟩ := fates_covered xs' (rb.acts p (h p e.st i).2) rb.flights []
    (by rw [a3, c3]; simp) (fun x hx => (c5 x hx).1)
    (by
      intro x hx hnt g hg
      cases hcf : rb.net.canFault with
      | true => exact (c6 hcf).old x hx g hg
      | false => exact absurd ((c5 x hx).2 hcf) hnt)
    (by intro x _ _ g hg; cases hg)
    (by
      cases hcf : rb.net.canFault with
      | true => exact List.Pairwise.imp (fun {a b} (hnc : ¬ a.f.clash b.f) _ => hnc) (c6 hcf).pair
      | false =>
        refine List.pairwise_of_forall_mem_list ?_
        intro x hx y hy hor
        rcases hor with hh | hh
        · exact absurd ((c5 x hx).2 hcf) hh
        · exact absurd ((c5 y hy).2 hcf) hh)
  refine ⟨_, ls, r', gs', hreact, f1, ?_, f3 h, ?_, j, ?_, ?_⟩
  · have := hM p e.st i
    have h2 : xs'.length ≤ (h p e.st i).2.length := by simpa using c7
    omega
  · refine TimedRelF.of_same ((c2.r7_symm.trans hsameA).trans f4) ?_ c1
    refine f5.trans ?_
    rw [List.map_nil, List.append_nil]
    exact c4.symm
  · have := hM p e.st i; omega
  · simpa using c9

end R7Tail

end Anysystem
