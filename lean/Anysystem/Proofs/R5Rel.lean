import Anysystem.Proofs.R5Defs
/-!
# R5, piece 2 — the timed relation holds between a simulator state and the reference state of its snapshot

To make this true, `TimedRel` (R4Defs) has to be generalised in two places (see the task description):
* the ghosts of the pending timers need not be in creation (id) order: it is enough that for two ghosts `a` before `b`
  the set clocks are non-decreasing and equal firing times are broken by id (`a.id < b.id`) — the snapshot lists the
  timers in `(time, id)` order, all with set clock = the clock at snapshot time and delay = the remaining time;
* the flights of the reference state are the deliverable queued copies up to order **and up to inert delivery
  options** (`Opts.inert`): the snapshot marks every in-flight message `noFail`.
-/
namespace Anysystem

variable {σ T : Type} [TimeOps T]

/-- the time laws the snapshot needs beyond `LawfulTime` (they hold for `Ticks`; for `f64` the second one fails in
    general, see finding D16) -/
structure SnapTimeLaws (bits : T → Nat) : Prop where
  bits_mono : ∀ x y : T, TimeOps.le x y = true → bits x ≤ bits y
  add_sub : ∀ c t : T, TimeOps.le c t = true → TimeOps.add c (TimeOps.sub t c) = t
  ofBits_bits : ∀ x : T, TimeOps.le TimeOps.zero x = true → TimeOps.ofBits (bits x) = x
  sub_nonneg : ∀ c t : T, TimeOps.le c t = true → TimeOps.le TimeOps.zero (TimeOps.sub t c) = true
  add_mono_left : ∀ a b c : T, TimeOps.le a b = true → TimeOps.le (TimeOps.add a c) (TimeOps.add b c) = true

/-- **the relation at snapshot time**: whatever reference state the run so far is related to, the simulator state is
    also related to the reference state of its snapshot -/
theorem timedRel_snapshot [LawfulTime T] (bits : T → Nat) (laws : SnapTimeLaws bits) (q : Sim σ T) (r : RState σ)
    (gs : List (TimerGhost T)) (hr : TimedRel bits q r gs) :
    ∃ gs₀, TimedRel bits q (snapshotRef bits q) gs₀ := sorry

/-- the relation does not look at the trace of the reference state -/
theorem TimedRel.withTrace (bits : T → Nat) (q : Sim σ T) (r : RState σ) (gs : List (TimerGhost T))
    (hr : TimedRel bits q r gs) (tr : List LogE) : TimedRel bits q { r with trace := tr } gs := sorry

/-- a reference step only appends to the trace and commutes with replacing it -/
theorem RState.step_withTrace (h : Handler σ) (r r' : RState σ) (l : Label) (tr : List LogE)
    (hs : r.step h l = some r') :
    ∃ ext, r'.trace = r.trace ++ ext ∧ ({ r with trace := tr } : RState σ).step h l = some { r' with trace := tr ++ ext } := sorry

end Anysystem
