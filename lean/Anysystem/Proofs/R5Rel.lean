import Anysystem.Proofs.R5Defs
import Anysystem.Proofs.DetThms
/-!
# R5, piece 2 — the timed relation holds between a simulator state and the reference state of its snapshot

To make this true, `TimedRel` (R4Defs) has been generalised in two places:
* the ghosts of the pending timers need not be in creation (id) order: it is enough that for two ghosts `a` before `b`
  the set clocks are non-decreasing and equal firing times are broken by id (`a.id < b.id`) — the snapshot lists the
  timers in `(time, id)` order, all with set clock = the clock at snapshot time and delay = the remaining time;
* the flights of the reference state are the deliverable queued copies up to order **and up to inert delivery
  options** (`Opts.inert`): the snapshot marks every in-flight message `noFail`.
  (R6: with an arbitrary drop rate the flights of the reference state may in addition contain *zombies*, and the options
  need only exclude duplication and corruption, `Opts.dropOnly`; the snapshot has no zombies — it takes over the
  deliverable queued copies only — and marks every flight `noFail`, so `timedRel_snapshot` is unchanged.)

`R4Defs` cannot use `Opts.inert` / `Flight.core` (they are defined in `R5Defs`, downstream of R4); it has the copies
`Opts.noFault` / `Flight.key` (`Opts.noFault_eq_inert`, `Flight.key_eq_core` below).  Further invariants the snapshot
needs and `TimedRel` now carries: every live timer event is addressed to a node with handler (`TimerRel.ghostsCover`
over all live events), `NetRel.handlersOk`, `NetRel.nodesSorted`.

* `timedRel_snapshot`         — the relation at snapshot time (ghosts: one per live timer event in `dumpEvents` order,
                                 set clock = now, delay = remaining time);
* `TimedRel.withTrace`, `RState.step_withTrace` — the trace of the reference state is irrelevant / only appended to;
* `ticks_snapTimeLaws` and the examples at the end — non-vacuity (`Ticks`, the demo state `q1` of `R4Demo`).
-/
namespace Anysystem

set_option linter.unusedSectionVars false
set_option linter.unusedVariables false
set_option linter.unusedSimpArgs false

variable {σ T : Type} [TimeOps T]

open Sim

/-- the time laws the snapshot needs beyond `LawfulTime` (they hold for `Ticks`; for `f64` the second one fails in
    general, see finding D16) -/
structure SnapTimeLaws (bits : T → Nat) : Prop where
  bits_mono : ∀ x y : T, TimeOps.le x y = true → bits x ≤ bits y
  add_sub : ∀ c t : T, TimeOps.le c t = true → TimeOps.add c (TimeOps.sub t c) = t
  ofBits_bits : ∀ x : T, TimeOps.le TimeOps.zero x = true → TimeOps.ofBits (bits x) = x
  sub_nonneg : ∀ c t : T, TimeOps.le c t = true → TimeOps.le TimeOps.zero (TimeOps.sub t c) = true
  add_mono_left : ∀ a b c : T, TimeOps.le a b = true → TimeOps.le (TimeOps.add a c) (TimeOps.add b c) = true

/-! ## the copies in `R4Defs` of the two definitions of `R5Defs` -/

theorem Opts.noFault_eq_inert (o : Opts) : o.noFault = o.inert := by
  cases o with
  | noFail d => rfl
  | faults a n c => cases a <;> cases n <;> cases c <;> rfl

theorem Flight.key_eq_core (f : Flight) : f.key = f.core := rfl

/-! ## lists -/

theorem filterMap_congr_mem {α β : Type} {f g : α → Option β} {l : List α} (h : ∀ x ∈ l, f x = g x) :
    l.filterMap f = l.filterMap g := by
  induction l with
  | nil => rfl
  | cons a l ih =>
    rw [List.filterMap_cons, List.filterMap_cons, h a List.mem_cons_self,
      ih (fun x hx => h x (List.mem_cons_of_mem _ hx))]

/-- the flights of a pending list built from a source list -/
theorem flightsOf_zipIdx {α : Type} (L : List α) (F : α → Ev) (n : Nat) :
    flightsOf ((L.zipIdx n).map (fun (e, i) => (i, F e))) =
      L.filterMap (fun e => match F e with | .msg m s d o => some (⟨m, s, d, o⟩ : Flight) | _ => none) := by
  induction L generalizing n with
  | nil => rfl
  | cons a l ih =>
    have ih' := ih (n + 1)
    unfold flightsOf at ih' ⊢
    rw [List.zipIdx_cons, List.map_cons, List.filterMap_cons, List.filterMap_cons, ih']
    dsimp only
    cases F a <;> rfl

/-- the timers of a pending list built from a source list -/
theorem timersOf_zipIdx_rel {α : Type} (L : List α) (F : α → Ev) (n : Nat) :
    timersOf ((L.zipIdx n).map (fun (e, i) => (i, F e))) =
      L.filterMap (fun e => match F e with | .timer p nm d => some (⟨p, nm, d⟩ : PTimer) | _ => none) := by
  induction L generalizing n with
  | nil => rfl
  | cons a l ih =>
    have ih' := ih (n + 1)
    unfold timersOf at ih' ⊢
    rw [List.zipIdx_cons, List.map_cons, List.filterMap_cons, List.filterMap_cons, ih']
    dsimp only
    cases F a <;> rfl

/-- two distinct members of a list are related one way or the other -/
theorem pairwise_mem_cases {α : Type} {R : α → α → Prop} {l : List α} (h : l.Pairwise R) {a b : α}
    (ha : a ∈ l) (hb : b ∈ l) (hne : a ≠ b) : R a b ∨ R b a := by
  induction l with
  | nil => cases ha
  | cons x l ih =>
    rw [List.pairwise_cons] at h
    rcases List.mem_cons.1 ha with rfl | ha' <;> rcases List.mem_cons.1 hb with rfl | hb'
    · exact absurd rfl hne
    · exact Or.inl (h.1 b hb')
    · exact Or.inr (h.1 a ha')
    · exact ih h.2 ha' hb'

/-! ## the snapshot's source list -/

/-- the ghost of a queued timer event at snapshot time: set now, with the remaining time as delay -/
def snapGhost (bits : T → Nat) (clock : T) (e : QEv T) : Option (TimerGhost T) :=
  match e.data with
  | .timer p name => some ⟨e.id, p, name, bits (TimeOps.sub e.time clock), clock⟩
  | .msg _ _ _ _ _ _ => none

theorem snapGhost_some {bits : T → Nat} {c : T} {e : QEv T} {g : TimerGhost T} (h : snapGhost bits c e = some g) :
    ∃ p name, e.data = .timer p name ∧ g = ⟨e.id, p, name, bits (TimeOps.sub e.time c), c⟩ := by
  unfold snapGhost at h
  cases hd : e.data with
  | msg mid m src sn dst dn => rw [hd] at h; cases h
  | timer p name => rw [hd] at h; exact ⟨p, name, rfl, (Option.some.inj h).symm⟩

/-- the crashed nodes as the snapshot computes them -/
def crashedList (q : Sim σ T) : List Nat := (q.nodes.filter (·.2.crashed)).map (·.1)

theorem snapshotSource_eq_filter (q : Sim σ T) : snapshotSource q = q.dumpEvents.filter (snapKeep (crashedList q)) := rfl

theorem mem_snapshotSource_rel (q : Sim σ T) (e : QEv T) :
    e ∈ snapshotSource q ↔ e ∈ q.live ∧ snapKeep (crashedList q) e = true := by
  rw [snapshotSource_eq_filter, List.mem_filter, mem_dumpEvents, mem_live]

/-- crashed (flag) = existing node without handler -/
theorem mem_crashedList (q : Sim σ T)
    (hhand : ∀ n, n ∈ q.handlers ↔ ∃ nd, amGet? n q.nodes = some nd ∧ nd.crashed = false)
    (hnodes : (q.nodes.map (·.1)).Nodup) (n : Nat) :
    n ∈ crashedList q ↔ (amHas n q.nodes = true ∧ ¬ n ∈ q.handlers) := by
  unfold crashedList
  simp only [List.mem_map, List.mem_filter]
  constructor
  · rintro ⟨x, ⟨hx, hxc⟩, rfl⟩
    have hg := amGet?_of_mem_nodup hnodes (k := x.1) (v := x.2) hx
    refine ⟨by rw [amHas_eq, hg]; rfl, ?_⟩
    intro hh
    obtain ⟨nd, h1, h2⟩ := (hhand x.1).1 hh
    rw [hg] at h1
    rw [Option.some.inj h1, h2] at hxc
    cases hxc
  · rintro ⟨hhas, hnh⟩
    rw [amHas_eq] at hhas
    cases hg : amGet? n q.nodes with
    | none => rw [hg] at hhas; cases hhas
    | some nd =>
      refine ⟨(n, nd), ⟨amGet?_eq_some_mem hg, ?_⟩, rfl⟩
      cases hc : nd.crashed with
      | true => rfl
      | false => exact absurd ((hhand n).2 ⟨nd, hg, hc⟩) hnh

theorem snapshotSource_perm (q : Sim σ T) : (snapshotSource q).Perm (q.live.filter (snapKeep (crashedList q))) := by
  rw [snapshotSource_eq_filter]
  exact (dumpEvents_perm_liveS q).filter _

theorem snapshotSource_ids_nodup_rel (q : Sim σ T) (hwf : q.QueueWF) : ((snapshotSource q).map (·.id)).Nodup := by
  have h1 : ((q.live.filter (snapKeep (crashedList q))).map (·.id)).Nodup :=
    (List.Sublist.map _ List.filter_sublist).nodup (ids_nodup_live q hwf)
  exact (((snapshotSource_perm q).map _).nodup_iff).2 h1

theorem snapshotSource_sorted [LawfulTime T] (q : Sim σ T) :
    (snapshotSource q).Pairwise (fun a b => evBefore b a = false) := by
  rw [snapshotSource_eq_filter]
  exact (dumpEvents_sorted q).sublist List.filter_sublist

/-- **the relation at snapshot time**: whatever reference state the run so far is related to, the simulator state is
    also related to the reference state of its snapshot -/
theorem timedRel_snapshot [LawfulTime T] (bits : T → Nat) (laws : SnapTimeLaws bits) (q : Sim σ T) (r : RState σ)
    (gs : List (TimerGhost T)) (hr : TimedRel bits q r gs) :
    ∃ gs₀, TimedRel bits q (snapshotRef bits q) gs₀ := by
  have hwf := hr.queue.queueWF
  have hhand := hr.net.handlersOk
  have hsorted := hr.net.nodesSorted
  have hnd : (q.nodes.map (·.1)).Nodup := hsorted.nodup
  have hcrl := mem_crashedList q hhand hnd
  have hloc : ∀ n nd p e, amGet? n q.nodes = some nd → amGet? p nd.procs = some e →
      amGet? p q.net.procLoc = some n := by
    intro n nd p e hn hp
    exact (hr.proc.procs n p e (by rw [proc?_eq hn]; exact hp)).2
  -- the time laws on the live events
  have htime : ∀ e ∈ q.live, TimeOps.le TimeOps.zero (TimeOps.sub e.time q.clock) = true ∧
      e.time = TimeOps.add q.clock (TimeOps.ofBits (bits (TimeOps.sub e.time q.clock))) := by
    intro e he
    have hc : TimeOps.le q.clock e.time = true := hr.queue.clockOk e ((mem_live q e).1 he).1
    have h0 := laws.sub_nonneg q.clock e.time hc
    exact ⟨h0, by rw [laws.ofBits_bits _ h0, laws.add_sub _ _ hc]⟩
  -- flights and timers of the snapshot, read off the source list
  have hflights : (snapshotRef bits q).flights = (snapshotSource q).filterMap (fun e =>
      match snapEv bits q.clock (snapshotNet bits q).maxDelay e with
      | .msg m s d o => some (⟨m, s, d, o⟩ : Flight) | _ => none) :=
    flightsOf_zipIdx (snapshotSource q) _ 0
  have htimers : (snapshotRef bits q).timers = (snapshotSource q).filterMap (fun e =>
      match snapEv bits q.clock (snapshotNet bits q).maxDelay e with
      | .timer p nm d => some (⟨p, nm, d⟩ : PTimer) | _ => none) :=
    timersOf_zipIdx_rel (snapshotSource q) _ 0
  -- members of the ghost list
  have hghost : ∀ g, g ∈ (snapshotSource q).filterMap (snapGhost bits q.clock) ↔
      ∃ e ∈ q.live, ∃ p name, e.data = .timer p name ∧
        g = ⟨e.id, p, name, bits (TimeOps.sub e.time q.clock), q.clock⟩ := by
    intro g
    rw [List.mem_filterMap]
    constructor
    · rintro ⟨e, he, hg⟩
      rw [mem_snapshotSource_rel] at he
      unfold snapGhost at hg
      cases hd : e.data with
      | msg mid m src sn dst dn => rw [hd] at hg; cases hg
      | timer p name =>
        rw [hd] at hg
        exact ⟨e, he.1, p, name, hd, (Option.some.inj hg).symm⟩
    · rintro ⟨e, he, p, name, hd, rfl⟩
      refine ⟨e, (mem_snapshotSource_rel q e).2 ⟨he, by simp [snapKeep, hd]⟩, ?_⟩
      simp [snapGhost, hd]
  have htm : (snapshotRef bits q).timers =
      ((snapshotSource q).filterMap (snapGhost bits q.clock)).map TimerGhost.toPTimer := by
    rw [htimers, List.map_filterMap]
    apply filterMap_congr_mem
    intro e _
    unfold snapEv snapGhost
    cases e.data <;> rfl
  -- ids of the source list are distinct, and it is sorted by `(time, id)`
  have hids : (snapshotSource q).Pairwise (fun a b => a.id ≠ b.id) :=
    List.pairwise_map.1 (snapshotSource_ids_nodup_rel q hwf)
  have hsrc : (snapshotSource q).Pairwise (fun a b =>
      (evBefore b a = false ∧ a.id ≠ b.id) ∧ a ∈ q.live ∧ b ∈ q.live) := by
    refine List.Pairwise.imp_of_mem ?_ ((snapshotSource_sorted q).and hids)
    intro a b ha hb hab
    exact ⟨hab, ((mem_snapshotSource_rel q a).1 ha).1, ((mem_snapshotSource_rel q b).1 hb).1⟩
  -- at most one live timer event per (process, name)
  have huniq : ∀ e1 ∈ q.live, ∀ e2 ∈ q.live, ∀ p name, e1.data = .timer p name → e2.data = .timer p name →
      e1.id = e2.id := by
    intro e1 h1 e2 h2 p name hd1 hd2
    have hdl1 : e1 ∈ q.deliverable := (mem_deliverable q e1).2 ⟨h1, hr.timer.timerLive hwf h1 hd1⟩
    have hdl2 : e2 ∈ q.deliverable := (mem_deliverable q e2).2 ⟨h2, hr.timer.timerLive hwf h2 hd2⟩
    obtain ⟨g1, hg1, hid1, hp1, hn1, _⟩ := ghost_of_timer hr hdl1 hd1
    obtain ⟨g2, hg2, hid2, hp2, hn2, _⟩ := ghost_of_timer hr hdl2 hd2
    by_cases hne : g1 = g2
    · rw [← hid1, ← hid2, hne]
    · exfalso
      have hu := hr.timer.uniq
      unfold RState.timersUnique at hu
      rw [hr.timer.timers, List.pairwise_map] at hu
      rcases pairwise_mem_cases hu hg1 hg2 hne with h | h
      · exact h ⟨by simp [TimerGhost.toPTimer, hp1, hp2], by simp [TimerGhost.toPTimer, hn1, hn2]⟩
      · exact h ⟨by simp [TimerGhost.toPTimer, hp1, hp2], by simp [TimerGhost.toPTimer, hn1, hn2]⟩
  refine ⟨(snapshotSource q).filterMap (snapGhost bits q.clock),
    netRel_snapshotNet bits q _ hr.net.ratesZero hr.net.locNodes hhand hsorted rfl hcrl,
    tprocRel_flat q _ hloc hnd rfl, hr.queue, ⟨?_, ?_, ?_, ?_, ?_, ?_, ?_, ?_, hr.timer.pendMap, ?_⟩, ⟨?_, ?_⟩⟩
  · exact htm
  · -- ghostsNodup
    show List.Pairwise (· ≠ ·) (List.map _ _)
    rw [List.pairwise_map]
    refine List.Pairwise.filterMap _ ?_ hids
    intro a a' hne b hb b' hb'
    obtain ⟨_, _, _, rfl⟩ := snapGhost_some hb
    obtain ⟨_, _, _, rfl⟩ := snapGhost_some hb'
    exact hne
  · -- ghostsTie: the source list is in `(time, id)` order
    refine List.Pairwise.filterMap _ ?_ hsrc
    rintro a a' ⟨⟨hbef, hne⟩, hla, hla'⟩ b hb b' hb' hfire
    obtain ⟨_, _, _, rfl⟩ := snapGhost_some hb
    obtain ⟨_, _, _, rfl⟩ := snapGhost_some hb'
    have hteq : a.time = a'.time := by
      rw [(htime a hla).2, (htime a' hla').2]; exact hfire
    obtain ⟨_, hle⟩ := (evBefore_eq_false_iff a' a).1 hbef
    have := hle (by rw [hteq]; exact LawfulTime.le_refl _)
    exact Nat.lt_of_le_of_ne this hne
  · -- ghostsCover
    intro e he p name hd
    exact ⟨_, (hghost _).2 ⟨e, he, p, name, hd, rfl⟩, rfl⟩
  · -- ghostsLive
    intro g hg
    obtain ⟨e, he, p, name, hd, rfl⟩ := (hghost g).1 hg
    exact ⟨e, (mem_deliverable q e).2 ⟨he, hr.timer.timerLive hwf he hd⟩, rfl, hd, (htime e he).2⟩
  · -- ghostClock
    intro g hg
    obtain ⟨e, he, p, name, hd, rfl⟩ := (hghost g).1 hg
    exact LawfulTime.le_refl _
  · -- ghostMono
    apply List.pairwise_of_forall_mem_list
    intro a ha b hb
    obtain ⟨e, he, p, name, hd, rfl⟩ := (hghost a).1 ha
    obtain ⟨e', he', p', name', hd', rfl⟩ := (hghost b).1 hb
    exact LawfulTime.le_refl _
  · -- ghostBits
    intro g hg
    obtain ⟨e, he, p, name, hd, rfl⟩ := (hghost g).1 hg
    show bits (TimeOps.ofBits (bits (TimeOps.sub e.time q.clock))) = bits (TimeOps.sub e.time q.clock)
    rw [laws.ofBits_bits _ (htime e he).1]
  · -- uniq
    unfold RState.timersUnique
    rw [htm, List.pairwise_map]
    refine List.Pairwise.filterMap _ ?_ hsrc
    rintro a a' ⟨⟨_, hne⟩, hla, hla'⟩ b hb b' hb' ⟨hp, hn⟩
    obtain ⟨p, name, hd, rfl⟩ := snapGhost_some hb
    obtain ⟨p', name', hd', rfl⟩ := snapGhost_some hb'
    simp only [TimerGhost.toPTimer] at hp hn
    subst hp hn
    exact hne (huniq a hla a' hla' _ _ hd hd')
  · -- flights, as a multiset of triples (the snapshot takes over the deliverable copies only: no zombies)
    refine ⟨[], ?_, fun _ => rfl⟩
    rw [List.append_nil]
    unfold liveKeys
    rw [hflights, List.map_filterMap]
    have h1 : (snapshotSource q).filterMap (fun e => Option.map Flight.key
        (match snapEv bits q.clock (snapshotNet bits q).maxDelay e with
          | .msg m s d o => some (⟨m, s, d, o⟩ : Flight) | _ => none)) =
        (snapshotSource q).filterMap (fun e => keyOfQ e.data) :=
      filterMap_congr_mem (fun e _ => by unfold snapEv keyOfQ; cases e.data <;> rfl)
    rw [h1]
    refine ((snapshotSource_perm q).filterMap _).trans ?_
    unfold deliverable
    rw [List.filterMap_filter, List.filterMap_filter]
    apply List.Perm.of_eq
    apply filterMap_congr_mem
    intro e he
    cases hd : e.data with
    | timer p name => simp [keyOfQ]
    | msg mid m src sn dst dn =>
      obtain ⟨hdn, hld, _⟩ := hr.queue.msgLoc e he mid m src sn dst dn hd
      have hhas := hr.net.locNodes dst dn hld
      have hk : snapKeep (crashedList q) e = q.handlers.contains e.dst := by
        simp only [snapKeep, hd]
        rw [hdn]
        by_cases hh : dn ∈ q.handlers
        · have : dn ∉ crashedList q := fun hc => ((hcrl dn).1 hc).2 hh
          simp [hh, this]
        · have : dn ∈ crashedList q := (hcrl dn).2 ⟨hhas, hh⟩
          simp [hh, this]
      rw [hk]
  · -- inert
    intro f hf
    rw [hflights, List.mem_filterMap] at hf
    obtain ⟨e, _, hfe⟩ := hf
    unfold snapEv at hfe
    cases hd : e.data with
    | msg mid m src sn dst dn => rw [hd] at hfe; cases hfe; rfl
    | timer p name => rw [hd] at hfe; cases hfe

/-- the relation does not look at the trace of the reference state -/
theorem TimedRel.withTrace (bits : T → Nat) (q : Sim σ T) (r : RState σ) (gs : List (TimerGhost T))
    (hr : TimedRel bits q r gs) (tr : List LogE) : TimedRel bits q { r with trace := tr } gs :=
  TimedRel.congr_r (r := r) (r' := { r with trace := tr }) rfl rfl rfl rfl rfl hr

/-! ## a reference step only appends to the trace and commutes with replacing it -/

namespace RState

theorem act_withTrace (r : RState σ) (p : Nat) (a : Action) :
    ∃ ext, (r.act p a).1.trace = r.trace ++ ext ∧
      ∀ tr, ({ r with trace := tr } : RState σ).act p a = ({ (r.act p a).1 with trace := tr ++ ext }, (r.act p a).2) := by
  cases a with
  | send m dst =>
    refine ⟨[LogE.sent m p dst], ?_, ?_⟩
    · simp only [act]
      split
      · split <;> rfl
      · rfl
      · rfl
    · intro tr
      simp only [act]
      split
      · show (if (r.procCrashed _ || r.procCrashed _) = true then _ else _) = _
        split <;> rfl
      · rfl
      · rfl
  | loc m => exact ⟨[LogE.lsent m p], rfl, fun tr => rfl⟩
  | set name delay once =>
    cases hb : (once && r.timerPending p name) with
    | true =>
      refine ⟨[], ?_, ?_⟩
      · simp [act, hb]
      · intro tr
        have hb' : (once && ({ r with trace := tr } : RState σ).timerPending p name) = true := hb
        simp [act, hb, hb']
    | false =>
      refine ⟨[LogE.tset p name], ?_, ?_⟩
      · simp [act, hb]
      · intro tr
        have hb' : (once && ({ r with trace := tr } : RState σ).timerPending p name) = false := hb
        simp only [act, hb, hb', Bool.false_eq_true, if_false]
        rfl
  | cancel name =>
    cases hb : r.timerPending p name with
    | true =>
      refine ⟨[LogE.tcancel p name], ?_, ?_⟩
      · simp [act, hb]
      · intro tr
        have hb' : ({ r with trace := tr } : RState σ).timerPending p name = true := hb
        simp only [act, hb, hb', if_true]
        rfl
    | false =>
      refine ⟨[], ?_, ?_⟩
      · simp [act, hb]
      · intro tr
        have hb' : ({ r with trace := tr } : RState σ).timerPending p name = false := hb
        simp [act, hb, hb']

theorem actsAux_withTrace (p : Nat) (as : List Action) : ∀ (r : RState σ) (late : List LogE),
    ∃ ext, (actsAux p as r late).1.trace = r.trace ++ ext ∧
      ∀ tr, actsAux p as { r with trace := tr } late =
        ({ (actsAux p as r late).1 with trace := tr ++ ext }, (actsAux p as r late).2) := by
  induction as with
  | nil => intro r late; exact ⟨[], by simp [actsAux], fun tr => by simp [actsAux]⟩
  | cons a rest ih =>
    intro r late
    obtain ⟨e1, h1, h2⟩ := act_withTrace r p a
    obtain ⟨e2, h3, h4⟩ := ih (r.act p a).1 (late ++ (r.act p a).2)
    refine ⟨e1 ++ e2, ?_, ?_⟩
    · rw [actsAux_cons, h3, h1, List.append_assoc]
    · intro tr
      rw [actsAux_cons, actsAux_cons, h2 tr]
      simp only
      rw [h4 (tr ++ e1), List.append_assoc]

theorem acts_withTrace (r : RState σ) (p : Nat) (as : List Action) :
    ∃ ext, (r.acts p as).trace = r.trace ++ ext ∧
      ∀ tr, ({ r with trace := tr } : RState σ).acts p as = { (r.acts p as) with trace := tr ++ ext } := by
  obtain ⟨e1, h1, h2⟩ := actsAux_withTrace p as r []
  refine ⟨e1 ++ (actsAux p as r []).2, ?_, ?_⟩
  · show (actsAux p as r []).1.trace ++ (actsAux p as r []).2 = _
    rw [h1, List.append_assoc]
  · intro tr
    show ({ (actsAux p as { r with trace := tr } []).1 with
      trace := (actsAux p as { r with trace := tr } []).1.trace ++ (actsAux p as { r with trace := tr } []).2 } : RState σ) = _
    rw [h2 tr]
    simp only [List.append_assoc]
    rfl

theorem react_withTrace (h : Handler σ) (r r' : RState σ) (p : Nat) (i : Input) (hs : r.react h p i = some r') :
    ∃ ext, r'.trace = r.trace ++ ext ∧
      ∀ tr, ({ r with trace := tr } : RState σ).react h p i = some { r' with trace := tr ++ ext } := by
  unfold react at hs
  cases hp : amGet? p r.procs with
  | none => rw [hp] at hs; cases hs
  | some e =>
    rw [hp] at hs
    simp only at hs
    by_cases hc : r.procCrashed p = true
    · rw [if_pos hc] at hs; cases hs
    · rw [if_neg hc] at hs
      have hs' := Option.some.inj hs
      obtain ⟨ext, h1, h2⟩ := acts_withTrace
        ({ r with procs := r.procs.map (fun (x : Nat × RProc σ) => if x.1 = p then (x.1, { x.2 with st := (h p e.st i).1 }) else x) } : RState σ)
        p (h p e.st i).2
      refine ⟨ext, ?_, ?_⟩
      · rw [← hs']; exact h1
      · intro tr
        have hp' : amGet? p ({ r with trace := tr } : RState σ).procs = some e := hp
        have hc' : ¬ ({ r with trace := tr } : RState σ).procCrashed p = true := hc
        unfold react
        rw [hp']
        simp only
        rw [if_neg hc', ← hs']
        exact congrArg some (h2 tr)

end RState

/-- a reference step only appends to the trace and commutes with replacing it -/
theorem RState.step_withTrace (h : Handler σ) (r r' : RState σ) (l : Label) (tr : List LogE)
    (hs : r.step h l = some r') :
    ∃ ext, r'.trace = r.trace ++ ext ∧ ({ r with trace := tr } : RState σ).step h l = some { r' with trace := tr ++ ext } := by
  cases l with
  | deliver i =>
    simp only [RState.step] at hs ⊢
    cases hf : r.flights[i]? with
    | none => rw [hf] at hs; cases hs
    | some f =>
      rw [hf] at hs
      simp only at hs ⊢
      obtain ⟨ext, h1, h2⟩ := RState.react_withTrace h _ r' f.dst (.msg f.m f.src) hs
      refine ⟨[LogE.recv f.m f.src f.dst] ++ ext, ?_, ?_⟩
      · rw [h1]; simp
      · have := h2 (tr ++ [LogE.recv f.m f.src f.dst])
        rw [List.append_assoc] at this
        exact this
  | fire j =>
    simp only [RState.step] at hs ⊢
    cases hf : r.timers[j]? with
    | none => rw [hf] at hs; cases hs
    | some t =>
      rw [hf] at hs
      simp only at hs ⊢
      obtain ⟨ext, h1, h2⟩ := RState.react_withTrace h _ r' t.proc (.timer t.name) hs
      refine ⟨[LogE.tfired t.proc t.name] ++ ext, ?_, ?_⟩
      · rw [h1]; simp
      · have := h2 (tr ++ [LogE.tfired t.proc t.name])
        rw [List.append_assoc] at this
        exact this
  | drop i =>
    simp only [RState.step] at hs ⊢
    split at hs
    · rename_i m s d _ _ hf
      cases hs
      exact ⟨[LogE.dropped m s d], rfl, rfl⟩
    · cases hs
  | dup i =>
    simp only [RState.step] at hs ⊢
    split at hs
    · rename_i m s d a n c hf
      cases hs
      exact ⟨[LogE.duplicated m s d], rfl, rfl⟩
    · cases hs
  | corrupt i =>
    simp only [RState.step] at hs ⊢
    split at hs
    · rename_i m s d a n hf
      cases hs
      exact ⟨[LogE.corrupted m (corruptMc m) s d], rfl, rfl⟩
    · cases hs

/-! ## Non-vacuity -/

/-- the snapshot time laws hold for `Ticks` with the `bits` of `R4Demo` -/
theorem ticks_snapTimeLaws : SnapTimeLaws R4Demo.bitsT where
  bits_mono := by
    intro x y h
    simpa [TimeOps.le, R4Demo.bitsT] using h
  add_sub := by
    intro c t h
    simp only [TimeOps.le, decide_eq_true_eq] at h
    show (⟨c.n + (t.n - c.n)⟩ : Ticks) = t
    cases t with
    | mk n => simp only at h ⊢; congr 1; omega
  ofBits_bits := by
    intro x _
    cases x; rfl
  sub_nonneg := by
    intro c t _
    simp [TimeOps.le, TimeOps.zero]
  add_mono_left := by
    intro a b c h
    simp only [TimeOps.le, TimeOps.add, decide_eq_true_eq] at h ⊢
    omega

example : SnapTimeLaws R4Demo.bitsT := ticks_snapTimeLaws

/-- the demo state `q1` of `R4Demo` (one queued timer, one queued message) is related to the reference state of its
    snapshot: the hypothesis of `timedRel_snapshot` is satisfiable with a non-empty queue -/
example : ∃ gs₀, TimedRel R4Demo.bitsT R4Demo.q1 (snapshotRef R4Demo.bitsT R4Demo.q1) gs₀ := by
  obtain ⟨r, gs, hrel, _⟩ := R4Demo.demo_hyps
  exact timedRel_snapshot R4Demo.bitsT ticks_snapTimeLaws R4Demo.q1 r gs hrel

/-- the snapshot of `q1` stands for one in-flight message and one pending timer with remaining time 5 -/
example : (snapshotRef R4Demo.bitsT R4Demo.q1).timers = [⟨1, 1, 5⟩] ∧
    (snapshotRef R4Demo.bitsT R4Demo.q1).flights.map Flight.core = [(⟨0, []⟩, 1, 1)] := by decide

end Anysystem
