import Anysystem.Proofs.SimTraceInv
import Anysystem.Proofs.SimRunThms
import Anysystem.Proofs.SimStepThms
import Anysystem.Proofs.SimDeliveryLemmas
/-!
# C05 — between live nodes nothing is lost silently: every send ends with exactly one recorded fate

While no node is down (every process lives on a node with a handler) and the duplication rate is zero, a run of the simulator keeps,
for every message identifier issued, *exactly one* of: a live queued copy, a `MessageReceived` entry, a `MessageDropped` entry
(`ExactFate`).  Hence, once the queue has run dry (`step_until_no_events`), every message sent has been received or was recorded as
dropped — and a message that was not dropped when it was sent (drop rate zero, enabled path: `send_drop_zero_delivers`) has been
received, exactly once.

`ExactFate` also carries the two queue facts without which "exactly one" is not an invariant: no event id is cancelled before it
is issued (otherwise a fresh copy is dead on arrival), and the pending-timer tables of the processes point at issued ids that no
message copy carries (otherwise `cancel_timer` cancels a message).  Both hold initially and are kept by every step.
-/
namespace Anysystem

set_option linter.unusedSectionVars false

variable {σ T : Type} [TimeOps T]

namespace Sim

/-- no node is down: every located process lives on a node with a handler, and every queued event is addressed to such a node -/
structure AllUp (s : Sim σ T) : Prop where
  procs : ∀ p n, amGet? p s.net.procLoc = some n → n ∈ s.handlers
  queued : ∀ e ∈ s.events, e.dst ∈ s.handlers

/-- the global-trace invariant, with "at most one" sharpened to "exactly one" for every issued identifier -/
structure ExactFate (s : Sim σ T) : Prop where
  inv : s.TraceInv []
  exact : ∀ mid, mid < s.net.messageCount → s.fates mid + s.queuedCopies mid = 1
  /-- only issued event ids are cancelled -/
  cancels : ∀ id ∈ s.canceled, id < s.eventCount
  /-- pending-timer tables point at issued ids that no queued message copy carries (`TimersOk`, `SimDeliveryLemmas.lean`) -/
  timers : s.TimersOk

/-- number of `MessageReceived` / `MessageDropped` entries with this identifier -/
def recvCount (s : Sim σ T) (mid : Nat) : Nat :=
  (s.trace.filter fun x => match x with | .recv _ m _ _ _ _ _ => m == mid | _ => false).length
def dropCount (s : Sim σ T) (mid : Nat) : Nat :=
  (s.trace.filter fun x => match x with | .dropped _ m _ _ _ _ _ => m == mid | _ => false).length

theorem fates_eq (s : Sim σ T) (mid : Nat) : s.fates mid = s.recvCount mid + s.dropCount mid := by
  unfold fates recvCount dropCount
  apply length_filter_split
  intro x _
  cases x <;> simp [SLog.fateOf]

theorem ExactFate.init (clock : T) (net : SimNet T) (draws : List T)
    (hn : net.messageCount = 0 ∧ net.networkMessageCount = 0 ∧ net.traffic = 0) :
    ({ clock := clock, net := net, draws := draws } : Sim σ T).ExactFate where
  inv := TraceInv.init clock net draws hn
  exact := by intro mid h; rw [hn.1] at h; cases h
  cancels := by intro id h; cases h
  timers := by intro n p e name id h; simp [proc?, amGet?] at h

/-! ### a send -/

/-- shape of a send with the duplication rate zero: one `sent` entry with the next identifier, then entries `rest`, new events
    `new` with fresh ids, all copies of that identifier, and exactly one fate or copy among `rest` and `new` -/
theorem ExactFate.send_shape {s s' : Sim σ T} (hi : s.ExactFate) (x : SLog T) (rest : List (SLog T)) (new : List (QEv T))
    (hinv : s'.TraceInv []) (htr : s'.trace = s.trace ++ x :: rest) (hev : s'.events = s.events ++ new)
    (hc : s'.canceled = s.canceled)
    (hnew : ∀ e ∈ new, e.data.mid? = some s.net.messageCount ∧ s.eventCount ≤ e.id)
    (hec : s.eventCount ≤ s'.eventCount) (hm : s'.net.messageCount = s.net.messageCount + 1)
    (hone : 1 ≤ (rest.filter (fun y => y.fateOf == some s.net.messageCount)).length + new.length)
    (hnodes : s'.nodes = s.nodes) : s'.ExactFate := by
  have hq : ∀ mid, s'.queuedCopies mid = s.queuedCopies mid + (new.filter (fun e => e.data.mid? == some mid)).length := by
    intro mid
    unfold queuedCopies
    rw [hev, hc, List.filter_append, List.length_append]
    congr 2
    apply List.filter_congr
    intro e he
    have hlive : s.canceled.contains e.id = false := by
      simp only [List.contains_eq_mem, decide_eq_false_iff_not]
      intro hin
      have := hi.cancels _ hin
      have := (hnew e he).2
      omega
    rw [hlive]
    rfl
  have hf : ∀ mid, s'.fates mid = s.fates mid + ((x :: rest).filter (fun y => y.fateOf == some mid)).length :=
    fates_of_trace (x :: rest) htr
  have hfr : (rest.filter (fun y => y.fateOf == some s.net.messageCount)).length ≤
      ((x :: rest).filter (fun y => y.fateOf == some s.net.messageCount)).length := by
    rw [List.filter_cons]
    split
    · exact Nat.le_succ _
    · exact Nat.le_refl _
  have hall : new.filter (fun e => e.data.mid? == some s.net.messageCount) = new := by
    apply List.filter_eq_self.2
    intro e he
    simp [(hnew e he).1]
  refine ⟨hinv, ?_, ?_, ?_⟩
  · intro mid hmid
    have hup := hinv.fateOnce mid (List.not_mem_nil)
    have h1 := hf mid
    have h2 := hq mid
    by_cases hmc : mid = s.net.messageCount
    · subst hmc
      rw [hall] at h2
      omega
    · have := hi.exact mid (by omega)
      omega
  · intro id hid
    rw [hc] at hid
    exact Nat.lt_of_lt_of_le (hi.cancels id hid) hec
  · intro n p e name id hp hg
    rw [proc?_of_nodes hnodes] at hp
    refine (hi.timers n p e name id hp hg).of_le hec ?_
    intro ev hev'
    rw [hev, List.mem_append] at hev'
    rcases hev' with h | h
    · exact .inl h
    · exact .inr (hnew ev h).2

/-- one `send_message` while duplication is off, with its frame: handlers, process locations and rates are untouched, and the
    new events are addressed to the node of the destination process -/
theorem sendMessage_exact [LawfulTime T] {s s' : Sim σ T} (m : Msg) (src dst : Nat)
    (hi : s.ExactFate) (hz : TimeOps.lt TimeOps.zero s.net.duplRate = false)
    (hd : ∀ d ∈ s.draws, LawfulTime.isDraw d) (hzero : LawfulTime.isDraw (TimeOps.zero : T))
    (hok : s.sendMessage m src dst (nameLen m.tip) = .ok s') :
    s'.ExactFate ∧ s'.handlers = s.handlers ∧ s'.net.procLoc = s.net.procLoc ∧ s'.net.duplRate = s.net.duplRate ∧
      (∀ d ∈ s'.draws, d ∈ s.draws) ∧
      ∃ dn, amGet? dst s.net.procLoc = some dn ∧ ∀ e ∈ s'.events, e ∈ s.events ∨ e.dst = dn := by
  obtain ⟨hinv0, hdup, hdraws⟩ := hi.inv.sendMessage_full m src dst hd hzero hok
  have hinv : s'.TraceInv [] := by
    rw [hz] at hinv0
    simpa using hinv0
  obtain ⟨sn, dn, hs, hdl⟩ := sendMessage_ok_loc hok
  refine ⟨?_, ?_, ?_, hdup, hdraws, dn, hdl, ?_⟩
  · -- exactness
    by_cases hne : sn = dn
    · subst hne
      rw [sendMessage_same s m src dst sn _ hs hdl] at hok
      have hs' := (Except.ok.inj hok).symm
      subst hs'
      exact hi.send_shape (.sent s.clock s.net.messageCount sn src sn dst m) []
        [⟨s.eventCount, TimeOps.add s.clock TimeOps.zero, sn, sn, .msg s.net.messageCount m src sn dst sn⟩]
        hinv rfl rfl rfl (by simp [QData.mid?]) (Nat.le_succ _) rfl (by simp) rfl
    · rw [sendMessage_cross s m src dst sn dn _ hs hdl hne] at hok
      have hs' := (Except.ok.inj hok).symm
      clear hok
      cases hdr : s.sendDropped sn dn with
      | true =>
        rw [cross_dropped _ _ _ _ _ _ _ hdr] at hs'
        subst hs'
        exact hi.send_shape (.sent s.clock s.net.messageCount sn src dn dst m)
          [.dropped s.clock s.net.messageCount sn src dn dst m] []
          hinv rfl (by simp) rfl (by simp) (Nat.le_refl _) rfl (by simp [SLog.fateOf]) rfl
      | false =>
        rw [cross_passed _ _ _ _ _ _ _ hdr] at hs'
        subst hs'
        have hcnt := sendCount_bounds' s hd hzero
        refine hi.send_shape (.sent s.clock s.net.messageCount sn src dn dst m) []
          ((List.range s.sendCount).map
            (copyEv s (.msg s.net.messageCount (s.sendPayload m) src sn dst dn) sn dn s.sendBase))
          hinv rfl rfl rfl ?_ (Nat.le_add_right _ _) rfl (by simpa using hcnt.1) rfl
        intro e he
        obtain ⟨i, _, rfl⟩ := List.mem_map.1 he
        exact ⟨rfl, Nat.le_add_right _ _⟩
  · by_cases hne : sn = dn
    · subst hne
      rw [sendMessage_same s m src dst sn _ hs hdl] at hok
      cases hok; rfl
    · rw [sendMessage_cross s m src dst sn dn _ hs hdl hne] at hok
      cases hok
      unfold crossResult
      split <;> rfl
  · by_cases hne : sn = dn
    · subst hne
      rw [sendMessage_same s m src dst sn _ hs hdl] at hok
      cases hok; rfl
    · rw [sendMessage_cross s m src dst sn dn _ hs hdl hne] at hok
      cases hok
      unfold crossResult
      split <;> rfl
  · by_cases hne : sn = dn
    · subst hne
      rw [sendMessage_same s m src dst sn _ hs hdl] at hok
      cases hok
      intro e he
      simp only [List.mem_append, List.mem_singleton] at he
      rcases he with h | rfl
      · exact .inl h
      · exact .inr rfl
    · rw [sendMessage_cross s m src dst sn dn _ hs hdl hne] at hok
      cases hok
      unfold crossResult
      split
      · intro e he; exact .inl he
      · intro e he
        simp only [List.mem_append, List.mem_map] at he
        rcases he with h | ⟨i, _, rfl⟩
        · exact .inl h
        · exact .inr rfl

/-- one `send_message` while duplication is off -/
theorem ExactFate.sendMessage [LawfulTime T] {s s' : Sim σ T} (m : Msg) (src dst : Nat)
    (hi : s.ExactFate) (hz : TimeOps.lt TimeOps.zero s.net.duplRate = false)
    (hd : ∀ d ∈ s.draws, LawfulTime.isDraw d) (hzero : LawfulTime.isDraw (TimeOps.zero : T))
    (hok : s.sendMessage m src dst (nameLen m.tip) = .ok s') : s'.ExactFate :=
  (sendMessage_exact m src dst hi hz hd hzero hok).1

/-! ### the context carried through a handler run -/

/-- everything a step needs and keeps: `ExactFate`, no node down (handler set `H`, process locations `PL`, queued events
    addressed to `H`), duplication off, lawful draws -/
structure Ctx [LawfulTime T] (H : List Nat) (PL : List (Nat × Nat)) (s : Sim σ T) : Prop where
  ef : s.ExactFate
  queued : ∀ e ∈ s.events, e.dst ∈ H
  handlers : s.handlers = H
  procLoc : s.net.procLoc = PL
  hz : TimeOps.lt TimeOps.zero s.net.duplRate = false
  draws : ∀ d ∈ s.draws, LawfulTime.isDraw d

section ctx
variable [LawfulTime T] {H : List Nat} {PL : List (Nat × Nat)}

theorem Ctx.of_keep {s s' : Sim σ T} (k : Keep H s s') (c : Ctx H PL s) : Ctx H PL s' := by
  refine ⟨⟨c.ef.inv.of_le k.le, ?_, k.cancels c.ef.cancels, k.timers c.ef.timers⟩, k.queued c.queued,
    k.handlers.trans c.handlers, by rw [k.le.net]; exact c.procLoc, by rw [k.le.net]; exact c.hz,
    fun d hd => c.draws d (k.le.draws d hd)⟩
  intro mid hm
  rw [k.le.net] at hm
  have h1 := k.le.load mid
  have h2 := k.ge mid
  have h3 := c.ef.exact mid hm
  omega

theorem Ctx.updProc' {s : Sim σ T} (n p : Nat) (f : SProc σ T → SProc σ T) (hf : ∀ e, (f e).pending = e.pending)
    (c : Ctx H PL s) : Ctx H PL (s.updProc n p f) := c.of_keep (Keep.updProc' s n p f hf)

theorem Ctx.log {s : Sim σ T} (x : SLog T) (hx : x.sentId = none ∧ x.fateOf = none) (c : Ctx H PL s) :
    Ctx H PL (s.log x) := c.of_keep (Keep.log s x hx)

theorem Ctx.setLocalCount {s : Sim σ T} (n : Nat) {nd : SNode σ T} (hn : amGet? n s.nodes = some nd) (k : Nat)
    (c : Ctx H PL s) : Ctx H PL (s.setNode n { nd with localCount := k }) := c.of_keep (Keep.setLocalCount s n hn k)

theorem Ctx.dropDraws {s : Sim σ T} (k : Nat) (c : Ctx H PL s) : Ctx H PL { s with draws := s.draws.drop k } :=
  c.of_keep (Keep.dropDraws s k)

theorem Ctx.cancelEvent {s : Sim σ T} (id : Nat) (hid : s.TimerId id) (c : Ctx H PL s) : Ctx H PL (s.cancelEvent id) :=
  c.of_keep (Keep.cancelEvent s id hid)

/-- erasing a pending entry -/
theorem Ctx.erasePending {s : Sim σ T} (n p name : Nat) (c : Ctx H PL s) :
    Ctx H PL (s.updProc n p fun e => { e with pending := amErase name e.pending }) := by
  refine c.of_keep (Keep.updProc s n p _ ?_)
  intro e nm id h
  simp only [amGet?_amErase] at h
  split at h
  · cases h
  · exact .inl h

/-- queueing a timer for a node of `H` and recording its id in the pending table -/
theorem Ctx.setTimer {s : Sim σ T} (n p name : Nat) (d : T) (hn : n ∈ H) (c : Ctx H PL s) :
    Ctx H PL ((s.addEvent (.timer p name) n n d).1.updProc n p
      fun e => { e with pending := amInsert natLt name (s.addEvent (.timer p name) n n d).2 e.pending }) := by
  have c1 : Ctx H PL (s.addEvent (.timer p name) n n d).1 := c.of_keep (Keep.addTimer s p name n n d hn)
  refine c1.of_keep (Keep.updProc _ n p _ ?_)
  intro e nm id h
  simp only [amGet?_amInsert] at h
  split at h
  · cases h
    exact .inr (timerId_addTimer s c.ef.inv.qids p name n n d)
  · exact .inl h

/-- `send_message` inside a handler run -/
theorem Ctx.sendMessage {s s' : Sim σ T} (hzero : LawfulTime.isDraw (TimeOps.zero : T))
    (hprocs : ∀ p n, amGet? p PL = some n → n ∈ H) (m : Msg) (src dst : Nat) (c : Ctx H PL s)
    (hok : s.sendMessage m src dst (nameLen m.tip) = .ok s') : Ctx H PL s' := by
  obtain ⟨hef, hh, hpl, hdr, hdraws, dn, hdl, hev⟩ := sendMessage_exact m src dst c.ef c.hz c.draws hzero hok
  refine ⟨hef, ?_, hh.trans c.handlers, hpl.trans c.procLoc, by rw [hdr]; exact c.hz,
    fun d hd => c.draws d (hdraws d hd)⟩
  intro e he
  rcases hev e he with h | h
  · exact c.queued e h
  · rw [h]
    exact hprocs dst dn (by rw [← c.procLoc]; exact hdl)

/-- `handle_process_actions` of a process on a node of `H` -/
theorem handleActions_ctx (hzero : LawfulTime.isDraw (TimeOps.zero : T)) (hprocs : ∀ p n, amGet? p PL = some n → n ∈ H)
    (n p : Nat) (time : T) (hn : n ∈ H) (acts : List Action) : ∀ (s s' : Sim σ T), Ctx H PL s →
    handleActions n p time acts s = .ok s' → Ctx H PL s' := by
  induction acts with
  | nil =>
    intro s s' c h
    simp only [handleActions, Except.ok.injEq] at h
    subst h
    exact c
  | cons a rest ih =>
    intro s s' c h
    cases a with
    | send m dst =>
      simp only [handleActions] at h
      split at h
      · cases h
      · rename_i s1 hs1
        refine ih _ s' ?_ h
        refine Ctx.updProc' n p _ (fun _ => rfl) ?_
        refine Ctx.sendMessage hzero hprocs m p dst ?_ hs1
        exact Ctx.updProc' n p _ (fun _ => rfl) c
    | loc m =>
      simp only [handleActions] at h
      split at h
      · cases h
      · split at h
        · cases h
        · rename_i nd2 hnd2
          refine ih _ s' ?_ h
          apply Ctx.setLocalCount n (nodeOf_ok hnd2)
          apply Ctx.log _ ⟨rfl, rfl⟩
          exact Ctx.updProc' n p _ (fun _ => rfl) c
    | set name delay once =>
      simp only [handleActions] at h
      have c0 : Ctx H PL (s.updProc n p fun e => { e with log := e.log ++ [⟨time, .tset name delay once⟩] }) :=
        Ctx.updProc' n p _ (fun _ => rfl) c
      split at h
      · cases h
      · rename_i nd hnd
        split at h
        · cases h
        · rename_i e he
          have hp := (proc?_eq (p := p) (nodeOf_ok hnd)).trans he
          split at h
          · rename_i oldId hold
            split at h
            · exact ih _ s' c0 h
            · refine ih _ s' ?_ h
              apply Ctx.log _ ⟨rfl, rfl⟩
              apply Ctx.setTimer n p name _ hn
              exact Ctx.cancelEvent oldId (c0.ef.timers n p e name oldId hp hold) c0
          · refine ih _ s' ?_ h
            apply Ctx.log _ ⟨rfl, rfl⟩
            exact Ctx.setTimer n p name _ hn c0
    | cancel name =>
      simp only [handleActions] at h
      have c0 : Ctx H PL (s.updProc n p fun e => { e with log := e.log ++ [⟨time, .tcancel name⟩] }) :=
        Ctx.updProc' n p _ (fun _ => rfl) c
      split at h
      · cases h
      · rename_i nd hnd
        split at h
        · cases h
        · rename_i e he
          have hp := (proc?_eq (p := p) (nodeOf_ok hnd)).trans he
          split at h
          · rename_i id hold
            refine ih _ s' ?_ h
            have hid := c0.ef.timers n p e name id hp hold
            apply Ctx.cancelEvent id (hid.of_eq (by simp [Sim.log]) (by simp [Sim.log]))
            apply Ctx.log _ ⟨rfl, rfl⟩
            exact Ctx.erasePending n p name c0
          · exact ih _ s' c0 h

theorem runHandler_ctx (hzero : LawfulTime.isDraw (TimeOps.zero : T)) (hprocs : ∀ p n, amGet? p PL = some n → n ∈ H)
    (h : SHandler σ T) (n p : Nat) (time : T) (i : Input) (hn : n ∈ H) {s s' : Sim σ T} (c : Ctx H PL s)
    (hok : runHandler h n p time i s = .ok s') : Ctx H PL s' := by
  cases hnd : amGet? n s.nodes with
  | none => simp [Sim.runHandler, nodeOf, hnd] at hok
  | some nd =>
    cases he : amGet? p nd.procs with
    | none => simp [Sim.runHandler, nodeOf, hnd, he] at hok
    | some e =>
      obtain ⟨st', acts, used, _, hact⟩ := runHandler_ok h n p time i s s' hnd he hok
      refine handleActions_ctx hzero hprocs n p time hn acts _ s' ?_ hact
      refine Ctx.updProc' n p _ (fun _ => rfl) ?_
      exact Ctx.dropDraws used c

/-- `on_message_received`, given the context for the state in which the `MessageReceived` entry is already logged -/
theorem onMessage_ctx (hzero : LawfulTime.isDraw (TimeOps.zero : T)) (hprocs : ∀ p n, amGet? p PL = some n → n ∈ H)
    (h : SHandler σ T) (n mid p : Nat) (m : Msg) (src srcNode : Nat) (hn : n ∈ H) {s s' : Sim σ T}
    (c : Ctx H PL (s.log (.recv s.clock mid srcNode src n p m)))
    (hok : onMessage h n mid p m src srcNode s = .ok s') : Ctx H PL s' := by
  unfold Sim.onMessage at hok
  split at hok
  · cases hok
  · split at hok
    · cases hok
    · refine runHandler_ctx hzero hprocs h n p _ _ hn ?_ hok
      exact Ctx.updProc' n p _ (fun _ => rfl) c

theorem onTimer_ctx (hzero : LawfulTime.isDraw (TimeOps.zero : T)) (hprocs : ∀ p n, amGet? p PL = some n → n ∈ H)
    (h : SHandler σ T) (n p name : Nat) (hn : n ∈ H) {s s' : Sim σ T} (c : Ctx H PL s)
    (hok : onTimer h n p name s = .ok s') : Ctx H PL s' := by
  unfold Sim.onTimer at hok
  split at hok
  · cases hok
  · split at hok
    · cases hok
    · refine runHandler_ctx hzero hprocs h n p _ _ hn ?_ hok
      split
      · apply Ctx.log _ ⟨rfl, rfl⟩
        apply Ctx.erasePending n p name
        exact Ctx.updProc' n p _ (fun _ => rfl) c
      · exact Ctx.updProc' n p _ (fun _ => rfl) c

theorem onLocal_ctx (hzero : LawfulTime.isDraw (TimeOps.zero : T)) (hprocs : ∀ p n, amGet? p PL = some n → n ∈ H)
    (h : SHandler σ T) (n p : Nat) (m : Msg) (hn : n ∈ H) {s s' : Sim σ T} (c : Ctx H PL s)
    (hok : onLocal h n p m s = .ok s') : Ctx H PL s' := by
  unfold Sim.onLocal at hok
  split at hok
  · cases hok
  · rename_i nd hnd
    split at hok
    · cases hok
    · refine runHandler_ctx hzero hprocs h n p _ _ hn ?_ hok
      refine Ctx.updProc' n p _ (fun _ => rfl) ?_
      apply Ctx.setLocalCount (s := s.log _) n (nodeOf_ok hnd)
      exact Ctx.log _ ⟨rfl, rfl⟩ c

/-- delivering the popped event: it is addressed to a node with a handler, so it is handled -/
theorem deliver_ctx (hzero : LawfulTime.isDraw (TimeOps.zero : T)) (hprocs : ∀ p n, amGet? p PL = some n → n ∈ H)
    (h : SHandler σ T) (fuel : Nat) {s s1 s' : Sim σ T} {e : QEv T} (c : Ctx H PL s)
    (hpop : nextEvent fuel s = (some e, s1)) (hok : deliver h e s1 = .ok s') : Ctx H PL s' := by
  obtain ⟨_, _, _, _, _, h6, _, h8, _⟩ := nextEvent_frame fuel s s1 _ hpop
  have hmem : e ∈ s.events := ((mem_liveOf s e).1 (h8 e rfl).1).1
  have hdst : e.dst ∈ H := c.queued e hmem
  unfold Sim.deliver at hok
  split at hok
  · rename_i hno
    rw [h6, c.handlers] at hno
    simp [hdst] at hno
  · split at hok
    · rename_i mid m src sn dst dn hdat
      have k : Keep H s (s1.log (.recv s1.clock mid sn src e.dst dst m)) :=
        Keep.pop_fate c.ef.inv.qids hpop mid (by rw [hdat]; rfl) _ rfl rfl
      exact onMessage_ctx hzero hprocs h e.dst mid dst m src sn hdst (c.of_keep k) hok
    · rename_i q nm hdat
      have k : Keep H s s1 := Keep.pop c.ef.inv.qids hpop (by
        intro e' he'
        cases he'
        rw [hdat]; rfl)
      exact onTimer_ctx hzero hprocs h _ _ _ hdst (c.of_keep k) hok

theorem step_ctx (hzero : LawfulTime.isDraw (TimeOps.zero : T)) (hprocs : ∀ p n, amGet? p PL = some n → n ∈ H)
    (h : SHandler σ T) {s s' : Sim σ T} (b : Bool) (c : Ctx H PL s) (hok : s.step h = .ok (b, s')) : Ctx H PL s' := by
  unfold Sim.step at hok
  split at hok
  · rename_i s1 heq
    cases hok
    exact c.of_keep (Keep.pop c.ef.inv.qids heq (by intro e he; cases he))
  · rename_i e s1 heq
    split at hok
    · cases hok
    · rename_i s2 hdel
      cases hok
      exact deliver_ctx hzero hprocs h _ c heq hdel

theorem steps_ctx (hzero : LawfulTime.isDraw (TimeOps.zero : T)) (hprocs : ∀ p n, amGet? p PL = some n → n ∈ H)
    (h : SHandler σ T) (k : Nat) : ∀ {s s' : Sim σ T} (b : Bool), Ctx H PL s → s.steps h k = .ok (b, s') →
    Ctx H PL s' := by
  induction k with
  | zero =>
    intro s s' b c hok
    simp only [Sim.steps, Except.ok.injEq, Prod.mk.injEq] at hok
    obtain ⟨_, rfl⟩ := hok
    exact c
  | succ k ih =>
    intro s s' b c hok
    simp only [Sim.steps] at hok
    split at hok
    · cases hok
    · rename_i s1 hst
      cases hok
      exact step_ctx hzero hprocs h false c hst
    · rename_i s1 hst
      exact ih b (step_ctx hzero hprocs h true c hst) hok

theorem stepUntilNoEvents_ctx (hzero : LawfulTime.isDraw (TimeOps.zero : T))
    (hprocs : ∀ p n, amGet? p PL = some n → n ∈ H) (h : SHandler σ T) (fuel : Nat) :
    ∀ {s s' : Sim σ T}, Ctx H PL s → stepUntilNoEvents h fuel s = some (.ok s') → Ctx H PL s' ∧ s'.events = [] := by
  induction fuel with
  | zero => intro s s' _ hrun; simp [stepUntilNoEvents] at hrun
  | succ f ih =>
    intro s s' c hrun
    simp only [stepUntilNoEvents] at hrun
    split at hrun
    · cases hrun
    · rename_i s1 hstep
      cases hrun
      exact ⟨step_ctx hzero hprocs h false c hstep, step_false_events h s s' hstep⟩
    · rename_i s1 hstep
      exact ih (step_ctx hzero hprocs h true c hstep) hrun

theorem sendLocal_ctx (hzero : LawfulTime.isDraw (TimeOps.zero : T)) (hprocs : ∀ p n, amGet? p PL = some n → n ∈ H)
    (h : SHandler σ T) {s s' : Sim σ T} (p : Nat) (m : Msg) (hloc : ∀ n, amGet? p s.procNodes = some n → n ∈ H)
    (c : Ctx H PL s) (hok : s.sendLocal h p m = .ok s') : Ctx H PL s' := by
  unfold Sim.sendLocal at hok
  split at hok
  · cases hok
  · rename_i n hn
    split at hok
    · cases hok
    · split at hok
      · cases hok
      · exact onLocal_ctx hzero hprocs h n p m (hloc n hn) c hok

end ctx

/-! ### the statements -/

theorem Ctx.mk' [LawfulTime T] {s : Sim σ T} (hi : s.ExactFate) (hup : s.AllUp)
    (hz : TimeOps.lt TimeOps.zero s.net.duplRate = false) (hd : ∀ d ∈ s.draws, LawfulTime.isDraw d) :
    Ctx s.handlers s.net.procLoc s := ⟨hi, hup.queued, rfl, rfl, hz, hd⟩

theorem Ctx.allUp [LawfulTime T] {H : List Nat} {PL : List (Nat × Nat)} {s : Sim σ T} (c : Ctx H PL s)
    (hprocs : ∀ p n, amGet? p PL = some n → n ∈ H) : s.AllUp :=
  ⟨by rw [c.procLoc, c.handlers]; exact hprocs, by rw [c.handlers]; exact c.queued⟩

/-- one step while no node is down and duplication is off -/
theorem ExactFate.step [LawfulTime T] (h : SHandler σ T) {s s' : Sim σ T} (b : Bool)
    (hi : s.ExactFate) (hup : s.AllUp) (hz : TimeOps.lt TimeOps.zero s.net.duplRate = false)
    (hd : ∀ d ∈ s.draws, LawfulTime.isDraw d) (hzero : LawfulTime.isDraw (TimeOps.zero : T))
    (hok : s.step h = .ok (b, s')) :
    s'.ExactFate ∧ s'.AllUp ∧ TimeOps.lt TimeOps.zero s'.net.duplRate = false ∧ s'.net.procLoc = s.net.procLoc ∧
      (∀ d ∈ s'.draws, LawfulTime.isDraw d) := by
  have c := step_ctx hzero hup.procs h b (Ctx.mk' hi hup hz hd) hok
  exact ⟨c.ef, c.allUp hup.procs, c.hz, c.procLoc, c.draws⟩

theorem ExactFate.steps [LawfulTime T] (h : SHandler σ T) (k : Nat) {s s' : Sim σ T} (b : Bool)
    (hi : s.ExactFate) (hup : s.AllUp) (hz : TimeOps.lt TimeOps.zero s.net.duplRate = false)
    (hd : ∀ d ∈ s.draws, LawfulTime.isDraw d) (hzero : LawfulTime.isDraw (TimeOps.zero : T))
    (hok : s.steps h k = .ok (b, s')) : s'.ExactFate ∧ s'.AllUp := by
  have c := steps_ctx hzero hup.procs h k b (Ctx.mk' hi hup hz hd) hok
  exact ⟨c.ef, c.allUp hup.procs⟩

theorem ExactFate.sendLocal [LawfulTime T] (h : SHandler σ T) {s s' : Sim σ T} (p : Nat) (m : Msg)
    (hi : s.ExactFate) (hup : s.AllUp) (hz : TimeOps.lt TimeOps.zero s.net.duplRate = false)
    (hloc : ∀ n, amGet? p s.procNodes = some n → n ∈ s.handlers)
    (hd : ∀ d ∈ s.draws, LawfulTime.isDraw d) (hzero : LawfulTime.isDraw (TimeOps.zero : T))
    (hok : s.sendLocal h p m = .ok s') : s'.ExactFate ∧ s'.AllUp := by
  have c := sendLocal_ctx hzero hup.procs h p m hloc (Ctx.mk' hi hup hz hd) hok
  exact ⟨c.ef, c.allUp hup.procs⟩

/-- **nothing is lost silently**: when the queue has run dry, every message sent has exactly one recorded fate -/
theorem every_send_has_one_fate [LawfulTime T] (h : SHandler σ T) (fuel : Nat) {s s' : Sim σ T}
    (hi : s.ExactFate) (hup : s.AllUp) (hz : TimeOps.lt TimeOps.zero s.net.duplRate = false)
    (hd : ∀ d ∈ s.draws, LawfulTime.isDraw d) (hzero : LawfulTime.isDraw (TimeOps.zero : T))
    (hrun : stepUntilNoEvents h fuel s = some (.ok s')) :
    ∀ mid, mid < s'.net.messageCount → s'.recvCount mid + s'.dropCount mid = 1 := by
  obtain ⟨c, hev⟩ := stepUntilNoEvents_ctx hzero hup.procs h fuel (Ctx.mk' hi hup hz hd) hrun
  intro mid hm
  have h1 := c.ef.exact mid hm
  have h2 : s'.queuedCopies mid = 0 := by
    unfold queuedCopies
    rw [hev]
    rfl
  rw [← fates_eq]
  omega

/-- … so a message that was never recorded as dropped has been received, exactly once -/
theorem delivered_once_if_not_dropped [LawfulTime T] (h : SHandler σ T) (fuel : Nat) {s s' : Sim σ T}
    (hi : s.ExactFate) (hup : s.AllUp) (hz : TimeOps.lt TimeOps.zero s.net.duplRate = false)
    (hd : ∀ d ∈ s.draws, LawfulTime.isDraw d) (hzero : LawfulTime.isDraw (TimeOps.zero : T))
    (hrun : stepUntilNoEvents h fuel s = some (.ok s')) (mid : Nat) (hm : mid < s'.net.messageCount)
    (hnd : s'.dropCount mid = 0) : s'.recvCount mid = 1 := by
  have := every_send_has_one_fate h fuel hi hup hz hd hzero hrun mid hm
  omega

end Sim

/-! ## Non-vacuity: the hypotheses of `every_send_has_one_fate` are met by the concrete run of `Sim.TraceDemo` -/
namespace Sim.TraceDemo

theorem s1_exact : s1.ExactFate where
  inv := s1_inv
  exact := by intro mid hm; exact absurd hm (Nat.not_lt_zero _)
  cancels := by intro id hid; cases hid
  timers := by
    intro n p e name id hp hg
    have hpend : e.pending = [] := by
      unfold proc? at hp
      split at hp
      · rename_i nd hnd
        have h1 := amGet?_eq_some_mem hnd
        have h2 := amGet?_eq_some_mem hp
        simp only [s1, List.mem_cons, List.not_mem_nil, or_false, Prod.mk.injEq] at h1
        rcases h1 with ⟨_, rfl⟩ | ⟨_, rfl⟩ <;>
          simp only [List.mem_cons, List.not_mem_nil, or_false, Prod.mk.injEq] at h2 <;>
          (obtain ⟨_, rfl⟩ := h2; rfl)
      · cases hp
    rw [hpend] at hg
    cases hg

theorem s1_up : s1.AllUp where
  procs := by
    intro p n hp
    have h1 := amGet?_eq_some_mem hp
    simp only [s1, List.mem_cons, List.not_mem_nil, or_false, Prod.mk.injEq] at h1
    rcases h1 with ⟨_, rfl⟩ | ⟨_, rfl⟩ <;> simp [s1]
  queued := by intro e he; cases he

theorem s1_loc : ∀ n, amGet? 1 s1.procNodes = some n → n ∈ s1.handlers := by
  intro n hn
  simp [s1, amGet?] at hn
  subst hn
  simp [s1]

/-- the run exists and is not trivial: after `send_local_message` to process 1 the queue holds two message copies and a timer;
    `step_until_no_events` (fuel 10) terminates with three messages issued, each received once and none dropped -/
example : ((s1.sendLocal h 1 ⟨0, []⟩).toOption.bind (fun s2 => stepUntilNoEvents h 10 s2)).map
    (fun r => r.toOption.map (fun s' =>
      (s'.net.messageCount, [0, 1, 2].map s'.recvCount, [0, 1, 2].map s'.dropCount, s'.events.length))) =
    some (some (3, [1, 1, 1], [0, 0, 0], 0)) := by decide

/-- every hypothesis of `every_send_has_one_fate` holds for the state after the `send_local_message`, so its conclusion holds
    for the concrete run above -/
example (s2 s' : Sim Nat Ticks) (hsend : s1.sendLocal h 1 ⟨0, []⟩ = .ok s2)
    (hrun : stepUntilNoEvents h 10 s2 = some (.ok s')) :
    ∀ mid, mid < s'.net.messageCount → s'.recvCount mid + s'.dropCount mid = 1 := by
  obtain ⟨hi2, hup2⟩ := ExactFate.sendLocal h 1 _ s1_exact s1_up rfl s1_loc hdraws hzero hsend
  obtain ⟨_, _, _, _, hr, hd⟩ := sendLocal_next hzero h 1 _ s1_inv hdraws hsend
  exact every_send_has_one_fate h 10 hi2 hup2 (by rw [hr]; rfl) (fun d hdd => hdraws d (hd d hdd)) hzero hrun

end Sim.TraceDemo

/-! ## Why `ExactFate` carries `cancels` and `timers`, and `ExactFate.sendLocal` the hypothesis `hloc`: counterexamples

As first stated `ExactFate` had the two fields `inv` and `exact` only (`ExactFate₀`), and `ExactFate.sendLocal` had no `hloc`.
* `c1`: an event id is cancelled before it is issued; the copy queued by the next same-node send is dead on arrival, so the new
  identifier has neither a fate nor a live copy (`ExactFate.sendMessage` for `ExactFate₀` is false).
* `c2`: a pending-timer table points at the id of a queued message copy; `cancel_timer` cancels the message, which then has neither
  a fate nor a live copy although no node is down (`ExactFate.step` for `ExactFate₀` is false, even with `cancels`).
* `c3`: `proc_nodes` places a process on a node without handler; a timer set by its handler during `send_local_message` is
  addressed to that node, so `AllUp` is lost (`ExactFate.sendLocal` without `hloc` is false). -/
namespace Sim.DeliveryCex
open Sim.TraceDemo (hzero)

/-- `ExactFate` as first stated -/
structure ExactFate₀ (s : Sim Nat Ticks) : Prop where
  inv : s.TraceInv []
  exact : ∀ mid, mid < s.net.messageCount → s.fates mid + s.queuedCopies mid = 1

/-- nothing has happened yet, but event id 0 is already in the cancellation set -/
def c1 : Sim Nat Ticks :=
  { clock := ⟨0⟩, net := { (SimNet.default : SimNet Ticks) with procLoc := [(1, 0)] }, canceled := [0] }

theorem c1_exact₀ : ExactFate₀ c1 :=
  ⟨TraceInv.of_empty c1 rfl rfl ⟨rfl, rfl, rfl⟩, fun _ hm => absurd hm (Nat.not_lt_zero _)⟩

/-- `ExactFate.sendMessage` as first stated is false -/
example : ¬ ∀ (s s' : Sim Nat Ticks) (m : Msg) (src dst : Nat), ExactFate₀ s →
    TimeOps.lt TimeOps.zero s.net.duplRate = false → (∀ d ∈ s.draws, LawfulTime.isDraw d) →
    LawfulTime.isDraw (TimeOps.zero : Ticks) → s.sendMessage m src dst (nameLen m.tip) = .ok s' → ExactFate₀ s' := by
  intro hall
  have hfact : (c1.sendMessage ⟨0, []⟩ 1 1 (nameLen 0)).toOption.map
      (fun s' => (s'.net.messageCount, s'.fates 0 + s'.queuedCopies 0)) = some (1, 0) := by decide
  cases hst : c1.sendMessage ⟨0, []⟩ 1 1 (nameLen 0) with
  | error e => rw [hst] at hfact; cases hfact
  | ok s' =>
    rw [hst] at hfact
    simp only [Except.toOption, Option.map_some, Option.some.injEq, Prod.mk.injEq] at hfact
    have h' := hall c1 s' ⟨0, []⟩ 1 1 c1_exact₀ rfl (by intro d hd; cases hd) hzero hst
    have := h'.exact 0 (by rw [hfact.1]; exact Nat.zero_lt_one)
    omega

/-- message 0 (inside node 0) is queued with event id 1; the pending-timer table of process 1 says that timer 7 has event id 1;
    a timer 8 is about to fire -/
def c2 : Sim Nat Ticks :=
  { clock := ⟨0⟩,
    net := { (SimNet.default : SimNet Ticks) with procLoc := [(1, 0)], messageCount := 1 },
    events := [⟨0, ⟨1⟩, 0, 0, .timer 1 8⟩, ⟨1, ⟨5⟩, 0, 0, .msg 0 ⟨0, []⟩ 1 0 1 0⟩],
    eventCount := 2,
    nodes := [(0, { skew := ⟨0⟩, procs := [(1, { st := 0, pending := [(7, 1)] })] })],
    procNodes := [(1, 0)], handlers := [0],
    trace := [.sent ⟨0⟩ 0 0 1 0 1 ⟨0, []⟩] }

/-- on a timer, cancel timer 7 -/
def hc : SHandler Nat Ticks := fun _ st i _ _ =>
  match i with
  | .timer _ => (st, [.cancel 7], 0)
  | _ => (st, [], 0)

theorem c2_load (mid : Nat) : c2.fates mid + c2.queuedCopies mid = if mid = 0 then 1 else 0 := by
  by_cases h : mid = 0
  · subst h; decide
  · have h' : ¬ 0 = mid := fun e => h e.symm
    simp [fates, queuedCopies, c2, SLog.fateOf, QData.mid?, h, h']

theorem c2_exact₀ : ExactFate₀ c2 := by
  refine ⟨⟨by decide, by decide, by decide, ?_, ?_, ?_, by decide⟩, ?_⟩
  · intro mid h
    rw [c2_load] at h
    split at h
    · subst_vars; decide
    · cases h
  · intro mid _
    rw [c2_load]
    split <;> omega
  · intro mid
    rw [c2_load]
    split <;> omega
  · intro mid hm
    have : mid = 0 := by
      have : mid < 1 := hm
      omega
    subst this
    decide

theorem c2_up : c2.AllUp := by
  refine ⟨?_, by decide⟩
  intro p n hp
  have h1 := amGet?_eq_some_mem hp
  simp only [c2, SimNet.default, List.mem_singleton, Prod.mk.injEq] at h1
  rw [h1.2]
  decide

/-- `ExactFate.step` as first stated is false (no event id is cancelled before it is issued in `c2`, so `cancels` alone does not
    help) -/
example : ¬ ∀ (h : SHandler Nat Ticks) (s s' : Sim Nat Ticks) (b : Bool), ExactFate₀ s → s.AllUp →
    TimeOps.lt TimeOps.zero s.net.duplRate = false → (∀ d ∈ s.draws, LawfulTime.isDraw d) →
    LawfulTime.isDraw (TimeOps.zero : Ticks) → s.step h = .ok (b, s') → ExactFate₀ s' := by
  intro hall
  have hfact : (c2.step hc).toOption.map
      (fun r => (r.2.net.messageCount, r.2.fates 0 + r.2.queuedCopies 0)) = some (1, 0) := by decide
  cases hst : c2.step hc with
  | error e => rw [hst] at hfact; cases hfact
  | ok r =>
    obtain ⟨b, s'⟩ := r
    rw [hst] at hfact
    simp only [Except.toOption, Option.map_some, Option.some.injEq, Prod.mk.injEq] at hfact
    have h' := hall hc c2 s' b c2_exact₀ c2_up rfl (by intro d hd; cases hd) hzero hst
    have := h'.exact 0 (by rw [hfact.1]; exact Nat.zero_lt_one)
    omega

/-- process 1 is placed (`proc_nodes`) on node 0, which has no handler; the network knows no process -/
def c3 : Sim Nat Ticks :=
  { clock := ⟨0⟩, net := SimNet.default,
    nodes := [(0, { skew := ⟨0⟩, procs := [(1, { st := 0 })] })], procNodes := [(1, 0)], handlers := [] }

/-- on a local message, set timer 7 -/
def ht : SHandler Nat Ticks := fun _ st i _ _ =>
  match i with
  | .loc _ => (st, [.set 7 5 false], 0)
  | _ => (st, [], 0)

theorem c3_exact : c3.ExactFate where
  inv := TraceInv.of_empty c3 rfl rfl ⟨rfl, rfl, rfl⟩
  exact := fun mid hm => absurd hm (Nat.not_lt_zero _)
  cancels := by intro id hid; cases hid
  timers := by
    intro n p e name id hp hg
    have hpend : e.pending = [] := by
      unfold proc? at hp
      split at hp
      · rename_i nd hnd
        have h1 := amGet?_eq_some_mem hnd
        have h2 := amGet?_eq_some_mem hp
        simp only [c3, List.mem_singleton, Prod.mk.injEq] at h1
        obtain ⟨_, rfl⟩ := h1
        simp only [List.mem_singleton, Prod.mk.injEq] at h2
        obtain ⟨_, rfl⟩ := h2
        rfl
      · cases hp
    rw [hpend] at hg
    cases hg

theorem c3_up : c3.AllUp where
  procs := by intro p n hp; simp [c3, SimNet.default, amGet?] at hp
  queued := by intro e he; cases he

/-- `ExactFate.sendLocal` without `hloc` is false: `AllUp` is lost -/
example : ¬ ∀ (h : SHandler Nat Ticks) (s s' : Sim Nat Ticks) (p : Nat) (m : Msg), s.ExactFate → s.AllUp →
    TimeOps.lt TimeOps.zero s.net.duplRate = false → (∀ d ∈ s.draws, LawfulTime.isDraw d) →
    LawfulTime.isDraw (TimeOps.zero : Ticks) → s.sendLocal h p m = .ok s' → s'.ExactFate ∧ s'.AllUp := by
  intro hall
  have hfact : (c3.sendLocal ht 1 ⟨0, []⟩).toOption.map
      (fun s' => (s'.events.map (·.dst), s'.handlers)) = some ([0], []) := by decide
  cases hst : c3.sendLocal ht 1 ⟨0, []⟩ with
  | error e => rw [hst] at hfact; cases hfact
  | ok s' =>
    rw [hst] at hfact
    simp only [Except.toOption, Option.map_some, Option.some.injEq, Prod.mk.injEq] at hfact
    have h' := (hall ht c3 s' 1 ⟨0, []⟩ c3_exact c3_up rfl (by intro d hd; cases hd) hzero hst).2
    cases hev : s'.events with
    | nil => rw [hev] at hfact; cases hfact.1
    | cons e es =>
      have := h'.queued e (by rw [hev]; exact List.mem_cons_self)
      rw [hfact.2] at this
      cases this

end Sim.DeliveryCex
end Anysystem
