import Anysystem.Model.Strategy
import Anysystem.Spec.SearchSpec
/-!
# C11: the relativisation to `GoodState` is necessary (finding D1), kernel-checked

With the code as it is (`cfg = {}`), `set_timer` on a name that is already pending pushes a second
`TimerFired` event and leaves the old one pending; when the *old* event fires, the name is removed
from `pending_timers` although the new event is still pending.  `pending_timers` is not part of the
state identity, so two states with equal keys (and equal network settings and ordering mode) can have
different futures: below, delivering message `0` sets a timer (`set_timer_once`) in `w₁`, where
`pending_timers` is wrongly empty, and does not in `w₂`.

One node `0` with one process `0`:
* local message of type 0: send message 7 to itself, `set_timer(5)`;
* local message of type 1: `set_timer(5)`;
* message of type 7: `set_timer_once(5)`.

History A: local 0, local 1 (override: events msg#0, timer#1, timer#2; pending {5}), timer#1 fires
(pending {} although timer#2 is pending).  History B: local 0, timer#1 fires (pending {}), local 1
(timer#2, pending {5}).  Both end with the events {0: message 7, 2: timer 5}.
-/
namespace Anysystem
namespace C11W

def hD1 : Handler Unit := fun _ st i =>
  match i with
  | .loc m => if m.tip = 0 then (st, [.send ⟨7, []⟩ 0, .set 5 1 false])
              else if m.tip = 1 then (st, [.set 5 1 false]) else (st, [])
  | .msg m _ => if m.tip = 7 then (st, [.set 5 1 true]) else (st, [])
  | .timer _ => (st, [])

/-- one node, one process, nothing pending -/
def init : McSys Unit :=
  { nodes := [(0, { procs := [(0, { st := () })] })], net := { procLoc := [(0, 0)] } }

/-- the result of an operation that does not fail (`init` otherwise; `C11_D1_runs_ok` shows that no
    operation below fails) -/
def get (r : R (McSys Unit)) : McSys Unit := match r with
  | .ok s => s
  | .error _ => init

def isOk {α : Type} (r : R α) : Bool := match r with
  | .ok _ => true
  | .error _ => false

def a1 : R (McSys Unit) := init.sendLocal {} hD1 0 0 ⟨0, []⟩
def a2 : R (McSys Unit) := (get a1).sendLocal {} hD1 0 0 ⟨1, []⟩
def a3 : R (McSys Unit) := (get a2).applyAlt {} hD1 (.deliver 1)
def b2 : R (McSys Unit) := (get a1).applyAlt {} hD1 (.deliver 1)
def b3 : R (McSys Unit) := (get b2).sendLocal {} hD1 0 0 ⟨1, []⟩

/-- history A: local 0, local 1, the old timer event fires -/
def w₁ : McSys Unit := get a3
/-- history B: local 0, the timer fires, local 1 -/
def w₂ : McSys Unit := get b3

/-- the keys of the successors (`[]` if `successors` fails; it does not, see `C11_D1_runs_ok`) -/
def succKeys (s : McSys Unit) : List (McSys.Key Unit) :=
  match s.successors {} hD1 with
  | .ok cs => cs.map McSys.key
  | .error _ => []

theorem C11_D1_runs_ok :
    isOk a1 = true ∧ isOk a2 = true ∧ isOk a3 = true ∧ isOk b2 = true ∧ isOk b3 = true ∧
    isOk (w₁.successors {} hD1) = true ∧ isOk (w₂.successors {} hD1) = true := by decide

/-- equal keys, network settings and ordering mode, but different futures -/
theorem C11_D1_witness :
    w₁.key = w₂.key ∧ w₁.net = w₂.net ∧ w₁.mode = w₂.mode ∧ succKeys w₁ ≠ succKeys w₂ := by decide

/-- what differs: `pending_timers` (not part of the key) -/
theorem C11_D1_pending :
    w₁.nodes.map (fun nd => nd.2.procs.map (fun pe => pe.2.pending)) = [[[]]] ∧
    w₂.nodes.map (fun nd => nd.2.procs.map (fun pe => pe.2.pending)) = [[[5]]] := by decide

/-- in `w₁` the delivery of message 0 pushes a new timer event (id 3), in `w₂` it does not -/
theorem C11_D1_successor_events :
    (succKeys w₁).map (fun k => k.events.events.map (·.1)) = [[2, 3], [0]] ∧
    (succKeys w₂).map (fun k => k.events.events.map (·.1)) = [[2], [0]] := by decide

/-- consequently the unrelativised congruence fails for this program, whatever the predicates -/
theorem C11_D1_not_congruent (p : Preds Unit) (hash : McSys.Key Unit → Nat) :
    ¬ Congruent (mcTSys {} hD1 p hash) := by
  intro hc
  obtain ⟨hk, _, _, hne⟩ := C11_D1_witness
  obtain ⟨_, _, hs, _⟩ := hc w₁ w₂ hk
  apply hne
  obtain ⟨_, _, _, _, _, h1, _⟩ := C11_D1_runs_ok
  cases hca : w₁.successors {} hD1 with
  | error e =>
    rw [hca] at h1
    exact absurd h1 (by simp [isOk])
  | ok ca =>
    obtain ⟨cb, hcb, hm⟩ := hs ca hca
    have hcb' : w₂.successors {} hD1 = .ok cb := hcb
    simp only [succKeys, hca, hcb']
    exact hm

end C11W
end Anysystem
